(** C16 — the key-version-value stores never roll back and agree with each other.
    Statements only; proofs are in Proofs/KvvProofs.v.  The model (Model/Kvv.v) is the code with
    the repairs of notes/fixes/C16-*.patch; the [_refuted] examples at the end show the
    statements failing for the code as it was.

    Histories are lists of requests [op] (put / put_with_version / put_batch / delete / get /
    get_version / get_prefix / reopen / enter / prepare / commit) over arbitrary keys, versions
    and values; [m_run], [d_run], [c_run] are the states of the memory store, the disk store
    and the cloud-staged store after a history, started empty.  [vle a b]: if the key had
    version [a] it now has version [b >= a] (and is still there). *)
From VLS Require Import Base.U64 Base.Eqb Model.Kvv Proofs.KvvProofs.

(** * In-memory and on-disk backends *)

(** a key's version never decreases - between any two points of any history *)
Theorem C16_mem_version_monotone :
  forall (p : profile) (pre post : list op) (k : key),
    vle (version_of (m_run p pre) k) (version_of (m_run p (pre ++ post)) k).
Proof. exact m_version_monotone. Qed.
Print Assumptions C16_mem_version_monotone.

Theorem C16_disk_version_monotone :
  forall (p : profile) (pre post : list op) (k : key),
    vle (version_of (table (d_run p pre)) k) (version_of (table (d_run p (pre ++ post))) k).
Proof. exact d_version_monotone. Qed.
Print Assumptions C16_disk_version_monotone.

(** the separately cached version ([get_version], the version checks) is the version in the
    table, after every history including reopen points *)
Theorem C16_disk_cache_is_table :
  forall (p : profile) (ops : list op) (k : key),
    lookup k (cache (d_run p ops)) = version_of (table (d_run p ops)) k.
Proof. exact d_cache_is_table. Qed.
Print Assumptions C16_disk_cache_is_table.

(** a write at the current version with different content, or below it, is refused and
    changes nothing - as a single write and as an entry of a batch (judged against the store
    as the entries before it leave it) *)
Theorem C16_mem_same_version_other_content_refused :
  forall (s : store) (k : key) (ver : N) (val0 val : value),
    lookup k s = Some (ver, val0) -> val0 <> val -> m_pwv s k ver val = (s, RErr).
Proof. exact m_same_version_other_content. Qed.
Print Assumptions C16_mem_same_version_other_content_refused.

Theorem C16_mem_lower_version_refused :
  forall (s : store) (k : key) (v0 : N) (val0 : value) (ver : N) (val : value),
    lookup k s = Some (v0, val0) -> ver < v0 -> m_pwv s k ver val = (s, RErr).
Proof. exact m_lower_version. Qed.
Print Assumptions C16_mem_lower_version_refused.

Theorem C16_mem_batch_same_version_other_content_refused :
  forall (s : store) (l1 : list kvv) (s1 : store) (k : key) (ver : N) (val0 val : value) (l2 : list kvv),
    batch_go s l1 = Some s1 -> lookup k s1 = Some (ver, val0) -> val0 <> val ->
    m_batch s (l1 ++ (k, (ver, val)) :: l2) = (s, RErr).
Proof. exact m_batch_same_version_other_content. Qed.
Print Assumptions C16_mem_batch_same_version_other_content_refused.

Theorem C16_mem_batch_lower_version_refused :
  forall (s : store) (l1 : list kvv) (s1 : store) (k : key) (v0 : N) (val0 : value) (ver : N) (val : value)
         (l2 : list kvv),
    batch_go s l1 = Some s1 -> lookup k s1 = Some (v0, val0) -> ver < v0 ->
    m_batch s (l1 ++ (k, (ver, val)) :: l2) = (s, RErr).
Proof. exact m_batch_lower_version. Qed.
Print Assumptions C16_mem_batch_lower_version_refused.

(** on disk, in every reachable state (healthy or with a poisoned cache mutex): not accepted,
    nothing changed *)
Theorem C16_disk_same_version_other_content_refused :
  forall (p : profile) (ops : list op) (k : key) (ver : N) (val0 val : value),
    let d := d_run p ops in
    lookup k (table d) = Some (ver, val0) -> val0 <> val ->
    fst (d_pwv d k ver val) = d /\ snd (d_pwv d k ver val) <> ROk.
Proof. intros p ops k ver val0 val d. apply d_same_version_other_content, d_run_inv. Qed.
Print Assumptions C16_disk_same_version_other_content_refused.

Theorem C16_disk_lower_version_refused :
  forall (p : profile) (ops : list op) (k : key) (v0 : N) (val0 : value) (ver : N) (val : value),
    let d := d_run p ops in
    lookup k (table d) = Some (v0, val0) -> ver < v0 ->
    fst (d_pwv d k ver val) = d /\ snd (d_pwv d k ver val) <> ROk.
Proof. intros p ops k v0 val0 ver val d. apply d_lower_version, d_run_inv. Qed.
Print Assumptions C16_disk_lower_version_refused.

Theorem C16_disk_batch_same_version_other_content_refused :
  forall (p : profile) (ops : list op) (l1 : list kvv) (s1 : store) (k : key) (ver : N) (val0 val : value)
         (l2 : list kvv),
    let d := d_run p ops in
    batch_go (table d) l1 = Some s1 -> lookup k s1 = Some (ver, val0) -> val0 <> val ->
    let '(d', r) := d_batch d (l1 ++ (k, (ver, val)) :: l2) in
    r <> ROk /\ table d' = table d /\ cache d' = cache d.
Proof.
  intros p ops l1 s1 k ver val0 val l2 d. apply d_batch_same_version_other_content, d_run_inv.
Qed.
Print Assumptions C16_disk_batch_same_version_other_content_refused.

(** batched writes apply entirely or not at all: a refused batch leaves the store as it was;
    an accepted one leaves every key of the batch at its last entry and every other key
    untouched (there is no state in between: one function application) *)
Theorem C16_mem_batch_atomic :
  forall (s : store) (l : list kvv) (s' : store) (r : res),
    m_batch s l = (s', r) ->
    (r = RErr /\ s' = s) \/
    (r = ROk /\ batch_go s l = Some s' /\
     forall k, lookup k s' = match last_entry k l with Some e => Some e | None => lookup k s end).
Proof.
  intros s l s' r E. apply m_batch_atomic in E. destruct E as [E|[E G]]; [left; exact E|right].
  repeat split; auto. intros k. apply (batch_go_spec l s s' k G).
Qed.
Print Assumptions C16_mem_batch_atomic.

(** on disk table and version cache move together or not at all *)
Theorem C16_disk_batch_atomic :
  forall (p : profile) (ops : list op) (l : list kvv),
    let d := d_run p ops in
    let '(d', r) := d_batch d l in
    (r = ROk /\ batch_go (table d) l = Some (table d') /\ cache d' = versions_of (table d')) \/
    (r <> ROk /\ table d' = table d /\ cache d' = cache d).
Proof. intros p ops l d. apply d_batch_atomic, d_run_inv. Qed.
Print Assumptions C16_disk_batch_atomic.

(** reads return the last accepted write: after any history, [get k] holds the value (and the
    version, where the request named one) of the last write to [k] that was answered Ok(()),
    and nothing if there was none *)
Theorem C16_mem_get_last_accepted :
  forall (p : profile) (ops : list op) (k : key),
    agrees (lookup k (m_run p ops)) (last_write k (m_writes p [] ops)).
Proof. exact m_get_last_accepted. Qed.
Print Assumptions C16_mem_get_last_accepted.

Theorem C16_disk_get_last_accepted :
  forall (p : profile) (ops : list op) (k : key),
    agrees (lookup k (table (d_run p ops))) (last_write k (d_writes p d_init ops)).
Proof. exact d_get_last_accepted. Qed.
Print Assumptions C16_disk_get_last_accepted.

(** [get_prefix] (a range scan that stops at the first key without the prefix) returns exactly
    the entries [get] would return for the keys with that prefix, in key order *)
Theorem C16_get_prefix_is_get :
  forall (p : profile) (ops : list op) (q k : key) (e : vv),
    (In (k, e) (range_prefix q (m_run p ops)) <->
       is_prefix q k = true /\ lookup k (m_run p ops) = Some e) /\
    (In (k, e) (range_prefix q (table (d_run p ops))) <->
       is_prefix q k = true /\ lookup k (table (d_run p ops)) = Some e) /\
    ksorted (range_prefix q (m_run p ops)) /\ ksorted (range_prefix q (table (d_run p ops))).
Proof.
  intros p ops q k e. split; [|split; [|split]].
  - apply range_prefix_spec, m_run_sorted.
  - apply range_prefix_spec, d_run_sorted.
  - apply range_prefix_sorted, m_run_sorted.
  - apply range_prefix_sorted, d_run_sorted.
Qed.
Print Assumptions C16_get_prefix_is_get.

(** both give identical results for identical request sequences: the answers agree request by
    request up to and including the first panic (the only one there is: [put]/[delete] on a
    key at version 2^64-1 in a build with overflow checks); without a panic the answers, the
    contents and the cached versions are identical *)
Theorem C16_disk_refines_mem :
  forall (p : profile) (ops : list op),
    cut (d_trace p d_init ops) = cut (m_trace p [] ops) /\
    (~ In OAbort (m_trace p [] ops) ->
     d_trace p d_init ops = m_trace p [] ops /\
     table (d_run p ops) = m_run p ops /\
     cache (d_run p ops) = versions_of (m_run p ops) /\
     vpoison (d_run p ops) = false).
Proof. exact disk_refines_mem. Qed.
Print Assumptions C16_disk_refines_mem.

Theorem C16_disk_refines_mem_release :
  forall ops : list op,
    d_trace Release d_init ops = m_trace Release [] ops /\
    table (d_run Release ops) = m_run Release ops.
Proof.
  intros ops. destruct (disk_refines_mem Release ops) as [_ H].
  destruct (H (m_trace_release ops [])) as (A & B & _). auto.
Qed.
Print Assumptions C16_disk_refines_mem_release.

(** the on-disk backend returns the same contents after being reopened - at any point of any
    history; on a healthy store reopening is the identity on the whole state *)
Theorem C16_reopen_id :
  forall (p : profile) (ops : list op),
    let d := d_run p ops in
    table (d_reopen d) = table d /\ cache (d_reopen d) = cache d /\
    (vpoison d = false -> d_reopen d = d).
Proof. exact d_reopen_id. Qed.
Print Assumptions C16_reopen_id.

(** * Cloud-staged backend *)

(** the local store changes only by commit (any state, any request, repaired or not); the
    restore path put_batch_unlogged, which applies state fetched from external storage at
    start-up and is refused inside a transaction, is the one other writer - see the restore
    theorems below *)
Theorem C16_cloud_local_changes_only_by_commit :
  forall (fixed : bool) (p : profile) (sid : value) (c : cloud) (o : op),
    o <> Commit -> (forall l, o <> Unlogged l) -> local (fst (c_step_gen fixed p sid c o)) = local c.
Proof. exact c_local_only_by_commit. Qed.
Print Assumptions C16_cloud_local_changes_only_by_commit.

(** never lowers a version: what a transaction sees of a key ([get]/[get_version]: the staged
    entry, else the local one) never goes down, over any history in which every [enter] can
    increment the last-writer version ([enters_ok]; always true in a debug build); the
    store's own last-writer record is excluded here - [prepare] drops it from an otherwise
    empty log by design - and covered by the next theorem *)
Theorem C16_cloud_version_never_lowered :
  forall (p : profile) (sid : value) (pre post : list op) (k : key),
    enters_ok p sid c_init (pre ++ post) -> k <> WRITER ->
    vle (visv (c_run p sid pre) k) (visv (c_run p sid (pre ++ post)) k).
Proof. exact c_version_never_lowered. Qed.
Print Assumptions C16_cloud_version_never_lowered.

Corollary C16_cloud_version_never_lowered_debug :
  forall (sid : value) (pre post : list op) (k : key),
    k <> WRITER -> vle (visv (c_run Debug sid pre) k) (visv (c_run Debug sid (pre ++ post)) k).
Proof. intros. apply c_version_never_lowered; auto. apply enters_ok_debug. Qed.
Print Assumptions C16_cloud_version_never_lowered_debug.

(** the local store never lowers the version of any key (the last-writer record included),
    unconditionally *)
Theorem C16_cloud_local_version_never_lowered :
  forall (p : profile) (sid : value) (pre post : list op) (k : key),
    vle (version_of (local (c_run p sid pre)) k) (version_of (local (c_run p sid (pre ++ post))) k).
Proof. exact c_local_version_never_lowered. Qed.
Print Assumptions C16_cloud_local_version_never_lowered.

(** a transaction reads its own writes by key: after an accepted write, [get] of that key
    answers that write, in every reachable state *)
Theorem C16_cloud_read_your_writes :
  forall (p : profile) (sid : value) (ops : list op),
    enters_ok p sid c_init ops ->
    let c := c_run p sid ops in
    (forall k ver val c', c_pwv c k ver val = (c', ROk) ->
       c_get c' k = (c', OVal (Some (ver, val)))) /\
    (forall k val c', c_put p c k val = (c', ROk) ->
       exists ver, c_get c' k = (c', OVal (Some (ver, val)))) /\
    (forall l c', c_batch c l = (c', ROk) ->
       forall k e, last_entry k l = Some e -> c_get c' k = (c', OVal (Some e))).
Proof.
  intros p sid ops EO c. pose proof (c_run_inv p sid ops EO) as Hi. repeat split.
  - intros k ver val c' E. apply c_pwv_ok in E; auto. destruct E as (H & V & _).
    rewrite c_get_healthy, V; auto.
  - intros k val c' E. apply c_put_ok in E; auto. destruct E as (H & [ver V] & _).
    exists ver. rewrite c_get_healthy, V; auto.
  - intros l c' E k e LE. destruct (c_batch_ok l c c' Hi E k e LE) as [H V].
    rewrite c_get_healthy, V; auto.
Qed.
Print Assumptions C16_cloud_read_your_writes.

(** commit writes exactly the commit log and cannot fail, in every reachable state with an
    open transaction *)
Theorem C16_cloud_commit_writes_the_log :
  forall (p : profile) (sid : value) (ops : list op) (l : store),
    enters_ok p sid c_init ops ->
    let c := c_run p sid ops in
    cpoison c = false -> clog c = Some l ->
    exists s', c_commit c = (mkcloud s' None false, ROk) /\
               forall k, lookup k s' = match lookup k l with Some e => Some e | None => lookup k (local c) end.
Proof. intros p sid ops l EO c P L. apply c_commit_ok; auto. apply c_run_inv; auto. Qed.
Print Assumptions C16_cloud_commit_writes_the_log.

(** committed = reported: whenever a report [m] stands (the last [prepare] answered [m] and no
    write request, [enter] or [commit] came after it - reads may), [commit] succeeds and changes
    the local store by exactly the entries of [m], each of which is a real change.  Commits
    reached with no standing report are the known finding, see
    [C16_cloud_unreported_commit_refuted]. *)
Theorem C16_cloud_committed_is_reported :
  forall (p : profile) (sid : value) (ops : list op) (m : list kvv),
    enters_ok p sid c_init ops ->
    snd (c_run_rep p sid ops) = Some m ->
    let c := c_run p sid ops in
    exists s',
      c_commit c = (mkcloud s' None false, ROk) /\
      (forall k, lookup k s' = match lookup k m with Some e => Some e | None => lookup k (local c) end) /\
      Forall (fun e : kvv => lookup (fst e) (local c) <> Some (snd e)) m.
Proof. exact c_committed_is_reported. Qed.
Print Assumptions C16_cloud_committed_is_reported.

(** * The restore path (put_batch_unlogged; histories above already range over it: on the plain
      stores it is put_batch, so monotonicity, atomicity, last-accepted-write, refinement hold
      for it as stated) *)

(** every record of a restored list, tombstones (empty values) included, is in the local
    store afterwards with its version *)
Theorem C16_restore_records_kept :
  forall (c : cloud) (l : list kvv) (c' : cloud),
    c_unlogged c l = (c', ROk) ->
    forall k e, last_entry k l = Some e -> lookup k (local c') = Some e.
Proof. exact c_restore_records_kept. Qed.
Print Assumptions C16_restore_records_kept.

(** so a later list serving one of those keys at a lower version - the replay of an older
    authentic copy, e.g. the pre-deletion record of a forgotten channel - is refused whole *)
Theorem C16_restore_replay_refused :
  forall (c : cloud) (l : list kvv) (c1 : cloud) (k : key) (n : N) (val : value),
    c_unlogged c l = (c1, ROk) -> last_entry k l = Some (n, val) ->
    forall (l2 : list kvv) (v : N) (x : value),
      In (k, (v, x)) l2 -> v < n -> c_unlogged c1 l2 = (c1, RErr).
Proof. exact c_restore_replay_refused. Qed.
Print Assumptions C16_restore_replay_refused.

Theorem C16_plain_restore_replay_refused :
  forall (s : store) (l : list kvv) (s1 : store) (k : key) (n : N) (val : value),
    m_batch s l = (s1, ROk) -> last_entry k l = Some (n, val) ->
    forall (l2 : list kvv) (v : N) (x : value),
      In (k, (v, x)) l2 -> v < n -> m_batch s1 l2 = (s1, RErr).
Proof. exact m_restore_replay_refused. Qed.
Print Assumptions C16_plain_restore_replay_refused.

(** the list is judged as the caller handed it over, repeated keys included: a list in which a
    key comes back at a lower version - or at the same version with other content - after an
    earlier entry of the same list is refused whole (nothing of it reaches the local store);
    [l1], [l2], [l3] are arbitrary *)
Theorem C16_restore_repeated_key_refused :
  forall (c : cloud) (l1 : list kvv) (k : key) (n : N) (x1 : value) (l2 : list kvv) (v : N) (x : value)
         (l3 : list kvv),
    v < n \/ (v = n /\ x <> x1) ->
    let l := l1 ++ (k, (n, x1)) :: l2 ++ (k, (v, x)) :: l3 in
    snd (c_unlogged c l) <> ROk /\ local (fst (c_unlogged c l)) = local c.
Proof. exact c_restore_repeated_key_refused. Qed.
Print Assumptions C16_restore_repeated_key_refused.

Theorem C16_plain_restore_repeated_key_refused :
  forall (s : store) (l1 : list kvv) (k : key) (n : N) (x1 : value) (l2 : list kvv) (v : N) (x : value)
         (l3 : list kvv),
    v < n \/ (v = n /\ x <> x1) ->
    m_batch s (l1 ++ (k, (n, x1)) :: l2 ++ (k, (v, x)) :: l3) = (s, RErr).
Proof. exact m_restore_repeated_key_refused. Qed.
Print Assumptions C16_plain_restore_repeated_key_refused.

(** the local store of a disk-backed cloud store never lowers the version of any key over any
    history with restarts ([cr_run]: a restart drops the open transaction, keeps the disk) *)
Theorem C16_cloud_restart_local_version_never_lowered :
  forall (p : profile) (sid : value) (pre post : list op) (k : key),
    vle (version_of (local (cr_run p sid pre)) k) (version_of (local (cr_run p sid (pre ++ post))) k).
Proof. exact cr_local_version_never_lowered. Qed.
Print Assumptions C16_cloud_restart_local_version_never_lowered.

(** non-vacuity: a fresh replica restores a list holding a tombstone for a key it never saw;
    after a restart the older live copy of that key is refused *)
Example C16_nonvacuous_restore :
  let ops := [Unlogged [([97], (3, [])); ([98], (0, [120]))]; Reopen] in
  local (cr_run Debug (repeat 7 16) ops) = [([97], (3, [])); ([98], (0, [120]))] /\
  snd (cr_step Debug (repeat 7 16) (cr_run Debug (repeat 7 16) ops) (Unlogged [([98], (0, [120])); ([97], (1, [120]))])) = OErr /\
  snd (cr_step Debug (repeat 7 16) (cr_run Debug (repeat 7 16) ops) (Unlogged [([97], (3, []))])) = OUnit.
Proof. vm_compute. repeat split. Qed.
(** ... and a list replaying the old record after the current one is refused, while the same
    two records oldest first are accepted *)
Example C16_nonvacuous_repeated_key :
  snd (c_unlogged c_init [([97], (1, [120])); ([97], (0, [121]))]) = RErr /\
  snd (c_unlogged c_init [([97], (1, [120])); ([97], (1, [121]))]) = RErr /\
  c_unlogged c_init [([97], (0, [121])); ([97], (1, [120])); ([97], (1, [120]))] =
    (mkcloud [([97], (1, [120]))] None false, ROk).
Proof. vm_compute. repeat split. Qed.

(** * Non-vacuity *)
Definition kA : key := [97].
Definition kB : key := [98].
Definition vX : value := [120].
Definition vY : value := [121].
Definition sid0 : value := repeat 7 16.

(** a history with accepted and refused writes, a batch with a repeated key and a reopen point,
    on which the hypotheses of the theorems above hold *)
Example C16_nonvacuous_plain :
  let ops := [PutV kA 1 vX; Put kA vY; PutV kA 2 vX; Batch [(kA, (3, vX)); (kB, (0, vY)); (kA, (3, vX))];
              Reopen; PutV kA 3 vY; Delete kB] in
  m_trace Debug [] ops = [OUnit; OUnit; OErr; OUnit; OUnit; OErr; OUnit] /\
  d_trace Debug d_init ops = m_trace Debug [] ops /\
  table (d_run Debug ops) = [(kA, (3, vX)); (kB, (1, []))] /\
  lookup kA (m_run Debug ops) = Some (3, vX) /\
  last_write kA (m_writes Debug [] ops) = Some (Some 3, vX).
Proof. vm_compute. repeat split. Qed.

(** a transaction whose report stands at commit time, with a non-empty report *)
Example C16_nonvacuous_cloud :
  let ops := [Enter; Put kA vX; Put kA vY; PutV kB 4 vX; Prepare; Get kA] in
  enters_ok Release sid0 c_init ops /\
  snd (c_run_rep Release sid0 ops) = Some [(WRITER, (0, sid0)); (kA, (0, vY)); (kB, (4, vX))] /\
  visv (c_run Release sid0 ops) kB = Some 4 /\
  fst (c_commit (c_run Release sid0 ops)) =
    mkcloud [(WRITER, (0, sid0)); (kA, (0, vY)); (kB, (4, vX))] None false.
Proof.
  split.
  - intros pre post E. right. destruct pre as [|o pre'].
    + vm_compute. exact Logic.I.
    + exfalso. cbn [app] in E. inversion E as [[Eo Et]].
      assert (In Enter (pre' ++ Enter :: post)) as H by (apply in_or_app; right; left; reflexivity).
      rewrite <- Et in H. cbn in H. intuition discriminate.
  - vm_compute. repeat split.
Qed.

(** * The unrepaired code: the statements fail *)

(** put_with_version 5 then 3 inside one transaction: the visible version went 5 -> 3
    (F12; [c_step_gen false] is the store without the staged-version check) *)
Definition c_run_old (p : profile) (sid : value) (ops : list op) : cloud :=
  fold_left (fun c o => fst (c_step_gen false p sid c o)) ops c_init.
Example C16_old_cloud_version_lowered_refuted :
  exists (pre post : list op) (k : key),
    k <> WRITER /\
    ~ vle (visv (c_run_old Debug sid0 pre) k) (visv (c_run_old Debug sid0 (pre ++ post)) k).
Proof.
  exists [Enter; PutV kA 5 vX], [PutV kA 3 vY], kA. split; [discriminate|].
  vm_compute. intros H. apply H. reflexivity.
Qed.
(** ... while the repaired store refuses the second write *)
Example C16_cloud_version_lowered_fixed :
  snd (c_step Debug sid0 (c_run Debug sid0 [Enter; PutV kA 5 vX]) (PutV kA 3 vY)) = OErr.
Proof. vm_compute. reflexivity. Qed.

(** put_batch [a@2=x; a@1=z] on a store holding a@1=z: the memory store answered Ok (and
    ended at a@1=z), the disk store answered VersionMismatch *)
Example C16_old_batch_backends_disagree_refuted :
  exists (s : store) (l : list kvv),
    snd (m_batch_old s l) <> snd (d_batch_old (mkdisk s (versions_of s) false) l).
Proof.
  exists [(kA, (1, [122]))], [(kA, (2, vX)); (kA, (1, [122]))]. vm_compute. discriminate.
Qed.
Example C16_batch_backends_agree_fixed :
  let s := [(kA, (1, [122]))] in let l := [(kA, (2, vX)); (kA, (1, [122]))] in
  snd (m_batch s l) = RErr /\ snd (d_batch (mkdisk s (versions_of s) false) l) = RErr.
Proof. vm_compute. split; reflexivity. Qed.

(** known finding (still in the code): a write between prepare and commit is committed although
    it was never reported - the report no longer stands at commit time *)
Example C16_cloud_unreported_commit_refuted :
  let ops := [Enter; Put kA vX; Prepare; Put kB vY] in
  exists m, snd (c_step Debug sid0 (c_run Debug sid0 [Enter; Put kA vX]) Prepare) = OList m /\
            lookup kB m = None /\
            snd (c_run_rep Debug sid0 ops) = None /\
            lookup kB (local (fst (c_commit (c_run Debug sid0 ops)))) = Some (0, vY).
Proof. eexists. vm_compute. repeat split. Qed.

(** * The version rule of the memory store is the source's *)
From Coq Require Import String.
From Coq Require Import List.
From VLS Require Base.Rust Gen.KvvGen Proofs.KvvGenProofs.

(** MemoryKVVStore::put_with_version, ::get_version, ::put and ::delete (vls-persist/src/kvv/memory.rs, whole
    bodies, translated on every run into Gen/KvvGen.v: the lock of the map, `data.get(key)`,
    `if let Some((ver, val)) = existing`, the `<` / `==` / `!=` tests with their early returns, `data.insert`,
    `get_version(key)?.map(|v| v + 1).unwrap_or(0)` in the arithmetic of the build profile) are the model's
    [m_pwv] / [version_of] / [m_put] (Delete = put of the empty value), on every store, key, version and value:
    an accepted call leaves exactly the model's store, a refusal is Err(Error::VersionMismatch) where the model
    says RErr, a panic where it says RAbort ([of_mres]); a call that is not accepted leaves the model's store as
    it was - the translator refuses a function that writes before it returns an error. *)
Theorem C16_mem_version_rule_is_source :
  forall (prof : profile) (s : store) (k : key) (ver : N) (val : value),
    KvvGen.gen_MemoryKVVStore_put_with_version prof (KvvGen.mk_MemoryKVVStore s) k ver val =
      KvvGenProofs.of_mres (m_pwv s k ver val) /\
    KvvGen.gen_MemoryKVVStore_get_version prof (KvvGen.mk_MemoryKVVStore s) k = Val (Rust.OkR (version_of s k)) /\
    KvvGen.gen_MemoryKVVStore_put prof (KvvGen.mk_MemoryKVVStore s) k val = KvvGenProofs.of_mres (m_put prof s k val) /\
    KvvGen.gen_MemoryKVVStore_delete prof (KvvGen.mk_MemoryKVVStore s) k = KvvGenProofs.of_mres (m_put prof s k []) /\
    (snd (m_pwv s k ver val) <> ROk -> fst (m_pwv s k ver val) = s) /\
    (snd (m_put prof s k val) <> ROk -> fst (m_put prof s k val) = s).
Proof.
  intros. repeat split.
  - apply KvvGenProofs.gen_pwv_is_model.
  - apply KvvGenProofs.gen_get_version_is_model.
  - apply KvvGenProofs.gen_put_is_model.
  - apply KvvGenProofs.gen_delete_is_model.
  - apply KvvGenProofs.m_pwv_refusal_keeps.
  - apply KvvGenProofs.m_put_refusal_keeps.
Qed.
Print Assumptions C16_mem_version_rule_is_source.

(** MemoryKVVStore::put_batch (whole body, translated: the local `staged` map, the loop over the entries with
    `staged.get(&key).or_else(|| data.get(&key))`, `continue`, the early `return Err(..)`, and the second loop that
    inserts the staged entries in key order) is the model's [m_batch]: on every sorted store (a BTreeMap) and every
    list of entries it accepts exactly when [batch_go] - every entry judged against the store as left by the
    entries before it - accepts, and then leaves exactly the model's store; otherwise Err(Error::VersionMismatch)
    with nothing written. *)
Theorem C16_mem_batch_is_source :
  forall (prof : profile) (s : store) (l : list kvv),
    ksorted s ->
    KvvGen.gen_MemoryKVVStore_put_batch prof (KvvGen.mk_MemoryKVVStore s) l = KvvGenProofs.of_mres (m_batch s l).
Proof. exact KvvGenProofs.gen_put_batch_is_model. Qed.
Print Assumptions C16_mem_batch_is_source.

(** The staging rule of the cloud store is the source's.  CloudKVVStore::put_with_version, ::put and ::delete
    (vls-persist/src/kvv/cloud.rs, whole bodies, translated with L = MemoryKVVStore: the guard of the commit log -
    a poisoned mutex panics -, `as_mut().expect("not in transaction")`, the staged-version test, the calls
    `self.local.get_version(key)?` / `self.local.get(key)?.expect(..)` into the translated memory store, `existing.1 != value`,
    `commit_log.insert`) are the model's [c_pwv] / [c_put] on every state [c] (local store, commit log or none,
    poisoned flag), key, version and value: an accepted call leaves exactly the model's state, a refusal is
    Err(Error::VersionMismatch) where the model says RErr (and the model's state is then unchanged), and the generated
    function panics exactly where the model says RAbort.  NOT covered: the state after a panic - the model poisons
    the commit-log mutex ([c_poison]); the generated side has no state after a panic. *)
Theorem C16_cloud_staging_is_source :
  forall (prof : profile) (c : cloud) (k : key) (ver : N) (val : value),
    KvvGen.gen_CloudKVVStore_put_with_version prof (KvvGenProofs.conc c) k ver val =
      KvvGenProofs.of_cres (c_pwv c k ver val) /\
    KvvGen.gen_CloudKVVStore_put prof (KvvGenProofs.conc c) k val = KvvGenProofs.of_cres (c_put prof c k val) /\
    KvvGen.gen_CloudKVVStore_delete prof (KvvGenProofs.conc c) k = KvvGenProofs.of_cres (c_put prof c k []) /\
    (snd (c_pwv c k ver val) = RErr -> fst (c_pwv c k ver val) = c).
Proof.
  intros. repeat split.
  - apply KvvGenProofs.gen_cloud_pwv_is_model.
  - apply KvvGenProofs.gen_cloud_put_is_model.
  - apply KvvGenProofs.gen_cloud_delete_is_model.
  - apply KvvGenProofs.c_pwv_refusal_keeps.
Qed.
Print Assumptions C16_cloud_staging_is_source.

Check C16_disk_refines_mem.
