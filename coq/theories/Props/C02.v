(** C02 — no holder commitment is both signed for broadcast and revoked.
    Statements only; proofs are in Proofs/EnforcementProofs.v. *)
From VLS Require Import Base.U64 Model.Enforcement Proofs.EnforcementProofs Props.C01.
From Coq Require String.
From VLS Require Gen.EnforcementGen Gen.EnforcementRulesGen Proofs.EnforcementGenProofs
  Proofs.EnforcementRulesGenProofs Proofs.RustFacts.

(** Over every history (all request kinds, restarts anywhere, both build profiles): a number
    whose secret was disclosed is strictly below every number for which a holder signature
    was released (force-close, recovery or redundant signing) — in either order. *)
Theorem C02_signed_and_revoked_disjoint :
  forall (warn : tag -> bool) (prof : profile) (ops : list op) (k n : N) (c : content),
    c01_filter warn -> Forall wf_op ops -> short ops ->
    In k (disclosed (snd (grun warn prof (Stub, ghost0) ops))) ->
    In (n, c) (hsigned (snd (grun warn prof (Stub, ghost0) ops))) ->
    k < n.
Proof.
  intros warn prof ops k n c [W1 [W2 [W3 W4]]].
  exact (signed_not_disclosed warn prof W1 W2 W3 W4 ops k n c).
Qed.
Print Assumptions C02_signed_and_revoked_disjoint.

(** Once a holder signature has been released, no request discloses a secret that had not
    been disclosed before. *)
Theorem C02_frozen_after_signature :
  forall (warn : tag -> bool) (prof : profile) (ops : list op) (o : op) (k : N),
    c01_filter warn -> Forall wf_op ops -> wf_op o -> short (ops ++ [o]) ->
    hsigned (snd (grun warn prof (Stub, ghost0) ops)) <> [] ->
    In k (disclosed (snd (grun warn prof (Stub, ghost0) (ops ++ [o])))) ->
    In k (disclosed (snd (grun warn prof (Stub, ghost0) ops))).
Proof.
  intros warn prof ops o k [W1 [W2 [W3 W4]]].
  exact (frozen_after_signature warn prof W1 W2 W3 W4 ops o k).
Qed.
Print Assumptions C02_frozen_after_signature.

(** Non-vacuity: a history with a disclosure and then a holder signature. *)
Example C02_nonvacuous :
  let ops := [Setup; ValidateHolder 0 0 true true; Activate; ValidateHolder 1 4 true true;
              Revoke 1 true; ValidateHolder 2 5 true true; Revoke 2 true; ValidateHolder 3 6 true true;
              SignHolder 2; Revoke 3 true; GetSecret 1; Restart; Revoke 3 true] in
  Forall wf_op ops /\ short ops /\
  disclosed (snd (grun strict Release (Stub, ghost0) ops)) = [1; 1; 0] /\
  hsigned (snd (grun strict Release (Stub, ghost0) ops)) = [(2, 5)].
Proof.
  cbv zeta. split; [repeat constructor; cbv; discriminate|].
  split; [cbv; discriminate|]. vm_compute. split; reflexivity.
Qed.

(** The revocation as it was before the repair (no policy-revoke-not-closed check): with
    commitment 2 pre-validated, commitment 1 signed for broadcast and then revoked. *)
Example C02_old_revoke_refuted :
  let ops := [Setup; ValidateHolder 0 0 true true; Activate; ValidateHolder 1 4 true true;
              Revoke 1 true; ValidateHolder 2 5 true true; SignHolder 1] in
  match fst (grun strict Debug (Stub, ghost0) ops) with
  | Ready ch =>
      hsigned (snd (grun strict Debug (Stub, ghost0) ops)) = [(1, 4)] /\
      o_secret (snd (do_revoke_old strict Debug ch 2)) = Some 1
  | Stub => False
  end.
Proof. vm_compute. split; reflexivity. Qed.

(** The guard in front of a holder signature is the one in the source: Gen/EnforcementRulesGen.v holds the
    statement-by-statement translation of Validator::get_current_holder_commitment_info (provided
    method of the trait in policy/validator.rs, not overridden by the validators), which
    sign_holder_commitment_tx_phase2 asks for the content it signs.  It is exactly the head of
    [do_sign_holder]: [n + 1] (abort on overflow in a debug build), refusal with policy-other unless
    [n + 1 = next_h e] (or the filter downgrades that tag), a panic when there is no current holder
    commitment, otherwise the current content - for every state, number, filter and both profiles. *)
Theorem C02_holder_sign_guard_is_source :
  forall (prof : profile) (swarn : String.string -> bool) (fr : EnforcementGenProofs.frame) (e : estate) (n : N),
    EnforcementRulesGen.gen_get_current_holder_commitment_info prof swarn (EnforcementGenProofs.to_res fr e) n =
    match add_p prof n 1 with
    | Trap => Trap
    | Val n1 =>
        if negb (n1 =? next_h e) && perr (EnforcementRulesGenProofs.etag_filter swarn) TOther
        then Val (Rust.ErrR (EnforcementRulesGenProofs.etag_name TOther))
        else match cur_h e with
             | None => Trap
             | Some c => Val (Rust.OkR c)
             end
    end.
Proof. exact EnforcementRulesGenProofs.gen_holder_sign_guard_is_model. Qed.
Print Assumptions C02_holder_sign_guard_is_source.
