(** C12 — velocity limits bound spending in every time window, across restarts.
    Statements only; proofs are in Proofs/VelocityProofs.v. *)
From VLS Require Import Base.U64 Model.Velocity Proofs.VelocityProofs.
From VLS Require Import Base.Rust Gen.VelocityGen Proofs.VelocityGenProofs.

(** For every policy spec with a finite limit, every history of approvals (non-decreasing
    arrival times, any amounts), node-entry writes and restarts, and every time window no
    longer than the tracked interval minus one bucket, the approved amounts inside the
    window sum to at most the limit. *)
Theorem C12_window :
  forall (it : itype) (lim0 : N) (ops : list vop),
    let '(lim, ivl, nb) := spec_triple it lim0 in
    lim < U64MAX ->
    nondecreasing 0 (op_times ops) = true ->
    forall t0 len : N,
      len <= (N.of_nat nb - 1) * ivl ->
      wsum (in_window t0 len) (snd (vrun it lim0 ops)) <= lim.
Proof.
  intros it lim0 ops.
  pose proof (window_bound it lim0) as H. unfold lim, I, nb in H.
  destruct (spec_triple it lim0) as [[l i] n]. cbn [fst snd] in H.
  intros Hl Hnd t0 len Hlen. apply H; assumption.
Qed.
Print Assumptions C12_window.

(** A restart does not change the control that was persisted, in any reachable state. *)
Theorem C12_restart_keeps_counted :
  forall (it : itype) (lim0 : N) (ops : list vop),
    fst (fst (spec_triple it lim0)) < U64MAX ->
    nondecreasing 0 (op_times ops) = true ->
    let s := fst (vrun it lim0 ops) in
    restore it lim0 (disk s) = disk s.
Proof. exact restart_keeps_counted. Qed.
Print Assumptions C12_restart_keeps_counted.

(** The [insert] the theorems above speak about is the one in the source: Gen/VelocityGen.v is the
    statement-by-statement translation of [VelocityControl::insert] and [::velocity]
    (vls-core/src/util/velocity.rs, regenerated on every run by tools/gen_rustfn.py; meaning of
    the Rust constructs in Base/Rust.v), and on every control with a positive interval, at least
    one bucket and a start that is not in the future it returns, in both build profiles, exactly
    the model's control and verdict - no panic, no wrap. *)
Theorem C12_insert_is_source :
  forall (prof : profile) (c : vc) (now amt : N),
    start c <= now -> now <= U64MAX -> 0 < interval c -> buckets c <> [] ->
    vec_len (buckets c) <= U64MAX ->
    gen_insert prof (to_rvc c) now amt =
    Val (to_rvc (fst (insert c now amt)), snd (insert c now amt)).
Proof. exact gen_insert_is_model. Qed.
Print Assumptions C12_insert_is_source.

(** ... and those side conditions hold at every approval request of every history of the node
    (approvals with non-decreasing u64 times, node-entry writes, restarts) from any policy spec. *)
Theorem C12_source_agrees_along_history :
  forall (prof : profile) (it : itype) (lim0 : N) (ops : list vop),
    nondecreasing 0 (op_times ops) = true ->
    Forall (fun x => x <= U64MAX) (op_times ops) ->
    forall ops1 now amt ops2, ops = ops1 ++ Approve now amt :: ops2 ->
      let c := mem (fst (vrun it lim0 ops1)) in
      gen_insert prof (to_rvc c) now amt =
      Val (to_rvc (fst (insert c now amt)), snd (insert c now amt)).
Proof.
  intros prof it lim0 ops Hnd Hu.
  exact (source_agrees_along_history prof it lim0 ops (vinit it lim0) 0 [] (vinit_ok it lim0) Hnd Hu).
Qed.
Print Assumptions C12_source_agrees_along_history.

(** An unlimited control approves everything (amounts are u64). *)
Theorem C12_unlimited :
  forall (c : vc) (now amt : N), limit c = U64MAX -> snd (insert c now amt) = true.
Proof. exact unlimited_approves. Qed.
Print Assumptions C12_unlimited.

(** Non-vacuity: a concrete history with restarts in which the limit is reached exactly
    inside one window, and the hypotheses of [C12_window] hold. *)
Example C12_nonvacuous :
  let ops := [Approve 1000 400000; Restart; Approve 1200 600000; Approve 1201 1;
              Restart; Approve 4299 1; Approve 4600 400000] in
  nondecreasing 0 (op_times ops) = true /\
  snd (vrun Hourly 1000000 ops) = [(1000, 400000); (1200, 600000); (4600, 400000)] /\
  wsum (in_window 1000 3300) (snd (vrun Hourly 1000000 ops)) = 1000000.
Proof. vm_compute. repeat split. Qed.

(** The statement is false for the restore that the code had before the repair
    (fresh controls built from the policy on every restart): limit reached, restart,
    limit reached again inside one bucket. *)
Definition vstep_old (it : itype) (lim : N) (s : nodevc) (o : vop) : nodevc * option bool :=
  match o with
  | Restart => (mknode (of_spec it lim) (disk s), None)
  | _ => vstep it lim s o
  end.
Fixpoint vrun_old (it : itype) (lim : N) (s : nodevc) (log : list (N * N)) (ops : list vop) :=
  match ops with
  | [] => log
  | o :: r =>
      let '(s1, res) := vstep_old it lim s o in
      vrun_old it lim s1
        (match o, res with
         | Approve now amt, Some true => log ++ [(now, amt)]
         | _, _ => log
         end) r
  end.
Example C12_old_restore_refuted :
  exists ops t0 len,
    nondecreasing 0 (op_times ops) = true /\ len <= (12 - 1) * 300 /\
    1000000 < wsum (in_window t0 len) (vrun_old Hourly 1000000 (vinit Hourly 1000000) [] ops).
Proof.
  exists [Approve 1000 1000000; Restart; Approve 1001 1000000], 1000, 3300.
  vm_compute. repeat split; congruence.
Qed.

Check C12_window.
