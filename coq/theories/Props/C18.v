(** C18 — channel keys are a stable function of seed and channel id.
    Statements only; proofs are in Proofs/KeysProofs.v and Proofs/SecretsProofs.v.

    HKDF, SHA-256 (in the key derivation), BIP32, the LND path and the EC multiplication are
    universally quantified parameters of the history theorems; the tree theorems are stated for
    every hash and instantiated with the Gallina SHA-256 of Base/Sha256.v. *)
From Coq Require Import String.
From VLS Require Import Base.U64 Base.Sha256 Model.Secrets Model.Keys Model.KeysCheck
  Proofs.SecretsProofs Proofs.KeysProofs.

(** For the Native and Ldk styles, every keys-manager state reachable from the same seed, style
    and network by any history (channels created in any order, set up or not, restarts, other
    derivations, random channel ids) derives the same keys for the same channel id. *)
Theorem C18_history_independent :
  forall hkdf sha xpriv bip_master bip_child_h bip_priv lnd_key
         (seed : bytes) (st : style) (net : N) (ops1 ops2 : list op) (id : bytes),
    st = Native \/ st = Ldk ->
    fst (derive hkdf sha xpriv bip_master bip_child_h bip_priv lnd_key
           (n_mgr (run hkdf sha xpriv bip_master bip_child_h bip_priv lnd_key seed st net ops1)) id)
    = fst (derive hkdf sha xpriv bip_master bip_child_h bip_priv lnd_key
           (n_mgr (run hkdf sha xpriv bip_master bip_child_h bip_priv lnd_key seed st net ops2)) id).
Proof.
  intros. apply manager_history_independent. destruct H as [-> | ->]; discriminate.
Qed.
Print Assumptions C18_history_independent.

(** Every channel slot of every reachable node (stub or set up, before or after any number of
    restarts, whatever other channels exist) carries exactly [keys_of style net seed id]; hence
    its basepoints, funding key, per-commitment points and released secrets for any list of
    commitment numbers are those of that function. *)
Theorem C18_channel_keys_function :
  forall hkdf sha xpriv bip_master bip_child_h bip_priv lnd_key point (pub_of : bytes -> point)
         (seed : bytes) (st : style) (net : N) (ops : list op) (id : bytes) (sl : slot) (ns : list nat),
    st = Native \/ st = Ldk ->
    lookup id (n_chans (run hkdf sha xpriv bip_master bip_child_h bip_priv lnd_key seed st net ops)) = Some sl ->
    exists k, keys_of hkdf sha xpriv bip_master bip_child_h bip_priv lnd_key st net seed id = Some k /\
              s_keys sl = k /\
              observe sha point pub_of (s_keys sl) ns = observe sha point pub_of k ns.
Proof.
  intros until ns. intros Hs Hl.
  assert (st <> Lnd) as Hn by (destruct Hs as [-> | ->]; discriminate).
  pose proof (node_keys_function hkdf sha xpriv bip_master bip_child_h bip_priv lnd_key seed st net ops id sl Hn Hl) as Hk.
  exists (s_keys sl). split; [symmetry; exact Hk|]. split; reflexivity.
Qed.
Print Assumptions C18_channel_keys_function.

(** check_future_secret (the CheckFutureSecret route) on any channel slot of any reachable node
    accepts exactly the secret that [keys_of style net seed id] has at the number asked. *)
Theorem C18_check_future_secret :
  forall hkdf sha xpriv bip_master bip_child_h bip_priv lnd_key
         (seed : bytes) (st : style) (net : N) (ops : list op) (id : bytes) (sl : slot) (n : nat) (s : bytes),
    st = Native \/ st = Ldk ->
    lookup id (n_chans (run hkdf sha xpriv bip_master bip_child_h bip_priv lnd_key seed st net ops)) = Some sl ->
    exists k, keys_of hkdf sha xpriv bip_master bip_child_h bip_priv lnd_key st net seed id = Some k /\
              (check_future_secret sha (s_keys sl) n s = true <-> s = commit_secret sha k n).
Proof.
  intros until s. intros Hs Hl.
  assert (st <> Lnd) as Hn by (destruct Hs as [-> | ->]; discriminate).
  pose proof (node_keys_function hkdf sha xpriv bip_master bip_child_h bip_priv lnd_key seed st net ops id sl Hn Hl) as Hk.
  exists (s_keys sl). split; [symmetry; exact Hk|]. apply check_future_secret_spec.
Qed.
Print Assumptions C18_check_future_secret.

(** Channels are named by (peer id, dbid); the channel id is an injective function of that
    pair on all 64-bit dbids, and it is one of the id shapes [C18_distinct] speaks about.  So
    two channels of any peers with different (peer, dbid) have different ids, hence (by
    [C18_distinct]) different keys. *)
Theorem C18_channel_id_injective :
  forall (p1 p2 : bytes) (d1 d2 : N),
    length p1 = 33%nat -> length p2 = 33%nat -> d1 < two64 -> d2 < two64 ->
    chan_id_of p1 d1 = chan_id_of p2 d2 -> p1 = p2 /\ d1 = d2.
Proof. intros. apply chan_id_of_inj; congruence. Qed.
Print Assumptions C18_channel_id_injective.

Theorem C18_channel_id_is_api_id :
  forall (peer : bytes) (dbid : N), length peer = 33%nat -> 0 < dbid < two64 -> api_id (chan_id_of peer dbid).
Proof. exact chan_id_of_api. Qed.

(** Different channel ids (of the shapes the API produces) give different keys, provided the
    hash parameters are injective where they are used: the per-channel HKDF in its salt (after
    the LDK mask for the Ldk style), the 192-byte expansion in its key, SHA-256 on its inputs.
    For the Ldk style the commitment seeds differ as well. *)
Theorem C18_distinct :
  forall (hkdf : bytes -> bytes -> bytes -> nat -> bytes) (sha : bytes -> bytes) (xpriv : Type)
         (bip_master : N -> bytes -> xpriv) (bip_child_h : xpriv -> N -> xpriv) (bip_priv : xpriv -> bytes)
         (lnd_key : N -> xpriv -> N -> N -> bytes) (seed : bytes) (net : N),
    (forall s i salt n, length (hkdf s i salt n) = (32 * n)%nat) ->
    (forall s i salt n, Forall (fun b => b < 256) (hkdf s i salt n)) ->
    (forall st id1 id2, api_id id1 -> api_id id2 -> id1 <> id2 ->
        keys_id hkdf st (channels_seed hkdf seed) id1 <> keys_id hkdf st (channels_seed hkdf seed) id2) ->
    (forall k1 k2, k1 <> k2 -> hkdf k1 s_clightning [] 6%nat <> hkdf k2 s_clightning [] 6%nat) ->
    (forall a b, sha a = sha b -> a = b) ->
    forall st id1 id2, st = Native \/ st = Ldk -> api_id id1 -> api_id id2 -> id1 <> id2 ->
    exists k1 k2,
      keys_of hkdf sha xpriv bip_master bip_child_h bip_priv lnd_key st net seed id1 = Some k1 /\
      keys_of hkdf sha xpriv bip_master bip_child_h bip_priv lnd_key st net seed id2 = Some k2 /\
      k1 <> k2 /\ (st = Ldk -> k_cseed k1 <> k_cseed k2).
Proof.
  intros until id2. intros Hs.
  apply distinct_ids_distinct_keys; try assumption.
  destruct Hs as [-> | ->]; discriminate.
Qed.
Print Assumptions C18_distinct.

(** Channels with different commitment seeds release different secrets at every commitment
    number (SHA-256 injective; the bit flip is an involution, proved). *)
Theorem C18_distinct_secrets :
  forall (sha : bytes -> bytes), (forall a b, sha a = sha b -> a = b) ->
  forall (k1 k2 : chkeys) (n : nat),
    k_cseed k1 <> k_cseed k2 -> commit_secret sha k1 n <> commit_secret sha k2 n.
Proof. intros sha Hinj k1 k2 n. apply distinct_seeds_distinct_secrets; exact Hinj. Qed.
Print Assumptions C18_distinct_secrets.

(** The HMAC key normalisation (zero padding to the block) is injective on the channel ids the
    API produces, so the salt-injectivity premise of [C18_distinct] is not refuted by padding. *)
Theorem C18_api_ids_not_confused_by_padding :
  forall a b, api_id a -> api_id b -> hmac_key a = hmac_key b -> a = b.
Proof. exact hmac_key_inj_on_api. Qed.

(** BOLT-3 derivation tree, for every hash: the secret of index k is reached from the secret
    of k with its low p bits cleared by the last p derivation steps. *)
Theorem C18_derivation_tree :
  forall (T : Type) (H : T -> T) (flip : nat -> T -> T) (seed : T) (k : N) (p : nat),
    (p <= 48)%nat ->
    build_commitment_secret T H flip seed k
    = derive_secret T H flip (build_commitment_secret T H flip seed (clear_low p k)) p k.
Proof. exact derive_prefix. Qed.
Print Assumptions C18_derivation_tree.

(** Compact storage, for every hash and every seed: the secrets of commitment numbers
    0, 1, …, n-1 (indices 2^48-1, 2^48-2, …), provided in that order to an empty
    CounterpartyCommitmentSecrets, are all accepted; the store never holds more than 49
    entries; and every one of them is returned by get_secret.  n ranges up to 2^48. *)
Theorem C18_tree_any_hash :
  forall (T : Type) (H : T -> T) (flip : nat -> T -> T) (eqS : T -> T -> bool),
    (forall s, eqS s s = true) ->
    forall (seed : T) (n : nat), N.of_nat n <= TWO48 ->
    exists st, feed_first T H flip eqS seed n = (st, true) /\ (length st <= 49)%nat /\
      forall c, (c < n)%nat ->
        get_secret T H flip st (idx_of_commit c) = Found (build_commitment_secret T H flip seed (idx_of_commit c)).
Proof. exact feed_first_ok. Qed.
Print Assumptions C18_tree_any_hash.

(** … and for the secrets a channel actually releases (SHA-256, byte strings). *)
Theorem C18_tree :
  forall (k : chkeys) (n : nat), N.of_nat n <= TWO48 ->
  exists st, feed_first bytes sha256 flip_bit bytes_eqb (k_cseed k) n = (st, true) /\ (length st <= 49)%nat /\
    forall c, (c < n)%nat -> bget st (idx_of_commit c) = Found (commit_secret sha256 k c).
Proof.
  intros k n Hn. apply (feed_first_ok bytes sha256 flip_bit bytes_eqb); [|exact Hn].
  intros s. apply bytes_eqb_eq. reflexivity.
Qed.
Print Assumptions C18_tree.

(** * Non-vacuity and validation *)

(** BOLT-3 appendix D "generation tests" *)
Example C18_bolt3_generate_from_seed_0_final :
  build_secret (repeat_bytes 32 [0]) 281474976710655
  = of_hex "02a40c85b6f28da08dfdbe0926c53fab2de6d28c10301f8f7c4073d5e42e3148".
Proof. vm_compute. reflexivity. Qed.
Example C18_bolt3_generate_from_seed_FF_final :
  build_secret (repeat_bytes 32 [255]) 281474976710655
  = of_hex "7cc854b54e3e0dcdb010d7a3fee464a9687be6e8db3be6854c475621e007a5dc".
Proof. vm_compute. reflexivity. Qed.
Example C18_bolt3_generate_from_seed_FF_alternate_bits_1 :
  build_secret (repeat_bytes 32 [255]) 0xaaaaaaaaaaa
  = of_hex "56f4008fb007ca9acf0e15b054d5c9fd12ee06cea347914ddbaed70d1c13a528".
Proof. vm_compute. reflexivity. Qed.
Example C18_bolt3_generate_from_seed_FF_alternate_bits_2 :
  build_secret (repeat_bytes 32 [255]) 0x555555555555
  = of_hex "9015daaeb06dba4ccc05b91b2f73bd54405f2be9f217fbacd3c5ac2e62327d31".
Proof. vm_compute. reflexivity. Qed.
Example C18_bolt3_generate_from_seed_01_last_nontrivial_node :
  build_secret (repeat_bytes 32 [1]) 1
  = of_hex "915c75942a26bb3a433a8ce2cb0427c29ec6c1775cfc78328b57f6ba7bfeaa9c".
Proof. vm_compute. reflexivity. Qed.

(** a concrete history with two channels, a setup and a restart: both channels are present,
    carry [keys_of], and have different keys (Native style, executable HKDF) *)
Example C18_nonvacuous :
  let seed := repeat_bytes 32 [7] in
  let a := repeat_bytes 33 [2] ++ [1; 0; 0; 0; 0; 0; 0; 0] in
  let b := repeat_bytes 33 [2] ++ [2; 0; 0; 0; 0; 0; 0; 0] in
  let nd := x_run [] seed Native 0 [NewChannel a; NewChannel b; Setup a; Restart; RandomChannelId; NewChannel a] in
  match lookup a (n_chans nd), lookup b (n_chans nd), x_keys_of [] Native 0 seed a, x_keys_of [] Native 0 seed b with
  | Some sa, Some sb, Some ka, Some kb =>
      s_ready sa = true /\ s_ready sb = false /\ s_keys sa = ka /\ s_keys sb = kb /\
      bytes_eqb (k_funding ka) (k_funding kb) = false /\ length (k_cseed ka) = 32%nat
  | _, _, _, _ => False
  end.
Proof. vm_compute. repeat split. Qed.

(** the Lnd style is excluded for a reason: with any key path that reads the running index the
    keys of a channel depend on how many derivations came before *)
Example C18_lnd_order_dependent :
  let hk := fun (_ _ _ : bytes) (_ : nat) => @nil N in
  let lk := fun (_ : N) (_ : unit) (fam idx : N) => [fam; idx] in
  let d := derive hk (fun b => b) unit (fun _ _ => tt) (fun x _ => x) (fun _ => []) lk in
  let r := run hk (fun b => b) unit (fun _ _ => tt) (fun x _ => x) (fun _ => []) lk [] Lnd 0 in
  fst (d (n_mgr (r [NewChannel [1]])) [2]) <> fst (d (n_mgr (r [])) [2]).
Proof. vm_compute. discriminate. Qed.

(** the domain restriction of [C18_distinct] is needed: HMAC pads its key with zeros, so ids
    that differ by trailing zero bytes have the same keys_id under the real HKDF (not reachable
    through Node::new_channel / new_channel_with_random_id, whose ids satisfy [api_id]) *)
Example C18_distinct_needs_api_ids :
  x_keys_id Native (repeat_bytes 32 [7]) [1; 2; 3] = x_keys_id Native (repeat_bytes 32 [7]) [1; 2; 3; 0].
Proof. vm_compute. reflexivity. Qed.

(** the store on concrete secrets: five accepted, all returned, three entries; a secret with a
    flipped bit at an even index is refused and leaves the store unchanged *)
(** check_future_secret on concrete secrets: the own secret of n is accepted, the neighbours'
    secrets are not *)
Example C18_check_future_nonvacuous :
  let cseed := repeat_bytes 32 [9] in
  x_check_future cseed 1 (secret_at cseed 1) = true /\
  x_check_future cseed 1 (secret_at cseed 0) = false /\
  x_check_future cseed 1 (secret_at cseed 2) = false /\
  x_check_future cseed 281474976710655 (secret_at cseed 281474976710655) = true.
Proof. vm_compute. repeat split. Qed.

(** dbids that agree in their low 32 bits are different channels *)
Example C18_channel_id_high_bits :
  chan_id_of (repeat_bytes 33 [2]) 7 <> chan_id_of (repeat_bytes 33 [2]) (7 + 4294967296) /\
  skipn 33 (chan_id_of (repeat_bytes 33 [2]) (7 + 4294967296)) = [7; 0; 0; 0; 1; 0; 0; 0] /\
  skipn 33 (chan_id_of (repeat_bytes 33 [2]) 18446744073709551615) = [255; 255; 255; 255; 255; 255; 255; 255].
Proof. vm_compute. repeat split. discriminate. Qed.

Example C18_tree_nonvacuous :
  let seed := repeat_bytes 32 [9] in
  let '(st, ok) := feed_first bytes sha256 flip_bit bytes_eqb seed 5 in
  ok = true /\ length st = 3%nat /\
  bget st (idx_of_commit 0) = Found (build_secret seed (idx_of_commit 0)) /\
  bget st (idx_of_commit 4) = Found (build_secret seed (idx_of_commit 4)) /\
  bget st (idx_of_commit 5) = NotFound /\
  bprovide st (idx_of_commit 5) (flip_bit 3 (build_secret seed (idx_of_commit 5))) = (st, false) /\
  snd (bprovide st (idx_of_commit 5) (build_secret seed (idx_of_commit 5))) = true.
Proof. vm_compute. repeat split. Qed.

Check C18_history_independent.
Check C18_tree.
