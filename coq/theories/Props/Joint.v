(** The properties of the component models, restated over joint histories of the whole node
    (Model/Joint.v): several channels, each with its enforcement state machine, and the
    node-wide payment bookkeeping, where the payment verdict of every commitment update is
    COMPUTED from the ledger and the enforcement verdict from the counters instead of being
    inputs.  Statements only; proofs by projection (Proofs/JointProofs.v) onto the theorems of
    Props/C01.v, C02.v, C03.v and C06.v. *)
From VLS Require Import Base.U64 Model.Joint Proofs.EnforcementProofs Proofs.CounterpartyProofs
  Proofs.JointProofs Props.C01 Props.C02 Props.C03.
From VLS Require Proofs.PaymentsProofs Props.C06 Proofs.JointRefusedProofs.
Require Import Lia.

(** C01 on every channel of every joint history *)
Theorem J_C01_secret_needs_successor :
  forall warn prof nch mf mp (jops : list jop) (ch k : N),
    c01_filter warn -> Forall jwf jops -> jshort nch jops ->
    let g := snd (jc (jrun warn prof nch mf mp (jinit warn prof) jops) ch) in
    In k (disclosed g) -> exists c, In (k + 1, c) (validated g).
Proof.
  intros warn prof nch mf mp jops ch k Hf Hwf Hs g. subst g.
  rewrite chan_history_spec.
  destruct (chan_history_wf warn prof nch mf mp jops ch Hwf Hs) as [W S].
  exact (C01_secret_needs_successor warn prof _ k Hf W S).
Qed.
Print Assumptions J_C01_secret_needs_successor.

(** C02 on every channel of every joint history *)
Theorem J_C02_signed_and_revoked_disjoint :
  forall warn prof nch mf mp (jops : list jop) (ch k n : N) (c : content),
    c01_filter warn -> Forall jwf jops -> jshort nch jops ->
    let g := snd (jc (jrun warn prof nch mf mp (jinit warn prof) jops) ch) in
    In k (disclosed g) -> In (n, c) (hsigned g) -> k < n.
Proof.
  intros warn prof nch mf mp jops ch k n c Hf Hwf Hs g. subst g.
  rewrite chan_history_spec.
  destruct (chan_history_wf warn prof nch mf mp jops ch Hwf Hs) as [W S].
  exact (C02_signed_and_revoked_disjoint warn prof _ k n c Hf W S).
Qed.
Print Assumptions J_C02_signed_and_revoked_disjoint.

(** C03 on every channel of every joint history: a counterparty commitment number is signed
    again only for the identical point and content, and a revocation is accepted only with the
    secret of a point that was signed for that number *)
Theorem J_C03_resign_same :
  forall warn prof nch mf mp (jops : list jop) (ch n : N) (p1 p2 : point) (c1 c2 : content),
    c03_filter warn -> Forall jwf jops ->
    let g := snd (jc (jrun warn prof nch mf mp (jinit warn prof) jops) ch) in
    In (n, p1, c1) (cpsigned g) -> In (n, p2, c2) (cpsigned g) -> p1 = p2 /\ c1 = c2.
Proof.
  intros warn prof nch mf mp jops ch n p1 p2 c1 c2 Hf Hwf g. subst g.
  rewrite chan_history_spec.
  assert (W : Forall wf_op (chan_history warn prof nch mf mp jops ch)).
  { apply Forall_app; split; [exact boot_wf|].
    exact (proj1 (jrun_cops_wf warn prof nch mf mp jops (jinit warn prof) ch Hwf)). }
  exact (C03_resign_same warn prof _ n p1 p2 c1 c2 Hf W).
Qed.
Print Assumptions J_C03_resign_same.

(** C06 on every joint history: what the ledger holds in flight towards an approved hash stays
    within the value in flight to the node plus the approved amount plus the allowance *)
Theorem J_C06_no_overpay :
  forall warn prof nch mf mp (jops : list jop) (h a : N),
    PaymentsProofs.fresh_history nch mf mp P.pinit (jrun_pops warn prof nch mf mp (jinit warn prof) jops) ->
    let s := jp (jrun warn prof nch mf mp (jinit warn prof) jops) in
    P.inv s h = Some a ->
    P.out_total nch s h * 1000 <= P.in_total nch s h * 1000 + a + mf.
Proof.
  intros warn prof nch mf mp jops h a Hf s. subst s. rewrite jrun_pay. cbn [jinit jp].
  exact (C06.C06_no_overpay nch mf mp _ h a Hf).
Qed.
Print Assumptions J_C06_no_overpay.

(** What neither component model can state: in every joint history, a revocation request moves
    the holder counter of a channel (and so hands out the secret of the commitment it leaves
    behind) only if the node-wide payment check accepts, on the ledger as it is at that moment,
    the HTLCs of the validated commitment that becomes current. *)
Theorem J_revoke_needs_payment_check :
  forall warn prof nch mf mp (jops : list jop) (ch n : N) (c : P.content),
    c01_filter warn -> Forall jwf jops -> jshort nch jops ->
    let s := jrun warn prof nch mf mp (jinit warn prof) jops in
    let s' := fst (jstep warn prof nch mf mp s (JRevoke ch n)) in
    slot_next_h (fst (jc s' ch)) <> slot_next_h (fst (jc s ch)) ->
    P.hnxt (P.chans (jp s) ch) = Some c ->
    P.validate_payments nch mf mp (jp s) ch (Some c) None = true.
Proof.
  intros warn prof nch mf mp jops ch n c [W1 [W2 [W3 W4]]].
  exact (revoke_needs_payment_check warn prof W1 W2 W3 W4 nch mf mp jops ch n c).
Qed.
Print Assumptions J_revoke_needs_payment_check.

(** C10 over joint histories: under the default filter a commitment request that the node refuses
    - because the enforcement state machine of its channel says no, or because the node-wide payment
    check on the ledger says no - leaves the payment bookkeeping (invoices, records, ledger, channel
    contents) and the slot of EVERY channel (memory and store image) exactly as they were. *)
Theorem J_C10_refused_changes_nothing :
  forall warn prof nch mf mp (jops : list jop) (o : jop),
    (forall t, warn t = false) -> Forall jwf jops -> jshort nch jops -> jwf o ->
    let s := jrun warn prof nch mf mp (jinit warn prof) jops in
    st (snd (jstep warn prof nch mf mp s o)) = Refused ->
    jp (fst (jstep warn prof nch mf mp s o)) = jp s /\
    forall ch, fst (jc (fst (jstep warn prof nch mf mp s o)) ch) = fst (jc s ch).
Proof.
  intros warn prof nch mf mp jops o Wall.
  exact (JointRefusedProofs.joint_refused_changes_nothing warn prof Wall nch mf mp jops o).
Qed.
Print Assumptions J_C10_refused_changes_nothing.

(** C11 over joint histories: in every reachable state of the whole node the memory image of every
    channel is its persisted image, and a restart of the signer (every channel re-read from the
    store) leaves every channel exactly as it was. *)
Theorem J_C11_restart_is_invisible :
  forall warn prof nch mf mp (jops : list jop) (ch : N),
    c01_filter warn -> Forall jwf jops -> jshort nch jops ->
    let s := jrun warn prof nch mf mp (jinit warn prof) jops in
    slot_durable (fst (jc s ch)) /\
    fst (jc (fst (jstep warn prof nch mf mp s JRestart)) ch) = fst (jc s ch).
Proof.
  intros warn prof nch mf mp jops ch [W1 [W2 [W3 W4]]].
  exact (JointRefusedProofs.joint_restart_invisible warn prof W1 W2 W3 W4 nch mf mp jops ch).
Qed.
Print Assumptions J_C11_restart_is_invisible.

(** Non-vacuity: two channels, an approved payment of 100 000 sat validated on channel 0, the
    same payment signed on channel 1, then the revocation on channel 0: refused by the payment
    re-check (the counter stays), and after channel 1 dropped the HTLC again it goes through and
    hands out secret 0. *)
Example J_nonvacuous :
  let c := P.mkCt [(1, 100000)] [] in
  let e := P.mkCt [] [] in
  let ops := [JAddInvoice 1 100000000; JValidateHolder 0 1 1 c SGood true; JCpRevoke 1 0 0 0 true;
              JSignCp 1 1 1 1 c true; JRevoke 0 1] in
  let s := jrun strict Debug 2 222000 10 (jinit strict Debug) ops in
  Forall jwf ops /\ jshort 2 ops /\
  slot_next_h (fst (jc s 0)) = Some 1 /\ disclosed (snd (jc s 0)) = [] /\
  let ops2 := [JCpRevoke 1 0 0 0 true; JSignCp 1 2 2 0 e true; JRevoke 0 1] in
  let s2 := jrun strict Debug 2 222000 10 s ops2 in
  slot_next_h (fst (jc s2 0)) = Some 2 /\ disclosed (snd (jc s2 0)) = [0].
Proof.
  cbv zeta. split; [repeat constructor; cbv; discriminate|].
  split; [cbv; discriminate|]. vm_compute. repeat split; reflexivity.
Qed.
