(** The properties of the component models, restated over joint histories of the whole node
    (Model/Joint.v): several channels, each with its enforcement state machine, and the
    node-wide payment bookkeeping, where the payment verdict of every commitment update is
    COMPUTED from the ledger and the enforcement verdict from the counters instead of being
    inputs.  Statements only; proofs by projection (Proofs/JointProofs.v) onto the theorems of
    Props/C01.v, C02.v, C03.v and C06.v. *)
From VLS Require Import Base.U64 Model.Joint Proofs.EnforcementProofs Proofs.CounterpartyProofs
  Proofs.JointProofs Props.C01 Props.C02 Props.C03.
From VLS Require Proofs.PaymentsProofs Props.C06.
Require Import Lia.

(** histories short enough for the counters to stay below 2^64 (as [short] in C01) *)
Definition jshort (nch : nat) (jops : list jop) : Prop :=
  2 * N.of_nat (4 + (1 + nch) * length jops) + 4 <= U64MAX.

Lemma boot_wf : Forall wf_op boot.
Proof. repeat constructor; cbv; discriminate. Qed.

(** the history channel [ch] went through, from the stub *)
Definition chan_history warn prof nch mf mp (jops : list jop) (ch : N) : list op :=
  boot ++ jrun_cops warn prof nch mf mp ch (jinit warn prof) jops.

Lemma chan_history_spec warn prof nch mf mp jops ch :
  jc (jrun warn prof nch mf mp (jinit warn prof) jops) ch =
  grun warn prof (Stub, ghost0) (chan_history warn prof nch mf mp jops ch).
Proof. unfold chan_history. rewrite jrun_chan, grun_app. reflexivity. Qed.

Lemma chan_history_wf warn prof nch mf mp jops ch :
  Forall jwf jops -> jshort nch jops ->
  Forall wf_op (chan_history warn prof nch mf mp jops ch) /\
  short (chan_history warn prof nch mf mp jops ch).
Proof.
  intros Hwf Hs. destruct (jrun_cops_wf warn prof nch mf mp jops (jinit warn prof) ch Hwf) as [W L].
  split; [apply Forall_app; split; [exact boot_wf | exact W]|].
  unfold short, chan_history, jshort in *. rewrite app_length. cbn [boot length].
  lia.
Qed.

(** C01 on every channel of every joint history *)
Theorem J_C01_secret_needs_successor :
  forall warn prof nch mf mp (jops : list jop) (ch k : N),
    c01_filter warn -> Forall jwf jops -> jshort nch jops ->
    let g := snd (jc (jrun warn prof nch mf mp (jinit warn prof) jops) ch) in
    In k (disclosed g) -> exists c, In (k + 1, c) (validated g).
Proof.
  intros warn prof nch mf mp jops ch k Hf Hwf Hs g. subst g.
  rewrite chan_history_spec.
  destruct (chan_history_wf warn prof nch mf mp jops ch Hwf Hs) as [W S].
  exact (C01_secret_needs_successor warn prof _ k Hf W S).
Qed.
Print Assumptions J_C01_secret_needs_successor.

(** C02 on every channel of every joint history *)
Theorem J_C02_signed_and_revoked_disjoint :
  forall warn prof nch mf mp (jops : list jop) (ch k n : N) (c : content),
    c01_filter warn -> Forall jwf jops -> jshort nch jops ->
    let g := snd (jc (jrun warn prof nch mf mp (jinit warn prof) jops) ch) in
    In k (disclosed g) -> In (n, c) (hsigned g) -> k < n.
Proof.
  intros warn prof nch mf mp jops ch k n c Hf Hwf Hs g. subst g.
  rewrite chan_history_spec.
  destruct (chan_history_wf warn prof nch mf mp jops ch Hwf Hs) as [W S].
  exact (C02_signed_and_revoked_disjoint warn prof _ k n c Hf W S).
Qed.
Print Assumptions J_C02_signed_and_revoked_disjoint.

(** C03 on every channel of every joint history: a counterparty commitment number is signed
    again only for the identical point and content, and a revocation is accepted only with the
    secret of a point that was signed for that number *)
Theorem J_C03_resign_same :
  forall warn prof nch mf mp (jops : list jop) (ch n : N) (p1 p2 : point) (c1 c2 : content),
    c03_filter warn -> Forall jwf jops ->
    let g := snd (jc (jrun warn prof nch mf mp (jinit warn prof) jops) ch) in
    In (n, p1, c1) (cpsigned g) -> In (n, p2, c2) (cpsigned g) -> p1 = p2 /\ c1 = c2.
Proof.
  intros warn prof nch mf mp jops ch n p1 p2 c1 c2 Hf Hwf g. subst g.
  rewrite chan_history_spec.
  assert (W : Forall wf_op (chan_history warn prof nch mf mp jops ch)).
  { apply Forall_app; split; [exact boot_wf|].
    exact (proj1 (jrun_cops_wf warn prof nch mf mp jops (jinit warn prof) ch Hwf)). }
  exact (C03_resign_same warn prof _ n p1 p2 c1 c2 Hf W).
Qed.
Print Assumptions J_C03_resign_same.

(** C06 on every joint history: what the ledger holds in flight towards an approved hash stays
    within the value in flight to the node plus the approved amount plus the allowance *)
Theorem J_C06_no_overpay :
  forall warn prof nch mf mp (jops : list jop) (h a : N),
    PaymentsProofs.fresh_history nch mf mp P.pinit (jrun_pops warn prof nch mf mp (jinit warn prof) jops) ->
    let s := jp (jrun warn prof nch mf mp (jinit warn prof) jops) in
    P.inv s h = Some a ->
    P.out_total nch s h * 1000 <= P.in_total nch s h * 1000 + a + mf.
Proof.
  intros warn prof nch mf mp jops h a Hf s. subst s. rewrite jrun_pay. cbn [jinit jp].
  exact (C06.C06_no_overpay nch mf mp _ h a Hf).
Qed.
Print Assumptions J_C06_no_overpay.
