(** C09 — sweep and second-level HTLC signatures only move funds back to the node.
    Statements only; proofs are in Proofs/SweepProofs.v.

    The model describes the three sweep validators with the sequence check on the input that
    is being signed (notes/fixes/C09-sweep-sequence-of-signed-input.patch, in /repo as cea86ea);
    [C09_first_input_sequence_refuted] keeps the witness against the code as found, which
    read [tx.input[0]] whatever input the signature was for, and
    [C09_sweep_accept_as_found_input0] is what held of that code. *)
From VLS Require Import Base.U64 Model.CommitmentPolicy Model.Sweep Model.SweepCheck Proofs.SweepProofs.

(** * Sweeps *)

(** For every transaction (any number of inputs and outputs), input index, wallet, wallet path,
    channel setup, chain height, build profile and filter that does not downgrade the
    destination tag: a delayed-output, counterparty-HTLC or justice sweep signing request is
    answered Ok only if every output pays a script the wallet can spend under the supplied path
    or an allowlisted one, the version is 2, the lock time is a height lock of at most the
    current height + 2 or the always-satisfied minimum timestamp (counterparty received HTLC:
    at most the expiry its script commits to), and the sequence of the signed input is the
    counterparty-selected contest delay (delayed), 1 with anchors resp. one of the three
    no-relative-lock values without (counterparty HTLC), one of those three values (justice). *)
Theorem C09_sweep_accept :
  forall (prof : profile) (warn : stag -> bool) (w : wallet) (s : setup) (h : N) (t : tx)
         (input path : N),
    warn S_destination = false ->
    (forall cn nh,
       sign_delayed_sweep SignedInput prof warn w s h t input cn nh path = SOk ->
       AllOutputsOwned w path t /\ tx_version t = 2 /\ LocktimeBound h (tx_locktime t) /\
       signed_seq t input = Some (cp_delay s)) /\
    (forall rs,
       sign_counterparty_htlc_sweep SignedInput prof warn w s h t rs input path = SOk ->
       AllOutputsOwned w path t /\ tx_version t = 2 /\
       CpHtlcLocktimeBound (is_anchors (commitment_type s)) h rs (tx_locktime t) /\
       exists sq, signed_seq t input = Some sq /\
                  CpHtlcSequenceBound (is_anchors (commitment_type s)) sq) /\
    (sign_justice_sweep SignedInput prof warn w h t input path = SOk ->
     AllOutputsOwned w path t /\ tx_version t = 2 /\ LocktimeBound h (tx_locktime t) /\
     exists sq, signed_seq t input = Some sq /\ no_relative_lock sq).
Proof.
  intros prof warn w s h t input path Hw. split; [|split].
  - intros cn nh S. apply sign_delayed_through in S. destruct S as (_ & _ & S).
    apply delayed_accept in S; assumption.
  - intros rs S. apply sign_cp_htlc_through in S. destruct S as (_ & S).
    apply cp_htlc_accept in S; assumption.
  - intros S. apply sign_justice_through in S. destruct S as (_ & S).
    apply justice_accept in S; assumption.
Qed.
Print Assumptions C09_sweep_accept.

(** The same for the validator entry points themselves (reached through the Validator trait). *)
Theorem C09_sweep_accept_validator :
  forall prof warn w h t input path,
    warn S_destination = false ->
    (forall cpd,
       validate_delayed_sweep SignedInput prof warn w cpd h t input path = SOk ->
       AllOutputsOwned w path t /\ tx_version t = 2 /\ LocktimeBound h (tx_locktime t) /\
       signed_seq t input = Some cpd) /\
    (forall anchors rs,
       validate_counterparty_htlc_sweep SignedInput prof warn w anchors h t rs input path = SOk ->
       AllOutputsOwned w path t /\ tx_version t = 2 /\
       CpHtlcLocktimeBound anchors h rs (tx_locktime t) /\
       exists sq, signed_seq t input = Some sq /\ CpHtlcSequenceBound anchors sq) /\
    (validate_justice_sweep SignedInput prof warn w h t input path = SOk ->
     AllOutputsOwned w path t /\ tx_version t = 2 /\ LocktimeBound h (tx_locktime t) /\
     exists sq, signed_seq t input = Some sq /\ no_relative_lock sq).
Proof.
  intros prof warn w h t input path Hw. split; [|split].
  - intros cpd S. apply delayed_accept in S; assumption.
  - intros anchors rs S. apply cp_htlc_accept in S; assumption.
  - intros S. apply justice_accept in S; assumption.
Qed.
Print Assumptions C09_sweep_accept_validator.

(** For an arbitrary filter: version, lock time and sequence are never downgraded
    ([transaction_format_err!]), a wallet error on any output refuses, and only the
    destination check can be missing — when its own tag is downgraded. *)
Theorem C09_sweep_any_filter :
  forall prof warn w s h t input path cn nh,
    sign_delayed_sweep SignedInput prof warn w s h t input cn nh path = SOk ->
    tx_version t = 2 /\ LocktimeBound h (tx_locktime t) /\
    signed_seq t input = Some (cp_delay s) /\
    Forall (fun o => can_spend w path (out_spk o) <> WalletError) (tx_outs t) /\
    (warn S_destination = false -> AllOutputsOwned w path t).
Proof.
  intros prof warn w s h t input path cn nh S.
  apply sign_delayed_through in S. destruct S as (_ & _ & S).
  apply delayed_facts in S. destruct S as (V & O & L & Q).
  apply sequence_check_signed in Q. destruct Q as (q & Q1 & Q2).
  repeat split; auto.
  - rewrite Q1. f_equal. apply N.eqb_eq. exact Q2.
  - eapply outputs_loop_no_wallet_error; eassumption.
  - intros Hw. eapply outputs_loop_owned; eassumption.
Qed.

(** The lock-time bound read through rust-bitcoin's own predicate: exactly the lock times that
    [is_satisfied_by] accepts at height h + 2 for every block time. *)
Theorem C09_locktime_bound_is_final :
  forall h lt, LocktimeBound h lt <-> LocktimeFinal h lt.
Proof. intros h lt. split; [apply LocktimeBound_final | apply LocktimeFinal_bound]. Qed.

(** * Second-level HTLC transactions *)

(** Premises on the parameters: the signature hash is injective on the fields the BIP143
    preimage commits to, and hash equality is equality.  For every request of either caller
    (holder: any way of naming the per-commitment point), every transaction, redeemscript
    descriptor, amount, policy and profile, under a filter that does not downgrade the fee-range
    tag, for every commitment type but the non-zero-fee anchors one: an Ok means the
    fields covered by the sighash type in use (ALL without anchors, SINGLE|ANYONECANPAY with)
    are those of the BOLT-3 HTLC-timeout / HTLC-success transaction spending the same outpoint,
    for the HTLC kind of the redeemscript, with the broadcaster's negotiated delay, the
    revocation key and the delayed key of the request's per-commitment point, at a fee rate [r]
    within policy whose BOLT-3 fee is exactly the fee the transaction pays. *)
Definition htlc_accepted (spk : N -> N -> N -> N) (H : Type) (sighash : covered -> H)
    (H_eqb : H -> H -> bool) prof warn pol (is_cp : bool) s rev delayed t rs_id rs amount : Prop :=
  if is_cp then
    sign_counterparty_htlc_tx spk H sighash H_eqb prof warn pol s rev delayed t rs_id rs amount = SOk
  else
    exists given cn nh,
      sign_holder_htlc_tx spk H sighash H_eqb prof warn pol s given cn nh rev delayed t rs_id rs
        amount = SOk.

Theorem C09_htlc_accept :
  forall (spk : N -> N -> N -> N) (H : Type) (sighash : covered -> H) (H_eqb : H -> H -> bool),
    (forall a b, H_eqb a b = true -> a = b) ->
    (forall a b, sighash a = sighash b -> a = b) ->
    forall prof warn pol is_cp s rev delayed t rs_id rs amount,
      warn H_fee_range = false ->
      amount_fits prof amount ->
      commitment_type s <> Anchors ->
      htlc_accepted spk H sighash H_eqb prof warn pol is_cp s rev delayed t rs_id rs amount ->
      let c := commitment_type s in
      exists i0 o0 offered r,
        nthN (tx_ins t) 0 = Some i0 /\ nthN (tx_outs t) 0 = Some o0 /\
        htlc_kind rs (is_anchors c) = Some offered /\
        (if is_zero_fee_htlc c then r = 0 else min_feerate pol <= r <= max_feerate pol) /\
        out_value o0 + bolt3_htlc_fee c offered r = amount /\
        (warn H_locktime = false -> offered = true -> tx_locktime t <> 0) /\
        covered_fields (sh_of c) t 0 rs_id amount <> None /\
        covered_fields (sh_of c) t 0 rs_id amount =
        covered_fields (sh_of c)
          (canon_htlc_tx spk c (prev_txid i0) (prev_vout i0) offered (tx_locktime t) amount r
                         (self_delay is_cp s) rev delayed) 0 rs_id amount.
Proof.
  intros spk H sighash H_eqb He Hi prof warn pol is_cp s rev delayed t rs_id rs amount
         Hw Hf Hc A.
  eapply htlc_accept; try eassumption.
  destruct is_cp; cbn [htlc_accepted] in A.
  - exact A.
  - destruct A as (given & cn & nh & A). apply sign_holder_through in A. tauto.
Qed.
Print Assumptions C09_htlc_accept.

(** The same, field by field: version 2; HTLC-success has lock time 0; the spent input's
    sequence is 1 with anchors and 0 without; output 0 pays the revokeable script of the
    negotiated delay, revocation key and delayed key, and amount minus the BOLT-3 fee at an
    in-range rate; without anchors (SIGHASH_ALL) there is no other input and no other output. *)
Theorem C09_htlc_accept_fields :
  forall (spk : N -> N -> N -> N) (H : Type) (sighash : covered -> H) (H_eqb : H -> H -> bool),
    (forall a b, H_eqb a b = true -> a = b) ->
    (forall a b, sighash a = sighash b -> a = b) ->
    forall prof warn pol is_cp s rev delayed t rs_id rs amount,
      warn H_fee_range = false ->
      amount_fits prof amount ->
      commitment_type s <> Anchors ->
      htlc_accepted spk H sighash H_eqb prof warn pol is_cp s rev delayed t rs_id rs amount ->
      let c := commitment_type s in
      exists i0 o0 offered r,
        nthN (tx_ins t) 0 = Some i0 /\ nthN (tx_outs t) 0 = Some o0 /\
        htlc_kind rs (is_anchors c) = Some offered /\
        (if is_zero_fee_htlc c then r = 0 else min_feerate pol <= r <= max_feerate pol) /\
        tx_version t = 2 /\
        (offered = false -> tx_locktime t = 0) /\
        in_seq i0 = (if is_anchors c then 1 else 0) /\
        out_spk o0 = spk rev (self_delay is_cp s) delayed /\
        out_value o0 + bolt3_htlc_fee c offered r = amount /\
        (is_anchors c = false -> tx_ins t = [i0] /\ tx_outs t = [o0]).
Proof.
  intros spk H sighash H_eqb He Hi prof warn pol is_cp s rev delayed t rs_id rs amount
         Hw Hf Hc A.
  eapply htlc_accept_fields; try eassumption.
  destruct is_cp; cbn [htlc_accepted] in A.
  - exact A.
  - destruct A as (given & cn & nh & A). apply sign_holder_through in A. tauto.
Qed.
Print Assumptions C09_htlc_accept_fields.

(** an in-range estimate of [estimate_feerate_per_kw] is the exact rate of the fee *)
Theorem C09_feerate_exact :
  forall fee w, 0 < w -> w <= 1000 -> estimate_feerate_per_kw fee w < U32MAX ->
    estimate_feerate_per_kw fee w * w / 1000 = fee.
Proof. exact estimate_exact. Qed.

(** * Non-vacuity *)

(** script 10 is the wallet's under path 7, script 11 is allowlisted, everything else foreign *)
Definition w_ex : wallet :=
  mkWallet (fun p s => if (p =? 7) && (s =? 10) then CanSpend else CannotSpend)
           (fun s _ => s =? 11).
Definition s_ex (c : ctype) : setup := mkSetup true 3000000 0 6 7 c 0.

(** three-output, two-input sweeps signed for input 1, lock times on the bound, both kinds of
    counterparty HTLC, anchors on and off; the minimum timestamp as lock time *)
Example C09_sweep_nonvacuous :
  let outs := [mkOut 1000 10; mkOut 2000 11; mkOut 3000 10] in
  sign_delayed_sweep SignedInput Debug sstrict w_ex (s_ex StaticRemoteKey) 800000
    (mkTx 2 800002 [mkIn 1 0 0; mkIn 2 4 7] outs) 1 53 53 7 = SOk /\
  sign_delayed_sweep SignedInput Release sstrict w_ex (s_ex StaticRemoteKey) 800000
    (mkTx 2 500000000 [mkIn 2 4 7] outs) 0 54 53 7 = SOk /\
  sign_counterparty_htlc_sweep SignedInput Debug sstrict w_ex (s_ex AnchorsZeroFeeHtlc) 800000
    (mkTx 2 800100 [mkIn 1 0 0; mkIn 2 4 1] outs) (RS_received true false 800100) 1 7 = SOk /\
  sign_counterparty_htlc_sweep SignedInput Debug sstrict w_ex (s_ex StaticRemoteKey) 800000
    (mkTx 2 800002 [mkIn 2 4 4294967293] outs) (RS_offered false) 0 7 = SOk /\
  sign_justice_sweep SignedInput Debug sstrict w_ex 800000
    (mkTx 2 0 [mkIn 1 0 5; mkIn 2 4 4294967295] outs) 1 7 = SOk.
Proof. vm_compute. repeat split. Qed.

(** and each bound is tight: one past it is refused *)
Example C09_sweep_bounds_tight :
  let outs := [mkOut 1000 10; mkOut 2000 11] in
  sign_delayed_sweep SignedInput Debug sstrict w_ex (s_ex StaticRemoteKey) 800000
    (mkTx 2 800003 [mkIn 2 4 7] outs) 0 53 53 7 = SErr S_locktime /\
  sign_delayed_sweep SignedInput Debug sstrict w_ex (s_ex StaticRemoteKey) 800000
    (mkTx 2 500000001 [mkIn 2 4 7] outs) 0 53 53 7 = SErr S_locktime /\
  sign_delayed_sweep SignedInput Debug sstrict w_ex (s_ex StaticRemoteKey) 800000
    (mkTx 2 0 [mkIn 2 4 8] outs) 0 53 53 7 = SErr S_sequence /\
  sign_delayed_sweep SignedInput Debug sstrict w_ex (s_ex StaticRemoteKey) 800000
    (mkTx 2 0 [mkIn 2 4 7] (outs ++ [mkOut 1 12])) 0 53 53 7 = SErr S_destination /\
  sign_delayed_sweep SignedInput Debug sstrict w_ex (s_ex StaticRemoteKey) 800000
    (mkTx 2 0 [mkIn 2 4 7] outs) 0 53 53 8 = SErr S_destination /\
  sign_delayed_sweep SignedInput Debug sstrict w_ex (s_ex StaticRemoteKey) 800000
    (mkTx 3 0 [mkIn 2 4 7] outs) 0 53 53 7 = SErr S_version /\
  sign_counterparty_htlc_sweep SignedInput Debug sstrict w_ex (s_ex StaticRemoteKey) 800000
    (mkTx 2 800101 [mkIn 2 4 0] outs) (RS_received false false 800100) 0 7 = SErr S_locktime.
Proof. vm_compute. repeat split. Qed.

(** second-level HTLC transactions; the signature hash is the identity on the covered fields,
    which satisfies the two premises of [C09_htlc_accept] *)
Definition spk_ex (r d k : N) : N := 1000000 * r + 1000 * d + k.
Definition pol_h : policy := mkPol 144 2016 1000000001 1000 16777216 true 253 25000.
Definition hsign_holder prof pol s :=
  sign_holder_htlc_tx spk_ex covered (fun x => x) cov_eqb prof sstrict pol s.
Definition hsign_cp prof pol s :=
  sign_counterparty_htlc_tx spk_ex covered (fun x => x) cov_eqb prof sstrict pol s.

Example C09_htlc_premises_satisfiable :
  (forall a b, cov_eqb a b = true -> a = b) /\
  (forall a b : covered, (fun x => x) a = (fun x => x) b -> a = b).
Proof. split; [exact cov_eqb_true | auto]. Qed.

(** HTLC-timeout of our own commitment without anchors at the minimum rate (fee 253*663/1000),
    HTLC-success of the counterparty's commitment with zero-fee anchors and a second input and
    output riding along under SINGLE|ANYONECANPAY, HTLC-success without anchors at rate 24999 (the
    estimator attributes a fee to the highest rate that produces it) *)
Example C09_htlc_nonvacuous :
  hsign_holder Debug pol_h (s_ex StaticRemoteKey) false 54 53 1 2
    (mkTx 2 800144 [mkIn 77 3 0] [mkOut (1000000 - 167) (spk_ex 1 7 2)])
    500 (RS_offered false) 1000000 = SOk /\
  hsign_cp Release pol_h (s_ex AnchorsZeroFeeHtlc) 1 2
    (mkTx 2 0 [mkIn 77 3 1; mkIn 99 0 5] [mkOut 1000000 (spk_ex 1 6 2); mkOut 555 9])
    501 (RS_received true false 800144) 1000000 = SOk /\
  hsign_cp Debug pol_h (s_ex StaticRemoteKey) 1 2
    (mkTx 2 0 [mkIn 77 3 0] [mkOut (1000000 - 17574) (spk_ex 1 6 2)])
    502 (RS_received false false 800144) 1000000 = SOk.
Proof. vm_compute. repeat split. Qed.

(** one field off the BOLT-3 transaction and the request is refused: delay, revocation key,
    delayed key, sequence, version, lock time of an HTLC-success, a second output under
    SIGHASH_ALL, a fee one satoshi off a BOLT-3 fee, a rate below the minimum / above the maximum *)
Example C09_htlc_bounds_tight :
  let sign t := hsign_cp Debug pol_h (s_ex StaticRemoteKey) 1 2 t 502 (RS_received false false 800144)
                  1000000 in
  let v := 1000000 - 17574 in
  sign (mkTx 2 0 [mkIn 77 3 0] [mkOut v (spk_ex 1 7 2)]) = SErr H_mismatch /\
  sign (mkTx 2 0 [mkIn 77 3 0] [mkOut v (spk_ex 3 6 2)]) = SErr H_mismatch /\
  sign (mkTx 2 0 [mkIn 77 3 0] [mkOut v (spk_ex 1 6 3)]) = SErr H_mismatch /\
  sign (mkTx 2 0 [mkIn 77 3 1] [mkOut v (spk_ex 1 6 2)]) = SErr H_mismatch /\
  sign (mkTx 1 0 [mkIn 77 3 0] [mkOut v (spk_ex 1 6 2)]) = SErr H_mismatch /\
  sign (mkTx 2 5 [mkIn 77 3 0] [mkOut v (spk_ex 1 6 2)]) = SErr H_mismatch /\
  sign (mkTx 2 0 [mkIn 77 3 0] [mkOut v (spk_ex 1 6 2); mkOut 0 10]) = SErr H_mismatch /\
  sign (mkTx 2 0 [mkIn 77 3 0] [mkOut (1000000 - 176) (spk_ex 1 6 2)]) = SErr H_fee_range /\
  sign (mkTx 2 0 [mkIn 77 3 0] [mkOut (1000000 - 17575) (spk_ex 1 6 2)]) = SErr H_fee_range /\
  sign (mkTx 2 0 [mkIn 77 3 0] [mkOut 1000001 (spk_ex 1 6 2)]) = SErr H_fee_underflow.
Proof. vm_compute. repeat split. Qed.

(** * The code as found: the sequence of the signed input is not the one that is checked *)

(** [validate_{delayed,counterparty_htlc,justice}_sweep] read [tx.input[0].sequence] while the
    signature is produced for [tx.input[input]].  With two inputs and input 1 signed, a delayed
    sweep whose signed input carries sequence 42 (contest delay 7), and a justice sweep whose
    signed input carries a 65535-block relative lock, are accepted; the other way round, the
    well-formed sweep whose input 0 is another channel's output is refused. *)
Example C09_first_input_sequence_refuted :
  exists t1 t2 t3 input,
    sign_delayed_sweep FirstInput Debug sstrict w_ex (s_ex StaticRemoteKey) 800000 t1 input 53 53 7 = SOk /\
    signed_seq t1 input <> Some (cp_delay (s_ex StaticRemoteKey)) /\
    sign_delayed_sweep SignedInput Debug sstrict w_ex (s_ex StaticRemoteKey) 800000 t1 input 53 53 7
      = SErr S_sequence /\
    sign_justice_sweep FirstInput Debug sstrict w_ex 800000 t2 input 7 = SOk /\
    signed_seq t2 input = Some 65535 /\ ~ no_relative_lock 65535 /\
    sign_delayed_sweep FirstInput Debug sstrict w_ex (s_ex StaticRemoteKey) 800000 t3 input 53 53 7
      = SErr S_sequence /\
    sign_delayed_sweep SignedInput Debug sstrict w_ex (s_ex StaticRemoteKey) 800000 t3 input 53 53 7
      = SOk.
Proof.
  exists (mkTx 2 0 [mkIn 1 0 7; mkIn 2 4 42] [mkOut 1000 10]),
         (mkTx 2 0 [mkIn 1 0 0; mkIn 2 4 65535] [mkOut 1000 10]),
         (mkTx 2 0 [mkIn 1 0 0; mkIn 2 4 7] [mkOut 1000 10]), 1.
  vm_compute. repeat split; try congruence.
  intros [A|[A|A]]; discriminate.
Qed.

(** what does hold of the code as found: everything else, and the sequence bound for input 0 *)
Theorem C09_sweep_accept_as_found_input0 :
  forall prof warn w s h t input path,
    warn S_destination = false ->
    (forall cn nh,
       sign_delayed_sweep FirstInput prof warn w s h t input cn nh path = SOk ->
       AllOutputsOwned w path t /\ tx_version t = 2 /\ LocktimeBound h (tx_locktime t) /\
       (input = 0 -> signed_seq t input = Some (cp_delay s))) /\
    (forall rs,
       sign_counterparty_htlc_sweep FirstInput prof warn w s h t rs input path = SOk ->
       AllOutputsOwned w path t /\ tx_version t = 2 /\
       CpHtlcLocktimeBound (is_anchors (commitment_type s)) h rs (tx_locktime t) /\
       (input = 0 -> exists sq, signed_seq t input = Some sq /\
                                CpHtlcSequenceBound (is_anchors (commitment_type s)) sq)) /\
    (sign_justice_sweep FirstInput prof warn w h t input path = SOk ->
     AllOutputsOwned w path t /\ tx_version t = 2 /\ LocktimeBound h (tx_locktime t) /\
     (input = 0 -> exists sq, signed_seq t input = Some sq /\ no_relative_lock sq)).
Proof.
  intros prof warn w s h t input path Hw. split; [|split].
  - intros cn nh S. apply sign_delayed_through in S. destruct S as (_ & _ & S).
    apply delayed_accept_first in S; [|assumption]. destruct S as (A & B & C & D).
    repeat split; auto. intros ->. exact D.
  - intros rs S. apply sign_cp_htlc_through in S. destruct S as (_ & S).
    apply cp_htlc_accept_first in S; [|assumption]. destruct S as (A & B & C & D).
    repeat split; auto. intros ->. exact D.
  - intros S. apply sign_justice_through in S. destruct S as (_ & S).
    apply justice_accept_first in S; [|assumption]. destruct S as (A & B & C & D).
    repeat split; auto. intros ->. exact D.
Qed.
Print Assumptions C09_sweep_accept_as_found_input0.

(** * Why the side conditions of [C09_htlc_accept] are there *)

(** CommitmentType::Anchors (not a safe type: validate_setup_channel refuses it, C05_setup) sets
    the non-zero-fee anchor bit, which LDK's builders do not implement: the recomposition keeps
    sequence 0 and the non-anchor weight while the signature is SINGLE|ANYONECANPAY; BOLT-3
    asks for sequence 1 *)
Example C09_htlc_anchors_nonzero_fee_deviates :
  hsign_cp Debug pol_h (s_ex Anchors) 1 2
    (mkTx 2 0 [mkIn 77 3 0] [mkOut (1000000 - 703) (spk_ex 1 6 2)])
    502 (RS_received true false 800144) 1000000 = SOk /\
  hsign_cp Debug pol_h (s_ex Anchors) 1 2
    (mkTx 2 0 [mkIn 77 3 1] [mkOut (1000000 - 706) (spk_ex 1 6 2)])
    502 (RS_received true false 800144) 1000000 = SErr H_mismatch.
Proof. vm_compute. repeat split. Qed.

(** release builds wrap [htlc_amount_sat * 1000]: above 2^64/1000 sat the zero-fee recomposition
    pays the wrapped amount; debug builds panic *)
Example C09_htlc_release_amount_wrap :
  let amount := 18446744073709552 + 1000000 in
  let t := mkTx 2 0 [mkIn 77 3 1] [mkOut 1000000 (spk_ex 1 6 2)] in
  hsign_cp Release pol_h (s_ex AnchorsZeroFeeHtlc) 1 2 t 501 (RS_received true false 800144) amount
    = SOk /\
  hsign_cp Debug pol_h (s_ex AnchorsZeroFeeHtlc) 1 2 t 501 (RS_received true false 800144) amount
    = SPanic /\
  ~ amount_fits Release amount.
Proof.
  split; [vm_compute; reflexivity|]. split; [vm_compute; reflexivity|].
  intros [A|A]; [discriminate|]. vm_compute in A. apply A. reflexivity.
Qed.

Check C09_sweep_accept.
Check C09_htlc_accept.
Check C09_htlc_accept_fields.

(** The feerate estimate by which the HTLC-transaction decoder recovers the feerate in the sweep model is the one in the source.  Gen/TxUtilGen.v is the statement-by-statement translation of [estimate_feerate_per_kw]
    (vls-core/src/util/transaction_utils.rs, regenerated on every run by tools/gen_rustfn.py): for
    every u64 fee and every non-zero weight it returns, in both build profiles, the model's value. *)
From VLS Require Gen.TxUtilGen Proofs.TxUtilGenProofs.
Theorem C09_feerate_estimate_is_source :
  forall (prof : profile) (fee w : N),
    fee <= U64MAX -> 0 < w ->
    TxUtilGen.gen_estimate_feerate_per_kw prof fee w = Val (CommitmentPolicy.estimate_feerate_per_kw fee w).
Proof. exact TxUtilGenProofs.gen_estimate_is_model. Qed.
Print Assumptions C09_feerate_estimate_is_source.

(** The three sweep validators modelled above are the ones in the source.  Gen/SweepGen.v is the
    statement-by-statement translation (tools/gen_rustfn.py, regenerated on every run) of
    SimpleValidator::validate_sweep (version, then every output: wallet error, spendable by the
    wallet under the path, allowlisted, else policy-sweep-destination-allowlisted through the filter),
    ::validate_delayed_sweep and ::validate_justice_sweep (whole bodies: the common validation, the
    lock time against current_height + MAX_CHAIN_LAG, the sequence of the input being signed against
    the counterparty-selected delay resp. NON_ANCHOR_SEQS), with MAX_CHAIN_LAG and the sequence sets
    read from the file.  What lives outside the validator is a parameter of the translation and is
    instantiated here with the model's reading of it: the wallet's answers ([spend_fn], [allow_fn] of
    the model's wallet), and rust-bitcoin's Version::TWO = 2, Time::MIN, Height::from_consensus
    ([height_fn]: a height below 500000000) and LockTime::is_satisfied_by.  For every model
    transaction (as the source-level transaction [conc_tx t]), wallet, filter and both build profiles
    the generated function answers what the model answers, panics included.  transaction_format_err!
    ignores its tag argument: the four format classes of the model (version, locktime, sequence,
    other) are one tag in the source ([err_tag], via [of_sres]); the two policy errors keep theirs.
    Not translated: validate_counterparty_htlc_sweep (an i64 expiry from the script parser and
    `if let Ok((..)) = ..` chains are outside the translator's fragment); it stays tied by the
    correspondence check only. *)
From Coq Require String.
From VLS Require Gen.CommitmentPolicyGen Gen.SweepGen Proofs.SweepGenProofs.

Theorem C09_sweep_rules_are_source :
  forall (prof : profile) (swarn : String.string -> bool) (w : wallet) (wid : N) (t : tx)
         (input amount path : N),
    SweepGen.gen_validate_sweep prof swarn 2 (SweepGenProofs.spend_fn w) (SweepGenProofs.allow_fn w) wid
      (SweepGenProofs.conc_tx t) input amount path =
    SweepGenProofs.of_sres (validate_sweep (SweepGenProofs.sfilter swarn) w t path).
Proof. exact SweepGenProofs.gen_sweep_is_model. Qed.
Print Assumptions C09_sweep_rules_are_source.

Theorem C09_delayed_sweep_rules_are_source :
  forall (prof : profile) (swarn : String.string -> bool) (w : wallet) (wid : N)
         (gs : CommitmentPolicyGen.ChannelSetup) (gcs : CommitmentPolicyGen.ChainState) (t : tx)
         (input amount path : N),
    SweepGen.gen_validate_delayed_sweep prof swarn 2 (SweepGenProofs.spend_fn w) (SweepGenProofs.allow_fn w)
      SweepGenProofs.height_fn TIME_MIN is_satisfied_by wid gs gcs (SweepGenProofs.conc_tx t) input amount path =
    SweepGenProofs.of_sres
      (validate_delayed_sweep SignedInput prof (SweepGenProofs.sfilter swarn) w
         (CommitmentPolicyGen.ChannelSetup_counterparty_selected_contest_delay gs)
         (CommitmentPolicyGen.ChainState_current_height gcs) t input path).
Proof. exact SweepGenProofs.gen_delayed_sweep_is_model. Qed.
Print Assumptions C09_delayed_sweep_rules_are_source.

Theorem C09_justice_sweep_rules_are_source :
  forall (prof : profile) (swarn : String.string -> bool) (w : wallet) (wid : N)
         (gs : CommitmentPolicyGen.ChannelSetup) (gcs : CommitmentPolicyGen.ChainState) (t : tx)
         (input amount path : N),
    SweepGen.gen_validate_justice_sweep prof swarn 2 (SweepGenProofs.spend_fn w) (SweepGenProofs.allow_fn w)
      SweepGenProofs.height_fn TIME_MIN is_satisfied_by wid gs gcs (SweepGenProofs.conc_tx t) input amount path =
    SweepGenProofs.of_sres
      (validate_justice_sweep SignedInput prof (SweepGenProofs.sfilter swarn) w
         (CommitmentPolicyGen.ChainState_current_height gcs) t input path).
Proof. exact SweepGenProofs.gen_justice_sweep_is_model. Qed.
Print Assumptions C09_justice_sweep_rules_are_source.
