(** Meaning of the Rust fragment that tools/gen_rustfn.py translates (statement by statement)
    into Gallina: u64 / usize arithmetic under a build profile, Vec<u64> operations, loops.
    A panic is [Trap]; statements are sequenced in the [trap] monad.  The target is 64-bit:
    usize = u64, and [as u64] / [as usize] between u32, u64 and usize values that fit are the
    identity. *)
From VLS Require Export Base.U64.

Definition bindT {A B} (x : trap A) (f : A -> trap B) : trap B :=
  match x with Val a => f a | Trap => Trap end.
Notation "x <- e ;; k" := (bindT e (fun x => k)) (at level 61, e at next level, right associativity).
Notation "' p <- e ;; k" := (bindT e (fun p => k)) (at level 61, p pattern, e at next level, right associativity).

(** [/] and [%] panic on a zero divisor in every build profile *)
Definition div_p (a b : N) : trap N := if b =? 0 then Trap else Val (a / b).
Definition rem_p (a b : N) : trap N := if b =? 0 then Trap else Val (a mod b).

(** plain [+] and [-] on u32 under a build profile *)
Definition add32_p (p : profile) (a b : N) : trap N :=
  match p with
  | Debug => if a + b <=? U32MAX then Val (a + b) else Trap
  | Release => Val ((a + b) mod two32)
  end.
Definition sub32_p (p : profile) (a b : N) : trap N :=
  match p with
  | Debug => if b <=? a then Val (a - b) else Trap
  | Release => Val ((a + two32 - b) mod two32)
  end.

(** plain [+] and [*] on u128 under a build profile *)
Definition two128 : N := 340282366920938463463374607431768211456.
Definition add128_p (p : profile) (a b : N) : trap N :=
  match p with
  | Debug => if a + b <? two128 then Val (a + b) else Trap
  | Release => Val ((a + b) mod two128)
  end.
Definition mul128_p (p : profile) (a b : N) : trap N :=
  match p with
  | Debug => if a * b <? two128 then Val (a * b) else Trap
  | Release => Val ((a * b) mod two128)
  end.

(** Vec<u64> *)
Definition vec_len (v : list N) : N := N.of_nat (length v).
(** Vec::resize(new_len, value) *)
Definition vec_resize (v : list N) (n : N) (x : N) : list N :=
  firstn (N.to_nat n) v ++ repeat x (N.to_nat n - length v).
(** Vec::insert(index, element): panics if index > len *)
Definition vec_insert (v : list N) (i x : N) : trap (list N) :=
  if vec_len v <? i then Trap else Val (firstn (N.to_nat i) v ++ x :: skipn (N.to_nat i) v).
(** v[i] : panics if out of bounds *)
Definition vec_get (v : list N) (i : N) : trap N :=
  match nth_error v (N.to_nat i) with Some x => Val x | None => Trap end.
(** v[i] = x *)
Definition vec_set (v : list N) (i x : N) : trap (list N) :=
  if i <? vec_len v then Val (firstn (N.to_nat i) v ++ x :: skipn (S (N.to_nat i)) v) else Trap.

(** for _ in 0..n { body } over the loop-carried state *)
Fixpoint iter_p {S} (n : nat) (body : S -> trap S) (s : S) : trap S :=
  match n with
  | O => Val s
  | S k => s1 <- body s ;; iter_p k body s1
  end.
(** for x in v.iter() { body } *)
Fixpoint fold_p {S} (body : S -> N -> trap S) (v : list N) (s : S) : trap S :=
  match v with
  | [] => Val s
  | x :: r => s1 <- body s x ;; fold_p body r s1
  end.

Fixpoint iter_l {S} (n : nat) (f : S -> S) (s : S) : S :=
  match n with O => s | S k => iter_l k f (f s) end.

Lemma iter_p_val {S} (f : S -> S) n (s : S) :
  iter_p n (fun x => Val (f x)) s = Val (iter_l n f s).
Proof. revert s. induction n as [|n IH]; intros s; cbn [iter_p iter_l bindT]; [reflexivity | apply IH]. Qed.

Lemma fold_p_val {S} (f : S -> N -> S) v (s : S) :
  fold_p (fun x y => Val (f x y)) v s = Val (fold_left f v s).
Proof. revert s. induction v as [|x v IH]; intros s; cbn [fold_p fold_left bindT]; [reflexivity | apply IH]. Qed.

Lemma iter_p_ext {S} (body : S -> trap S) (f : S -> S) n :
  (forall s, body s = Val (f s)) -> forall s, iter_p n body s = Val (iter_l n f s).
Proof.
  intros H. induction n as [|n IH]; intros s; cbn [iter_p iter_l]; [reflexivity|].
  rewrite H. cbn [bindT]. apply IH.
Qed.

Lemma fold_p_ext {S} (body : S -> N -> trap S) (f : S -> N -> S) v :
  (forall s x, body s x = Val (f s x)) -> forall s, fold_p body v s = Val (fold_left f v s).
Proof.
  intros H. induction v as [|x v IH]; intros s; cbn [fold_p fold_left]; [reflexivity|].
  rewrite H. cbn [bindT]. apply IH.
Qed.

(** * Result<T, ValidationError>, with the error reduced to its policy tag

    Used by the translations that keep the tag (Gen/CommitmentPolicyGen.v).  Of a
    [ValidationError] only the tag is kept (the message and the kind do not enter the decision);
    a function body is a computation in [trap (result A)]: a panic, an early return of [Err], or a
    value.  The translations made before (Gen/PaymentsGen.v) render [Result<(), _>] as [bool]. *)
From Coq Require Import String.
From Coq Require Import List.          (* [length] means the list function again *)

Inductive result (A : Type) := OkR (a : A) | ErrR (tag : string).
Arguments OkR {A} a.
Arguments ErrR {A} tag.

(** [e?] : continue with the value of [Ok], leave the function with the error of [Err] *)
Definition bindR {A B} (x : trap (result A)) (f : A -> trap (result B)) : trap (result B) :=
  match x with
  | Trap => Trap
  | Val (ErrR t) => Val (ErrR t)
  | Val (OkR a) => f a
  end.
Notation "x <-? e ;; k" := (bindR e (fun x => k)) (at level 61, e at next level, right associativity).

(** [policy_err!(self, tag, ..)] = [self.policy().policy_error(tag, msg)?] : the policy filter
    decides; a tag it downgrades to a warning lets execution continue *)
Definition policy_err (warn : string -> bool) (tag : string) : trap (result unit) :=
  if warn tag then Val (OkR tt) else Val (ErrR tag).

(** [opt.ok_or_else(|| policy_error(tag, ..))] : the error is built without asking the filter *)
Definition ok_or {A} (o : option A) (tag : string) : trap (result A) :=
  match o with Some a => Val (OkR a) | None => Val (ErrR tag) end.

(** [for x in &v { body }] over the loop-carried state, for a body that may leave the function
    with an error ([?], [policy_err!]): the first error ends the loop and is the function's answer *)
Fixpoint fold_r {S A} (body : S -> A -> trap (result S)) (v : list A) (s : S) : trap (result S) :=
  match v with
  | [] => Val (OkR s)
  | x :: r => s1 <-? body s x ;; fold_r body r s1
  end.

(** [v.len()] of a Vec of any element type *)
Definition len_of {A} (v : list A) : N := N.of_nat (length v).

(** [==] on opaque values (keys, points, commitment contents: identities; their PartialEq is
    structural, so two values are equal iff they are the same identity) and on [Option]s of them *)
Definition opt_id_eqb (a b : option N) : bool :=
  match a, b with
  | Some x, Some y => x =? y
  | None, None => true
  | _, _ => false
  end.

(** [opt.unwrap()] / [opt.expect(..)]: panics on [None] *)
Definition expect_some {A} (o : option A) : trap A :=
  match o with Some a => Val a | None => Trap end.

(** [return Err(e)] from anywhere in the body (also through a macro such as
    transaction_format_err!): the rest of the function is not run - in the result monad the same
    as [Err(e)?] *)
Definition early_err (tag : string) : trap (result unit) := Val (ErrR tag).

(** [v.get(i)] : [None] when out of range *)
Definition vec_nth {A} (v : list A) (i : N) : option A := nth_error v (N.to_nat i).

(** [v.contains(&x)] on a vector of integers *)
Definition vec_contains (v : list N) (x : N) : bool := existsb (N.eqb x) v.

(** [opt.is_none()], [opt.is_some()], [v.is_empty()] *)
Definition is_none_of {A} (o : option A) : bool := match o with None => true | Some _ => false end.
Definition is_some_of {A} (o : option A) : bool := match o with None => false | Some _ => true end.
Definition is_empty_of {A} (v : list A) : bool := match v with [] => true | _ => false end.

(** * Maps and sets with opaque or integer keys

    [Map<K, V>] / [OrderedMap<K, V>] (hashbrown::HashMap, BTreeMap) are association lists with at
    most one entry per key ([N] for the key: an identity or an integer); [UnorderedSet<K>] /
    [OrderedSet<K>] are lists without repetition.  The position of an entry in the list carries no
    meaning: whenever a translated function *iterates* ([for x in m.iter()], [.keys()], [.values()]
    in a loop), the elements are visited in the order [ord l] for an uninterpreted [ord] that the
    theorems only know to be a permutation - for a hash map the real order is arbitrary, and for an
    ordered map over opaque keys the key order is not expressible.  [iter().sum()] of u64 values does
    not go through [ord]: its outcome (value, wrap, or overflow panic) is the same for every order
    (Proofs/RustFacts.v, [sum_p_perm]). *)
Definition rmap (V : Type) : Type := list (N * V).

Fixpoint map_get {V} (m : rmap V) (k : N) : option V :=
  match m with
  | [] => None
  | (k', v) :: r => if k' =? k then Some v else map_get r k
  end.
Definition map_contains {V} (m : rmap V) (k : N) : bool := is_some_of (map_get m k).
Definition map_remove {V} (m : rmap V) (k : N) : rmap V := filter (fun e => negb (fst e =? k)) m.
(** [m.insert(k, v)]: the entry for [k] is replaced or added *)
Definition map_insert {V} (m : rmap V) (k : N) (v : V) : rmap V := (k, v) :: map_remove m k.
Definition map_keys {V} (m : rmap V) : list N := map fst m.
Definition map_values {V} (m : rmap V) : list V := map snd m.

Definition set_contains (s : list N) (k : N) : bool := existsb (N.eqb k) s.
Definition set_insert (s : list N) (k : N) : list N := if set_contains s k then s else s ++ [k].
(** [s.extend(iterator)]: every element is inserted *)
Definition set_extend (s : list N) (l : list N) : list N := fold_left set_insert l s.

(** [iter.sum::<u64>()]: [+] from 0, overflow as for [+] *)
Fixpoint sum_from (p : profile) (l : list N) (acc : N) : trap N :=
  match l with
  | [] => Val acc
  | x :: r => s <- add_p p acc x ;; sum_from p r s
  end.
Definition sum_p (p : profile) (l : list N) : trap N := sum_from p l 0.

(** [opt.map(|x| f x)] is [option_map]; [v.push(x)] appends *)
Definition vec_push {A} (v : list A) (x : A) : list A := v ++ [x].

(** pattern binder for [bindR] (several loop-carried variables) *)
Notation "' p <-? e ;; k" := (bindR e (fun p => k)) (at level 61, p pattern, e at next level, right associativity).

(** [iter.min()] / [iter.max()] over u32 / u64 values: [None] for an empty iterator *)
Definition min_of (l : list N) : option N :=
  match l with [] => None | x :: r => Some (fold_left N.min r x) end.
Definition max_of (l : list N) : option N :=
  match l with [] => None | x :: r => Some (fold_left N.max r x) end.

(** [m.entry(k).and_modify(|e| *e = f e).or_insert(d)] on a map: the entry is updated when it
    exists (the update may panic: [*e += x]), inserted with [d] when it does not and there is an
    [or_insert]; without [or_insert] a missing key changes nothing *)
Definition map_entry_update {V} (m : rmap V) (k : N) (f : V -> trap V) (d : option V) : trap (rmap V) :=
  match map_get m k with
  | Some e => v <- f e ;; Val (map_insert m k v)
  | None => match d with Some v => Val (map_insert m k v) | None => Val m end
  end.

(** [m.retain(|k, _| keep k)] *)
Definition map_retain {V} (m : rmap V) (keep : N -> bool) : rmap V := filter (fun e => keep (fst e)) m.

(** [a.or(b)] on options *)
Definition opt_or_else {A} (a b : option A) : option A := match a with Some _ => a | None => b end.

(** [m.retain(|k, v| { ..; keep })] with a closure that assigns captured variables (the state [S] handed from
    entry to entry) and may panic: the entries are visited in the order of the association list, which stands for
    the unspecified order of the hash map (a theorem about every list that represents the map is a theorem about
    every visiting order) *)
Fixpoint map_retain_st {V S} (m : rmap V) (f : S -> N -> V -> trap (result (S * bool))) (s : S)
  : trap (result (rmap V * S)) :=
  match m with
  | [] => Val (OkR ([], s))
  | (k, v) :: r =>
      ' (s1, keep) <-? f s k v ;;
      ' (r', s2) <-? map_retain_st r f s1 ;;
      Val (OkR (if keep : bool then (k, v) :: r' else r', s2))
  end.

(** * BTreeMap<String, V> and Vec<u8> (vls-persist/src/kvv)
    A string is the list of its UTF-8 bytes; [Ord for str] is the lexicographic order of the bytes; the map is the list
    of its entries in ascending key order (what [iter] / [range] of the BTreeMap walk through). *)
Fixpoint bytes_cmp (a b : list N) : comparison :=
  match a, b with
  | [], [] => Eq
  | [], _ :: _ => Lt
  | _ :: _, [] => Gt
  | x :: a', y :: b' => match N.compare x y with Eq => bytes_cmp a' b' | c => c end
  end.
(** [==] on Vec<u8> *)
Fixpoint bytes_eqb (a b : list N) : bool :=
  match a, b with
  | [], [] => true
  | x :: a', y :: b' => (x =? y) && bytes_eqb a' b'
  | _, _ => false
  end.
Definition bmap (V : Type) := list (list N * V).
Fixpoint bmap_get {V} (m : bmap V) (k : list N) : option V :=
  match m with
  | [] => None
  | (k', v) :: r => match bytes_cmp k k' with Eq => Some v | _ => bmap_get r k end
  end.
(** [m.insert(k, v)]: the entry for [k] is replaced, or added at its place in the order *)
Fixpoint bmap_insert {V} (m : bmap V) (k : list N) (v : V) : bmap V :=
  match m with
  | [] => [(k, v)]
  | (k', v') :: r =>
      match bytes_cmp k k' with
      | Eq => (k, v) :: r
      | Lt => (k, v) :: (k', v') :: r
      | Gt => (k', v') :: bmap_insert r k v
      end
  end.
