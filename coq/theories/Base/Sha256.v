(** SHA-256 (FIPS 180-4), HMAC-SHA256 (RFC 2104) and HKDF-SHA256 (RFC 5869) as executable
    Gallina functions over byte lists ([list N], every element < 256), so that models which
    hash (per-commitment secret tree, HKDF key derivation) run under [vm_compute] without an
    oracle.  Validated at the end of the file against the standard test vectors.

    Exports:  [bytes := list N], [sha256 : bytes -> bytes] (32 bytes out),
              [hmac_sha256 key msg], [hkdf_extract salt ikm], [hkdf_expand prk info n_blocks],
              [hkdf_sha256 secret info salt nblocks] (argument order of vls-core's
              [hkdf_sha256(secret, info, salt)]; output = 32 * nblocks bytes),
              [bytes_eqb], [hex] helpers [of_hex]. *)
From Coq Require Import Ascii String NArith List Bool.
Import ListNotations.
Open Scope bool_scope.
Open Scope N_scope.

Definition bytes := list N.

Definition mask32 : N := 4294967295.
Definition add32 (a b : N) : N := N.land (a + b) mask32.
Definition rotr (n x : N) : N := N.lor (N.shiftr x n) (N.land (N.shiftl x (32 - n)) mask32).
Definition shr (n x : N) : N := N.shiftr x n.
Definition not32 (x : N) : N := N.lxor x mask32.

Definition Ch (x y z : N) : N := N.lxor (N.land x y) (N.land (not32 x) z).
Definition Maj (x y z : N) : N := N.lxor (N.lxor (N.land x y) (N.land x z)) (N.land y z).
Definition bsig0 (x : N) : N := N.lxor (N.lxor (rotr 2 x) (rotr 13 x)) (rotr 22 x).
Definition bsig1 (x : N) : N := N.lxor (N.lxor (rotr 6 x) (rotr 11 x)) (rotr 25 x).
Definition ssig0 (x : N) : N := N.lxor (N.lxor (rotr 7 x) (rotr 18 x)) (shr 3 x).
Definition ssig1 (x : N) : N := N.lxor (N.lxor (rotr 17 x) (rotr 19 x)) (shr 10 x).

Definition K256 : list N := [
  0x428a2f98; 0x71374491; 0xb5c0fbcf; 0xe9b5dba5; 0x3956c25b; 0x59f111f1; 0x923f82a4; 0xab1c5ed5;
  0xd807aa98; 0x12835b01; 0x243185be; 0x550c7dc3; 0x72be5d74; 0x80deb1fe; 0x9bdc06a7; 0xc19bf174;
  0xe49b69c1; 0xefbe4786; 0x0fc19dc6; 0x240ca1cc; 0x2de92c6f; 0x4a7484aa; 0x5cb0a9dc; 0x76f988da;
  0x983e5152; 0xa831c66d; 0xb00327c8; 0xbf597fc7; 0xc6e00bf3; 0xd5a79147; 0x06ca6351; 0x14292967;
  0x27b70a85; 0x2e1b2138; 0x4d2c6dfc; 0x53380d13; 0x650a7354; 0x766a0abb; 0x81c2c92e; 0x92722c85;
  0xa2bfe8a1; 0xa81a664b; 0xc24b8b70; 0xc76c51a3; 0xd192e819; 0xd6990624; 0xf40e3585; 0x106aa070;
  0x19a4c116; 0x1e376c08; 0x2748774c; 0x34b0bcb5; 0x391c0cb3; 0x4ed8aa4a; 0x5b9cca4f; 0x682e6ff3;
  0x748f82ee; 0x78a5636f; 0x84c87814; 0x8cc70208; 0x90befffa; 0xa4506ceb; 0xbef9a3f7; 0xc67178f2].

Definition H0 : list N := [
  0x6a09e667; 0xbb67ae85; 0x3c6ef372; 0xa54ff53a; 0x510e527f; 0x9b05688c; 0x1f83d9ab; 0x5be0cd19].

(** big-endian bytes <-> 32-bit words *)
Fixpoint words_of (l : bytes) : list N :=
  match l with
  | a :: b :: c :: d :: r =>
      (N.shiftl a 24 + N.shiftl b 16 + N.shiftl c 8 + d) :: words_of r
  | _ => []
  end.
Definition bytes_of_word (w : N) : bytes :=
  [N.land (N.shiftr w 24) 255; N.land (N.shiftr w 16) 255; N.land (N.shiftr w 8) 255; N.land w 255].
Definition bytes_of_words (ws : list N) : bytes := flat_map bytes_of_word ws.

(** message schedule: [win] holds the last 16 words, most recent first *)
Fixpoint sched (n : nat) (win : list N) (acc : list N) : list N :=
  match n with
  | O => rev acc
  | S m =>
      let w := add32 (add32 (ssig1 (nth 1 win 0)) (nth 6 win 0))
                     (add32 (ssig0 (nth 14 win 0)) (nth 15 win 0)) in
      sched m (w :: firstn 15 win) (w :: acc)
  end.
Definition schedule (blk : list N) : list N := blk ++ sched 48 (rev blk) [].

Definition round (s : N * N * N * N * N * N * N * N) (kw : N * N) :=
  let '(a, b, c, d, e, f, g, h) := s in
  let '(k, w) := kw in
  let t1 := add32 (add32 (add32 h (bsig1 e)) (add32 (Ch e f g) k)) w in
  let t2 := add32 (bsig0 a) (Maj a b c) in
  (add32 t1 t2, a, b, c, add32 d t1, e, f, g).

Definition compress (hs : list N) (blk : list N) : list N :=
  match hs with
  | [a; b; c; d; e; f; g; h] =>
      let '(a', b', c', d', e', f', g', h') :=
        fold_left round (combine K256 (schedule blk)) (a, b, c, d, e, f, g, h) in
      [add32 a a'; add32 b b'; add32 c c'; add32 d d'; add32 e e'; add32 f f'; add32 g g'; add32 h h']
  | _ => hs
  end.

Fixpoint zeros (n : nat) : bytes := match n with O => [] | S m => 0 :: zeros m end.

Definition be64 (n : N) : bytes :=
  [N.land (N.shiftr n 56) 255; N.land (N.shiftr n 48) 255; N.land (N.shiftr n 40) 255;
   N.land (N.shiftr n 32) 255; N.land (N.shiftr n 24) 255; N.land (N.shiftr n 16) 255;
   N.land (N.shiftr n 8) 255; N.land n 255].

Definition pad (msg : bytes) : bytes :=
  let len := length msg in
  let k := Nat.modulo (64 + 55 - Nat.modulo len 64) 64 in   (* len + 1 + k = 56 (mod 64) *)
  msg ++ [128] ++ zeros k ++ be64 (8 * N.of_nat len).

Fixpoint blocks (fuel : nat) (hs : list N) (ws : list N) : list N :=
  match fuel with
  | O => hs
  | S f =>
      match ws with
      | [] => hs
      | _ => blocks f (compress hs (firstn 16 ws)) (skipn 16 ws)
      end
  end.

Definition sha256 (msg : bytes) : bytes :=
  let ws := words_of (pad msg) in
  bytes_of_words (blocks (S (Nat.div (length ws) 16)) H0 ws).

(** HMAC-SHA256: keys longer than the block are hashed, shorter ones zero-padded to 64 *)
Definition hmac_key (key : bytes) : bytes :=
  let k := if Nat.ltb 64 (length key) then sha256 key else key in
  k ++ zeros (Nat.sub 64 (length k)).
Definition hmac_sha256 (key msg : bytes) : bytes :=
  let k := hmac_key key in
  sha256 (map (N.lxor 92) k ++ sha256 (map (N.lxor 54) k ++ msg)).

(** HKDF-SHA256 *)
Definition hkdf_extract (salt ikm : bytes) : bytes := hmac_sha256 salt ikm.
Fixpoint hkdf_expand_from (n : nat) (prk info t : bytes) (i : N) : bytes :=
  match n with
  | O => []
  | S m => let t' := hmac_sha256 prk (t ++ info ++ [i]) in t' ++ hkdf_expand_from m prk info t' (i + 1)
  end.
Definition hkdf_expand (prk info : bytes) (nblocks : nat) : bytes := hkdf_expand_from nblocks prk info [] 1.
(** argument order of vls-core::util::crypto_utils::hkdf_sha256(secret, info, salt) *)
Definition hkdf_sha256 (secret info salt : bytes) (nblocks : nat) : bytes :=
  hkdf_expand (hkdf_extract salt secret) info nblocks.

Fixpoint bytes_eqb (x y : bytes) : bool :=
  match x, y with
  | [], [] => true
  | a :: x', b :: y' => N.eqb a b && bytes_eqb x' y'
  | _, _ => false
  end.

Lemma bytes_eqb_eq (x y : bytes) : bytes_eqb x y = true <-> x = y.
Proof.
  revert y; induction x as [|a x IH]; intros [|b y]; cbn [bytes_eqb]; try (split; (reflexivity || discriminate)).
  rewrite Bool.andb_true_iff, N.eqb_eq, IH. split.
  - intros [-> ->]; reflexivity.
  - intros H; inversion H; split; reflexivity.
Qed.

(** hex / ascii helpers for writing vectors *)
Definition hexval (c : ascii) : N :=
  let n := N_of_ascii c in
  if (48 <=? n) && (n <=? 57) then n - 48
  else if (97 <=? n) && (n <=? 102) then n - 87
  else if (65 <=? n) && (n <=? 70) then n - 55 else 0.
Fixpoint of_hex (s : string) : bytes :=
  match s with
  | String a (String b r) => (16 * hexval a + hexval b) :: of_hex r
  | _ => []
  end.
Fixpoint of_ascii (s : string) : bytes :=
  match s with
  | String a r => N_of_ascii a :: of_ascii r
  | EmptyString => []
  end.
Fixpoint repeat_bytes (n : nat) (b : bytes) : bytes :=
  match n with O => [] | S m => b ++ repeat_bytes m b end.

(** * Validation against the standard vectors *)
Local Open Scope string_scope.

(* FIPS 180-4 / NIST CAVS examples *)
Example sha256_empty :
  sha256 [] = of_hex "e3b0c44298fc1c149afbf4c8996fb92427ae41e4649b934ca495991b7852b855".
Proof. vm_compute. reflexivity. Qed.
Example sha256_abc :
  sha256 (of_ascii "abc") = of_hex "ba7816bf8f01cfea414140de5dae2223b00361a396177a9cb410ff61f20015ad".
Proof. vm_compute. reflexivity. Qed.
Example sha256_two_blocks :
  sha256 (of_ascii "abcdbcdecdefdefgefghfghighijhijkijkljklmklmnlmnomnopnopq")
  = of_hex "248d6a61d20638b8e5c026930c3e6039a33ce45964ff2167f6ecedd419db06c1".
Proof. vm_compute. reflexivity. Qed.
Example sha256_112_bytes :
  sha256 (of_ascii "abcdefghbcdefghicdefghijdefghijkefghijklfghijklmghijklmnhijklmnoijklmnopjklmnopqklmnopqrlmnopqrsmnopqrstnopqrstu")
  = of_hex "cf5b16a778af8380036ce59e7b0492370b249b11e8f07a51afac45037afee9d1".
Proof. vm_compute. reflexivity. Qed.
(* padding boundaries: 55, 56, 63, 64 bytes *)
Example sha256_55 :
  sha256 (repeat_bytes 55 [97]) = of_hex "9f4390f8d30c2dd92ec9f095b65e2b9ae9b0a925a5258e241c9f1e910f734318".
Proof. vm_compute. reflexivity. Qed.
Example sha256_56 :
  sha256 (repeat_bytes 56 [97]) = of_hex "b35439a4ac6f0948b6d6f9e3c6af0f5f590ce20f1bde7090ef7970686ec6738a".
Proof. vm_compute. reflexivity. Qed.
Example sha256_64 :
  sha256 (repeat_bytes 64 [97]) = of_hex "ffe054fe7ae0cb6dc65c3af9b61d5209f439851db43d0ba5997337df154668eb".
Proof. vm_compute. reflexivity. Qed.
Example sha256_1000_a :
  sha256 (repeat_bytes 1000 [97]) = of_hex "41edece42d63e8d9bf515a9ba6932e1c20cbc9f5a5d134645adb5db1b9737ea3".
Proof. vm_compute. reflexivity. Qed.

(* RFC 4231 HMAC-SHA256 test cases 1, 2, 3, 6 (key longer than the block) *)
Example hmac_rfc4231_1 :
  hmac_sha256 (repeat_bytes 20 [11]) (of_ascii "Hi There")
  = of_hex "b0344c61d8db38535ca8afceaf0bf12b881dc200c9833da726e9376c2e32cff7".
Proof. vm_compute. reflexivity. Qed.
Example hmac_rfc4231_2 :
  hmac_sha256 (of_ascii "Jefe") (of_ascii "what do ya want for nothing?")
  = of_hex "5bdcc146bf60754e6a042426089575c75a003f089d2739839dec58b964ec3843".
Proof. vm_compute. reflexivity. Qed.
Example hmac_rfc4231_3 :
  hmac_sha256 (repeat_bytes 20 [170]) (repeat_bytes 50 [221])
  = of_hex "773ea91e36800e46854db8ebd09181a72959098b3ef8c122d9635514ced565fe".
Proof. vm_compute. reflexivity. Qed.
Example hmac_rfc4231_6 :
  hmac_sha256 (repeat_bytes 131 [170]) (of_ascii "Test Using Larger Than Block-Size Key - Hash Key First")
  = of_hex "60e431591ee0b67f0d8a26aacbf5b77f8e0bc6213728c5140546040f0ee37f54".
Proof. vm_compute. reflexivity. Qed.

(* RFC 5869 HKDF-SHA256 test cases 1 and 3 (42 bytes of output = 2 blocks truncated) *)
Example hkdf_rfc5869_1 :
  firstn 42 (hkdf_sha256 (repeat_bytes 22 [11]) (of_hex "f0f1f2f3f4f5f6f7f8f9")
                         (of_hex "000102030405060708090a0b0c") 2)
  = of_hex "3cb25f25faacd57a90434f64d0362f2a2d2d0a90cf1a5a4c5db02d56ecc4c5bf34007208d5b887185865".
Proof. vm_compute. reflexivity. Qed.
Example hkdf_rfc5869_3 :
  firstn 42 (hkdf_sha256 (repeat_bytes 22 [11]) [] [] 2)
  = of_hex "8da4e775a563c18f715f802a063c5a31b8a11f5c5ee1879ec3454e5f3c738d2d9d201395faa4b61a96c8".
Proof. vm_compute. reflexivity. Qed.
