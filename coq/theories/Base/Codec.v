(** Wire codec combinators for the signer protocol (C19), proved once.

    Bytes are [N] (a wire byte is < 256; nothing below needs that bound except the integer
    codecs, which state it).  A decoder is a function [bytes -> option (A * bytes)] returning
    the value and the unread rest; [roundtrip enc dec wf] says that decoding what was encoded,
    followed by anything, yields the value and exactly that rest.

    Semantics transcribed from
      - bitcoin-consensus-derive 0.2.1 (struct fields in declaration order; numeric fields
        big-endian; [Option] = bool marker + value; [[u8; n]] = n raw bytes),
      - serde_bolt 0.5.1 types.rs ([Octets] u16 length, [Array]/[ArrayBE] u16 count (the
        count is written with [as u16], i.e. truncated), [LargeOctets] u32 length,
        [WireString] NUL-terminated, [WithSize] u32 length + exact consumption, both with
        the MAX_VEC_SIZE = 4_000_000 guard on decode),
      - rust-bitcoin 0.32 consensus encoding for the embedded bitcoin types (bool = one
        byte, any non-zero byte decodes as true; integers little-endian; hashes raw).
    The harness domain [wire] compares these functions with the real crates on every run. *)
From Coq Require Import String Ascii.
From Coq Require Import List Arith NArith Lia Bool.
Import ListNotations.
Open Scope N_scope.

Definition bytes := list N.
Definition dec_t (A : Type) := bytes -> option (A * bytes).

Definition roundtrip {A} (enc : A -> bytes) (dec : dec_t A) (wf : A -> bool) : Prop :=
  forall x rest, wf x = true -> dec (enc x ++ rest) = Some (x, rest).

Definition bind {A B} (o : option A) (f : A -> option B) : option B :=
  match o with Some a => f a | None => None end.

Definition lenN {A} (l : list A) : N := N.of_nat (length l).

(** ** splitting off a fixed number of bytes *)

Fixpoint take (n : nat) (bs : bytes) : option (bytes * bytes) :=
  match n with
  | O => Some ([], bs)
  | S k => match bs with
           | [] => None
           | b :: r => match take k r with Some (h, t) => Some (b :: h, t) | None => None end
           end
  end.

Lemma take_app (a rest : bytes) n : length a = n -> take n (a ++ rest) = Some (a, rest).
Proof.
  intros <-. induction a as [|b a IH]; [reflexivity|].
  cbn [length app take]. rewrite IH. reflexivity.
Qed.

(** ** integers *)

Fixpoint le_enc (n : nat) (v : N) : bytes :=
  match n with O => [] | S k => v mod 256 :: le_enc k (v / 256) end.
Fixpoint le_val (bs : bytes) : N :=
  match bs with [] => 0 | b :: r => b + 256 * le_val r end.

Lemma le_enc_length n : forall v, length (le_enc n v) = n.
Proof. induction n; intros v; cbn [le_enc length]; [reflexivity|]. rewrite IHn. reflexivity. Qed.

Lemma le_val_enc n : forall v, v < 256 ^ N.of_nat n -> le_val (le_enc n v) = v.
Proof.
  induction n as [|n IH]; intros v Hv.
  - cbn in Hv. cbn [le_enc le_val]. lia.
  - cbn [le_enc le_val]. rewrite IH.
    + pose proof (N.div_mod' v 256). lia.
    + rewrite Nat2N.inj_succ, N.pow_succ_r' in Hv.
      apply N.div_lt_upper_bound; lia.
Qed.

Definition be_enc (n : nat) (v : N) : bytes := rev (le_enc n v).
Definition be_val (bs : bytes) : N := le_val (rev bs).

Definition dec_be (n : nat) : dec_t N :=
  fun bs => match take n bs with Some (h, r) => Some (be_val h, r) | None => None end.
Definition dec_le (n : nat) : dec_t N :=
  fun bs => match take n bs with Some (h, r) => Some (le_val h, r) | None => None end.

Definition fits (n : nat) (v : N) : bool := v <? 256 ^ N.of_nat n.

Lemma be_enc_length n v : length (be_enc n v) = n.
Proof. unfold be_enc. rewrite rev_length. apply le_enc_length. Qed.

Lemma be_roundtrip n : roundtrip (be_enc n) (dec_be n) (fits n).
Proof.
  intros v rest Hv. unfold dec_be. rewrite take_app by apply be_enc_length.
  unfold be_val, be_enc. rewrite rev_involutive, le_val_enc; [reflexivity|].
  apply N.ltb_lt. exact Hv.
Qed.

Lemma le_roundtrip n : roundtrip (le_enc n) (dec_le n) (fits n).
Proof.
  intros v rest Hv. unfold dec_le. rewrite take_app by apply le_enc_length.
  rewrite le_val_enc; [reflexivity|]. apply N.ltb_lt. exact Hv.
Qed.

(** big-endian fields of the derive *)
Definition enc_u8 := be_enc 1.  Definition dec_u8 := dec_be 1.  Definition wf_u8 := fits 1.
Definition enc_u16 := be_enc 2. Definition dec_u16 := dec_be 2. Definition wf_u16 := fits 2.
Definition enc_u32 := be_enc 4. Definition dec_u32 := dec_be 4. Definition wf_u32 := fits 4.
Definition enc_u64 := be_enc 8. Definition dec_u64 := dec_be 8. Definition wf_u64 := fits 8.
(** rust-bitcoin's own (little-endian) integers, used inside embedded bitcoin types *)
Definition enc_u16le := le_enc 2. Definition dec_u16le := dec_le 2.
Definition enc_u32le := le_enc 4. Definition dec_u32le := dec_le 4.
Definition enc_u64le := le_enc 8. Definition dec_u64le := dec_le 8.

Lemma rt_u8 : roundtrip enc_u8 dec_u8 wf_u8.   Proof. apply be_roundtrip. Qed.
Lemma rt_u16 : roundtrip enc_u16 dec_u16 wf_u16. Proof. apply be_roundtrip. Qed.
Lemma rt_u32 : roundtrip enc_u32 dec_u32 wf_u32. Proof. apply be_roundtrip. Qed.
Lemma rt_u64 : roundtrip enc_u64 dec_u64 wf_u64. Proof. apply be_roundtrip. Qed.
Lemma rt_u16le : roundtrip enc_u16le dec_u16le wf_u16. Proof. apply le_roundtrip. Qed.
Lemma rt_u32le : roundtrip enc_u32le dec_u32le wf_u32. Proof. apply le_roundtrip. Qed.
Lemma rt_u64le : roundtrip enc_u64le dec_u64le wf_u64. Proof. apply le_roundtrip. Qed.

(** ** bool: one byte; any non-zero byte reads as true *)
Definition enc_bool (b : bool) : bytes := [if b then 1 else 0].
Definition dec_bool : dec_t bool :=
  fun bs => match bs with [] => None | b :: r => Some (negb (b =? 0), r) end.
Definition wf_bool (_ : bool) : bool := true.
Lemma rt_bool : roundtrip enc_bool dec_bool wf_bool.
Proof. intros [|] rest _; reflexivity. Qed.

(** ** fixed-size byte arrays ([u8; n], hashes, keys, signatures, block headers) *)
Definition enc_fixed (n : nat) (l : bytes) : bytes := l.
Definition dec_fixed (n : nat) : dec_t bytes := take n.
Definition wf_fixed (n : nat) (l : bytes) : bool := Nat.eqb (length l) n.
Lemma rt_fixed n : roundtrip (enc_fixed n) (dec_fixed n) (wf_fixed n).
Proof. intros l rest H. apply take_app. apply Nat.eqb_eq. exact H. Qed.

(** ** Option: marker + value *)
Definition enc_option {A} (enc : A -> bytes) (o : option A) : bytes :=
  match o with None => enc_bool false | Some x => enc_bool true ++ enc x end.
Definition dec_option {A} (dec : dec_t A) : dec_t (option A) :=
  fun bs => bind (dec_bool bs) (fun '(b, r) =>
    if b then bind (dec r) (fun '(x, r') => Some (Some x, r')) else Some (None, r)).
Definition wf_option {A} (wf : A -> bool) (o : option A) : bool :=
  match o with None => true | Some x => wf x end.
Lemma rt_option {A} (enc : A -> bytes) dec wf :
  roundtrip enc dec wf -> roundtrip (enc_option enc) (dec_option dec) (wf_option wf).
Proof.
  intros H [x|] rest Hw; unfold dec_option; cbn [enc_option enc_bool app dec_bool bind N.eqb negb].
  - rewrite (H x rest Hw). reflexivity.
  - reflexivity.
Qed.

(** ** Octets (u16 length) and LargeOctets (u32 length, decode refuses > MAX_VEC_SIZE) *)
Definition MAX_VEC_SIZE : N := 4000000.

Definition enc_octets (l : bytes) : bytes := enc_u16 (lenN l) ++ l.
Definition dec_octets : dec_t bytes :=
  fun bs => bind (dec_u16 bs) (fun '(n, r) => take (N.to_nat n) r).
Definition wf_octets (l : bytes) : bool := lenN l <? 65536.
Lemma rt_octets : roundtrip enc_octets dec_octets wf_octets.
Proof.
  intros l rest H. unfold enc_octets, dec_octets. rewrite <- app_assoc.
  rewrite rt_u16 by exact H. cbn [bind]. apply take_app. unfold lenN. lia.
Qed.

Definition enc_largeoctets (l : bytes) : bytes := enc_u32 (lenN l) ++ l.
Definition dec_largeoctets : dec_t bytes :=
  fun bs => bind (dec_u32 bs) (fun '(n, r) =>
    if MAX_VEC_SIZE <? n then None else take (N.to_nat n) r).
Definition wf_largeoctets (l : bytes) : bool := lenN l <=? MAX_VEC_SIZE.
Lemma fits4_of_le_max n : n <= MAX_VEC_SIZE -> fits 4 n = true.
Proof. intros H. apply N.ltb_lt. unfold MAX_VEC_SIZE in H. cbn. lia. Qed.
Lemma rt_largeoctets : roundtrip enc_largeoctets dec_largeoctets wf_largeoctets.
Proof.
  intros l rest H. apply N.leb_le in H. unfold enc_largeoctets, dec_largeoctets.
  rewrite <- app_assoc. rewrite rt_u32 by (apply fits4_of_le_max; exact H). cbn [bind].
  destruct (N.ltb_spec MAX_VEC_SIZE (lenN l)) as [C|_]; [lia|].
  apply take_app. unfold lenN. lia.
Qed.

(** ** WireString: bytes up to a terminating NUL; cannot contain NUL *)
Definition enc_wirestring (l : bytes) : bytes := l ++ [0].
Fixpoint dec_wirestring (bs : bytes) : option (bytes * bytes) :=
  match bs with
  | [] => None
  | b :: r => if b =? 0 then Some ([], r)
              else match dec_wirestring r with Some (s, r') => Some (b :: s, r') | None => None end
  end.
Definition wf_wirestring (l : bytes) : bool := forallb (fun b => negb (b =? 0)) l.
Lemma rt_wirestring : roundtrip enc_wirestring dec_wirestring wf_wirestring.
Proof.
  intros l rest. unfold enc_wirestring. induction l as [|b l IH]; intros H.
  - reflexivity.
  - cbn [wf_wirestring forallb] in H. apply andb_true_iff in H. destruct H as [Hb Hl].
    cbn [app dec_wirestring]. destruct (b =? 0); [discriminate|].
    unfold wf_wirestring in IH. rewrite (IH Hl). reflexivity.
Qed.

(** ** Array / ArrayBE: u16 count (written truncated), then the elements *)
Fixpoint dec_n {A} (dec : dec_t A) (n : nat) (bs : bytes) : option (list A * bytes) :=
  match n with
  | O => Some ([], bs)
  | S k => match dec bs with
           | Some (x, r) => match dec_n dec k r with
                            | Some (l, r') => Some (x :: l, r')
                            | None => None
                            end
           | None => None
           end
  end.
Definition enc_seq {A} (enc : A -> bytes) (l : list A) : bytes := concat (map enc l).
Definition enc_array {A} (enc : A -> bytes) (l : list A) : bytes :=
  enc_u16 (lenN l mod 65536) ++ enc_seq enc l.
Definition dec_array {A} (dec : dec_t A) : dec_t (list A) :=
  fun bs => bind (dec_u16 bs) (fun '(n, r) => dec_n dec (N.to_nat n) r).
Definition wf_array {A} (wf : A -> bool) (l : list A) : bool :=
  (lenN l <? 65536) && forallb wf l.

Lemma rt_seq {A} (enc : A -> bytes) dec wf : roundtrip enc dec wf ->
  forall l rest, forallb wf l = true -> dec_n dec (length l) (enc_seq enc l ++ rest) = Some (l, rest).
Proof.
  intros H. induction l as [|x l IH]; intros rest Hl.
  - reflexivity.
  - cbn [forallb] in Hl. apply andb_true_iff in Hl. destruct Hl as [Hx Hl].
    unfold enc_seq. cbn [map concat length dec_n]. rewrite <- app_assoc.
    rewrite (H x _ Hx). fold (enc_seq enc l). rewrite (IH rest Hl). reflexivity.
Qed.

Lemma rt_array {A} (enc : A -> bytes) dec wf :
  roundtrip enc dec wf -> roundtrip (enc_array enc) (dec_array dec) (wf_array wf).
Proof.
  intros H l rest Hw. unfold wf_array in Hw. apply andb_true_iff in Hw. destruct Hw as [Hn Hl].
  pose proof Hn as Hn'. apply N.ltb_lt in Hn'.
  unfold enc_array, dec_array. rewrite N.mod_small by exact Hn'. rewrite <- app_assoc.
  rewrite rt_u16 by exact Hn. cbn [bind]. unfold lenN. rewrite Nat2N.id.
  apply (rt_seq enc dec wf H). exact Hl.
Qed.

(** ** WithSize: u32 length, then a window of exactly that many bytes that the inner parser
       must consume completely.  [parse] sees the window only. *)
Definition exact {A} (dec : dec_t A) (w : bytes) : option A :=
  match dec w with Some (x, []) => Some x | _ => None end.
Lemma exact_of_roundtrip {A} (enc : A -> bytes) dec wf :
  roundtrip enc dec wf -> forall x, wf x = true -> exact dec (enc x) = Some x.
Proof.
  intros H x Hx. unfold exact. rewrite <- (app_nil_r (enc x)). rewrite (H x [] Hx). reflexivity.
Qed.

Definition enc_withsize {A} (ser : A -> bytes) (x : A) : bytes :=
  enc_u32 (lenN (ser x)) ++ ser x.
Definition dec_withsize {A} (parse : bytes -> option A) : dec_t A :=
  fun bs => bind (dec_u32 bs) (fun '(n, r) =>
    if MAX_VEC_SIZE <? n then None
    else bind (take (N.to_nat n) r) (fun '(w, r') => bind (parse w) (fun x => Some (x, r')))).
Definition wf_withsize {A} (ser : A -> bytes) (wf : A -> bool) (x : A) : bool :=
  (lenN (ser x) <=? MAX_VEC_SIZE) && wf x.
Lemma rt_withsize {A} (ser : A -> bytes) parse wf :
  (forall x, wf x = true -> parse (ser x) = Some x) ->
  roundtrip (enc_withsize ser) (dec_withsize parse) (wf_withsize ser wf).
Proof.
  intros H x rest Hw. unfold wf_withsize in Hw. apply andb_true_iff in Hw. destruct Hw as [Hn Hx].
  apply N.leb_le in Hn. unfold enc_withsize, dec_withsize. rewrite <- app_assoc.
  rewrite rt_u32 by (apply fits4_of_le_max; exact Hn). cbn [bind].
  destruct (N.ltb_spec MAX_VEC_SIZE (lenN (ser x))) as [C|_]; [lia|].
  rewrite take_app by (unfold lenN; lia). cbn [bind]. rewrite (H x Hx). reflexivity.
Qed.

(** ** sequencing (struct fields in order) and mapping into a record *)
Lemma rt_field {A} (enc : A -> bytes) dec wf (H : roundtrip enc dec wf) x tail rest :
  wf x = true -> dec ((enc x ++ tail) ++ rest) = Some (x, tail ++ rest).
Proof. intros Hx. rewrite <- app_assoc. apply H. exact Hx. Qed.

(** ** compact byte-string literals for generated case files: [hx "00ff10"] *)
Definition hexval (c : ascii) : N :=
  let n := N_of_ascii c in
  if (48 <=? n) && (n <=? 57) then n - 48
  else if (97 <=? n) && (n <=? 102) then n - 87
  else if (65 <=? n) && (n <=? 70) then n - 55 else 0.
Fixpoint hx (s : string) : bytes :=
  match s with
  | String a (String b r) => (16 * hexval a + hexval b) :: hx r
  | _ => []
  end.
Arguments hx _%string_scope.
Definition rep (n : N) (b : N) : bytes := repeat b (N.to_nat n).
Definition repl {A} (n : N) (x : A) : list A := repeat x (N.to_nat n).

Fixpoint bytes_eqb (a b : bytes) : bool :=
  match a, b with
  | [], [] => true
  | x :: a', y :: b' => (x =? y) && bytes_eqb a' b'
  | _, _ => false
  end.
Lemma bytes_eqb_eq a : forall b, bytes_eqb a b = true <-> a = b.
Proof.
  induction a as [|x a IH]; intros [|y b]; cbn [bytes_eqb]; try (split; [discriminate|congruence]).
  - split; reflexivity.
  - rewrite andb_true_iff, N.eqb_eq, IH. split; [intros [-> ->]; reflexivity|].
    intros E. inversion E. split; reflexivity.
Qed.

(** ** from the size of an encoding to well-formedness
    [typed]: what every Rust value satisfies or [as_vec] panics on (integer ranges, fixed
    lengths, Octets < 2^16, NUL-free strings, consistent streamed PSBTs); [wf] additionally
    bounds array counts and blob sizes.  Those follow from the encoding fitting [bound]
    whenever an array's elements are at least [k] bytes with [bound < k * 2^16]. *)
Definition size_wf {A} (enc : A -> bytes) (typed wf : A -> bool) (bound : N) : Prop :=
  forall x, typed x = true -> lenN (enc x) <= bound -> wf x = true.
Definition min_size {A} (enc : A -> bytes) (typed : A -> bool) (k : N) : Prop :=
  forall x, typed x = true -> k <= lenN (enc x).

Lemma lenN_app {A} (a b : list A) : lenN (a ++ b) = lenN a + lenN b.
Proof. unfold lenN. rewrite app_length. lia. Qed.
Lemma lenN_cons {A} (a : A) b : lenN (a :: b) = 1 + lenN b.
Proof. unfold lenN. cbn [length]. lia. Qed.
Lemma lenN_be n v : lenN (be_enc n v) = N.of_nat n.
Proof. unfold lenN. rewrite be_enc_length. reflexivity. Qed.
Lemma lenN_le n v : lenN (le_enc n v) = N.of_nat n.
Proof. unfold lenN. rewrite le_enc_length. reflexivity. Qed.

Lemma sw_same {A} (enc : A -> bytes) (wf : A -> bool) bound : size_wf enc wf wf bound.
Proof. intros x H _. exact H. Qed.
Lemma ms_zero {A} (enc : A -> bytes) (ty : A -> bool) : min_size enc ty 0.
Proof. intros x _. lia. Qed.
Lemma ms_be n : min_size (be_enc n) (fits n) (N.of_nat n).
Proof. intros v _. rewrite lenN_be. lia. Qed.
Lemma ms_le n : min_size (le_enc n) (fits n) (N.of_nat n).
Proof. intros v _. rewrite lenN_le. lia. Qed.
Lemma ms_bool : min_size enc_bool wf_bool 1.
Proof. intros b _. unfold enc_bool. rewrite lenN_cons. lia. Qed.
Lemma ms_fixed n : min_size (enc_fixed n) (wf_fixed n) (N.of_nat n).
Proof. intros l H. apply Nat.eqb_eq in H. unfold enc_fixed, lenN. rewrite H. lia. Qed.
Lemma ms_option {A} (enc : A -> bytes) ty : min_size (enc_option enc) (wf_option ty) 1.
Proof. intros [x|] _; cbn [enc_option]; unfold enc_bool; cbn [app]; rewrite lenN_cons; lia. Qed.
Lemma ms_octets : min_size enc_octets wf_octets 2.
Proof. intros l _. unfold enc_octets, enc_u16. rewrite lenN_app, lenN_be. lia. Qed.
Lemma ms_largeoctets ty : min_size enc_largeoctets ty 4.
Proof. intros l _. unfold enc_largeoctets, enc_u32. rewrite lenN_app, lenN_be. lia. Qed.
Lemma ms_wirestring : min_size enc_wirestring wf_wirestring 1.
Proof. intros l _. unfold enc_wirestring. rewrite lenN_app, lenN_cons. lia. Qed.
Lemma ms_array {A} (enc : A -> bytes) ty : min_size (enc_array enc) ty 2.
Proof. intros l _. unfold enc_array, enc_u16. rewrite lenN_app, lenN_be. lia. Qed.
Lemma ms_withsize {A} (ser : A -> bytes) ty : min_size (enc_withsize ser) ty 4.
Proof. intros x _. unfold enc_withsize, enc_u32. rewrite lenN_app, lenN_be. lia. Qed.

Lemma sw_option {A} (enc : A -> bytes) ty wf bound :
  size_wf enc ty wf bound -> size_wf (enc_option enc) (wf_option ty) (wf_option wf) bound.
Proof.
  intros H [x|] Ht Hs; [|reflexivity]. cbn [wf_option] in *. apply H; [exact Ht|].
  cbn [enc_option] in Hs. rewrite lenN_app in Hs. lia.
Qed.

Lemma sw_largeoctets bound : (bound <=? MAX_VEC_SIZE) = true ->
  size_wf enc_largeoctets (fun _ => true) wf_largeoctets bound.
Proof.
  intros Hb l _ Hs. apply N.leb_le in Hb. unfold wf_largeoctets. apply N.leb_le.
  unfold enc_largeoctets in Hs. rewrite lenN_app in Hs. lia.
Qed.

Lemma sw_withsize {A} (ser : A -> bytes) ty wf bound :
  size_wf ser ty wf bound -> (bound <=? MAX_VEC_SIZE) = true ->
  size_wf (enc_withsize ser) ty (wf_withsize ser wf) bound.
Proof.
  intros H Hb x Ht Hs. apply N.leb_le in Hb. unfold enc_withsize in Hs. rewrite lenN_app in Hs.
  unfold wf_withsize. apply andb_true_intro. split; [apply N.leb_le; lia|].
  apply H; [exact Ht|lia].
Qed.

Lemma enc_seq_ge {A} (enc : A -> bytes) ty k : min_size enc ty k ->
  forall l, forallb ty l = true -> k * lenN l <= lenN (enc_seq enc l).
Proof.
  intros H. induction l as [|x l IH]; intros Hl.
  - cbn. lia.
  - cbn [forallb] in Hl. apply andb_true_iff in Hl. destruct Hl as [Hx Hl].
    unfold enc_seq. cbn [map concat]. fold (enc_seq enc l). rewrite lenN_app, lenN_cons.
    pose proof (H x Hx). pose proof (IH Hl). lia.
Qed.
Lemma enc_seq_elem {A} (enc : A -> bytes) l x : In x l -> lenN (enc x) <= lenN (enc_seq enc l).
Proof.
  induction l as [|y l IH]; intros Hin; [destruct Hin|].
  unfold enc_seq. cbn [map concat]. fold (enc_seq enc l). rewrite lenN_app.
  destruct Hin as [->|Hin]; [lia|]. pose proof (IH Hin). lia.
Qed.
Lemma sw_elems {A} (enc : A -> bytes) ty wf bound : size_wf enc ty wf bound ->
  forall l, forallb ty l = true -> lenN (enc_seq enc l) <= bound -> forallb wf l = true.
Proof.
  intros H l Ht Hs. apply forallb_forall. intros x Hin. apply H.
  - rewrite forallb_forall in Ht. apply Ht. exact Hin.
  - pose proof (enc_seq_elem enc l x Hin). lia.
Qed.

(** the count bound of an array follows from the size bound when elements are big enough *)
Lemma sw_array {A} (enc : A -> bytes) ty wf bound k :
  size_wf enc ty wf bound -> min_size enc ty k -> (bound <? k * 65536) = true ->
  size_wf (enc_array enc) (forallb ty) (wf_array wf) bound.
Proof.
  intros H Hk Hb l Ht Hs. apply N.ltb_lt in Hb. unfold enc_array in Hs. rewrite lenN_app in Hs.
  unfold wf_array. apply andb_true_intro. split.
  - apply N.ltb_lt. pose proof (enc_seq_ge enc ty k Hk l Ht).
    assert (0 < k) by (destruct k; [cbn in Hb; lia|lia]).
    apply (N.mul_lt_mono_pos_l k); [assumption|]. lia.
  - apply (sw_elems enc ty wf bound H l Ht). lia.
Qed.

(** ... otherwise (elements may be 1 or 2 bytes) the count bound stays a hypothesis *)
Lemma sw_array_counted {A} (enc : A -> bytes) ty wf bound :
  size_wf enc ty wf bound -> size_wf (enc_array enc) (wf_array ty) (wf_array wf) bound.
Proof.
  intros H l Ht Hs. unfold wf_array in *. apply andb_true_iff in Ht. destruct Ht as [Hn Ht].
  rewrite Hn. cbn [andb]. unfold enc_array in Hs. rewrite lenN_app in Hs.
  apply (sw_elems enc ty wf bound H l Ht). lia.
Qed.

(** tactics for the generated per-struct lemmas *)
Ltac sw_one SW := apply andb_true_intro; split; [apply SW; [assumption | lia] | ].
