(** Machine integers of the Rust code, modelled on [N] with the wrap / checked /
    saturating behaviour written out explicitly. *)
From Coq Require Export PeanoNat NArith List Bool Lia.
From Coq Require Import ZifyBool ZifyN ZifyNat.
Export ListNotations.
Open Scope N_scope.

Arguments N.add : simpl never.
Arguments N.sub : simpl never.
Arguments N.mul : simpl never.
Arguments N.div : simpl never.
Arguments N.modulo : simpl never.
Arguments N.eqb : simpl never.
Arguments N.ltb : simpl never.
Arguments N.leb : simpl never.
Arguments N.min : simpl never.
Arguments N.max : simpl never.
Arguments N.pow : simpl never.

Definition U64MAX : N := 18446744073709551615.
Definition U32MAX : N := 4294967295.
Definition U16MAX : N := 65535.
Definition two64 : N := 18446744073709551616.
Definition two32 : N := 4294967296.

(** build profile: debug builds trap on overflow, release builds wrap *)
Inductive profile := Debug | Release.

(** outcome of a machine operation that may trap *)
Inductive trap (A : Type) := Val (a : A) | Trap.
Arguments Val {A} a.
Arguments Trap {A}.

Definition sat_add (a b : N) : N := N.min (a + b) U64MAX.
Definition sat_sub (a b : N) : N := a - b.   (* N subtraction already truncates at 0 *)
Definition add_checked (a b : N) : option N := if a + b <=? U64MAX then Some (a + b) else None.
Definition sub_checked (a b : N) : option N := if b <=? a then Some (a - b) else None.
Definition mul_checked (a b : N) : option N := if a * b <=? U64MAX then Some (a * b) else None.
Definition add_wrap (a b : N) : N := (a + b) mod two64.
Definition sub_wrap (a b : N) : N := (a + two64 - b) mod two64.
Definition mul_wrap (a b : N) : N := (a * b) mod two64.
Definition as_u32 (a : N) : N := a mod two32.

(** plain [+], [-], [*] on u64 under a build profile *)
Definition add_p (p : profile) (a b : N) : trap N :=
  match p with
  | Debug => if a + b <=? U64MAX then Val (a + b) else Trap
  | Release => Val (add_wrap a b)
  end.
Definition sub_p (p : profile) (a b : N) : trap N :=
  match p with
  | Debug => if b <=? a then Val (a - b) else Trap
  | Release => Val (sub_wrap a b)
  end.
Definition mul_p (p : profile) (a b : N) : trap N :=
  match p with
  | Debug => if a * b <=? U64MAX then Val (a * b) else Trap
  | Release => Val (mul_wrap a b)
  end.

Fixpoint sum_N (l : list N) : N := match l with [] => 0 | x :: t => x + sum_N t end.
Definition sat_sum (l : list N) : N := fold_left sat_add l 0.

Lemma sat_add_le a b : sat_add a b <= U64MAX.
Proof. unfold sat_add, U64MAX in *; lia. Qed.

Lemma sat_add_exact a b : a + b <= U64MAX -> sat_add a b = a + b.
Proof. unfold sat_add, U64MAX in *; lia. Qed.

Lemma sat_add_small a b l : l < U64MAX -> sat_add a b <= l -> a + b <= l.
Proof. unfold sat_add, U64MAX in *; lia. Qed.

Lemma sum_N_app l1 l2 : sum_N (l1 ++ l2) = sum_N l1 + sum_N l2.
Proof. induction l1 as [|x l1 IH]; cbn [sum_N app] in *; lia. Qed.

Lemma sat_sum_from l : forall acc, acc + sum_N l <= U64MAX ->
  fold_left sat_add l acc = acc + sum_N l.
Proof.
  induction l as [|x l IH]; intros acc H; cbn [fold_left sum_N] in *.
  - lia.
  - rewrite IH; rewrite sat_add_exact; lia.
Qed.

Lemma sat_sum_exact l : sum_N l <= U64MAX -> sat_sum l = sum_N l.
Proof. intros H. unfold sat_sum. rewrite sat_sum_from; lia. Qed.

(** [lia] does not know that an [N] quotient is non-negative once it has been moved to [Z];
    [dlia] first abstracts every quotient (and remainder) as a fresh [N] variable. *)
Ltac abs_div :=
  repeat match goal with
  | |- context [ ?a / ?b ] => let q := fresh "q" in set (q := a / b) in *; clearbody q
  | H : context [ ?a / ?b ] |- _ => let q := fresh "q" in set (q := a / b) in *; clearbody q
  | |- context [ ?a mod ?b ] => let q := fresh "r" in set (q := a mod b) in *; clearbody q
  | H : context [ ?a mod ?b ] |- _ => let q := fresh "r" in set (q := a mod b) in *; clearbody q
  end.
Ltac dlia := abs_div; lia.
