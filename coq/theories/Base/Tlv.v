(** TLV option streams (C19): the codec that `#[derive(SerBoltTlvOptions)]` (bolt-derive) builds
    from LDK's encode_tlv_stream! / decode_tlv_stream! for a struct of [Option] fields.

    Encoding (lightning 0.1 ser_macros.rs, `option` fields, in ascending tag order): for every
    present field  BigSize(tag) ++ BigSize(length of the value) ++ value.
    Decoding: records are read until the reader is exhausted (the derive hands the whole rest of
    the enclosing reader to the macro, so an options struct is always the LAST thing of a
    message); tags must be strictly increasing, BigSizes minimal, every record complete; a known
    record's value must be consumed exactly by the field's decoder; an unknown even tag is an
    error, an unknown odd one is skipped.  There is no bound on the stream other than the
    enclosing message's. *)
From Coq Require Import List Arith NArith Lia Bool.
From VLS Require Import Base.Codec.
Import ListNotations.
Open Scope N_scope.

(** ** BigSize *)
Definition enc_bigsize (v : N) : bytes :=
  if v <? 253 then [v]
  else if v <? 65536 then 253 :: be_enc 2 v
  else if v <? 4294967296 then 254 :: be_enc 4 v
  else 255 :: be_enc 8 v.
Definition dec_bigsize : dec_t N := fun bs =>
  match bs with
  | [] => None
  | b :: r =>
      if b <? 253 then Some (b, r)
      else if b =? 253 then bind (dec_be 2 r) (fun '(v, r') => if v <? 253 then None else Some (v, r'))
      else if b =? 254 then bind (dec_be 4 r) (fun '(v, r') => if v <? 65536 then None else Some (v, r'))
      else if b =? 255 then bind (dec_be 8 r) (fun '(v, r') => if v <? 4294967296 then None else Some (v, r'))
      else None
  end.
Definition wf_bigsize (v : N) : bool := v <? 18446744073709551616.

Lemma rt_bigsize : roundtrip enc_bigsize dec_bigsize wf_bigsize.
Proof.
  intros v rest Hv. apply N.ltb_lt in Hv. unfold enc_bigsize, dec_bigsize.
  destruct (N.ltb_spec v 253) as [H1|H1].
  - cbn [app]. destruct (N.ltb_spec v 253); [reflexivity|lia].
  - destruct (N.ltb_spec v 65536) as [H2|H2].
    + cbn [app N.ltb N.eqb]. change (253 <? 253) with false. change (253 =? 253) with true. cbv iota.
      rewrite (be_roundtrip 2 v rest) by (apply N.ltb_lt; cbn; lia). cbn [bind].
      destruct (N.ltb_spec v 253); [lia|reflexivity].
    + destruct (N.ltb_spec v 4294967296) as [H3|H3].
      * cbn [app]. change (254 <? 253) with false. change (254 =? 253) with false. change (254 =? 254) with true. cbv iota.
        rewrite (be_roundtrip 4 v rest) by (apply N.ltb_lt; cbn; lia). cbn [bind].
        destruct (N.ltb_spec v 65536); [lia|reflexivity].
      * cbn [app]. change (255 <? 253) with false. change (255 =? 253) with false. change (255 =? 254) with false.
        change (255 =? 255) with true. cbv iota.
        rewrite (be_roundtrip 8 v rest) by (apply N.ltb_lt; cbn; lia). cbn [bind].
        destruct (N.ltb_spec v 4294967296); [lia|reflexivity].
Qed.

Lemma enc_bigsize_nonempty v : exists h t, enc_bigsize v = h :: t.
Proof.
  unfold enc_bigsize. destruct (v <? 253); [eauto|]. destruct (v <? 65536); [eauto|].
  destruct (v <? 4294967296); eauto.
Qed.

(** ** record streams *)

(** a window of [n] bytes, [n] any u64 (never turned into a unary number unless available) *)
Definition takeN (n : N) (bs : bytes) : option (bytes * bytes) :=
  if lenN bs <? n then None else take (N.to_nat n) bs.
Lemma takeN_app a rest : takeN (lenN a) (a ++ rest) = Some (a, rest).
Proof.
  unfold takeN. rewrite lenN_app. destruct (N.ltb_spec (lenN a + lenN rest) (lenN a)); [lia|].
  apply take_app. unfold lenN. lia.
Qed.

(** the fields of an options value in ascending tag order: (tag, encoded value if present) *)
Definition tlv_fields := list (N * option bytes).

Definition enc_rec (t : N) (b : bytes) : bytes := enc_bigsize t ++ enc_bigsize (lenN b) ++ b.
Fixpoint enc_tlv (fs : tlv_fields) : bytes :=
  match fs with
  | [] => []
  | (_, None) :: r => enc_tlv r
  | (t, Some b) :: r => enc_rec t b ++ enc_tlv r
  end.
Fixpoint present (fs : tlv_fields) : list (N * bytes) :=
  match fs with
  | [] => []
  | (_, None) :: r => present r
  | (t, Some b) :: r => (t, b) :: present r
  end.

(** decode_tlv_stream!'s loop, as a parser into raw records ([lo]: last tag seen) *)
Fixpoint parse_tlv (fuel : nat) (lo : option N) (bs : bytes) : option (list (N * bytes)) :=
  match bs with
  | [] => Some []
  | _ :: _ =>
      match fuel with
      | O => None
      | S f =>
          bind (dec_bigsize bs) (fun '(t, r1) =>
            if match lo with Some l => t <=? l | None => false end then None
            else bind (dec_bigsize r1) (fun '(n, r2) =>
                   bind (takeN n r2) (fun '(v, r3) =>
                     bind (parse_tlv f (Some t) r3) (fun l => Some ((t, v) :: l)))))
      end
  end.

Fixpoint tlv_lookup (t : N) (recs : list (N * bytes)) : option bytes :=
  match recs with
  | [] => None
  | (t', b) :: r => if t' =? t then Some b else tlv_lookup t r
  end.
(** unknown tags: even is an error, odd is ignored *)
Definition tlv_unknown_ok (known : list N) (recs : list (N * bytes)) : bool :=
  forallb (fun '(t, _) => existsb (N.eqb t) known || N.odd t) recs.
(** one known field: absent, or present and consumed exactly by the field's decoder *)
Definition dec_tlv_field {A} (dec : dec_t A) (o : option bytes) : option (option A) :=
  match o with
  | None => Some None
  | Some b => match dec b with Some (x, []) => Some (Some x) | _ => None end
  end.

(** well-formedness the round trip needs: tags and value lengths are u64, tags ascend *)
Fixpoint tags_above (lo : option N) (fs : tlv_fields) : bool :=
  match fs with
  | [] => true
  | (t, o) :: r =>
      negb (match lo with Some l => t <=? l | None => false end) && wf_bigsize t &&
      match o with Some b => wf_bigsize (lenN b) | None => true end && tags_above (Some t) r
  end.

Lemma tags_above_weaken fs : forall lo lo',
  (match lo', lo with Some a, Some b => a <= b | None, _ => True | Some _, None => False end) ->
  tags_above lo fs = true -> tags_above lo' fs = true.
Proof.
  destruct fs as [|[t o] r]; intros lo lo' Hle H; [reflexivity|].
  cbn [tags_above] in *. repeat (apply andb_true_iff in H; destruct H as [H ?]).
  repeat (apply andb_true_intro; split); try assumption.
  apply negb_true_iff in H. apply negb_true_iff.
  destruct lo' as [a|]; [|reflexivity]. destruct lo as [b|]; [|contradiction].
  apply N.leb_gt in H. apply N.leb_gt. lia.
Qed.

Theorem parse_enc_tlv fs : forall fuel lo,
  tags_above lo fs = true -> (length (enc_tlv fs) <= fuel)%nat ->
  parse_tlv fuel lo (enc_tlv fs) = Some (present fs).
Proof.
  induction fs as [|[t [b|]] r IH]; intros fuel lo Hw Hf.
  - destruct fuel; reflexivity.
  - cbn [tags_above] in Hw. repeat (apply andb_true_iff in Hw; destruct Hw as [Hw ?]).
    cbn [enc_tlv present] in *. unfold enc_rec in *.
    destruct (enc_bigsize_nonempty t) as (h & tl & Eh).
    destruct fuel as [|f]; [rewrite Eh in Hf; cbn in Hf; lia|].
    assert (Hne : exists x y, (enc_bigsize t ++ enc_bigsize (lenN b) ++ b) ++ enc_tlv r = x :: y).
    { rewrite Eh. cbn [app]. eauto. }
    destruct Hne as (x & y & Exy). cbn [parse_tlv]. rewrite Exy. rewrite <- Exy.
    rewrite <- !app_assoc. rewrite rt_bigsize by assumption. cbn [bind].
    apply negb_true_iff in Hw. rewrite Hw.
    rewrite rt_bigsize by assumption. cbn [bind]. rewrite takeN_app. cbn [bind].
    rewrite IH; [reflexivity|assumption|].
    rewrite Eh in Hf. rewrite !app_length in Hf. cbn [length] in Hf. lia.
  - cbn [tags_above] in Hw. repeat (apply andb_true_iff in Hw; destruct Hw as [Hw ?]).
    cbn [enc_tlv present] in *. apply IH; [|assumption].
    apply (tags_above_weaken r (Some t) lo); [|assumption].
    apply negb_true_iff in Hw. destruct lo as [l|]; [apply N.leb_gt in Hw; lia|exact I].
Qed.

(** looking a field up in what was parsed gives back its (encoded) value *)
Lemma tags_above_lookup_none fs : forall lo t, tags_above lo fs = true ->
  (match lo with Some l => t <= l | None => False end) -> tlv_lookup t (present fs) = None.
Proof.
  induction fs as [|[t' o] r IH]; intros lo t Hw Hle; [reflexivity|].
  cbn [tags_above] in Hw. repeat (apply andb_true_iff in Hw; destruct Hw as [Hw ?]).
  apply negb_true_iff in Hw. destruct lo as [l|]; [|contradiction]. apply N.leb_gt in Hw.
  assert (Hr : tlv_lookup t (present r) = None) by (apply (IH (Some t')); [assumption|cbn; lia]).
  destruct o as [b|]; cbn [present tlv_lookup]; [|exact Hr].
  destruct (N.eqb_spec t' t); [lia|exact Hr].
Qed.

Theorem lookup_present fs : forall lo t o, tags_above lo fs = true -> In (t, o) fs ->
  tlv_lookup t (present fs) = o.
Proof.
  induction fs as [|[t' o'] r IH]; intros lo t o Hw Hin; [destruct Hin|].
  pose proof Hw as Hw0. cbn [tags_above] in Hw. repeat (apply andb_true_iff in Hw; destruct Hw as [Hw ?]).
  destruct Hin as [E|Hin].
  - injection E as -> ->. destruct o as [b|]; cbn [present tlv_lookup].
    + rewrite N.eqb_refl. reflexivity.
    + apply (tags_above_lookup_none r (Some t)); [assumption|cbn; lia].
  - assert (Ht : t' < t).
    { clear -H Hin. revert t' H. induction r as [|[a oa] r IHr]; intros t' H; [destruct Hin|].
      cbn [tags_above] in H. repeat (apply andb_true_iff in H; destruct H as [H ?]).
      apply negb_true_iff in H. apply N.leb_gt in H. destruct Hin as [E|Hin'].
      - injection E as -> ->. exact H.
      - pose proof (IHr Hin' a H0). lia. }
    destruct o' as [b|]; cbn [present tlv_lookup].
    + destruct (N.eqb_spec t' t); [lia|]. apply (IH (Some t')); assumption.
    + apply (IH (Some t')); assumption.
Qed.

Lemma unknown_ok_present fs : tlv_unknown_ok (map fst fs) (present fs) = true.
Proof.
  unfold tlv_unknown_ok. apply forallb_forall. intros [t b] Hin. apply orb_true_iff. left.
  apply existsb_exists. exists t. split; [|apply N.eqb_refl].
  induction fs as [|[t' [b'|]] r IH]; cbn [present map fst In] in *; [destruct Hin| |right; auto].
  destruct Hin as [E|Hin]; [injection E as -> _; left; reflexivity|right; auto].
Qed.

Lemma dec_tlv_field_rt {A} (enc : A -> bytes) dec wf (o : option A) :
  roundtrip enc dec wf -> wf_option wf o = true ->
  dec_tlv_field dec (option_map enc o) = Some o.
Proof.
  intros H Hw. destruct o as [x|]; [|reflexivity]. cbn [option_map dec_tlv_field wf_option] in *.
  rewrite <- (app_nil_r (enc x)). rewrite (H x [] Hw). reflexivity.
Qed.

(** a codec that consumes everything up to the end of its reader *)
Definition roundtrip_end {A} (enc : A -> bytes) (dec : dec_t A) (wf : A -> bool) : Prop :=
  forall x, wf x = true -> dec (enc x) = Some (x, []).
Lemma roundtrip_to_end {A} (enc : A -> bytes) dec wf : roundtrip enc dec wf -> roundtrip_end enc dec wf.
Proof. intros H x Hw. rewrite <- (app_nil_r (enc x)). apply H. exact Hw. Qed.
