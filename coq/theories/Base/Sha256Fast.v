(** SHA-256 over primitive 63-bit integers ([Uint63], evaluated natively by [vm_compute]): the
    same function as [Sha256.sha256] (binary [N] arithmetic, about 4.5 ms per block), roughly
    two orders of magnitude faster.  Used only by the *executable* side of correspondence
    checks that hash thousands of byte strings per run (C04: one witness script per mutant);
    no theorem depends on this file.  Validated below against the FIPS 180-4 vectors and
    against [Sha256.sha256] on a range of lengths around the padding boundaries. *)
From Coq Require Import Uint63 ZArith NArith List Bool String Ascii.
From VLS Require Base.Sha256.
Import ListNotations.
Open Scope uint63_scope.

Module F.

Definition mask32 : int := 0xFFFFFFFF.
Definition add32 (a b : int) : int := (a + b) land mask32.
Definition rotr (n x : int) : int := ((x >> n) lor (x << (32 - n))) land mask32.
Definition not32 (x : int) : int := x lxor mask32.

Definition Ch (x y z : int) : int := (x land y) lxor ((not32 x) land z).
Definition Maj (x y z : int) : int := ((x land y) lxor (x land z)) lxor (y land z).
Definition bsig0 (x : int) : int := (rotr 2 x lxor rotr 13 x) lxor rotr 22 x.
Definition bsig1 (x : int) : int := (rotr 6 x lxor rotr 11 x) lxor rotr 25 x.
Definition ssig0 (x : int) : int := (rotr 7 x lxor rotr 18 x) lxor (x >> 3).
Definition ssig1 (x : int) : int := (rotr 17 x lxor rotr 19 x) lxor (x >> 10).

Definition K256 : list int := [
  0x428a2f98; 0x71374491; 0xb5c0fbcf; 0xe9b5dba5; 0x3956c25b; 0x59f111f1; 0x923f82a4; 0xab1c5ed5;
  0xd807aa98; 0x12835b01; 0x243185be; 0x550c7dc3; 0x72be5d74; 0x80deb1fe; 0x9bdc06a7; 0xc19bf174;
  0xe49b69c1; 0xefbe4786; 0x0fc19dc6; 0x240ca1cc; 0x2de92c6f; 0x4a7484aa; 0x5cb0a9dc; 0x76f988da;
  0x983e5152; 0xa831c66d; 0xb00327c8; 0xbf597fc7; 0xc6e00bf3; 0xd5a79147; 0x06ca6351; 0x14292967;
  0x27b70a85; 0x2e1b2138; 0x4d2c6dfc; 0x53380d13; 0x650a7354; 0x766a0abb; 0x81c2c92e; 0x92722c85;
  0xa2bfe8a1; 0xa81a664b; 0xc24b8b70; 0xc76c51a3; 0xd192e819; 0xd6990624; 0xf40e3585; 0x106aa070;
  0x19a4c116; 0x1e376c08; 0x2748774c; 0x34b0bcb5; 0x391c0cb3; 0x4ed8aa4a; 0x5b9cca4f; 0x682e6ff3;
  0x748f82ee; 0x78a5636f; 0x84c87814; 0x8cc70208; 0x90befffa; 0xa4506ceb; 0xbef9a3f7; 0xc67178f2].

Definition H0 : list int := [
  0x6a09e667; 0xbb67ae85; 0x3c6ef372; 0xa54ff53a; 0x510e527f; 0x9b05688c; 0x1f83d9ab; 0x5be0cd19].

Definition of_byte (b : N) : int := Uint63.of_Z (Z.of_N b).
Definition to_byte (x : int) : N := Z.to_N (Uint63.to_Z (x land 255)).

Fixpoint words_of (l : list N) : list int :=
  match l with
  | a :: b :: c :: d :: r =>
      ((of_byte a << 24) lor (of_byte b << 16) lor (of_byte c << 8) lor of_byte d) :: words_of r
  | _ => []
  end.
Definition bytes_of_word (w : int) : list N :=
  [to_byte (w >> 24); to_byte (w >> 16); to_byte (w >> 8); to_byte w].

(** message schedule: [win] holds the last 16 words, most recent first *)
Fixpoint sched (n : nat) (win : list int) (acc : list int) : list int :=
  match n with
  | O => rev acc
  | S m =>
      let w := add32 (add32 (ssig1 (nth 1 win 0)) (nth 6 win 0))
                     (add32 (ssig0 (nth 14 win 0)) (nth 15 win 0)) in
      sched m (w :: firstn 15 win) (w :: acc)
  end.
Definition schedule (blk : list int) : list int := blk ++ sched 48 (rev blk) [].

Definition round (s : int * int * int * int * int * int * int * int) (kw : int * int) :=
  let '(a, b, c, d, e, f, g, h) := s in
  let '(k, w) := kw in
  let t1 := add32 (add32 (add32 h (bsig1 e)) (add32 (Ch e f g) k)) w in
  let t2 := add32 (bsig0 a) (Maj a b c) in
  (add32 t1 t2, a, b, c, add32 d t1, e, f, g).

Definition compress (hs : list int) (blk : list int) : list int :=
  match hs with
  | [a; b; c; d; e; f; g; h] =>
      let '(a', b', c', d', e', f', g', h') :=
        fold_left round (combine K256 (schedule blk)) (a, b, c, d, e, f, g, h) in
      [add32 a a'; add32 b b'; add32 c c'; add32 d d'; add32 e e'; add32 f f'; add32 g g'; add32 h h']
  | _ => hs
  end.

Fixpoint blocks (fuel : nat) (hs : list int) (ws : list int) : list int :=
  match fuel with
  | O => hs
  | S f =>
      match ws with
      | [] => hs
      | _ => blocks f (compress hs (firstn 16 ws)) (skipn 16 ws)
      end
  end.

End F.

(** padding is shared with the reference implementation *)
Definition sha256 (msg : list N) : list N :=
  let ws := F.words_of (Sha256.pad msg) in
  flat_map F.bytes_of_word (F.blocks (S (Nat.div (List.length ws) 16)) F.H0 ws).

(** * Validation *)
Local Open Scope string_scope.
Example fast_sha256_empty :
  sha256 [] = Sha256.of_hex "e3b0c44298fc1c149afbf4c8996fb92427ae41e4649b934ca495991b7852b855".
Proof. vm_compute. reflexivity. Qed.
Example fast_sha256_abc :
  sha256 (Sha256.of_ascii "abc")
  = Sha256.of_hex "ba7816bf8f01cfea414140de5dae2223b00361a396177a9cb410ff61f20015ad".
Proof. vm_compute. reflexivity. Qed.
Example fast_sha256_two_blocks :
  sha256 (Sha256.of_ascii "abcdbcdecdefdefgefghfghighijhijkijkljklmklmnlmnomnopnopq")
  = Sha256.of_hex "248d6a61d20638b8e5c026930c3e6039a33ce45964ff2167f6ecedd419db06c1".
Proof. vm_compute. reflexivity. Qed.
Example fast_sha256_1000_a :
  sha256 (Sha256.repeat_bytes 1000 [97%N])
  = Sha256.of_hex "41edece42d63e8d9bf515a9ba6932e1c20cbc9f5a5d134645adb5db1b9737ea3".
Proof. vm_compute. reflexivity. Qed.

(** agreement with the reference on messages of every length 0..140 (all padding cases for
    one to three blocks) with varied content *)
Fixpoint ramp (n : nat) (seed : N) : list N :=
  match n with O => [] | S m => ((seed * 167 + 13) mod 256)%N :: ramp m ((seed * 167 + 13) mod 65521)%N end.
Example fast_agrees_with_reference :
  forallb (fun n => Sha256.bytes_eqb (sha256 (ramp n (N.of_nat n))) (Sha256.sha256 (ramp n (N.of_nat n))))
          (seq 0 141) = true.
Proof. vm_compute. reflexivity. Qed.
