(** RIPEMD-160 (Dobbertin, Bosselaers, Preneel 1996) as an executable Gallina function over
    byte lists ([list N], every element < 256), so that the BOLT-3 script templates which
    embed HASH160 / RIPEMD160 values (p2wpkh programs, the revocation-key hash and the payment
    hash inside HTLC scripts) run under [vm_compute] without an oracle.  Validated at the end
    of the file against the vectors of the original publication.

    Exports: [ripemd160 : list N -> list N] (20 bytes out). *)
From Coq Require Import Ascii String NArith List Bool.
Import ListNotations.
Open Scope N_scope.

Module Rmd.

Definition mask32 : N := 4294967295.
Definition add32 (a b : N) : N := N.land (a + b) mask32.
Definition rol (n x : N) : N := N.lor (N.land (N.shiftl x n) mask32) (N.shiftr x (32 - n)).
Definition not32 (x : N) : N := N.lxor x mask32.

(** the five round functions *)
Definition f (j : nat) (x y z : N) : N :=
  match Nat.div j 16 with
  | 0%nat => N.lxor (N.lxor x y) z
  | 1%nat => N.lor (N.land x y) (N.land (not32 x) z)
  | 2%nat => N.lxor (N.lor x (not32 y)) z
  | 3%nat => N.lor (N.land x z) (N.land y (not32 z))
  | _ => N.lxor x (N.lor y (not32 z))
  end.

Definition KL (j : nat) : N :=
  match Nat.div j 16 with
  | 0%nat => 0 | 1%nat => 0x5A827999 | 2%nat => 0x6ED9EBA1 | 3%nat => 0x8F1BBCDC | _ => 0xA953FD4E
  end.
Definition KR (j : nat) : N :=
  match Nat.div j 16 with
  | 0%nat => 0x50A28BE6 | 1%nat => 0x5C4DD124 | 2%nat => 0x6D703EF3 | 3%nat => 0x7A6D76E9 | _ => 0
  end.

Definition RL : list nat := [
  0; 1; 2; 3; 4; 5; 6; 7; 8; 9; 10; 11; 12; 13; 14; 15;
  7; 4; 13; 1; 10; 6; 15; 3; 12; 0; 9; 5; 2; 14; 11; 8;
  3; 10; 14; 4; 9; 15; 8; 1; 2; 7; 0; 6; 13; 11; 5; 12;
  1; 9; 11; 10; 0; 8; 12; 4; 13; 3; 7; 15; 14; 5; 6; 2;
  4; 0; 5; 9; 7; 12; 2; 10; 14; 1; 3; 8; 11; 6; 15; 13]%nat.
Definition RR : list nat := [
  5; 14; 7; 0; 9; 2; 11; 4; 13; 6; 15; 8; 1; 10; 3; 12;
  6; 11; 3; 7; 0; 13; 5; 10; 14; 15; 8; 12; 4; 9; 1; 2;
  15; 5; 1; 3; 7; 14; 6; 9; 11; 8; 12; 2; 10; 0; 4; 13;
  8; 6; 4; 1; 3; 11; 15; 0; 5; 12; 2; 13; 9; 7; 10; 14;
  12; 15; 10; 4; 1; 5; 8; 7; 6; 2; 13; 14; 0; 3; 9; 11]%nat.
Definition SL : list N := [
  11; 14; 15; 12; 5; 8; 7; 9; 11; 13; 14; 15; 6; 7; 9; 8;
  7; 6; 8; 13; 11; 9; 7; 15; 7; 12; 15; 9; 11; 7; 13; 12;
  11; 13; 6; 7; 14; 9; 13; 15; 14; 8; 13; 6; 5; 12; 7; 5;
  11; 12; 14; 15; 14; 15; 9; 8; 9; 14; 5; 6; 8; 6; 5; 12;
  9; 15; 5; 11; 6; 8; 13; 12; 5; 12; 13; 14; 11; 8; 5; 6].
Definition SR : list N := [
  8; 9; 9; 11; 13; 15; 15; 5; 7; 7; 8; 11; 14; 14; 12; 6;
  9; 13; 15; 7; 12; 8; 9; 11; 7; 7; 12; 7; 6; 15; 13; 11;
  9; 7; 15; 11; 8; 6; 6; 14; 12; 13; 5; 14; 13; 13; 7; 5;
  15; 5; 8; 11; 14; 14; 6; 14; 6; 9; 12; 9; 12; 5; 15; 8;
  8; 5; 12; 9; 12; 5; 14; 6; 8; 13; 6; 5; 15; 13; 11; 11].

Definition st : Type := (N * N * N * N * N)%type.

Definition step (fj k x s : N) (a b c d e : N) : st :=
  let t := add32 (rol s (add32 (add32 a fj) (add32 x k))) e in
  (e, t, b, rol 10 c, d).

Fixpoint line (left : bool) (n : nat) (j : nat) (blk : list N) (s : st) : st :=
  match n with
  | O => s
  | S m =>
      let '(a, b, c, d, e) := s in
      let s' :=
        if left
        then step (f j b c d) (KL j) (nth (nth j RL 0%nat) blk 0) (nth j SL 0) a b c d e
        else step (f (79 - j) b c d) (KR j) (nth (nth j RR 0%nat) blk 0) (nth j SR 0) a b c d e in
      line left m (S j) blk s'
  end.

Definition compress (h : st) (blk : list N) : st :=
  let '(h0, h1, h2, h3, h4) := h in
  let '(al, bl, cl, dl, el) := line true 80 0 blk h in
  let '(ar, br, cr, dr, er) := line false 80 0 blk h in
  (add32 (add32 h1 cl) dr, add32 (add32 h2 dl) er, add32 (add32 h3 el) ar,
   add32 (add32 h4 al) br, add32 (add32 h0 bl) cr).

(** little-endian bytes <-> 32-bit words *)
Fixpoint words_of (l : list N) : list N :=
  match l with
  | a :: b :: c :: d :: r => (a + N.shiftl b 8 + N.shiftl c 16 + N.shiftl d 24) :: words_of r
  | _ => []
  end.
Definition bytes_of_word (w : N) : list N :=
  [N.land w 255; N.land (N.shiftr w 8) 255; N.land (N.shiftr w 16) 255; N.land (N.shiftr w 24) 255].

Fixpoint zeros (n : nat) : list N := match n with O => [] | S m => 0 :: zeros m end.

Definition le64 (n : N) : list N :=
  bytes_of_word (N.land n mask32) ++ bytes_of_word (N.shiftr n 32).

Definition pad (msg : list N) : list N :=
  let len := length msg in
  let k := Nat.modulo (64 + 55 - Nat.modulo len 64) 64 in
  msg ++ [128] ++ zeros k ++ le64 (8 * N.of_nat len).

Fixpoint blocks (fuel : nat) (h : st) (ws : list N) : st :=
  match fuel with
  | O => h
  | S f0 =>
      match ws with
      | [] => h
      | _ => blocks f0 (compress h (firstn 16 ws)) (skipn 16 ws)
      end
  end.

Definition H0 : st := (0x67452301, 0xEFCDAB89, 0x98BADCFE, 0x10325476, 0xC3D2E1F0).

End Rmd.

Definition ripemd160 (msg : list N) : list N :=
  let ws := Rmd.words_of (Rmd.pad msg) in
  let '(a, b, c, d, e) := Rmd.blocks (S (Nat.div (length ws) 16)) Rmd.H0 ws in
  flat_map Rmd.bytes_of_word [a; b; c; d; e].

(** * Validation against the published vectors *)
Local Open Scope string_scope.
Fixpoint rmd_of_ascii (s : string) : list N :=
  match s with String a r => N_of_ascii a :: rmd_of_ascii r | EmptyString => [] end.
Definition rmd_hexdigit (n : N) : ascii :=
  ascii_of_N (if (n <? 10)%N then (48 + n)%N else (87 + n)%N).
Fixpoint rmd_hex (l : list N) : string :=
  match l with
  | [] => EmptyString
  | b :: r => String (rmd_hexdigit (b / 16)%N) (String (rmd_hexdigit (b mod 16)%N) (rmd_hex r))
  end.

Example ripemd160_empty : rmd_hex (ripemd160 []) = "9c1185a5c5e9fc54612808977ee8f548b2258d31".
Proof. vm_compute. reflexivity. Qed.
Example ripemd160_a : rmd_hex (ripemd160 (rmd_of_ascii "a")) = "0bdc9d2d256b3ee9daae347be6f4dc835a467ffe".
Proof. vm_compute. reflexivity. Qed.
Example ripemd160_abc : rmd_hex (ripemd160 (rmd_of_ascii "abc")) = "8eb208f7e05d987a9b044a8e98c6b087f15a0bfc".
Proof. vm_compute. reflexivity. Qed.
Example ripemd160_md :
  rmd_hex (ripemd160 (rmd_of_ascii "message digest")) = "5d0689ef49d2fae572b881b123a85ffa21595f36".
Proof. vm_compute. reflexivity. Qed.
Example ripemd160_az :
  rmd_hex (ripemd160 (rmd_of_ascii "abcdefghijklmnopqrstuvwxyz")) = "f71c27109c692c1b56bbdceb5b9d2865b3708dbc".
Proof. vm_compute. reflexivity. Qed.
(* 56 bytes: the length field spills into a second block *)
Example ripemd160_56 :
  rmd_hex (ripemd160 (rmd_of_ascii "abcdbcdecdefdefgefghfghighijhijkijkljklmklmnlmnomnopnopq"))
  = "12a053384a9c0c88e405a06c27dcf49ada62eb2b".
Proof. vm_compute. reflexivity. Qed.
Example ripemd160_62 :
  rmd_hex (ripemd160 (rmd_of_ascii "ABCDEFGHIJKLMNOPQRSTUVWXYZabcdefghijklmnopqrstuvwxyz0123456789"))
  = "b0e20b6e3116640286ed3a87a5713079b21f5189".
Proof. vm_compute. reflexivity. Qed.
Example ripemd160_80 :
  rmd_hex (ripemd160 (rmd_of_ascii "12345678901234567890123456789012345678901234567890123456789012345678901234567890"))
  = "9b752e45573d4b39f4dbd3323cab82bf63326bfb".
Proof. vm_compute. reflexivity. Qed.
