(** Boolean equality on the first-order data the correspondence checks compare, and the
    [failures] driver evaluated by [vm_compute] in the generated case files. *)
From VLS Require Export Base.U64.

Class Eqb (A : Type) := beq : A -> A -> bool.
#[global] Instance Eqb_N : Eqb N := N.eqb.
#[global] Instance Eqb_nat : Eqb nat := Nat.eqb.
#[global] Instance Eqb_bool : Eqb bool := Bool.eqb.
#[global] Instance Eqb_unit : Eqb unit := fun _ _ => true.
#[global] Instance Eqb_prod {A B} `{Eqb A} `{Eqb B} : Eqb (A * B) :=
  fun x y => beq (fst x) (fst y) && beq (snd x) (snd y).
#[global] Instance Eqb_option {A} `{Eqb A} : Eqb (option A) :=
  fun x y => match x, y with
             | Some a, Some b => beq a b
             | None, None => true
             | _, _ => false
             end.
Fixpoint list_eqb {A} (e : A -> A -> bool) (x y : list A) : bool :=
  match x, y with
  | [], [] => true
  | a :: x', b :: y' => e a b && list_eqb e x' y'
  | _, _ => false
  end.
#[global] Instance Eqb_list {A} `{Eqb A} : Eqb (list A) := list_eqb beq.

(** indices (from 0) of the cases on which [f] answers [false] *)
Fixpoint failures_from {A} (f : A -> bool) (i : N) (l : list A) : list N :=
  match l with
  | [] => []
  | x :: r => if f x then failures_from f (i + 1) r else i :: failures_from f (i + 1) r
  end.
Definition failures {A} (f : A -> bool) (l : list A) : list N := failures_from f 0 l.

Lemma Eqb_N_ok (a b : N) : beq a b = true <-> a = b.
Proof. apply N.eqb_eq. Qed.
Lemma list_eqb_ok {A} (e : A -> A -> bool) :
  (forall a b, e a b = true <-> a = b) -> forall x y, list_eqb e x y = true <-> x = y.
Proof.
  intros He. induction x as [|a x IH]; intros [|b y]; cbn [list_eqb].
  - split; reflexivity.
  - split; discriminate.
  - split; discriminate.
  - rewrite andb_true_iff, He, IH. split.
    + intros [Ha Hx]. subst. reflexivity.
    + intros H. inversion H. split; reflexivity.
Qed.
