(** C15: channel state is discarded only when safely buried, and ids are never reused.
    Invariants of Model/Prune.v over all histories of new / setup / forget / heartbeat /
    block connected / block disconnected / restart, on top of the C14 results about one
    channel's monitor (Proofs/MonitorProofs.v: [history], [Reach], [norm_views]). *)
From VLS Require Import Model.Monitor Model.Prune Proofs.MonitorSets Proofs.MonitorDecode Proofs.MonitorUndo
  Proofs.MonitorSim Proofs.MonitorInv Proofs.MonitorProofs.

(** * the channel map *)
Lemma cfind_cput_same id v l : cfind id (cput id v l) = Some v.
Proof.
  induction l as [|[k w] r IH]; cbn [cput cfind].
  - rewrite op_eqb_refl. reflexivity.
  - destruct (ocmp id k) eqn:E; cbn [cfind].
    + rewrite op_eqb_refl. reflexivity.
    + rewrite op_eqb_refl. reflexivity.
    + assert (op_eqb id k = false) as ->.
      { apply op_eqb_neq. intros ->. assert (ocmp k k = Eq) by (apply ocmp_eq; reflexivity). congruence. }
      exact IH.
Qed.
Lemma cfind_cput_other id id' v l : id' <> id -> cfind id' (cput id v l) = cfind id' l.
Proof.
  intros Hn. assert (Hf : op_eqb id' id = false) by (apply op_eqb_neq; exact Hn).
  induction l as [|[k w] r IH]; cbn [cput cfind].
  - rewrite Hf. reflexivity.
  - destruct (ocmp id k) eqn:E; cbn [cfind].
    + apply ocmp_eq in E. subst k. rewrite Hf. reflexivity.
    + rewrite Hf. reflexivity.
    + destruct (op_eqb id' k); [reflexivity | exact IH].
Qed.
Lemma cfind_cdel_same id l : cfind id (cdel id l) = None.
Proof.
  unfold cdel. induction l as [|[k w] r IH]; cbn [filter cfind fst]; [reflexivity|].
  destruct (op_eqb id k) eqn:E; cbn [negb]; [exact IH|]. cbn [cfind]. rewrite E. exact IH.
Qed.
Lemma cfind_cdel_other id id' l : id' <> id -> cfind id' (cdel id l) = cfind id' l.
Proof.
  intros Hn. unfold cdel. induction l as [|[k w] r IH]; cbn [filter cfind fst]; [reflexivity|].
  destruct (op_eqb id k) eqn:E; cbn [negb].
  - apply op_eqb_eq in E. subst k. assert (op_eqb id' id = false) as -> by (apply op_eqb_neq; exact Hn). exact IH.
  - cbn [cfind]. destruct (op_eqb id' k); [reflexivity | exact IH].
Qed.
Lemma cfind_map (f : slot -> slot) id l :
  cfind id (map (fun p => (fst p, f (snd p))) l) = option_map f (cfind id l).
Proof.
  induction l as [|[k w] r IH]; cbn [map cfind fst snd option_map]; [reflexivity|].
  destruct (op_eqb id k); [reflexivity | exact IH].
Qed.
Lemma cfind_flush id l : cfind id (flush l) = option_map flush_slot (cfind id l).
Proof. apply cfind_map. Qed.
(** a filter on slots: what it keeps stays first, what it shows was there *)
Lemma cfind_filter_keep (q : chanid * slot -> bool) id sl l :
  cfind id l = Some sl -> q (id, sl) = true -> cfind id (filter q l) = Some sl.
Proof.
  induction l as [|[k w] r IH]; cbn [cfind filter]; [discriminate|].
  destruct (op_eqb id k) eqn:E.
  - apply op_eqb_eq in E. subst k. intros H Hq. inversion H; subst. rewrite Hq. cbn [cfind]. rewrite op_eqb_refl. reflexivity.
  - intros H Hq. destruct (q (k, w)); [cbn [cfind]; rewrite E|]; apply IH; assumption.
Qed.
Lemma cfind_filter_in (q : chanid * slot -> bool) id sl l :
  cfind id (filter q l) = Some sl -> exists sl0, cfind id l = Some sl0.
Proof.
  induction l as [|[k w] r IH]; cbn [cfind filter]; [discriminate|].
  destruct (op_eqb id k) eqn:E; [intros _; eexists; reflexivity|].
  destruct (q (k, w)); [cbn [cfind]; rewrite E|]; exact IH.
Qed.
Lemma cfind_filter_drop (q : chanid * slot -> bool) id sl l :
  cfind id l = Some sl -> q (id, sl) = false ->
  (forall sl', cfind id (filter q l) = Some sl' -> exists sl0, In (id, sl0) l) .
Proof.
  intros _ _ sl' H. induction l as [|[k w] r IH]; cbn [cfind filter] in *; [discriminate|].
  destruct (q (k, w)) eqn:Eq.
  - cbn [cfind] in H. destruct (op_eqb id k) eqn:E.
    + apply op_eqb_eq in E. subst k. exists w. left; reflexivity.
    + destruct (IH H) as [s0 Hs]. exists s0. right; exact Hs.
  - destruct (IH H) as [s0 Hs]. exists s0. right; exact Hs.
Qed.

Definition present (id : chanid) (s : node) : Prop := cfind id (chans s) <> None.
Definition ready_cfg (id : chanid) (g : cfg) (s : node) : Prop :=
  exists a m fg fd gh, cfind id (chans s) = Some (Ready g a m fg fd gh).

(** * deliveries keep the keys and the shape of every slot *)
Lemma deliver_find f o l : forall l', deliver f o l = Ok l' ->
  forall id, match cfind id l with
             | Some sl => exists sl', deliver_slot f o sl = Ok sl' /\ cfind id l' = Some sl'
             | None => cfind id l' = None
             end.
Proof.
  induction l as [|[k w] r IH]; intros l' H id; cbn [deliver] in H.
  - inversion H; subst. reflexivity.
  - apply bind_ok in H. destruct H as [w' [Ew H]]. apply bind_ok in H. destruct H as [r' [Er H]]. inversion H; subst. clear H.
    cbn [cfind]. destruct (op_eqb id k).
    + exists w'. split; [exact Ew | reflexivity].
    + apply IH. exact Er.
Qed.

(** * the high-water mark and the ids *)
Lemma step_hwm p s o s' out : step p s o = Ok (s', out) -> hwm s <= hwm s'.
Proof.
  destruct o; cbn [step]; intros H.
  - destruct (dbid id <=? hwm s); [inversion H; subst; lia|].
    destruct (max_channels p <=? nkeys (chans s)); [inversion H; subst; lia|].
    destruct (cfind id (chans s)); inversion H; subst; cbn [hwm with_chans]; lia.
  - destruct (cfind id (chans s)) as [[c|g' a' m fg fd gh]|]; [| |inversion H; subst; lia].
    + inversion H; subst. cbn [hwm with_chans]. lia.
    + destruct (cfg_eqb g g'); inversion H; subst; lia.
  - destruct (cfind id (chans s)) as [[c|g' a' m fg fd gh]|]; inversion H; subst; cbn [hwm]; lia.
  - inversion H; subst. cbn [hwm with_chans]. lia.
  - destruct (U32MAX <=? theight s); [discriminate|]. apply bind_ok in H. destruct H as [l [_ H]]. inversion H; subst. cbn [hwm]. lia.
  - destruct (chain s) as [|b rest]; [inversion H; subst; lia|].
    apply bind_ok in H. destruct H as [l [_ H]]. inversion H; subst. cbn [hwm]. lia.
  - inversion H; subst. cbn [hwm with_chans]. lia.
Qed.

Lemma nrun_hwm p ops : forall s s', nrun p s ops = Ok s' -> hwm s <= hwm s'.
Proof.
  induction ops as [|o r IH]; intros s s' H; cbn [nrun] in H.
  - inversion H; subst. lia.
  - apply bind_ok in H. destruct H as [[s1 out] [E H]]. pose proof (step_hwm _ _ _ _ _ E). specialize (IH _ _ H). lia.
Qed.

(** forgetting an existing channel (stub or ready) raises the mark to its dbid *)
Lemma forget_raises p s id s' out :
  step p s (Forget id) = Ok (s', out) -> present id s -> dbid id <= hwm s'.
Proof.
  unfold present. cbn [step]. intros H Hp.
  destruct (cfind id (chans s)) as [[c|g' a' m fg fd gh]|]; [| |contradiction]; inversion H; subst; cbn [hwm]; lia.
Qed.

(** at or below the mark a request for a new channel is refused and changes nothing *)
Lemma new_refused p s id : dbid id <= hwm s -> step p s (NewChannel id) = Ok (s, Refused EReuse).
Proof. intros H. cbn [step]. apply N.leb_le in H. rewrite H. reflexivity. Qed.

(** a step creates an id only above the mark *)
Lemma step_no_new_low p s o s' out id :
  step p s o = Ok (s', out) -> dbid id <= hwm s -> present id s' -> present id s.
Proof.
  unfold present. destruct o; cbn [step]; intros H Hl Hp.
  - destruct (dbid id0 <=? hwm s) eqn:E1; [inversion H; subst; exact Hp|].
    destruct (max_channels p <=? nkeys (chans s)); [inversion H; subst; exact Hp|].
    destruct (cfind id0 (chans s)) eqn:Ef; inversion H; subst; [exact Hp|]. cbn [chans with_chans] in Hp.
    assert (id <> id0) by (intros ->; apply N.leb_gt in E1; lia).
    rewrite cfind_cput_other in Hp by assumption. exact Hp.
  - destruct (cfind id0 (chans s)) as [[c|g' a' m fg fd gh]|] eqn:Ef; [| |inversion H; subst; exact Hp].
    + inversion H; subst. cbn [chans with_chans] in Hp. rewrite cfind_flush in Hp.
      destruct (op_dec id id0) as [->|Hn]; [congruence|]. rewrite cfind_cput_other in Hp by assumption.
      destruct (cfind id (chans s)); [discriminate | contradiction].
    + destruct (cfg_eqb g g'); inversion H; subst; exact Hp.
  - destruct (cfind id0 (chans s)) as [[c|g' a' m fg fd gh]|] eqn:Ef; inversion H; subst; cbn [chans] in Hp; [| |exact Hp].
    + destruct (op_dec id id0) as [->|Hn]; [rewrite cfind_cdel_same in Hp; contradiction|].
      rewrite cfind_cdel_other in Hp by assumption. exact Hp.
    + destruct (op_dec id id0) as [->|Hn]; [congruence|].
      destruct (forget_flush p); [rewrite cfind_flush in Hp|]; rewrite cfind_cput_other in Hp by assumption;
        destruct (cfind id (chans s)); try discriminate; contradiction.
  - inversion H; subst. cbn [chans with_chans] in Hp.
    destruct (cfind id (chans s)) eqn:Ef; [discriminate|]. exfalso. apply Hp.
    set (q := fun x : chanid * slot => negb (prunable p (theight s) (snd x))) in *.
    assert (Hnone : cfind id (filter q (chans s)) = None).
    { destruct (cfind id (filter q (chans s))) eqn:E; [|reflexivity]. destruct (cfind_filter_in _ _ _ _ E) as [sx Hsx]. congruence. }
    destruct (existsb _ (chans s)); [rewrite cfind_flush, Hnone; reflexivity | exact Hnone].
  - destruct (U32MAX <=? theight s); [discriminate|]. apply bind_ok in H. destruct H as [l [El H]]. inversion H; subst. cbn [chans] in Hp.
    rewrite cfind_flush in Hp. pose proof (deliver_find _ _ _ _ El id) as Hd.
    destruct (cfind id (chans s)); [discriminate|]. rewrite Hd in Hp. contradiction.
  - destruct (chain s) as [|b rest]; [inversion H; subst; exact Hp|].
    apply bind_ok in H. destruct H as [l [El H]]. inversion H; subst. cbn [chans] in Hp.
    rewrite cfind_flush in Hp. pose proof (deliver_find _ _ _ _ El id) as Hd.
    destruct (cfind id (chans s)); [discriminate|]. rewrite Hd in Hp. contradiction.
  - inversion H; subst. cbn [chans with_chans] in Hp. rewrite cfind_map in Hp.
    destruct (cfind id (chans s)); [discriminate | contradiction].
Qed.

Lemma nrun_no_new_low p ops : forall s s' id,
  nrun p s ops = Ok s' -> dbid id <= hwm s -> present id s' -> present id s.
Proof.
  induction ops as [|o r IH]; intros s s' id H Hl Hp; cbn [nrun] in H.
  - inversion H; subst. exact Hp.
  - apply bind_ok in H. destruct H as [[s1 out] [E H]].
    eapply step_no_new_low; [exact E | exact Hl|]. eapply IH; [exact H | | exact Hp].
    pose proof (step_hwm _ _ _ _ _ E). lia.
Qed.

Theorem no_reuse p s1 id s2 out ops2 s3 id' :
  present id s1 -> step p s1 (Forget id) = Ok (s2, out) -> nrun p s2 ops2 = Ok s3 -> dbid id' <= dbid id ->
  step p s3 (NewChannel id') = Ok (s3, Refused EReuse) /\ (present id' s3 -> present id' s2).
Proof.
  intros Hp Hf Hr Hle. pose proof (forget_raises _ _ _ _ _ Hf Hp) as H2. pose proof (nrun_hwm _ _ _ _ Hr) as H3.
  split; [apply new_refused; lia|]. intros H. eapply nrun_no_new_low; [exact Hr | lia | exact H].
Qed.

(** * what a step does to a ready channel *)

(** everything but a heartbeat keeps every ready channel, with its configuration; a
    heartbeat keeps exactly those that are not done *)
Lemma deliver_slot_ready f o g a m fg fd gh sl' :
  deliver_slot f o (Ready g a m fg fd gh) = Ok sl' ->
  exists m', f g m = Ok m' /\ sl' = Ready g a m' fg fd (gh_push gh o).
Proof.
  cbn [deliver_slot]. intros H. apply bind_ok in H. destruct H as [m' [E H]]. inversion H; subst. exists m'. auto.
Qed.

Theorem step_keeps_ready p s o s' out id g a m fg fd gh :
  step p s o = Ok (s', out) -> cfind id (chans s) = Some (Ready g a m fg fd gh) ->
  (o = Heartbeat -> is_done (m_state m) fg = false) ->
  ready_cfg id g s'.
Proof.
  unfold ready_cfg. intros H Hf Hd. destruct o; cbn [step] in H.
  - destruct (dbid id0 <=? hwm s); [inversion H; subst; eauto 6|].
    destruct (max_channels p <=? nkeys (chans s)); [inversion H; subst; eauto 6|].
    destruct (cfind id0 (chans s)) eqn:Ef; inversion H; subst; [eauto 6|]. cbn [chans with_chans].
    assert (id <> id0) by (intros ->; congruence). rewrite cfind_cput_other by assumption. eauto 6.
  - destruct (cfind id0 (chans s)) as [[c|g' a' m0 fg0 fd0 gh0]|] eqn:Ef; [| |inversion H; subst; eauto 6].
    + inversion H; subst. cbn [chans with_chans]. rewrite cfind_flush.
      assert (id <> id0) by (intros ->; congruence). rewrite cfind_cput_other by assumption. rewrite Hf. cbn. eauto 6.
    + destruct (cfg_eqb g0 g'); inversion H; subst; eauto 6.
  - destruct (cfind id0 (chans s)) as [[c|g' a' m0 fg0 fd0 gh0]|] eqn:Ef; inversion H; subst; cbn [chans]; [| |eauto 6].
    + assert (id <> id0) by (intros ->; congruence). rewrite cfind_cdel_other by assumption. eauto 6.
    + destruct (op_dec id id0) as [->|Hn].
      * rewrite Hf in Ef. inversion Ef; subst.
        destruct (forget_flush p); [rewrite cfind_flush|]; rewrite cfind_cput_same; cbn; eauto 6.
      * destruct (forget_flush p); [rewrite cfind_flush|]; rewrite cfind_cput_other by assumption; rewrite Hf; cbn; eauto 6.
  - inversion H; subst. cbn [chans with_chans].
    set (q := fun x : chanid * slot => negb (prunable p (theight s) (snd x))).
    assert (Hk : cfind id (filter q (chans s)) = Some (Ready g a m fg fd gh)).
    { apply cfind_filter_keep; [exact Hf|]. unfold q. cbn [snd prunable]. rewrite (Hd eq_refl). reflexivity. }
    destruct (existsb _ (chans s)); [rewrite cfind_flush, Hk; cbn; eauto 6 | rewrite Hk; eauto 6].
  - destruct (U32MAX <=? theight s); [discriminate|]. apply bind_ok in H. destruct H as [l [El H]]. inversion H; subst. cbn [chans].
    rewrite cfind_flush. pose proof (deliver_find _ _ _ _ El id) as Hx. rewrite Hf in Hx. destruct Hx as [sl' [Hs Hc]].
    destruct (deliver_slot_ready _ _ _ _ _ _ _ _ _ Hs) as [m' [_ ->]]. rewrite Hc. cbn. eauto 6.
  - destruct (chain s) as [|b rest]; [inversion H; subst; eauto 6|].
    apply bind_ok in H. destruct H as [l [El H]]. inversion H; subst. cbn [chans].
    rewrite cfind_flush. pose proof (deliver_find _ _ _ _ El id) as Hx. rewrite Hf in Hx. destruct Hx as [sl' [Hs Hc]].
    destruct (deliver_slot_ready _ _ _ _ _ _ _ _ _ Hs) as [m' [_ ->]]. rewrite Hc. cbn. eauto 6.
  - inversion H; subst. cbn [chans with_chans]. rewrite cfind_map, Hf. cbn. eauto 6.
Qed.

(** conversely: a ready channel that is no longer ready after a step was done, and the
    step was a heartbeat *)
Theorem step_drops_ready p s o s' out id g a m fg fd gh :
  step p s o = Ok (s', out) -> cfind id (chans s) = Some (Ready g a m fg fd gh) ->
  ~ ready_cfg id g s' -> o = Heartbeat /\ is_done (m_state m) fg = true.
Proof.
  intros H Hf Hn.
  destruct (is_done (m_state m) fg) eqn:Ed.
  - split; [|reflexivity]. destruct o; try reflexivity; exfalso; apply Hn; eapply step_keeps_ready; try eassumption; discriminate.
  - exfalso. apply Hn. eapply step_keeps_ready; try eassumption. intros _. exact Ed.
Qed.


(** * a block disconnected below the height at which the channel was set up *)
Section Rebase.
Variable g : cfg.

Definition blank (s : state) : Prop :=
  funding_height s = None /\ fo s = None /\ dsh s = None /\ mutual_h s = None /\ unilateral_h s = None
  /\ clo s = None /\ closing_swept_h s = None /\ our_swept_h s = None.

Definition fis_only (cs : list change) : Prop :=
  forall c, In c cs -> exists o, c = FundingInputSpent o /\ In o (finputs g).

Lemma blank_bwd_step fx s c s1 A R :
  blank s -> apply_backward fx s c = Ok (s1, A, R) ->
  s1 = s /\ match c with FundingInputSpent _ | MutualClose _ _ => True | _ => False end.
Proof.
  intros (B1 & B2 & B3 & B4 & B5 & B6 & B7 & B8) H. destruct s as [hh fh f d mh uh cl csh osh sw]. cbn in *. subst.
  destruct c; unfold apply_backward in H; cbn in H; try discriminate.
  - inversion H; subst. split; [reflexivity | exact I].
  - inversion H; subst. split; [reflexivity | exact I].
Qed.

Lemma blank_bwd_fc fx cs : forall s o, blank s -> In (FundingConfirmed o) cs ->
  apply_all (apply_backward fx) s cs = Abort.
Proof.
  induction cs as [|c r IH]; intros s o Hb Hin; [destruct Hin|]. cbn [apply_all].
  destruct (apply_backward fx s c) as [[[s1 A1] R1]|] eqn:E; cbn [bind]; [|reflexivity].
  destruct (blank_bwd_step _ _ _ _ _ _ Hb E) as [-> Hc].
  destruct Hin as [-> | Hin]; [contradiction|]. rewrite (IH _ _ Hb Hin). reflexivity.
Qed.

Lemma blank_bwd_fis fx cs : forall s, blank s -> fis_only cs ->
  exists R, apply_all (apply_backward fx) s cs = Ok (s, [], R) /\ incl R (finputs g).
Proof.
  induction cs as [|c r IH]; intros s Hb Hf; cbn [apply_all].
  - exists []. split; [reflexivity | intros x []].
  - destruct (Hf c (or_introl eq_refl)) as [o [-> Ho]].
    destruct (IH s Hb) as [R [HR Hi]]; [intros c Hc; apply Hf; right; exact Hc|].
    assert (E : apply_backward fx s (FundingInputSpent o) = Ok (s, [], [o])).
    { destruct Hb as (B1 & B2 & B3 & B4 & B5 & B6 & B7 & B8). destruct s as [hh fh f d mh uh cl csh osh sw]. cbn in *. subst. reflexivity. }
    rewrite E. cbn [bind]. rewrite HR. cbn [bind app]. exists (o :: R). split; [reflexivity|].
    intros x [<- | Hx]; [exact Ho | apply Hi; exact Hx].
Qed.

Lemma fis_fwds cs : forall k, fis_only cs -> core_fwds k cs = Ok k.
Proof.
  induction cs as [|c r IH]; intros k Hf; cbn [core_fwds]; [reflexivity|].
  destruct (Hf c (or_introl eq_refl)) as [o [-> _]]. cbn [core_fwd bind]. apply IH. intros c Hc. apply Hf. right; exact Hc.
Qed.

Lemma tx_changes_blank t :
  (exists o, In (FundingConfirmed o) (tx_changes g (None, None) t)) \/ fis_only (tx_changes g (None, None) t).
Proof.
  unfold tx_changes. set (k := (None, None) : core).
  assert (Hcp : closing_prev k (tx_ins t) None = None) by (apply closing_prev_nohit; intros i _; reflexivity).
  assert (Hh : htlc_hits k (tx_ins t) 0 = []) by (apply hits_none; reflexivity).
  rewrite Hcp, Hh. unfold end_changes, hos_changes. cbn [map]. rewrite !app_nil_r.
  destruct (tx_id t =? ftxid g).
  - left. eexists. apply in_or_app. right. left. reflexivity.
  - right. rewrite app_nil_r. intros c Hc. unfold inputs_changes in Hc. apply in_concat in Hc. destruct Hc as [l [Hl Hc]].
    apply in_map_iff in Hl. destruct Hl as [i [<- _]]. unfold input_changes in Hc.
    rewrite (ckind_none k i eq_refl), app_nil_r in Hc.
    destruct (mem_op i (finputs g)) eqn:Em; [|destruct Hc]. destruct Hc as [<- | []].
    exists i. split; [reflexivity | apply mem_op_In; exact Em].
Qed.

Lemma steps_blank b : forall k chs k', steps g k b chs k' -> k = (None, None) ->
  (exists o, In (FundingConfirmed o) chs) \/ (fis_only chs).
Proof.
  induction 1 as [|k t r k1 chs k2 Ha Hf Hs IH]; intros ->.
  - right. intros c [].
  - destruct (tx_changes_blank t) as [[o Ho] | Hfis].
    + left. exists o. apply in_or_app. left. exact Ho.
    + rewrite (fis_fwds _ _ Hfis) in Hf. inversion Hf; subst k1.
      destruct (IH eq_refl) as [[o Ho] | Hr].
      * left. exists o. apply in_or_app. right. exact Ho.
      * right. intros c Hc. apply in_app_or in Hc. destruct Hc as [Hc | Hc]; [apply Hfis | apply Hr]; exact Hc.
Qed.

Lemma odiff_nil_l R : odiff [] R = [].
Proof. unfold odiff. induction R as [|x r IH]; cbn [fold_left]; [reflexivity | exact IH]. Qed.

Lemma ounion_absorb W R : osorted W -> incl R W -> ounion W R = W.
Proof.
  intros Hs Hi. apply osorted_ext; [apply ounion_sorted; exact Hs | exact Hs|].
  intros x. rewrite ounion_in. split; [intros [H | H]; [exact H | apply Hi; exact H] | intros H; left; exact H].
Qed.

Theorem rebase h0 m b m' :
  norm m = norm (init_mon g h0) -> mremove repaired g m b = Ok m' -> norm m' = norm (init_mon g (h0 - 1)).
Proof.
  intros Hn H. destruct m as [s W Sn]. unfold norm, init_mon in Hn. cbn [m_state m_watches m_seen] in Hn.
  pose proof (f_equal m_state Hn) as Hs. pose proof (f_equal m_watches Hn) as HW. pose proof (f_equal m_seen Hn) as HS.
  cbn [m_state m_watches m_seen] in Hs, HW, HS. subst W Sn. clear Hn.
  assert (Hb : blank s /\ height s = h0).
  { destruct s as [hh fh f d mh uh cl csh osh sw]. unfold set_saw, init_state in Hs. cbn in Hs. inversion Hs; subst.
    unfold blank. cbn. repeat split; reflexivity. }
  destruct Hb as [Hb Hh].
  assert (Hb' : blank (set_saw s true)) by (destruct s; exact Hb).
  unfold mremove in H. cbn [m_state m_watches m_seen] in H. apply bind_ok in H. destruct H as [[[s4 A] R] [E H]]. inversion H; subst m'. clear H.
  unfold remove_block in E. apply bind_ok in E. destruct E as [chs [Ed E]].
  apply decode_block_ok in Ed. destruct Ed as [k' Hst].
  assert (Hcore : core_of s = (None, None)).
  { destruct Hb as (_ & B2 & _ & _ & _ & B6 & _). unfold core_of. rewrite B2, B6. reflexivity. }
  change (if rev_order repaired then rev chs else chs) with (rev chs) in E.
  destruct (steps_blank _ _ _ _ Hst Hcore) as [[o Ho] | Hfis].
  - rewrite (blank_bwd_fc repaired (rev chs) (set_saw s true) o Hb') in E by (apply in_rev in Ho; exact Ho). discriminate.
  - destruct (blank_bwd_fis repaired (rev chs) (set_saw s true) Hb') as [R0 [HR Hi]].
    { intros c Hc. apply Hfis. apply in_rev. exact Hc. }
    rewrite HR in E. cbn [bind] in E.
    assert (Hcs : is_closing_swept (set_saw s true) = false).
    { destruct Hb as (_ & _ & _ & _ & _ & B6 & _). unfold is_closing_swept. destruct s; cbn in *. rewrite B6. reflexivity. }
    assert (Hos : is_our_swept (set_saw s true) = false).
    { destruct Hb as (_ & _ & _ & _ & _ & B6 & _). unfold is_our_swept. destruct s; cbn in *. rewrite B6. reflexivity. }
    rewrite Hcs, Hos in E. cbn [andb negb] in E.
    destruct (height (set_saw s true) =? 0); [discriminate|]. inversion E; subst s4 A R. clear E.
    unfold norm. cbn [m_state m_watches m_seen init_mon]. f_equal.
    + destruct s as [hh fh f d mh uh cl csh osh sw]. destruct Hb as (B1 & B2 & B3 & B4 & B5 & B6 & B7 & B8). cbn in *. subst. reflexivity.
    + cbn [odiff fold_left]. apply ounion_absorb; [apply ounion_sorted, osorted_nil|].
      intros x Hx. apply ounion_in. right. apply Hi. exact Hx.
    + apply odiff_nil_l.
Qed.

End Rebase.

(** * what "done" says about the chain a monitor stands on *)
Section Burial.
Variable g : cfg.

(** the monitor has just recorded, in the block it connected last, one of the three events
    that allow pruning: a double-spend of a funding input, a mutual close, or the spend that
    completes the sweep of a unilateral close *)
Definition tip_event (s : state) : Prop :=
  dsh s = Some (height s) \/ mutual_h s = Some (height s)
  \/ (closing_swept_h s = Some (height s) /\ is_closing_swept s = true).

(** [view]: a chain, oldest block first.  The monitor that connects only an initial part [P]
    of it on top of height [h0] records an event in the last block of [P], and that block
    is MIN_DEPTH or more deep in [view] (it has at least MIN_DEPTH - 1 blocks on top). *)
Definition buried (h0 : N) (view : list block) : Prop :=
  exists P Q mP, view = P ++ Q /\ MIN_DEPTH <= N.of_nat (length Q) + 1
    /\ run_adds g (init_mon g h0) P = Ok mP /\ tip_event (m_state mP).

Lemma mfw_some_val h cs : forall m x,
  fold_left (fun m c => mfw1 h c m) cs m = Some x -> m = Some x \/ x = h.
Proof.
  induction cs as [|c r IH]; intros m x H; cbn [fold_left] in H; [left; exact H|].
  destruct (IH _ _ H) as [E | E]; [|right; exact E].
  destruct c; cbn [mfw1] in E; try (left; exact E). right. inversion E; reflexivity.
Qed.

(** what connecting one block does to the three recorded heights *)
Lemma madd_fields m b m' : madd g m b = Ok m' ->
  let s := m_state m in let s' := m_state m' in
  (forall x, dsh s' = Some x -> dsh s = Some x \/ x = height s')
  /\ (forall x, mutual_h s' = Some x -> mutual_h s = Some x \/ x = height s')
  /\ (forall x, closing_swept_h s' = Some x ->
        closing_swept_h s = Some x \/ (x = height s' /\ is_closing_swept s' = true)).
Proof.
  unfold madd. intros H. apply bind_ok in H. destruct H as [[[s4 A] R] [E H]]. inversion H; subst m'. clear H. cbn [m_state].
  destruct (add_block_inv _ _ _ _ _ _ E) as [chs [s2 (_ & _ & Ha & ->)]].
  destruct (sweep_add_fields (bump (m_state m)) s2) as (F1 & _ & _ & F4 & F5 & _ & F7 & _ & F9 & _).
  destruct (fwd_all_proj _ _ _ _ _ Ha) as (P1 & P2 & P3). destruct (fwd_all_sw _ _ _ _ _ Ha) as (P4 & _).
  destruct (bump_fields (m_state m)) as (_ & B2 & B3 & B4 & _ & _ & B7 & _).
  set (s4 := sweep_add (bump (m_state m)) s2) in *.
  assert (Hsw : is_closing_swept s4 = is_closing_swept s2) by (unfold is_closing_swept; rewrite F7; reflexivity).
  split; [|split].
  - intros x Hx. rewrite F4, P1, B3 in Hx. rewrite F1, P3.
    destruct (dfw_some_inv _ _ _ _ Hx) as [Hd | [Hd _]]; [left; exact Hd | right; exact Hd].
  - intros x Hx. rewrite F5, P2, B4 in Hx. rewrite F1, P3.
    destruct (mfw_some_val _ _ _ _ Hx) as [Hd | Hd]; [left; exact Hd | right; exact Hd].
  - intros x Hx. rewrite F9 in Hx. rewrite F1, Hsw.
    destruct (negb (is_closing_swept (bump (m_state m))) && is_closing_swept s2) eqn:Ec.
    + right. apply andb_true_iff in Ec. destruct Ec as [_ Ec]. inversion Hx; subst. auto.
    + left. rewrite P4, B7 in Hx. exact Hx.
Qed.

(** a height recorded on a chain of connections was recorded as the tip of an initial part *)
Lemma origin (f : state -> option N) (ev : state -> Prop) h0 :
  f (init_state h0) = None ->
  (forall m b m' x, madd g m b = Ok m' -> f (m_state m') = Some x ->
     f (m_state m) = Some x \/ (x = height (m_state m') /\ ev (m_state m'))) ->
  forall chain m x, run_adds g (init_mon g h0) chain = Ok m -> f (m_state m) = Some x ->
  exists P Q mP, chain = P ++ Q /\ run_adds g (init_mon g h0) P = Ok mP
    /\ x = height (m_state mP) /\ ev (m_state mP).
Proof.
  intros H0 Hstep chain. induction chain as [|b c IH] using rev_ind; intros m x Hr Hx.
  - inversion Hr; subst. cbn [init_mon m_state] in Hx. congruence.
  - rewrite run_adds_snoc in Hr. apply bind_ok in Hr. destruct Hr as [m1 [Hr1 Ha]].
    destruct (Hstep _ _ _ _ Ha Hx) as [Hold | [Hnew Hev]].
    + destruct (IH _ _ Hr1 Hold) as [P [Q [mP (E1 & E2 & E3 & E4)]]].
      exists P, (Q ++ [b]), mP. rewrite E1, <- app_assoc. repeat split; assumption.
    + exists (c ++ [b]), [], m. rewrite app_nil_r. repeat split; try assumption.
      rewrite run_adds_snoc, Hr1. exact Ha.
Qed.

Lemma depth_none s : depth_of s None = 0.
Proof. reflexivity. Qed.

Lemma deep_inv s fg oh : deep s fg oh = true ->
  fg = true /\ exists x, oh = Some x /\ MIN_DEPTH <= height s + 1 - x.
Proof.
  unfold deep. intros H. apply andb_true_iff in H. destruct H as [H1 H2]. split; [exact H2|].
  destruct oh as [x|]; [exists x; split; [reflexivity | apply N.leb_le in H1; exact H1]|].
  rewrite depth_none in H1. discriminate.
Qed.

Theorem done_buried h0 chain m fg :
  run_adds g (init_mon g h0) chain = Ok m -> is_done (m_state m) fg = true ->
  fg = true /\ buried h0 chain.
Proof.
  intros Hr Hd.
  assert (Hh : height (m_state m) = h0 + N.of_nat (length chain)) by (rewrite (run_adds_height _ _ _ _ Hr); reflexivity).
  assert (Hfin : forall P Q mP x, chain = P ++ Q -> run_adds g (init_mon g h0) P = Ok mP -> x = height (m_state mP) ->
                 MIN_DEPTH <= height (m_state m) + 1 - x -> MIN_DEPTH <= N.of_nat (length Q) + 1).
  { intros P Q mP x E1 E2 E3 E4. rewrite (run_adds_height _ _ _ _ E2) in E3. cbn [init_mon m_state init_state height] in E3.
    rewrite Hh, E1, app_length in E4. unfold MIN_DEPTH in *. lia. }
  unfold is_done in Hd. apply orb_true_iff in Hd. destruct Hd as [Hd | Hd]; [apply orb_true_iff in Hd; destruct Hd as [Hd | Hd]|].
  - destruct (deep_inv _ _ _ Hd) as [Hf [x [Hx Hdep]]]. split; [exact Hf|].
    destruct (origin dsh (fun s => dsh s = Some (height s)) h0 eq_refl) with (chain := chain) (m := m) (x := x)
      as [P [Q [mP (E1 & E2 & E3 & E4)]]]; [|exact Hr | exact Hx|].
    { intros m0 b m' y Ha Hy. destruct (madd_fields _ _ _ Ha) as (G1 & _). destruct (G1 y Hy) as [G | G]; [left; exact G|].
      right. split; [exact G | rewrite <- G; exact Hy]. }
    exists P, Q, mP. split; [exact E1|]. split; [eapply Hfin; eassumption|]. split; [exact E2 | left; exact E4].
  - destruct (deep_inv _ _ _ Hd) as [Hf [x [Hx Hdep]]]. split; [exact Hf|].
    destruct (origin mutual_h (fun s => mutual_h s = Some (height s)) h0 eq_refl) with (chain := chain) (m := m) (x := x)
      as [P [Q [mP (E1 & E2 & E3 & E4)]]]; [|exact Hr | exact Hx|].
    { intros m0 b m' y Ha Hy. destruct (madd_fields _ _ _ Ha) as (_ & G1 & _). destruct (G1 y Hy) as [G | G]; [left; exact G|].
      right. split; [exact G | rewrite <- G; exact Hy]. }
    exists P, Q, mP. split; [exact E1|]. split; [eapply Hfin; eassumption|]. split; [exact E2 | right; left; exact E4].
  - destruct (deep_inv _ _ _ Hd) as [Hf [x [Hx Hdep]]]. split; [exact Hf|].
    destruct (origin closing_swept_h (fun s => closing_swept_h s = Some (height s) /\ is_closing_swept s = true) h0 eq_refl)
      with (chain := chain) (m := m) (x := x) as [P [Q [mP (E1 & E2 & E3 & E4)]]]; [|exact Hr | exact Hx|].
    { intros m0 b m' y Ha Hy. destruct (madd_fields _ _ _ Ha) as (_ & _ & G1). destruct (G1 y Hy) as [G | [G G']]; [left; exact G|].
      right. split; [exact G|]. split; [rewrite <- G; exact Hy | exact G']. }
    exists P, Q, mP. split; [exact E1|]. split; [eapply Hfin; eassumption|]. split; [exact E2 | right; right; exact E4].
Qed.

(** the same for a monitor that went through any admissible history and stands on [tf] *)
Corollary reach_done_buried h0 tf m fg :
  Reach g h0 tf m -> is_done (m_state m) fg = true -> fg = true /\ buried h0 (rev tf).
Proof.
  intros [_ [m0 [Hr Hn]]] Hd. destruct (norm_views _ _ Hn) as (_ & _ & _ & Hdone & _).
  rewrite <- Hdone in Hd. eapply done_buried; eassumption.
Qed.

End Burial.

(** * the invariant of the node *)
Definition slot_inv (s : node) (sl : slot) : Prop :=
  match sl with
  | Stub _ => True
  | Ready g a m fg fd gh =>
      Reach g (g_h0 gh) (g_view gh) m
      /\ g_h0 gh + N.of_nat (length (g_view gh)) = theight s
      /\ (fg = true -> g_asked gh = true) /\ (fd = true -> fg = true)
      /\ exists older, chain s = g_view gh ++ older
  end.
Definition ninv (s : node) : Prop :=
  theight s <= U32MAX /\ forall id sl, In (id, sl) (chans s) -> slot_inv s sl.

Lemma cfind_In id sl l : cfind id l = Some sl -> In (id, sl) l.
Proof.
  induction l as [|[k w] r IH]; cbn [cfind]; [discriminate|].
  destruct (op_eqb id k) eqn:E; [|intros H; right; apply IH; exact H].
  apply op_eqb_eq in E. subst k. intros H. inversion H; subst. left; reflexivity.
Qed.
Lemma In_cput x id v l : In x (cput id v l) -> x = (id, v) \/ In x l.
Proof.
  induction l as [|[k w] r IH]; cbn [cput].
  - intros [<- | []]. left; reflexivity.
  - destruct (ocmp id k).
    + intros [<- | H]; [left; reflexivity | right; right; exact H].
    + intros [<- | H]; [left; reflexivity | right; exact H].
    + intros [<- | H]; [right; left; reflexivity|]. destruct (IH H) as [G | G]; [left; exact G | right; right; exact G].
Qed.
Lemma In_cdel x id l : In x (cdel id l) -> In x l.
Proof. unfold cdel. intros H. apply filter_In in H. tauto. Qed.
Lemma In_mapslot (f : slot -> slot) (id : chanid) sl' (l : cmap) :
  In (id, sl') (map (fun p => (fst p, f (snd p))) l) -> exists sl, In (id, sl) l /\ sl' = f sl.
Proof.
  intros H. apply in_map_iff in H. destruct H as [[k w] [E H]]. cbn [fst snd] in E. inversion E; subst. exists w. auto.
Qed.
Lemma In_deliver f o l : forall l', deliver f o l = Ok l' ->
  forall id sl', In (id, sl') l' -> exists sl, In (id, sl) l /\ deliver_slot f o sl = Ok sl'.
Proof.
  induction l as [|[k w] r IH]; intros l' H id sl' Hin; cbn [deliver] in H.
  - inversion H; subst. destruct Hin.
  - apply bind_ok in H. destruct H as [w' [Ew H]]. apply bind_ok in H. destruct H as [r' [Er H]]. inversion H; subst. clear H.
    destruct Hin as [Hin | Hin].
    + inversion Hin; subst. exists w. split; [left; reflexivity | exact Ew].
    + destruct (IH _ Er _ _ Hin) as [sl [G1 G2]]. exists sl. split; [right; exact G1 | exact G2].
Qed.

Lemma slot_inv_same s s' sl : theight s = theight s' -> chain s = chain s' -> slot_inv s sl -> slot_inv s' sl.
Proof. intros E1 E2. destruct sl as [c|g a m fg fd gh]; cbn [slot_inv]; [auto|]. rewrite E1, E2. auto. Qed.
Lemma slot_inv_flush s sl : slot_inv s sl -> slot_inv s (flush_slot sl).
Proof.
  destruct sl as [c|g a m fg fd gh]; cbn [slot_inv flush_slot]; [auto|].
  intros (H1 & H2 & H3 & H4 & H5). split; [exact H1|]. split; [exact H2|]. split; [exact H3|]. split; [auto | exact H5].
Qed.
Lemma slot_inv_restart s sl : slot_inv s sl -> slot_inv s (restart_slot sl).
Proof.
  destruct sl as [c|g a m fg fd gh]; cbn [slot_inv restart_slot]; [auto|].
  intros (H1 & H2 & H3 & H4 & H5). split; [exact H1|]. split; [exact H2|]. split; [auto|]. split; [auto | exact H5].
Qed.

Lemma reach_init g h : Reach g h [] (init_mon g h).
Proof. split; [reflexivity|]. exists (init_mon g h). split; reflexivity. Qed.

Lemma reach_nil_norm g h m : Reach g h [] m -> norm m = norm (init_mon g h).
Proof. intros [_ [m0 [Hr Hn]]]. cbn [rev] in Hr. inversion Hr; subst. symmetry. exact Hn. Qed.

(** one block delivered to one ready channel *)
Lemma add_slot_inv s b g a m fg fd gh sl' :
  slot_inv s (Ready g a m fg fd gh) -> theight s < U32MAX ->
  block_ok_for b (Ready g a m fg fd gh) = true ->
  deliver_slot (fun g m => madd g m b) (Add b) (Ready g a m fg fd gh) = Ok sl' ->
  slot_inv (mknode [] 0 (theight s + 1) (b :: chain s)) sl'.
Proof.
  intros (H1 & H2 & H3 & H4 & [older H5]) Hlt Hok Hd.
  destruct (deliver_slot_ready _ _ _ _ _ _ _ _ _ Hd) as [m' [Hm ->]]. cbn [gh_push slot_inv g_h0 g_view g_asked theight chain].
  cbn [block_ok_for] in Hok. apply andb_true_iff in Hok. destruct Hok as [Hc Hwf].
  destruct (history g (g_h0 gh) [Add b] (g_view gh) m H1) as [m2 [Hr HR]].
  - cbn [hist_ok]. auto.
  - cbn [count_adds]. lia.
  - cbn [run mstep] in Hr. rewrite Hm in Hr. cbn [bind] in Hr. inversion Hr; subst m2. cbn [survivors] in HR.
    split; [exact HR|]. split; [cbn [length]; lia|]. split; [exact H3|]. split; [exact H4|].
    exists older. rewrite H5. reflexivity.
Qed.

Lemma remove_slot_inv s b rest g a m fg fd gh sl' :
  slot_inv s (Ready g a m fg fd gh) -> theight s <= U32MAX -> chain s = b :: rest ->
  deliver_slot (fun g m => mremove repaired g m b) (Remove b) (Ready g a m fg fd gh) = Ok sl' ->
  slot_inv (mknode [] 0 (theight s - 1) rest) sl'.
Proof.
  intros (H1 & H2 & H3 & H4 & [older H5]) Hle Hch Hd.
  destruct (deliver_slot_ready _ _ _ _ _ _ _ _ _ Hd) as [m' [Hm ->]]. cbn [gh_push].
  destruct (g_view gh) as [|t v] eqn:Ev.
  - (* below the height at which the channel was set up *)
    cbn [slot_inv g_h0 g_view g_asked theight chain length].
    pose proof (rebase g (g_h0 gh) m b m' (reach_nil_norm _ _ _ H1) Hm) as Hn.
    split; [|split; [cbn [length] in H2; lia | split; [exact H3 | split; [exact H4 | exists rest; reflexivity]]]].
    split; [reflexivity|]. exists (init_mon g (g_h0 gh - 1)). split; [reflexivity | symmetry; exact Hn].
  - cbn [slot_inv g_h0 g_view g_asked theight chain].
    rewrite Hch in H5. cbn [app] in H5. inversion H5; subst t rest.
    destruct (history g (g_h0 gh) [Remove b] (b :: v) m H1) as [m2 [Hr HR]].
    + cbn [hist_ok]. auto.
    + cbn [count_adds]. cbn [length] in *. lia.
    + cbn [run mstep] in Hr. rewrite Hm in Hr. cbn [bind] in Hr. inversion Hr; subst m2. cbn [survivors tl] in HR.
      split; [exact HR|]. split; [cbn [length] in H2; lia|]. split; [exact H3|]. split; [exact H4|].
      exists older. reflexivity.
Qed.

Theorem step_inv p s o s' out :
  ninv s -> op_ok s o = true -> step p s o = Ok (s', out) -> ninv s'.
Proof.
  intros [Hh Hs] Hok H. destruct o; cbn [step] in H.
  - (* new_channel *)
    destruct (dbid id <=? hwm s); [inversion H; subst; split; assumption|].
    destruct (max_channels p <=? nkeys (chans s)); [inversion H; subst; split; assumption|].
    destruct (cfind id (chans s)); inversion H; subst; [split; assumption|].
    split; [exact Hh|]. cbn [chans with_chans]. intros id' sl Hin. apply In_cput in Hin. destruct Hin as [Hin | Hin].
    + inversion Hin; subst. exact I.
    + eapply slot_inv_same; [| |apply (Hs _ _ Hin)]; reflexivity.
  - (* setup *)
    destruct (cfind id (chans s)) as [[c|g' a' m0 fg0 fd0 gh0]|] eqn:Ef; [| |inversion H; subst; split; assumption].
    + inversion H; subst. split; [exact Hh|]. cbn [chans with_chans]. intros id' sl Hin.
      apply In_mapslot in Hin. destruct Hin as [sl0 [Hin ->]]. apply slot_inv_flush.
      apply In_cput in Hin. destruct Hin as [Hin | Hin].
      * inversion Hin; subst. cbn [slot_inv g_h0 g_view g_asked theight chain with_chans length].
        split; [apply reach_init|]. split; [lia|]. split; [discriminate|]. split; [discriminate|]. exists (chain s). reflexivity.
      * eapply slot_inv_same; [| |apply (Hs _ _ Hin)]; reflexivity.
    + destruct (cfg_eqb g g'); inversion H; subst; split; assumption.
  - (* forget *)
    destruct (cfind id (chans s)) as [[c|g' a' m0 fg0 fd0 gh0]|] eqn:Ef; inversion H; subst; [| |split; assumption].
    + split; [exact Hh|]. cbn [chans]. intros id' sl Hin. apply In_cdel in Hin.
      eapply slot_inv_same; [| |apply (Hs _ _ Hin)]; reflexivity.
    + split; [exact Hh|]. cbn [chans].
      assert (Hnew : forall id' sl, In (id', sl) (cput id (Ready g' a' m0 true fd0 (mkgh true (g_h0 gh0) (g_view gh0))) (chans s)) ->
                     slot_inv (mknode [] 0 (theight s) (chain s)) sl).
      { intros id' sl Hin. apply In_cput in Hin. destruct Hin as [Hin | Hin].
        - inversion Hin; subst. pose proof (Hs _ _ (cfind_In _ _ _ Ef)) as (H1 & H2 & H3 & H4 & H5).
          cbn [slot_inv g_h0 g_view g_asked theight chain].
          split; [exact H1|]. split; [exact H2|]. split; [reflexivity|]. split; [reflexivity | exact H5].
        - eapply slot_inv_same; [| |apply (Hs _ _ Hin)]; reflexivity. }
      intros id' sl Hin. destruct (forget_flush p).
      * apply In_mapslot in Hin. destruct Hin as [sl0 [Hin ->]]. apply slot_inv_flush.
        eapply slot_inv_same; [| |apply (Hnew _ _ Hin)]; reflexivity.
      * eapply slot_inv_same; [| |apply (Hnew _ _ Hin)]; reflexivity.
  - (* heartbeat *)
    inversion H; subst. split; [exact Hh|]. cbn [chans with_chans]. intros id' sl Hin.
    destruct (existsb _ (chans s)).
    + apply In_mapslot in Hin. destruct Hin as [sl0 [Hin ->]]. apply slot_inv_flush. apply filter_In in Hin. destruct Hin as [Hin _].
      eapply slot_inv_same; [| |apply (Hs _ _ Hin)]; reflexivity.
    + apply filter_In in Hin. destruct Hin as [Hin _]. eapply slot_inv_same; [| |apply (Hs _ _ Hin)]; reflexivity.
  - (* a block is connected *)
    destruct (U32MAX <=? theight s) eqn:Eh; [discriminate|]. apply N.leb_gt in Eh.
    apply bind_ok in H. destruct H as [l [El H]]. inversion H; subst. clear H.
    split; [cbn [theight]; lia|]. cbn [chans]. intros id' sl Hin.
    apply In_mapslot in Hin. destruct Hin as [sl1 [Hin ->]]. apply slot_inv_flush.
    destruct (In_deliver _ _ _ _ El _ _ Hin) as [sl0 [Hin0 Hd]].
    cbn [op_ok] in Hok. rewrite forallb_forall in Hok. specialize (Hok _ Hin0). cbn [snd] in Hok.
    destruct sl0 as [c|g a m fg fd gh].
    + cbn [deliver_slot] in Hd. inversion Hd; subst. exact I.
    + eapply slot_inv_same; [| |eapply add_slot_inv; [apply (Hs _ _ Hin0) | exact Eh | exact Hok | exact Hd]]; reflexivity.
  - (* a block is disconnected *)
    destruct (chain s) as [|b rest] eqn:Ech; [inversion H; subst; split; assumption|].
    apply bind_ok in H. destruct H as [l [El H]]. inversion H; subst. clear H.
    split; [cbn [theight]; lia|]. cbn [chans]. intros id' sl Hin.
    apply In_mapslot in Hin. destruct Hin as [sl1 [Hin ->]]. apply slot_inv_flush.
    destruct (In_deliver _ _ _ _ El _ _ Hin) as [sl0 [Hin0 Hd]].
    destruct sl0 as [c|g a m fg fd gh].
    + cbn [deliver_slot] in Hd. inversion Hd; subst. exact I.
    + eapply slot_inv_same; [| |eapply remove_slot_inv; [apply (Hs _ _ Hin0) | exact Hh | exact Ech | exact Hd]]; reflexivity.
  - (* restart *)
    inversion H; subst. split; [exact Hh|]. cbn [chans with_chans]. intros id' sl Hin.
    apply In_mapslot in Hin. destruct Hin as [sl0 [Hin ->]]. apply slot_inv_restart.
    eapply slot_inv_same; [| |apply (Hs _ _ Hin)]; reflexivity.
Qed.

Lemma ninv_init h : h <= U32MAX -> ninv (init_node h).
Proof. intros H. split; [exact H | intros id sl []]. Qed.

Theorem nrun_inv p ops : forall s s',
  ninv s -> hist_admissible p s ops = true -> nrun p s ops = Ok s' -> ninv s'.
Proof.
  induction ops as [|o r IH]; intros s s' Hi Ha Hr; cbn [nrun hist_admissible] in *.
  - inversion Hr; subst. exact Hi.
  - apply andb_true_iff in Ha. destruct Ha as [Ho Ha].
    apply bind_ok in Hr. destruct Hr as [[s1 out] [E Hr]]. rewrite E in Ha.
    eapply IH; [eapply step_inv; eassumption | exact Ha | exact Hr].
Qed.

(** * the property *)

(** a ready channel that a step removes: the step is a heartbeat, the node asked to forget
    the channel, and on the channel's part of the current best chain one of the three
    events is MIN_DEPTH or more deep *)
Theorem prune_sound p h ops s o s' out id g a m fg fd gh :
  h <= U32MAX -> nrun p (init_node h) ops = Ok s -> hist_admissible p (init_node h) ops = true ->
  step p s o = Ok (s', out) -> cfind id (chans s) = Some (Ready g a m fg fd gh) -> ~ ready_cfg id g s' ->
  o = Heartbeat /\ fg = true /\ g_asked gh = true
  /\ (exists older, chain s = g_view gh ++ older)
  /\ buried g (g_h0 gh) (rev (g_view gh)).
Proof.
  intros Hh Hr Ha Hst Hf Hn.
  destruct (step_drops_ready _ _ _ _ _ _ _ _ _ _ _ _ Hst Hf Hn) as [Ho Hd].
  pose proof (nrun_inv _ _ _ _ (ninv_init _ Hh) Ha Hr) as [_ Hs].
  pose proof (Hs _ _ (cfind_In _ _ _ Hf)) as (H1 & H2 & H3 & H4 & H5).
  destruct (reach_done_buried _ _ _ _ _ H1 Hd) as [Hfg Hb].
  split; [exact Ho|]. split; [exact Hfg|]. split; [apply H3; exact Hfg|]. split; [exact H5 | exact Hb].
Qed.

(** what the bookkeeping flag [g_asked] stands for: a forget request for this id, made while
    the channel was ready, earlier in the history *)
Definition ready_in (id : chanid) (g : cfg) (s : node) : Prop :=
  exists a m fg fd gh, In (id, Ready g a m fg fd gh) (chans s).
Definition asked_in (id : chanid) (g : cfg) (s : node) : Prop :=
  exists a m fg fd gh, In (id, Ready g a m fg fd gh) (chans s) /\ g_asked gh = true.

Lemma asked_flush id g l :
  (exists a m fg fd gh, In (id, Ready g a m fg fd gh) (flush l) /\ g_asked gh = true) ->
  exists a m fg fd gh, In (id, Ready g a m fg fd gh) l /\ g_asked gh = true.
Proof.
  intros (a & m & fg & fd & gh & Hin & Ha). apply In_mapslot in Hin. destruct Hin as [sl [Hin E]].
  destruct sl as [c|g1 a1 m1 fg1 fd1 gh1]; cbn [flush_slot] in E; [discriminate|]. inversion E; subst. eauto 8.
Qed.

Lemma step_asked p s o s' out id g :
  step p s o = Ok (s', out) -> asked_in id g s' -> (o = Forget id /\ ready_in id g s) \/ asked_in id g s.
Proof.
  unfold asked_in, ready_in. intros H Hask. destruct o; cbn [step] in H.
  - destruct (dbid id0 <=? hwm s); [inversion H; subst; right; exact Hask|].
    destruct (max_channels p <=? nkeys (chans s)); [inversion H; subst; right; exact Hask|].
    destruct (cfind id0 (chans s)) eqn:E0; inversion H; subst; [right; exact Hask|]. cbn [chans with_chans] in Hask.
    destruct Hask as (a & m & fg & fd & gh & Hin & Ha). apply In_cput in Hin. destruct Hin as [Hin | Hin]; [discriminate|]. right; eauto 8.
  - destruct (cfind id0 (chans s)) as [[c|g' a' m0 fg0 fd0 gh0]|] eqn:E0; [| |inversion H; subst; right; exact Hask].
    + inversion H; subst. cbn [chans with_chans] in Hask. apply asked_flush in Hask.
      destruct Hask as (a & m & fg & fd & gh & Hin & Ha). apply In_cput in Hin. destruct Hin as [Hin | Hin].
      * inversion Hin; subst. discriminate.
      * right; eauto 8.
    + destruct (cfg_eqb g0 g'); inversion H; subst; right; exact Hask.
  - destruct (cfind id0 (chans s)) as [[c|g' a' m0 fg0 fd0 gh0]|] eqn:E0; inversion H; subst; cbn [chans] in Hask; [| |right; exact Hask].
    + destruct Hask as (a & m & fg & fd & gh & Hin & Ha). apply In_cdel in Hin. right; eauto 8.
    + assert (Hask' : exists a m fg fd gh,
                 In (id, Ready g a m fg fd gh) (cput id0 (Ready g' a' m0 true fd0 (mkgh true (g_h0 gh0) (g_view gh0))) (chans s))
                 /\ g_asked gh = true).
      { destruct (forget_flush p); [apply asked_flush|]; exact Hask. }
      destruct Hask' as (a & m & fg & fd & gh & Hin & Ha). apply In_cput in Hin. destruct Hin as [Hin | Hin].
      * inversion Hin; subst. left. split; [reflexivity|]. exists a', m0, fg0, fd0, gh0. apply cfind_In. exact E0.
      * right; eauto 8.
  - inversion H; subst. cbn [chans with_chans] in Hask. right.
    assert (Hask' : exists a m fg fd gh,
               In (id, Ready g a m fg fd gh) (filter (fun x => negb (prunable p (theight s) (snd x))) (chans s)) /\ g_asked gh = true).
    { destruct (existsb _ (chans s)); [apply asked_flush|]; exact Hask. }
    destruct Hask' as (a & m & fg & fd & gh & Hin & Ha). apply filter_In in Hin. destruct Hin as [Hin _]. eauto 8.
  - destruct (U32MAX <=? theight s); [discriminate|]. apply bind_ok in H. destruct H as [l [El H]]. inversion H; subst. cbn [chans] in Hask.
    apply asked_flush in Hask. destruct Hask as (a & m & fg & fd & gh & Hin & Ha).
    destruct (In_deliver _ _ _ _ El _ _ Hin) as [sl0 [Hin0 Hd]]. destruct sl0 as [c|g1 a1 m1 fg1 fd1 gh1]; [cbn in Hd; discriminate|].
    destruct (deliver_slot_ready _ _ _ _ _ _ _ _ _ Hd) as [m' [_ E]]. inversion E; subst. right. do 5 eexists. split; [exact Hin0 | exact Ha].
  - destruct (chain s) as [|b rest]; [inversion H; subst; right; exact Hask|].
    apply bind_ok in H. destruct H as [l [El H]]. inversion H; subst. cbn [chans] in Hask.
    apply asked_flush in Hask. destruct Hask as (a & m & fg & fd & gh & Hin & Ha).
    destruct (In_deliver _ _ _ _ El _ _ Hin) as [sl0 [Hin0 Hd]]. destruct sl0 as [c|g1 a1 m1 fg1 fd1 gh1]; [cbn in Hd; discriminate|].
    destruct (deliver_slot_ready _ _ _ _ _ _ _ _ _ Hd) as [m' [_ E]]. inversion E; subst. right. do 5 eexists. split; [exact Hin0|].
    cbn [gh_push] in Ha. destruct (g_view gh1); exact Ha.
  - inversion H; subst. cbn [chans with_chans] in Hask. right.
    destruct Hask as (a & m & fg & fd & gh & Hin & Ha). apply In_mapslot in Hin. destruct Hin as [sl [Hin E]].
    destruct sl as [c|g1 a1 m1 fg1 fd1 gh1]; cbn [restart_slot] in E; [discriminate|]. inversion E; subst. eauto 8.
Qed.

Theorem asked_history p ops : forall s s' id g,
  nrun p s ops = Ok s' -> asked_in id g s' ->
  asked_in id g s
  \/ exists ops1 ops2 s1, ops = ops1 ++ Forget id :: ops2 /\ nrun p s ops1 = Ok s1 /\ ready_in id g s1.
Proof.
  induction ops as [|o r IH]; intros s s' id g Hr Ha; cbn [nrun] in Hr.
  - inversion Hr; subst. left; exact Ha.
  - apply bind_ok in Hr. destruct Hr as [[s1 out] [E Hr]].
    destruct (IH _ _ _ _ Hr Ha) as [Ha1 | (ops1 & ops2 & s2 & E1 & E2 & E3)].
    + destruct (step_asked _ _ _ _ _ _ _ E Ha1) as [[-> Hrd] | Ha0]; [|left; exact Ha0].
      right. exists [], r, s. split; [reflexivity|]. split; [reflexivity | exact Hrd].
    + right. exists (o :: ops1), ops2, s2. split; [rewrite E1; reflexivity|]. split; [|exact E3].
      cbn [nrun]. rewrite E. cbn [bind]. exact E2.
Qed.

(** * an open or merely closing channel survives heartbeats and restarts *)
Definition quiet (o : nop) : bool := match o with Heartbeat | Restart => true | _ => false end.

Lemma quiet_step p s o s' out id g a m fg fd gh :
  quiet o = true -> step p s o = Ok (s', out) -> cfind id (chans s) = Some (Ready g a m fg fd gh) ->
  (fd = true -> fg = true) -> is_done (m_state m) fg = false ->
  exists fg' fd', cfind id (chans s') = Some (Ready g a m fg' fd' gh)
    /\ (fd' = true -> fg' = true) /\ is_done (m_state m) fg' = false.
Proof.
  intros Hq H Hf Hfl Hd. destruct o; try discriminate; cbn [step] in H; inversion H; subst; cbn [chans with_chans].
  - set (q := fun x : chanid * slot => negb (prunable p (theight s) (snd x))).
    assert (Hk : cfind id (filter q (chans s)) = Some (Ready g a m fg fd gh)).
    { apply cfind_filter_keep; [exact Hf|]. unfold q. cbn [snd prunable]. rewrite Hd. reflexivity. }
    destruct (existsb _ (chans s)); [rewrite cfind_flush, Hk; cbn; exists fg, fg; auto | rewrite Hk; exists fg, fd; auto].
  - rewrite cfind_map, Hf. cbn. exists fd, fd. split; [reflexivity|]. split; [auto|].
    destruct fd; [rewrite (Hfl eq_refl) in Hd; exact Hd|].
    unfold is_done, deep. rewrite !andb_false_r. reflexivity.
Qed.

Theorem survives_quiet p ops : forall s s' id g a m fg fd gh,
  forallb quiet ops = true -> nrun p s ops = Ok s' ->
  cfind id (chans s) = Some (Ready g a m fg fd gh) -> (fd = true -> fg = true) ->
  is_done (m_state m) fg = false ->
  exists fg' fd', cfind id (chans s') = Some (Ready g a m fg' fd' gh) /\ is_done (m_state m) fg' = false.
Proof.
  induction ops as [|o r IH]; intros s s' id g a m fg fd gh Hq Hr Hf Hfl Hd; cbn [nrun forallb] in *.
  - inversion Hr; subst. eauto.
  - apply andb_true_iff in Hq. destruct Hq as [Hq1 Hq2]. apply bind_ok in Hr. destruct Hr as [[s1 out] [E Hr]].
    destruct (quiet_step _ _ _ _ _ _ _ _ _ _ _ _ Hq1 E Hf Hfl Hd) as [fg1 [fd1 (G1 & G2 & G3)]].
    eapply IH; eassumption.
Qed.

(** the stored forget flag is never ahead of the one in memory, in every history (no
    assumption on the blocks) *)
Definition flags_ok (sl : slot) : Prop :=
  match sl with Ready _ _ _ fg fd _ => fd = true -> fg = true | Stub _ => True end.
Definition finv (s : node) : Prop := forall id sl, In (id, sl) (chans s) -> flags_ok sl.

Lemma flags_flush sl : flags_ok (flush_slot sl).
Proof. destruct sl; cbn; auto. Qed.
Lemma flags_restart sl : flags_ok (restart_slot sl).
Proof. destruct sl; cbn; auto. Qed.

Lemma step_finv p s o s' out : finv s -> step p s o = Ok (s', out) -> finv s'.
Proof.
  unfold finv. intros Hs H. destruct o; cbn [step] in H.
  - destruct (dbid id <=? hwm s); [inversion H; subst; exact Hs|].
    destruct (max_channels p <=? nkeys (chans s)); [inversion H; subst; exact Hs|].
    destruct (cfind id (chans s)); inversion H; subst; [exact Hs|]. cbn [chans with_chans]. intros id' sl Hin.
    apply In_cput in Hin. destruct Hin as [Hin | Hin]; [inversion Hin; subst; exact I | eapply Hs; exact Hin].
  - destruct (cfind id (chans s)) as [[c|g' a' m0 fg0 fd0 gh0]|] eqn:Ef; [| |inversion H; subst; exact Hs].
    + inversion H; subst. cbn [chans with_chans]. intros id' sl Hin. apply In_mapslot in Hin. destruct Hin as [sl0 [_ ->]]. apply flags_flush.
    + destruct (cfg_eqb g g'); inversion H; subst; exact Hs.
  - destruct (cfind id (chans s)) as [[c|g' a' m0 fg0 fd0 gh0]|] eqn:Ef; inversion H; subst; [| |exact Hs]; cbn [chans]; intros id' sl Hin.
    + apply In_cdel in Hin. eapply Hs; exact Hin.
    + destruct (forget_flush p).
      * apply In_mapslot in Hin. destruct Hin as [sl0 [_ ->]]. apply flags_flush.
      * apply In_cput in Hin. destruct Hin as [Hin | Hin]; [inversion Hin; subst; cbn; auto | eapply Hs; exact Hin].
  - inversion H; subst. cbn [chans with_chans]. intros id' sl Hin. destruct (existsb _ (chans s)).
    + apply In_mapslot in Hin. destruct Hin as [sl0 [_ ->]]. apply flags_flush.
    + apply filter_In in Hin. destruct Hin as [Hin _]. eapply Hs; exact Hin.
  - destruct (U32MAX <=? theight s); [discriminate|]. apply bind_ok in H. destruct H as [l [El H]]. inversion H; subst. cbn [chans].
    intros id' sl Hin. apply In_mapslot in Hin. destruct Hin as [sl0 [_ ->]]. apply flags_flush.
  - destruct (chain s) as [|b rest]; [inversion H; subst; exact Hs|].
    apply bind_ok in H. destruct H as [l [El H]]. inversion H; subst. cbn [chans].
    intros id' sl Hin. apply In_mapslot in Hin. destruct Hin as [sl0 [_ ->]]. apply flags_flush.
  - inversion H; subst. cbn [chans with_chans]. intros id' sl Hin. apply In_mapslot in Hin. destruct Hin as [sl0 [_ ->]]. apply flags_restart.
Qed.

Lemma nrun_finv p ops : forall s s', finv s -> nrun p s ops = Ok s' -> finv s'.
Proof.
  induction ops as [|o r IH]; intros s s' Hi Hr; cbn [nrun] in Hr.
  - inversion Hr; subst. exact Hi.
  - apply bind_ok in Hr. destruct Hr as [[s1 out] [E Hr]]. eapply IH; [eapply step_finv; eassumption | exact Hr].
Qed.

Lemma finv_init h : finv (init_node h).
Proof. intros id sl []. Qed.

(** in every reachable state, whatever the history was: a ready channel that is not done is
    still there, with the same monitor, after any further run of heartbeats and restarts *)
Theorem survives p h ops0 s ops s' id g a m fg fd gh :
  nrun p (init_node h) ops0 = Ok s -> forallb quiet ops = true -> nrun p s ops = Ok s' ->
  cfind id (chans s) = Some (Ready g a m fg fd gh) -> is_done (m_state m) fg = false ->
  exists fg' fd', cfind id (chans s') = Some (Ready g a m fg' fd' gh) /\ is_done (m_state m) fg' = false.
Proof.
  intros H0 Hq Hr Hf Hd. pose proof (nrun_finv _ _ _ _ (finv_init h) H0 _ _ (cfind_In _ _ _ Hf)) as Hfl. cbn [flags_ok] in Hfl.
  eapply survives_quiet; eassumption.
Qed.

(** * what a recorded event says about the transactions of the chain *)
Section Meaning.
Variable g : cfg.

(** outpoint [o] is spent by a transaction of one of the blocks of [P] *)
Definition spent_on (P : list block) (o : outpoint) : Prop :=
  exists b t, In b P /\ In t b /\ In o (tx_ins t).

Lemma in_spent_after l : forall S o, In o (spent_after S l) -> In o S \/ exists t, In t l /\ In o (tx_ins t).
Proof.
  unfold spent_after. induction l as [|t r IH]; intros S o H; cbn [fold_left] in H; [left; exact H|].
  destruct (IH _ _ H) as [G | [t' [G1 G2]]].
  - apply in_app_or in G. destruct G as [G | G]; [right; exists t; split; [left; reflexivity | exact G] | left; exact G].
  - right. exists t'. split; [right; exact G1 | exact G2].
Qed.
Lemma spent_after_on P o : In o (spent_after [] (concat P)) -> spent_on P o.
Proof.
  intros H. destruct (in_spent_after _ _ _ H) as [[] | [t [Ht Ho]]].
  apply in_concat in Ht. destruct Ht as [b [Hb Ht]]. exists b, t. auto.
Qed.

Lemma consistent_prefix P Q : consistent g (P ++ Q) = true -> consistent g P = true.
Proof. unfold consistent. rewrite concat_app, txs_ok_app. intros H. apply andb_true_iff in H. tauto. Qed.

(** on a consistent chain [P]: a recorded double-spend height means that a registered funding
    input is spent on [P]; a recorded mutual close means that the funding outpoint is spent on
    [P]; a swept unilateral close means that the funding outpoint, the node's own output of
    the commitment transaction, every HTLC output the node can claim and every second-level
    output that came out of those are all spent on [P] *)
Theorem event_meaning h0 P mP :
  consistent g P = true -> run_adds g (init_mon g h0) P = Ok mP ->
  let s := m_state mP in
  (dsh s <> None -> exists i, In i (finputs g) /\ spent_on P i)
  /\ (mutual_h s <> None -> spent_on P (fund g))
  /\ (is_closing_swept s = true -> exists cl, clo s = Some cl
        /\ spent_on P (fund g)
        /\ (forall v b, c_our cl = Some (v, b) -> spent_on P (c_txid cl, v))
        /\ (forall v, In v (htlc_idx cl) -> spent_on P (c_txid cl, v))
        /\ (forall o, In o (slos cl) -> spent_on P o)).
Proof.
  intros Hc Hr. pose proof (run_adds_inv g _ _ _ _ _ (MInv_init g h0) Hc Hr) as HM. cbv zeta.
  pose proof (M_k _ _ _ _ HM) as HK. split; [|split].
  - intros Hd. destruct (dsh (m_state mP)) as [x|] eqn:E; [|contradiction].
    destruct (M_dsh _ _ _ _ HM x E) as [_ [i [Hi HS]]]. exists i. split; [exact Hi | apply spent_after_on; exact HS].
  - intros Hm. apply spent_after_on. apply (M_mut _ _ _ _ HM). exact Hm.
  - intros Hs. unfold is_closing_swept in Hs. destruct (clo (m_state mP)) as [cl|] eqn:Ecl; [|discriminate].
    exists cl. split; [reflexivity|].
    assert (Hsnd : snd (core_of (m_state mP)) = Some cl) by (unfold core_of; cbn [snd]; exact Ecl).
    unfold all_spent in Hs. apply andb_true_iff in Hs. destruct Hs as [Hs Hs3]. apply andb_true_iff in Hs. destruct Hs as [Hs1 Hs2].
    split; [apply spent_after_on; apply (K_clo _ _ _ _ HK); rewrite Hsnd; discriminate|].
    split; [|split].
    + intros v b Ho. rewrite Ho in Hs1. subst b. apply spent_after_on. eapply (K_our _ _ _ _ HK); eassumption.
    + intros v Hv. apply spent_after_on. eapply (K_htlc _ _ _ _ HK); [exact Hsnd|].
      apply hflag_in in Hv. unfold hflag in *. destruct (find (fun p => fst p =? v) (c_htlcs cl)) as [q|] eqn:Ef; [|contradiction].
      cbn [option_map]. rewrite (forallb_find _ _ _ _ Hs2 Ef). reflexivity.
    + intros o Ho. apply spent_after_on. eapply (K_sec _ _ _ _ HK); [exact Hsnd|].
      apply sflag_in in Ho. unfold sflag in *. destruct (find (fun p => op_eqb (fst p) o) (c_second cl)) as [q|] eqn:Ef; [|contradiction].
      cbn [option_map]. rewrite (forallb_find _ _ _ _ Hs3 Ef). reflexivity.
Qed.

(** [buried] in these terms *)
Definition event_on (P : list block) : Prop :=
  (exists i, In i (finputs g) /\ spent_on P i)
  \/ spent_on P (fund g).

Corollary buried_meaning h0 view :
  consistent g view = true -> buried g h0 view ->
  exists P Q, view = P ++ Q /\ MIN_DEPTH <= N.of_nat (length Q) + 1 /\ event_on P.
Proof.
  intros Hc (P & Q & mP & E1 & E2 & E3 & E4). exists P, Q. split; [exact E1|]. split; [exact E2|].
  rewrite E1 in Hc. pose proof (consistent_prefix _ _ Hc) as HcP.
  destruct (event_meaning h0 P mP HcP E3) as (M1 & M2 & M3). destruct E4 as [E4 | [E4 | [_ E4]]].
  - left. apply M1. rewrite E4. discriminate.
  - right. apply M2. rewrite E4. discriminate.
  - right. destruct (M3 E4) as [cl [_ [H _]]]. exact H.
Qed.

End Meaning.

(** [prune_sound] with the burial spelled out on the transactions of the current best chain:
    the channel's view ends [MIN_DEPTH - 1] or more blocks after an initial part on which a
    funding input or the funding outpoint is spent *)
Theorem prune_sound_chain p h ops s o s' out id g a m fg fd gh :
  h <= U32MAX -> nrun p (init_node h) ops = Ok s -> hist_admissible p (init_node h) ops = true ->
  step p s o = Ok (s', out) -> cfind id (chans s) = Some (Ready g a m fg fd gh) -> ~ ready_cfg id g s' ->
  exists older P Q, chain s = g_view gh ++ older /\ rev (g_view gh) = P ++ Q
    /\ MIN_DEPTH <= N.of_nat (length Q) + 1 /\ event_on g P.
Proof.
  intros Hh Hr Ha Hst Hf Hn.
  destruct (prune_sound _ _ _ _ _ _ _ _ _ _ _ _ _ _ Hh Hr Ha Hst Hf Hn) as (_ & _ & _ & [older Ho] & Hb).
  pose proof (nrun_inv _ _ _ _ (ninv_init _ Hh) Ha Hr) as [_ Hs].
  pose proof (Hs _ _ (cfind_In _ _ _ Hf)) as ([Hc _] & _).
  destruct (buried_meaning g _ _ Hc Hb) as (P & Q & E1 & E2 & E3).
  exists older, P, Q. auto.
Qed.

(** * restarts *)
(** with forget_channel writing the tracker entry (the repaired code), the store is never behind:
    in every reachable state the stored forget flag equals the one in memory, so a restart
    restores exactly the state that was running - the monitors, the flags, the mark, the map -
    and every pruning decision is the same with or without it *)
Definition synced (sl : slot) : Prop :=
  match sl with Ready _ _ _ fg fd _ => fd = fg | Stub _ => True end.
Definition sinv (s : node) : Prop := forall id sl, In (id, sl) (chans s) -> synced sl.

Lemma synced_flush sl : synced (flush_slot sl).
Proof. destruct sl; cbn; auto. Qed.
Lemma synced_restart_id sl : synced sl -> restart_slot sl = sl.
Proof. destruct sl as [c|g a m fg fd gh]; cbn; [reflexivity|]. intros ->. reflexivity. Qed.

Lemma step_sinv p s o s' out : forget_flush p = true -> sinv s -> step p s o = Ok (s', out) -> sinv s'.
Proof.
  unfold sinv. intros Hp Hs H. destruct o; cbn [step] in H.
  - destruct (dbid id <=? hwm s); [inversion H; subst; exact Hs|].
    destruct (max_channels p <=? nkeys (chans s)); [inversion H; subst; exact Hs|].
    destruct (cfind id (chans s)); inversion H; subst; [exact Hs|]. cbn [chans with_chans]. intros id' sl Hin.
    apply In_cput in Hin. destruct Hin as [Hin | Hin]; [inversion Hin; subst; exact I | eapply Hs; exact Hin].
  - destruct (cfind id (chans s)) as [[c|g' a' m0 fg0 fd0 gh0]|] eqn:Ef; [| |inversion H; subst; exact Hs].
    + inversion H; subst. cbn [chans with_chans]. intros id' sl Hin. apply In_mapslot in Hin. destruct Hin as [sl0 [_ ->]]. apply synced_flush.
    + destruct (cfg_eqb g g'); inversion H; subst; exact Hs.
  - destruct (cfind id (chans s)) as [[c|g' a' m0 fg0 fd0 gh0]|] eqn:Ef; inversion H; subst; [| |exact Hs]; cbn [chans]; intros id' sl Hin.
    + apply In_cdel in Hin. eapply Hs; exact Hin.
    + rewrite Hp in Hin. apply In_mapslot in Hin. destruct Hin as [sl0 [_ ->]]. apply synced_flush.
  - inversion H; subst. cbn [chans with_chans]. intros id' sl Hin. destruct (existsb _ (chans s)).
    + apply In_mapslot in Hin. destruct Hin as [sl0 [_ ->]]. apply synced_flush.
    + apply filter_In in Hin. destruct Hin as [Hin _]. eapply Hs; exact Hin.
  - destruct (U32MAX <=? theight s); [discriminate|]. apply bind_ok in H. destruct H as [l [El H]]. inversion H; subst. cbn [chans].
    intros id' sl Hin. apply In_mapslot in Hin. destruct Hin as [sl0 [_ ->]]. apply synced_flush.
  - destruct (chain s) as [|b rest]; [inversion H; subst; exact Hs|].
    apply bind_ok in H. destruct H as [l [El H]]. inversion H; subst. cbn [chans].
    intros id' sl Hin. apply In_mapslot in Hin. destruct Hin as [sl0 [_ ->]]. apply synced_flush.
  - inversion H; subst. cbn [chans with_chans]. intros id' sl Hin. apply In_mapslot in Hin. destruct Hin as [sl0 [Hin ->]].
    rewrite (synced_restart_id _ (Hs _ _ Hin)). eapply Hs; exact Hin.
Qed.

Lemma nrun_sinv p ops : forget_flush p = true -> forall s s', sinv s -> nrun p s ops = Ok s' -> sinv s'.
Proof.
  intros Hp. induction ops as [|o r IH]; intros s s' Hi Hr; cbn [nrun] in Hr.
  - inversion Hr; subst. exact Hi.
  - apply bind_ok in Hr. destruct Hr as [[s1 out] [E Hr]]. eapply IH; [eapply step_sinv; eassumption | exact Hr].
Qed.

Lemma map_slot_id (f : slot -> slot) (l : cmap) :
  (forall id sl, In (id, sl) l -> f sl = sl) -> map (fun x => (fst x, f (snd x))) l = l.
Proof.
  induction l as [|[k w] r IH]; intros H; cbn [map fst snd]; [reflexivity|].
  rewrite (H k w (or_introl eq_refl)), IH; [reflexivity|]. intros id sl Hin. apply (H id sl). right; exact Hin.
Qed.

Theorem restart_changes_nothing p h ops s :
  forget_flush p = true -> nrun p (init_node h) ops = Ok s -> step p s Restart = Ok (s, Done).
Proof.
  intros Hp Hr. assert (Hs : sinv s) by (eapply nrun_sinv; [exact Hp | | exact Hr]; intros id sl []).
  cbn [step]. rewrite map_slot_id; [destruct s; reflexivity|].
  intros id sl Hin. apply synced_restart_id. eapply Hs; exact Hin.
Qed.

(** * preimages *)
(** with htlcs_fulfilled writing the node entry, what the signer knows - in memory and in the
    store - is exactly what it was handed, after any history, restarts included; so every
    commitment transaction is classified with all the preimages that were handed over *)
Definition pinv (s : pnode) : Prop := known s = given s /\ known_disk s = known s.

Lemma pstep_pinv p s o s' out : pinv s -> pstep true p s o = Ok (s', out) -> pinv s'.
Proof.
  intros [H1 H2] H. destruct o; cbn [pstep] in H.
  - apply bind_ok in H. destruct H as [[n' out'] [E H]]. inversion H; subst. clear H. unfold pinv. cbn [known known_disk given].
    assert (Hk : match o with Restart => known_disk s | _ => known s end = known s) by (destruct o; auto).
    rewrite Hk. split; [exact H1|]. destruct (writes_node_entry (pn s) o); [reflexivity | exact H2].
  - apply bind_ok in H. destruct H as [[n' out'] [E H]]. inversion H; subst. split; assumption.
  - inversion H; subst. unfold pinv. cbn [known known_disk given]. rewrite H1. auto.
  - inversion H; subst. unfold pinv. cbn [known known_disk given]. auto.
Qed.

Theorem preimages_durable p h ops s :
  prun true p (init_pnode h) ops = Ok s -> known s = given s /\ known_disk s = known s.
Proof.
  assert (G : forall ops s0 s1, pinv s0 -> prun true p s0 ops = Ok s1 -> pinv s1).
  { induction ops0 as [|o r IH]; intros s0 s1 Hi Hr; cbn [prun] in Hr.
    - inversion Hr; subst. exact Hi.
    - apply bind_ok in Hr. destruct Hr as [[s2 out] [E Hr]]. eapply IH; [eapply pstep_pinv; eassumption | exact Hr]. }
  intros Hr. apply (G ops (init_pnode h) s); [split; reflexivity | exact Hr].
Qed.
