(** The translated MemoryKVVStore functions (Gen/KvvGen.v) are the model's (Model/Kvv.v). *)
From Coq Require Import String.
From Coq Require Import List.
From VLS Require Import Base.Rust Gen.KvvGen.
From VLS Require Import Model.Kvv.
Import ListNotations.
Local Open Scope N_scope.

Lemma bytes_cmp_kcmp a : forall b, bytes_cmp a b = kcmp a b.
Proof. induction a as [|x a IH]; intros [|y b]; cbn [bytes_cmp kcmp]; try reflexivity; rewrite IH; reflexivity. Qed.

Lemma bytes_eqb_val_eqb a : forall b, bytes_eqb a b = val_eqb a b.
Proof.
  unfold val_eqb. induction a as [|x a IH]; intros [|y b]; cbn [bytes_eqb list_eqb]; try reflexivity; rewrite IH; reflexivity.
Qed.

Lemma bmap_get_lookup {V} (m : list (key * V)) k : bmap_get m k = lookup k m.
Proof.
  induction m as [|[k' v] r IH]; cbn [bmap_get lookup]; [reflexivity|].
  rewrite bytes_cmp_kcmp, IH. reflexivity.
Qed.

Lemma bmap_insert_upsert {V} (m : list (key * V)) k v : bmap_insert m k v = upsert k v m.
Proof.
  induction m as [|[k' v'] r IH]; cbn [bmap_insert upsert]; [reflexivity|].
  rewrite bytes_cmp_kcmp, IH. reflexivity.
Qed.

(** a model answer as the generated functions return it: the store the call leaves, the refusal, the panic *)
Definition of_mres (x : store * res) : trap (result MemoryKVVStore) :=
  match snd x with
  | ROk => Val (OkR (mk_MemoryKVVStore (fst x)))
  | RErr => Val (ErrR "VersionMismatch"%string)
  | RAbort => Trap
  end.

Theorem gen_get_version_is_model prof s k :
  gen_MemoryKVVStore_get_version prof (mk_MemoryKVVStore s) k = Val (OkR (version_of s k)).
Proof. unfold gen_MemoryKVVStore_get_version, version_of. cbn [MemoryKVVStore_data]. rewrite bmap_get_lookup. reflexivity. Qed.

Theorem gen_pwv_is_model prof s k ver val :
  gen_MemoryKVVStore_put_with_version prof (mk_MemoryKVVStore s) k ver val = of_mres (m_pwv s k ver val).
Proof.
  unfold gen_MemoryKVVStore_put_with_version, m_pwv, judge, of_mres. cbv beta zeta. cbn [MemoryKVVStore_data].
  rewrite bmap_get_lookup, !bmap_insert_upsert. unfold vv, Kvv.value, key.
  destruct (lookup k s) as [[v0 val0]|]; [|reflexivity].
  destruct (ver <? v0); [reflexivity|].
  destruct (ver =? v0); [|reflexivity].
  rewrite bytes_eqb_val_eqb. destruct (val_eqb val0 val); reflexivity.
Qed.

(** a refusal (and a panic) leaves the model's store as it was: the ErrR of the generated function loses nothing *)
Lemma m_pwv_refusal_keeps s k ver val : snd (m_pwv s k ver val) <> ROk -> fst (m_pwv s k ver val) = s.
Proof. unfold m_pwv. destruct (judge (lookup k s) ver val); cbn [fst snd]; congruence. Qed.

Theorem gen_put_is_model prof s k val :
  gen_MemoryKVVStore_put prof (mk_MemoryKVVStore s) k val = of_mres (m_put prof s k val).
Proof.
  unfold gen_MemoryKVVStore_put, m_put, next_version. rewrite gen_get_version_is_model. cbn [bindR].
  destruct (version_of s k) as [v|].
  - destruct (add_p prof v 1) as [n|]; cbn [bindT]; [apply gen_pwv_is_model | reflexivity].
  - cbn [bindT]. apply gen_pwv_is_model.
Qed.

Lemma m_put_refusal_keeps prof s k val : snd (m_put prof s k val) <> ROk -> fst (m_put prof s k val) = s.
Proof.
  unfold m_put. destruct (next_version prof (version_of s k)); [apply m_pwv_refusal_keeps | reflexivity].
Qed.

Theorem gen_delete_is_model prof s k :
  gen_MemoryKVVStore_delete prof (mk_MemoryKVVStore s) k = of_mres (m_put prof s k []).
Proof. unfold gen_MemoryKVVStore_delete. apply gen_put_is_model. Qed.
