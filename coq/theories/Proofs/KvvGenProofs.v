(** The translated MemoryKVVStore functions (Gen/KvvGen.v) are the model's (Model/Kvv.v). *)
From Coq Require Import String.
From Coq Require Import List.
From VLS Require Import Base.Rust Gen.KvvGen.
From VLS Require Import Model.Kvv Proofs.KvvProofs.
Import ListNotations.
Local Open Scope N_scope.

Lemma bytes_cmp_kcmp a : forall b, bytes_cmp a b = kcmp a b.
Proof. induction a as [|x a IH]; intros [|y b]; cbn [bytes_cmp kcmp]; try reflexivity; rewrite IH; reflexivity. Qed.

Lemma bytes_eqb_val_eqb a : forall b, bytes_eqb a b = val_eqb a b.
Proof.
  unfold val_eqb. induction a as [|x a IH]; intros [|y b]; cbn [bytes_eqb list_eqb]; try reflexivity; rewrite IH; reflexivity.
Qed.

Lemma bmap_get_lookup {V} (m : list (key * V)) k : bmap_get m k = lookup k m.
Proof.
  induction m as [|[k' v] r IH]; cbn [bmap_get lookup]; [reflexivity|].
  rewrite bytes_cmp_kcmp, IH. reflexivity.
Qed.

Lemma bmap_insert_upsert {V} (m : list (key * V)) k v : bmap_insert m k v = upsert k v m.
Proof.
  induction m as [|[k' v'] r IH]; cbn [bmap_insert upsert]; [reflexivity|].
  rewrite bytes_cmp_kcmp, IH. reflexivity.
Qed.

(** a model answer as the generated functions return it: the store the call leaves, the refusal, the panic *)
Definition of_mres (x : store * res) : trap (result MemoryKVVStore) :=
  match snd x with
  | ROk => Val (OkR (mk_MemoryKVVStore (fst x)))
  | RErr => Val (ErrR "VersionMismatch"%string)
  | RAbort => Trap
  end.

Theorem gen_get_version_is_model prof s k :
  gen_MemoryKVVStore_get_version prof (mk_MemoryKVVStore s) k = Val (OkR (version_of s k)).
Proof. unfold gen_MemoryKVVStore_get_version, version_of. cbn [MemoryKVVStore_data]. rewrite bmap_get_lookup. reflexivity. Qed.

Theorem gen_pwv_is_model prof s k ver val :
  gen_MemoryKVVStore_put_with_version prof (mk_MemoryKVVStore s) k ver val = of_mres (m_pwv s k ver val).
Proof.
  unfold gen_MemoryKVVStore_put_with_version, m_pwv, judge, of_mres. cbv beta zeta. cbn [MemoryKVVStore_data].
  rewrite bmap_get_lookup, !bmap_insert_upsert. unfold vv, Kvv.value, key.
  destruct (lookup k s) as [[v0 val0]|]; [|reflexivity].
  destruct (ver <? v0); [reflexivity|].
  destruct (ver =? v0); [|reflexivity].
  rewrite bytes_eqb_val_eqb. destruct (val_eqb val0 val); reflexivity.
Qed.

(** a refusal (and a panic) leaves the model's store as it was: the ErrR of the generated function loses nothing *)
Lemma m_pwv_refusal_keeps s k ver val : snd (m_pwv s k ver val) <> ROk -> fst (m_pwv s k ver val) = s.
Proof. unfold m_pwv. destruct (judge (lookup k s) ver val); cbn [fst snd]; congruence. Qed.

Theorem gen_put_is_model prof s k val :
  gen_MemoryKVVStore_put prof (mk_MemoryKVVStore s) k val = of_mres (m_put prof s k val).
Proof.
  unfold gen_MemoryKVVStore_put, m_put, next_version. rewrite gen_get_version_is_model. cbn [bindR].
  destruct (version_of s k) as [v|].
  - destruct (add_p prof v 1) as [n|]; cbn [bindT]; [apply gen_pwv_is_model | reflexivity].
  - cbn [bindT]. apply gen_pwv_is_model.
Qed.

Lemma m_put_refusal_keeps prof s k val : snd (m_put prof s k val) <> ROk -> fst (m_put prof s k val) = s.
Proof.
  unfold m_put. destruct (next_version prof (version_of s k)); [apply m_pwv_refusal_keeps | reflexivity].
Qed.

Theorem gen_delete_is_model prof s k :
  gen_MemoryKVVStore_delete prof (mk_MemoryKVVStore s) k = of_mres (m_put prof s k []).
Proof. unfold gen_MemoryKVVStore_delete. apply gen_put_is_model. Qed.

(** * put_batch: the staged map merged into the store is the model's running store *)

Lemma sorted_ext {V} (s : list (key * V)) : forall s', ksorted s -> ksorted s' ->
  (forall k, lookup k s = lookup k s') -> s = s'.
Proof.
  induction s as [|[k v] r IH]; intros [|[k' v'] r'] S S' H.
  - reflexivity.
  - specialize (H k'). cbn [lookup] in H. rewrite kcmp_refl in H. discriminate H.
  - specialize (H k). cbn [lookup] in H. rewrite kcmp_refl in H. discriminate H.
  - cbn [ksorted] in S, S'. destruct S as [A S], S' as [A' S'].
    destruct (kcmp k k') eqn:E.
    + apply kcmp_eq_iff in E. subst k'.
      pose proof (H k) as Hk. cbn [lookup] in Hk. rewrite kcmp_refl in Hk. injection Hk as ->.
      f_equal. apply IH; [exact S | exact S' |]. intros x.
      destruct (kcmp x k) eqn:Ex.
      * apply kcmp_eq_iff in Ex. subst x. rewrite !lookup_above by assumption. reflexivity.
      * specialize (H x). cbn [lookup] in H. rewrite Ex in H. exact H.
      * specialize (H x). cbn [lookup] in H. rewrite Ex in H. exact H.
    + exfalso. specialize (H k). cbn [lookup] in H. rewrite kcmp_refl, E in H.
      rewrite (lookup_above k r') in H by (eapply keys_above_trans; eassumption). discriminate H.
    + exfalso. apply kcmp_gt_lt in E. specialize (H k'). cbn [lookup] in H. rewrite kcmp_refl, E in H.
      rewrite (lookup_above k' r) in H by (eapply keys_above_trans; eassumption). discriminate H.
Qed.

Definition merge (data staged : store) : store :=
  fold_left (fun d (kv : kvv) => upsert (fst kv) (snd kv) d) staged data.

Lemma merge_sorted staged : forall data, ksorted data -> ksorted (merge data staged).
Proof.
  unfold merge. induction staged as [|[k e] r IH]; intros data S; cbn [fold_left fst snd]; [exact S|].
  apply IH. apply upsert_sorted. exact S.
Qed.

Lemma lookup_merge staged : forall data k, ksorted staged ->
  lookup k (merge data staged) = match lookup k staged with Some e => Some e | None => lookup k data end.
Proof.
  unfold merge. induction staged as [|[k0 e0] r IH]; intros data k S; cbn [fold_left fst snd lookup]; [reflexivity|].
  cbn [ksorted] in S. destruct S as [A S]. rewrite IH by exact S. rewrite lookup_upsert.
  destruct (kcmp k k0) eqn:E.
  - apply kcmp_eq_iff in E. subst k0. rewrite (lookup_above k r) by exact A. reflexivity.
  - reflexivity.
  - reflexivity.
Qed.

Lemma merge_upsert data staged k e : ksorted data -> ksorted staged ->
  merge data (upsert k e staged) = upsert k e (merge data staged).
Proof.
  intros Sd Ss. apply sorted_ext.
  - apply merge_sorted. exact Sd.
  - apply upsert_sorted, merge_sorted. exact Sd.
  - intros x. rewrite lookup_merge by (apply upsert_sorted; exact Ss).
    rewrite !lookup_upsert, lookup_merge by exact Ss.
    destruct (kcmp x k); reflexivity.
Qed.

Lemma fold_insert_merge staged : forall data : store,
  fold_left (fun d_ (kv_ : list N * (N * list N)) => bmap_insert d_ (fst kv_) (snd kv_)) staged data = merge data staged.
Proof.
  unfold merge. induction staged as [|a r IH]; intros data; cbn [fold_left]; [reflexivity|].
  rewrite bmap_insert_upsert. apply IH.
Qed.

Theorem gen_put_batch_is_model prof s l :
  ksorted s ->
  gen_MemoryKVVStore_put_batch prof (mk_MemoryKVVStore s) l = of_mres (m_batch s l).
Proof.
  intros Ss. unfold gen_MemoryKVVStore_put_batch. cbv beta zeta. cbn [MemoryKVVStore_data].
  match goal with |- bindR (fold_r ?B _ _) _ = _ => set (body := B) end.
  assert (Hloop : forall l staged, ksorted staged ->
            match batch_go (merge s staged) l, fold_r body l staged with
            | Some s', Val (OkR st') => merge s st' = s'
            | None, Val (ErrR tg) => tg = "VersionMismatch"%string
            | _, _ => False
            end).
  { clear l. induction l as [|[k [ver val]] r IH]; intros staged St; cbn [batch_go fold_r].
    - reflexivity.
    - match goal with |- context [body staged ?x] => set (step := body staged x) end.
      assert (Hs : step = match lookup k (merge s staged) with
                          | Some (v0, val0) =>
                              if ver <? v0 then Val (ErrR "VersionMismatch"%string)
                              else if ver =? v0
                                   then (if val_eqb val0 val then Val (OkR staged) else Val (ErrR "VersionMismatch"%string))
                                   else Val (OkR (upsert k (ver, val) staged))
                          | None => Val (OkR (upsert k (ver, val) staged))
                          end).
      { subst step. unfold body. cbv beta iota zeta.
        rewrite !bmap_get_lookup, !bmap_insert_upsert, lookup_merge by exact St.
        unfold opt_or_else. unfold vv, Kvv.value, key, store, kvv in *.
        destruct (lookup k staged) as [[a b]|]; [|destruct (lookup k s) as [[a b]|]]; try reflexivity;
          rewrite bytes_eqb_val_eqb; unfold Kvv.value; destruct (val_eqb b val); reflexivity. }
      rewrite Hs. clear Hs. clearbody step. clear step.
      unfold judge. unfold vv, Kvv.value, key, store, kvv in *.
      match goal with |- context [match ?L with Some _ => _ | None => Write end] => destruct L as [[v0 val0]|] end.
      + destruct (ver <? v0); [cbn [bindR]; reflexivity|].
        destruct (ver =? v0).
        * destruct (val_eqb val0 val); cbn [bindR]; [apply IH; exact St | reflexivity].
        * cbn [bindR]. rewrite <- merge_upsert by assumption. apply IH. apply upsert_sorted. exact St.
      + cbn [bindR]. rewrite <- merge_upsert by assumption. apply IH. apply upsert_sorted. exact St. }
  match goal with |- bindR ?F _ = _ => set (fr := F) end.
  specialize (Hloop l [] I). change (merge s []) with s in Hloop. change (fold_r body l []) with fr in Hloop.
  clearbody fr. unfold m_batch, of_mres.
  destruct (batch_go s l) as [s'|], fr as [[st'|tg]|]; cbv beta iota in Hloop; try contradiction; cbn [bindR fst snd].
  - rewrite fold_insert_merge, Hloop. reflexivity.
  - rewrite Hloop. reflexivity.
Qed.

(** * CloudKVVStore<MemoryKVVStore>: put_with_version / put / delete stage into the commit log *)

Theorem gen_get_is_model prof s k :
  gen_MemoryKVVStore_get prof (mk_MemoryKVVStore s) k = Val (OkR (lookup k s)).
Proof. unfold gen_MemoryKVVStore_get. cbn [MemoryKVVStore_data]. rewrite bmap_get_lookup. reflexivity. Qed.

(** the source-level store of a model state *)
Definition conc (c : cloud) : CloudKVVStore :=
  mk_CloudKVVStore (mk_MemoryKVVStore (local c)) (clog c) (cpoison c).

(** a model answer as the generated functions return it; a panic is Trap - the poisoned flag the model sets
    with it is not represented on the generated side *)
Definition of_cres (x : cloud * res) : trap (result CloudKVVStore) :=
  match snd x with
  | ROk => Val (OkR (conc (fst x)))
  | RErr => Val (ErrR "VersionMismatch"%string)
  | RAbort => Trap
  end.

Ltac kv_cases :=
  repeat (cbn [bindR bindT expect_some fst snd option_map negb andb local clog cpoison c_setlog conc];
          match goal with
          | |- context [if ?b then _ else _] => destruct b eqn:?
          | |- context [match ?X with Some _ => _ | None => _ end] => destruct X as [[? ?]|] eqn:?
          | |- context [match ?X with Some _ => _ | None => _ end] => destruct X eqn:?
          end).

Theorem gen_cloud_pwv_is_model prof c k ver val :
  gen_CloudKVVStore_put_with_version prof (conc c) k ver val = of_cres (c_pwv c k ver val).
Proof.
  destruct c as [loc lg po].
  unfold gen_CloudKVVStore_put_with_version, c_pwv, c_pwv_gen, with_log, staged_lower, judge, of_cres, conc, c_poison.
  cbv beta zeta.
  cbn [CloudKVVStore_commit_log_poisoned CloudKVVStore_commit_log CloudKVVStore_local local clog cpoison andb].
  destruct po; [reflexivity|].
  destruct lg as [l|]; [|reflexivity].
  cbn [expect_some bindT].
  rewrite !gen_get_version_is_model, !gen_get_is_model, !bmap_get_lookup, !bmap_insert_upsert.
  unfold version_of. unfold vv, Kvv.value, key, store, kvv in *.
  repeat match goal with
         | |- context [match ?X with Some _ => _ | None => _ end] =>
             match X with lookup _ _ => destruct X as [[? ?]|] end
         | |- context [option_map fst ?X] => match X with lookup _ _ => destruct X as [[? ?]|] end
         end;
    cbn [bindR bindT expect_some fst snd option_map];
    repeat match goal with |- context [if ?b then _ else _] => destruct b eqn:? end;
    try rewrite bytes_eqb_val_eqb in *; unfold Kvv.value in *;
    cbn [negb fst snd c_setlog local clog cpoison conc] in *; try reflexivity; try congruence;
    try (match goal with H : negb ?x = _, H2 : ?x = _ |- _ => rewrite H2 in H; discriminate H end).
Qed.

Lemma c_pwv_refusal_keeps c k ver val : snd (c_pwv c k ver val) = RErr -> fst (c_pwv c k ver val) = c.
Proof.
  unfold c_pwv, c_pwv_gen, with_log. destruct (cpoison c); [discriminate|]. destruct (clog c); [|discriminate].
  destruct (true && staged_lower s k ver); [reflexivity|].
  destruct (judge (lookup k (local c)) ver val); cbn [fst snd]; congruence.
Qed.

Theorem gen_cloud_put_is_model prof c k val :
  gen_CloudKVVStore_put prof (conc c) k val = of_cres (c_put prof c k val).
Proof.
  unfold gen_CloudKVVStore_put, c_put, c_put_gen, next_version. unfold conc at 1. cbn [CloudKVVStore_local].
  rewrite gen_get_version_is_model. cbn [bindR]. fold (conc c).
  destruct (version_of (local c) k) as [v|].
  - destruct (add_p prof v 1) as [n|]; cbn [bindT]; [apply gen_cloud_pwv_is_model | reflexivity].
  - cbn [bindT]. apply gen_cloud_pwv_is_model.
Qed.

Theorem gen_cloud_delete_is_model prof c k :
  gen_CloudKVVStore_delete prof (conc c) k = of_cres (c_put prof c k []).
Proof. unfold gen_CloudKVVStore_delete. apply gen_cloud_put_is_model. Qed.
