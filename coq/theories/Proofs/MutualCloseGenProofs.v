(** The validator of the cooperative-close model ([validate_mutual_close] of Model/MutualClose.v,
    with its [validate_fee], [outside_epsilon], [value_checks], [script_check]) is what the
    translated source computes: Gen/MutualCloseGen.v is regenerated on every run from
    SimpleValidator::validate_mutual_close_tx (whole body), ::outside_epsilon_range and
    CommitmentInfo2::htlcs_is_empty; validate_fee is the translation of Gen/CommitmentPolicyGen.v.

    Source-level values and their abstraction.  Scripts and paths are opaque identities in the
    translation and byte / index lists in the model: [dec] / [decp] name the list an identity stands
    for, and any faithful naming will do ([enc (dec i) = i]: different identities are different
    lists).  The wallet's two answers are uninterpreted functions of identities on the source side;
    the model's oracle functions are those functions through the naming.  The weight the source
    obtains from LDK's ClosingTransaction and rust-bitcoin ([mutual_close_weight], a parameter of
    the translation) is the model's [close_weight] of the canonical closing transaction for the
    same arguments.  Side condition [close_fits] (a boolean; true of every value of the Rust
    types): the channel value, the two output values and the four commitment values fit u64. *)
From Coq Require Import String.
From VLS Require Import Base.Rust Gen.MutualCloseGen Proofs.RustFacts.
From VLS Require Gen.CommitmentPolicyGen Gen.TxUtilGen Proofs.TxUtilGenProofs.
From VLS Require Import Model.MutualClose Proofs.MutualCloseProofs.
Require Import Lia.

Module CP := CommitmentPolicyGen.

Definition abs_policy (p : CP.SimplePolicy) : policy :=
  mkPol (CP.SimplePolicy_min_feerate_per_kw p) (CP.SimplePolicy_max_feerate_per_kw p) (CP.SimplePolicy_epsilon_sat p).

Definition abs_info (i : CP.CommitmentInfo2) : cinfo :=
  mkInfo (CP.CommitmentInfo2_to_broadcaster_value_sat i) (CP.CommitmentInfo2_to_countersigner_value_sat i)
         (len_of (CP.CommitmentInfo2_offered_htlcs i)) (len_of (CP.CommitmentInfo2_received_htlcs i)).

Definition abs_estate (e : EnforcementState) : estate :=
  mkEstate (option_map abs_info (EnforcementState_current_holder_commit_info e))
           (option_map abs_info (EnforcementState_current_counterparty_commit_info e))
           (EnforcementState_channel_closed e).

(** the funding outpoint is an identity on the source side; the validator reads it only to build
    the transaction whose weight it asks for *)
Definition abs_setup (dec : N -> script) (s : CP.ChannelSetup) : setup :=
  mkSetup (CP.ChannelSetup_is_outbound s) (CP.ChannelSetup_channel_value_sat s)
          (option_map dec (CP.ChannelSetup_holder_shutdown_script s))
          (mkOP (CP.ChannelSetup_funding_outpoint s) 0).

Definition abs_args (dec : N -> script) (decp : N -> path) (vh vc : N) (hs cs : option N) (pid : N) : close_args :=
  mkArgs vh vc (option_map dec hs) (option_map dec cs) (decp pid).

Definition tag_filter (swarn : string -> bool) : tag -> bool := fun t => swarn (tag_name t).

Definition of_res (r : res) : trap (result unit) :=
  match r with
  | Ok => Val (OkR tt)
  | Err t => Val (ErrR (tag_name t))
  | Panic => Trap
  end.

Definition info_fits (o : option CP.CommitmentInfo2) : bool :=
  match o with
  | None => true
  | Some i => (CP.CommitmentInfo2_to_broadcaster_value_sat i <=? U64MAX)
              && (CP.CommitmentInfo2_to_countersigner_value_sat i <=? U64MAX)
  end.

Definition close_fits (gs : CP.ChannelSetup) (ge : EnforcementState) (vh vc : N) : bool :=
  (CP.ChannelSetup_channel_value_sat gs <=? U64MAX) && (vh <=? U64MAX) && (vc <=? U64MAX)
  && info_fits (EnforcementState_current_holder_commit_info ge)
  && info_fits (EnforcementState_current_counterparty_commit_info ge).

(** * Small facts *)

Lemma of_res_andthen a b : of_res (andthen a b) = bindR (of_res a) (fun _ => of_res b).
Proof. destruct a; reflexivity. Qed.

Lemma step_check swarn (c : bool) t (g : trap (result unit)) (m : res) :
  g = of_res m ->
  bindR (if c then policy_err swarn (tag_name t) else Val (OkR tt)) (fun _ => g) =
  of_res (andthen (check (tag_filter swarn) c t) m).
Proof.
  intros ->. unfold check, perr, policy_err, tag_filter.
  destruct c; [destruct (swarn (tag_name t))|]; reflexivity.
Qed.

Lemma check_alone swarn (c : bool) t :
  (if c then policy_err swarn (tag_name t) else Val (OkR tt)) = of_res (check (tag_filter swarn) c t).
Proof.
  unfold check, perr, policy_err, tag_filter.
  destruct c; [destruct (swarn (tag_name t))|]; reflexivity.
Qed.

(** * validate_fee (the translation of Gen/CommitmentPolicyGen.v) against this model's copy *)

Lemma gen_fee_is_close_model prof swarn gp sum_inputs sum_outputs w :
  sum_inputs <= U64MAX ->
  CP.gen_validate_fee prof swarn gp (tag_name T_fee_range) sum_inputs sum_outputs w =
  of_res (validate_fee (tag_filter swarn) (abs_policy gp) sum_inputs sum_outputs w).
Proof.
  intros Hfit. unfold CP.gen_validate_fee, validate_fee. cbv beta zeta.
  cbn [abs_policy min_feerate max_feerate].
  unfold sub_checked. destruct (sum_outputs <=? sum_inputs) eqn:Hle; cbn [ok_or bindR of_res]; [|reflexivity].
  apply N.leb_le in Hle.
  destruct (w =? 0) eqn:Hw.
  - apply N.eqb_eq in Hw. subst w.
    rewrite TxUtilGenProofs.gen_estimate_zero_weight by lia. reflexivity.
  - apply N.eqb_neq in Hw.
    rewrite TxUtilGenProofs.gen_estimate_is_model by lia.
    change (CommitmentPolicy.estimate_feerate_per_kw (sum_inputs - sum_outputs) w)
      with (estimate_feerate_per_kw (sum_inputs - sum_outputs) w).
    norm.
    apply (step_check swarn _ T_fee_range).
    apply (check_alone swarn _ T_fee_range).
Qed.

(** * outside_epsilon_range *)

Lemma gen_epsilon_is_model prof swarn gp a b :
  a <= U64MAX -> b <= U64MAX ->
  gen_outside_epsilon_range prof swarn gp a b =
  Val (outside_epsilon (abs_policy gp) a b, if b <? a then "larger"%string else "smaller"%string).
Proof.
  intros Ha Hb. unfold gen_outside_epsilon_range, outside_epsilon. cbn [abs_policy epsilon].
  destruct (b <? a) eqn:E.
  - rewrite (sub_p_ok prof a b) by lia. reflexivity.
  - rewrite (sub_p_ok prof b a) by lia. reflexivity.
Qed.

(** one epsilon comparison of the source followed by the rest of its block *)
Lemma step_epsilon prof swarn gp a b (g : trap (result unit)) (m : res) :
  a <= U64MAX -> b <= U64MAX ->
  g = of_res m ->
  (t <- gen_outside_epsilon_range prof swarn gp a b ;;
   let '(c, descr) := t in
   u <-? (if c then policy_err swarn (tag_name T_value_matches) else Val (OkR tt)) ;; g) =
  of_res (andthen (check (tag_filter swarn) (outside_epsilon (abs_policy gp) a b) T_value_matches) m).
Proof.
  intros Ha Hb Hg. rewrite gen_epsilon_is_model by assumption. cbn [bindT].
  apply step_check. exact Hg.
Qed.

(** * scripts: identities and byte lists *)

Lemma opt_script_eqb_dec (enc : script -> N) (dec : N -> script) a b :
  (forall i, enc (dec i) = i) ->
  opt_script_eqb (option_map dec a) (option_map dec b) = opt_id_eqb a b.
Proof.
  intros H. destruct a as [x|], b as [y|]; cbn [option_map opt_script_eqb opt_id_eqb]; try reflexivity.
  destruct (x =? y) eqn:E.
  - apply N.eqb_eq in E. subst. apply bytes_eqb_eq. reflexivity.
  - destruct (bytes_eqb (dec x) (dec y)) eqn:B; [|reflexivity].
    apply bytes_eqb_eq in B. apply N.eqb_neq in E. exfalso. apply E.
    rewrite <- (H x), <- (H y), B. reflexivity.
Qed.

Lemma is_none_map {A B} (f : A -> B) o : is_none (option_map f o) = is_none_of o.
Proof. destruct o; reflexivity. Qed.

(** * validate_mutual_close_tx *)

Lemma if_nest {A} (a b : bool) (x y : A) :
  (if a then (if b then x else y) else y) = (if a && b then x else y).
Proof. destruct a, b; reflexivity. Qed.

Lemma not_none_some {A} (o : option A) : negb (is_none_of o) = is_some_of o.
Proof. destruct o; reflexivity. Qed.

Lemma andthen_ok_r a : andthen a Ok = a.
Proof. destruct a; reflexivity. Qed.

Theorem gen_mutual_close_is_model prof swarn gp (wcs : N -> N -> N -> option bool) (wal : N -> N -> N -> bool)
    wid gs ge vh vc hs cs pid (enc : script -> N) (dec : N -> script) (encp : path -> N) (decp : N -> path) :
  (forall i, enc (dec i) = i) -> (forall i, encp (decp i) = i) ->
  close_fits gs ge vh vc = true ->
  gen_validate_mutual_close_tx prof swarn gp
    (close_weight (tx_outs (close_of (abs_setup dec gs) (abs_args dec decp vh vc hs cs pid))))
    wcs wal wid gs ge vh vc hs cs pid =
  of_res (validate_mutual_close (tag_filter swarn)
            (fun p s => wcs wid (encp p) (enc s)) (fun s p => wal wid (enc s) (encp p))
            (abs_policy gp) (abs_setup dec gs) (abs_estate ge) (abs_args dec decp vh vc hs cs pid)).
Proof.
  intros Henc Hencp Hfit. unfold close_fits in Hfit.
  repeat (apply andb_prop in Hfit; let H := fresh "Hf" in destruct Hfit as [Hfit H]).
  apply N.leb_le in Hfit. apply N.leb_le in Hf2. apply N.leb_le in Hf1.
  unfold gen_validate_mutual_close_tx, validate_mutual_close. cbv beta zeta.
  cbn [abs_estate holder_info cp_info abs_args a_vh a_vc a_sh a_sc a_path].
  destruct (EnforcementState_current_holder_commit_info ge) as [hi|]; cbn [option_map ok_or bindR of_res];
    [|reflexivity].
  destruct (EnforcementState_current_counterparty_commit_info ge) as [ci|]; cbn [option_map ok_or bindR of_res];
    [|reflexivity].
  cbn [info_fits] in Hf0, Hf.
  apply andb_prop in Hf0. destruct Hf0 as [Hhb Hhc]. apply N.leb_le in Hhb. apply N.leb_le in Hhc.
  apply andb_prop in Hf. destruct Hf as [Hcb Hcc]. apply N.leb_le in Hcb. apply N.leb_le in Hcc.
  rewrite !bindR_unit.
  rewrite !is_none_map.
  (* a positive value needs a script, on either side *)
  apply (step_check swarn _ T_destination).
  apply (step_check swarn _ T_destination).
  (* the upfront shutdown script *)
  rewrite if_nest.
  cbn [abs_setup upfront channel_value is_outbound].
  rewrite is_none_map, not_none_some, (opt_script_eqb_dec enc dec hs _ Henc).
  rewrite <- andb_assoc.
  apply (step_check swarn _ T_destination).
  (* no pending HTLCs *)
  unfold gen_CommitmentInfo2_htlcs_is_empty. cbn [bindT]. rewrite if_val. cbn [bindT].
  unfold htlcs_empty. cbn [abs_info n_offered n_received]. rewrite !is_empty_len.
  apply (step_check swarn _ T_no_htlcs).
  (* the sum of the outputs, the fee *)
  destruct (add_checked vh vc) as [sum_outputs|]; cbn [ok_or bindR of_res]; [|reflexivity].
  change "policy-mutual-fee-range"%string with (tag_name T_fee_range).
  rewrite (gen_fee_is_close_model prof swarn gp) by exact Hfit.
  rewrite of_res_andthen. apply bindR_cong. intros _.
  (* the side that does not pay the fee, against both commitments *)
  rewrite of_res_andthen.
  match goal with
  | |- bindR ?X _ = bindR (of_res ?A) _ => assert (Hval : X = of_res A)
  end.
  { unfold value_checks. cbn [abs_setup is_outbound abs_info to_broadcaster to_countersigner].
    destruct (CP.ChannelSetup_is_outbound gs).
    - apply step_epsilon; [assumption | assumption |].
      rewrite <- (andthen_ok_r (check _ _ T_value_matches)).
      apply step_epsilon; [assumption | assumption | reflexivity].
    - apply step_epsilon; [assumption | assumption |].
      rewrite <- (andthen_ok_r (check _ _ T_value_matches)).
      apply step_epsilon; [assumption | assumption | reflexivity]. }
  rewrite Hval. apply bindR_cong. intros _.
  (* the holder's script: the wallet or the allowlist *)
  unfold script_check.
  destruct hs as [scr|]; cbn [option_map]; [|reflexivity].
  rewrite Hencp, Henc.
  destruct (wcs wid pid scr) as [[|]|]; cbn [ok_or bindR negb andb of_res]; [reflexivity | | reflexivity].
  rewrite bindR_unit. apply (check_alone swarn _ T_destination).
Qed.
