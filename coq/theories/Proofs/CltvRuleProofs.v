(** The CLTV-delta rule of the source (policy-routing-cltv-delta), which Model/Payments.v does not
    describe and the C06_payment_check_* theorems assume to pass ([cltv_pass]).  Stated and proved here
    directly over the TRANSLATED source (Gen/NodePaymentsGen.v, regenerated from vls-core/src/node.rs and
    policy/simple_validator.rs on every run), so that the rule is no longer only a premise:

      - [cltv_check_spec]: SimpleValidator::validate_payment_cltv answers Ok exactly when
        outgoing < incoming and incoming - outgoing >= policy.cltv_delta (tag not downgraded, u32
        operands; in both build profiles: the release wrap of the subtraction is never reached);
      - [validate_payments_ok_cltv]: whenever NodeState::validate_payments (whole body) accepts, every
        hash of the two summaries whose payment record carries both bounds satisfies the rule - for
        every visiting order of the hash set, every policy, every state;
      - [validate_payments_cltv_refuses]: the contrapositive with the error made explicit - a record
        among the hashes that breaks the rule makes validate_payments answer something other than Ok;
      - [apply_bounds_tighten]: RoutedPayment::apply only ever lowers incoming_cltv_min and raises
        outgoing_cltv_max (and sets them from None), so the margin incoming_min - outgoing_max of a
        record never grows by booking: a record refused by the rule stays refused until it is pruned. *)
From Coq Require Import String Permutation.
From VLS Require Import Base.Rust Gen.NodePaymentsGen Proofs.RustFacts.
From VLS Require Gen.CommitmentPolicyGen.
Require Import Lia.

Module CP := CommitmentPolicyGen.

Local Open Scope N_scope.

Definition cltv_tag : string := "policy-routing-cltv-delta"%string.

(** the rule as a boolean over the two stored bounds *)
Definition cltv_okb (delta i o : N) : bool := (o <? i) && (delta <=? i - o).

(** u32 operands: the wrapped subtraction of the release profile is exact when o < i *)
Lemma sub32_exact prof i o : i < two32 -> o < i -> sub32_p prof i o = Val (i - o).
Proof.
  intros Hi Hoi. unfold sub32_p. destruct prof.
  - destruct (N.leb_spec o i); [reflexivity|lia].
  - f_equal. change two32 with two32.
    replace (i + two32 - o) with ((i - o) + 1 * two32) by lia.
    rewrite N.mod_add by (unfold two32; lia). apply N.mod_small. lia.
Qed.

Lemma cltv_check_spec prof swarn gp i o :
  swarn cltv_tag = false -> i < two32 ->
  gen_validate_payment_cltv prof swarn gp i o =
  if cltv_okb (CP.SimplePolicy_cltv_delta gp) i o then Val (OkR tt) else Val (ErrR cltv_tag).
Proof.
  intros Hw Hi. unfold gen_validate_payment_cltv, cltv_okb, policy_err. fold cltv_tag. rewrite Hw.
  destruct (N.leb_spec i o) as [Hio|Hio].
  - cbn [bindR]. destruct (N.ltb_spec o i) as [H|H]; [lia|]. reflexivity.
  - cbn [bindR]. destruct (N.ltb_spec o i) as [H|H]; [|lia]. cbn [andb].
    rewrite (sub32_exact prof i o Hi H). cbn [bindT].
    destruct (N.ltb_spec (i - o) (CP.SimplePolicy_cltv_delta gp)) as [H2|H2];
      destruct (N.leb_spec (CP.SimplePolicy_cltv_delta gp) (i - o)) as [H3|H3]; try lia; reflexivity.
Qed.

(** a loop that ends with Ok ran every body to Ok *)
Lemma fold_r_ok_each {S A} (body : S -> A -> trap (result S)) l :
  forall s s', fold_r body l s = Val (OkR s') ->
  forall x, In x l -> exists a a', body a x = Val (OkR a').
Proof.
  induction l as [|y r IH]; intros s s' Hf x Hx; [destruct Hx|].
  cbn [fold_r] in Hf. destruct (body s y) as [[s1|t]|] eqn:Hb; cbn [bindR] in Hf; try discriminate.
  destruct Hx as [<-|Hx].
  - exists s, s1. exact Hb.
  - exact (IH s1 s' Hf x Hx).
Qed.

Lemma bindR_ok {A B} (x : trap (result A)) (f : A -> trap (result B)) b :
  bindR x f = Val (OkR b) -> exists a, x = Val (OkR a) /\ f a = Val (OkR b).
Proof.
  destruct x as [[a|t]|]; cbn [bindR]; intros H; try discriminate. exists a. split; [reflexivity|exact H].
Qed.

(** the record's stored bounds obey the rule *)
Definition record_cltv_ok (delta : N) (o : option RoutedPayment) : Prop :=
  match o with
  | Some p =>
      match RoutedPayment_incoming_cltv_min p, RoutedPayment_outgoing_cltv_max p with
      | Some i, Some c => c < i /\ delta <= i - c
      | _, _ => True
      end
  | None => True
  end.

(** every stored incoming bound is a u32 (the field is [Option<u32>]) *)
Definition bounds_u32 (ns : NodeState) : Prop :=
  forall h p i, map_get (NodeState_payments ns) h = Some p ->
                RoutedPayment_incoming_cltv_min p = Some i -> i < two32.

Theorem validate_payments_ok_cltv prof swarn gp ord ns ch im om bd vid :
  (forall l, Permutation (ord l) l) ->
  swarn cltv_tag = false ->
  bounds_u32 ns ->
  gen_NodeState_validate_payments prof swarn gp ord ns ch im om bd vid = Val (OkR tt) ->
  forall h, In h (set_extend (set_extend [] (map_keys im)) (map_keys om)) ->
            record_cltv_ok (CP.SimplePolicy_cltv_delta gp) (map_get (NodeState_payments ns) h).
Proof.
  intros Hord Hw Hu Hv h Hh.
  unfold gen_NodeState_validate_payments in Hv. cbv beta zeta in Hv.
  apply bindR_ok in Hv. destruct Hv as [unb [Hfold _]].
  assert (Hin : In h (ord (set_extend (set_extend [] (map_keys im)) (map_keys om)))).
  { eapply Permutation_in; [apply Permutation_sym, Hord | exact Hh]. }
  destruct (fold_r_ok_each _ _ _ _ Hfold h Hin) as [a [a' Hb]]. clear Hfold.
  cbv beta zeta in Hb.
  apply bindR_ok in Hb. destruct Hb as [t5 [Ht5 _]].
  unfold record_cltv_ok.
  destruct (map_get (NodeState_payments ns) h) as [p|] eqn:Hp; [|exact I].
  unfold gen_RoutedPayment_get_cltv_bounds in Ht5. cbn [bindT] in Ht5.
  destruct (RoutedPayment_incoming_cltv_min p) as [i|] eqn:Hi; [|exact I].
  destruct (RoutedPayment_outgoing_cltv_max p) as [c|] eqn:Hc; [|exact I].
  apply bindR_ok in Ht5. destruct Ht5 as [t3 [Ht3 _]].
  apply bindR_ok in Ht3. destruct Ht3 as [t2 [Ht2 _]].
  rewrite (cltv_check_spec prof swarn gp i c Hw (Hu h p i Hp Hi)) in Ht2.
  unfold cltv_okb in Ht2.
  destruct (N.ltb_spec c i) as [H1|H1]; cbn [andb] in Ht2; [|discriminate].
  destruct (N.leb_spec (CP.SimplePolicy_cltv_delta gp) (i - c)) as [H2|H2]; [|discriminate].
  split; assumption.
Qed.

Theorem validate_payments_cltv_refuses prof swarn gp ord ns ch im om bd vid h p i c :
  (forall l, Permutation (ord l) l) ->
  swarn cltv_tag = false ->
  bounds_u32 ns ->
  In h (set_extend (set_extend [] (map_keys im)) (map_keys om)) ->
  map_get (NodeState_payments ns) h = Some p ->
  RoutedPayment_incoming_cltv_min p = Some i ->
  RoutedPayment_outgoing_cltv_max p = Some c ->
  (i <= c \/ i - c < CP.SimplePolicy_cltv_delta gp) ->
  gen_NodeState_validate_payments prof swarn gp ord ns ch im om bd vid <> Val (OkR tt).
Proof.
  intros Hord Hw Hu Hh Hp Hi Hc Hbad Hv.
  pose proof (validate_payments_ok_cltv prof swarn gp ord ns ch im om bd vid Hord Hw Hu Hv h Hh) as H.
  unfold record_cltv_ok in H. rewrite Hp, Hi, Hc in H. lia.
Qed.

(** booking only tightens the stored bounds *)
Definition opt_le_min (old new : option N) : Prop :=
  match old, new with
  | Some a, Some b => b <= a
  | Some _, None => False
  | None, _ => True
  end.
Definition opt_ge_max (old new : option N) : Prop :=
  match old, new with
  | Some a, Some b => a <= b
  | Some _, None => False
  | None, _ => True
  end.

Theorem apply_bounds_tighten prof p ch i o ic oc :
  exists p', gen_RoutedPayment_apply prof p ch i o ic oc = Val p' /\
    opt_le_min (RoutedPayment_incoming_cltv_min p) (RoutedPayment_incoming_cltv_min p') /\
    opt_ge_max (RoutedPayment_outgoing_cltv_max p) (RoutedPayment_outgoing_cltv_max p') /\
    RoutedPayment_preimage p' = RoutedPayment_preimage p /\
    (ic = None -> RoutedPayment_incoming_cltv_min p' = RoutedPayment_incoming_cltv_min p) /\
    (oc = None -> RoutedPayment_outgoing_cltv_max p' = RoutedPayment_outgoing_cltv_max p).
Proof.
  unfold gen_RoutedPayment_apply. cbv beta zeta.
  destruct ic as [a|], oc as [b|]; cbn [bindT]; eexists; (split; [reflexivity|]);
    cbn; unfold opt_le_min, opt_ge_max;
    destruct (RoutedPayment_incoming_cltv_min p), (RoutedPayment_outgoing_cltv_max p);
    repeat split; try congruence; try lia.
Qed.

(** a record that breaks the rule keeps breaking it after any booking (margin never grows) *)
Corollary apply_keeps_cltv_violation prof p ch i o ic oc a b delta :
  RoutedPayment_incoming_cltv_min p = Some a ->
  RoutedPayment_outgoing_cltv_max p = Some b ->
  (a <= b \/ a - b < delta) ->
  exists p' a' b', gen_RoutedPayment_apply prof p ch i o ic oc = Val p' /\
    RoutedPayment_incoming_cltv_min p' = Some a' /\ RoutedPayment_outgoing_cltv_max p' = Some b' /\
    (a' <= b' \/ a' - b' < delta).
Proof.
  intros Ha Hb Hbad.
  destruct (apply_bounds_tighten prof p ch i o ic oc) as [p' [He [H1 [H2 _]]]].
  rewrite Ha in H1. rewrite Hb in H2. unfold opt_le_min, opt_ge_max in *.
  destruct (RoutedPayment_incoming_cltv_min p') as [a'|] eqn:Ea; [|contradiction].
  destruct (RoutedPayment_outgoing_cltv_max p') as [b'|] eqn:Eb; [|contradiction].
  exists p', a', b'. repeat split; try assumption. lia.
Qed.

(** non-vacuity: a concrete record accepted and one refused *)
Example cltv_rule_examples :
  cltv_okb 40 1050 1000 = true /\ cltv_okb 40 1030 1000 = false /\ cltv_okb 0 1000 1000 = false.
Proof. vm_compute. repeat split. Qed.

(** * Every booking history: the stored bounds are the extrema of what was booked
    A record's life is a sequence of RoutedPayment::apply calls (one per accepted commitment update
    that mentions its hash).  [book] folds the translated [apply] over such a sequence. *)
Record booking := mkB { b_ch : N; b_in : N; b_out : N; b_ic : option N; b_oc : option N }.

Fixpoint book (prof : profile) (p : RoutedPayment) (l : list booking) : trap RoutedPayment :=
  match l with
  | [] => Val p
  | b :: r => p1 <- gen_RoutedPayment_apply prof p (b_ch b) (b_in b) (b_out b) (b_ic b) (b_oc b) ;; book prof p1 r
  end.

Definition opt_all_ge (bound : option N) (xs : list N) : Prop :=
  match bound with Some m => Forall (fun x => m <= x) xs | None => xs = [] end.
Definition opt_all_le (bound : option N) (xs : list N) : Prop :=
  match bound with Some m => Forall (fun x => x <= m) xs | None => xs = [] end.

Fixpoint somes (l : list (option N)) : list N :=
  match l with [] => [] | Some x :: r => x :: somes r | None :: r => somes r end.

Lemma apply_exact prof p ch i o ic oc :
  exists p', gen_RoutedPayment_apply prof p ch i o ic oc = Val p' /\
    RoutedPayment_incoming_cltv_min p' =
      match ic with
      | None => RoutedPayment_incoming_cltv_min p
      | Some a => Some (match RoutedPayment_incoming_cltv_min p with Some e => N.min e a | None => a end)
      end /\
    RoutedPayment_outgoing_cltv_max p' =
      match oc with
      | None => RoutedPayment_outgoing_cltv_max p
      | Some a => Some (match RoutedPayment_outgoing_cltv_max p with Some e => N.max e a | None => a end)
      end.
Proof.
  unfold gen_RoutedPayment_apply. cbv beta zeta.
  destruct ic as [a|], oc as [b|]; cbn [bindT]; eexists; (split; [reflexivity|]); cbn; split; reflexivity.
Qed.

(** a fresh record (RoutedPayment::new: no bounds) after ANY sequence of bookings: it never panics,
    incoming_cltv_min is a lower bound of every incoming expiry booked and is one of them,
    outgoing_cltv_max an upper bound of every outgoing expiry booked and one of them *)
Theorem book_bounds_are_extrema prof :
  forall (l : list booking) (p : RoutedPayment) (seen_in seen_out : list N),
    opt_all_ge (RoutedPayment_incoming_cltv_min p) seen_in ->
    opt_all_le (RoutedPayment_outgoing_cltv_max p) seen_out ->
    (forall m, RoutedPayment_incoming_cltv_min p = Some m -> In m seen_in) ->
    (forall m, RoutedPayment_outgoing_cltv_max p = Some m -> In m seen_out) ->
    exists p', book prof p l = Val p' /\
      let all_in := seen_in ++ somes (map b_ic l) in
      let all_out := seen_out ++ somes (map b_oc l) in
      opt_all_ge (RoutedPayment_incoming_cltv_min p') all_in /\
      opt_all_le (RoutedPayment_outgoing_cltv_max p') all_out /\
      (forall m, RoutedPayment_incoming_cltv_min p' = Some m -> In m all_in) /\
      (forall m, RoutedPayment_outgoing_cltv_max p' = Some m -> In m all_out).
Proof.
  induction l as [|b r IH]; intros p si so Hi Ho Mi Mo.
  - exists p. cbn [book map somes]. rewrite !app_nil_r. repeat split; assumption.
  - cbn [book].
    destruct (apply_exact prof p (b_ch b) (b_in b) (b_out b) (b_ic b) (b_oc b)) as [p1 [He [H1 H2]]].
    rewrite He. cbn [bindT].
    set (si1 := si ++ somes [b_ic b]). set (so1 := so ++ somes [b_oc b]).
    assert (A1 : opt_all_ge (RoutedPayment_incoming_cltv_min p1) si1 /\
                 (forall m, RoutedPayment_incoming_cltv_min p1 = Some m -> In m si1)).
    { rewrite H1. unfold si1. destruct (b_ic b) as [a|]; cbn [somes].
      - unfold opt_all_ge in *. destruct (RoutedPayment_incoming_cltv_min p) as [e|].
        + split.
          * apply Forall_app. split.
            -- eapply Forall_impl; [|exact Hi]. cbv beta. intros x Hx. lia.
            -- constructor; [lia|constructor].
          * intros m Hm. injection Hm as <-. apply in_or_app.
            destruct (N.min_spec e a) as [[_ ->]|[_ ->]]; [left; apply Mi; reflexivity | right; left; reflexivity].
        + subst si. split.
          * constructor; [lia|constructor].
          * intros m Hm. injection Hm as <-. left. reflexivity.
      - rewrite app_nil_r. split; assumption. }
    assert (A2 : opt_all_le (RoutedPayment_outgoing_cltv_max p1) so1 /\
                 (forall m, RoutedPayment_outgoing_cltv_max p1 = Some m -> In m so1)).
    { rewrite H2. unfold so1. destruct (b_oc b) as [a|]; cbn [somes].
      - unfold opt_all_le in *. destruct (RoutedPayment_outgoing_cltv_max p) as [e|].
        + split.
          * apply Forall_app. split.
            -- eapply Forall_impl; [|exact Ho]. cbv beta. intros x Hx. lia.
            -- constructor; [lia|constructor].
          * intros m Hm. injection Hm as <-. apply in_or_app.
            destruct (N.max_spec e a) as [[_ ->]|[_ ->]]; [right; left; reflexivity | left; apply Mo; reflexivity].
        + subst so. split.
          * constructor; [lia|constructor].
          * intros m Hm. injection Hm as <-. left. reflexivity.
      - rewrite app_nil_r. split; assumption. }
    destruct A1 as [A1 B1]. destruct A2 as [A2 B2].
    destruct (IH p1 si1 so1 A1 A2 B1 B2) as [p' [Hb Hrest]].
    exists p'. split; [exact Hb|].
    cbn [map somes]. unfold si1, so1 in Hrest. rewrite <- !app_assoc in Hrest.
    assert (E1 : forall (x : option N) t, somes [x] ++ somes t = somes (x :: t)).
    { intros [x|] t; reflexivity. }
    rewrite !E1 in Hrest. exact Hrest.
Qed.

(** * Non-vacuity: the whole translated validate_payments on concrete states
    A forwarded payment (hash 7: 100 sat in on channel 0, 90 sat out on channel 1) whose record carries
    both bounds; policy.cltv_delta = 34.  With bounds (1050, 1000) the source accepts - the premise of
    [validate_payments_ok_cltv] is met by a state with a record that has both bounds; with (1030, 1000)
    it answers policy-routing-cltv-delta although the amounts balance. *)
Definition ex_policy : CP.SimplePolicy :=
  CP.mk_SimplePolicy 144 2016 1000000000 10000 1000 16777216 false 253 333333 false 10000 10 34 None 0 0 100 100 0.
Definition ex_state (i o : N) : NodeState :=
  mk_NodeState [] [] [(7, mk_RoutedPayment [(0, 100)] [(1, 90)] (Some i) (Some o) None)] 0 ""%string 0 0 ""%string 0 [].

Example validate_payments_accepts_with_bounds :
  gen_NodeState_validate_payments Debug (fun _ => false) ex_policy (fun l => l) (ex_state 1050 1000) 0
    [(7, 100)] [] (mk_BalanceDelta 0 0) 0 = Val (OkR tt)
  /\ gen_NodeState_validate_payments Release (fun _ => false) ex_policy (fun l => l) (ex_state 1050 1000) 0
    [(7, 100)] [] (mk_BalanceDelta 0 0) 0 = Val (OkR tt).
Proof. split; vm_compute; reflexivity. Qed.

Example validate_payments_refuses_small_margin :
  gen_NodeState_validate_payments Debug (fun _ => false) ex_policy (fun l => l) (ex_state 1030 1000) 0
    [(7, 100)] [] (mk_BalanceDelta 0 0) 0 = Val (ErrR cltv_tag)
  /\ gen_NodeState_validate_payments Release (fun _ => false) ex_policy (fun l => l) (ex_state 1000 1000) 0
    [(7, 100)] [] (mk_BalanceDelta 0 0) 0 = Val (ErrR cltv_tag).
Proof. split; vm_compute; reflexivity. Qed.
