(** C19 — proofs about the hand-written wire model: blob codecs under [blob_laws], the
    StreamedPSBT post-processing, and the generic registry round trip. *)
From VLS Require Import Base.Codec Base.Tlv Model.Wire.
From Coq Require Import List Arith NArith Lia Bool.
Import ListNotations.
Open Scope N_scope.

(** ** blob codecs *)
Section BlobProofs.
  Variable B : blob_ops.
  Hypothesis HB : blob_laws B.

  Lemma rt_ws_tx : roundtrip (enc_ws_tx B) (dec_ws_tx B) (wf_ws_tx B).
  Proof. apply rt_withsize. intros t _. apply (tx_rt B HB). Qed.

  Lemma rt_ws_psbt : roundtrip (enc_ws_psbt B) (dec_ws_psbt B) (wf_ws_psbt B).
  Proof. apply rt_withsize. intros p _. apply (psbt_rt B HB). Qed.

  Lemma post_inputs_consistent ts : forall ins,
    length ts = length ins ->
    forallb (fun b => b) (map2 input_consistent ts ins) = true ->
    exists r, post_inputs ts ins = Some r.
  Proof.
    induction ts as [|t ts IH]; intros [|i ins] Hl Hc; try discriminate.
    - eexists. reflexivity.
    - cbn [map2 forallb] in Hc. apply andb_true_iff in Hc. destruct Hc as [Hi Hc].
      cbn [length] in Hl. injection Hl as Hl. destruct (IH ins Hl Hc) as [[l fl] Hr].
      cbn [post_inputs]. rewrite Hr.
      assert (exists r, post_input t i = Some r) as [[i' f] Hp].
      { unfold post_input, input_consistent in *. destruct (i_nwu i) as [ptx|]; [|rewrite Hi; eexists; reflexivity].
        apply andb_true_iff in Hi. destruct Hi as [Hid Ho]. rewrite Hid. cbn [negb].
        destruct (nth_N (pt_outs ptx) (ti_vout t)) as [o|]; [|discriminate].
        destruct (i_wu i) as [w|]; [rewrite Ho|]; eexists; reflexivity. }
      rewrite Hp. eexists. reflexivity.
  Qed.

  Lemma streamable_post p : streamable p = true -> exists r, streamed_post p = Some r.
  Proof.
    unfold streamable, streamed_post. intros H.
    apply andb_true_iff in H. destruct H as [H Hc]. apply andb_true_iff in H. destruct H as [Hok Hu].
    rewrite Hu. cbn [negb]. unfold psbt_ok in Hok. apply Nat.eqb_eq in Hok.
    destruct (post_inputs_consistent _ _ Hok Hc) as [[l fl] Hr]. rewrite Hr. eexists. reflexivity.
  Qed.

  Lemma rt_ws_streamed : roundtrip (enc_ws_streamed B) (dec_ws_streamed B) (wf_ws_streamed B).
  Proof.
    apply rt_withsize. intros p Hp. unfold parse_streamed.
    rewrite (psbt_rt B HB p). cbn [bind].
    destruct (streamable_post _ Hp) as [r Hr]. rewrite Hr. reflexivity.
  Qed.

  Lemma rt_proof : roundtrip (enc_proof B) (dec_proof B) (wf_proof B).
  Proof. intros p rest _. apply (proof_rt B HB). Qed.
End BlobProofs.

Lemma rt_OutPoint : roundtrip enc_OutPoint dec_OutPoint wf_OutPoint.
Proof.
  intros [t v] rest Hw. unfold wf_OutPoint in Hw. cbn [op_txid op_vout] in Hw.
  apply andb_true_iff in Hw. destruct Hw as [Ht Hv].
  unfold enc_OutPoint, dec_OutPoint. cbn [op_txid op_vout]. rewrite <- app_assoc.
  rewrite (rt_fixed 32 t _ Ht). cbn [bind]. rewrite (rt_u32le v rest Hv). reflexivity.
Qed.

Lemma ms_OutPoint : min_size enc_OutPoint wf_OutPoint 36.
Proof.
  intros [t v] Hw. unfold wf_OutPoint in Hw. cbn [op_txid op_vout] in Hw.
  apply andb_true_iff in Hw. destruct Hw as [Ht _].
  unfold enc_OutPoint. cbn [op_txid op_vout]. rewrite lenN_app.
  pose proof (ms_fixed 32 t Ht). unfold enc_u32le. rewrite lenN_le. lia.
Qed.

(** blob fields: the size bound of the message bounds the blob *)
Section BlobSizes.
  Variable B : blob_ops.
  Variable bound : N.
  Hypothesis Hb : (bound <=? MAX_VEC_SIZE) = true.
  Definition ty_any {A} (_ : A) : bool := true.
  Definition ty_streamed (x : PsbtT B) : bool := streamable (psbt_view B x).
  Lemma sw_ws_tx : size_wf (enc_ws_tx B) ty_any (wf_ws_tx B) bound.
  Proof. apply sw_withsize; [apply sw_same|exact Hb]. Qed.
  Lemma sw_ws_psbt : size_wf (enc_ws_psbt B) ty_any (wf_ws_psbt B) bound.
  Proof. apply sw_withsize; [apply sw_same|exact Hb]. Qed.
  Lemma sw_ws_streamed : size_wf (enc_ws_streamed B) ty_streamed (wf_ws_streamed B) bound.
  Proof. apply sw_withsize; [apply sw_same|exact Hb]. Qed.
End BlobSizes.

(** ** StreamedPSBT: what the decoder hands to the signer *)

Lemma post_input_spec t i i' f :
  post_input t i = Some (i', f) ->
  i_nwu i' = None /\ i_wu i' = ref_prevout t i /\ f = ref_flag t i.
Proof.
  unfold post_input, ref_prevout, ref_flag. destruct (i_nwu i) as [ptx|] eqn:En.
  - destruct (negb (bytes_eqb (pt_txid ptx) (ti_txid t))); [discriminate|].
    destruct (nth_N (pt_outs ptx) (ti_vout t)) as [o|]; [|discriminate].
    destruct (i_wu i) as [w|] eqn:Ew.
    + destruct (txout_eqb w o) eqn:Eq; [|discriminate]. intros H. injection H as <- <-.
      cbn [i_nwu i_wu]. repeat split.
      unfold txout_eqb in Eq. apply andb_true_iff in Eq. destruct Eq as [Ev Es].
      apply N.eqb_eq in Ev. apply bytes_eqb_eq in Es. destruct w, o. cbn in *. subst. reflexivity.
    + intros H. injection H as <- <-. cbn [i_nwu i_wu]. repeat split.
  - destruct (bare_claim_ok i); [|discriminate].
    intros H. injection H as <- <-. rewrite En. repeat split.
Qed.

Lemma post_inputs_spec ts : forall ins l fl,
  post_inputs ts ins = Some (l, fl) ->
  map i_nwu l = map (fun _ => None) ins /\
  map i_wu l = map2 ref_prevout ts ins /\ fl = map2 ref_flag ts ins /\ length ts = length ins.
Proof.
  induction ts as [|t ts IH]; intros [|i ins] l fl H; cbn [post_inputs] in H; try discriminate.
  - injection H as <- <-. repeat split.
  - destruct (post_input t i) as [[i' f]|] eqn:Ep; [|discriminate].
    destruct (post_inputs ts ins) as [[l' fl']|] eqn:Er; [|discriminate].
    injection H as <- <-. destruct (IH _ _ _ Er) as (A & Bq & C & D).
    destruct (post_input_spec _ _ _ _ Ep) as (A' & B' & C').
    cbn [map map2 length]. rewrite A, Bq, A', B', <- C, <- C', D. repeat split.
Qed.

(** whenever the streamed decoder accepts, the transaction is the encoded one, every input's
    previous output is the one the encoded PSBT designates, the flags are the reference
    flags, and no previous transaction is retained *)
Theorem streamed_post_sound p p' flags :
  streamed_post p = Some (p', flags) ->
  p_tx p' = p_tx p /\ p_txins p' = p_txins p /\
  map i_wu (p_inputs p') = map2 ref_prevout (p_txins p) (p_inputs p) /\
  flags = map2 ref_flag (p_txins p) (p_inputs p) /\
  map i_nwu (p_inputs p') = map (fun _ => None) (p_inputs p) /\
  length flags = length (p_inputs p).
Proof.
  unfold streamed_post. destruct (negb (unsigned_tx_ok p)); [discriminate|].
  destruct (post_inputs (p_txins p) (p_inputs p)) as [[l fl]|] eqn:E; [|discriminate].
  intros H. injection H as <- <-. cbn [p_tx p_txins p_inputs].
  destruct (post_inputs_spec _ _ _ _ E) as (A & Bq & C & D). repeat split; try assumption.
  rewrite C. clear -D. revert D. generalize (p_inputs p). induction (p_txins p) as [|t ts IH]; intros [|i ins] D;
    try discriminate; [reflexivity|]. cbn [map2 length]. f_equal. apply IH. cbn [length] in D. lia.
Qed.

(** the decoder accepts exactly the consistent PSBTs *)
Lemma post_inputs_complete ts : forall ins r,
  post_inputs ts ins = Some r ->
  length ts = length ins /\ forallb (fun b => b) (map2 input_consistent ts ins) = true.
Proof.
  induction ts as [|t ts IH]; intros [|i ins] r H; cbn [post_inputs] in H; try discriminate.
  - split; reflexivity.
  - destruct (post_input t i) as [[i' f]|] eqn:Ep; [|discriminate].
    destruct (post_inputs ts ins) as [[l' fl']|] eqn:Er; [|discriminate].
    destruct (IH _ _ Er) as [Hl Hc]. split; [cbn [length]; lia|].
    cbn [map2 forallb]. rewrite Hc, andb_true_r.
    unfold post_input in Ep. unfold input_consistent. destruct (i_nwu i) as [ptx|];
      [|destruct (bare_claim_ok i); [reflexivity|discriminate]].
    destruct (bytes_eqb (pt_txid ptx) (ti_txid t)); [|discriminate]. cbn [negb andb] in *.
    destruct (nth_N (pt_outs ptx) (ti_vout t)) as [o|]; [|discriminate].
    destruct (i_wu i) as [w|]; [|reflexivity]. destruct (txout_eqb w o); [reflexivity|discriminate].
Qed.

(** every bare claim the decoder lets through is about a witness-program or p2sh output *)
Lemma consistent_bare_ok ts : forall ins,
  forallb (fun b => b) (map2 input_consistent ts ins) = true -> length ts = length ins ->
  forallb bare_claim_ok ins = true.
Proof.
  induction ts as [|t ts IH]; intros [|i ins] Hc Hl; try discriminate; [reflexivity|].
  cbn [map2 forallb] in *. apply andb_true_iff in Hc. destruct Hc as [Hi Hc].
  rewrite (IH ins Hc) by (cbn [length] in Hl; lia). rewrite andb_true_r.
  unfold input_consistent in Hi. unfold bare_claim_ok in *. destruct (i_nwu i); [reflexivity|exact Hi].
Qed.

Theorem streamed_post_bare_claims p r :
  streamed_post p = Some r -> forallb bare_claim_ok (p_inputs p) = true.
Proof.
  unfold streamed_post. destruct (negb (unsigned_tx_ok p)); [discriminate|].
  destruct (post_inputs (p_txins p) (p_inputs p)) as [r'|] eqn:E; [|discriminate]. intros _.
  destruct (post_inputs_complete _ _ _ E) as [Hl Hc]. apply (consistent_bare_ok _ _ Hc Hl).
Qed.

Theorem streamed_post_accepts_iff p :
  (exists r, streamed_post p = Some r) <-> streamable p = true.
Proof.
  split.
  - intros [r H]. unfold streamed_post in H. unfold streamable.
    destruct (unsigned_tx_ok p); [|discriminate]. cbn [negb] in H.
    destruct (post_inputs (p_txins p) (p_inputs p)) as [r'|] eqn:E; [|discriminate].
    destruct (post_inputs_complete _ _ _ E) as [Hl Hc]. unfold psbt_ok.
    rewrite Hc. apply Nat.eqb_eq in Hl. rewrite Hl. reflexivity.
  - unfold streamable, streamed_post. intros H.
    apply andb_true_iff in H. destruct H as [H Hc]. apply andb_true_iff in H. destruct H as [Hok Hu].
    rewrite Hu. cbn [negb]. unfold psbt_ok in Hok. apply Nat.eqb_eq in Hok.
    destruct (post_inputs_consistent _ _ Hok Hc) as [[l fl] Hr]. rewrite Hr. eexists. reflexivity.
Qed.

(** ** registry *)

Lemma nodupb_NoDup l : nodupb l = true -> NoDup l.
Proof.
  induction l as [|x l IH]; intros H; [constructor|].
  cbn [nodupb] in H. apply andb_true_iff in H. destruct H as [Hx Hl]. constructor; [|auto].
  intros Hin. apply negb_true_iff in Hx.
  assert (existsb (N.eqb x) l = true) as E.
  { apply existsb_exists. exists x. split; [exact Hin|apply N.eqb_refl]. }
  congruence.
Qed.

Lemma lookup_nodup {M} (table : list (entry M)) :
  NoDup (map e_id table) -> forall e, In e table -> lookup table (e_id e) = Some e.
Proof.
  induction table as [|a t IH]; intros Hnd e Hin; [destruct Hin|].
  cbn [map] in Hnd. inversion Hnd as [|? ? Hnot Hnd']; subst. cbn [lookup].
  destruct Hin as [->|Hin]; [rewrite N.eqb_refl; reflexivity|].
  destruct (N.eqb_spec (e_id a) (e_id e)) as [E|_]; [|apply IH; assumption].
  exfalso. apply Hnot. rewrite E. apply in_map. exact Hin.
Qed.

(** The registry round trip: if no two arms of the dispatch share a type id and every message
    has an arm under its own id whose decoder inverts the message's encoder (consuming it all), then
    [from_vec (as_vec m)] is [m], for every well-formed message within the size limit. *)
Theorem registry_roundtrip {M} (maxsz : N) (table : list (entry M)) (id_of : M -> N)
        (enc : M -> bytes) (wf : M -> bool) :
  NoDup (map e_id table) ->
  (forall m, wf m = true ->
     fits 2 (id_of m) = true /\
     exists e, In e table /\ e_id e = id_of m /\ e_dec e (enc m) = Some (m, [])) ->
  forall m, wf m = true ->
    lenN (as_vec_of id_of enc m) <= maxsz ->
    from_vec maxsz table (as_vec_of id_of enc m) = Some (Known m).
Proof.
  intros Hnd Hall m Hw Hsz. destruct (Hall m Hw) as (Hid & e & Hin & He & Hdec).
  unfold from_vec. unfold as_vec_of in *.
  assert (Hlen : 2 <= lenN (enc_u16 (id_of m) ++ enc m)).
  { unfold lenN. rewrite app_length. unfold enc_u16. rewrite be_enc_length. lia. }
  destruct (N.ltb_spec (lenN (enc_u16 (id_of m) ++ enc m)) 2) as [C|_]; [lia|].
  destruct (N.ltb_spec maxsz (lenN (enc_u16 (id_of m) ++ enc m))) as [C|_]; [lia|].
  rewrite rt_u16 by exact Hid. cbn [bind]. rewrite <- He, (lookup_nodup table Hnd e Hin).
  rewrite Hdec. reflexivity.
Qed.

(** ** framing *)
Lemma frame_roundtrip p rest : lenN p < 4294967296 -> unframe (frame p ++ rest) = Some (p, rest).
Proof.
  intros H. unfold unframe, frame. rewrite <- app_assoc.
  rewrite rt_u32 by (apply N.ltb_lt; exact H). cbn [bind]. apply take_app. unfold lenN. lia.
Qed.

Lemma from_vec_size {M} maxsz (table : list (entry M)) p m :
  from_vec maxsz table p = Some m -> 2 <= lenN p /\ lenN p <= maxsz.
Proof.
  unfold from_vec. destruct (N.ltb_spec (lenN p) 2); [discriminate|].
  destruct (N.ltb_spec maxsz (lenN p)); [discriminate|]. intros _. lia.
Qed.

(** whatever from_vec makes of a payload, read makes of its frame, leaving the rest *)
Theorem read_frame {M} maxsz (table : list (entry M)) p m rest :
  maxsz < 4294967296 -> from_vec maxsz table p = Some m ->
  read maxsz table (frame p ++ rest) = Some (m, rest).
Proof.
  intros Hm H. destruct (from_vec_size _ _ _ _ H) as [H2 Hs]. unfold read, frame.
  rewrite <- app_assoc. rewrite rt_u32 by (apply N.ltb_lt; lia). cbn [bind].
  destruct (N.ltb_spec (lenN p) 2); [lia|]. destruct (N.ltb_spec maxsz (lenN p)); [lia|].
  rewrite take_app by (unfold lenN; lia). cbn [bind]. rewrite H. reflexivity.
Qed.

Theorem read_stream_frames {M} maxsz (table : list (entry M)) (enc : M -> bytes) :
  maxsz < 4294967296 ->
  forall ms rest, (forall m, In m ms -> from_vec maxsz table (enc m) = Some (Known m)) ->
    read_stream maxsz table (length ms) (concat (map (fun m => frame (enc m)) ms) ++ rest)
    = Some (map Known ms, rest).
Proof.
  intros Hm. induction ms as [|m ms IH]; intros rest H; [reflexivity|].
  cbn [map concat length read_stream]. rewrite <- app_assoc.
  rewrite (read_frame maxsz table (enc m) (Known m) _ Hm (H m (or_introl eq_refl))).
  rewrite IH by (intros m' Hin; apply H; right; exact Hin). reflexivity.
Qed.

Theorem read_typed_frame {A} maxsz id (enc : A -> bytes) (dec : dec_t A) x rest :
  maxsz < 4294967296 -> dec (enc x) = Some (x, []) -> fits 2 id = true ->
  lenN (enc_u16 id ++ enc x) <= maxsz ->
  read_typed maxsz id dec (frame (enc_u16 id ++ enc x) ++ rest) = Some (x, rest).
Proof.
  intros Hm Hrt Hid Hs. unfold read_typed, frame. rewrite <- app_assoc.
  assert (H2 : 2 <= lenN (enc_u16 id ++ enc x)).
  { rewrite lenN_app. unfold enc_u16. rewrite lenN_be. lia. }
  rewrite rt_u32 by (apply N.ltb_lt; lia). cbn [bind].
  destruct (N.ltb_spec (lenN (enc_u16 id ++ enc x)) 2); [lia|].
  destruct (N.ltb_spec maxsz (lenN (enc_u16 id ++ enc x))); [lia|].
  rewrite take_app by (unfold lenN; lia). cbn [bind].
  rewrite rt_u16 by exact Hid. cbn [bind]. rewrite N.eqb_refl.
  rewrite Hrt. reflexivity.
Qed.

(** The converse direction of the obligation, as a general fact: a message whose type id also
    labels an earlier arm is handed to that arm's decoder. *)
Lemma lookup_first {M} (a : entry M) t ty : e_id a = ty -> lookup (a :: t) ty = Some a.
Proof. intros <-. cbn [lookup]. rewrite N.eqb_refl. reflexivity. Qed.

(** what the dispatch does when an earlier arm carries the same id: the later arm's decoder is
    never consulted, whatever the payload *)
Lemma lookup_skip {M} (pre : list (entry M)) a post ty :
  ~ In ty (map e_id pre) -> e_id a = ty -> lookup (pre ++ a :: post) ty = Some a.
Proof.
  induction pre as [|x pre IH]; intros Hn Ha; [apply lookup_first; exact Ha|].
  cbn [app lookup]. cbn [map In] in Hn.
  destruct (N.eqb_spec (e_id x) ty) as [E|_]; [exfalso; apply Hn; left; exact E|].
  apply IH; [|exact Ha]. intros H. apply Hn. right. exact H.
Qed.

Theorem duplicate_id_misroutes {M} (maxsz : N) (pre post : list (entry M)) (a : entry M) payload :
  ~ In (e_id a) (map e_id pre) -> fits 2 (e_id a) = true ->
  lenN (enc_u16 (e_id a) ++ payload) <= maxsz ->
  from_vec maxsz (pre ++ a :: post) (enc_u16 (e_id a) ++ payload) =
  match e_dec a payload with Some (m, []) => Some (Known m) | _ => None end.
Proof.
  intros Hn Hid Hsz. unfold from_vec.
  assert (Hlen : 2 <= lenN (enc_u16 (e_id a) ++ payload)).
  { unfold lenN. rewrite app_length. unfold enc_u16. rewrite be_enc_length. lia. }
  destruct (N.ltb_spec (lenN (enc_u16 (e_id a) ++ payload)) 2) as [C|_]; [lia|].
  destruct (N.ltb_spec maxsz (lenN (enc_u16 (e_id a) ++ payload))) as [C|_]; [lia|].
  rewrite rt_u16 by exact Hid. cbn [bind]. rewrite (lookup_skip pre a post _ Hn eq_refl). reflexivity.
Qed.

(** ** the blob laws are satisfiable (used by the non-vacuity examples) *)
Definition B1 : blob_ops := {|
  TxT := bytes; tx_ser := fun b => b; tx_parse := fun w => Some w;
  PsbtT := bytes; psbt_view := fun _ => {| p_tx := []; p_txins := []; p_inputs := [] |};
  psbt_ser := fun b => b; psbt_parse := fun w => Some w;
  ProofT := unit; proof_ser := fun _ => []; proof_dec := fun bs => Some (tt, bs);
|}.
Lemma B1_laws : blob_laws B1.
Proof. constructor; cbn; try reflexivity. intros [] rest. reflexivity. Qed.

(** ** tactics for the generated per-struct lemmas *)

(** one field: split the struct's [wf] conjunction, rewrite with the field's round trip *)
Ltac rt_one RT :=
  match goal with
  | Hw : (_ && _) = true |- _ =>
      let H := fresh "Hf" in
      apply andb_true_iff in Hw; destruct Hw as [H Hw];
      rewrite (RT _ _ H); cbn [bind]
  end.
(** the last field when it is a TLV option stream (consumes the reader to the end) *)
Ltac rt_last RTE :=
  match goal with
  | Hw : (_ && _) = true |- _ =>
      let H := fresh "Hf" in
      apply andb_true_iff in Hw; destruct Hw as [H Hw];
      rewrite (RTE _ H); cbn [bind]
  end.
Ltac rt_begin := rewrite <- ?app_assoc.
Ltac rt_end := reflexivity.
