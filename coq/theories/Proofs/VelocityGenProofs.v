(** The hand-written model of VelocityControl (Model/Velocity.v) is what the translated source
    (Gen/VelocityGen.v, regenerated from vls-core/src/util/velocity.rs on every run) computes. *)
From VLS Require Import Base.Rust Model.Velocity Gen.VelocityGen.
Require Import Lia.

Definition to_rvc (c : vc) : rvc := mk_rvc (start c) (interval c) (buckets c) (limit c).

Lemma gen_velocity_sum prof r : gen_velocity prof r = Val (sat_sum (rvc_buckets r)).
Proof.
  unfold gen_velocity, sat_sum.
  rewrite (fold_p_ext _ (fun s x => sat_add s x)) by reflexivity. reflexivity.
Qed.

Theorem gen_velocity_is_model prof c : gen_velocity prof (to_rvc c) = Val (velocity c).
Proof. rewrite gen_velocity_sum. reflexivity. Qed.

Lemma vec_insert0 v : vec_insert v 0 0 = Val (0 :: v).
Proof.
  unfold vec_insert. destruct (vec_len v <? 0) eqn:E; [lia|]. reflexivity.
Qed.

Lemma vec_resize_shrink (v : list N) n :
  (n <= length v)%nat -> vec_resize v (N.of_nat n) 0 = firstn n v.
Proof.
  intros H. unfold vec_resize. rewrite Nat2N.id. replace (n - length v)%nat with 0%nat by lia.
  cbn [repeat]. apply app_nil_r.
Qed.

Lemma repeat_app_cons n (l : list N) : repeat 0 n ++ 0 :: l = 0 :: repeat 0 n ++ l.
Proof. induction n as [|n IH]; cbn [repeat app]; [reflexivity | rewrite IH; reflexivity]. Qed.

Lemma iter_cons0 n : forall (r : rvc),
  iter_l n (fun s => mk_rvc (rvc_start_sec s) (rvc_bucket_interval s) (0 :: rvc_buckets s) (rvc_limit s)) r =
  mk_rvc (rvc_start_sec r) (rvc_bucket_interval r) (repeat 0 n ++ rvc_buckets r) (rvc_limit r).
Proof.
  induction n as [|n IH]; intros r; cbn [iter_l repeat app]; [destruct r; reflexivity|].
  rewrite IH. cbn [rvc_start_sec rvc_bucket_interval rvc_buckets rvc_limit].
  rewrite repeat_app_cons. reflexivity.
Qed.

(** a subtraction that does not underflow is plain subtraction in both build profiles *)
Lemma sub_p_ok prof a b : b <= a -> a <= U64MAX -> sub_p prof a b = Val (a - b).
Proof.
  intros H Ha. destruct prof; cbn [sub_p].
  - destruct (b <=? a) eqn:E; [reflexivity | lia].
  - unfold sub_wrap. f_equal. unfold two64, U64MAX in *.
    replace (a + 18446744073709551616 - b) with ((a - b) + 1 * 18446744073709551616) by lia.
    rewrite N.mod_add by lia. apply N.mod_small. lia.
Qed.

Theorem gen_insert_is_model prof c now amt :
  start c <= now -> now <= U64MAX -> 0 < interval c -> buckets c <> [] ->
  vec_len (buckets c) <= U64MAX ->
  gen_insert prof (to_rvc c) now amt =
  Val (to_rvc (fst (insert c now amt)), snd (insert c now amt)).
Proof.
  intros Hs Hn Hi Hb Hl. unfold gen_insert. cbn [to_rvc rvc_start_sec rvc_bucket_interval rvc_buckets rvc_limit].
  rewrite (sub_p_ok prof now (start c)) by assumption. cbn [bindT].
  unfold div_p. destruct (interval c =? 0) eqn:Ei; [lia|]. cbn [bindT].
  set (len := vec_len (buckets c)) in *.
  set (ns := N.min len ((now - start c) / interval c)).
  assert (Hns : ns <= len) by (unfold ns; lia).
  rewrite (sub_p_ok prof len ns) by assumption. cbn [bindT].
  rewrite (iter_p_ext _ (fun s => mk_rvc (rvc_start_sec s) (rvc_bucket_interval s) (0 :: rvc_buckets s) (rvc_limit s)))
    by (intros s; rewrite vec_insert0; reflexivity).
  rewrite iter_cons0. cbn [bindT rvc_start_sec rvc_bucket_interval rvc_buckets rvc_limit].
  unfold rem_p. rewrite Ei. cbn [bindT].
  assert (Hm : now mod interval c <= now) by (apply N.mod_le; lia).
  rewrite (sub_p_ok prof now (now mod interval c)) by assumption. cbn [bindT].
  rewrite gen_velocity_sum. cbn [bindT rvc_buckets rvc_limit].
  (* the buckets after the shift are the model's *)
  assert (Hb2 : repeat 0 (N.to_nat ns) ++ vec_resize (buckets c) (len - ns) 0 =
                shift_buckets (nshift_of c now) (buckets c)).
  { unfold shift_buckets, nshift_of. fold len. fold ns.
    replace (len - ns) with (N.of_nat (length (buckets c) - N.to_nat ns)) by (unfold len, vec_len in *; lia).
    rewrite vec_resize_shrink by lia. reflexivity. }
  rewrite Hb2.
  unfold insert, advance, velocity. cbn [limit buckets start interval].
  set (bs := shift_buckets (nshift_of c now) (buckets c)).
  destruct (limit c <? sat_add (sat_sum bs) amt) eqn:El; cbn [fst snd to_rvc start interval buckets limit].
  - reflexivity.
  - assert (Hne : bs <> []).
    { unfold bs, shift_buckets. intros E. apply (f_equal (@length N)) in E.
      rewrite app_length, repeat_length, firstn_length in E. cbn [length] in E.
      destruct (buckets c) as [|b t]; [contradiction|]. cbn [length] in E.
      unfold nshift_of in E. cbn [buckets length] in E. lia. }
    destruct bs as [|b t]; [contradiction|].
    unfold vec_get. cbn [N.to_nat nth_error bindT].
    unfold vec_set. destruct (0 <? vec_len (b :: t)) eqn:E0; [|unfold vec_len in E0; cbn [length] in E0; lia].
    cbn [bindT N.to_nat firstn skipn app add_bucket0]. reflexivity.
Qed.

(** * along every history of the node *)

(** the side conditions of [gen_insert_is_model] that do not depend on the time *)
Definition vc_wf (c : vc) : Prop :=
  0 < interval c /\ buckets c <> [] /\ vec_len (buckets c) <= U64MAX.

Lemma fresh_wf l i n : 0 < i -> (0 < n)%nat -> (n <= 1000)%nat -> vc_wf (fresh l i n).
Proof.
  intros Hi Hn Hk. unfold vc_wf, fresh. cbn [interval buckets]. split; [exact Hi|]. split.
  - destruct n; [lia|]. cbn [repeat]. discriminate.
  - unfold vec_len. rewrite repeat_length. unfold U64MAX. lia.
Qed.

Lemma of_spec_wf it lim : vc_wf (of_spec it lim).
Proof. unfold of_spec. destruct it; cbn [spec_triple]; apply fresh_wf; lia. Qed.

Lemma shift_length n bs : (n <= length bs)%nat -> length (shift_buckets n bs) = length bs.
Proof. intros H. unfold shift_buckets. rewrite app_length, repeat_length, firstn_length. lia. Qed.

Lemma nshift_le c now : (nshift_of c now <= length (buckets c))%nat.
Proof. unfold nshift_of. lia. Qed.

Lemma insert_wf c now amt : vc_wf c -> vc_wf (fst (insert c now amt)).
Proof.
  intros [Hi [Hb Hl]]. unfold insert, advance.
  pose proof (shift_length (nshift_of c now) (buckets c) (nshift_le c now)) as HL.
  set (bs := shift_buckets (nshift_of c now) (buckets c)) in *.
  assert (Hbs : bs <> []) by (intros E; rewrite E in HL; destruct (buckets c); [contradiction | discriminate]).
  cbn [limit buckets start interval].
  destruct (limit c <? sat_add (velocity (mkvc (now - now mod interval c) (interval c) bs (limit c))) amt);
    cbn [fst]; unfold vc_wf; cbn [interval buckets].
  - repeat split; try assumption. unfold vec_len in *. rewrite HL. exact Hl.
  - repeat split; try assumption.
    + destruct bs; [contradiction|]. cbn [add_bucket0]. discriminate.
    + destruct bs as [|b t]; [contradiction|]. cbn [add_bucket0]. unfold vec_len in *. cbn [length] in *. rewrite <- HL in Hl. exact Hl.
Qed.

Lemma insert_start c now amt : 0 < interval c -> start (fst (insert c now amt)) <= now.
Proof.
  intros Hi. unfold insert, advance. cbn [limit buckets start interval].
  match goal with |- context [if ?b then _ else _] => destruct b end; cbn [fst start]; lia.
Qed.

Lemma update_spec_wf c it lim : vc_wf c -> vc_wf (update_spec c it lim).
Proof. intros H. unfold update_spec. destruct (spec_matches c it lim); [exact H | apply of_spec_wf]. Qed.

Lemma update_spec_start c it lim t : start c <= t -> start (update_spec c it lim) <= t.
Proof.
  intros H. unfold update_spec. destruct (spec_matches c it lim); [exact H|].
  unfold of_spec. destruct it; cbn [spec_triple fresh start]; lia.
Qed.

Definition node_ok (s : nodevc) (t : N) : Prop :=
  vc_wf (mem s) /\ vc_wf (disk s) /\ start (mem s) <= t /\ start (disk s) <= t.

Lemma vstep_ok it lim s o t :
  node_ok s t ->
  match o with Approve now _ => t <= now | _ => True end ->
  node_ok (fst (vstep it lim s o)) (match o with Approve now _ => now | _ => t end).
Proof.
  intros [Hm [Hd [Sm Sd]]] Ht. destruct o as [now amt| |]; cbn [vstep].
  - pose proof (insert_wf (mem s) now amt Hm) as Hw.
    pose proof (insert_start (mem s) now amt (proj1 Hm)) as Hs.
    destruct (insert (mem s) now amt) as [c ok]. cbn [fst] in *.
    destruct ok; cbn [fst mem disk]; unfold node_ok; cbn [mem disk]; repeat split; try assumption; try apply Hw; try apply Hd; lia.
  - cbn [fst]. unfold node_ok. cbn [mem disk]. repeat split; try apply Hm; assumption.
  - cbn [fst]. unfold node_ok, restore. cbn [mem disk].
    repeat split; try apply (update_spec_wf (disk s) it lim Hd); try apply Hd;
      try (apply update_spec_start; assumption); assumption.
Qed.

(** In every history with non-decreasing times (u64), at every approval request the translated
    source computes on the node's control exactly what the model's [insert] computes. *)
Theorem source_agrees_along_history prof it lim :
  forall ops s t log,
    node_ok s t -> nondecreasing t (op_times ops) = true ->
    Forall (fun x => x <= U64MAX) (op_times ops) ->
    forall ops1 now amt ops2, ops = ops1 ++ Approve now amt :: ops2 ->
      let c := mem (fst (vrun_from it lim s log ops1)) in
      gen_insert prof (to_rvc c) now amt = Val (to_rvc (fst (insert c now amt)), snd (insert c now amt)).
Proof.
  intros ops. induction ops as [|o ops IH]; intros s t log Hok Hnd Hu ops1 now amt ops2 E.
  - destruct ops1; discriminate.
  - destruct ops1 as [|o1 ops1]; cbn [app] in E; inversion E; subst.
    + (* the request at hand *)
      cbn [vrun_from fst]. cbn [op_times nondecreasing] in Hnd. apply andb_prop in Hnd. destruct Hnd as [H1 _].
      cbn [op_times] in Hu. apply Forall_inv in Hu.
      destruct Hok as [[Hi [Hb Hl]] [_ [Sm _]]].
      apply gen_insert_is_model; try assumption. apply N.leb_le in H1. lia.
    + (* a request before it *)
      cbn [vrun_from].
      destruct (vstep it lim s o1) as [s1 res] eqn:Es.
      assert (Hs1 : s1 = fst (vstep it lim s o1)) by (rewrite Es; reflexivity).
      destruct o1 as [n1 a1| |]; cbn [op_times nondecreasing] in Hnd, Hu.
      * apply andb_prop in Hnd. destruct Hnd as [H1 H2]. apply Forall_inv_tail in Hu.
        eapply (IH s1 n1); try eassumption; try reflexivity.
        rewrite Hs1. apply (vstep_ok it lim s (Approve n1 a1) t Hok). apply N.leb_le in H1. exact H1.
      * eapply (IH s1 t); try eassumption; try reflexivity.
        rewrite Hs1. apply (vstep_ok it lim s Persist t Hok). exact I.
      * eapply (IH s1 t); try eassumption; try reflexivity.
        rewrite Hs1. apply (vstep_ok it lim s Restart t Hok). exact I.
Qed.

Lemma vinit_ok it lim : node_ok (vinit it lim) 0.
Proof.
  unfold node_ok, vinit. cbn [mem disk]. repeat split; try apply of_spec_wf;
    unfold of_spec; destruct it; cbn [spec_triple fresh start]; lia.
Qed.
