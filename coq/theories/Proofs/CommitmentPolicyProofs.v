(** Proofs about Model/CommitmentPolicy.v: what an [Ok] of the validators implies, for every
    filter (per tag) and for the non-permissive one; filter semantics; the fee-rate estimator. *)
From VLS Require Import Base.U64 Model.CommitmentPolicy.
From Coq Require Import ZifyBool ZifyN ZifyNat.

(** * Results *)

Lemma andthen_ok a b : andthen a b = Ok <-> a = Ok /\ b = Ok.
Proof.
  destruct a; cbn [andthen]; split; intros H; try discriminate; try (destruct H; discriminate); tauto.
Qed.

Lemma perr_ok warn t : perr warn t = Ok -> warn t = true.
Proof. unfold perr. destruct (warn t); [reflexivity | discriminate]. Qed.

Lemma check_ok warn c t : check warn c t = Ok -> warn t = false -> c = false.
Proof.
  unfold check. destruct c; [|reflexivity]. intros H Hw. apply perr_ok in H. congruence.
Qed.

(** * Filter *)

Lemma filter_default t : filter_warn [] t = false.
Proof. reflexivity. Qed.

(** only an explicit, matching rule whose action is Warn downgrades a tag, and no earlier
    rule matches it *)
Lemma filter_warn_explicit rules t :
  filter_warn rules t = true ->
  exists pre r post, rules = pre ++ r :: post /\ rule_matches r t = true /\ r_warn r = true /\
                     Forall (fun q => rule_matches q t = false) pre.
Proof.
  induction rules as [|r rs IH]; cbn [filter_warn]; [discriminate|].
  destruct (rule_matches r t) eqn:Hm.
  - intros Hw. exists [], r, rs. repeat split; auto.
  - intros H. destruct (IH H) as (pre & r' & post & -> & Hm' & Hw' & Hpre).
    exists (r :: pre), r', post. repeat split; auto.
Qed.

Lemma filter_no_warn_rules rules t :
  Forall (fun r => r_warn r = false) rules -> filter_warn rules t = false.
Proof.
  induction 1 as [|r rs Hr _ IH]; cbn [filter_warn]; [reflexivity|].
  destruct (rule_matches r t); assumption.
Qed.

(** an earlier matching Error rule protects a tag from any later rule *)
Lemma filter_error_first pre r post t :
  Forall (fun q => rule_matches q t = false) pre -> rule_matches r t = true -> r_warn r = false ->
  filter_warn (pre ++ r :: post) t = false.
Proof.
  induction 1 as [|q pre Hq _ IH]; cbn [app filter_warn]; intros Hm Hw.
  - rewrite Hm. exact Hw.
  - rewrite Hq. apply IH; assumption.
Qed.

Lemma prefix_empty t : String.prefix "" t = true.
Proof. destruct t; reflexivity. Qed.

Lemma permissive_warns_everything t : warn_of permissive_rules t = true.
Proof.
  unfold warn_of, permissive_rules. cbn [filter_warn rule_matches r_prefix r_tag r_warn].
  rewrite prefix_empty. reflexivity.
Qed.

Lemma warn_of_nil t : warn_of [] t = false.
Proof. reflexivity. Qed.

(** * The fee-rate estimator *)

Lemma estimate_le_u32 fee w : estimate_feerate_per_kw fee w <= U32MAX.
Proof. unfold estimate_feerate_per_kw. lia. Qed.

Lemma div_ge_iff a b q : b <> 0 -> (q <= a / b <-> q * b <= a).
Proof.
  intros Hb. split; intros H.
  - pose proof (N.mul_div_le a b Hb). nia.
  - apply N.div_le_lower_bound; [assumption | lia].
Qed.

Lemma div_le_iff a b q : b <> 0 -> (a / b <= q <-> a < (q + 1) * b).
Proof.
  intros Hb. split; intros H.
  - pose proof (N.mod_upper_bound a b Hb). pose proof (N.div_mod a b Hb). nia.
  - assert (a / b < q + 1); [|lia]. apply N.div_lt_upper_bound; [assumption | lia].
Qed.

(** lower comparison of [validate_fee], for any configured minimum *)
Lemma estimate_ge_min fee w m : w <> 0 ->
  m <= estimate_feerate_per_kw fee w -> m * w <= fee * 1000 + 999.
Proof.
  intros Hw H. unfold estimate_feerate_per_kw in H.
  apply (div_ge_iff (fee * 1000 + 999) w m Hw). lia.
Qed.

(** upper comparison of [validate_fee]: needs a maximum below u32::MAX (u32::MAX itself means
    "no maximum": the saturated value is accepted) *)
Lemma estimate_le_max fee w m : w <> 0 -> m < U32MAX ->
  estimate_feerate_per_kw fee w <= m -> fee * 1000 + 999 < (m + 1) * w.
Proof.
  intros Hw Hm H. unfold estimate_feerate_per_kw in H.
  apply (div_le_iff (fee * 1000 + 999) w m Hw). lia.
Qed.

Lemma estimate_exact fee w : w <> 0 -> fee * 1000 + 999 < two32 * w ->
  estimate_feerate_per_kw fee w = (fee * 1000 + 999) / w.
Proof.
  intros Hw H. unfold estimate_feerate_per_kw.
  assert ((fee * 1000 + 999) / w <= U32MAX); [|lia].
  apply div_le_iff; [assumption|]. unfold U32MAX, two32 in *. lia.
Qed.

(** the old estimator agrees with the repaired one whenever nothing is lost *)
Lemma estimate_old_agrees p fee w : w <> 0 -> fee * 1000 + 999 < two32 * w ->
  fee * 1000 + 999 <= U64MAX ->
  estimate_feerate_per_kw_old p fee w = Val (estimate_feerate_per_kw fee w).
Proof.
  intros Hw H H64. rewrite estimate_exact by assumption.
  assert (Hq : (fee * 1000 + 999) / w < two32).
  { apply N.div_lt_upper_bound; [assumption | lia]. }
  unfold estimate_feerate_per_kw_old, mul_p, add_p, mul_wrap, add_wrap, as_u32.
  destruct p.
  - destruct (fee * 1000 <=? U64MAX) eqn:E1; [|unfold U64MAX in *; lia].
    destruct (fee * 1000 + 999 <=? U64MAX) eqn:E2; [|unfold U64MAX in *; lia].
    rewrite N.mod_small by assumption. reflexivity.
  - rewrite (N.mod_small (fee * 1000)) by (unfold U64MAX, two64 in *; lia).
    rewrite (N.mod_small (fee * 1000 + 999)) by (unfold U64MAX, two64 in *; lia).
    rewrite N.mod_small by assumption. reflexivity.
Qed.

Lemma bolt3_fee_le rate w fee : rate * w <= fee * 1000 + 999 -> bolt3_fee rate w <= fee.
Proof.
  intros H. unfold bolt3_fee.
  assert (rate * w / 1000 < fee + 1); [|lia].
  apply N.div_lt_upper_bound; lia.
Qed.

Lemma bolt3_fee_gt rate w fee : fee * 1000 + 999 < rate * w -> fee < bolt3_fee rate w.
Proof.
  intros H. unfold bolt3_fee.
  assert (fee + 1 <= rate * w / 1000); [|lia].
  apply N.div_le_lower_bound; lia.
Qed.

(** the two formulations of the fee window coincide *)
Lemma bolt3_window_iff lo hi w fee :
  (bolt3_fee lo w <= fee /\ fee < bolt3_fee hi w) <->
  (lo * w <= fee * 1000 + 999 /\ fee * 1000 + 999 < hi * w).
Proof.
  unfold bolt3_fee. split; intros [H1 H2]; split.
  - pose proof (N.mod_upper_bound (lo * w) 1000). pose proof (N.div_mod (lo * w) 1000). nia.
  - pose proof (N.mul_div_le (hi * w) 1000). nia.
  - apply bolt3_fee_le. assumption.
  - apply bolt3_fee_gt. assumption.
Qed.

(** * validate_expiry *)

Lemma add_p32_val prof a b v : add_p32 prof a b = Val v ->
  (prof = Debug \/ a + b <= U32MAX) -> v = a + b.
Proof.
  unfold add_p32. destruct prof.
  - destruct (a + b <=? U32MAX); intros H _; inversion H; reflexivity.
  - intros H [Hd | Hfit]; [discriminate|]. inversion H.
    apply N.mod_small. unfold U32MAX, two32 in *. lia.
Qed.

Lemma validate_expiry_ok prof warn pol cs e :
  validate_expiry prof warn pol e (current_height cs) = Ok ->
  warn T_cltv_range = false -> heights_fit prof pol cs -> expiry_ok pol cs e.
Proof.
  unfold validate_expiry, expiry_ok. intros H Hw Hfit.
  apply andthen_ok in H. destruct H as [H1 H2].
  apply check_ok in H1; [|assumption]. split; [lia|].
  intros Hu. rewrite Hu in H2.
  destruct (add_p32 prof (current_height cs) (min_delay pol)) as [lo|] eqn:Elo; [|discriminate].
  apply andthen_ok in H2. destruct H2 as [H2 H3].
  destruct (add_p32 prof (current_height cs) (max_delay pol)) as [hi|] eqn:Ehi; [|discriminate].
  apply check_ok in H2; [|assumption]. apply check_ok in H3; [|assumption].
  apply add_p32_val in Elo; [|destruct Hfit as [Hd | [Ha Hb]]; [left; exact Hd | right; exact Ha]].
  apply add_p32_val in Ehi; [|destruct Hfit as [Hd | [Ha Hb]]; [left; exact Hd | right; exact Hb]].
  lia.
Qed.

(** * The HTLC loops *)

Lemma add_checked_some a b c : add_checked a b = Some c -> c = a + b /\ a + b <= U64MAX.
Proof.
  unfold add_checked. destruct (a + b <=? U64MAX) eqn:E; intros H; inversion H. lia.
Qed.

Lemma htlc_loop_ok prof warn pol cs limit hs : forall acc acc',
  htlc_loop prof warn pol (current_height cs) limit hs acc = (Ok, acc') ->
  acc' = acc + msum hs /\
  (warn T_outputs_trimmed = false -> Forall (fun h => limit <= fst h) hs) /\
  (warn T_cltv_range = false -> heights_fit prof pol cs ->
   Forall (fun h => expiry_ok pol cs (snd h)) hs).
Proof.
  induction hs as [|[v e] r IH]; intros acc acc' H; cbn [htlc_loop] in H.
  - inversion H. unfold msum. cbn [map sum_N]. split; [lia|]. split; intros; constructor.
  - destruct (validate_expiry prof warn pol e (current_height cs)) eqn:Ee;
      try (inversion H; fail).
    destruct (add_checked acc v) as [a1|] eqn:Ea; [|inversion H].
    apply add_checked_some in Ea. destruct Ea as [-> Hle].
    destruct (check warn (v <? limit) T_outputs_trimmed) eqn:Ec; try (inversion H; fail).
    apply IH in H. destruct H as (Hs & Hd & Hx).
    unfold msum in *. cbn [map sum_N fst]. split; [lia|]. split.
    + intros Hw. constructor; [|auto]. apply check_ok in Ec; [|assumption]. cbn [fst]. lia.
    + intros Hw Hfit. constructor; [|auto]. cbn [snd].
      eapply validate_expiry_ok; eassumption.
Qed.

(** * validate_fee with the repaired estimator *)

Lemma sub_checked_some a b c : sub_checked a b = Some c -> b <= a /\ c = a - b.
Proof.
  unfold sub_checked. destruct (b <=? a) eqn:E; intros H; inversion H. lia.
Qed.

Lemma validate_fee_ok warn pol cv so w :
  validate_fee est_new warn pol cv so w = Ok ->
  so <= cv /\
  (warn T_fee_range = false ->
   bolt3_fee (min_feerate pol) w <= cv - so /\
   (max_feerate pol < U32MAX -> cv - so < bolt3_fee (max_feerate pol + 1) w)).
Proof.
  unfold validate_fee, est_new. intros H.
  destruct (sub_checked cv so) as [fee|] eqn:Ef; [|discriminate].
  apply sub_checked_some in Ef. destruct Ef as [Hle ->]. split; [assumption|].
  destruct (w =? 0) eqn:Ew; [discriminate|].
  apply andthen_ok in H. destruct H as [H1 H2]. intros Hw.
  apply check_ok in H1; [|assumption]. apply check_ok in H2; [|assumption].
  assert (Hw0 : w <> 0) by lia. split.
  - apply bolt3_fee_le. apply estimate_ge_min; [assumption | lia].
  - intros Hm. apply bolt3_fee_gt. apply estimate_le_max; [assumption | assumption | lia].
Qed.

(** * validate_commitment_tx *)

Lemma validate_commitment_inv est prof warn pol s cs n i :
  validate_commitment est prof warn pol s cs n i = Ok ->
  check warn ((0 <? to_broadcaster i) && (to_broadcaster i <? MIN_CHAN_DUST_LIMIT))
        T_outputs_trimmed = Ok /\
  check warn ((0 <? to_countersigner i) && (to_countersigner i <? MIN_CHAN_DUST_LIMIT))
        T_outputs_trimmed = Ok /\
  check warn (max_htlcs pol <? n_htlcs i) T_htlc_count = Ok /\
  exists acc1 acc2 s1 so,
    htlc_loop prof warn pol (current_height cs) (offered_limit s i) (offered i) 0 = (Ok, acc1) /\
    htlc_loop prof warn pol (current_height cs) (received_limit s i) (received i) acc1 = (Ok, acc2) /\
    check warn (max_htlc_value pol <? acc2) T_inflight = Ok /\
    add_checked (to_broadcaster i) (to_countersigner i) = Some s1 /\
    add_checked s1 acc2 = Some so /\
    validate_fee est warn pol (channel_value s) so (weight_of s i) = Ok /\
    initial_rules warn s n i = Ok.
Proof.
  unfold validate_commitment, weight_of. intros H.
  apply andthen_ok in H. destruct H as [H1 H].
  apply andthen_ok in H. destruct H as [H2 H].
  apply andthen_ok in H. destruct H as [H3 H].
  repeat (split; [assumption|]).
  destruct (htlc_loop prof warn pol (current_height cs) (offered_limit s i) (offered i) 0)
    as [r1 acc1] eqn:E1.
  destruct r1; try discriminate.
  destruct (htlc_loop prof warn pol (current_height cs) (received_limit s i) (received i) acc1)
    as [r2 acc2] eqn:E2.
  destruct r2; try discriminate.
  apply andthen_ok in H. destruct H as [H4 H].
  destruct (add_checked (to_broadcaster i) (to_countersigner i)) as [s1|] eqn:Es1; [|discriminate].
  destruct (add_checked s1 acc2) as [so|] eqn:Eso; [|discriminate].
  apply andthen_ok in H. destruct H as [H5 H6].
  exists acc1, acc2, s1, so. repeat (split; [assumption || reflexivity|]). assumption.
Qed.

Lemma main_output_check warn v :
  check warn ((0 <? v) && (v <? MIN_CHAN_DUST_LIMIT)) T_outputs_trimmed = Ok ->
  warn T_outputs_trimmed = false -> main_output_ok v.
Proof.
  intros H Hw. apply check_ok in H; [|assumption]. unfold main_output_ok, MIN_CHAN_DUST_LIMIT in *. lia.
Qed.

Lemma offered_limit_eq s i : offered_limit s i = htlc_limit s i 663.
Proof. reflexivity. Qed.
Lemma received_limit_eq s i : received_limit s i = htlc_limit s i 703.
Proof. reflexivity. Qed.

Lemma n_htlcs_zero i : n_htlcs i = 0 -> offered i = [] /\ received i = [].
Proof.
  unfold n_htlcs. destruct (offered i), (received i); cbn [length]; intros H; try lia.
  split; reflexivity.
Qed.

(** Everything an [Ok] of validate_commitment_tx (with the repaired estimator) implies, for an
    arbitrary filter: each bound holds unless its own tag has been downgraded; the overflow
    and underflow refusals cannot be downgraded at all. *)
Theorem accept_facts prof warn pol s cs n i :
  validate_commitment est_new prof warn pol s cs n i = Ok ->
  total_out i <= channel_value s /\
  (warn T_outputs_trimmed = false -> dust_bound s i) /\
  (warn T_htlc_count = false -> count_bound pol i) /\
  (warn T_inflight = false -> inflight_bound pol i) /\
  (warn T_cltv_range = false -> heights_fit prof pol cs -> expiry_bound pol cs i) /\
  (warn T_fee_range = false -> max_feerate pol < U32MAX -> fee_bound pol s i) /\
  (warn T_first_no_htlcs = false -> n = 0 -> offered i = [] /\ received i = []) /\
  (warn T_initial_funding_value = false -> n = 0 -> is_outbound s = true ->
   cp_value i <= push_value_msat s / 1000).
Proof.
  intros H. apply validate_commitment_inv in H.
  destruct H as (Hb & Hc & Hn & acc1 & acc2 & s1 & so & L1 & L2 & Hi & A1 & A2 & Hf & Hini).
  apply htlc_loop_ok in L1. destruct L1 as (Ha1 & Hd1 & Hx1).
  apply htlc_loop_ok in L2. destruct L2 as (Ha2 & Hd2 & Hx2).
  apply add_checked_some in A1. destruct A1 as [-> _].
  apply add_checked_some in A2. destruct A2 as [-> _].
  apply validate_fee_ok in Hf. destruct Hf as [Hle Hfee].
  assert (Hso : to_broadcaster i + to_countersigner i + acc2 = total_out i)
    by (unfold total_out; lia).
  rewrite Hso in *.
  split; [assumption|].
  split. { intros Hw. unfold dust_bound. rewrite <- offered_limit_eq, <- received_limit_eq.
           split; [eapply main_output_check; eassumption|].
           split; [eapply main_output_check; eassumption|]. split; auto. }
  split. { intros Hw. apply check_ok in Hn; [|assumption]. unfold count_bound. lia. }
  split. { intros Hw. apply check_ok in Hi; [|assumption]. unfold inflight_bound. lia. }
  split. { intros Hw Hfit. unfold expiry_bound. apply Forall_app. split; auto. }
  split. { intros Hw Hm. destruct (Hfee Hw) as [Hlo Hhi]. unfold fee_bound.
           split; [assumption|]. split; [assumption | auto]. }
  unfold initial_rules in Hini. split.
  - intros Hw ->. cbn in Hini. apply andthen_ok in Hini. destruct Hini as [H0 _].
    apply check_ok in H0; [|assumption]. apply n_htlcs_zero. lia.
  - intros Hw -> Ho. cbn in Hini. apply andthen_ok in Hini. destruct Hini as [_ H0].
    rewrite Ho in H0. apply check_ok in H0; [|assumption]. lia.
Qed.

(** The non-permissive filter: acceptance implies the whole conjunction. *)
Theorem accept_implies_bounds prof warn pol s cs n i :
  (forall t, warn t = false) ->
  max_feerate pol < U32MAX ->
  heights_fit prof pol cs ->
  validate_commitment est_new prof warn pol s cs n i = Ok ->
  Bounds pol s cs n i.
Proof.
  intros Hw Hm Hfit H. apply accept_facts in H.
  destruct H as (_ & Hd & Hc & Hi & Hx & Hf & H0 & Hp).
  unfold Bounds.
  split; [apply Hf; auto|]. split; [apply Hd; auto|]. split; [apply Hc; auto|].
  split; [apply Hi; auto|]. split; [apply Hx; auto|].
  intros ->. destruct (H0 (Hw _) eq_refl) as [Eo Er].
  split; [exact Eo|]. split; [exact Er|]. intros Ho. apply Hp; auto.
Qed.

(** on the initial commitment of a channel we funded, what is left to us is at least the
    funding minus the pushed value minus the largest in-range fee *)
Lemma initial_holder_value pol s cs i :
  Bounds pol s cs 0 i -> is_outbound s = true ->
  channel_value s <
    holder_value i + push_value_msat s / 1000
    + bolt3_fee (max_feerate pol + 1) (expected_weight (is_anchors (commitment_type s)) 0).
Proof.
  intros (Hf & _ & _ & _ & _ & Hini) Ho.
  destruct (Hini eq_refl) as (Eo & Er & Hp). specialize (Hp Ho).
  destruct Hf as (Hle & _ & Hhi).
  unfold weight_of, n_htlcs, total_out, msum in *. rewrite Eo, Er in *. cbn [length map sum_N] in *.
  change (N.of_nat (0 + 0)) with 0 in *.
  unfold cp_value, holder_value in *. destruct (cp_broadcaster i); lia.
Qed.

(** * Wrappers: an accepted counterparty / holder commitment passed validate_commitment_tx *)

Lemma counterparty_accept est prof warn pol e s cs n i :
  validate_counterparty_commitment est prof warn pol e s cs n i = Ok ->
  validate_commitment est prof warn pol s cs n i = Ok.
Proof. unfold validate_counterparty_commitment. intros H. apply andthen_ok in H. tauto. Qed.

Lemma holder_accept est prof warn pol e s cs n i :
  validate_holder_commitment est prof warn pol e s cs n i = Ok ->
  validate_commitment est prof warn pol s cs n i = Ok.
Proof. unfold validate_holder_commitment. intros H. apply andthen_ok in H. tauto. Qed.

Lemma onchain_counterparty_accept est prof warn pol e s cs n i :
  onchain_counterparty_commitment est prof warn pol e s cs n i = Ok ->
  validate_counterparty_commitment est prof warn pol e s cs n i = Ok.
Proof. unfold onchain_counterparty_commitment. intros H. apply andthen_ok in H. tauto. Qed.

Lemma onchain_holder_accept est prof warn pol e s cs n i :
  onchain_holder_commitment est prof warn pol e s cs n i = Ok ->
  validate_holder_commitment est prof warn pol e s cs n i = Ok.
Proof. unfold onchain_holder_commitment. intros H. apply andthen_ok in H. tauto. Qed.

Lemma entry_accept en est prof warn pol e s cs n i :
  validate_entry en est prof warn pol e s cs n i = Ok ->
  validate_commitment est prof warn pol s cs n i = Ok.
Proof.
  destruct en; cbn [validate_entry]; intros H.
  - eapply counterparty_accept; eassumption.
  - eapply holder_accept; eassumption.
  - eapply counterparty_accept, onchain_counterparty_accept; eassumption.
  - eapply holder_accept, onchain_holder_accept; eassumption.
Qed.

(** * On-chain validator *)

Lemma ensure_buried_ok warn n cs :
  ensure_funding_buried_and_unspent warn n cs = Ok -> 0 < n ->
  (warn T_active_utxo_temp = false -> 1 <= funding_depth cs) /\
  (warn T_active_utxo = false -> closing_depth cs = 0).
Proof.
  unfold ensure_funding_buried_and_unspent, MIN_FUNDING_DEPTH. intros H Hn.
  destruct (0 <? n) eqn:E; [|lia].
  apply andthen_ok in H. destruct H as [H1 H2]. split; intros Hw.
  - apply check_ok in H1; [|assumption]. lia.
  - apply check_ok in H2; [|assumption]. lia.
Qed.

Theorem onchain_counterparty_buried est prof warn pol e s cs n i :
  onchain_counterparty_commitment est prof warn pol e s cs n i = Ok -> 0 < n ->
  (warn T_active_utxo_temp = false -> 1 <= funding_depth cs) /\
  (warn T_active_utxo = false -> closing_depth cs = 0).
Proof.
  unfold onchain_counterparty_commitment. intros H Hn. apply andthen_ok in H.
  destruct H as [H _]. eapply ensure_buried_ok; eassumption.
Qed.

(** a holder commitment that is new (not a re-validation of the current one) *)
Theorem onchain_holder_buried est prof warn pol e s cs n i :
  onchain_holder_commitment est prof warn pol e s cs n i = Ok -> 0 < n ->
  next_holder_commit_num e <= n ->
  (warn T_active_utxo_temp = false -> 1 <= funding_depth cs) /\
  (warn T_active_utxo = false -> closing_depth cs = 0).
Proof.
  unfold onchain_holder_commitment. intros H Hn Hnew. apply andthen_ok in H.
  destruct H as [H _]. destruct (next_holder_commit_num e <=? n) eqn:E; [|lia].
  eapply ensure_buried_ok; eassumption.
Qed.

(** * Setup and channel value *)

Lemma validate_delay_ok warn pol t d :
  validate_delay warn pol t d = Ok -> warn t = false -> min_delay pol <= d <= max_delay pol.
Proof.
  unfold validate_delay. intros H Hw. apply andthen_ok in H. destruct H as [H1 H2].
  apply check_ok in H1; [|assumption]. apply check_ok in H2; [|assumption]. lia.
Qed.

Theorem setup_facts warn pol s :
  validate_setup_channel warn pol s = Ok ->
  (warn T_safe_type = false -> safe_type (commitment_type s) = true) /\
  (warn T_delay_holder = false -> min_delay pol <= cp_delay s <= max_delay pol) /\
  (warn T_delay_counterparty = false -> min_delay pol <= holder_delay s <= max_delay pol) /\
  (warn T_mutual_destination = false -> shutdown s = 0 \/ shutdown s = 1).
Proof.
  unfold validate_setup_channel. intros H.
  apply andthen_ok in H. destruct H as [H1 H].
  apply andthen_ok in H. destruct H as [H2 H].
  apply andthen_ok in H. destruct H as [H3 H4].
  split. { intros Hw. apply check_ok in H1; [|assumption]. destruct (safe_type _); auto. }
  split. { intros Hw. eapply validate_delay_ok; eassumption. }
  split. { intros Hw. eapply validate_delay_ok; eassumption. }
  intros Hw. destruct (shutdown s =? 0) eqn:E0; [left; lia|].
  destruct (shutdown s =? 1) eqn:E1; [right; lia|].
  destruct (shutdown s =? 2); [|discriminate].
  apply perr_ok in H4. congruence.
Qed.

Theorem setup_implies_bound warn pol s :
  (forall t, warn t = false) -> validate_setup_channel warn pol s = Ok -> setup_bound pol s.
Proof.
  intros Hw H. apply setup_facts in H. destruct H as (H1 & H2 & H3 & H4).
  unfold setup_bound. auto.
Qed.

Theorem channel_value_facts warn pol s :
  validate_channel_value warn pol s = Ok -> warn T_funding_max = false ->
  channel_value s <= max_channel_size pol.
Proof.
  unfold validate_channel_value. intros H Hw. apply check_ok in H; [|assumption]. lia.
Qed.

(** no counterparty signature without the size check and the commitment checks *)
Theorem sign_counterparty_facts est prof warn pol onchain e s cs n i :
  sign_counterparty est prof warn pol onchain e s cs n i = Ok ->
  (warn T_funding_max = false -> channel_value s <= max_channel_size pol) /\
  validate_commitment est prof warn pol s cs n i = Ok /\
  (onchain = true -> 0 < n ->
   (warn T_active_utxo_temp = false -> 1 <= funding_depth cs) /\
   (warn T_active_utxo = false -> closing_depth cs = 0)).
Proof.
  unfold sign_counterparty. intros H. apply andthen_ok in H. destruct H as [Hv H].
  split; [intros Hw; eapply channel_value_facts; eassumption|].
  destruct onchain.
  - split.
    + eapply counterparty_accept, onchain_counterparty_accept; eassumption.
    + intros _ Hn. eapply onchain_counterparty_buried; eassumption.
  - split; [eapply counterparty_accept; eassumption | discriminate].
Qed.

(** * Lifecycle: commitments are only accepted on a channel whose setup was accepted *)

Definition slot_ok (warn : tag -> bool) (pol : policy) (st : slot) : Prop :=
  match st with Stub => True | Ready s => validate_setup_channel warn pol s = Ok end.

Lemma lstep_slot_ok est prof warn pol oc st o :
  slot_ok warn pol st -> slot_ok warn pol (fst (lstep est prof warn pol oc st o)).
Proof.
  intros H. destruct o as [s | e cs n i | e cs n i]; cbn [lstep].
  - destruct st as [|s']; cbn [fst]; [|exact H].
    destruct (setup_pre prof s =? 0); [|exact I].
    destruct (validate_setup_channel warn pol s) eqn:E; cbn [fst slot_ok]; auto.
  - destruct st; cbn [fst]; exact H.
  - destruct st; cbn [fst]; exact H.
Qed.

Lemma lrun_slot_ok est prof warn pol oc ops : forall st,
  slot_ok warn pol st -> slot_ok warn pol (lrun est prof warn pol oc st ops).
Proof.
  induction ops as [|o r IH]; intros st H; cbn [lrun fold_left]; [exact H|].
  apply IH. apply lstep_slot_ok. exact H.
Qed.

Lemma code3_ok r : code3 r = 0 -> r = Ok.
Proof. destruct r; cbn [code3]; intros H; [reflexivity | discriminate | discriminate]. Qed.

(** after any history of requests on a channel id, an accepted commitment request met a ready
    channel whose setup validate_setup_channel accepted, and passed validate_commitment_tx with
    that setup *)
Theorem accepted_commitment_on_validated_setup est prof warn pol oc pre o :
  let st := lrun est prof warn pol oc Stub pre in
  snd (lstep est prof warn pol oc st o) = 0 ->
  match o with
  | LSetup _ => True
  | LSignCp e cs n i | LValidateHolder e cs n i =>
      exists s, st = Ready s /\ validate_setup_channel warn pol s = Ok /\
                validate_commitment est prof warn pol s cs n i = Ok
  end.
Proof.
  intros st H.
  assert (Hok : slot_ok warn pol st) by (apply lrun_slot_ok; exact I).
  destruct o as [s | e cs n i | e cs n i]; [exact I | |]; cbn [lstep] in H;
    destruct st as [|s]; cbn [snd] in H; try discriminate; exists s;
    (split; [reflexivity|]); (split; [exact Hok|]); apply code3_ok in H.
  - apply sign_counterparty_facts in H. tauto.
  - eapply entry_accept. eassumption.
Qed.
