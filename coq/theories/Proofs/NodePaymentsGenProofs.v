(** The payment check of the payments model ([hash_ok], [validate_payments] of Model/Payments.v) is
    what the translated source computes: Gen/NodePaymentsGen.v is regenerated on every run from
    NodeState::validate_payments (whole body) with RoutedPayment::updated_incoming_outgoing and the
    other methods it uses; validate_payment_balance is the translation of Gen/PaymentsGen.v.

    Source-level state and its abstraction.  The node keeps maps (payment hash -> invoice, payment
    hash -> RoutedPayment with channel id -> amount maps); the model keeps functions.  [abs_node]
    reads the functions off the maps.  The model's totals range over the channels 0 .. nch-1: a
    source-level state is well formed ([wf_node]) when the per-channel maps have one entry per key
    and keys below [nch].  The two summaries the function receives are association lists on both
    sides ([hget] of the model is the look-up with default 0).

    What the model does not have, and the theorem therefore assumes:
      - the CLTV rule (policy-routing-cltv-delta: validate_payment_cltv on the stored bounds of a
        payment record) - [cltv_pass]: the rule passes for every record among the hashes;
      - the enforce_balance register - [enforce_balance = false] (off in every policy in use);
      - policy filters that downgrade the three tags involved;
      - u64 overflow - [hash_fitsb] for every hash (a boolean).
    The hash set is visited in the order [ord hashes] for an arbitrary permutation [ord]: the answer
    does not depend on it. *)
From Coq Require Import String Permutation.
From VLS Require Import Base.Rust Gen.NodePaymentsGen Proofs.RustFacts.
From VLS Require Gen.PaymentsGen Gen.CommitmentPolicyGen Proofs.PaymentsGenProofs.
From VLS Require Import Model.Payments.
Require Import Lia.

Module CP := CommitmentPolicyGen.

Definition get0 (m : list (N * N)) (k : N) : N :=
  match map_get m k with Some v => v | None => 0 end.

Lemma hget_get0 m h : hget m h = get0 m h.
Proof.
  unfold get0. induction m as [|[k v] r IH]; cbn [hget map_get]; [reflexivity|].
  destruct (k =? h); [reflexivity | exact IH].
Qed.

Definition abs_node (chs : N -> pchan) (ns : NodeState) : pnode :=
  mkPN (fun h => option_map PaymentState_amount_msat (map_get (NodeState_invoices ns) h))
       (fun h => map_contains (NodeState_payments ns) h)
       (fun h c => match map_get (NodeState_payments ns) h with
                   | Some p => (get0 (RoutedPayment_incoming p) c, get0 (RoutedPayment_outgoing p) c)
                   | None => (0, 0)
                   end)
       chs
       (fun h => match map_get (NodeState_payments ns) h with
                 | Some p => is_some_of (RoutedPayment_preimage p)
                 | None => false
                 end).

(** [hash_ok] with the two per-hash values as functions: the model's [hash_ok p nh nc] is this for
    [in_val p nh nc] / [out_val p nh nc] (by definition) *)
Definition hash_ok_sum (nch : nat) (mf mp : N) (s : pnode) (ch : N) (isum osum : N -> N) (h : N) : bool :=
  let '(i, o) :=
    if known s h then upd_totals nch s h ch (isum h) (osum h) else (isum h, osum h) in
  balance_ok mf mp (i * 1000) (o * 1000) (inv s h)
  || (known s h && match inv s h with None => true | Some _ => false end).

Lemma hash_ok_is_sum nch mf mp s ch p nh nc h :
  hash_ok nch mf mp s ch p nh nc h = hash_ok_sum nch mf mp s ch (in_val p nh nc) (out_val p nh nc) h.
Proof. reflexivity. Qed.

Definition wf_map (nch : nat) (m : list (N * N)) : Prop :=
  NoDup (map_keys m) /\ Forall (fun k => k < N.of_nat nch) (map_keys m).

Definition wf_node (nch : nat) (ns : NodeState) : Prop :=
  forall h p, map_get (NodeState_payments ns) h = Some p ->
              wf_map nch (RoutedPayment_incoming p) /\ wf_map nch (RoutedPayment_outgoing p).

(** * Sums over a channel map and over the channel ids *)

Lemma chan_ids_in n c : In c (chan_ids n) <-> c < N.of_nat n.
Proof.
  induction n as [|n IH]; cbn [chan_ids].
  - split; [intros [] | lia].
  - rewrite in_app_iff, IH. cbn [In]. lia.
Qed.

Lemma nodup_snoc {A} (l : list A) a : NoDup l -> ~ In a l -> NoDup (l ++ [a]).
Proof.
  induction l as [|x l IH]; intros ND Hn; cbn [app].
  - constructor; [intros [] | constructor].
  - inversion ND as [|x' l' Hx ND']; subst. constructor.
    + rewrite in_app_iff. cbn [In]. intros [H|[H|[]]]; [contradiction|].
      subst. apply Hn. left. reflexivity.
    + apply IH; [exact ND'|]. intros H. apply Hn. right. exact H.
Qed.

Lemma chan_ids_nodup n : NoDup (chan_ids n).
Proof.
  induction n as [|n IH]; cbn [chan_ids]; [constructor|].
  apply nodup_snoc; [exact IH|]. rewrite chan_ids_in. lia.
Qed.

Lemma sum_indicator (f : N -> N) k v l :
  NoDup l -> In k l -> f k = 0 ->
  sum_N (map (fun c => if k =? c then v else f c) l) = v + sum_N (map f l).
Proof.
  intros ND Hin Hk. induction l as [|a l IH]; [destruct Hin|].
  inversion ND as [|a' l' Hna ND']; subst. cbn [map sum_N].
  destruct (k =? a) eqn:E.
  - apply N.eqb_eq in E. subst a. rewrite Hk.
    rewrite (map_ext_in _ f); [lia|].
    intros c Hc. destruct (k =? c) eqn:E2; [|reflexivity].
    apply N.eqb_eq in E2. subst c. contradiction.
  - apply N.eqb_neq in E. destruct Hin as [->|Hin]; [contradiction|].
    rewrite (IH ND' Hin). lia.
Qed.

Lemma map_get_not_key {V} (m : list (N * V)) k : ~ In k (map_keys m) -> map_get m k = None.
Proof.
  induction m as [|[a v] r IH]; intros H; cbn [map_get]; [reflexivity|].
  cbn [map_keys map fst In] in H. destruct (a =? k) eqn:E.
  - apply N.eqb_eq in E. subst. exfalso. apply H. left. reflexivity.
  - apply IH. intros Hin. apply H. right. exact Hin.
Qed.

Lemma total_is_sum nch m :
  wf_map nch m -> sum_N (map (fun c => get0 m c) (chan_ids nch)) = sum_N (map_values m).
Proof.
  induction m as [|[k v] r IH]; intros [ND Hr].
  - cbn [map_values map sum_N]. induction (chan_ids nch) as [|a l IHl]; cbn [map sum_N]; [reflexivity|].
    rewrite IHl. reflexivity.
  - cbn [map_keys map fst] in ND, Hr. inversion ND as [|k' l' Hnk ND']; subst.
    inversion Hr as [|k' l' Hk Hr']; subst.
    change (sum_N (map_values ((k, v) :: r))) with (v + sum_N (map_values r)).
    rewrite <- (IH (conj ND' Hr')).
    rewrite <- (sum_indicator (fun c => get0 r c) k v (chan_ids nch)).
    + apply f_equal, map_ext. intros c. unfold get0. cbn [map_get]. destruct (k =? c); reflexivity.
    + apply chan_ids_nodup.
    + apply chan_ids_in. exact Hk.
    + unfold get0. rewrite (map_get_not_key r k Hnk). reflexivity.
Qed.

Lemma get0_le_sum m c : get0 m c <= sum_N (map_values m).
Proof.
  unfold get0. induction m as [|[k v] r IH]; cbn [map_get map_values map snd sum_N]; [lia|].
  unfold map_values in IH. destruct (k =? c); cbv beta iota; lia.
Qed.

(** * validate_payment_balance under a filter that does not downgrade its two tags *)

Lemma gen_balance_warn prof swarn mf mp inc out iv :
  swarn "policy-routing-balanced"%string = false ->
  swarn "policy-htlc-fee-range"%string = false ->
  PaymentsGenProofs.amounts_fit mf inc out iv ->
  PaymentsGen.gen_validate_payment_balance prof swarn mf mp inc out iv = Val (balance_ok mf mp inc out iv).
Proof.
  intros H1 H2 Hfit. rewrite <- (PaymentsGenProofs.gen_balance_is_model prof mf mp inc out iv Hfit).
  unfold PaymentsGen.gen_validate_payment_balance, PaymentsGenProofs.strict_filter.
  rewrite !H1, !H2. reflexivity.
Qed.

(** * The loop over the hashes *)

Lemma fold_collect (body : list N -> N -> trap (result (list N))) (ok : N -> bool) l :
  (forall acc h, In h l -> body acc h = Val (OkR (if ok h then acc else vec_push acc h))) ->
  forall acc, fold_r body l acc = Val (OkR (acc ++ filter (fun h => negb (ok h)) l)).
Proof.
  induction l as [|h r IH]; intros Hb acc; cbn [fold_r filter].
  - rewrite app_nil_r. reflexivity.
  - rewrite Hb by (left; reflexivity). cbn [bindR].
    rewrite IH by (intros a x Hx; apply Hb; right; exact Hx).
    destruct (ok h); cbn [negb]; [reflexivity|]. unfold vec_push. rewrite <- app_assoc. reflexivity.
Qed.

Lemma filter_empty_forallb (ok : N -> bool) l :
  is_empty_of (filter (fun h => negb (ok h)) l) = forallb ok l.
Proof.
  induction l as [|h r IH]; [reflexivity|]. cbn [filter forallb].
  destruct (ok h); cbn [negb andb]; [exact IH | reflexivity].
Qed.

Lemma forallb_perm (ok : N -> bool) l l' : Permutation l l' -> forallb ok l = forallb ok l'.
Proof.
  intros P. induction P; cbn [forallb]; try reflexivity.
  - rewrite IHP. reflexivity.
  - destruct (ok x), (ok y); reflexivity.
  - rewrite IHP1. exact IHP2.
Qed.

(** * Side conditions *)

(** the CLTV rule of the source, which the model does not have: it passes for the record *)
Definition cltv_pass prof swarn gp (o : option RoutedPayment) : Prop :=
  match o with
  | Some p =>
      match RoutedPayment_incoming_cltv_min p, RoutedPayment_outgoing_cltv_max p with
      | Some i, Some c => gen_validate_payment_cltv prof swarn gp i c = Val (OkR tt)
      | _, _ => True
      end
  | None => True
  end.

(** nothing leaves u64 for this hash *)
Definition hash_fitsb (nch : nat) (mf : N) (s : pnode) (ch : N) (isum osum : N -> N) (h : N) : bool :=
  (in_total nch s h + isum h <=? U64MAX) && (out_total nch s h + osum h <=? U64MAX) &&
  let '(i, o) := if known s h then upd_totals nch s h ch (isum h) (osum h) else (isum h, osum h) in
  (o * 1000 * 100 <=? U64MAX) &&
  match inv s h with
  | Some a => i * 1000 + (a + mf) <=? U64MAX
  | None => i * 1000 <=? U64MAX
  end.

(** * The totals of the model on an abstracted state *)

Lemma sum_zeros {A} (l : list A) : sum_N (map (fun _ => 0) l) = 0.
Proof. induction l as [|a l IH]; cbn [map sum_N]; [reflexivity | rewrite IH; reflexivity]. Qed.

Lemma totals_some nch chs ns h p :
  wf_node nch ns -> map_get (NodeState_payments ns) h = Some p ->
  in_total nch (abs_node chs ns) h = sum_N (map_values (RoutedPayment_incoming p)) /\
  out_total nch (abs_node chs ns) h = sum_N (map_values (RoutedPayment_outgoing p)).
Proof.
  intros Hwf Hp. destruct (Hwf h p Hp) as [Wi Wo].
  unfold in_total, out_total. cbn [abs_node led]. rewrite Hp. cbn [fst snd].
  rewrite <- (total_is_sum nch _ Wi), <- (total_is_sum nch _ Wo). split; reflexivity.
Qed.

Lemma totals_none nch chs ns h :
  map_get (NodeState_payments ns) h = None ->
  in_total nch (abs_node chs ns) h = 0 /\ out_total nch (abs_node chs ns) h = 0.
Proof.
  intros Hp. unfold in_total, out_total. cbn [abs_node led]. rewrite Hp. cbn [fst snd].
  split; apply sum_zeros.
Qed.

Lemma bindR_ret {A} (x : trap (result A)) : bindR x (fun a => Val (OkR a)) = x.
Proof. destruct x as [[a|t]|]; reflexivity. Qed.

(** * NodeState::validate_payments *)

Theorem gen_validate_payments_is_model (nch : nat) prof swarn gp (ord : list N -> list N) chs ns ch im om bd vid :
  (forall l, Permutation (ord l) l) ->
  wf_node nch ns ->
  swarn "policy-routing-balanced"%string = false ->
  swarn "policy-htlc-fee-range"%string = false ->
  swarn "policy-commitment-htlc-routing-balance"%string = false ->
  CP.SimplePolicy_enforce_balance gp = false ->
  let s := abs_node chs ns in
  let mf := CP.SimplePolicy_max_routing_fee_msat gp in
  let mp := CP.SimplePolicy_max_feerate_percentage gp in
  let hashes := set_extend (set_extend [] (map_keys im)) (map_keys om) in
  (forall h, In h hashes -> cltv_pass prof swarn gp (map_get (NodeState_payments ns) h)) ->
  forallb (hash_fitsb nch mf s ch (hget im) (hget om)) hashes = true ->
  gen_NodeState_validate_payments prof swarn gp ord ns ch im om bd vid =
  if forallb (hash_ok_sum nch mf mp s ch (hget im) (hget om)) hashes
  then Val (OkR tt)
  else Val (ErrR "policy-commitment-htlc-routing-balance"%string).
Proof.
  intros Hord Hwf Hw1 Hw2 Hw3 Henf s mf mp hashes Hcltv Hfits.
  unfold gen_NodeState_validate_payments. cbv beta zeta. fold hashes.
  rewrite (fold_collect _ (hash_ok_sum nch mf mp s ch (hget im) (hget om)) (ord hashes)).
  - cbn [bindR app]. rewrite filter_empty_forallb, (forallb_perm _ _ _ (Hord hashes)).
    unfold gen_enforce_balance. rewrite Henf. cbn [bindT].
    destruct (forallb (hash_ok_sum nch mf mp s ch (hget im) (hget om)) hashes); cbn [negb].
    + reflexivity.
    + unfold policy_err. rewrite Hw3. reflexivity.
  - intros acc h Hin.
    assert (Hh : In h hashes) by (eapply Permutation_in; [apply Hord | exact Hin]).
    pose proof (Hcltv h Hh) as Hc.
    assert (Hf : hash_fitsb nch mf s ch (hget im) (hget om) h = true)
      by (rewrite forallb_forall in Hfits; apply Hfits; exact Hh).
    clear Hfits Hcltv Hord Hin Hh.
    unfold hash_fitsb, hash_ok_sum in *. rewrite !hget_get0 in *.
    subst s. cbn [abs_node known inv] in *. unfold map_contains in *.
    fold (get0 im h). fold (get0 om h).
    set (iv := option_map PaymentState_amount_msat (map_get (NodeState_invoices ns) h)) in *.
    destruct (map_get (NodeState_payments ns) h) as [p|] eqn:Hp; cbn [is_some_of] in *.
    + (* a payment record exists *)
      destruct (totals_some nch chs ns h p Hwf Hp) as [Ti To].
      unfold upd_totals in *. rewrite Ti, To in *.
      cbn [abs_node led fst snd] in *. rewrite Hp in *. cbn [fst snd] in *.
      apply andb_prop in Hf. destruct Hf as [Hf Hb]. apply andb_prop in Hf. destruct Hf as [Hi Ho].
      apply N.leb_le in Hi. apply N.leb_le in Ho.
      apply andb_prop in Hb. destruct Hb as [Hb1 Hb2]. apply N.leb_le in Hb1.
      pose proof (get0_le_sum (RoutedPayment_incoming p) ch) as Li.
      pose proof (get0_le_sum (RoutedPayment_outgoing p) ch) as Lo.
      unfold gen_RoutedPayment_get_cltv_bounds, gen_RoutedPayment_updated_incoming_outgoing. cbv beta zeta.
      cbn [bindT]. fold (get0 (RoutedPayment_incoming p) ch). fold (get0 (RoutedPayment_outgoing p) ch).
      assert (Hcl : (match
                       (match RoutedPayment_incoming_cltv_min p, RoutedPayment_outgoing_cltv_max p with
                        | Some inc, Some out => Some (inc, out)
                        | _, _ => None
                        end) with
                     | None => Val (OkR tt)
                     | Some (incoming_cltv, outgoing_cltv) =>
                         t2 <-? gen_validate_payment_cltv prof swarn gp incoming_cltv outgoing_cltv ;; Val (OkR tt)
                     end) = Val (OkR tt)).
      { cbn [cltv_pass] in Hc.
        destruct (RoutedPayment_incoming_cltv_min p), (RoutedPayment_outgoing_cltv_max p); try reflexivity.
        rewrite Hc. reflexivity. }
      rewrite Hcl. cbn [bindR].
      rewrite !sum_p_ok by (unfold U64MAX in *; lia). cbn [bindT].
      rewrite !add_p_ok by lia. cbn [bindT].
      rewrite !sub_p_ok by lia. cbn [bindT bindR].
      set (i := sum_N (map_values (RoutedPayment_incoming p)) + get0 im h - get0 (RoutedPayment_incoming p) ch) in *.
      set (o := sum_N (map_values (RoutedPayment_outgoing p)) + get0 om h - get0 (RoutedPayment_outgoing p) ch) in *.
      assert (Hfit : PaymentsGenProofs.amounts_fit mf (i * 1000) (o * 1000) iv).
      { unfold PaymentsGenProofs.amounts_fit. split; [exact Hb1|].
        destruct iv; apply N.leb_le in Hb2; exact Hb2. }
      rewrite !mul_p_ok by (destruct Hfit as [A B]; destruct iv; unfold U64MAX in *; lia). cbn [bindT].
      unfold mf, mp in *.
      rewrite (gen_balance_warn prof swarn _ _ (i * 1000) (o * 1000) iv Hw1 Hw2 Hfit). cbn [bindT].
      rewrite !bindR_ret.
      destruct (balance_ok _ _ (i * 1000) (o * 1000) iv); cbn [negb orb andb bindR]; [reflexivity|].
      destruct iv; reflexivity.
    + (* no record yet *)
      destruct (totals_none nch chs ns h Hp) as [Ti To]. rewrite Ti, To in *.
      cbn [bindR].
      apply andb_prop in Hf. destruct Hf as [Hf Hb].
      apply andb_prop in Hb. destruct Hb as [Hb1 Hb2]. apply N.leb_le in Hb1.
      assert (Hfit : PaymentsGenProofs.amounts_fit mf (get0 im h * 1000) (get0 om h * 1000) iv).
      { unfold PaymentsGenProofs.amounts_fit. split; [exact Hb1|].
        destruct iv; apply N.leb_le in Hb2; exact Hb2. }
      rewrite !mul_p_ok by (destruct Hfit as [A B]; destruct iv; unfold U64MAX in *; lia). cbn [bindT].
      unfold mf, mp in *.
      rewrite (gen_balance_warn prof swarn _ _ _ _ iv Hw1 Hw2 Hfit). cbn [bindT].
      rewrite !bindR_ret.
      destruct (balance_ok _ _ (get0 im h * 1000) (get0 om h * 1000) iv); cbn [negb orb andb bindR];
        reflexivity.
Qed.

(** * ... and the model's [validate_payments]

    The model computes the two summaries from the channel's commitments ([in_val] / [out_val] over
    [sum_keys]); the source receives them as maps.  When the maps hold what the model computes
    (same values, same set of hashes) the source's answer is the model's [validate_payments]. *)
Lemma forallb_same_elems (f : N -> bool) l l' :
  (forall h, In h l <-> In h l') -> forallb f l = forallb f l'.
Proof.
  intros H. destruct (forallb f l) eqn:E, (forallb f l') eqn:E'; try reflexivity.
  - rewrite forallb_forall in E. assert (X : forallb f l' = true)
      by (apply forallb_forall; intros x Hx; apply E, H; exact Hx). congruence.
  - rewrite forallb_forall in E'. assert (X : forallb f l = true)
      by (apply forallb_forall; intros x Hx; apply E', H; exact Hx). congruence.
Qed.

Corollary gen_validate_payments_is_validate (nch : nat) prof swarn gp (ord : list N -> list N) chs ns ch im om bd vid nh nc :
  (forall l, Permutation (ord l) l) ->
  wf_node nch ns ->
  swarn "policy-routing-balanced"%string = false ->
  swarn "policy-htlc-fee-range"%string = false ->
  swarn "policy-commitment-htlc-routing-balance"%string = false ->
  CP.SimplePolicy_enforce_balance gp = false ->
  let s := abs_node chs ns in
  let mf := CP.SimplePolicy_max_routing_fee_msat gp in
  let mp := CP.SimplePolicy_max_feerate_percentage gp in
  let hashes := set_extend (set_extend [] (map_keys im)) (map_keys om) in
  (forall h, In h hashes -> cltv_pass prof swarn gp (map_get (NodeState_payments ns) h)) ->
  forallb (hash_fitsb nch mf s ch (hget im) (hget om)) hashes = true ->
  (forall h, hget im h = in_val (chs ch) nh nc h) ->
  (forall h, hget om h = out_val (chs ch) nh nc h) ->
  (forall h, In h hashes <-> In h (sum_keys (chs ch) nh nc)) ->
  gen_NodeState_validate_payments prof swarn gp ord ns ch im om bd vid =
  if validate_payments nch mf mp s ch nh nc
  then Val (OkR tt)
  else Val (ErrR "policy-commitment-htlc-routing-balance"%string).
Proof.
  intros Hord Hwf Hw1 Hw2 Hw3 Henf s mf mp hashes Hcltv Hfits Hi Ho Hk.
  rewrite (gen_validate_payments_is_model nch prof swarn gp ord chs ns ch im om bd vid
             Hord Hwf Hw1 Hw2 Hw3 Henf Hcltv Hfits).
  fold s mf mp hashes. unfold validate_payments. cbn [abs_node chans].
  rewrite (forallb_same_elems _ _ _ Hk).
  replace (forallb (hash_ok_sum nch mf mp s ch (hget im) (hget om)) (sum_keys (chs ch) nh nc))
    with (forallb (hash_ok nch mf mp s ch (chs ch) nh nc) (sum_keys (chs ch) nh nc)); [reflexivity|].
  clear Hk Hfits Hcltv. induction (sum_keys (chs ch) nh nc) as [|h r IH]; [reflexivity|].
  cbn [forallb]. rewrite IH. f_equal.
  rewrite hash_ok_is_sum. unfold hash_ok_sum. rewrite Hi, Ho. reflexivity.
Qed.

(** * RoutedPayment::apply: the booking of one channel's amounts into a payment record

    The translated method never panics; it replaces the record's entry for the channel in both maps -
    which is the ledger update [upd (led h) ch (i, o)] of the model's [apply_one] - keeps the
    preimage, keeps the maps well formed, and only moves the two CLTV bounds (which the model does
    not have). *)
Lemma get0_remove (m : list (N * N)) k c : c <> k -> get0 (map_remove m k) c = get0 m c.
Proof.
  intros Hc. unfold get0, map_remove.
  induction m as [|[a v] r IH]; cbn [filter map_get fst]; [reflexivity|].
  destruct (a =? k) eqn:E; cbn [negb map_get].
  - apply N.eqb_eq in E. subst a. destruct (k =? c) eqn:E2; [apply N.eqb_eq in E2; congruence | exact IH].
  - destruct (a =? c); [reflexivity | exact IH].
Qed.

Lemma get0_insert (m : list (N * N)) k v c : get0 (map_insert m k v) c = if c =? k then v else get0 m c.
Proof.
  unfold map_insert. destruct (c =? k) eqn:E.
  - apply N.eqb_eq in E. subst c. unfold get0. cbn [map_get]. rewrite N.eqb_refl. reflexivity.
  - apply N.eqb_neq in E. rewrite <- (get0_remove m k c E). unfold get0 at 1. cbn [map_get].
    destruct (k =? c) eqn:E2; [apply N.eqb_eq in E2; congruence | reflexivity].
Qed.

Lemma keys_remove_in (m : list (N * N)) k a : In a (map_keys (map_remove m k)) -> In a (map_keys m) /\ a <> k.
Proof.
  unfold map_keys, map_remove. induction m as [|[b v] r IH]; cbn [filter map fst In]; [intros []|].
  destruct (b =? k) eqn:E; cbn [negb map fst In].
  - intros H. destruct (IH H) as [H1 H2]. split; [right; exact H1 | exact H2].
  - intros [->|H]; [split; [left; reflexivity | apply N.eqb_neq; exact E]|].
    destruct (IH H) as [H1 H2]. split; [right; exact H1 | exact H2].
Qed.

Lemma keys_remove_nodup (m : list (N * N)) k : NoDup (map_keys m) -> NoDup (map_keys (map_remove m k)).
Proof.
  unfold map_keys, map_remove. induction m as [|[b v] r IH]; cbn [filter map fst]; intros ND; [constructor|].
  inversion ND as [|b' l' Hb ND']; subst.
  destruct (b =? k); cbn [negb map fst]; [apply IH; exact ND'|].
  constructor; [|apply IH; exact ND'].
  intros H. apply Hb. apply (keys_remove_in r k b H).
Qed.

Lemma wf_insert nch m k v : wf_map nch m -> k < N.of_nat nch -> wf_map nch (map_insert m k v).
Proof.
  intros [ND Hr] Hk. unfold wf_map, map_insert. cbn [map_keys map fst]. split.
  - constructor; [|apply keys_remove_nodup; exact ND].
    intros H. destruct (keys_remove_in m k k H) as [_ H2]. congruence.
  - constructor; [exact Hk|]. rewrite Forall_forall in *. intros a Ha.
    apply Hr. apply (keys_remove_in m k a Ha).
Qed.

Theorem gen_apply_is_model prof (p : RoutedPayment) ch i o ic oc :
  exists p',
    gen_RoutedPayment_apply prof p ch i o ic oc = Val p' /\
    (forall c, (get0 (RoutedPayment_incoming p') c, get0 (RoutedPayment_outgoing p') c) =
               upd (fun c => (get0 (RoutedPayment_incoming p) c, get0 (RoutedPayment_outgoing p) c)) ch (i, o) c) /\
    RoutedPayment_preimage p' = RoutedPayment_preimage p /\
    (forall nch, ch < N.of_nat nch ->
                 wf_map nch (RoutedPayment_incoming p) -> wf_map nch (RoutedPayment_outgoing p) ->
                 wf_map nch (RoutedPayment_incoming p') /\ wf_map nch (RoutedPayment_outgoing p')).
Proof.
  unfold gen_RoutedPayment_apply. cbv beta zeta.
  destruct ic as [ic|], oc as [oc|]; cbn [bindT RoutedPayment_incoming RoutedPayment_outgoing
    RoutedPayment_incoming_cltv_min RoutedPayment_outgoing_cltv_max RoutedPayment_preimage];
    (eexists; split; [reflexivity|]);
    cbn [RoutedPayment_incoming RoutedPayment_outgoing RoutedPayment_preimage];
    (split; [intros c; unfold upd; rewrite !get0_insert; destruct (c =? ch); reflexivity|]);
    (split; [reflexivity|]);
    (intros nch Hch Wi Wo; split; apply wf_insert; assumption).
Qed.

(** * is_forwarded_payment_prunable: the pruning decision of the heartbeat

    The source's decision for one payment record: no approval ([invoices]) and no issued invoice for
    the hash, nothing incoming, nothing outgoing.  The model's [prunable] is the same without the
    issued invoices, which it does not have: the source prunes a record iff the model says
    [prunable] and there is no issued invoice for the hash. *)
Lemma gen_is_no_incoming prof p :
  sum_N (map_values (RoutedPayment_incoming p)) <= U64MAX ->
  gen_RoutedPayment_is_no_incoming prof p = Val (sum_N (map_values (RoutedPayment_incoming p)) =? 0).
Proof. intros H. unfold gen_RoutedPayment_is_no_incoming. rewrite sum_p_ok by exact H. reflexivity. Qed.

Lemma gen_is_no_outgoing prof p :
  sum_N (map_values (RoutedPayment_outgoing p)) <= U64MAX ->
  gen_RoutedPayment_is_no_outgoing prof p = Val (sum_N (map_values (RoutedPayment_outgoing p)) =? 0).
Proof. intros H. unfold gen_RoutedPayment_is_no_outgoing. rewrite sum_p_ok by exact H. reflexivity. Qed.

Theorem gen_prunable_is_model (nch : nat) prof chs ns h p :
  wf_node nch ns ->
  map_get (NodeState_payments ns) h = Some p ->
  sum_N (map_values (RoutedPayment_incoming p)) <= U64MAX ->
  sum_N (map_values (RoutedPayment_outgoing p)) <= U64MAX ->
  gen_NodeState_is_forwarded_payment_prunable prof h (NodeState_invoices ns) (NodeState_issued_invoices ns) p =
  Val (prunable nch (abs_node chs ns) h && is_none_of (map_get (NodeState_issued_invoices ns) h)).
Proof.
  intros Hwf Hp Hi Ho. destruct (totals_some nch chs ns h p Hwf Hp) as [Ti To].
  unfold gen_NodeState_is_forwarded_payment_prunable, prunable. rewrite Ti, To.
  cbn [abs_node inv].
  rewrite gen_is_no_incoming, gen_is_no_outgoing by assumption.
  destruct (map_get (NodeState_invoices ns) h); cbn [option_map is_none_of andb bindT]; [reflexivity|].
  destruct (map_get (NodeState_issued_invoices ns) h); cbn [is_none_of andb bindT].
  - rewrite !andb_false_r. reflexivity.
  - rewrite !andb_true_r.
    destruct (sum_N (map_values (RoutedPayment_incoming p)) =? 0); cbn [bindT andb]; reflexivity.
Qed.

(** * htlc_fulfilled: the preimage is recorded only in a record that exists

    The model's step [PFulfil h]: [pre x := pre x || ((x =? h) && known h)], nothing else changes.
    The source (translated in state-passing style; [ph] is the hash of the preimage, an opaque
    value of the translation) never panics when the record's sums fit and enforce_balance is off,
    and the abstraction of the state it leaves is exactly that.  The issued-invoice flag and the
    returned boolean are outside the model. *)
Lemma map_get_insert {V} (m : list (N * V)) k v x :
  map_get (map_insert m k v) x = if k =? x then Some v else map_get m x.
Proof.
  unfold map_insert. cbn [map_get]. destruct (k =? x) eqn:E; [reflexivity|].
  unfold map_remove. induction m as [|[a w] r IH]; cbn [filter map_get fst]; [reflexivity|].
  destruct (a =? k) eqn:E2; cbn [negb map_get].
  - apply N.eqb_eq in E2. subst a. rewrite E. exact IH.
  - destruct (a =? x); [reflexivity | exact IH].
Qed.

Theorem gen_fulfil_is_model prof swarn gp chs ph ns ch preimage vid :
  CP.SimplePolicy_enforce_balance gp = false ->
  (forall p, map_get (NodeState_payments ns) ph = Some p ->
             sum_N (map_values (RoutedPayment_incoming p)) <= U64MAX /\
             sum_N (map_values (RoutedPayment_outgoing p)) <= U64MAX) ->
  exists ns' b,
    gen_NodeState_htlc_fulfilled prof swarn gp ph ns ch preimage vid = Val (OkR (ns', b)) /\
    (forall x, pre (abs_node chs ns') x = pre (abs_node chs ns) x || ((x =? ph) && known (abs_node chs ns) ph)) /\
    (forall x, known (abs_node chs ns') x = known (abs_node chs ns) x) /\
    (forall x c, led (abs_node chs ns') x c = led (abs_node chs ns) x c) /\
    (forall x, inv (abs_node chs ns') x = inv (abs_node chs ns) x).
Proof.
  intros Henf Hfit. unfold gen_NodeState_htlc_fulfilled. cbv beta zeta.
  unfold gen_enforce_balance. rewrite Henf.
  (* the issued invoice: only its flag (and the returned boolean) moves *)
  match goal with
  | |- exists _ _, bindR ?F _ = _ /\ _ =>
      assert (Hfirst : exists ns1 b1, F = Val (OkR (ns1, b1)) /\
                         NodeState_invoices ns1 = NodeState_invoices ns /\ NodeState_payments ns1 = NodeState_payments ns)
  end.
  { destruct (map_get (NodeState_issued_invoices ns) ph) as [is|]; cbn [bindR];
      [destruct (negb (PaymentState_is_fulfilled is)); cbn [bindR]|];
      (eexists; eexists; split; [reflexivity | split; reflexivity]). }
  destruct Hfirst as (ns1 & b1 & Hfirst & Hinv & Hpay). rewrite Hfirst. clear Hfirst. cbn [bindR].
  assert (Habs : forall x, pre (abs_node chs ns1) x = pre (abs_node chs ns) x /\
                           known (abs_node chs ns1) x = known (abs_node chs ns) x /\
                           (forall c, led (abs_node chs ns1) x c = led (abs_node chs ns) x c) /\
                           inv (abs_node chs ns1) x = inv (abs_node chs ns) x).
  { intros x. cbn [abs_node pre known led inv]. unfold map_contains. rewrite Hinv, Hpay. repeat split. }
  rewrite Hpay. destruct (map_get (NodeState_payments ns) ph) as [p|] eqn:Hp; cbn [bindR].
  - destruct (Hfit p eq_refl) as [Fi Fo].
    destruct (is_some_of (RoutedPayment_preimage p)) eqn:Epre; cbn [bindR].
    + exists ns1, b1. split; [reflexivity|].
      repeat split; intros x; destruct (Habs x) as (A & B & C & D); try assumption; try (intros c; apply C).
      rewrite A. cbn [abs_node pre known]. unfold map_contains.
      destruct (x =? ph) eqn:E; [|rewrite orb_false_r; reflexivity].
      apply N.eqb_eq in E. subst x. rewrite Hp. cbn [is_some_of andb]. rewrite Epre. reflexivity.
    + set (p' := mk_RoutedPayment (RoutedPayment_incoming p) (RoutedPayment_outgoing p)
                   (RoutedPayment_incoming_cltv_min p) (RoutedPayment_outgoing_cltv_max p) (Some preimage)).
      exists (mk_NodeState (NodeState_invoices ns1) (NodeState_issued_invoices ns1)
                (map_insert (NodeState_payments ns1) ph p') (NodeState_excess_amount ns1) (NodeState_log_prefix ns1)
                (NodeState_velocity_control ns1) (NodeState_fee_velocity_control ns1) (NodeState_last_summary ns1)
                (NodeState_dbid_high_water_mark ns1) (NodeState_allowlist ns1)).
      exists true. split.
      { unfold gen_RoutedPayment_incoming_outgoing. rewrite !sum_p_ok by assumption.
        cbn [bindT bindR]. cbv beta iota zeta.
        destruct (map_contains (NodeState_invoices ns1) ph);
          [destruct (0 <? sum_N (map_values (RoutedPayment_incoming p)))|]; reflexivity. }
      rewrite Hinv, Hpay.
      repeat split; intros x; cbn [abs_node pre known led inv NodeState_payments NodeState_invoices];
        unfold map_contains; rewrite ?map_get_insert.
      * rewrite (N.eqb_sym x ph). destruct (ph =? x) eqn:E.
        -- apply N.eqb_eq in E. subst x. rewrite Hp. cbn [is_some_of RoutedPayment_preimage p' andb]. rewrite orb_true_r. reflexivity.
        -- rewrite andb_false_l, orb_false_r. reflexivity.
      * destruct (ph =? x) eqn:E; [|reflexivity]. apply N.eqb_eq in E. subst x. rewrite Hp. reflexivity.
      * intros c. destruct (ph =? x) eqn:E; [|reflexivity]. apply N.eqb_eq in E. subst x. rewrite Hp. reflexivity.
  - exists ns1, b1. split; [reflexivity|].
    repeat split; intros x; destruct (Habs x) as (A & B & C & D); try assumption; try (intros c; apply C).
    rewrite A. cbn [abs_node known]. unfold map_contains. rewrite Hp. cbn [is_some_of]. rewrite andb_false_r, orb_false_r. reflexivity.
Qed.

(** * NodeState::apply_payments

    The source (translated in state-passing style) creates a record for every hash of the two
    summaries and then books the channel's amounts into it with RoutedPayment::apply.  On the
    abstraction this is the model's [apply_payments]: [known h := true] and
    [led h ch := (incoming, outgoing)] for every hash, nothing else.  The issued-invoice marking in
    between (and the dummy preimage under enforce_balance) is outside the model: the theorem is
    stated for hashes without an issued invoice and with enforce_balance off, where that part does
    nothing.  The hash set is visited twice in the order [ord hashes]; the result does not depend
    on [ord]. *)
Definition new_payment : RoutedPayment := mk_RoutedPayment [] [] None None None.

Definition set_payments (ns : NodeState) (m : list (N * RoutedPayment)) : NodeState :=
  mk_NodeState (NodeState_invoices ns) (NodeState_issued_invoices ns) m (NodeState_excess_amount ns)
    (NodeState_log_prefix ns) (NodeState_velocity_control ns) (NodeState_fee_velocity_control ns)
    (NodeState_last_summary ns) (NodeState_dbid_high_water_mark ns) (NodeState_allowlist ns).

Definition ensure (ns : NodeState) (h : N) : NodeState :=
  set_payments ns (map_insert (NodeState_payments ns) h
                     (match map_get (NodeState_payments ns) h with Some v => v | None => new_payment end)).

Definition apply_rec (p : RoutedPayment) (ch i o : N) (ic oc : option N) : RoutedPayment :=
  mk_RoutedPayment (map_insert (RoutedPayment_incoming p) ch i) (map_insert (RoutedPayment_outgoing p) ch o)
    (match ic with
     | Some x => Some (match RoutedPayment_incoming_cltv_min p with Some e => N.min e x | None => x end)
     | None => RoutedPayment_incoming_cltv_min p
     end)
    (match oc with
     | Some x => Some (match RoutedPayment_outgoing_cltv_max p with Some e => N.max e x | None => x end)
     | None => RoutedPayment_outgoing_cltv_max p
     end)
    (RoutedPayment_preimage p).

Lemma gen_apply_rec prof p ch i o ic oc :
  gen_RoutedPayment_apply prof p ch i o ic oc = Val (apply_rec p ch i o ic oc).
Proof. destruct ic, oc; reflexivity. Qed.

(** the CLTV bounds the third loop reads off the commitment for a hash *)
Definition cltvs (ci : option CP.CommitmentInfo2) (h : N) : option N * option N :=
  match ci with
  | Some info =>
      let '(inh, outh) :=
        if CP.CommitmentInfo2_is_counterparty_broadcaster info
        then (CP.CommitmentInfo2_offered_htlcs info, CP.CommitmentInfo2_received_htlcs info)
        else (CP.CommitmentInfo2_received_htlcs info, CP.CommitmentInfo2_offered_htlcs info) in
      (min_of (map (fun x => CP.HTLCInfo2_cltv_expiry x) (filter (fun x => CP.HTLCInfo2_payment_hash x =? h) inh)),
       max_of (map (fun x => CP.HTLCInfo2_cltv_expiry x) (filter (fun x => CP.HTLCInfo2_payment_hash x =? h) outh)))
  | None => (None, None)
  end.

Definition book (ch : N) (im om : list (N * N)) (ci : option CP.CommitmentInfo2) (ns : NodeState) (h : N) : NodeState :=
  match map_get (NodeState_payments ns) h with
  | Some p => set_payments ns (map_insert (NodeState_payments ns) h
                                 (apply_rec p ch (get0 im h) (get0 om h) (fst (cltvs ci h)) (snd (cltvs ci h))))
  | None => ns
  end.

Lemma fold_r_pure {S A} (body : S -> A -> trap (result S)) (f : S -> A -> S) (P : S -> Prop) l :
  (forall s a, P s -> In a l -> body s a = Val (OkR (f s a)) /\ P (f s a)) ->
  forall s, P s -> fold_r body l s = Val (OkR (fold_left f l s)) /\ P (fold_left f l s).
Proof.
  induction l as [|a r IH]; intros Hb s Hs; cbn [fold_r fold_left]; [split; [reflexivity | exact Hs]|].
  destruct (Hb s a Hs (or_introl eq_refl)) as [E Ps]. rewrite E. cbn [bindR].
  apply IH; [|exact Ps]. intros s' a' Hs' Ha'. apply Hb; [exact Hs' | right; exact Ha'].
Qed.

(** what the two folds leave in the payments map *)
Lemma ensure_fold l : forall ns x,
  NodeState_invoices (fold_left ensure l ns) = NodeState_invoices ns /\
  NodeState_issued_invoices (fold_left ensure l ns) = NodeState_issued_invoices ns /\
  map_get (NodeState_payments (fold_left ensure l ns)) x =
  match map_get (NodeState_payments ns) x with
  | Some v => Some v
  | None => if existsb (N.eqb x) l then Some new_payment else None
  end.
Proof.
  induction l as [|h r IH]; intros ns x; cbn [fold_left existsb].
  - repeat split. destruct (map_get (NodeState_payments ns) x); reflexivity.
  - destruct (IH (ensure ns h) x) as (A & B & C). rewrite A, B, C.
    unfold ensure. cbn [set_payments NodeState_invoices NodeState_issued_invoices NodeState_payments].
    repeat split. rewrite map_get_insert. rewrite (N.eqb_sym x h).
    destruct (h =? x) eqn:E.
    + apply N.eqb_eq in E. subst x. destruct (map_get (NodeState_payments ns) h); reflexivity.
    + cbn [orb]. reflexivity.
Qed.

Lemma book_fold ch im om ci l : forall ns x,
  NodeState_invoices (fold_left (book ch im om ci) l ns) = NodeState_invoices ns /\
  (is_some_of (map_get (NodeState_payments (fold_left (book ch im om ci) l ns)) x) =
   is_some_of (map_get (NodeState_payments ns) x)) /\
  (forall p, map_get (NodeState_payments ns) x = Some p ->
     exists p', map_get (NodeState_payments (fold_left (book ch im om ci) l ns)) x = Some p' /\
       RoutedPayment_preimage p' = RoutedPayment_preimage p /\
       forall c, (get0 (RoutedPayment_incoming p') c, get0 (RoutedPayment_outgoing p') c) =
                 if existsb (N.eqb x) l && (c =? ch) then (get0 im x, get0 om x)
                 else (get0 (RoutedPayment_incoming p) c, get0 (RoutedPayment_outgoing p) c)).
Proof.
  induction l as [|h r IH]; intros ns x; cbn [fold_left existsb].
  - split; [reflexivity|]. split; [reflexivity|]. intros p Hp. exists p. split; [exact Hp|]. split; [reflexivity|]. intros c. reflexivity.
  - destruct (IH (book ch im om ci ns h) x) as (A & B & C). rewrite A, B. clear A B.
    unfold book at 1 2 3. destruct (map_get (NodeState_payments ns) h) as [ph|] eqn:Hh;
      cbn [set_payments NodeState_invoices NodeState_payments].
    + split; [reflexivity|]. split.
      * rewrite map_get_insert. destruct (h =? x) eqn:E; [|reflexivity].
        apply N.eqb_eq in E. subst x. rewrite Hh. reflexivity.
      * intros p Hp.
        assert (Hx : exists q, map_get (NodeState_payments (book ch im om ci ns h)) x = Some q /\
                       RoutedPayment_preimage q = RoutedPayment_preimage p /\
                       forall c, (get0 (RoutedPayment_incoming q) c, get0 (RoutedPayment_outgoing q) c) =
                                 if (x =? h) && (c =? ch) then (get0 im x, get0 om x)
                                 else (get0 (RoutedPayment_incoming p) c, get0 (RoutedPayment_outgoing p) c)).
        { unfold book. rewrite Hh. cbn [set_payments NodeState_payments]. rewrite map_get_insert.
          rewrite (N.eqb_sym x h). destruct (h =? x) eqn:E.
          - apply N.eqb_eq in E. subst x. rewrite Hh in Hp. injection Hp as <-.
            eexists. split; [reflexivity|]. split; [reflexivity|].
            intros c. cbn [apply_rec RoutedPayment_incoming RoutedPayment_outgoing]. rewrite !get0_insert.
            destruct (c =? ch); reflexivity.
          - exists p. split; [exact Hp|]. split; [reflexivity|]. intros c. reflexivity. }
        destruct Hx as (q & Hq & Hpre & Hled).
        destruct (C q Hq) as (p' & Hp' & Hpre' & Hled'). exists p'. split; [exact Hp'|].
        split; [congruence|]. intros c. rewrite Hled', Hled.
        destruct (existsb (N.eqb x) r) eqn:Er; destruct (x =? h) eqn:Eh; destruct (c =? ch) eqn:Ec;
          cbn [orb andb]; reflexivity.
    + split; [reflexivity|]. split; [reflexivity|].
      intros p Hp. destruct (C p) as (p' & Hp' & Hpre' & Hled').
      { unfold book. rewrite Hh. exact Hp. }
      exists p'. split; [exact Hp'|]. split; [exact Hpre'|]. intros c. rewrite Hled'.
      destruct (x =? h) eqn:Eh; [|reflexivity].
      apply N.eqb_eq in Eh. subst x. congruence.
Qed.

Lemma existsb_in x l : existsb (N.eqb x) l = true <-> In x l.
Proof.
  rewrite existsb_exists. split.
  - intros (y & Hy & E). apply N.eqb_eq in E. subst y. exact Hy.
  - intros H. exists x. split; [exact H | apply N.eqb_refl].
Qed.

Lemma existsb_same x l l' : (forall h, In h l <-> In h l') -> existsb (N.eqb x) l = existsb (N.eqb x) l'.
Proof.
  intros H. destruct (existsb (N.eqb x) l) eqn:E, (existsb (N.eqb x) l') eqn:E'; try reflexivity.
  - apply existsb_in, H, existsb_in in E. congruence.
  - apply existsb_in, H, existsb_in in E'. congruence.
Qed.

(** the model's fold in closed form *)
Lemma model_apply_closed p nh nc ch l : forall k ld,
  (forall x, fst (fold_left (apply_one p nh nc ch) l (k, ld)) x = k x || existsb (N.eqb x) l) /\
  (forall x c, snd (fold_left (apply_one p nh nc ch) l (k, ld)) x c =
               if existsb (N.eqb x) l && (c =? ch) then (in_val p nh nc x, out_val p nh nc x) else ld x c).
Proof.
  induction l as [|h r IH]; intros k ld; cbn [fold_left existsb].
  - split; intros x; [rewrite orb_false_r; reflexivity | intros c; reflexivity].
  - unfold apply_one at 2 4. cbn [fst snd].
    destruct (IH (upd k h true) (upd ld h (upd (ld h) ch (in_val p nh nc h, out_val p nh nc h)))) as [A B].
    split.
    + intros x. rewrite A. unfold upd. destruct (x =? h); destruct (k x); reflexivity.
    + intros x c. rewrite B. unfold upd.
      destruct (existsb (N.eqb x) r); destruct (x =? h) eqn:Eh; destruct (c =? ch) eqn:Ec; cbn [orb andb];
        try reflexivity; apply N.eqb_eq in Eh; subst x; reflexivity.
Qed.

Lemma fold_pair_fst {A} (f : NodeState -> A -> NodeState) (l : list A) : forall (s : NodeState) (fii : list N),
  fold_left (fun (st : NodeState * list N) h => (f (fst st) h, snd st)) l (s, fii) = (fold_left f l s, fii).
Proof. induction l as [|a r IH]; intros s fii; cbn [fold_left fst snd]; [reflexivity | apply IH]. Qed.

Theorem gen_apply_payments_is_model prof swarn gp (ord : list N -> list N) dp chs ns ch im om bd vid ci nh nc :
  (forall l, Permutation (ord l) l) ->
  CP.SimplePolicy_enforce_balance gp = false ->
  let hashes := set_extend (set_extend [] (map_keys im)) (map_keys om) in
  (forall h, In h hashes -> map_get (NodeState_issued_invoices ns) h = None) ->
  (forall h, hget im h = in_val (chs ch) nh nc h) ->
  (forall h, hget om h = out_val (chs ch) nh nc h) ->
  (forall h, In h hashes <-> In h (sum_keys (chs ch) nh nc)) ->
  exists ns',
    gen_NodeState_apply_payments prof swarn gp ord dp ns ch im om bd vid ci = Val (OkR ns') /\
    let s' := apply_payments (abs_node chs ns) ch nh nc in
    (forall x, known (abs_node chs ns') x = known s' x) /\
    (forall x c, led (abs_node chs ns') x c = led s' x c) /\
    (forall x, inv (abs_node chs ns') x = inv s' x) /\
    (forall x, pre (abs_node chs ns') x = pre s' x).
Proof.
  intros Hord Henf hashes Hiss Hi Ho Hk.
  set (l := ord hashes).
  assert (Hl : forall h, In h l -> In h hashes)
    by (intros h Hh; eapply Permutation_in; [apply Hord | exact Hh]).
  assert (Hl' : forall h, In h hashes -> In h l)
    by (intros h Hh; eapply Permutation_in; [apply Permutation_sym, Hord | exact Hh]).
  set (ns1 := fold_left ensure l ns).
  set (ns3 := fold_left (book ch im om ci) l ns1).
  exists ns3. split.
  - unfold gen_NodeState_apply_payments. cbv beta zeta. fold hashes. fold l.
    unfold gen_enforce_balance. rewrite Henf.
    (* the first loop: a record for every hash *)
    match goal with
    | |- bindR (fold_r ?B1 l (ns, [])) _ = _ =>
        destruct (fold_r_pure B1 (fun st h => (ensure (fst st) h, snd st))
                    (fun st => NodeState_issued_invoices (fst st) = NodeState_issued_invoices ns /\ snd st = []) l) with (s := (ns, @nil N)) as [E1 _]
    end.
    { intros [s fii] h [Ps Pf] Hin. cbn [fst snd] in *. subst fii. cbv beta iota zeta.
      unfold gen_RoutedPayment_new. cbv beta zeta.
      assert (Hnone : map_get (NodeState_issued_invoices s) h = None) by (rewrite Ps; apply Hiss, Hl, Hin).
      destruct (map_get (NodeState_payments s) h) as [v|] eqn:Ev; cbn [bindT NodeState_issued_invoices];
        rewrite Hnone; cbn [bindR]; unfold ensure, set_payments, new_payment; rewrite Ev; (split; [reflexivity | split; [exact Ps | reflexivity]]). }
    { split; reflexivity. }
    rewrite E1. clear E1. rewrite (fold_pair_fst ensure l ns []). fold ns1.
    cbn [bindR fold_r bindT].
    (* the third loop: the amounts are booked *)
    match goal with
    | |- bindR (fold_r ?B3 l ns1) _ = _ =>
        destruct (fold_r_pure B3 (book ch im om ci)
                    (fun st => forall h, In h l -> is_some_of (map_get (NodeState_payments st) h) = true) l) with (s := ns1) as [E3 _]
    end.
    { intros s h Ps Hin. cbv beta iota zeta.
      pose proof (Ps h Hin) as Hsome. destruct (map_get (NodeState_payments s) h) as [p|] eqn:Ep; [|discriminate Hsome].
      cbn [expect_some bindT].
      assert (Hc : (match ci with
                    | Some info =>
                        t9 <- (if CP.CommitmentInfo2_is_counterparty_broadcaster info
                               then Val (CP.CommitmentInfo2_offered_htlcs info, CP.CommitmentInfo2_received_htlcs info)
                               else Val (CP.CommitmentInfo2_received_htlcs info, CP.CommitmentInfo2_offered_htlcs info)) ;;
                        let '(incoming_htlcs, outgoing_htlcs) := t9 in
                        Val (OkR (min_of (map (fun x => CP.HTLCInfo2_cltv_expiry x) (filter (fun x => CP.HTLCInfo2_payment_hash x =? h) incoming_htlcs)),
                                  max_of (map (fun x => CP.HTLCInfo2_cltv_expiry x) (filter (fun x => CP.HTLCInfo2_payment_hash x =? h) outgoing_htlcs))))
                    | None => Val (OkR (None, None))
                    end) = Val (OkR (cltvs ci h))).
      { unfold cltvs. destruct ci as [info|]; [|reflexivity].
        destruct (CP.CommitmentInfo2_is_counterparty_broadcaster info); reflexivity. }
      rewrite Hc. cbn [bindR]. destruct (cltvs ci h) as [ic oc] eqn:Ecl.
      rewrite gen_apply_rec. cbn [bindT].
      split.
      - unfold book. rewrite Ep, Ecl. reflexivity.
      - intros h' Hh'. destruct (book_fold ch im om ci [h] s h') as (_ & B & _). cbn [fold_left] in B.
        rewrite B. apply Ps, Hh'. }
    { intros h Hh. subst ns1. destruct (ensure_fold l ns h) as (_ & _ & C). rewrite C.
      destruct (map_get (NodeState_payments ns) h); [reflexivity|].
      replace (existsb (N.eqb h) l) with true by (symmetry; apply existsb_in; exact Hh). reflexivity. }
    rewrite E3. reflexivity.
  - (* the abstraction of the state left behind is the model's apply_payments *)
    cbv zeta. unfold apply_payments. change (chans (abs_node chs ns) ch) with (chs ch).
    destruct (model_apply_closed (chs ch) nh nc ch (sum_keys (chs ch) nh nc)
                (known (abs_node chs ns)) (led (abs_node chs ns))) as [MK ML].
    destruct (fold_left (apply_one (chs ch) nh nc ch) (sum_keys (chs ch) nh nc)
                (known (abs_node chs ns), led (abs_node chs ns))) as [k' l'] eqn:EF.
    cbn [fst snd] in MK, ML. cbv beta iota. cbn [known led inv pre].
    assert (Hex : forall x, existsb (N.eqb x) l = existsb (N.eqb x) (sum_keys (chs ch) nh nc)).
    { intros x. apply existsb_same. intros h. rewrite <- Hk. split; [apply Hl | apply Hl']. }
    assert (H1 : forall x, NodeState_invoices ns3 = NodeState_invoices ns /\
                 map_get (NodeState_payments ns1) x =
                 match map_get (NodeState_payments ns) x with
                 | Some v => Some v
                 | None => if existsb (N.eqb x) l then Some new_payment else None
                 end).
    { intros x. subst ns3 ns1. destruct (book_fold ch im om ci l (fold_left ensure l ns) x) as (A & _ & _).
      destruct (ensure_fold l ns x) as (A' & _ & C'). split; [congruence | exact C']. }
    repeat split.
    + (* known *)
      intros x. rewrite MK. cbn [abs_node known]. unfold map_contains.
      destruct (book_fold ch im om ci l ns1 x) as (_ & B & _). fold ns3 in B. rewrite B.
      destruct (H1 x) as [_ C]. rewrite C, <- Hex.
      destruct (map_get (NodeState_payments ns) x); [reflexivity|].
      destruct (existsb (N.eqb x) l); reflexivity.
    + (* the ledger *)
      intros x c. rewrite ML, <- Hex, <- Hi, <- Ho, !hget_get0. cbn [abs_node led].
      destruct (H1 x) as [_ C].
      destruct (book_fold ch im om ci l ns1 x) as (_ & B & D). fold ns3 in B, D.
      destruct (map_get (NodeState_payments ns1) x) as [p1|] eqn:E1.
      * destruct (D p1 eq_refl) as (p' & Hp' & _ & Hled). rewrite Hp', Hled.
        destruct (map_get (NodeState_payments ns) x) as [p0|] eqn:E0.
        -- injection C as ->. reflexivity.
        -- destruct (existsb (N.eqb x) l); [|discriminate C]. injection C as ->.
           destruct (c =? ch); reflexivity.
      * cbn [is_some_of] in B.
        destruct (map_get (NodeState_payments ns3) x); [discriminate B|].
        destruct (map_get (NodeState_payments ns) x); [discriminate C|].
        destruct (existsb (N.eqb x) l); [discriminate C|]. reflexivity.
    + (* invoices *)
      intros x. destruct (H1 x) as [A _]. cbn [abs_node inv]. rewrite A. reflexivity.
    + (* preimages *)
      intros x. cbn [abs_node pre].
      destruct (H1 x) as [_ C].
      destruct (book_fold ch im om ci l ns1 x) as (_ & B & D). fold ns3 in B, D.
      destruct (map_get (NodeState_payments ns1) x) as [p1|] eqn:E1.
      * destruct (D p1 eq_refl) as (p' & Hp' & Hpre & _). rewrite Hp', Hpre.
        destruct (map_get (NodeState_payments ns) x) as [p0|].
        -- injection C as ->. reflexivity.
        -- destruct (existsb (N.eqb x) l); [|discriminate C]. injection C as ->. reflexivity.
      * cbn [is_some_of] in B.
        destruct (map_get (NodeState_payments ns3) x); [discriminate B|].
        destruct (map_get (NodeState_payments ns) x); [discriminate C | reflexivity].
Qed.

(** * prune_forwarded_payments: the payment-record part of the heartbeat *)

(** [retain] with a closure that decides by [q], never panics and raises a flag when it drops an entry *)
Lemma retain_st_flag {V} (f : bool -> N -> V -> trap (result (bool * bool))) (q : N -> V -> bool) (m : list (N * V)) :
  (forall s k v, In (k, v) m -> f s k v = Val (OkR (if q k v then true else s, negb (q k v)))) ->
  forall s, map_retain_st m f s =
            Val (OkR (filter (fun e => negb (q (fst e) (snd e))) m, s || existsb (fun e => q (fst e) (snd e)) m)).
Proof.
  induction m as [|[k v] r IH]; intros Hf s; cbn [map_retain_st filter existsb fst snd].
  - rewrite orb_false_r. reflexivity.
  - rewrite Hf by (left; reflexivity). cbn [bindR].
    rewrite IH by (intros s' k' v' Hin; apply Hf; right; exact Hin). cbn [bindR].
    destruct (q k v); cbn [negb orb]; rewrite ?orb_true_r; reflexivity.
Qed.

Lemma in_map_get {V} (m : list (N * V)) k v : NoDup (map_keys m) -> In (k, v) m -> map_get m k = Some v.
Proof.
  induction m as [|[a w] r IH]; intros ND Hin; [destruct Hin|].
  cbn [map_keys map fst] in ND. inversion ND as [|a' l' Hn ND']; subst.
  cbn [map_get]. destruct Hin as [E|Hin].
  - injection E as -> ->. rewrite N.eqb_refl. reflexivity.
  - destruct (a =? k) eqn:E.
    + apply N.eqb_eq in E. subst a. exfalso. apply Hn. apply in_map_iff. exists (k, v). split; [reflexivity | exact Hin].
    + apply IH; assumption.
Qed.

Lemma filter_key_get {V} (m : list (N * V)) (g : N -> bool) x :
  map_get (filter (fun e => g (fst e)) m) x = if g x then map_get m x else None.
Proof.
  induction m as [|[k v] r IH]; cbn [filter map_get fst].
  - destruct (g x); reflexivity.
  - destruct (g k) eqn:K; cbn [map_get]; destruct (k =? x) eqn:E.
    + apply N.eqb_eq in E. subst x. rewrite K. reflexivity.
    + exact IH.
    + apply N.eqb_eq in E. subst x. rewrite IH, K. reflexivity.
    + exact IH.
Qed.

Lemma sum_zero_get0 m c : sum_N (map_values m) = 0 -> get0 m c = 0.
Proof. intros H. pose proof (get0_le_sum m c). lia. Qed.

Lemma existsb_keys {V} (g : N -> bool) (m : list (N * V)) :
  existsb (fun e => g (fst e)) m = existsb g (map_keys m).
Proof. unfold map_keys. induction m as [|a r IH]; cbn [map existsb]; [reflexivity | rewrite IH; reflexivity]. Qed.

(** what the heartbeat drops: the model's [prunable] records for which no invoice was issued *)
Definition pruned (nch : nat) (chs : N -> pchan) (ns : NodeState) (h : N) : bool :=
  prunable nch (abs_node chs ns) h && is_none_of (map_get (NodeState_issued_invoices ns) h).

Theorem gen_prune_step_is_model (nch : nat) (mf mp : N) prof chs ns :
  wf_node nch ns ->
  NoDup (map_keys (NodeState_payments ns)) ->
  (forall h p, map_get (NodeState_payments ns) h = Some p ->
               sum_N (map_values (RoutedPayment_incoming p)) <= U64MAX /\
               sum_N (map_values (RoutedPayment_outgoing p)) <= U64MAX) ->
  exists ns',
    gen_NodeState_prune_forwarded_payments prof ns =
      Val (OkR (ns', existsb (pruned nch chs ns) (map_keys (NodeState_payments ns)))) /\
    (forall x, known (abs_node chs ns') x = known (abs_node chs ns) x && negb (pruned nch chs ns x)) /\
    (forall x, pre (abs_node chs ns') x = pre (abs_node chs ns) x && negb (pruned nch chs ns x)) /\
    (forall x c, led (abs_node chs ns') x c = led (abs_node chs ns) x c) /\
    (forall x, inv (abs_node chs ns') x = inv (abs_node chs ns) x) /\
    NodeState_invoices ns' = NodeState_invoices ns /\
    NodeState_issued_invoices ns' = NodeState_issued_invoices ns /\
    ((forall x, known (abs_node chs ns) x = true -> prunable nch (abs_node chs ns) x = true ->
                map_get (NodeState_issued_invoices ns) x = None) ->
     let s' := fst (pstep nch mf mp (abs_node chs ns) PHeartbeat) in
     (forall x, known (abs_node chs ns') x = known s' x) /\
     (forall x, pre (abs_node chs ns') x = pre s' x) /\
     (forall x c, led (abs_node chs ns') x c = led s' x c) /\
     (forall x, inv (abs_node chs ns') x = inv s' x)).
Proof.
  intros Hwf ND Hfit.
  set (q := fun (k : N) (_ : RoutedPayment) => pruned nch chs ns k).
  set (pm := filter (fun e : N * RoutedPayment => negb (q (fst e) (snd e))) (NodeState_payments ns)).
  assert (Hget : forall x, map_get pm x = if negb (pruned nch chs ns x) then map_get (NodeState_payments ns) x else None).
  { intros x. subst pm q. cbv beta. apply (filter_key_get (NodeState_payments ns) (fun k => negb (pruned nch chs ns k))). }
  eexists. split.
  { unfold gen_NodeState_prune_forwarded_payments. cbv beta zeta.
    rewrite (retain_st_flag _ q).
    - cbn [bindR orb]. subst q. cbv beta.
      rewrite (existsb_keys (pruned nch chs ns) (NodeState_payments ns)).
      reflexivity.
    - intros s k v Hin. pose proof (in_map_get _ k v ND Hin) as Hk.
      destruct (Hfit k v Hk) as [Fi Fo].
      rewrite (gen_prunable_is_model nch prof chs ns k v Hwf Hk Fi Fo). cbn [bindT].
      subst q. cbv beta. fold (pruned nch chs ns k).
      destruct (pruned nch chs ns k); reflexivity. }
  fold pm.
  assert (Hknown : forall x, map_contains pm x = map_contains (NodeState_payments ns) x && negb (pruned nch chs ns x)).
  { intros x. unfold map_contains. rewrite Hget.
    destruct (pruned nch chs ns x); cbn [negb]; rewrite ?andb_true_r, ?andb_false_r; reflexivity. }
  assert (Hpre : forall x, match map_get pm x with Some p => is_some_of (RoutedPayment_preimage p) | None => false end =
                           match map_get (NodeState_payments ns) x with Some p => is_some_of (RoutedPayment_preimage p) | None => false end
                           && negb (pruned nch chs ns x)).
  { intros x. rewrite Hget.
    destruct (pruned nch chs ns x); cbn [negb]; rewrite ?andb_true_r, ?andb_false_r; reflexivity. }
  assert (Hled : forall x c, match map_get pm x with
                             | Some p => (get0 (RoutedPayment_incoming p) c, get0 (RoutedPayment_outgoing p) c)
                             | None => (0, 0) end =
                             match map_get (NodeState_payments ns) x with
                             | Some p => (get0 (RoutedPayment_incoming p) c, get0 (RoutedPayment_outgoing p) c)
                             | None => (0, 0) end).
  { intros x c. rewrite Hget. destruct (pruned nch chs ns x) eqn:Q; cbn [negb]; [|reflexivity].
    destruct (map_get (NodeState_payments ns) x) as [p|] eqn:Hp; [|reflexivity].
    unfold pruned in Q. apply andb_prop in Q. destruct Q as [Q _].
    destruct (totals_some nch chs ns x p Hwf Hp) as [Ti To].
    unfold prunable in Q. destruct (inv (abs_node chs ns) x); [discriminate Q|].
    apply andb_prop in Q. destruct Q as [Qi Qo]. apply N.eqb_eq in Qi. apply N.eqb_eq in Qo.
    rewrite Ti in Qi. rewrite To in Qo.
    rewrite (sum_zero_get0 _ c Qi), (sum_zero_get0 _ c Qo). reflexivity. }
  cbn [abs_node known pre led inv NodeState_payments NodeState_invoices NodeState_issued_invoices].
  split; [exact Hknown|]. split; [exact Hpre|]. split; [exact Hled|].
  split; [reflexivity|]. split; [reflexivity|]. split; [reflexivity|].
  intros Hiss. cbn [pstep fst known pre led inv abs_node].
  assert (Hq : forall x, map_contains (NodeState_payments ns) x = true ->
                         pruned nch chs ns x = prunable nch (abs_node chs ns) x).
  { intros x Hx. unfold pruned. destruct (prunable nch (abs_node chs ns) x) eqn:Q; [|reflexivity].
    rewrite (Hiss x Hx Q). reflexivity. }
  split; [|split; [|split]].
  - intros x. rewrite Hknown. destruct (map_contains (NodeState_payments ns) x) eqn:Hx; [|reflexivity].
    rewrite (Hq x Hx). reflexivity.
  - intros x. rewrite Hpre. destruct (map_get (NodeState_payments ns) x) as [p|] eqn:Hp; [|reflexivity].
    rewrite (Hq x) by (unfold map_contains; rewrite Hp; reflexivity). reflexivity.
  - exact Hled.
  - reflexivity.
Qed.
