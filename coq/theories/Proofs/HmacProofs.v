(** Proofs about Model/Hmac.v: which modifications of authenticated external state change
    the MACed byte string (and hence, for an injective MAC, the tag), and which do not. *)
From VLS Require Import Base.Eqb Model.Hmac Model.HmacCheck.

(** ** Lists *)
Lemma app_eq_len {A} (l1 l1' l2 l2' : list A) :
  l1 ++ l2 = l1' ++ l2' -> length l1 = length l1' -> l1 = l1' /\ l2 = l2'.
Proof.
  revert l1'. induction l1 as [|a l1 IH]; intros [|a' l1'] H L; cbn [app length] in *;
    try discriminate.
  - split; [reflexivity | exact H].
  - inversion H; subst. inversion L as [L']. destruct (IH _ H2 L') as [-> ->].
    split; reflexivity.
Qed.

Lemma bytes_beq_eq (a b : bytes) : beq a b = true <-> a = b.
Proof. apply (list_eqb_ok _ Eqb_N_ok). Qed.

Lemma bytes_beq_refl (a : bytes) : beq a a = true.
Proof. apply bytes_beq_eq. reflexivity. Qed.

(** ** Big-endian integers *)
Lemma be_bytes_length n : forall v, length (be_bytes n v) = n.
Proof.
  induction n as [|n IH]; intros v; cbn [be_bytes]; [reflexivity|].
  rewrite app_length, IH. cbn [length]. lia.
Qed.

Lemma be_bytes_inj n : forall v v',
  be_bytes n v = be_bytes n v' -> v mod 256 ^ N.of_nat n = v' mod 256 ^ N.of_nat n.
Proof.
  induction n as [|n IH]; intros v v' H.
  - change (N.of_nat 0) with 0. rewrite N.pow_0_r, !N.mod_1_r. reflexivity.
  - cbn [be_bytes] in H. apply app_inj_tail in H. destruct H as [H1 H2].
    apply IH in H1.
    replace (N.of_nat (S n)) with (N.succ (N.of_nat n)) by lia.
    rewrite N.pow_succ_r'.
    assert (P : 256 ^ N.of_nat n <> 0) by (apply N.pow_nonzero; lia).
    rewrite !(N.mod_mul_r _ 256 (256 ^ N.of_nat n)) by (trivial; lia).
    rewrite H1, H2. reflexivity.
Qed.

Lemma be64_length v : length (be64 v) = 8%nat.
Proof. apply be_bytes_length. Qed.

Lemma be64_inj v v' : v < two64 -> v' < two64 -> be64 v = be64 v' -> v = v'.
Proof.
  intros Hv Hv' H. apply be_bytes_inj in H.
  replace (256 ^ N.of_nat 8) with two64 in H by (vm_compute; reflexivity).
  rewrite !N.mod_small in H by assumption. exact H.
Qed.

(** ** One record followed by anything: the framing is recovered from the lengths *)
Lemma ser_value_inj_len k v x k' v' x' R R' :
  v < two64 -> v' < two64 -> length k = length k' ->
  (length x = length x' \/ (R = [] /\ R' = [])) ->
  ser_value k v x ++ R = ser_value k' v' x' ++ R' ->
  k = k' /\ v = v' /\ x = x' /\ R = R'.
Proof.
  unfold ser_value. intros Hv Hv' Lk Hx H.
  rewrite <- !app_assoc in H.
  apply app_eq_len in H; [|exact Lk]. destruct H as [-> H].
  apply app_eq_len in H; [|rewrite !be64_length; reflexivity].
  destruct H as [Hb H]. apply be64_inj in Hb; trivial. subst v'.
  destruct Hx as [Lx | [-> ->]].
  - apply app_eq_len in H; [|exact Lx]. destruct H as [-> ->]. repeat split; reflexivity.
  - rewrite !app_nil_r in H. subst. repeat split; reflexivity.
Qed.

Lemma ser_value_inj k v x k' v' x' :
  v < two64 -> v' < two64 -> length k = length k' ->
  ser_value k v x = ser_value k' v' x' -> k = k' /\ v = v' /\ x = x'.
Proof.
  intros Hv Hv' Lk H.
  destruct (ser_value_inj_len k v x k' v' x' [] []) as (A & B & C & _); trivial.
  - right; split; reflexivity.
  - rewrite !app_nil_r. exact H.
  - repeat split; assumption.
Qed.

(** ** Record lists *)
Lemma rec_diff_cons_none r t r' t' :
  rec_diff (r :: t) (r' :: t') = None ->
  length (rkey r) = length (rkey r') /\
  ((t = [] /\ t' = []) \/ (length (rval r) = length (rval r') /\ rec_diff t t' = None)).
Proof.
  cbn [rec_diff].
  destruct (Nat.eqb_spec (length (rkey r)) (length (rkey r'))) as [Lk|]; cbn [negb];
    [|discriminate].
  intros D. split; [exact Lk|].
  destruct t as [|r2 t2], t' as [|r2' t2']; [left; split; reflexivity| | |];
    (destruct (Nat.eqb_spec (length (rval r)) (length (rval r'))) as [Lx|]; cbn [negb] in D;
     [right; split; [exact Lx | exact D] | discriminate]).
Qed.

Lemma record_eta (r r' : record) :
  rkey r = rkey r' -> rver r = rver r' -> rval r = rval r' -> r = r'.
Proof.
  destruct r as [[? ?] ?], r' as [[? ?] ?]. unfold rkey, rver, rval. cbn [fst snd].
  intros -> -> ->. reflexivity.
Qed.

Lemma ser_records_inj rs : forall rs',
  wf_records rs -> wf_records rs' -> rec_diff rs rs' = None ->
  ser_records rs = ser_records rs' -> rs = rs'.
Proof.
  induction rs as [|r t IH]; intros [|r' t'] W W' D H; try (cbn [rec_diff] in D; discriminate).
  - reflexivity.
  - destruct (rec_diff_cons_none _ _ _ _ D) as [Lk Ht].
    inversion W as [|? ? Wr Wt]; inversion W' as [|? ? Wr' Wt']; subst.
    cbn [ser_records] in H. unfold ser_record in H.
    assert (Hx : length (rval r) = length (rval r') \/
                 (ser_records t = [] /\ ser_records t' = [])).
    { destruct Ht as [[-> ->] | [Lx _]]; [right; split; reflexivity | left; exact Lx]. }
    apply ser_value_inj_len in H; try assumption.
    destruct H as (Hk & Hv & Hxx & HR).
    assert (r = r') by (apply record_eta; assumption). subst r'. f_equal.
    destruct Ht as [[-> ->] | [_ Dt]]; [reflexivity | apply IH; assumption].
Qed.

Lemma ser_input_inj s a b :
  wf_input a -> wf_input b -> in_diff a b = None ->
  ser_input s a = ser_input s b -> a = b.
Proof.
  unfold in_diff, ser_input, ser_shared, wf_input. destruct a as [n rs], b as [n' rs'].
  cbn [fst snd]. intros W W' D H.
  destruct (Nat.eqb_spec (length n) (length n')) as [Ln|]; cbn [negb] in D; [|discriminate].
  apply app_inv_head in H. apply app_eq_len in H; [|exact Ln]. destruct H as [-> H].
  f_equal. apply ser_records_inj; assumption.
Qed.

(** every collision of the serialisation is a framing difference *)
Lemma collisions_are_known s a b :
  wf_input a -> wf_input b -> a <> b -> ser_input s a = ser_input s b -> Known a b.
Proof.
  intros W W' N H E. apply N. eapply ser_input_inj; eassumption.
Qed.

Lemma known_cases a b :
  Known a b <->
  in_diff a b = Some NonceKey \/ in_diff a b = Some KeyVersion \/ in_diff a b = Some MergeSplit.
Proof.
  unfold Known. destruct (in_diff a b) as [[| |]|]; split; intros H;
    try (left; reflexivity); try (right; left; reflexivity); try (right; right; reflexivity);
    try discriminate.
  - exfalso. apply H. reflexivity.
  - destruct H as [H|[H|H]]; discriminate.
Qed.

Lemma nonce_class a b : in_diff a b = Some NonceKey <-> length (fst a) <> length (fst b).
Proof.
  unfold in_diff.
  destruct (Nat.eqb_spec (length (fst a)) (length (fst b))) as [E|NE]; cbn [negb].
  - split; [|intros H; exfalso; apply H; exact E].
    intros H. exfalso. revert H. generalize (snd a) (snd b).
    induction l as [|r t IH]; intros [|r' t']; cbn [rec_diff]; try discriminate.
    destruct (negb (length (rkey r) =? length (rkey r'))%nat); [discriminate|].
    destruct t, t'; try discriminate;
      (destruct (negb (length (rval r) =? length (rval r'))%nat); [discriminate|]);
      try apply IH; cbn [rec_diff]; discriminate.
  - split; [intros _; exact NE | reflexivity].
Qed.

(** same shapes, same nonce length: framed alike *)
Lemma rec_diff_same_shape rs : forall rs', map shape rs = map shape rs' -> rec_diff rs rs' = None.
Proof.
  induction rs as [|r t IH]; intros [|r' t'] H; cbn [map] in H; try discriminate.
  - reflexivity.
  - inversion H as [[Lk Lx Ht]]. cbn [rec_diff]. rewrite Lk, Nat.eqb_refl. cbn [negb].
    destruct t as [|r2 t2], t' as [|r2' t2']; cbn [map] in Ht; try discriminate.
    + reflexivity.
    + rewrite Lx, Nat.eqb_refl. cbn [negb]. apply IH. exact Ht.
Qed.

Lemma in_diff_same_shape n rs n' rs' :
  length n = length n' -> map shape rs = map shape rs' -> in_diff (n, rs) (n', rs') = None.
Proof.
  intros Ln Hs. unfold in_diff. cbn [fst snd]. rewrite Ln, Nat.eqb_refl. cbn [negb].
  apply rec_diff_same_shape. exact Hs.
Qed.

(** ** Bit flips *)
Lemma flip_bit_neq bit b : flip_bit bit b <> b.
Proof.
  unfold flip_bit. intros H.
  assert (E : N.lxor b (N.lxor b (2 ^ bit)) = 0) by (rewrite H; apply N.lxor_nilpotent).
  rewrite <- N.lxor_assoc, N.lxor_nilpotent, N.lxor_0_l in E.
  revert E. apply N.pow_nonzero. lia.
Qed.

Lemma flip_at_length i bit : forall l, length (flip_at i bit l) = length l.
Proof.
  induction i as [|i IH]; intros [|b t]; cbn [flip_at length]; try reflexivity.
  rewrite IH. reflexivity.
Qed.

Lemma flip_at_neq i bit : forall l, (i < length l)%nat -> flip_at i bit l <> l.
Proof.
  induction i as [|i IH]; intros [|b t] L; cbn [flip_at length] in *; try lia.
  - intros H. inversion H as [H']. revert H'. apply flip_bit_neq.
  - intros H. inversion H as [H']. revert H'. apply IH. lia.
Qed.

(** ** The value envelope of the storage client *)
Lemma split_tag_app y t : length t = 32%nat -> split_tag (y ++ t) = Some (y, t).
Proof.
  intros L. unfold split_tag. rewrite app_length, L.
  destruct (Nat.ltb_spec (length y + 32) 32); [lia|].
  replace (length y + 32 - 32)%nat with (length y) by lia.
  rewrite firstn_app, Nat.sub_diag, firstn_all, skipn_app, Nat.sub_diag, skipn_all.
  cbn [firstn skipn app]. rewrite app_nil_r. reflexivity.
Qed.

Lemma split_tag_spec st y t : split_tag st = Some (y, t) -> st = y ++ t /\ length t = 32%nat.
Proof.
  unfold split_tag. destruct (Nat.ltb_spec (length st) 32); [discriminate|].
  intros E. inversion E; subst. split.
  - symmetry. apply firstn_skipn.
  - rewrite skipn_length. lia.
Qed.

Section Tags.
  Variable mac : bytes -> bytes -> bytes.

  (** acceptance means: the last 32 bytes are the tag of (key, version, rest) *)
  Lemma get_accepts_only_tagged s k v st y :
    process_value_from_get mac s k v st = Some y ->
    exists t, st = y ++ t /\ length t = 32%nat /\ t = value_tag mac s k v y.
  Proof.
    unfold process_value_from_get. destruct (split_tag st) as [[y0 t]|] eqn:E; [|discriminate].
    destruct (beq t (value_tag mac s k v y0)) eqn:B; [|discriminate].
    intros H. inversion H; subst. apply split_tag_spec in E. destruct E as [E L].
    exists t. apply bytes_beq_eq in B. repeat split; assumption.
  Qed.

  Lemma get_roundtrip s k v x :
    length (value_tag mac s k v x) = 32%nat ->
    process_value_from_get mac s k v (prepare_value_for_put mac s k v x) = Some x.
  Proof.
    intros L. unfold process_value_from_get, prepare_value_for_put.
    rewrite split_tag_app by exact L. rewrite bytes_beq_refl. reflexivity.
  Qed.

  Lemma get_short s k v st : (length st < 32)%nat -> process_value_from_get mac s k v st = None.
  Proof.
    intros L. unfold process_value_from_get, split_tag.
    destruct (Nat.ltb_spec (length st) 32); [reflexivity | lia].
  Qed.

  Lemma secret_of_helper s ns : shared_secret (fold_left new_nonce ns (helper_new s)) = s.
  Proof.
    change s with (shared_secret (helper_new s)) at 2. generalize (helper_new s).
    induction ns as [|n t IH]; intros h; cbn [fold_left]; [reflexivity|].
    rewrite IH. reflexivity.
  Qed.

  (** the driver's use of [hquery] is the whole of the model's answer *)
  Lemma hquery_get_spec s k v st :
    process_value_from_get mac s k v st =
    match hquery (CGet s k v st) with
    | [key; m; t; y] => if beq t (mac key m) then Some y else None
    | _ => None
    end.
  Proof.
    unfold process_value_from_get, hquery, value_tag.
    destruct (split_tag st) as [[y t]|]; reflexivity.
  Qed.

  Lemma hquery_check_spec s ns rs recv :
    helper_check mac (fold_left new_nonce ns (helper_new s)) rs recv =
    match hquery (CCheck s ns rs recv) with
    | [key; m; r] => beq r (mac key m)
    | _ => false
    end.
  Proof.
    unfold helper_check, check_hmac, hquery, shared_tag, effective_nonce.
    rewrite secret_of_helper. reflexivity.
  Qed.

  Lemma hquery_value_spec s k v x :
    match hquery (CValue s k v x) with
    | [key; m; y] => prepare_value_for_put mac s k v x = y ++ mac key m
    | _ => False
    end.
  Proof. reflexivity. Qed.

  Lemma hquery_shared_spec s n rs :
    match hquery (CShared s n rs) with
    | [key; m] => shared_tag mac s n rs = mac key m
    | _ => False
    end.
  Proof. reflexivity. Qed.

  (** equal serialisations give equal tags, whatever the MAC *)
  Lemma equal_ser_equal_tag s a b : ser_input s a = ser_input s b -> input_tag mac s a = input_tag mac s b.
  Proof. unfold input_tag, shared_tag, ser_input. intros ->. reflexivity. Qed.

  (** ** With an injective MAC *)
  Hypothesis mac_inj : forall k m m', mac k m = mac k m' -> m = m'.

  Lemma value_tag_binding s k v x k' v' x' :
    v < two64 -> v' < two64 -> length k = length k' ->
    value_tag mac s k v x = value_tag mac s k' v' x' -> k = k' /\ v = v' /\ x = x'.
  Proof.
    intros Hv Hv' Lk H. apply mac_inj in H. apply ser_value_inj; assumption.
  Qed.

  (** a value that is accepted under (k', v') while carrying a tag the signer made for
      (k, v, x), with keys of one length: it is exactly what the signer wrote *)
  Lemma get_binding s k v x k' v' st y t y' :
    v < two64 -> v' < two64 ->
    st = y ++ t -> length t = 32%nat -> t = value_tag mac s k v x ->
    process_value_from_get mac s k' v' st = Some y' ->
    length k = length k' ->
    k' = k /\ v' = v /\ y' = x /\ st = prepare_value_for_put mac s k v x.
  Proof.
    intros Hv Hv' Hst Lt Ht Hacc Lk. subst st.
    unfold process_value_from_get in Hacc. rewrite split_tag_app in Hacc by exact Lt. cbv beta iota in Hacc.
    match type of Hacc with (if ?c then _ else _) = _ => destruct c eqn:B end; [|discriminate Hacc].
    inversion Hacc; subst y'. apply bytes_beq_eq in B. rewrite Ht in B.
    apply value_tag_binding in B; trivial. destruct B as (-> & -> & ->).
    repeat split; try reflexivity. unfold prepare_value_for_put. rewrite Ht. reflexivity.
  Qed.

  (** the stored bytes as the signer wrote them are accepted only under the key and the
      version they were written for (no condition on key lengths) *)
  Lemma get_unmodified s k v x k' v' y :
    v < two64 -> v' < two64 -> length (value_tag mac s k v x) = 32%nat ->
    process_value_from_get mac s k' v' (prepare_value_for_put mac s k v x) = Some y ->
    k' = k /\ v' = v /\ y = x.
  Proof.
    intros Hv Hv' L H. unfold process_value_from_get, prepare_value_for_put in H.
    rewrite split_tag_app in H by exact L. cbv beta iota in H.
    match type of H with (if ?c then _ else _) = _ => destruct c eqn:B end; [|discriminate H].
    inversion H; subst y. apply bytes_beq_eq in B. apply mac_inj in B.
    unfold ser_value in B. rewrite !app_assoc in B. apply app_inv_tail in B.
    apply app_eq_len in B.
    - destruct B as [-> B]. apply be64_inj in B; trivial. subst. repeat split; reflexivity.
    - apply (f_equal (@length N)) in B. rewrite !app_length, !be64_length in B. lia.
  Qed.

  Lemma value_bitflip_rejected s k v x i bit :
    (i < length x)%nat -> length (value_tag mac s k v x) = 32%nat ->
    process_value_from_get mac s k v (flip_at i bit x ++ value_tag mac s k v x) = None.
  Proof.
    intros Li L. unfold process_value_from_get. rewrite split_tag_app by exact L. cbv beta iota.
    match goal with |- (if ?c then _ else _) = _ => destruct c eqn:B end; [|reflexivity].
    exfalso. apply bytes_beq_eq in B. apply mac_inj in B. unfold ser_value in B.
    apply app_inv_head in B. apply app_inv_head in B.
    symmetry in B. revert B. apply flip_at_neq. exact Li.
  Qed.

  Lemma input_tag_binding s a b :
    wf_input a -> wf_input b -> ~ Known a b ->
    input_tag mac s a = input_tag mac s b -> a = b.
  Proof.
    intros W W' NK H. apply mac_inj in H.
    apply (ser_input_inj s); trivial.
    destruct (in_diff a b) eqn:E; [|reflexivity].
    exfalso. apply NK. unfold Known. rewrite E. discriminate.
  Qed.

  Lemma same_shape_binding s n rs n' rs' :
    wf_records rs -> wf_records rs' ->
    length n = length n' -> map shape rs = map shape rs' ->
    shared_tag mac s n rs = shared_tag mac s n' rs' -> n = n' /\ rs = rs'.
  Proof.
    intros W W' Ln Hs H.
    assert (E : (n, rs) = (n', rs')).
    { apply (input_tag_binding s); trivial.
      unfold Known. rewrite in_diff_same_shape by assumption. intros X. apply X. reflexivity. }
    inversion E. split; reflexivity.
  Qed.

  Lemma fresh_nonce s n rs n' rs' :
    length n = length n' -> shared_tag mac s n rs = shared_tag mac s n' rs' -> n = n'.
  Proof.
    intros Ln H. apply mac_inj in H. unfold ser_shared in H. apply app_inv_head in H.
    apply app_eq_len in H; [|exact Ln]. apply H.
  Qed.

  Lemma check_fresh h n rs n0 rs0 :
    helper_check mac (new_nonce h n) rs (shared_tag mac (shared_secret h) n0 rs0) = true ->
    length n0 = length n -> n0 = n.
  Proof.
    unfold helper_check, check_hmac, new_nonce. cbn [shared_secret last_nonce].
    intros H L. apply bytes_beq_eq in H. eapply fresh_nonce; eassumption.
  Qed.

  Lemma client_server_separated s rs rs' : client_hmac mac s rs <> server_hmac mac s rs'.
  Proof.
    unfold client_hmac, server_hmac. intros H. apply fresh_nonce in H; [discriminate H|reflexivity].
  Qed.

  Lemma truncation_detected s a b :
    length (ser_input s a) <> length (ser_input s b) -> input_tag mac s a <> input_tag mac s b.
  Proof.
    intros L H. apply L. apply mac_inj in H. unfold ser_input. rewrite H. reflexivity.
  Qed.
End Tags.

(** ** The start-up read (init_state) *)
Lemma ser_records_nil rs : ser_records rs = [] -> rs = [].
Proof.
  destruct rs as [|r t]; [reflexivity|]. cbn [ser_records]. unfold ser_record, ser_value.
  intros H. apply (f_equal (@length N)) in H. rewrite !app_length, be64_length in H.
  cbn [length] in H. lia.
Qed.

Section InitState.
  Variable mac : bytes -> bytes -> bytes.

  Lemma init_state_accepts_tagged s n rs t l :
    init_state mac s n rs t = Some l -> l = rs /\ t = shared_tag mac s n rs.
  Proof.
    unfold init_state, check_hmac. destruct (beq t (shared_tag mac s n rs)) eqn:E; [|discriminate].
    intros H. inversion H; subst l. split; [reflexivity | apply bytes_beq_eq; exact E].
  Qed.

  Lemma init_state_authentic s n rs : init_state mac s n rs (shared_tag mac s n rs) = Some rs.
  Proof. unfold init_state, check_hmac. rewrite bytes_beq_refl. reflexivity. Qed.

  Lemma hquery_init_spec s n rs t :
    init_state mac s n rs t =
    match hquery (CInit s n rs t) with
    | [key; m; r] => if beq r (mac key m) then Some rs else None
    | _ => None
    end.
  Proof. reflexivity. Qed.

  Hypothesis mac_inj : forall k m m', mac k m = mac k m' -> m = m'.

  (** an accepted reply is the list the server authenticated: [t] is a tag the server made, for
      the records [rs0] under a nonce [n0] of the length of the read's nonce *)
  Lemma init_state_accepts_authenticated s n rs t l n0 rs0 :
    wf_records rs -> wf_records rs0 ->
    t = shared_tag mac s n0 rs0 -> length n0 = length n ->
    init_state mac s n rs t = Some l ->
    n0 = n /\ (~ Known (n, rs) (n, rs0) -> l = rs0).
  Proof.
    intros W W0 Ht Ln H. apply init_state_accepts_tagged in H. destruct H as [-> H].
    rewrite Ht in H. assert (E : n0 = n) by (eapply (fresh_nonce mac mac_inj); eassumption).
    subst n0. split; [reflexivity|]. intros NK.
    assert (X : (n, rs) = (n, rs0)).
    { apply (input_tag_binding mac mac_inj s); trivial. unfold input_tag. cbn [fst snd]. symmetry. exact H. }
    inversion X. reflexivity.
  Qed.

  (** "the store is empty" is accepted only when the server authenticated the empty list — no
      framing caveat, no condition on the records *)
  Lemma init_state_empty_authenticated s n t l n0 rs0 :
    t = shared_tag mac s n0 rs0 -> length n0 = length n ->
    init_state mac s n [] t = Some l -> n0 = n /\ rs0 = [] /\ l = [].
  Proof.
    intros Ht Ln H. apply init_state_accepts_tagged in H. destruct H as [-> H].
    rewrite Ht in H. apply mac_inj in H. unfold ser_shared in H. apply app_inv_head in H.
    apply app_eq_len in H; [|exact Ln]. destruct H as [-> H]. cbn [ser_records] in H.
    apply ser_records_nil in H. repeat split; try reflexivity; exact H.
  Qed.
End InitState.

(** ** Records coming back from the store with an i64 version *)
Lemma wire_version_lt v : wire_version v < two64.
Proof.
  unfold wire_version, two64.
  pose proof (Z.mod_pos_bound v 18446744073709551616 ltac:(lia)) as B. lia.
Qed.

Lemma wire_version_inj v v' : is_i64 v -> is_i64 v' -> wire_version v = wire_version v' -> v = v'.
Proof.
  unfold wire_version, is_i64. intros B B' H.
  pose proof (Z.mod_pos_bound v 18446744073709551616 ltac:(lia)) as M.
  pose proof (Z.mod_pos_bound v' 18446744073709551616 ltac:(lia)) as M'.
  assert (E : (v mod 18446744073709551616 = v' mod 18446744073709551616)%Z) by lia.
  destruct (Z.neg_nonneg_cases v) as [Nv|Pv], (Z.neg_nonneg_cases v') as [Nv'|Pv'].
  - rewrite <- (Z.mod_add v 1), <- (Z.mod_add v' 1) in E by lia.
    rewrite !Z.mod_small in E by lia. lia.
  - rewrite <- (Z.mod_add v 1) in E by lia. rewrite !Z.mod_small in E by lia. lia.
  - rewrite <- (Z.mod_add v' 1) in E by lia. rewrite !Z.mod_small in E by lia. lia.
  - rewrite !Z.mod_small in E by lia. exact E.
Qed.

Section Open.
  Variable mac : bytes -> bytes -> bytes.

  (** whatever comes back — also with a negative version — is handed on only with its own tag
      under the record secret *)
  Lemma open_every_record_tagged hs kvs out :
    remove_and_check_hmacs mac hs kvs = Some out ->
    Forall2 (fun (i o : wrecord) =>
               let '(k, v, st) := i in let '(k', v', y) := o in
               k' = k /\ v' = v /\
               exists t, st = y ++ t /\ length t = 32%nat /\ t = value_tag mac hs k (wire_version v) y)
            kvs out.
  Proof.
    revert out. induction kvs as [|[[k v] st] r IH]; intros out H; cbn [remove_and_check_hmacs] in H.
    - inversion H. constructor.
    - destruct (process_value_from_get mac hs k (wire_version v) st) as [y|] eqn:E; [|discriminate H].
      destruct (remove_and_check_hmacs mac hs r) as [o|]; [|discriminate H].
      inversion H; subst out. constructor; [|apply IH; reflexivity].
      repeat split. apply get_accepts_only_tagged. exact E.
  Qed.

  Lemma open_short_refused hs k v st r :
    (length st < 32)%nat -> remove_and_check_hmacs mac hs ((k, v, st) :: r) = None.
  Proof. intros L. cbn [remove_and_check_hmacs]. rewrite get_short by exact L. reflexivity. Qed.

  Hypothesis mac_inj : forall k m m', mac k m = mac k m' -> m = m'.

  (** a record handed back carrying a tag the signer made for (k0, v0, x0), keys of one length,
      versions i64 of either sign: it is exactly what the signer wrote *)
  Lemma open_binding hs k v st y t k0 v0 x0 :
    is_i64 v -> is_i64 v0 ->
    process_value_from_get mac hs k (wire_version v) st = Some y ->
    st = y ++ t -> length t = 32%nat -> t = value_tag mac hs k0 (wire_version v0) x0 ->
    length k0 = length k -> k = k0 /\ v = v0 /\ y = x0.
  Proof.
    intros B B0 H Hst Lt Ht Lk.
    destruct (get_binding mac mac_inj hs k0 (wire_version v0) x0 k (wire_version v) st y t y) as (A & Bv & C & _);
      trivial; try apply wire_version_lt.
    repeat split; trivial. apply wire_version_inj; assumption.
  Qed.
End Open.

(** ** Fresh nonces over a history of reads *)
Lemma nonces_fresh_from_spec ns : forall used,
  nonces_fresh_from used ns = true ->
  Forall (fun n => length n = 32%nat) ns /\ NoDup ns /\ (forall n, In n ns -> ~ In n used).
Proof.
  induction ns as [|n t IH]; intros used H.
  - repeat split; [constructor | constructor | intros n []].
  - cbn [nonces_fresh_from] in H. apply andb_true_iff in H. destruct H as [H Ht].
    apply andb_true_iff in H. destruct H as [Hl Hu].
    apply Nat.eqb_eq in Hl. apply negb_true_iff in Hu.
    destruct (IH _ Ht) as (F & D & U).
    assert (Hn : ~ In n used).
    { intros I. assert (E : existsb (beq n) used = true).
      { apply existsb_exists. exists n. split; [exact I | apply bytes_beq_refl]. }
      rewrite E in Hu. discriminate Hu. }
    repeat split.
    + constructor; assumption.
    + constructor; [|exact D]. intros I. apply (U n I). left. reflexivity.
    + intros m [<- | I]; [exact Hn|]. intros Iu. apply (U m I). right. exact Iu.
Qed.

Lemma nonces_fresh_distinct ns i j ni nj :
  nonces_fresh ns = true -> nth_error ns i = Some ni -> nth_error ns j = Some nj -> i <> j ->
  length ni = 32%nat /\ length nj = 32%nat /\ ni <> nj.
Proof.
  intros H Hi Hj Nij. destruct (nonces_fresh_from_spec _ _ H) as (F & D & _).
  rewrite Forall_forall in F.
  repeat split.
  - apply F. eapply nth_error_In; eassumption.
  - apply F. eapply nth_error_In; eassumption.
  - intros E. subst nj. apply Nij.
    apply (proj1 (NoDup_nth_error ns) D).
    + apply nth_error_Some. rewrite Hi. discriminate.
    + rewrite Hi, Hj. reflexivity.
Qed.

Section Replay.
  Variable mac : bytes -> bytes -> bytes.
  Hypothesis mac_inj : forall k m m', mac k m = mac k m' -> m = m'.

  (** a reply made for another nonce of the same length is refused, whatever records it is
      presented with *)
  Lemma other_nonce_refused s n m rs rs' :
    length m = length n -> m <> n -> check_hmac mac s n rs' (shared_tag mac s m rs) = false.
  Proof.
    intros L N. destruct (check_hmac mac s n rs' (shared_tag mac s m rs)) eqn:E; [|reflexivity].
    exfalso. apply N. unfold check_hmac in E. apply bytes_beq_eq in E.
    eapply (fresh_nonce mac mac_inj); eassumption.
  Qed.

  (** [reads]: in order, the nonce each read sent and the records the server answered with.
      If the nonces are fresh, the reply to read [i] is refused as an answer to any other read
      [j], whatever records accompany it. *)
  Lemma replay_refused s (reads : list (bytes * list record)) i j ni rsi nj rsj rs' :
    nonces_fresh (map fst reads) = true ->
    nth_error reads i = Some (ni, rsi) -> nth_error reads j = Some (nj, rsj) -> i <> j ->
    check_hmac mac s nj rs' (shared_tag mac s ni rsi) = false.
  Proof.
    intros F Hi Hj Nij.
    destruct (nonces_fresh_distinct (map fst reads) i j ni nj F) as (Li & Lj & N); trivial.
    - rewrite nth_error_map, Hi. reflexivity.
    - rewrite nth_error_map, Hj. reflexivity.
    - apply other_nonce_refused; [congruence | exact N].
  Qed.
End Replay.

(** without freshness the premise cannot be dropped: a repeated nonce makes the earlier reply,
    with the earlier (stale) records, acceptable again — for every MAC *)
Lemma stale_reply_accepted_on_repeated_nonce mac s n rs_old :
  check_hmac mac s n rs_old (shared_tag mac s n rs_old) = true.
Proof. unfold check_hmac. apply bytes_beq_refl. Qed.

(** an injective MAC exists (the hypotheses of the section are satisfiable) *)
Definition toy_mac (k m : bytes) : bytes := m.
Lemma toy_mac_inj : forall k m m', toy_mac k m = toy_mac k m' -> m = m'.
Proof. intros k m m' H. exact H. Qed.
