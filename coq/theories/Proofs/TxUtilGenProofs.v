(** The two fee helpers every fee-range check of the models uses ([estimate_feerate_per_kw],
    [expected_weight] of Model/CommitmentPolicy.v, shared by the mutual-close,
    sweep and on-chain models) are what the translated source (Gen/TxUtilGen.v, regenerated from
    vls-core/src/util/transaction_utils.rs on every run) computes. *)
From VLS Require Import Base.Rust Model.CommitmentPolicy Gen.TxUtilGen.
Require Import Lia.

Lemma mul128_ok prof a b : a * b < two128 -> mul128_p prof a b = Val (a * b).
Proof.
  intros H. destruct prof; cbn [mul128_p].
  - destruct (a * b <? two128) eqn:E; [reflexivity | lia].
  - f_equal. apply N.mod_small. exact H.
Qed.
Lemma add128_ok prof a b : a + b < two128 -> add128_p prof a b = Val (a + b).
Proof.
  intros H. destruct prof; cbn [add128_p].
  - destruct (a + b <? two128) eqn:E; [reflexivity | lia].
  - f_equal. apply N.mod_small. exact H.
Qed.
Lemma mul_p_ok prof a b : a * b <= U64MAX -> mul_p prof a b = Val (a * b).
Proof.
  intros H. destruct prof; cbn [mul_p].
  - destruct (a * b <=? U64MAX) eqn:E; [reflexivity | lia].
  - unfold mul_wrap. f_equal. apply N.mod_small. unfold two64, U64MAX in *. lia.
Qed.
Lemma add_p_ok prof a b : a + b <= U64MAX -> add_p prof a b = Val (a + b).
Proof.
  intros H. destruct prof; cbn [add_p].
  - destruct (a + b <=? U64MAX) eqn:E; [reflexivity | lia].
  - unfold add_wrap. f_equal. apply N.mod_small. unfold two64, U64MAX in *. lia.
Qed.

(** for every u64 fee and every non-zero weight: no panic, no wrap, the model's value *)
Theorem gen_estimate_is_model prof fee w :
  fee <= U64MAX -> 0 < w ->
  gen_estimate_feerate_per_kw prof fee w = Val (estimate_feerate_per_kw fee w).
Proof.
  intros Hf Hw. unfold gen_estimate_feerate_per_kw, estimate_feerate_per_kw.
  rewrite (mul128_ok prof fee 1000) by (unfold two128, U64MAX in *; lia). cbn [bindT].
  rewrite (add128_ok prof (fee * 1000) 999) by (unfold two128, U64MAX in *; lia). cbn [bindT].
  unfold div_p. destruct (w =? 0) eqn:E; [lia|]. cbn [bindT].
  f_equal. destruct ((fee * 1000 + 999) / w <=? U32MAX) eqn:E1; lia.
Qed.

(** a weight of 0 is a panic (division by zero) in every build profile *)
Theorem gen_estimate_zero_weight prof fee :
  fee <= U64MAX -> gen_estimate_feerate_per_kw prof fee 0 = Trap.
Proof.
  intros Hf. unfold gen_estimate_feerate_per_kw.
  rewrite (mul128_ok prof fee 1000) by (unfold two128, U64MAX in *; lia). cbn [bindT].
  rewrite (add128_ok prof (fee * 1000) 999) by (unfold two128, U64MAX in *; lia). cbn [bindT].
  reflexivity.
Qed.

Theorem gen_weight_is_model prof anchors n :
  n * 172 + 1124 <= U64MAX ->
  gen_expected_commitment_tx_weight prof anchors n = Val (expected_weight anchors n).
Proof.
  intros H. unfold gen_expected_commitment_tx_weight, expected_weight.
  destruct anchors; cbn [bindT];
    rewrite (mul_p_ok prof n 172) by lia; cbn [bindT];
    rewrite add_p_ok by lia; reflexivity.
Qed.
