(** C20 — proofs about lock programs (Model/Locks.v): deadlock freedom of rank-ordered,
    well-bracketed programs under every schedule and for any number of threads; atomicity of
    the critical sections of a protected value; transfer to whole requests. *)
From VLS Require Import Model.Locks.

(** * Basic facts *)

Lemma lock_eqb_eq (a b : lock) : lock_eqb a b = true <-> a = b.
Proof.
  unfold lock_eqb. destruct a as [a1 a2], b as [b1 b2]. cbn [fst snd].
  rewrite andb_true_iff, !N.eqb_eq. split.
  - intros [-> ->]. reflexivity.
  - intros H. inversion H. split; reflexivity.
Qed.

Lemma lock_eqb_refl (a : lock) : lock_eqb a a = true.
Proof. apply lock_eqb_eq. reflexivity. Qed.

Lemma lock_eqb_neq (a b : lock) : lock_eqb a b = false <-> a <> b.
Proof.
  split.
  - intros H E. apply lock_eqb_eq in E. congruence.
  - intros H. destruct (lock_eqb a b) eqn:E; [|reflexivity].
    apply lock_eqb_eq in E. contradiction.
Qed.

Lemma mem_In (l : lock) (h : list lock) : mem l h = true <-> In l h.
Proof.
  unfold mem. rewrite existsb_exists. split.
  - intros [x [Hx E]]. apply lock_eqb_eq in E. subst. exact Hx.
  - intros H. exists l. split; [exact H|apply lock_eqb_refl].
Qed.

Lemma mem_false (l : lock) (h : list lock) : mem l h = false <-> ~ In l h.
Proof.
  split.
  - intros H I. apply mem_In in I. congruence.
  - intros H. destruct (mem l h) eqn:E; [|reflexivity]. apply mem_In in E. contradiction.
Qed.

Lemma In_drop (x l : lock) (h : list lock) : In x (drop l h) <-> In x h /\ x <> l.
Proof.
  unfold drop. rewrite filter_In, negb_true_iff, lock_eqb_neq. tauto.
Qed.

(** * Configurations *)

Lemma nth_upd_eq (c : config) (n : nat) (t t' : thread) :
  nth_error c n = Some t -> nth_error (upd c n t') n = Some t'.
Proof.
  revert n. induction c as [|x c IH]; intros [|n] H; cbn in *; try discriminate.
  - reflexivity.
  - apply IH. exact H.
Qed.

Lemma nth_upd_neq (c : config) (n m : nat) (t' : thread) :
  n <> m -> nth_error (upd c n t') m = nth_error c m.
Proof.
  revert n m. induction c as [|x c IH]; intros [|n] [|m] H; cbn; try reflexivity.
  - contradiction.
  - apply IH. intros E. apply H. rewrite E. reflexivity.
Qed.

Lemma In_owned (l : lock) (c : config) :
  In l (owned c) <-> exists m t, nth_error c m = Some t /\ In l (held t).
Proof.
  unfold owned. rewrite in_flat_map. split.
  - intros [t [Ht Hl]]. apply In_nth_error in Ht. destruct Ht as [m Hm]. exists m, t. tauto.
  - intros [m [t [Hm Hl]]]. exists t. split; [eapply nth_error_In; exact Hm|exact Hl].
Qed.

Lemma tstep_inv (busy : list lock) (t : thread) (i : instr) (t' : thread) :
  tstep busy t = Some (i, t') ->
  match i with
  | Acq l => exists r, rest t = Acq l :: r /\ mem l busy = false /\ t' = mkT (l :: held t) r
  | Rel l => exists r, rest t = Rel l :: r /\ mem l (held t) = true /\ t' = mkT (drop l (held t)) r
  | Touch o => exists r, rest t = Touch o :: r /\ t' = mkT (held t) r
  end.
Proof.
  unfold tstep. destruct (rest t) as [|[l|l|o] r] eqn:E; try discriminate.
  - destruct (mem l busy) eqn:M; [discriminate|]. intros H. inversion H. subst.
    exists r. repeat split. exact M.
  - destruct (mem l (held t)) eqn:M; [|discriminate]. intros H. inversion H. subst.
    exists r. repeat split. exact M.
  - intros H. inversion H. subst. exists r. split; reflexivity.
Qed.

Lemma tstep_rest (busy : list lock) (t : thread) (i : instr) (t' : thread) :
  tstep busy t = Some (i, t') -> rest t = i :: rest t'.
Proof.
  intros H. apply tstep_inv in H. destruct i; destruct H as [r H].
  - destruct H as [H1 [_ H2]]. subst t'. exact H1.
  - destruct H as [H1 [_ H2]]. subst t'. exact H1.
  - destruct H as [H1 H2]. subst t'. exact H1.
Qed.

(** mutual exclusion: no lock is in the hands of two threads *)
Definition excl (c : config) : Prop :=
  forall m1 m2 t1 t2 l, nth_error c m1 = Some t1 -> nth_error c m2 = Some t2 ->
                        In l (held t1) -> In l (held t2) -> m1 = m2.
Definition all_threads (P : thread -> Prop) (c : config) : Prop :=
  forall m t, nth_error c m = Some t -> P t.

Lemma excl_step (c : config) (e : event) (c' : config) : excl c -> step c e c' -> excl c'.
Proof.
  intros Hx [t [t' [Hn [Hs Hc]]]]. destruct e as [n i]. cbn [fst snd] in *. subst c'.
  assert (Hsub : forall l, In l (held t') -> In l (held t) \/ ~ In l (owned c)).
  { intros l Hl. apply tstep_inv in Hs. destruct i as [a|a|a]; destruct Hs as [r Hs].
    - destruct Hs as [_ [Hfree ->]]. cbn [held] in Hl. destruct Hl as [<-|Hl]; [|left; exact Hl].
      right. apply mem_false. exact Hfree.
    - destruct Hs as [_ [_ ->]]. cbn [held] in Hl. apply In_drop in Hl. left. tauto.
    - destruct Hs as [_ ->]. cbn [held] in Hl. left. exact Hl. }
  intros m1 m2 t1 t2 l H1 H2 L1 L2.
  destruct (Nat.eq_dec n m1) as [E1|E1]; destruct (Nat.eq_dec n m2) as [E2|E2].
  - congruence.
  - subst m1. rewrite (nth_upd_eq _ _ _ _ Hn) in H1. inversion H1. subst t1.
    rewrite nth_upd_neq in H2 by exact E2.
    destruct (Hsub l L1) as [L|L].
    + exact (Hx n m2 t t2 l Hn H2 L L2).
    + exfalso. apply L. apply In_owned. exists m2, t2. tauto.
  - subst m2. rewrite (nth_upd_eq _ _ _ _ Hn) in H2. inversion H2. subst t2.
    rewrite nth_upd_neq in H1 by exact E1.
    destruct (Hsub l L2) as [L|L].
    + exact (Hx m1 n t1 t l H1 Hn L1 L).
    + exfalso. apply L. apply In_owned. exists m1, t1. tauto.
  - rewrite nth_upd_neq in H1 by exact E1. rewrite nth_upd_neq in H2 by exact E2.
    exact (Hx m1 m2 t1 t2 l H1 H2 L1 L2).
Qed.

Lemma all_threads_step (P : thread -> Prop) (c : config) (e : event) (c' : config) :
  (forall busy t i t', P t -> tstep busy t = Some (i, t') -> P t') ->
  all_threads P c -> step c e c' -> all_threads P c'.
Proof.
  intros HP Ha [t [t' [Hn [Hs Hc]]]]. subst c'. intros m tm Hm.
  destruct (Nat.eq_dec (fst e) m) as [E|E].
  - subst m. rewrite (nth_upd_eq _ _ _ _ Hn) in Hm. inversion Hm. subst tm.
    eapply HP; [apply (Ha _ _ Hn)|exact Hs].
  - rewrite nth_upd_neq in Hm by exact E. exact (Ha _ _ Hm).
Qed.

Lemma ranked_tstep (lt : lock -> lock -> bool) busy t i t' :
  ranked lt (held t) (rest t) = true -> tstep busy t = Some (i, t') ->
  ranked lt (held t') (rest t') = true.
Proof.
  intros Hr Hs. apply tstep_inv in Hs. destruct i as [l|l|l]; destruct Hs as [r Hs].
  - destruct Hs as [E [_ ->]]. rewrite E in Hr. cbn [ranked] in Hr.
    apply andb_true_iff in Hr. cbn [held rest]. tauto.
  - destruct Hs as [E [_ ->]]. rewrite E in Hr. cbn [ranked] in Hr.
    apply andb_true_iff in Hr. cbn [held rest]. tauto.
  - destruct Hs as [E ->]. rewrite E in Hr. cbn [ranked] in Hr. cbn [held rest]. exact Hr.
Qed.

Lemma guarded_tstep busy t i t' :
  guarded (held t) (rest t) = true -> tstep busy t = Some (i, t') ->
  guarded (held t') (rest t') = true.
Proof.
  intros Hr Hs. apply tstep_inv in Hs. destruct i as [l|l|l]; destruct Hs as [r Hs].
  - destruct Hs as [E [_ ->]]. rewrite E in Hr. cbn [guarded] in Hr. cbn [held rest]. exact Hr.
  - destruct Hs as [E [_ ->]]. rewrite E in Hr. cbn [guarded] in Hr. cbn [held rest]. exact Hr.
  - destruct Hs as [E ->]. rewrite E in Hr. cbn [guarded] in Hr.
    apply andb_true_iff in Hr. cbn [held rest]. tauto.
Qed.

Lemma init_threads (P : thread -> Prop) (ps : list program) :
  (forall p, In p ps -> P (mkT [] p)) -> all_threads P (init ps).
Proof.
  intros H m t Hm. apply nth_error_In in Hm. unfold init in Hm. apply in_map_iff in Hm.
  destruct Hm as [p [<- Hp]]. apply H. exact Hp.
Qed.

Lemma init_excl (ps : list program) : excl (init ps).
Proof.
  intros m1 m2 t1 t2 l H1 _ L1 _. apply nth_error_In in H1. unfold init in H1.
  apply in_map_iff in H1. destruct H1 as [p [<- _]]. cbn in L1. contradiction.
Qed.

(** invariants along a run *)
Lemma steps_invariant (P : thread -> Prop) (c : config) (tr : list event) (c' : config) :
  (forall busy t i t', P t -> tstep busy t = Some (i, t') -> P t') ->
  steps c tr c' -> excl c -> all_threads P c -> excl c' /\ all_threads P c'.
Proof.
  intros HP Hs. induction Hs as [c|c e c1 tr c2 H1 Hs IH]; intros Hx Ha.
  - split; assumption.
  - apply IH.
    + eapply excl_step; eassumption.
    + eapply all_threads_step; eassumption.
Qed.

(** * Deadlock freedom *)

Section DeadlockFree.
  Variable lt : lock -> lock -> bool.
  Hypothesis lt_irrefl : forall a, lt a a = false.
  Hypothesis lt_trans : forall a b c, lt a b = true -> lt b c = true -> lt a c = true.

  Lemma exists_maximal (ls : list lock) :
    ls <> [] -> exists x, In x ls /\ forall y, In y ls -> lt x y = false.
  Proof.
    induction ls as [|a ls IH]; [congruence|]. intros _.
    destruct ls as [|b ls'].
    - exists a. split; [left; reflexivity|]. intros y [<-|[]]. apply lt_irrefl.
    - destruct IH as [m [Hm Hmax]]; [discriminate|].
      destruct (lt m a) eqn:E.
      + exists a. split; [left; reflexivity|]. intros y [<-|Hy]; [apply lt_irrefl|].
        destruct (lt a y) eqn:E2; [|reflexivity].
        pose proof (lt_trans _ _ _ E E2) as T. rewrite (Hmax y Hy) in T. discriminate.
      + exists m. split; [right; exact Hm|]. intros y [<-|Hy]; [exact E|apply Hmax; exact Hy].
  Qed.

  Definition wants (t : thread) : list lock :=
    match rest t with Acq l :: _ => [l] | _ => [] end.

  Lemma classify (c : config) :
    (exists m t i r, nth_error c m = Some t /\ rest t = i :: r /\ forall l, i <> Acq l) \/
    (forall m t, nth_error c m = Some t -> rest t = [] \/ exists l r, rest t = Acq l :: r).
  Proof.
    induction c as [|x c IH].
    - right. intros [|m] t H; discriminate.
    - destruct IH as [[m [t [i [r [H1 [H2 H3]]]]]]|IH].
      + left. exists (S m), t, i, r. cbn. tauto.
      + destruct (rest x) as [|[l|l|l] r] eqn:E.
        * right. intros [|m] t H; cbn in H; [inversion H; subst; left; exact E|eapply IH; exact H].
        * right. intros [|m] t H; cbn in H;
            [inversion H; subst; right; exists l, r; exact E|eapply IH; exact H].
        * left. exists O, x, (Rel l), r. cbn. repeat split; [exact E|]. intros; discriminate.
        * left. exists O, x, (Touch l), r. cbn. repeat split; [exact E|]. intros; discriminate.
  Qed.

  (** The central lemma: in a configuration of any number of threads that respect the order,
      either everybody has finished or somebody can move. *)
  Lemma progress (c : config) :
    excl c -> all_threads (fun t => ranked lt (held t) (rest t) = true) c ->
    finished c \/ exists e c', step c e c'.
  Proof.
    intros Hx Hr. destruct (classify c) as [[m [t [i [r [Hn [Hi Hna]]]]]]|Hall].
    - right. pose proof (Hr _ _ Hn) as R. cbn beta in R. rewrite Hi in R.
      destruct i as [l|l|l].
      + exfalso. eapply Hna. reflexivity.
      + cbn [ranked] in R. apply andb_true_iff in R. destruct R as [M _].
        exists (m, Rel l), (upd c m (mkT (drop l (held t)) r)). exists t, (mkT (drop l (held t)) r).
        cbn [fst snd]. repeat split; [exact Hn|]. unfold tstep. rewrite Hi, M. reflexivity.
      + exists (m, Touch l), (upd c m (mkT (held t) r)). exists t, (mkT (held t) r).
        cbn [fst snd]. repeat split; [exact Hn|]. unfold tstep. rewrite Hi. reflexivity.
    - destruct (flat_map wants c) as [|w ws] eqn:W.
      + left. intros t Ht. apply In_nth_error in Ht. destruct Ht as [m Hm].
        destruct (Hall _ _ Hm) as [E|[l [r E]]]; [exact E|]. exfalso.
        assert (In l (flat_map wants c)) as I.
        { apply in_flat_map. exists t. split; [eapply nth_error_In; exact Hm|].
          unfold wants. rewrite E. left. reflexivity. }
        rewrite W in I. contradiction.
      + destruct (exists_maximal (flat_map wants c)) as [x [Hin Hmax]]; [rewrite W; discriminate|].
        apply in_flat_map in Hin. destruct Hin as [t [Ht Hw]].
        apply In_nth_error in Ht. destruct Ht as [m Hm].
        unfold wants in Hw. destruct (rest t) as [|[l|l|l] r] eqn:E; try contradiction.
        destruct Hw as [->|[]].
        destruct (mem x (owned c)) eqn:M.
        * exfalso. apply mem_In in M. apply In_owned in M. destruct M as [m2 [t2 [Hm2 Hl2]]].
          pose proof (Hr _ _ Hm2) as R. cbn beta in R.
          destruct (Hall _ _ Hm2) as [E2|[l2 [r2 E2]]]; rewrite E2 in R; cbn [ranked] in R.
          -- destruct (held t2); [contradiction|discriminate].
          -- apply andb_true_iff in R. destruct R as [R _]. rewrite forallb_forall in R.
             specialize (R x Hl2).
             assert (In l2 (flat_map wants c)) as I.
             { apply in_flat_map. exists t2. split; [eapply nth_error_In; exact Hm2|].
               unfold wants. rewrite E2. left. reflexivity. }
             rewrite (Hmax l2 I) in R. discriminate.
        * right. exists (m, Acq x), (upd c m (mkT (x :: held t) r)). exists t, (mkT (x :: held t) r).
          cbn [fst snd]. repeat split; [exact Hm|]. unfold tstep. rewrite E, M. reflexivity.
  Qed.

  Theorem deadlock_free_lt (ps : list program) :
    Forall (fun p => ranked lt [] p = true) ps ->
    forall tr c, steps (init ps) tr c -> finished c \/ exists e c', step c e c'.
  Proof.
    intros Hps tr c Hs.
    destruct (steps_invariant (fun t => ranked lt (held t) (rest t) = true) _ _ _
                (ranked_tstep lt) Hs (init_excl ps)) as [Hx Hr].
    - apply init_threads. intros p Hp. cbn. rewrite Forall_forall in Hps. apply Hps. exact Hp.
    - apply progress; assumption.
  Qed.

  Lemma finished_free (c : config) :
    all_threads (fun t => ranked lt (held t) (rest t) = true) c -> finished c -> owned c = [].
  Proof.
    intros Hr Hf. destruct (owned c) as [|l o] eqn:E; [reflexivity|]. exfalso.
    assert (In l (owned c)) as I by (rewrite E; left; reflexivity).
    apply In_owned in I. destruct I as [m [t [Hm Hl]]].
    pose proof (Hr _ _ Hm) as R. cbn beta in R. rewrite (Hf t (nth_error_In _ _ Hm)) in R.
    cbn [ranked] in R. destruct (held t); [contradiction|discriminate].
  Qed.

  (** requests run one after the other by one thread *)
  Lemma ranked_app (h : list lock) (p q : program) :
    ranked lt h p = true -> ranked lt [] q = true -> ranked lt h (p ++ q) = true.
  Proof.
    revert h. induction p as [|i p IH]; intros h Hp Hq.
    - cbn [ranked] in Hp. destruct h; [exact Hq|discriminate].
    - destruct i as [l|l|l]; cbn [app ranked] in *.
      + apply andb_true_iff in Hp. destruct Hp as [H1 H2]. rewrite H1. cbn. apply IH; assumption.
      + apply andb_true_iff in Hp. destruct Hp as [H1 H2]. rewrite H1. cbn. apply IH; assumption.
      + apply IH; assumption.
  Qed.

  Lemma ranked_concat (rs : list program) :
    Forall (fun p => ranked lt [] p = true) rs -> ranked lt [] (concat rs) = true.
  Proof.
    induction 1 as [|p rs Hp _ IH]; [reflexivity|]. cbn [concat]. apply ranked_app; assumption.
  Qed.

  Lemma guarded_app (h : list lock) (p q : program) :
    ranked lt h p = true -> guarded h p = true -> guarded [] q = true ->
    guarded h (p ++ q) = true.
  Proof.
    revert h. induction p as [|i p IH]; intros h Hr Hp Hq.
    - cbn [ranked] in Hr. destruct h; [exact Hq|discriminate].
    - destruct i as [l|l|l]; cbn [app ranked guarded] in *.
      + apply andb_true_iff in Hr. apply IH; tauto.
      + apply andb_true_iff in Hr. apply IH; tauto.
      + apply andb_true_iff in Hp. destruct Hp as [H1 H2]. rewrite H1. cbn. apply IH; assumption.
  Qed.

  Lemma guarded_concat (rs : list program) :
    Forall (fun p => ranked lt [] p = true) rs -> Forall (fun p => guarded [] p = true) rs ->
    guarded [] (concat rs) = true.
  Proof.
    induction 1 as [|p rs Hp _ IH]; intros Hg; [reflexivity|]. inversion Hg; subst.
    cbn [concat]. apply guarded_app; [assumption|assumption|apply IH; assumption].
  Qed.
End DeadlockFree.

(** * The order induced by a rank on classes *)

Lemma lock_lt_irrefl (rank : N -> N) (a : lock) : lock_lt rank a a = false.
Proof.
  unfold lock_lt. rewrite !N.ltb_irrefl, andb_false_r. reflexivity.
Qed.

Lemma lock_lt_trans (rank : N -> N) (a b c : lock) :
  lock_lt rank a b = true -> lock_lt rank b c = true -> lock_lt rank a c = true.
Proof.
  unfold lock_lt. rewrite !orb_true_iff, !andb_true_iff, !N.ltb_lt, !N.eqb_eq.
  intros [H1|[E1 H1]] [H2|[E2 H2]].
  - left. lia.
  - left. rewrite <- E2. exact H1.
  - left. rewrite E1. exact H2.
  - right. split; [congruence|lia].
Qed.

(** any program that passes the check for some rank also passes after its instances are
    renamed monotonically (the same request on other channels) *)
Lemma ren_lock_inj (f : N -> N -> N) : monotone f -> forall a b, ren_lock f a = ren_lock f b -> a = b.
Proof.
  intros Hm [c1 i1] [c2 i2]. unfold ren_lock. cbn [fst snd]. intros H. inversion H. subst c2.
  f_equal. destruct (N.lt_trichotomy i1 i2) as [L|[E|L]]; [|exact E|].
  - pose proof (Hm c1 _ _ L) as H0. rewrite H2 in H0. apply N.lt_irrefl in H0. contradiction.
  - pose proof (Hm c1 _ _ L) as H0. rewrite H2 in H0. apply N.lt_irrefl in H0. contradiction.
Qed.

Lemma ren_lock_eqb (f : N -> N -> N) : monotone f ->
  forall a b, lock_eqb (ren_lock f a) (ren_lock f b) = lock_eqb a b.
Proof.
  intros Hm a b. destruct (lock_eqb a b) eqn:E.
  - apply lock_eqb_eq in E. subst. apply lock_eqb_refl.
  - apply lock_eqb_neq. apply lock_eqb_neq in E. intros H. apply E. eapply ren_lock_inj; eassumption.
Qed.

Lemma ren_lock_lt (rank : N -> N) (f : N -> N -> N) : monotone f ->
  forall a b, lock_lt rank a b = true -> lock_lt rank (ren_lock f a) (ren_lock f b) = true.
Proof.
  intros Hm [c1 i1] [c2 i2]. unfold lock_lt, ren_lock. cbn [fst snd].
  rewrite !orb_true_iff, !andb_true_iff, !N.ltb_lt, !N.eqb_eq.
  intros [H|[E H]]; [left; exact H|right]. subst c2. split; [reflexivity|apply Hm; exact H].
Qed.

Lemma mem_ren (f : N -> N -> N) : monotone f ->
  forall l h, mem (ren_lock f l) (map (ren_lock f) h) = mem l h.
Proof.
  intros Hm l h. induction h as [|x h IH]; [reflexivity|].
  cbn [map mem existsb]. unfold mem in IH. rewrite IH, ren_lock_eqb by exact Hm. reflexivity.
Qed.

Lemma drop_ren (f : N -> N -> N) : monotone f ->
  forall l h, drop (ren_lock f l) (map (ren_lock f) h) = map (ren_lock f) (drop l h).
Proof.
  intros Hm l h. induction h as [|x h IH]; [reflexivity|].
  cbn [map drop filter]. unfold drop in IH. rewrite IH, ren_lock_eqb by exact Hm.
  destruct (lock_eqb x l); reflexivity.
Qed.

Lemma ranked_rename (rank : N -> N) (f : N -> N -> N) : monotone f ->
  forall p h, ranked (lock_lt rank) h p = true ->
              ranked (lock_lt rank) (map (ren_lock f) h) (rename f p) = true.
Proof.
  intros Hm. induction p as [|i p IH]; intros h H.
  - cbn [ranked rename map] in *. destruct h; [reflexivity|discriminate].
  - destruct i as [l|l|l]; cbn [rename map ren_instr ranked] in *.
    + apply andb_true_iff in H. destruct H as [H1 H2]. apply andb_true_iff. split.
      * rewrite forallb_forall in *. intros x Hx. apply in_map_iff in Hx.
        destruct Hx as [y [<- Hy]]. apply ren_lock_lt; [exact Hm|apply H1; exact Hy].
      * apply (IH (l :: h)). exact H2.
    + apply andb_true_iff in H. destruct H as [H1 H2]. apply andb_true_iff. split.
      * rewrite mem_ren by exact Hm. exact H1.
      * rewrite drop_ren by exact Hm. apply IH. exact H2.
    + apply IH. exact H.
Qed.

Lemma guarded_rename (f : N -> N -> N) : monotone f ->
  forall p h, guarded h p = true -> guarded (map (ren_lock f) h) (rename f p) = true.
Proof.
  intros Hm. induction p as [|i p IH]; intros h H; [reflexivity|].
  destruct i as [l|l|l]; cbn [rename map ren_instr guarded] in *.
  - apply (IH (l :: h)). exact H.
  - rewrite drop_ren by exact Hm. apply IH. exact H.
  - apply andb_true_iff in H. destruct H as [H1 H2]. apply andb_true_iff. split.
    + rewrite mem_ren by exact Hm. exact H1.
    + apply IH. exact H2.
Qed.

(** * Every schedule terminates *)

Lemma total_upd (c : config) (n : nat) (t t' : thread) :
  nth_error c n = Some t ->
  (total c + length (rest t') = total (upd c n t') + length (rest t))%nat.
Proof.
  revert n. induction c as [|x c IH]; intros [|n] H; cbn in *; try discriminate.
  - inversion H. subst. lia.
  - specialize (IH _ H). unfold total in IH. lia.
Qed.

Lemma step_total (c : config) (e : event) (c' : config) : step c e c' -> total c = S (total c').
Proof.
  intros [t [t' [Hn [Hs Hc]]]]. subst c'. pose proof (total_upd _ _ _ t' Hn) as H.
  apply tstep_rest in Hs. rewrite Hs in H. cbn [length] in H. lia.
Qed.

Lemma steps_total (c : config) (tr : list event) (c' : config) :
  steps c tr c' -> total c = (length tr + total c')%nat.
Proof.
  induction 1 as [c|c e c1 tr c2 H1 _ IH]; [reflexivity|].
  apply step_total in H1. cbn [length]. lia.
Qed.

Lemma total_init (ps : list program) : total (init ps) = length (concat ps).
Proof.
  induction ps as [|p ps IH]; [reflexivity|]. cbn [init map total fold_right rest concat].
  rewrite app_length. unfold init, total in IH. rewrite IH. reflexivity.
Qed.

(** * Per-thread order *)

Lemma of_thread_cons_same (n : nat) (i : instr) (tr : list event) :
  of_thread n ((n, i) :: tr) = i :: of_thread n tr.
Proof. unfold of_thread. cbn [filter fst]. rewrite Nat.eqb_refl. reflexivity. Qed.

Lemma of_thread_cons_other (n m : nat) (i : instr) (tr : list event) :
  m <> n -> of_thread n ((m, i) :: tr) = of_thread n tr.
Proof.
  intros H. unfold of_thread. cbn [filter fst].
  destruct (Nat.eqb m n) eqn:E; [apply Nat.eqb_eq in E; contradiction|reflexivity].
Qed.

(** what a thread does in a run is a prefix of its program, in program order *)
Lemma thread_order (c : config) (tr : list event) (c' : config) :
  steps c tr c' ->
  forall n t, nth_error c n = Some t ->
              exists t', nth_error c' n = Some t' /\ rest t = of_thread n tr ++ rest t'.
Proof.
  induction 1 as [c|c e c1 tr c2 H1 _ IH]; intros n t Hn.
  - exists t. split; [exact Hn|reflexivity].
  - destruct H1 as [u [u' [Hu [Hs Hc]]]]. destruct e as [m i]. cbn [fst snd] in *. subst c1.
    destruct (Nat.eq_dec m n) as [E|E].
    + subst m. rewrite Hn in Hu. inversion Hu. subst u.
      destruct (IH n u' (nth_upd_eq _ _ _ _ Hn)) as [t' [H1 H2]].
      exists t'. split; [exact H1|]. rewrite of_thread_cons_same. apply tstep_rest in Hs.
      rewrite Hs, H2. reflexivity.
    + assert (nth_error (upd c m u') n = Some t) as Hn' by (rewrite nth_upd_neq; assumption).
      destruct (IH n t Hn') as [t' [H1 H2]].
      exists t'. split; [exact H1|]. rewrite of_thread_cons_other by exact E. exact H2.
Qed.

(** * Atomicity of critical sections *)

Section Sections.
  Variable g : lock.

  Definition owner_ok (o : option nat) (c : config) : Prop :=
    match o with
    | None => ~ In g (owned c)
    | Some n => exists t, nth_error c n = Some t /\ In g (held t)
    end.

  Lemma owner_ok_upd (o : option nat) (c : config) (n : nat) (t t' : thread) :
    nth_error c n = Some t -> (In g (held t) <-> In g (held t')) ->
    owner_ok o c -> owner_ok o (upd c n t').
  Proof.
    intros Hn Hiff. destruct o as [k|]; cbn [owner_ok].
    - intros [u [Hu Hl]]. destruct (Nat.eq_dec n k) as [E|E].
      + subst k. rewrite Hn in Hu. inversion Hu. subst u. exists t'.
        split; [eapply nth_upd_eq; exact Hn|apply Hiff; exact Hl].
      + exists u. split; [rewrite nth_upd_neq; assumption|exact Hl].
    - intros Hfree I. apply Hfree. apply In_owned in I. destruct I as [m [u [Hm Hl]]].
      apply In_owned. destruct (Nat.eq_dec n m) as [E|E].
      + subst m. rewrite (nth_upd_eq _ _ _ _ Hn) in Hm. inversion Hm. subst u.
        exists n, t. split; [exact Hn|apply Hiff; exact Hl].
      + rewrite nth_upd_neq in Hm by exact E. exists m, u. tauto.
  Qed.

  Lemma sec_step (o : option nat) (c : config) (e : event) (c' : config) :
    excl c -> all_threads (fun t => guarded (held t) (rest t) = true) c ->
    owner_ok o c -> step c e c' ->
    exists o', sec_trans g o e = Some o' /\ owner_ok o' c'.
  Proof.
    intros Hx Hg Ho [t [t' [Hn [Hs Hc]]]]. destruct e as [n i]. cbn [fst snd] in *. subst c'.
    pose proof (Hg _ _ Hn) as G. cbn beta in G.
    apply tstep_inv in Hs. unfold sec_trans. cbn [fst snd].
    destruct i as [l|l|l]; destruct Hs as [r Hs]; cbn [concerns].
    - (* Acq *)
      destruct Hs as [E [Hfree ->]]. apply mem_false in Hfree.
      destruct (lock_eqb l g) eqn:L.
      + apply lock_eqb_eq in L. subst l. destruct o as [k|].
        * exfalso. destruct Ho as [u [Hu Hl]]. apply Hfree. apply In_owned. exists k, u. tauto.
        * exists (Some n). split; [reflexivity|]. exists (mkT (g :: held t) r).
          split; [eapply nth_upd_eq; exact Hn|left; reflexivity].
      + apply lock_eqb_neq in L. exists o. split; [reflexivity|].
        eapply owner_ok_upd; [exact Hn| |exact Ho]. cbn [held]. split; [right; assumption|].
        intros [H|H]; [contradiction|exact H].
    - (* Rel *)
      destruct Hs as [E [Hheld ->]]. apply mem_In in Hheld.
      destruct (lock_eqb l g) eqn:L.
      + apply lock_eqb_eq in L. subst l. destruct o as [k|].
        * destruct Ho as [u [Hu Hl]]. assert (k = n) by (eapply Hx; eassumption). subst k.
          rewrite Nat.eqb_refl. exists None. split; [reflexivity|]. cbn [owner_ok].
          intros I. apply In_owned in I. destruct I as [m [w [Hm Hw]]].
          destruct (Nat.eq_dec n m) as [E'|E'].
          -- subst m. rewrite (nth_upd_eq _ _ _ _ Hn) in Hm. inversion Hm. subst w.
             cbn [held] in Hw. apply In_drop in Hw. destruct Hw as [_ Hw]. apply Hw. reflexivity.
          -- rewrite nth_upd_neq in Hm by exact E'. apply E'. eapply Hx; eassumption.
        * exfalso. apply Ho. apply In_owned. exists n, t. tauto.
      + apply lock_eqb_neq in L. exists o. split; [reflexivity|].
        eapply owner_ok_upd; [exact Hn| |exact Ho]. cbn [held]. rewrite In_drop. split.
        * intros H. split; [exact H|]. intros ->. apply L. reflexivity.
        * tauto.
    - (* Touch *)
      destruct Hs as [E ->]. rewrite E in G. cbn [guarded] in G. apply andb_true_iff in G.
      destruct G as [G _]. apply mem_In in G.
      destruct (lock_eqb l g) eqn:L.
      + apply lock_eqb_eq in L. subst l. destruct o as [k|].
        * destruct Ho as [u [Hu Hl]]. assert (k = n) by (eapply Hx; eassumption). subst k.
          rewrite Nat.eqb_refl. exists (Some n). split; [reflexivity|].
          exists (mkT (held t) r). split; [eapply nth_upd_eq; exact Hn|exact G].
        * exfalso. apply Ho. apply In_owned. exists n, t. tauto.
      + exists o. split; [reflexivity|].
        eapply owner_ok_upd; [exact Hn| |exact Ho]. cbn [held]. tauto.
  Qed.

  Lemma sec_steps (c : config) (tr : list event) (c' : config) :
    steps c tr c' ->
    forall o, excl c -> all_threads (fun t => guarded (held t) (rest t) = true) c ->
              owner_ok o c -> exists o', sec_run g o tr = Some o' /\ owner_ok o' c'.
  Proof.
    induction 1 as [c|c e c1 tr c2 H1 _ IH]; intros o Hx Hg Ho.
    - exists o. split; [reflexivity|exact Ho].
    - destruct (sec_step o c e c1 Hx Hg Ho H1) as [o1 [T1 Ho1]].
      destruct (IH o1) as [o2 [T2 Ho2]].
      + eapply excl_step; eassumption.
      + eapply all_threads_step; [exact guarded_tstep|exact Hg|exact H1].
      + exact Ho1.
      + exists o2. split; [|exact Ho2]. cbn [sec_run]. rewrite T1. exact T2.
  Qed.

  (** acceptance by the automaton = the projection is a sequence of whole sections *)
  Lemma concerns_shape (i : instr) :
    concerns g i = true -> i = Acq g \/ i = Rel g \/ i = Touch g.
  Proof.
    destruct i as [l|l|l]; cbn [concerns]; intros H; apply lock_eqb_eq in H; subst; tauto.
  Qed.

  Lemma sec_run_blocks (tr : list event) :
    (sec_run g None tr = Some None ->
     exists bs, proj g tr = flatten bs /\ Forall (fun b => is_section g (snd b)) bs) /\
    (forall n, sec_run g (Some n) tr = Some None ->
     exists k bs, proj g tr = map (pair n) (repeat (Touch g) k ++ [Rel g]) ++ flatten bs /\
                  Forall (fun b => is_section g (snd b)) bs).
  Proof.
    induction tr as [|[m i] tr [IH1 IH2]].
    - split.
      + intros _. exists []. split; [reflexivity|constructor].
      + intros n H. cbn in H. discriminate.
    - cbn [sec_run proj filter snd]. unfold sec_trans. cbn [fst snd].
      destruct (concerns g i) eqn:C.
      + apply concerns_shape in C. split.
        * destruct C as [-> | [-> | ->]]; try discriminate.
          intros H. destruct (IH2 m H) as [k [bs [P F]]].
          exists ((m, Acq g :: repeat (Touch g) k ++ [Rel g]) :: bs). split.
          -- unfold proj in P. rewrite P. reflexivity.
          -- constructor; [exists k; reflexivity|exact F].
        * intros n. destruct C as [-> | [-> | ->]]; try discriminate.
          -- destruct (Nat.eqb m n) eqn:E; [|discriminate]. apply Nat.eqb_eq in E. subst m.
             intros H. destruct (IH1 H) as [bs [P F]]. exists O, bs. split; [|exact F].
             unfold proj in P. rewrite P. reflexivity.
          -- destruct (Nat.eqb m n) eqn:E; [|discriminate]. apply Nat.eqb_eq in E. subst m.
             intros H. destruct (IH2 n H) as [k [bs [P F]]]. exists (S k), bs. split; [|exact F].
             unfold proj in P. rewrite P. reflexivity.
      + split.
        * intros H. exact (IH1 H).
        * intros n H. exact (IH2 n H).
  Qed.

  (** [slot_atomic]: if every access to the value protected by [g] happens under [g], then at
      every point of every run at which [g] is free, the part of the run that concerns the
      value is a sequence of whole critical sections, each executed by one thread without
      any other thread's access in between. *)
  Theorem slot_atomic (ps : list program) :
    Forall (fun p => guarded [] p = true) ps ->
    forall tr c, steps (init ps) tr c -> ~ In g (owned c) ->
      exists bs, proj g tr = flatten bs /\ Forall (fun b => is_section g (snd b)) bs.
  Proof.
    intros Hps tr c Hs Hfree.
    destruct (sec_steps _ _ _ Hs None (init_excl ps)) as [o [R Ho]].
    - apply init_threads. intros p Hp. cbn. rewrite Forall_forall in Hps. apply Hps. exact Hp.
    - cbn. intros I. apply In_owned in I. destruct I as [m [t [Hm Hl]]].
      apply nth_error_In in Hm. unfold init in Hm. apply in_map_iff in Hm.
      destruct Hm as [p [<- _]]. cbn in Hl. contradiction.
    - destruct o as [k|].
      + exfalso. destruct Ho as [u [Hu Hl]]. apply Hfree. apply In_owned. exists k, u. tauto.
      + apply (proj1 (sec_run_blocks tr)). exact R.
  Qed.

  (** the blocks of one thread, in order, are that thread's own sections *)
  Lemma of_thread_flatten (n : nat) (bs : list block) :
    of_thread n (flatten bs) = concat (map snd (filter (fun b => Nat.eqb (fst b) n) bs)).
  Proof.
    induction bs as [|[m s] bs IH]; [reflexivity|].
    unfold flatten, of_thread in *. cbn [flat_map fst snd filter]. rewrite filter_app, map_app, IH.
    destruct (Nat.eqb m n) eqn:E.
    - cbn [map concat snd]. f_equal. clear - E. induction s as [|i s IH]; [reflexivity|].
      cbn [map filter fst]. rewrite E. cbn [map snd]. rewrite IH. reflexivity.
    - replace (map snd (filter (fun e => Nat.eqb (fst e) n) (map (pair m) s))) with (@nil instr).
      + reflexivity.
      + clear IH. induction s as [|i s IH]; [reflexivity|]. cbn [map filter fst]. rewrite E. exact IH.
  Qed.

  Lemma of_thread_proj (n : nat) (tr : list event) :
    of_thread n (proj g tr) = filter (concerns g) (of_thread n tr).
  Proof.
    unfold of_thread, proj. induction tr as [|[m i] tr IH]; [reflexivity|].
    cbn [filter fst snd]. destruct (concerns g i) eqn:C; destruct (Nat.eqb m n) eqn:E;
      cbn [filter map fst snd]; rewrite ?E, ?C; cbn [map snd]; rewrite ?IH; reflexivity.
  Qed.
End Sections.

(** [slot_atomic] for complete runs of rank-ordered programs, tied back to the programs: the
    projection of the run on [g] is a sequence of blocks, every block is one whole critical
    section executed by one thread, and the blocks of thread [n], in the order of the run,
    are exactly the critical sections of [n]'s program in program order.  When a request
    takes [g] once ([single_section]), its block is the whole of what the request does to
    the protected value: the concurrent history of that value is a sequential history of
    whole requests. *)
Theorem slot_atomic_requests (lt : lock -> lock -> bool) (g : lock) (ps : list program) :
  Forall (fun p => ranked lt [] p = true) ps ->
  Forall (fun p => guarded [] p = true) ps ->
  forall tr c, steps (init ps) tr c -> finished c ->
    exists bs, proj g tr = flatten bs /\
               Forall (fun b => is_section g (snd b)) bs /\
               forall n p, nth_error ps n = Some p ->
                 filter (concerns g) p = concat (map snd (filter (fun b => Nat.eqb (fst b) n) bs)).
Proof.
  intros Hr Hg tr c Hs Hf.
  destruct (steps_invariant (fun t => ranked lt (held t) (rest t) = true) _ _ _
              (ranked_tstep lt) Hs (init_excl ps)) as [_ Hr'].
  { apply init_threads. intros p Hp. cbn. rewrite Forall_forall in Hr. apply Hr. exact Hp. }
  pose proof (finished_free lt c Hr' Hf) as Hfree.
  destruct (slot_atomic g ps Hg tr c Hs) as [bs [P F]].
  { rewrite Hfree. intros []. }
  exists bs. split; [exact P|]. split; [exact F|].
  intros n p Hn.
  assert (nth_error (init ps) n = Some (mkT [] p)) as Hn'.
  { unfold init. apply map_nth_error. exact Hn. }
  destruct (thread_order _ _ _ Hs n _ Hn') as [t' [H1 H2]]. cbn [rest] in H2.
  rewrite (Hf t' (nth_error_In _ _ H1)), app_nil_r in H2.
  rewrite H2, <- of_thread_proj, P. apply of_thread_flatten.
Qed.

(** * The statement used by Props/C20.v *)

(** Any number of threads, each running any sequence of requests taken from a list of
    checked programs, each request possibly on other instances (monotone renaming). *)
Definition instance_of (progs : list program) (p : program) : Prop :=
  exists q f, In q progs /\ monotone f /\ p = rename f q.

Lemma instances_ranked (rank : N -> N) (progs : list program) :
  all_ranked rank progs = true ->
  forall rs, Forall (instance_of progs) rs ->
             Forall (fun p => ranked (lock_lt rank) [] p = true) rs.
Proof.
  intros H rs Hrs. unfold all_ranked in H. rewrite forallb_forall in H.
  induction Hrs as [|p rs [q [f [Hq [Hm ->]]]] _ IH]; constructor; [|exact IH].
  apply (ranked_rename rank f Hm q []). apply H. exact Hq.
Qed.

Lemma instances_guarded (progs : list program) :
  all_guarded progs = true ->
  forall rs, Forall (instance_of progs) rs -> Forall (fun p => guarded [] p = true) rs.
Proof.
  intros H rs Hrs. unfold all_guarded in H. rewrite forallb_forall in H.
  induction Hrs as [|p rs [q [f [Hq [Hm ->]]]] _ IH]; constructor; [|exact IH].
  apply (guarded_rename f Hm q []). apply H. exact Hq.
Qed.

(** [deadlock_free]: for a rank that orders all the programs, every reachable configuration
    of any number of threads, each running any sequence of the requests, has either finished
    or can move; and no run is longer than the programs together.  So every schedule ends,
    and it ends with every request completed. *)
Theorem deadlock_free (rank : N -> N) (progs : list program) :
  all_ranked rank progs = true ->
  forall reqs : list (list program),
    Forall (Forall (instance_of progs)) reqs ->
    forall tr c, steps (init (map (@concat instr) reqs)) tr c ->
      (finished c \/ exists e c', step c e c') /\
      (length tr <= length (concat (map (@concat instr) reqs)))%nat.
Proof.
  intros H reqs Hreqs tr c Hs. split.
  - eapply (deadlock_free_lt (lock_lt rank) (lock_lt_irrefl rank) (lock_lt_trans rank)
             (map (@concat instr) reqs)); [|exact Hs].
    apply Forall_forall. intros p Hp. apply in_map_iff in Hp. destruct Hp as [rs [<- Hrs]].
    apply ranked_concat. apply (instances_ranked rank progs H).
    rewrite Forall_forall in Hreqs. apply Hreqs. exact Hrs.
  - pose proof (steps_total _ _ _ Hs) as T. rewrite total_init in T. lia.
Qed.

(** every reachable configuration can be run to completion (no schedule is a dead end) *)
Theorem completes (rank : N -> N) (progs : list program) :
  all_ranked rank progs = true ->
  forall reqs : list (list program),
    Forall (Forall (instance_of progs)) reqs ->
    forall tr c, steps (init (map (@concat instr) reqs)) tr c ->
      exists tr' c', steps c tr' c' /\ finished c'.
Proof.
  intros H reqs Hreqs tr c Hs.
  remember (total c) as k eqn:Hk. revert tr c Hs Hk.
  induction k as [k IH] using lt_wf_ind. intros tr c Hs Hk.
  destruct (proj1 (deadlock_free rank progs H reqs Hreqs tr c Hs)) as [Hf|[e [c1 H1]]].
  - exists [], c. split; [constructor|exact Hf].
  - pose proof (step_total _ _ _ H1) as T.
    assert (steps (init (map (@concat instr) reqs)) (tr ++ [e]) c1) as Hs1.
    { clear - Hs H1. induction Hs as [c|c e0 c0 tr c2 H0 _ IH].
      - cbn. econstructor; [exact H1|constructor].
      - cbn. econstructor; [exact H0|apply IH; exact H1]. }
    destruct (IH (total c1) ltac:(lia) _ _ Hs1 eq_refl) as [tr' [c' [Hs' Hf']]].
    exists (e :: tr'), c'. split; [econstructor; eassumption|exact Hf'].
Qed.

(** the same for the sections: threads run sequences of requests *)
Theorem slot_atomic_threads (rank : N -> N) (progs : list program) (g : lock) :
  all_ranked rank progs = true -> all_guarded progs = true ->
  forall reqs : list (list program),
    Forall (Forall (instance_of progs)) reqs ->
    forall tr c, steps (init (map (@concat instr) reqs)) tr c -> finished c ->
      exists bs, proj g tr = flatten bs /\
                 Forall (fun b => is_section g (snd b)) bs /\
                 forall n rs, nth_error reqs n = Some rs ->
                   filter (concerns g) (concat rs) =
                   concat (map snd (filter (fun b => Nat.eqb (fst b) n) bs)).
Proof.
  intros Hr Hg reqs Hreqs tr c Hs Hf.
  assert (R : Forall (fun p => ranked (lock_lt rank) [] p = true) (map (@concat instr) reqs)).
  { apply Forall_forall. intros p Hp. apply in_map_iff in Hp. destruct Hp as [rs [<- Hrs]].
    apply ranked_concat. apply (instances_ranked rank progs Hr).
    rewrite Forall_forall in Hreqs. apply Hreqs. exact Hrs. }
  assert (G : Forall (fun p => guarded [] p = true) (map (@concat instr) reqs)).
  { apply Forall_forall. intros p Hp. apply in_map_iff in Hp. destruct Hp as [rs [<- Hrs]].
    rewrite Forall_forall in Hreqs. specialize (Hreqs rs Hrs).
    apply (guarded_concat (lock_lt rank)).
    - apply (instances_ranked rank progs Hr). exact Hreqs.
    - apply (instances_guarded progs Hg). exact Hreqs. }
  destruct (slot_atomic_requests (lock_lt rank) g _ R G tr c Hs Hf) as [bs [P [F Q]]].
  exists bs. split; [exact P|]. split; [exact F|].
  intros n rs Hn. apply Q. apply map_nth_error. exact Hn.
Qed.

(** a program is an instance of itself *)
Lemma rename_id (p : program) : rename (fun _ i => i) p = p.
Proof.
  induction p as [|i p IH]; [reflexivity|]. cbn [rename map]. unfold rename in IH. rewrite IH.
  destruct i as [[c n]|[c n]|[c n]]; reflexivity.
Qed.

Lemma instance_self (progs : list program) (p : program) : In p progs -> instance_of progs p.
Proof.
  intros H. exists p, (fun _ i => i). split; [exact H|]. split.
  - intros c a b L. exact L.
  - symmetry. apply rename_id.
Qed.

(** the same request on other channels: instance numbers shifted by a per-class offset *)
Lemma shift_monotone (off : N -> N) : monotone (fun c i => off c + i).
Proof. intros c a b L. lia. Qed.

(** a stuck configuration: somebody is unfinished and nobody can move *)
Definition deadlocked (c : config) : Prop := ~ finished c /\ forall e c', ~ step c e c'.

(** * Executable companions are sound *)

Lemma exec_steps (sched : list nat) :
  forall c c' tr, exec c sched = Some (c', tr) -> steps c tr c'.
Proof.
  induction sched as [|n r IH]; intros c c' tr H; cbn [exec] in H.
  - inversion H. subst. constructor.
  - destruct (nth_error c n) as [t|] eqn:Hn; [|discriminate].
    destruct (tstep (owned c) t) as [[i t']|] eqn:Hs; [|discriminate].
    destruct (exec (upd c n t') r) as [[c1 tr1]|] eqn:He; [|discriminate].
    inversion H. subst. econstructor; [|apply IH; exact He].
    exists t, t'. cbn [fst snd]. repeat split; assumption.
Qed.

Lemma stuckb_sound (c : config) : stuckb c = true -> forall e c', ~ step c e c'.
Proof.
  unfold stuckb. rewrite forallb_forall. intros H e c' [t [t' [Hn [Hs _]]]].
  specialize (H t (nth_error_In _ _ Hn)). rewrite Hs in H. discriminate.
Qed.

Lemma finishedb_false (c : config) : finishedb c = false -> ~ finished c.
Proof.
  intros H F. assert (finishedb c = true) as T; [|congruence].
  unfold finishedb. apply forallb_forall. intros t Ht. rewrite (F t Ht). reflexivity.
Qed.

Lemma deadlocked_by_exec (ps : list program) (sched : list nat) (c : config) (tr : list event) :
  exec (init ps) sched = Some (c, tr) -> finishedb c = false -> stuckb c = true ->
  steps (init ps) tr c /\ deadlocked c.
Proof.
  intros He Hf Hs. split; [apply (exec_steps sched); exact He|].
  split; [apply finishedb_false; exact Hf|apply stuckb_sound; exact Hs].
Qed.

(** * A lock-order inversion admits no rank *)

Lemma ranked_edges (lt : lock -> lock -> bool) (p : program) :
  forall held, ranked lt held p = true ->
               forall h l, In (h, l) (edges held p) -> lt h l = true.
Proof.
  induction p as [|i p IH]; intros held R h l I; [contradiction|].
  destruct i as [a|a|a]; cbn [ranked edges] in *.
  - apply andb_true_iff in R. destruct R as [R1 R2]. apply in_app_or in I. destruct I as [I|I].
    + apply in_map_iff in I. destruct I as [x [E Hx]]. inversion E. subst.
      rewrite forallb_forall in R1. apply R1. exact Hx.
    + eapply IH; eassumption.
  - apply andb_true_iff in R. destruct R as [_ R2]. eapply IH; eassumption.
  - eapply IH; eassumption.
Qed.

Lemma has_edge_In (a b : lock) (p : program) : has_edge a b p = true -> In (a, b) (edges [] p).
Proof.
  unfold has_edge. rewrite existsb_exists. intros [[x y] [I E]]. cbn [fst snd] in E.
  apply andb_true_iff in E. destruct E as [E1 E2]. apply lock_eqb_eq in E1, E2. subst. exact I.
Qed.

(** two programs of which one takes [b] under [a] and the other [a] under [b] cannot both be
    ordered, whatever the rank *)
Theorem inversion_unrankable (a b : lock) (p q : program) (ps : list program) :
  has_edge a b p = true -> has_edge b a q = true -> In p ps -> In q ps ->
  forall rank, all_ranked rank ps = false.
Proof.
  intros Ep Eq Ip Iq rank. destruct (all_ranked rank ps) eqn:A; [|reflexivity]. exfalso.
  unfold all_ranked in A. rewrite forallb_forall in A.
  pose proof (ranked_edges _ _ _ (A p Ip) a b (has_edge_In _ _ _ Ep)) as L1.
  pose proof (ranked_edges _ _ _ (A q Iq) b a (has_edge_In _ _ _ Eq)) as L2.
  pose proof (lock_lt_trans rank _ _ _ L1 L2) as T. rewrite lock_lt_irrefl in T. discriminate.
Qed.
