(** C04, ordering layer: LDK's output sort as seen through the transaction.

    [sort_entries] orders (txout, witness script, HTLC tag) triples with LDK's comparator, whose
    tie-break only exists between two HTLC outputs and is therefore not a preorder on arbitrary
    triples; but two triples that it does not separate by (value, script_pubkey) carry the same
    [txout].  Hence the *outputs* of the sorted list are the insertion sort of the outputs by
    (value, script_pubkey) — a total order — and that list does not depend on the order in which
    the entries were supplied ([sorted_outs_perm]).  This is what makes the transaction rebuilt
    in phase 1 (HTLCs sorted by [CommitmentInfo2::new]) equal to the one built in phase 2 (HTLCs
    in the caller's order). *)
From Coq Require Import List NArith Bool Lia Permutation.
From VLS Require Import Base.Codec Model.Commitment.
Import ListNotations.
Open Scope N_scope.

(** * lexicographic comparison of byte strings *)
Lemma bytes_cmp_refl (a : bytes) : bytes_cmp a a = Eq.
Proof. induction a as [|x a IH]; cbn [bytes_cmp]; [reflexivity|]. rewrite N.compare_refl. exact IH. Qed.

Lemma bytes_cmp_eq (a : bytes) : forall b, bytes_cmp a b = Eq -> a = b.
Proof.
  induction a as [|x a IH]; intros [|y b] H; cbn [bytes_cmp] in H; try discriminate; [reflexivity|].
  destruct (N.compare_spec x y) as [E|L|G]; try discriminate. subst y. f_equal. apply IH. exact H.
Qed.

Lemma bytes_cmp_antisym (a : bytes) : forall b, bytes_cmp b a = CompOpp (bytes_cmp a b).
Proof.
  induction a as [|x a IH]; intros [|y b]; cbn [bytes_cmp CompOpp]; try reflexivity.
  rewrite (N.compare_antisym x y). destruct (x ?= y); cbn [CompOpp]; [apply IH|reflexivity|reflexivity].
Qed.

Lemma bytes_cmp_lt_trans (a : bytes) : forall b c,
  bytes_cmp a b = Lt -> bytes_cmp b c = Lt -> bytes_cmp a c = Lt.
Proof.
  induction a as [|x a IH]; intros [|y b] [|z c] H1 H2; cbn [bytes_cmp] in *; try discriminate; try reflexivity.
  destruct (N.compare_spec x y) as [E1|L1|G1]; try discriminate;
    destruct (N.compare_spec y z) as [E2|L2|G2]; try discriminate; subst.
  - rewrite N.compare_refl. eapply IH; eassumption.
  - apply N.compare_lt_iff in L2. rewrite L2. reflexivity.
  - apply N.compare_lt_iff in L1. rewrite L1. reflexivity.
  - assert (L : x < z) by lia. apply N.compare_lt_iff in L. rewrite L. reflexivity.
Qed.

(** * the (value, script_pubkey) order on outputs *)
Definition out_cmp (a b : txout) : comparison :=
  match o_value a ?= o_value b with
  | Eq => bytes_cmp (o_spk a) (o_spk b)
  | c => c
  end.
Definition out_leb (a b : txout) : bool := match out_cmp a b with Gt => false | _ => true end.

Lemma out_cmp_eq a b : out_cmp a b = Eq -> a = b.
Proof.
  unfold out_cmp. destruct a as [va sa], b as [vb sb]. cbn [o_value o_spk].
  destruct (N.compare_spec va vb) as [Ev|Lv|Gv]; try discriminate. intros Hs. apply bytes_cmp_eq in Hs. subst. reflexivity.
Qed.
Lemma out_cmp_antisym a b : out_cmp b a = CompOpp (out_cmp a b).
Proof.
  unfold out_cmp. rewrite (N.compare_antisym (o_value a) (o_value b)).
  destruct (o_value a ?= o_value b); cbn [CompOpp]; [apply bytes_cmp_antisym|reflexivity|reflexivity].
Qed.
Lemma out_cmp_lt_trans a b c : out_cmp a b = Lt -> out_cmp b c = Lt -> out_cmp a c = Lt.
Proof.
  unfold out_cmp.
  destruct (N.compare_spec (o_value a) (o_value b)) as [E1|L1|G1]; try discriminate;
    destruct (N.compare_spec (o_value b) (o_value c)) as [E2|L2|G2]; try discriminate; intros H1 H2.
  - rewrite E1, E2, N.compare_refl. eapply bytes_cmp_lt_trans; eassumption.
  - rewrite E1. apply N.compare_lt_iff in L2. rewrite L2. reflexivity.
  - rewrite <- E2. apply N.compare_lt_iff in L1. rewrite L1. reflexivity.
  - assert (L : o_value a < o_value c) by lia. apply N.compare_lt_iff in L. rewrite L. reflexivity.
Qed.

Lemma out_leb_total a b : out_leb a b = false -> out_leb b a = true.
Proof.
  unfold out_leb. rewrite (out_cmp_antisym a b). destruct (out_cmp a b); cbn [CompOpp]; congruence.
Qed.
Lemma out_leb_antisym a b : out_leb a b = true -> out_leb b a = true -> a = b.
Proof.
  unfold out_leb. rewrite (out_cmp_antisym a b). intros H1 H2.
  destruct (out_cmp a b) eqn:E; cbn [CompOpp] in *; try discriminate. apply out_cmp_eq. exact E.
Qed.
Lemma out_leb_trans a b c : out_leb a b = true -> out_leb b c = true -> out_leb a c = true.
Proof.
  unfold out_leb. intros H1 H2.
  destruct (out_cmp a b) eqn:E1; try discriminate; destruct (out_cmp b c) eqn:E2; try discriminate.
  - apply out_cmp_eq in E1. subst. rewrite E2. reflexivity.
  - apply out_cmp_eq in E1. subst. rewrite E2. reflexivity.
  - apply out_cmp_eq in E2. subst. rewrite E1. reflexivity.
  - rewrite (out_cmp_lt_trans a b c E1 E2). reflexivity.
Qed.

Fixpoint insert_out (x : txout) (l : list txout) : list txout :=
  match l with
  | [] => [x]
  | y :: r => if out_leb x y then x :: l else y :: insert_out x r
  end.
Definition sort_outs (l : list txout) : list txout := fold_right insert_out [] l.

(** insertion commutes (total order), so the sort is a function of the multiset *)
Lemma insert_out_comm a b : forall l, insert_out a (insert_out b l) = insert_out b (insert_out a l).
Proof.
  induction l as [|y r IH]; cbn [insert_out].
  - destruct (out_leb a b) eqn:Eab; destruct (out_leb b a) eqn:Eba; try reflexivity.
    + rewrite (out_leb_antisym a b Eab Eba). reflexivity.
    + apply out_leb_total in Eab. congruence.
  - destruct (out_leb b y) eqn:Eby; destruct (out_leb a y) eqn:Eay; cbn [insert_out];
      rewrite ?Eby, ?Eay.
    + destruct (out_leb a b) eqn:Eab; destruct (out_leb b a) eqn:Eba; rewrite ?Eay, ?Eby; try reflexivity.
      * rewrite (out_leb_antisym a b Eab Eba). reflexivity.
      * apply out_leb_total in Eab. congruence.
    + (* b <= y < a *)
      assert (Eab : out_leb a b = false).
      { destruct (out_leb a b) eqn:E; [|reflexivity]. rewrite (out_leb_trans a b y E Eby) in Eay. discriminate. }
      rewrite ?Eab. cbn [insert_out]. rewrite ?Eay, ?Eab.
      rewrite ?(out_leb_total a b Eab). reflexivity.
    + (* a <= y < b *)
      assert (Eba : out_leb b a = false).
      { destruct (out_leb b a) eqn:E; [|reflexivity]. rewrite (out_leb_trans b a y E Eay) in Eby. discriminate. }
      rewrite ?Eba. cbn [insert_out]. rewrite ?Eby, ?Eba.
      rewrite ?(out_leb_total b a Eba). reflexivity.
    + rewrite IH. reflexivity.
Qed.

Lemma sort_outs_perm l l' : Permutation l l' -> sort_outs l = sort_outs l'.
Proof.
  unfold sort_outs. induction 1; cbn [fold_right].
  - reflexivity.
  - rewrite IHPermutation. reflexivity.
  - apply insert_out_comm.
  - congruence.
Qed.

(** sortedness, as "the head is below everything after it", all the way down *)
Fixpoint sorted_outs (l : list txout) : Prop :=
  match l with
  | [] => True
  | x :: r => Forall (fun y => out_leb x y = true) r /\ sorted_outs r
  end.

Lemma insert_out_Forall (P : txout -> Prop) x l : P x -> Forall P l -> Forall P (insert_out x l).
Proof.
  intros Hx. induction 1 as [|y r Hy Hr IH]; cbn [insert_out].
  - constructor; [exact Hx|constructor].
  - destruct (out_leb x y); constructor; auto.
Qed.

Lemma insert_out_sorted x : forall l, sorted_outs l -> sorted_outs (insert_out x l).
Proof.
  induction l as [|y r IH]; intros H; cbn [insert_out sorted_outs] in *.
  - split; [constructor|exact I].
  - destruct H as [Hy Hr]. destruct (out_leb x y) eqn:E; cbn [sorted_outs].
    + split; [|split; assumption]. constructor; [exact E|].
      eapply Forall_impl; [|exact Hy]. intros z Hz. eapply out_leb_trans; eassumption.
    + split; [|apply IH; exact Hr].
      apply insert_out_Forall; [apply out_leb_total; exact E|exact Hy].
Qed.

Lemma sort_outs_sorted l : sorted_outs (sort_outs l).
Proof. induction l as [|x l IH]; cbn [sort_outs fold_right]; [exact I|]. apply insert_out_sorted. exact IH. Qed.

(** inserting at the head of a sorted list whose head is not smaller *)
Lemma insert_out_head x l : sorted_outs (x :: l) -> insert_out x l = x :: l.
Proof.
  destruct l as [|y r]; cbn [sorted_outs insert_out]; [reflexivity|].
  intros [H _]. inversion H as [|? ? Hy _]; subst. rewrite Hy. reflexivity.
Qed.

(** * LDK's comparator, seen through the outputs *)
Lemma entry_cmp_out a b :
  match out_cmp (e_out a) (e_out b) with
  | Lt => entry_cmp a b = Lt
  | Gt => entry_cmp a b = Gt
  | Eq => e_out a = e_out b
  end.
Proof.
  pose proof (out_cmp_eq (e_out a) (e_out b)) as HE.
  unfold out_cmp, entry_cmp in *.
  destruct (o_value (e_out a) ?= o_value (e_out b)); try reflexivity.
  destruct (bytes_cmp (o_spk (e_out a)) (o_spk (e_out b))); try reflexivity. apply HE. reflexivity.
Qed.

Lemma insert_entry_outs x : forall l,
  sorted_outs (map e_out l) ->
  map e_out (insert_entry x l) = insert_out (e_out x) (map e_out l).
Proof.
  induction l as [|y r IH]; intros Hs; cbn [insert_entry map insert_out]; [reflexivity|].
  pose proof (entry_cmp_out x y) as HC. unfold entry_leb, out_leb.
  destruct (out_cmp (e_out x) (e_out y)) eqn:EO.
  - (* same output: wherever the entry goes inside the block, the outputs read the same *)
    destruct (entry_cmp x y); cbn [map]; try reflexivity.
    cbn [map sorted_outs] in Hs. destruct Hs as [Hy Hr].
    rewrite IH by exact Hr. rewrite HC.
    rewrite insert_out_head; [reflexivity|]. cbn [sorted_outs]. split; assumption.
  - rewrite HC. reflexivity.
  - rewrite HC. cbn [map]. cbn [map sorted_outs] in Hs. rewrite IH by apply Hs. reflexivity.
Qed.

Lemma sort_entries_outs l : map e_out (sort_entries l) = sort_outs (map e_out l).
Proof.
  induction l as [|x l IH]; cbn [sort_entries sort_outs fold_right map]; [reflexivity|].
  fold (sort_entries l). rewrite insert_entry_outs.
  - rewrite IH. reflexivity.
  - rewrite IH. apply sort_outs_sorted.
Qed.

(** the outputs of the sorted entries do not depend on the order of the entries *)
Theorem sorted_outs_perm l l' :
  Permutation l l' -> map e_out (sort_entries l) = map e_out (sort_entries l').
Proof.
  intros H. rewrite !sort_entries_outs. apply sort_outs_perm. apply Permutation_map. exact H.
Qed.

(** * generic facts about the two insertion sorts *)
Lemma insert_entry_perm x l : Permutation (insert_entry x l) (x :: l).
Proof.
  induction l as [|y r IH]; cbn [insert_entry]; [reflexivity|].
  destruct (entry_leb x y); [reflexivity|].
  rewrite IH. apply perm_swap.
Qed.
Lemma sort_entries_perm l : Permutation (sort_entries l) l.
Proof.
  induction l as [|x l IH]; cbn [sort_entries fold_right]; [reflexivity|].
  fold (sort_entries l). rewrite insert_entry_perm. constructor. exact IH.
Qed.

Lemma insert_htlc_perm x l : Permutation (insert_htlc x l) (x :: l).
Proof.
  induction l as [|y r IH]; cbn [insert_htlc]; [reflexivity|].
  destruct (htlc_leb x y); [reflexivity|].
  rewrite IH. apply perm_swap.
Qed.
Lemma sort_htlcs_perm l : Permutation (sort_htlcs l) l.
Proof.
  induction l as [|x l IH]; cbn [sort_htlcs fold_right]; [reflexivity|].
  fold (sort_htlcs l). rewrite insert_htlc_perm. constructor. exact IH.
Qed.
Lemma sort_htlcs_nil l : sort_htlcs l = [] <-> l = [].
Proof.
  split; intros H.
  - pose proof (sort_htlcs_perm l) as P. rewrite H in P. apply Permutation_nil. exact P.
  - subst. reflexivity.
Qed.
