(** Proofs about Model/MutualClose.v: what an accepted cooperative close implies, for every
    filter (per tag) and for the non-permissive one, at the validator and at both channel
    entry points; the canonical closing transaction; the fee-rate estimator. *)
From VLS Require Import Base.U64 Base.Eqb Model.MutualClose.
From Coq Require Import ZifyBool ZifyN ZifyNat.

(** * Results *)

Lemma andthen_ok a b : andthen a b = Ok <-> a = Ok /\ b = Ok.
Proof.
  destruct a; cbn [andthen]; split; intros H; try discriminate; try (destruct H; discriminate); tauto.
Qed.

Lemma perr_ok warn t : perr warn t = Ok -> warn t = true.
Proof. unfold perr. destruct (warn t); [reflexivity | discriminate]. Qed.

Lemma check_ok warn c t : check warn c t = Ok -> warn t = false -> c = false.
Proof.
  unfold check. destruct c; [|reflexivity]. intros H Hw. apply perr_ok in H. congruence.
Qed.

Lemma check_not_panic warn c t : check warn c t <> Panic.
Proof. unfold check, perr. destruct c; [destruct (warn t)|]; discriminate. Qed.

(** * Filter *)

Lemma warn_of_nil t : warn_of [] t = false.
Proof. reflexivity. Qed.

Lemma filter_no_warn_rules rules t :
  Forall (fun r => r_warn r = false) rules -> filter_warn rules t = false.
Proof.
  induction 1 as [|r rs Hr _ IH]; cbn [filter_warn]; [reflexivity|].
  destruct (rule_matches r t); assumption.
Qed.

Lemma filter_warn_explicit rules t :
  filter_warn rules t = true ->
  exists pre r post, rules = pre ++ r :: post /\ rule_matches r t = true /\ r_warn r = true /\
                     Forall (fun q => rule_matches q t = false) pre.
Proof.
  induction rules as [|r rs IH]; cbn [filter_warn]; [discriminate|].
  destruct (rule_matches r t) eqn:Hm.
  - intros Hw. exists [], r, rs. repeat split; auto.
  - intros H. destruct (IH H) as (pre & r' & post & -> & Hm' & Hw' & Hpre).
    exists (r :: pre), r', post. repeat split; auto.
Qed.

(** * Structural equality *)

Lemma bytes_eqb_eq a b : bytes_eqb a b = true <-> a = b.
Proof. apply list_eqb_ok. intros x y. apply N.eqb_eq. Qed.

Lemma outpoint_eqb_eq a b : outpoint_eqb a b = true <-> a = b.
Proof.
  unfold outpoint_eqb. destruct a as [t1 v1], b as [t2 v2]; cbn [op_txid op_vout].
  rewrite andb_true_iff, !N.eqb_eq. split.
  - intros [-> ->]. reflexivity.
  - intros H. inversion H. auto.
Qed.

Lemma txin_eqb_eq a b : txin_eqb a b = true <-> a = b.
Proof.
  unfold txin_eqb. destruct a as [p1 s1 q1 w1], b as [p2 s2 q2 w2];
    cbn [in_prev in_script_sig in_sequence in_witness].
  rewrite !andb_true_iff, outpoint_eqb_eq, bytes_eqb_eq, N.eqb_eq.
  rewrite (list_eqb_ok bytes_eqb bytes_eqb_eq). split.
  - intros [[[-> ->] ->] ->]. reflexivity.
  - intros H. inversion H. auto.
Qed.

Lemma txout_eqb_eq a b : txout_eqb a b = true <-> a = b.
Proof.
  unfold txout_eqb. destruct a as [v1 s1], b as [v2 s2]; cbn [o_value o_script].
  rewrite andb_true_iff, N.eqb_eq, bytes_eqb_eq. split.
  - intros [-> ->]. reflexivity.
  - intros H. inversion H. auto.
Qed.

Lemma tx_eqb_eq a b : tx_eqb a b = true <-> a = b.
Proof.
  unfold tx_eqb. destruct a as [v1 l1 i1 o1], b as [v2 l2 i2 o2];
    cbn [tx_version tx_locktime tx_ins tx_outs].
  rewrite !andb_true_iff, !N.eqb_eq.
  rewrite (list_eqb_ok txin_eqb txin_eqb_eq), (list_eqb_ok txout_eqb txout_eqb_eq). split.
  - intros [[[-> ->] ->] ->]. reflexivity.
  - intros H. inversion H. auto.
Qed.

Lemma opt_script_eqb_eq a b : opt_script_eqb a b = true -> a = b.
Proof.
  destruct a as [x|], b as [y|]; cbn [opt_script_eqb]; try discriminate; try reflexivity.
  intros H. apply bytes_eqb_eq in H. subst. reflexivity.
Qed.

(** * The canonical closing transaction *)

Lemma bytes_cmp_eq a : forall b, bytes_cmp a b = Eq -> a = b.
Proof.
  induction a as [|x a IH]; intros [|y b]; cbn [bytes_cmp]; try discriminate; try reflexivity.
  destruct (x ?= y) eqn:E; try discriminate.
  intros H. apply N.compare_eq in E. subst. f_equal. apply IH. exact H.
Qed.

(** outputs that the sort cannot tell apart are identical *)
Lemma out_cmp_eq a b : out_cmp a b = Eq -> a = b.
Proof.
  unfold out_cmp. destruct a as [v1 s1], b as [v2 s2]; cbn [o_value o_script].
  destruct (v1 ?= v2) eqn:E; try discriminate.
  intros H. apply N.compare_eq in E. apply bytes_cmp_eq in H. subst. reflexivity.
Qed.

Lemma bytes_cmp_antisym a : forall b, bytes_cmp b a = CompOpp (bytes_cmp a b).
Proof.
  induction a as [|x a IH]; intros [|y b]; cbn [bytes_cmp]; try reflexivity.
  rewrite (N.compare_antisym x y). destruct (x ?= y); cbn [CompOpp]; auto.
Qed.

Lemma out_cmp_antisym a b : out_cmp b a = CompOpp (out_cmp a b).
Proof.
  unfold out_cmp. rewrite (N.compare_antisym (o_value a) (o_value b)).
  destruct (o_value a ?= o_value b); cbn [CompOpp]; auto. apply bytes_cmp_antisym.
Qed.

(** the outputs of the canonical closing transaction: exactly the positive ones ... *)
Lemma canon_outs_in vh vc sh sc o :
  In o (canon_outs vh vc sh sc) <->
  (o = mkOut vc sc /\ 0 < vc) \/ (o = mkOut vh sh /\ 0 < vh).
Proof.
  unfold canon_outs.
  destruct (0 <? vc) eqn:Ec; destruct (0 <? vh) eqn:Eh; cbn [app sort_outs].
  - destruct (out_cmp (mkOut vc sc) (mkOut vh sh)); cbn [In]; split; intros H;
      repeat match goal with
             | H : _ \/ _ |- _ => destruct H
             | H : _ /\ _ |- _ => destruct H
             | H : False |- _ => destruct H
             end; subst; auto; try (left; split; [reflexivity|lia]); try (right; split; [reflexivity|lia]).
  - cbn [In]. split; intros H.
    + destruct H as [H|[]]. subst. left. split; [reflexivity|lia].
    + destruct H as [[-> _]|[_ H]]; [auto|lia].
  - cbn [In]. split; intros H.
    + destruct H as [H|[]]. subst. right. split; [reflexivity|lia].
    + destruct H as [[_ H]|[-> _]]; [lia|auto].
  - cbn [In]. split; intros H; [destruct H|]. destruct H as [[_ H]|[_ H]]; lia.
Qed.

(** ... each once ... *)
Lemma canon_outs_length vh vc sh sc :
  length (canon_outs vh vc sh sc) =
  Nat.add (if 0 <? vc then 1%nat else 0%nat) (if 0 <? vh then 1%nat else 0%nat).
Proof.
  unfold canon_outs. destruct (0 <? vc); destruct (0 <? vh); cbn [app sort_outs]; try reflexivity.
  destruct (out_cmp _ _); reflexivity.
Qed.

(** ... in non-decreasing (value, script) order *)
Lemma canon_outs_sorted vh vc sh sc a b :
  canon_outs vh vc sh sc = [a; b] -> out_cmp a b <> Gt.
Proof.
  unfold canon_outs. destruct (0 <? vc); destruct (0 <? vh); cbn [app sort_outs]; try discriminate.
  destruct (out_cmp (mkOut vc sc) (mkOut vh sh)) eqn:E; intros H; inversion H; subst; try congruence.
  rewrite out_cmp_antisym, E. cbn [CompOpp]. discriminate.
Qed.

(** it spends exactly the funding outpoint, final sequence, no lock time, version 2 *)
Lemma canon_close_shape s vh vc sh sc :
  tx_version (canon_close s vh vc sh sc) = 2 /\ tx_locktime (canon_close s vh vc sh sc) = 0 /\
  tx_ins (canon_close s vh vc sh sc) = [mkIn (funding s) [] SEQUENCE_MAX []] /\
  tx_outs (canon_close s vh vc sh sc) = canon_outs vh vc sh sc.
Proof. repeat split. Qed.

Lemma close_weight_pos outs : 0 < close_weight outs.
Proof. unfold close_weight, CLOSE_WITNESS_WEIGHT. lia. Qed.

(** * The fee-rate estimator *)

Lemma div_ge_iff a b q : b <> 0 -> (q <= a / b <-> q * b <= a).
Proof.
  intros Hb. split; intros H.
  - pose proof (N.mul_div_le a b Hb). nia.
  - apply N.div_le_lower_bound; [assumption | lia].
Qed.

Lemma div_le_iff a b q : b <> 0 -> (a / b <= q <-> a < (q + 1) * b).
Proof.
  intros Hb. split; intros H.
  - pose proof (N.mod_upper_bound a b Hb). pose proof (N.div_mod a b Hb). nia.
  - assert (a / b < q + 1); [|lia]. apply N.div_lt_upper_bound; [assumption | lia].
Qed.

Lemma estimate_ge_min fee w m : w <> 0 ->
  m <= estimate_feerate_per_kw fee w -> m * w <= fee * 1000 + 999.
Proof.
  intros Hw H. unfold estimate_feerate_per_kw in H.
  apply (div_ge_iff (fee * 1000 + 999) w m Hw). lia.
Qed.

(** needs a maximum below u32::MAX (u32::MAX itself means "no maximum": the saturated value
    is accepted) *)
Lemma estimate_le_max fee w m : w <> 0 -> m < U32MAX ->
  estimate_feerate_per_kw fee w <= m -> fee * 1000 + 999 < (m + 1) * w.
Proof.
  intros Hw Hm H. unfold estimate_feerate_per_kw in H.
  apply (div_le_iff (fee * 1000 + 999) w m Hw). lia.
Qed.

Lemma bolt3_fee_le rate w fee : rate * w <= fee * 1000 + 999 -> bolt3_fee rate w <= fee.
Proof.
  intros H. unfold bolt3_fee.
  assert (rate * w / 1000 < fee + 1); [|lia].
  apply N.div_lt_upper_bound; lia.
Qed.

Lemma bolt3_fee_gt rate w fee : fee * 1000 + 999 < rate * w -> fee < bolt3_fee rate w.
Proof.
  intros H. unfold bolt3_fee.
  assert (fee + 1 <= rate * w / 1000); [|lia].
  apply N.div_le_lower_bound; lia.
Qed.

(** the two formulations of the fee window coincide *)
Lemma bolt3_window_iff lo hi w fee :
  (bolt3_fee lo w <= fee /\ fee < bolt3_fee hi w) <->
  (lo * w <= fee * 1000 + 999 /\ fee * 1000 + 999 < hi * w).
Proof.
  unfold bolt3_fee. split; intros [H1 H2]; split.
  - pose proof (N.mod_upper_bound (lo * w) 1000). pose proof (N.div_mod (lo * w) 1000). nia.
  - pose proof (N.mul_div_le (hi * w) 1000). nia.
  - apply bolt3_fee_le. assumption.
  - apply bolt3_fee_gt. assumption.
Qed.

(** * validate_mutual_close_tx *)

Section ValidatorFacts.
  Variable warn : tag -> bool.
  Variable can_spend : path -> script -> option bool.
  Variable allowlisted : script -> path -> bool.
  Variable pol : policy.

  Lemma validate_fee_ok si so w :
    validate_fee warn pol si so w = Ok ->
    so <= si /\ w <> 0 /\
    (warn T_fee_range = false ->
     bolt3_fee (min_feerate pol) w <= si - so /\
     (max_feerate pol < U32MAX -> si - so < bolt3_fee (max_feerate pol + 1) w)).
  Proof.
    unfold validate_fee, sub_checked. destruct (so <=? si) eqn:E; [|discriminate].
    destruct (w =? 0) eqn:Ew; [discriminate|]. intros H.
    apply andthen_ok in H. destruct H as [H1 H2].
    split; [lia|]. split; [lia|]. intros Hw.
    apply check_ok in H1; [|assumption]. apply check_ok in H2; [|assumption].
    assert (Hw0 : w <> 0) by lia. split.
    - apply bolt3_fee_le. apply estimate_ge_min; [assumption | lia].
    - intros Hm. apply bolt3_fee_gt. apply estimate_le_max; [assumption | assumption | lia].
  Qed.

  Lemma outside_epsilon_within a b :
    outside_epsilon pol a b = false -> within (epsilon pol) a b.
  Proof. unfold outside_epsilon, within. destruct (b <? a) eqn:E; intros H; lia. Qed.

  Lemma value_checks_ok s hi ci a :
    value_checks warn pol s hi ci (a_vh a) (a_vc a) = Ok -> warn T_value_matches = false ->
    NonFeePayerWithinEps pol s hi ci a.
  Proof.
    unfold value_checks, NonFeePayerWithinEps. intros H Hw.
    destruct (is_outbound s); apply andthen_ok in H; destruct H as [H1 H2];
      apply check_ok in H1; try assumption; apply check_ok in H2; try assumption;
      split; apply outside_epsilon_within; assumption.
  Qed.

  Lemma script_check_ok sh p :
    script_check warn can_spend allowlisted sh p = Ok -> warn T_destination = false ->
    forall scr, sh = Some scr -> Owned can_spend allowlisted p scr.
  Proof.
    unfold script_check, Owned. intros H Hw scr ->.
    destruct (can_spend p scr) as [[|]|]; [left; reflexivity | | discriminate].
    apply check_ok in H; [|assumption]. right. destruct (allowlisted scr p); [reflexivity|discriminate].
  Qed.

  (** the successive checks of an accepted request *)
  Lemma validate_inv s e a :
    validate_mutual_close warn can_spend allowlisted pol s e a = Ok ->
    exists hi ci so,
      holder_info e = Some hi /\ cp_info e = Some ci /\
      check warn ((0 <? a_vh a) && is_none (a_sh a)) T_destination = Ok /\
      check warn ((0 <? a_vc a) && is_none (a_sc a)) T_destination = Ok /\
      check warn (negb (is_none (upfront s)) && (0 <? a_vh a) &&
                  negb (opt_script_eqb (a_sh a) (upfront s))) T_destination = Ok /\
      check warn (negb (htlcs_empty hi) || negb (htlcs_empty ci)) T_no_htlcs = Ok /\
      add_checked (a_vh a) (a_vc a) = Some so /\
      validate_fee warn pol (channel_value s) so (close_weight (tx_outs (close_of s a))) = Ok /\
      value_checks warn pol s hi ci (a_vh a) (a_vc a) = Ok /\
      script_check warn can_spend allowlisted (a_sh a) (a_path a) = Ok.
  Proof.
    unfold validate_mutual_close. intros H.
    destruct (holder_info e) as [hi|]; [|discriminate].
    destruct (cp_info e) as [ci|]; [|discriminate].
    apply andthen_ok in H. destruct H as [H1 H].
    apply andthen_ok in H. destruct H as [H2 H].
    apply andthen_ok in H. destruct H as [H3 H].
    apply andthen_ok in H. destruct H as [H4 H].
    destruct (add_checked (a_vh a) (a_vc a)) as [so|] eqn:Eso; [|discriminate].
    apply andthen_ok in H. destruct H as [H5 H].
    apply andthen_ok in H. destruct H as [H6 H7].
    exists hi, ci, so. repeat split; assumption.
  Qed.

  (** per tag, for an arbitrary filter: a conjunct can only be missing when its own tag is
      downgraded; the outputs never exceed the funding and both commitments are present
      whatever the filter says *)
  Lemma validate_facts s e a :
    validate_mutual_close warn can_spend allowlisted pol s e a = Ok ->
    exists hi ci,
      holder_info e = Some hi /\ cp_info e = Some ci /\
      a_vh a + a_vc a <= channel_value s /\
      (warn T_no_htlcs = false -> NoHtlcs hi ci) /\
      (warn T_fee_range = false -> max_feerate pol < U32MAX -> FeeInRange pol s a) /\
      (warn T_value_matches = false -> NonFeePayerWithinEps pol s hi ci a) /\
      (warn T_destination = false -> HolderDestinationOk can_spend allowlisted s a).
  Proof.
    intros H. apply validate_inv in H.
    destruct H as (hi & ci & so & Hh & Hc & H1 & H2 & H3 & H4 & Hso & H5 & H6 & H7).
    unfold add_checked in Hso. destruct (a_vh a + a_vc a <=? U64MAX); [|discriminate].
    inversion Hso; subst so; clear Hso.
    apply validate_fee_ok in H5. destruct H5 as (Hle & Hw0 & Hfee).
    exists hi, ci. split; [assumption|]. split; [assumption|]. split; [assumption|].
    split; [|split; [|split]].
    - intros Hw. apply check_ok in H4; [|assumption]. unfold htlcs_empty in H4. unfold NoHtlcs. lia.
    - intros Hw Hm. unfold FeeInRange. cbv zeta. destruct (Hfee Hw) as [A B]. auto.
    - intros Hw. apply value_checks_ok; assumption.
    - intros Hw. unfold HolderDestinationOk. split.
      + intros Hpos.
        apply check_ok in H1; [|assumption]. apply check_ok in H3; [|assumption].
        destruct (a_sh a) as [scr|] eqn:Esh.
        * exists scr. split; [reflexivity|]. split.
          -- eapply script_check_ok; eauto.
          -- intros u Hu. rewrite Hu in H3. cbn [is_none negb] in H3.
             assert (Hz : (0 <? a_vh a) = true) by lia. rewrite Hz in H3. cbn [andb] in H3.
             apply negb_false_iff in H3. apply opt_script_eqb_eq in H3. congruence.
        * cbn [is_none] in H1. lia.
      + intros Hpos. apply check_ok in H2; [|assumption].
        destruct (a_sc a); [discriminate|]. cbn [is_none] in H2. lia.
  Qed.

  Lemma validate_strict s e a :
    (forall t, warn t = false) -> max_feerate pol < U32MAX ->
    validate_mutual_close warn can_spend allowlisted pol s e a = Ok ->
    CloseOk can_spend allowlisted pol s e a.
  Proof.
    intros Hw Hm H. apply validate_facts in H.
    destruct H as (hi & ci & Hh & Hc & _ & A & B & C & D).
    exists hi, ci.
    split; [assumption|]. split; [assumption|]. split; [apply A, Hw|].
    split; [apply B; [apply Hw | assumption]|]. split; [apply C, Hw | apply D, Hw].
  Qed.

  (** * decode_and_validate_mutual_close_tx *)

  Lemma candidates_assignment e t paths l u :
    candidates pol e (tx_outs t) paths = Some (l, u) ->
    Assignment t paths l /\ Assignment t paths u.
  Proof.
    unfold candidates, Assignment. destruct (tx_outs t) as [|o0 [|o1 [|o2 r]]]; try discriminate.
    - destruct (opt_gt _ _); intros H; inversion H; subst; auto.
    - destruct (opt_gt _ _); intros H; inversion H; subst; auto.
  Qed.

  (** an accepted phase-1 request: the arguments decided on are one of the two assignments of
      the request's outputs (each output with its own path), they pass validation, and -
      unless the recomposition tag is downgraded - the canonical closing transaction built
      from them IS the request's transaction *)
  Lemma decode_facts s e t paths a :
    decode_and_validate warn can_spend allowlisted pol s e t paths = DOk a ->
    length paths = length (tx_outs t) /\
    Assignment t paths a /\
    validate_mutual_close warn can_spend allowlisted pol s e a = Ok /\
    (warn T_format_standard = false -> close_of s a = t).
  Proof.
    unfold decode_and_validate.
    destruct (2 <? length (tx_outs t))%nat; [discriminate|].
    destruct (length paths =? length (tx_outs t))%nat eqn:El; cbn [negb]; [|discriminate].
    apply Nat.eqb_eq in El.
    destruct (check warn (is_none (holder_info e)) T_other); try discriminate.
    destruct (check warn (is_none (cp_info e)) T_other); try discriminate.
    destruct (candidates pol e (tx_outs t) paths) as [[l u]|] eqn:Ec; [|discriminate].
    apply candidates_assignment in Ec. destruct Ec as [Al Au].
    assert (Hfin : forall g,
      (if tx_eqb (close_of s g) t then DOk g
       else match perr warn T_format_standard with
            | Ok => DOk g | Err t3 => DErr t3 | Panic => DPanic end) = DOk a ->
      g = a /\ (warn T_format_standard = false -> close_of s a = t)).
    { intros g Hg. destruct (tx_eqb (close_of s g) t) eqn:Et.
      - inversion Hg; subst. split; [reflexivity|]. intros _. apply tx_eqb_eq. exact Et.
      - unfold perr in Hg. destruct (warn T_format_standard) eqn:Ew; [|discriminate].
        inversion Hg; subst. split; [reflexivity|]. discriminate. }
    destruct (validate_mutual_close warn can_spend allowlisted pol s e l) eqn:Vl.
    - intros H. apply Hfin in H. destruct H as [-> Hr]. auto.
    - destruct (validate_mutual_close warn can_spend allowlisted pol s e u) eqn:Vu; try discriminate.
      intros H. apply Hfin in H. destruct H as [-> Hr]. auto.
    - discriminate.
  Qed.
End ValidatorFacts.

(** * channel.rs: both entry points *)

Section ChannelFacts.
  Variables (keyT msgT sigT : Type).
  Variable sighash : tx -> N -> msgT.
  Variable sign : keyT -> msgT -> sigT.
  Variable fk : keyT.
  Variable warn : tag -> bool.
  Variable can_spend : path -> script -> option bool.
  Variable allowlisted : script -> path -> bool.
  Variable pol : policy.

  Notation phase2 := (sign_close_phase2 keyT msgT sigT sighash sign fk warn can_spend allowlisted pol).
  Notation phase1 := (sign_close_phase1 keyT msgT sigT sighash sign fk warn can_spend allowlisted pol).

  Lemma sign_and_close_signed pok s c t c' sg :
    sign_and_close keyT msgT sigT sighash sign fk pok s c t = (c', Signed sg) ->
    pok = true /\ sg = sign fk (sighash t (channel_value s)) /\
    c' = mkChan (set_closed (c_mem c)) (set_closed (c_mem c)).
  Proof.
    unfold sign_and_close. destruct pok; intros H; inversion H; subst; auto.
  Qed.

  Lemma phase2_signed pok s c a c' sg :
    phase2 pok s c a = (c', Signed sg) ->
    validate_mutual_close warn can_spend allowlisted pol s (c_mem c) a = Ok /\
    pok = true /\ sg = sign fk (sighash (close_of s a) (channel_value s)) /\
    c' = mkChan (set_closed (c_mem c)) (set_closed (c_mem c)).
  Proof.
    unfold sign_close_phase2.
    destruct (validate_mutual_close warn can_spend allowlisted pol s (c_mem c) a) eqn:V;
      try (intros H; inversion H; fail).
    intros H. apply sign_and_close_signed in H. tauto.
  Qed.

  Lemma phase1_signed pok s c t paths c' sg :
    phase1 pok s c t paths = (c', Signed sg) ->
    exists a,
      decode_and_validate warn can_spend allowlisted pol s (c_mem c) t paths = DOk a /\
      pok = true /\ sg = sign fk (sighash (close_of s a) (channel_value s)) /\
      c' = mkChan (set_closed (c_mem c)) (set_closed (c_mem c)).
  Proof.
    unfold sign_close_phase1.
    destruct (negb (length paths =? length (tx_outs t))%nat); [intros H; inversion H|].
    destruct (decode_and_validate warn can_spend allowlisted pol s (c_mem c) t paths) as [a|tg|] eqn:D;
      try (intros H; inversion H; fail).
    intros H. apply sign_and_close_signed in H. exists a. tauto.
  Qed.

  (** without a signature the store is left as it was; the memory changes only when the
      store refused the write (the closed flag was already set then) *)
  Lemma phase2_unsigned pok s c a c' o :
    phase2 pok s c a = (c', o) -> (forall sg, o <> Signed sg) ->
    c_disk c' = c_disk c /\ (o <> Refused R_internal -> c' = c).
  Proof.
    unfold sign_close_phase2, sign_and_close.
    destruct (validate_mutual_close warn can_spend allowlisted pol s (c_mem c) a).
    - destruct pok; intros H Hn; inversion H; subst.
      + exfalso. eapply Hn. reflexivity.
      + cbn [c_disk]. split; [reflexivity|]. intros Hx. exfalso. apply Hx. reflexivity.
    - intros H _. inversion H; subst. auto.
    - intros H _. inversion H; subst. auto.
  Qed.

  Lemma phase1_unsigned pok s c t paths c' o :
    phase1 pok s c t paths = (c', o) -> (forall sg, o <> Signed sg) ->
    c_disk c' = c_disk c /\ (o <> Refused R_internal -> c' = c).
  Proof.
    unfold sign_close_phase1, sign_and_close.
    destruct (negb (length paths =? length (tx_outs t))%nat).
    { intros H _. inversion H; subst. auto. }
    destruct (decode_and_validate warn can_spend allowlisted pol s (c_mem c) t paths).
    - destruct pok; intros H Hn; inversion H; subst.
      + exfalso. eapply Hn. reflexivity.
      + cbn [c_disk]. split; [reflexivity|]. intros Hx. exfalso. apply Hx. reflexivity.
    - intros H _. inversion H; subst. auto.
    - intros H _. inversion H; subst. auto.
  Qed.
End ChannelFacts.
