(** C10 over joint histories: a commitment request that the node as a whole refuses - whether the
    enforcement state machine of its channel or the node-wide payment check said no - leaves the
    payment bookkeeping and every channel as they were. *)
From VLS Require Import Base.U64 Model.Joint Proofs.EnforcementProofs Proofs.JointProofs Proofs.RefusedProofs.
Require Import Lia.

Section JR.
Variable warn : tag -> bool.
Variable prof : profile.
Hypothesis Wall : forall t, warn t = false.

Lemma gstep_out sg o : snd (gstep warn prof sg o) = snd (step warn prof (fst sg) o).
Proof. destruct sg as [s g]. rewrite gstep_unfold. cbn [fst]. destruct (step warn prof s o) as [s0 o0]. reflexivity. Qed.

Lemma stub_refused o : fst (step warn prof Stub o) = Stub \/ st (snd (step warn prof Stub o)) <> Refused.
Proof.
  unfold step.
  destruct o; cbn [step0 on_ready st refused ok0 ok_point fst snd crash]; try (left; reflexivity);
    try (right; discriminate);
    destruct ((n =? 0) || (n =? 1)); cbn; (left; reflexivity) || (right; discriminate).
Qed.

(** one request on a durable slot: refused means unchanged *)
Lemma slot_refused sl o :
  wf_op o -> (match o with HValidateOld _ _ _ _ _ => False | _ => True end) ->
  slot_durable sl ->
  st (snd (step warn prof sl o)) = Refused -> fst (step warn prof sl o) = sl.
Proof.
  intros Hwf Hno Hd Hr. destruct sl as [|ch].
  - destruct (stub_refused o) as [H|H]; [exact H | contradiction].
  - apply (refused_changes_nothing warn prof Wall); [split; [exact Hwf | destruct o; try exact I; contradiction] | exact Hd | exact Hr].
Qed.

Lemma oN_eqb_refl x : oN_eqb x x = true.
Proof. destruct x; cbn; [apply N.eqb_refl | reflexivity]. Qed.

Lemma ops_for_other ch ch' o : (ch =? ch') = false -> ops_for ch' [(ch, o)] = [].
Proof. intros E. unfold ops_for. cbn [filter fst]. rewrite E. reflexivity. Qed.

(** a plan that consists of one request to one channel and no payment request, refused *)
Lemma exec_one nch mf mp s ch eo r :
  st r = Refused ->
  fst (fst (gstep warn prof (jc s ch) eo)) = fst (jc s ch) ->
  let s' := fst (exec warn prof nch mf mp s (with_crash nch ([], [(ch, eo)], r))) in
  jp s' = jp s /\ forall ch', fst (jc s' ch') = fst (jc s ch').
Proof.
  intros Hr Hs. unfold with_crash. rewrite Hr. unfold exec. cbn [fst jp jc P.prun].
  split; [reflexivity|]. intros ch'. destruct (ch =? ch') eqn:E.
  - apply N.eqb_eq in E. subst ch'. rewrite ops_for_one. cbn [grun]. exact Hs.
  - rewrite (ops_for_other _ _ _ E). reflexivity.
Qed.

Lemma exec_none nch mf mp s :
  let s' := fst (exec warn prof nch mf mp s (with_crash nch ([], [], refused))) in
  jp s' = jp s /\ forall ch', fst (jc s' ch') = fst (jc s ch').
Proof.
  unfold with_crash. cbn [st refused]. unfold exec. cbn [fst jp jc P.prun ops_for filter map grun].
  split; [reflexivity | intros; reflexivity].
Qed.

Theorem joint_refused_changes_nothing nch mf mp jops o :
  Forall jwf jops -> jshort nch jops -> jwf o ->
  let s := jrun warn prof nch mf mp (jinit warn prof) jops in
  st (snd (jstep warn prof nch mf mp s o)) = Refused ->
  jp (fst (jstep warn prof nch mf mp s o)) = jp s /\
  forall ch, fst (jc (fst (jstep warn prof nch mf mp s o)) ch) = fst (jc s ch).
Proof.
  intros Hwf Hs Ho s.
  assert (Hdur : forall ch, slot_durable (fst (jc s ch))).
  { intros ch. apply (joint_durable warn prof (Wall _) (Wall _) (Wall _) (Wall _) nch mf mp jops ch Hwf Hs). }
  assert (Hsnd : forall pl, snd (exec warn prof nch mf mp s (with_crash nch pl)) = snd pl).
  { intros [[pops cops] r]. unfold with_crash, exec. destruct (st r); reflexivity. }
  unfold jstep. rewrite Hsnd.
  destruct o as [h a|ch n pt cid c pol|ch n cid c sg pol|ch n|ch r pt sec chains|ch n|h| |];
    cbn [plan jwf] in *; try (cbn [snd st ok0]; discriminate).
  - (* JSignCp *)
    destruct (negb (P.in_range nch ch)); [intros _; apply exec_none|].
    set (eo := SignCp n pt cid (pol && P.validate_payments nch mf mp (jp s) ch None (Some c))).
    cbn [snd]. intros Hr. rewrite Hr. apply exec_one; [exact Hr|].
    rewrite gstep_slot. rewrite gstep_out in Hr.
    apply slot_refused; [exact Ho | exact I | apply Hdur | exact Hr].
  - (* JValidateHolder *)
    destruct (negb (P.in_range nch ch)); [intros _; apply exec_none|].
    set (eo := ValidateHolder n cid sg (pol && P.validate_payments nch mf mp (jp s) ch (Some c) None)).
    cbn [snd]. intros Hr. rewrite Hr. apply exec_one; [exact Hr|].
    rewrite gstep_slot. rewrite gstep_out in Hr.
    apply slot_refused; [exact Ho | exact I | apply Hdur | exact Hr].
  - (* JRevoke *)
    destruct (negb (P.in_range nch ch)); [intros _; apply exec_none|].
    set (py := match P.hnxt (P.chans (jp s) ch) with
               | Some c => P.validate_payments nch mf mp (jp s) ch (Some c) None
               | None => true end).
    cbn [snd]. intros Hr.
    assert (Hsl : fst (fst (gstep warn prof (jc s ch) (Revoke n py))) = fst (jc s ch)).
    { rewrite gstep_slot. rewrite gstep_out in Hr.
      apply slot_refused; [exact Ho | exact I | apply Hdur | exact Hr]. }
    rewrite Hsl, oN_eqb_refl. cbn [negb]. apply exec_one; [exact Hr | exact Hsl].
  - (* JCpRevoke *)
    destruct (negb (P.in_range nch ch)); [intros _; apply exec_none|].
    cbn [snd]. intros Hr. apply exec_one; [exact Hr|].
    rewrite gstep_slot. rewrite gstep_out in Hr.
    apply slot_refused; [exact Ho | exact I | apply Hdur | exact Hr].
  - (* JSignHolder *)
    destruct (negb (P.in_range nch ch)); [intros _; apply exec_none|].
    cbn [snd]. intros Hr. apply exec_one; [exact Hr|].
    rewrite gstep_slot. rewrite gstep_out in Hr.
    apply slot_refused; [exact Ho | exact I | apply Hdur | exact Hr].
Qed.

End JR.

(** ** a restart of the whole signer is invisible on every channel of a joint history *)

Section JRestart.
Variable warn : tag -> bool.
Variable prof : profile.
Hypothesis W1 : warn TRevokeNewSigned = false.
Hypothesis W2 : warn TRevokeNotClosed = false.
Hypothesis W3 : warn THolderNotRevoked = false.
Hypothesis W4 : warn TOther = false.

Lemma restart_identity sl : slot_durable sl -> fst (step warn prof sl Restart) = sl.
Proof.
  intros Hd. destruct sl as [|[m d]]; unfold step; cbn [step0 st ok0 fst crash]; [reflexivity|].
  cbn [slot_durable mem disk] in *. subst. reflexivity.
Qed.

Lemma restarts_identity k : forall sg,
  slot_durable (fst sg) -> fst (grun warn prof sg (repeat Restart k)) = fst sg.
Proof.
  induction k as [|k IH]; intros sg Hd; cbn [repeat grun]; [reflexivity|].
  assert (E : fst (fst (gstep warn prof sg Restart)) = fst sg)
    by (rewrite (gstep_slot warn prof); apply restart_identity; exact Hd).
  rewrite IH; [exact E | rewrite E; exact Hd].
Qed.

Theorem joint_restart_invisible nch mf mp jops ch :
  Forall jwf jops -> jshort nch jops ->
  let s := jrun warn prof nch mf mp (jinit warn prof) jops in
  slot_durable (fst (jc s ch)) /\
  fst (jc (fst (jstep warn prof nch mf mp s JRestart)) ch) = fst (jc s ch).
Proof.
  intros Hwf Hs s.
  pose proof (joint_durable warn prof W1 W2 W3 W4 nch mf mp jops ch Hwf Hs) as Hd. fold s in Hd.
  split; [exact Hd|].
  rewrite jstep_jc. cbn [plan with_crash st ok0 fst snd].
  rewrite ops_for_restart_all. apply restarts_identity. exact Hd.
Qed.

End JRestart.
