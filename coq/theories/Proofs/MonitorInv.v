(** Invariants that tie the monitor's core to the history it has seen (the outpoints spent
    so far [S] and the transaction ids seen so far [T]), and what a consistent transaction
    implies for the changes it produces: every change meets [cpre] on the core it is applied
    to, and the invariant carries over. *)
From VLS Require Import Model.Monitor Proofs.MonitorSets Proofs.MonitorDecode Proofs.MonitorUndo Proofs.MonitorSim.

(** * flags after the setters *)
Lemma find_set_first_other {A} (p q : A -> bool) (f : A -> A) l l' :
  (forall x, p x = true -> q x = false) -> (forall x, p x = true -> q (f x) = false) ->
  set_first p f l = Some l' -> find q l' = find q l.
Proof.
  intros H1 H2. revert l'. induction l as [|x r IH]; intros l' H; cbn [set_first] in H; [discriminate|].
  destruct (p x) eqn:E.
  - inversion H; subst. cbn [find]. rewrite (H1 x E), (H2 x E). reflexivity.
  - destruct (set_first p f r) as [r'|]; [|discriminate]. inversion H; subst. cbn [find].
    destruct (q x); [reflexivity | apply IH; reflexivity].
Qed.
Lemma find_set_first_same {A} (p : A -> bool) (f : A -> A) l l' :
  (forall x, p x = true -> p (f x) = true) ->
  set_first p f l = Some l' -> exists x, find p l = Some x /\ find p l' = Some (f x).
Proof.
  intros Hp. revert l'. induction l as [|x r IH]; intros l' H; cbn [set_first] in H; [discriminate|].
  destruct (p x) eqn:E.
  - inversion H; subst. exists x. cbn [find]. rewrite E, (Hp x E). auto.
  - destruct (set_first p f r) as [r'|]; [|discriminate]. inversion H; subst.
    destruct (IH _ eq_refl) as [y [H1 H2]]. exists y. cbn [find]. rewrite E. auto.
Qed.

Lemma hflag_set_other cl v b cl' v' : set_htlc cl v b = Ok cl' -> v' <> v -> hflag cl' v' = hflag cl v'.
Proof.
  unfold set_htlc, hflag. destruct (set_first _ _ (c_htlcs cl)) as [h|] eqn:E; [|discriminate].
  intros H Hn. inversion H; subst. cbn [c_htlcs]. f_equal.
  eapply find_set_first_other; [| |exact E]; intros x Hx; cbn [fst]; apply N.eqb_eq in Hx; apply N.eqb_neq; congruence.
Qed.
Lemma hflag_set_same cl v b cl' : set_htlc cl v b = Ok cl' -> hflag cl' v = Some b /\ hflag cl v <> None.
Proof.
  unfold set_htlc, hflag. destruct (set_first _ _ (c_htlcs cl)) as [h|] eqn:E; [|discriminate].
  intros H. inversion H; subst. cbn [c_htlcs].
  destruct (find_set_first_same (fun p : N * bool => fst p =? v) (fun p => (fst p, b)) _ _ (fun x Hx => Hx) E) as [x [H1 H2]]. rewrite H1, H2. cbn. split; [reflexivity | discriminate].
Qed.
Lemma sflag_set_other cl o b cl' o' : set_second cl o b = Ok cl' -> o' <> o -> sflag cl' o' = sflag cl o'.
Proof.
  unfold set_second, sflag. destruct (set_first _ _ (c_second cl)) as [h|] eqn:E; [|discriminate].
  intros H Hn. inversion H; subst. cbn [c_second]. f_equal.
  eapply find_set_first_other; [| |exact E]; intros x Hx; cbn [fst]; apply op_eqb_eq in Hx; apply op_eqb_neq; congruence.
Qed.
Lemma sflag_set_same cl o b cl' : set_second cl o b = Ok cl' -> sflag cl' o = Some b /\ sflag cl o <> None.
Proof.
  unfold set_second, sflag. destruct (set_first _ _ (c_second cl)) as [h|] eqn:E; [|discriminate].
  intros H. inversion H; subst. cbn [c_second].
  destruct (find_set_first_same (fun p : outpoint * bool => op_eqb (fst p) o) (fun p => (fst p, b)) _ _ (fun x Hx => Hx) E) as [x [H1 H2]]. rewrite H1, H2. cbn. split; [reflexivity | discriminate].
Qed.
Lemma sflag_push cl slo o : sflag (push_second cl slo) o = match sflag cl o with Some b => Some b | None => if op_eqb slo o then Some false else None end.
Proof.
  unfold sflag, push_second. cbn [c_second]. induction (c_second cl) as [|x r IH]; cbn [app find fst snd option_map].
  - destruct (op_eqb slo o); reflexivity.
  - destruct (op_eqb (fst x) o); [reflexivity | exact IH].
Qed.
Lemma hflag_in cl v : hflag cl v <> None <-> In v (htlc_idx cl).
Proof.
  unfold hflag, htlc_idx. induction (c_htlcs cl) as [|x r IH]; cbn [find map In option_map].
  - split; [congruence | tauto].
  - destruct (fst x =? v) eqn:E.
    + apply N.eqb_eq in E. split; [auto | cbn; discriminate].
    + apply N.eqb_neq in E. rewrite IH. split; [auto | intros [H | H]; [contradiction | exact H]].
Qed.
Lemma sflag_in cl o : sflag cl o <> None <-> In o (slos cl).
Proof.
  unfold sflag, slos. induction (c_second cl) as [|x r IH]; cbn [find map In option_map].
  - split; [congruence | tauto].
  - destruct (op_eqb (fst x) o) eqn:E.
    + apply op_eqb_eq in E. split; [auto | cbn; discriminate].
    + apply op_eqb_neq in E. rewrite IH. split; [auto | intros [H | H]; [contradiction | exact H]].
Qed.

Lemma hflag_new txid our htlcs v : hflag (new_closing txid our htlcs) v <> Some true.
Proof.
  unfold hflag, new_closing. cbn [c_htlcs]. induction htlcs as [|x r IH]; cbn [map find fst]; [discriminate|].
  destruct (x =? v); [cbn; discriminate | exact IH].
Qed.

Section Inv.
Variable g : cfg.
Notation F := (fund g).

Record KInv (S : list outpoint) (T : list N) (k : core) : Prop := {
  K_fo : fst k = None \/ (fst k = Some F /\ In (ftxid g) T);
  K_fin : fst k <> None -> forall i, In i (finputs g) -> In i S;
  K_cf : snd k <> None -> fst k <> None;
  K_clo : snd k <> None -> In F S;
  K_ctx : forall cl, snd k = Some cl -> In (c_txid cl) T /\ (forall o, In o (slos cl) -> In (fst o) T);
  K_our : forall cl v, snd k = Some cl -> c_our cl = Some (v, true) -> In (c_txid cl, v) S;
  K_htlc : forall cl v, snd k = Some cl -> hflag cl v = Some true -> In (c_txid cl, v) S;
  K_sec : forall cl o, snd k = Some cl -> sflag cl o = Some true -> In o S
}.

Lemma KInv_mono S T S' T' k : incl S S' -> incl T T' -> KInv S T k -> KInv S' T' k.
Proof.
  intros HS HT [H1 H2 H3 H4 H5 H6 H7 H8]. constructor.
  - destruct H1 as [H | [H H']]; [left; exact H | right; split; [exact H | apply HT; exact H']].
  - intros Hn i Hi. apply HS. apply H2; assumption.
  - exact H3.
  - intros Hn. apply HS. apply H4. exact Hn.
  - intros cl Hcl. destruct (H5 cl Hcl) as [A B]. split; [apply HT; exact A | intros o Ho; apply HT; apply B; exact Ho].
  - intros cl v Hcl Hv. apply HS. eapply H6; eassumption.
  - intros cl v Hcl Hv. apply HS. eapply H7; eassumption.
  - intros cl o Hcl Ho. apply HS. eapply H8; eassumption.
Qed.

Lemma KInv_init : KInv [] [] (None, None).
Proof. constructor; cbn; try congruence; auto; intros; discriminate. Qed.

(** what justifies a change on core [k], in terms of the history after it *)
Definition just (S : list outpoint) (T : list N) (k : core) (c : change) : Prop :=
  match c with
  | FundingConfirmed o => o = F /\ In (ftxid g) T /\ incl (finputs g) S
  | UnilateralClose txid _ _ _ => In F S /\ In txid T /\ fst k <> None
  | OurOutputSpent v => In (ctxid_of k, v) S
  | HTLCOutputSpent v slo => In (ctxid_of k, v) S /\ In (fst slo) T
  | SecondLevelSpent o => In o S
  | _ => True
  end.

Lemma kinv_step S T k c k' : KInv S T k -> just S T k c -> core_fwd k c = Ok k' -> KInv S T k'.
Proof.
  intros [H1 H2 H3 H4 H5 H6 H7 H8] Hj Hf. destruct c; cbn [core_fwd just] in *.
  - (* FundingConfirmed *)
    destruct Hj as [-> [Hj1 Hj2]]. inversion Hf; subst. constructor; cbn [fst snd].
    + right. split; [reflexivity | exact Hj1].
    + intros _ i Hi. apply Hj2. exact Hi.
    + intros _. discriminate.
    + exact H4.
    + exact H5.
    + exact H6.
    + exact H7.
    + exact H8.
  - inversion Hf; subst. constructor; assumption.
  - (* UnilateralClose *)
    destruct Hj as [Hj1 [Hj2 Hj3]]. inversion Hf; subst. constructor; cbn [fst snd].
    + exact H1.
    + exact H2.
    + intros _. exact Hj3.
    + intros _. exact Hj1.
    + intros cl E. inversion E; subst. cbn. split; [exact Hj2 | intros o []].
    + intros cl v E Hv. inversion E; subst. cbn in Hv. destruct our; discriminate.
    + intros cl v E Hv. inversion E; subst. exfalso. exact (hflag_new _ _ _ _ Hv).
    + intros cl o E Ho. inversion E; subst. discriminate.
  - inversion Hf; subst. constructor; assumption.
  - (* OurOutputSpent *)
    unfold with_closing in Hf. destruct (snd k) as [cl|] eqn:E; [|discriminate].
    apply bind_ok in Hf. destruct Hf as [cl' [Es Hf]]. inversion Hf; subst.
    destruct (set_our_ids _ _ _ _ Es) as (A1 & A2 & A3 & A4).
    unfold ctxid_of in Hj. rewrite E in Hj.
    assert (Hsame : c_htlcs cl' = c_htlcs cl /\ c_second cl' = c_second cl /\ forall v, c_our cl' = Some (v, true) -> v = vout).
    { unfold set_our in Es. destruct (c_our cl) as [[i b]|]; [|discriminate]. destruct (i =? vout) eqn:Ei; [|discriminate].
      inversion Es; subst. cbn. repeat split. intros v Hv. inversion Hv; subst. apply N.eqb_eq. exact Ei. }
    destruct Hsame as [B1 [B2 B3]].
    constructor; cbn [fst snd].
    + exact H1.
    + exact H2.
    + intros _. apply H3. discriminate.
    + intros _. apply H4. discriminate.
    + intros c0 E0. inversion E0; subst. rewrite A1, A4. apply H5. reflexivity.
    + intros c0 v E0 Hv. inversion E0; subst. rewrite A1. rewrite (B3 v Hv). exact Hj.
    + intros c0 v E0 Hv. inversion E0; subst. rewrite A1. apply (H7 cl v eq_refl). unfold hflag in *. rewrite <- B1. exact Hv.
    + intros c0 o E0 Ho. inversion E0; subst. apply (H8 cl o eq_refl). unfold sflag in *. rewrite <- B2. exact Ho.
  - (* HTLCOutputSpent *)
    unfold with_closing in Hf. destruct (snd k) as [cl|] eqn:E; [|discriminate].
    apply bind_ok in Hf. destruct Hf as [cl' [Es Hf]]. inversion Hf; subst.
    apply bind_ok in Es. destruct Es as [clh [Es Ep]]. inversion Ep; subst. clear Ep.
    destruct (set_htlc_ids _ _ _ _ Es) as (A1 & A2 & A3 & A4).
    unfold ctxid_of in Hj. rewrite E in Hj. destruct Hj as [Hj1 Hj2].
    assert (Hsame : c_our clh = c_our cl /\ c_second clh = c_second cl).
    { unfold set_htlc in Es. destruct (set_first _ _ (c_htlcs cl)); [|discriminate]. inversion Es; subst. cbn. auto. }
    destruct Hsame as [B1 B2].
    constructor; cbn [fst snd].
    + exact H1.
    + exact H2.
    + intros _. apply H3. discriminate.
    + intros _. apply H4. discriminate.
    + intros c0 E0. inversion E0; subst. unfold push_second, slos; cbn [c_txid c_second]. rewrite A1.
      destruct (H5 cl eq_refl) as [C1 C2]. split; [exact C1|]. intros o Ho. rewrite map_app in Ho. apply in_app_or in Ho.
      destruct Ho as [Ho | [<- | []]]; [apply C2; unfold slos; rewrite <- B2; exact Ho | exact Hj2].
    + intros c0 v E0 Hv. inversion E0; subst. unfold push_second in *; cbn [c_txid c_our] in *. rewrite A1.
      apply (H6 cl v eq_refl). rewrite <- B1. exact Hv.
    + intros c0 v E0 Hv. inversion E0; subst. unfold push_second in *; cbn [c_txid] in *. rewrite A1.
      assert (Hv' : hflag clh v = Some true) by exact Hv.
      destruct (N.eq_dec v vout) as [-> | Hn]; [exact Hj1|].
      rewrite (hflag_set_other _ _ _ _ _ Es Hn) in Hv'. apply (H7 cl v eq_refl Hv').
    + intros c0 o E0 Ho. inversion E0; subst. rewrite sflag_push in Ho.
      destruct (sflag clh o) as [b|] eqn:Eb.
      * inversion Ho; subst. apply (H8 cl o eq_refl). unfold sflag in *. rewrite <- B2. exact Eb.
      * destruct (op_eqb slo o); discriminate.
  - (* SecondLevelSpent *)
    unfold with_closing in Hf. destruct (snd k) as [cl|] eqn:E; [|discriminate].
    apply bind_ok in Hf. destruct Hf as [cl' [Es Hf]]. inversion Hf; subst.
    destruct (set_second_ids _ _ _ _ Es) as (A1 & A2 & A3 & A4).
    assert (Hsame : c_our cl' = c_our cl /\ c_htlcs cl' = c_htlcs cl).
    { unfold set_second in Es. destruct (set_first _ _ (c_second cl)); [|discriminate]. inversion Es; subst. cbn. auto. }
    destruct Hsame as [B1 B2].
    constructor; cbn [fst snd].
    + exact H1.
    + exact H2.
    + intros _. apply H3. discriminate.
    + intros _. apply H4. discriminate.
    + intros c0 E0. inversion E0; subst. rewrite A1, A4. apply H5. reflexivity.
    + intros c0 v E0 Hv. inversion E0; subst. rewrite A1. apply (H6 cl v eq_refl). rewrite <- B1. exact Hv.
    + intros c0 v E0 Hv. inversion E0; subst. rewrite A1. apply (H7 cl v eq_refl). unfold hflag in *. rewrite <- B2. exact Hv.
    + intros c0 o' E0 Ho. inversion E0; subst.
      destruct (op_dec o' o) as [-> | Hn]; [exact Hj|].
      rewrite (sflag_set_other _ _ _ _ _ Es Hn) in Ho. apply (H8 cl o' eq_refl Ho).
Qed.


(** ** what a consistent transaction looks like from [S], [T] *)
Record txhyp (S : list outpoint) (T : list N) (t : tx) : Prop := {
  h_nodup : NoDup (tx_ins t);
  h_fresh : forall i, In i (tx_ins t) -> ~ In i S;
  h_tid : ~ In (tx_id t) T;
  h_self : forall i, In i (tx_ins t) -> fst i <> tx_id t;
  h_later : ~ In (tx_id t) (map fst S);
  h_fund : tx_id t = ftxid g -> incl (finputs g) (tx_ins t)
}.

Lemma nodup_op_NoDup l : nodup_op l = true -> NoDup l.
Proof.
  induction l as [|x r IH]; cbn [nodup_op]; intros H; [constructor|].
  apply andb_true_iff in H. destruct H as [H1 H2]. apply negb_true_iff, mem_op_nIn in H1.
  constructor; [exact H1 | apply IH; exact H2].
Qed.

Lemma tx_ok_hyp S T t : tx_ok g S T t = true -> txhyp S T t.
Proof.
  unfold tx_ok. rewrite !andb_true_iff. intros [[[[[H1 H2] H3] H4] H5] H6]. constructor.
  - apply nodup_op_NoDup. exact H1.
  - intros i Hi. rewrite forallb_forall in H2. specialize (H2 i Hi). apply negb_true_iff, mem_op_nIn in H2. exact H2.
  - apply negb_true_iff, mem_N_nIn in H3. exact H3.
  - intros i Hi. rewrite forallb_forall in H4. specialize (H4 i Hi). apply negb_true_iff, N.eqb_neq in H4. exact H4.
  - apply negb_true_iff, mem_N_nIn in H5. exact H5.
  - intros E. apply N.eqb_eq in E. rewrite E in H6. rewrite forallb_forall in H6. intros i Hi. apply mem_op_In. apply H6. exact Hi.
Qed.

(** ** the per-change facts collected along a block *)
Definition cjust (k : core) (c : change) : Prop :=
  match c with
  | FundingInputSpent o => In o (finputs g)
  | UnilateralClose _ f _ _ => fst k = Some f
  | MutualClose _ f => fst k = Some f
  | _ => True
  end.
Definition cin (ins : list outpoint) (k : core) (c : change) : Prop :=
  match c with
  | FundingConfirmed _ => True
  | FundingInputSpent o => In o ins
  | UnilateralClose _ f _ _ => In f ins
  | MutualClose _ f => In f ins
  | OurOutputSpent v => In (ctxid_of k, v) ins
  | HTLCOutputSpent v _ => In (ctxid_of k, v) ins
  | SecondLevelSpent o => In o ins
  end.
Definition cok (ins : list outpoint) (tids : list N) (k : core) (c : change) : Prop :=
  cpre k c /\ cjust k c /\ cin ins k c
  /\ (forall a, In a (change_adds k c) -> In (fst a) tids /\ ~ In a (finputs g)).
Fixpoint chain_ok (ins : list outpoint) (tids : list N) (k : core) (cs : list change) : Prop :=
  match cs with
  | [] => True
  | c :: r => cok ins tids k c /\ forall k', core_fwd k c = Ok k' -> chain_ok ins tids k' r
  end.

Lemma chain_ok_app ins tids a : forall k b,
  chain_ok ins tids k (a ++ b) <-> chain_ok ins tids k a /\ (forall k', core_fwds k a = Ok k' -> chain_ok ins tids k' b).
Proof.
  induction a as [|c r IH]; intros k b; cbn [app chain_ok core_fwds].
  - split; [intros H; split; [exact I | intros k' E; inversion E; subst; exact H] | intros [_ H]; apply H; reflexivity].
  - split.
    + intros [Hc H]. split; [split; [exact Hc|]|].
      * intros k' E. apply (IH k' b). apply H. exact E.
      * intros k' E. apply bind_ok in E. destruct E as [k1 [E1 E2]]. apply (IH k1 b); [apply H; exact E1 | exact E2].
    + intros [[Hc H1] H2]. split; [exact Hc|]. intros k' E. apply IH. split; [apply H1; exact E|].
      intros k'' E'. apply H2. rewrite E. cbn [bind]. exact E'.
Qed.
Lemma chain_ok_mono ins tids ins' tids' cs : incl ins ins' -> incl tids tids' -> forall k,
  chain_ok ins tids k cs -> chain_ok ins' tids' k cs.
Proof.
  intros Hi Ht. induction cs as [|c r IH]; intros k H; cbn [chain_ok] in *; [exact I|].
  destruct H as [(H1 & H2 & H3 & H4) Hr]. split.
  - repeat split; auto.
    + destruct c; cbn [cin] in *; auto.
    + apply Ht. apply H4. exact H.
    + apply H4. exact H.
  - intros k' E. apply IH. apply Hr. exact E.
Qed.
Lemma chain_ok_cpre ins tids cs : forall k, chain_ok ins tids k cs -> chain_cpre k cs.
Proof.
  induction cs as [|c r IH]; intros k H; cbn [chain_ok chain_cpre] in *; [exact I|].
  destruct H as [(H1 & _) Hr]. split; [exact H1 | intros k' E; apply IH; apply Hr; exact E].
Qed.

(** ** recognition, unfolded *)
Lemma ckind_our_inv k i : ckind_of k i = KOur ->
  exists cl b, snd k = Some cl /\ c_our cl = Some (snd i, b) /\ fst i = c_txid cl.
Proof.
  unfold ckind_of, ckind_cl. destruct (snd k) as [cl|]; [|discriminate].
  destruct (includes_our cl i) eqn:E; [|destruct (includes_htlc cl i); [discriminate | destruct (includes_second cl i); discriminate]].
  intros _. unfold includes_our in E. apply andb_true_iff in E. destruct E as [E1 E2]. apply N.eqb_eq in E1.
  destruct (c_our cl) as [[a b]|] eqn:Eo; [|discriminate]. apply N.eqb_eq in E2. subst a.
  exists cl, b. auto.
Qed.
Lemma ckind_htlc_inv k i : ckind_of k i = KHtlc ->
  exists cl, snd k = Some cl /\ fst i = c_txid cl /\ In (snd i) (htlc_idx cl).
Proof.
  unfold ckind_of, ckind_cl. destruct (snd k) as [cl|]; [|discriminate].
  destruct (includes_our cl i); [discriminate|].
  destruct (includes_htlc cl i) eqn:E; [|destruct (includes_second cl i); discriminate].
  intros _. unfold includes_htlc in E. apply andb_true_iff in E. destruct E as [E1 E2]. apply N.eqb_eq in E1.
  exists cl. repeat split; auto. unfold htlc_idx. apply existsb_exists in E2. destruct E2 as [x [Hx Ex]].
  apply N.eqb_eq in Ex. rewrite <- Ex. apply in_map. exact Hx.
Qed.
Lemma ckind_second_inv k i : ckind_of k i = KSecond -> exists cl, snd k = Some cl /\ In i (slos cl).
Proof.
  unfold ckind_of, ckind_cl. destruct (snd k) as [cl|]; [|discriminate].
  destruct (includes_our cl i); [discriminate|]. destruct (includes_htlc cl i); [discriminate|].
  destruct (includes_second cl i) eqn:E; [|discriminate]. intros _. exists cl. split; [reflexivity|].
  apply includes_second_In. exact E.
Qed.
Lemma fo_hit_inv k i : fo_hit k i = true -> fst k = Some i.
Proof. unfold fo_hit. destruct (fst k) as [f|]; [|discriminate]. intros H. apply op_eqb_eq in H. subst. reflexivity. Qed.


Lemma ckind_our_unique k i j : ckind_of k i = KOur -> ckind_of k j = KOur -> i = j.
Proof.
  intros Hi Hj. destruct (ckind_our_inv _ _ Hi) as [cl [b [E1 [E2 E3]]]].
  destruct (ckind_our_inv _ _ Hj) as [cl' [b' [E1' [E2' E3']]]].
  rewrite E1 in E1'. inversion E1'; subst cl'. rewrite E2 in E2'. inversion E2'.
  destruct i, j; cbn in *; congruence.
Qed.

Lemma pair_eta (i : outpoint) : (fst i, snd i) = i.
Proof. destruct i; reflexivity. Qed.

(** the closing-outpoints change of one input *)
Definition input_cc (k0 : core) (i : outpoint) : list change :=
  match ckind_of k0 i with
  | KOur => [OurOutputSpent (snd i)]
  | KSecond => [SecondLevelSpent i]
  | _ => []
  end.

Lemma seg1_cc (t : tx) (S' : list outpoint) (T : list N) (k0 k : core) (i : outpoint) :
  In i (tx_ins t) -> incl (tx_ins t) S' -> KInv S' T k ->
  (ckind_of k0 i = KOur -> exists cl, snd k = Some cl /\ fst i = c_txid cl /\ c_our cl = Some (snd i, false)) ->
  (ckind_of k0 i = KSecond -> exists cl, snd k = Some cl /\ sflag cl i = Some false) ->
  exists k1, core_fwds k (input_cc k0 i) = Ok k1
    /\ chain_ok (tx_ins t) [tx_id t] k (input_cc k0 i)
    /\ rsig k1 = rsig k /\ KInv S' T k1 /\ fst k1 = fst k
    /\ (forall cl, snd k = Some cl -> exists cl1, snd k1 = Some cl1 /\ c_htlcs cl1 = c_htlcs cl /\ c_txid cl1 = c_txid cl
          /\ (ckind_of k0 i <> KOur -> c_our cl1 = c_our cl)
          /\ (forall o, o <> i -> sflag cl1 o = sflag cl o))
    /\ (snd k = None -> snd k1 = None).
Proof.
  intros Hi Hs Hk HA HB. unfold input_cc.
  destruct (ckind_of k0 i) eqn:Ek.
  - (* our output *)
    destruct (HA eq_refl) as [cl [Hcl [Htx Ho]]].
    assert (Hp : cpre k (OurOutputSpent (snd i))) by (exists cl; auto).
    destruct (core_undo _ _ Hp) as [k1 [Hf _]].
    assert (Hin : In (ctxid_of k, snd i) (tx_ins t)).
    { unfold ctxid_of. rewrite Hcl, <- Htx, pair_eta. exact Hi. }
    exists k1. cbn [core_fwds]. rewrite Hf. cbn [bind]. split; [reflexivity|]. split.
    { cbn [chain_ok]. split; [|intros; exact I]. unfold cok. split; [exact Hp|]. split; [exact I|]. split; [exact Hin|]. intros ? []. }
    split; [eapply core_fwd_flag_sig; [|exact Hf]; reflexivity|].
    split; [eapply kinv_step; [exact Hk | | exact Hf]; cbn [just]; apply Hs; exact Hin|].
    cbn [core_fwd] in Hf. unfold with_closing in Hf. rewrite Hcl in Hf. apply bind_ok in Hf. destruct Hf as [cl1 [Es Hf]].
    inversion Hf; subst. cbn [fst snd]. split; [reflexivity|]. split; [|rewrite Hcl; discriminate].
    intros cl0 E0. rewrite Hcl in E0. inversion E0; subst cl0. exists cl1. split; [reflexivity|].
    unfold set_our in Es. rewrite Ho, N.eqb_refl in Es. inversion Es; subst. cbn.
    split; [reflexivity|]. split; [reflexivity|]. split; [intros Hn; contradiction | intros o _; reflexivity].
  - (* HTLC: collected, no change yet *)
    exists k. cbn [core_fwds chain_ok]. split; [reflexivity|]. split; [exact I|]. split; [reflexivity|]. split; [exact Hk|].
    split; [reflexivity|]. split; [|auto].
    intros cl Hcl. exists cl. split; [exact Hcl|]. split; [reflexivity|]. split; [reflexivity|].
    split; [intros _; reflexivity | intros o _; reflexivity].
  - (* second level *)
    destruct (HB eq_refl) as [cl [Hcl Hfl]].
    assert (Hp : cpre k (SecondLevelSpent i)) by (exists cl; auto).
    destruct (core_undo _ _ Hp) as [k1 [Hf _]].
    exists k1. cbn [core_fwds]. rewrite Hf. cbn [bind]. split; [reflexivity|]. split.
    { cbn [chain_ok]. split; [|intros; exact I]. unfold cok. split; [exact Hp|]. split; [exact I|]. split; [exact Hi|]. intros ? []. }
    split; [eapply core_fwd_flag_sig; [|exact Hf]; reflexivity|].
    split; [eapply kinv_step; [exact Hk | | exact Hf]; cbn [just]; apply Hs; exact Hi|].
    cbn [core_fwd] in Hf. unfold with_closing in Hf. rewrite Hcl in Hf. apply bind_ok in Hf. destruct Hf as [cl1 [Es Hf]].
    inversion Hf; subst. cbn [fst snd]. split; [reflexivity|]. split; [|rewrite Hcl; discriminate].
    intros cl0 E0. rewrite Hcl in E0. inversion E0; subst cl0. exists cl1. split; [reflexivity|].
    assert (Hsame : c_our cl1 = c_our cl /\ c_htlcs cl1 = c_htlcs cl /\ c_txid cl1 = c_txid cl).
    { unfold set_second in Es. destruct (set_first _ _ (c_second cl)); [|discriminate]. inversion Es; subst. cbn. auto. }
    destruct Hsame as [B1 [B2 B3]]. split; [exact B2|]. split; [exact B3|]. split; [intros _; exact B1|].
    intros o Hn. eapply sflag_set_other; eassumption.
  - exists k. cbn [core_fwds chain_ok]. split; [reflexivity|]. split; [exact I|]. split; [reflexivity|]. split; [exact Hk|].
    split; [reflexivity|]. split; [|auto].
    intros cl Hcl. exists cl. split; [exact Hcl|]. split; [reflexivity|]. split; [reflexivity|].
    split; [intros _; reflexivity | intros o _; reflexivity].
Qed.

Lemma input_changes_split k0 i :
  input_changes g k0 i = (if mem_op i (finputs g) then [FundingInputSpent i] else []) ++ input_cc k0 i.
Proof. reflexivity. Qed.

Lemma seg1 (t : tx) (S' : list outpoint) (T : list N) (k0 : core) : forall ins k,
  incl ins (tx_ins t) -> incl (tx_ins t) S' -> NoDup ins ->
  rsig k = rsig k0 -> KInv S' T k ->
  (forall i, In i ins -> ckind_of k0 i = KOur -> exists cl, snd k = Some cl /\ fst i = c_txid cl /\ c_our cl = Some (snd i, false)) ->
  (forall i, In i ins -> ckind_of k0 i = KSecond -> exists cl, snd k = Some cl /\ sflag cl i = Some false) ->
  exists k', core_fwds k (inputs_changes g k0 ins) = Ok k'
    /\ chain_ok (tx_ins t) [tx_id t] k (inputs_changes g k0 ins)
    /\ rsig k' = rsig k0 /\ KInv S' T k' /\ fst k' = fst k
    /\ (forall cl, snd k = Some cl -> exists cl', snd k' = Some cl' /\ c_htlcs cl' = c_htlcs cl /\ c_txid cl' = c_txid cl)
    /\ (snd k = None -> snd k' = None).
Proof.
  induction ins as [|i r IH]; intros k Hi Hs Hnd Hsig Hk HA HB.
  - exists k. unfold inputs_changes. cbn [map concat core_fwds chain_ok].
    split; [reflexivity|]. split; [exact I|]. split; [exact Hsig|]. split; [exact Hk|]. split; [reflexivity|]. split; [|auto].
    intros cl Hcl. exists cl. auto.
  - inversion Hnd as [|? ? Hni Hnd']; subst.
    assert (Hit : In i (tx_ins t)) by (apply Hi; left; reflexivity).
    destruct (seg1_cc t S' T k0 k i Hit Hs Hk (HA i (or_introl eq_refl)) (HB i (or_introl eq_refl)))
      as [k1 (Hf1 & Hc1 & Hs1 & Hk1 & Hfo1 & Hcl1 & Hn1)].
    assert (HA1 : forall j, In j r -> ckind_of k0 j = KOur ->
                  exists cl, snd k1 = Some cl /\ fst j = c_txid cl /\ c_our cl = Some (snd j, false)).
    { intros j Hj Hkj. destruct (HA j (or_intror Hj) Hkj) as [cl [Hcl [Htx Ho]]].
      destruct (Hcl1 cl Hcl) as [cl1 (E1 & E2 & E3 & E4 & E5)]. exists cl1. split; [exact E1|]. split; [congruence|].
      rewrite E4; [exact Ho|]. intros Hki. apply Hni. rewrite (ckind_our_unique _ _ _ Hki Hkj). exact Hj. }
    assert (HB1 : forall j, In j r -> ckind_of k0 j = KSecond -> exists cl, snd k1 = Some cl /\ sflag cl j = Some false).
    { intros j Hj Hkj. destruct (HB j (or_intror Hj) Hkj) as [cl [Hcl Hfl]].
      destruct (Hcl1 cl Hcl) as [cl1 (E1 & E2 & E3 & E4 & E5)]. exists cl1. split; [exact E1|].
      rewrite E5; [exact Hfl|]. intros ->. contradiction. }
    destruct (IH k1 (fun x Hx => Hi x (or_intror Hx)) Hs Hnd' (eq_trans Hs1 Hsig) Hk1 HA1 HB1)
      as [k' (Hf2 & Hc2 & Hs2 & Hk2 & Hfo2 & Hcl2 & Hn2)].
    exists k'. unfold inputs_changes in *. cbn [map concat]. rewrite input_changes_split.
    assert (Hfis : core_fwds k (if mem_op i (finputs g) then [FundingInputSpent i] else []) = Ok k)
      by (destruct (mem_op i (finputs g)); reflexivity).
    split.
    { rewrite !core_fwds_app, Hfis. cbn [bind]. rewrite Hf1. cbn [bind]. exact Hf2. }
    split.
    { apply chain_ok_app. split.
      - apply chain_ok_app. split.
        + destruct (mem_op i (finputs g)) eqn:Em; [|exact I]. cbn [chain_ok]. split; [|intros; exact I].
          unfold cok. split; [exact I|]. split; [cbn [cjust]; apply mem_op_In; exact Em|]. split; [exact Hit|]. intros ? [].
        + intros kx Ex. rewrite Hfis in Ex. inversion Ex; subst. exact Hc1.
      - intros kx Ex. rewrite core_fwds_app, Hfis in Ex. cbn [bind] in Ex. rewrite Hf1 in Ex. inversion Ex; subst. exact Hc2. }
    split; [exact Hs2|]. split; [exact Hk2|]. split; [congruence|]. split.
    + intros cl Hcl. destruct (Hcl1 cl Hcl) as [cl1 (E1 & E2 & E3 & _)].
      destruct (Hcl2 cl1 E1) as [cl2 (G1 & G2 & G3)]. exists cl2. split; [exact G1|]. split; congruence.
    + intros Hn. apply Hn2. apply Hn1. exact Hn.
Qed.


(** ** the collected HTLC spends *)
Lemma hits_in k0 ins : forall m v n, In (v, n) (htlc_hits k0 ins m) ->
  exists i, In i ins /\ ckind_of k0 i = KHtlc /\ v = snd i /\ m <= n.
Proof.
  induction ins as [|i r IH]; intros m v n H; cbn [htlc_hits] in H; [destruct H|].
  apply in_app_or in H. destruct H as [H | H].
  - destruct (ckind_of k0 i) eqn:E; cbn [In] in H; try contradiction. destruct H as [H | []]. inversion H; subst.
    exists i. repeat split; auto. left; reflexivity. lia.
  - destruct (IH _ _ _ H) as [j (H1 & H2 & H3 & H4)]. exists j. repeat split; auto. right; exact H1. lia.
Qed.
Lemma hits_nodup_snd k0 ins : forall m, NoDup (map snd (htlc_hits k0 ins m)).
Proof.
  induction ins as [|i r IH]; intros m; cbn [htlc_hits map]; [constructor|].
  rewrite map_app. destruct (ckind_of k0 i); cbn [map app snd]; try apply IH.
  constructor; [|apply IH]. intros H. apply in_map_iff in H. destruct H as [[v n] [E H]]. cbn in E. subst.
  destruct (hits_in _ _ _ _ _ H) as [j (_ & _ & _ & Hle)]. lia.
Qed.
Lemma hits_nodup_fst k0 ins : NoDup ins -> forall m, NoDup (map fst (htlc_hits k0 ins m)).
Proof.
  induction ins as [|i r IH]; intros Hnd m; cbn [htlc_hits map]; [constructor|].
  inversion Hnd as [|? ? Hni Hnd']; subst. rewrite map_app.
  destruct (ckind_of k0 i) eqn:E; cbn [map app fst]; try (apply IH; exact Hnd').
  constructor; [|apply IH; exact Hnd']. intros H. apply in_map_iff in H. destruct H as [[v n] [Ev H]]. cbn in Ev. subst.
  destruct (hits_in _ _ _ _ _ H) as [j (Hj & Hkj & Hv & _)].
  destruct (ckind_htlc_inv _ _ E) as [cl (A1 & A2 & _)]. destruct (ckind_htlc_inv _ _ Hkj) as [cl' (B1 & B2 & _)].
  rewrite A1 in B1. inversion B1; subst cl'. apply Hni. assert (i = j) as -> by (destruct i, j; cbn in *; congruence). exact Hj.
Qed.
Lemma ckind_none k i : snd k = None -> ckind_of k i = KNone.
Proof. unfold ckind_of. intros ->. reflexivity. Qed.
Lemma hits_none k ins : snd k = None -> forall m, htlc_hits k ins m = [].
Proof.
  intros H. induction ins as [|i r IH]; intros m; cbn [htlc_hits]; [reflexivity|].
  rewrite (ckind_none _ _ H), IH. reflexivity.
Qed.
Lemma closing_prev_inv k ins : forall acc f, closing_prev k ins acc = Some f ->
  acc = Some f \/ (In f ins /\ fst k = Some f).
Proof.
  induction ins as [|i r IH]; intros acc f H; cbn [closing_prev] in H; [left; exact H|].
  destruct (IH _ _ H) as [E | [E1 E2]].
  - destruct (fo_hit k i) eqn:Eh; [|left; exact E]. inversion E; subst. right. split; [left; reflexivity | apply fo_hit_inv; exact Eh].
  - right. split; [right; exact E1 | exact E2].
Qed.

Lemma hflag_push cl slo v : hflag (push_second cl slo) v = hflag cl v.
Proof. reflexivity. Qed.

Lemma seg3 (t : tx) (S' : list outpoint) (T : list N) : forall hits f cl,
  (forall v n, In (v, n) hits -> hflag cl v = Some false /\ In (c_txid cl, v) (tx_ins t)) ->
  NoDup (map fst hits) -> NoDup (map snd hits) ->
  (forall v n, In (v, n) hits -> ~ In (tx_id t, n) (slos cl)) ->
  incl (tx_ins t) S' -> In (tx_id t) T -> (forall n, ~ In (tx_id t, n) (finputs g)) ->
  KInv S' T (f, Some cl) ->
  exists cl', core_fwds (f, Some cl) (hos_changes t hits) = Ok (f, Some cl')
    /\ chain_ok (tx_ins t) [tx_id t] (f, Some cl) (hos_changes t hits) /\ KInv S' T (f, Some cl').
Proof.
  induction hits as [|[v n] r IH]; intros f cl H1 H2 H3 H4 Hs Ht Hnf Hk.
  - exists cl. cbn [hos_changes map core_fwds chain_ok]. auto.
  - cbn [map fst snd] in H2, H3. inversion H2 as [|? ? Hv2 H2']; inversion H3 as [|? ? Hn3 H3']; subst.
    destruct (H1 v n (or_introl eq_refl)) as [Hfl Hin].
    assert (Hp : cpre (f, Some cl) (HTLCOutputSpent v (tx_id t, n))).
    { exists cl. split; [reflexivity|]. split; [exact Hfl | apply (H4 v n); left; reflexivity]. }
    destruct (core_undo _ _ Hp) as [k1 [Hf _]].
    pose proof Hf as Hf'. cbn [core_fwd] in Hf'. unfold with_closing in Hf'. cbn [snd fst] in Hf'.
    apply bind_ok in Hf'. destruct Hf' as [cl1 [Es Hf']]. inversion Hf'; subst k1. clear Hf'.
    apply bind_ok in Es. destruct Es as [clh [Es Ep]]. inversion Ep; subst cl1. clear Ep.
    destruct (set_htlc_ids _ _ _ _ Es) as (A1 & A2 & A3 & A4).
    assert (Hk1 : KInv S' T (f, Some (push_second clh (tx_id t, n)))).
    { eapply kinv_step; [exact Hk | | exact Hf]. cbn [just ctxid_of snd fst]. split; [apply Hs; exact Hin | exact Ht]. }
    destruct (IH f (push_second clh (tx_id t, n))) as [cl' (G1 & G2 & G3)]; auto.
    + intros v' n' Hin'. destruct (H1 v' n' (or_intror Hin')) as [B1 B2]. unfold push_second at 2. cbn [c_txid]. rewrite A1.
      split; [|exact B2]. rewrite hflag_push. rewrite (hflag_set_other _ _ _ _ _ Es); [exact B1|].
      intros ->. apply Hv2. apply in_map_iff. exists (v, n'). auto.
    + intros v' n' Hin' Hc. unfold push_second, slos in Hc. cbn [c_second] in Hc. rewrite map_app in Hc. apply in_app_or in Hc.
      destruct Hc as [Hc | [Hc | []]].
      * apply (H4 v' n' (or_intror Hin')). change (In (tx_id t, n') (slos clh)) in Hc. rewrite A4 in Hc. exact Hc.
      * inversion Hc; subst. apply Hn3. apply in_map_iff. exists (v', n'). auto.
    + exists cl'. cbn [hos_changes map fst snd core_fwds]. rewrite Hf. cbn [bind]. split; [exact G1|]. split; [|exact G3].
      cbn [chain_ok]. split.
      * unfold cok. split; [exact Hp|]. split; [exact I|]. split; [exact Hin|].
        intros a [<- | []]. cbn [fst]. split; [left; reflexivity | apply Hnf].
      * intros k' E. rewrite Hf in E. inversion E; subst. exact G2.
Qed.


Lemma rsig_closing k1 k cl : rsig k1 = rsig k -> snd k = Some cl ->
  exists cl1, snd k1 = Some cl1 /\ c_txid cl1 = c_txid cl /\ slos cl1 = slos cl.
Proof.
  unfold rsig. intros H Hcl. inversion H as [[H1 H2]]. rewrite Hcl in H2. destruct (snd k1) as [cl1|]; [|discriminate].
  cbn [option_map] in H2. inversion H2. exists cl1. unfold slos. auto.
Qed.

(** ** one consistent transaction *)
Theorem tx_spec S T k t : KInv S T k -> txhyp S T t ->
  exists k', core_fwds k (tx_changes g k t) = Ok k'
    /\ chain_ok (tx_ins t) [tx_id t] k (tx_changes g k t)
    /\ KInv (tx_ins t ++ S) (tx_id t :: T) k'.
Proof.
  intros Hk Hh.
  set (S' := tx_ins t ++ S). set (T' := tx_id t :: T).
  assert (HS : incl S S') by (apply incl_appr, incl_refl).
  assert (HI : incl (tx_ins t) S') by (apply incl_appl, incl_refl).
  assert (HT : incl T T') by (apply incl_tl, incl_refl).
  assert (HtT : In (tx_id t) T') by (left; reflexivity).
  pose proof (KInv_mono _ _ _ _ _ HS HT Hk) as Hk'.
  (* the flags of what this transaction spends are still clear *)
  assert (HA : forall i, In i (tx_ins t) -> ckind_of k i = KOur ->
               exists cl, snd k = Some cl /\ fst i = c_txid cl /\ c_our cl = Some (snd i, false)).
  { intros i Hi Hki. destruct (ckind_our_inv _ _ Hki) as [cl [b (E1 & E2 & E3)]]. exists cl. repeat split; auto.
    destruct b; [|exact E2]. exfalso. apply (h_fresh _ _ _ Hh i Hi).
    rewrite <- (pair_eta i), E3. eapply K_our; eassumption. }
  assert (HB : forall i, In i (tx_ins t) -> ckind_of k i = KSecond -> exists cl, snd k = Some cl /\ sflag cl i = Some false).
  { intros i Hi Hki. destruct (ckind_second_inv _ _ Hki) as [cl (E1 & E2)]. exists cl. split; [exact E1|].
    apply sflag_in in E2. destruct (sflag cl i) as [[|]|] eqn:Es; [|reflexivity|contradiction].
    exfalso. apply (h_fresh _ _ _ Hh i Hi). eapply K_sec; eassumption. }
  destruct (seg1 t S' T' k (tx_ins t) k (incl_refl _) HI (h_nodup _ _ _ Hh) eq_refl Hk' HA HB)
    as [k1 (Hf1 & Hc1 & Hs1 & Hk1 & Hfo1 & Hcl1 & Hn1)].
  unfold tx_changes.
  (* adds of this transaction are not funding inputs, once the funding is confirmed *)
  assert (Hnf : fst k <> None -> forall n, ~ In (tx_id t, n) (finputs g)).
  { intros Hfo n Hin. apply (h_later _ _ _ Hh). apply in_map_iff. exists (tx_id t, n). split; [reflexivity|].
    eapply K_fin; eassumption. }
  destruct (snd k) as [cl0|] eqn:Ecl.
  - (* a unilateral close is being tracked: only HTLC spends can follow *)
    assert (Hfo : fst k <> None) by (apply (K_cf _ _ _ Hk); rewrite Ecl; discriminate).
    assert (Hntid : (tx_id t =? ftxid g) = false).
    { apply N.eqb_neq. intros E. destruct (K_fo _ _ _ Hk) as [H | [_ H]]; [contradiction|].
      apply (h_tid _ _ _ Hh). rewrite E. exact H. }
    assert (Hcp : closing_prev k (tx_ins t) None = None).
    { destruct (closing_prev k (tx_ins t) None) as [f|] eqn:E; [|reflexivity]. exfalso.
      destruct (closing_prev_inv _ _ _ _ E) as [E' | [E1 E2]]; [discriminate|].
      destruct (K_fo _ _ _ Hk) as [H | [H _]]; [congruence|]. rewrite H in E2. inversion E2; subst f.
      apply (h_fresh _ _ _ Hh _ E1). apply (K_clo _ _ _ Hk). rewrite Ecl. discriminate. }
    unfold end_changes. rewrite Hntid, Hcp. cbn [app].
    destruct (Hcl1 cl0 eq_refl) as [cl1 (E1 & E2 & E3)].
    destruct (rsig_closing _ _ _ Hs1 Ecl) as [cl1' (E1' & _ & E5)]. rewrite E1 in E1'. inversion E1'; subst cl1'.
    assert (Hk1e : k1 = (fst k, Some cl1)) by (destruct k1; cbn in *; congruence).
    rewrite Hk1e in Hk1.
    destruct (seg3 t S' T' (htlc_hits k (tx_ins t) 0) (fst k) cl1) as [cl' (G1 & G2 & G3)]; auto.
    + intros v n Hin. destruct (hits_in _ _ _ _ _ Hin) as [i (Hi & Hki & Hv & _)].
      destruct (ckind_htlc_inv _ _ Hki) as [cl (A1 & A2 & A3)]. rewrite Ecl in A1. inversion A1; subst cl.
      rewrite E3, <- A2, Hv, pair_eta. split; [|exact Hi].
      unfold hflag. rewrite E2. fold (hflag cl0 (snd i)). apply hflag_in in A3.
      destruct (hflag cl0 (snd i)) as [[|]|] eqn:Ef; [|reflexivity|contradiction].
      exfalso. apply (h_fresh _ _ _ Hh i Hi). rewrite <- (pair_eta i), A2. eapply K_htlc; eassumption.
    + apply hits_nodup_fst. exact (h_nodup _ _ _ Hh).
    + apply hits_nodup_snd.
    + intros v n _ Hin. rewrite E5 in Hin. destruct (K_ctx _ _ _ Hk cl0 Ecl) as [_ H]. apply (h_tid _ _ _ Hh). apply (H _ Hin).
    + exists (fst k, Some cl'). split; [rewrite core_fwds_app, Hf1; cbn [bind]; rewrite Hk1e; exact G1|]. split; [|exact G3].
      apply chain_ok_app. split; [exact Hc1|]. intros kx Ex. rewrite Hf1 in Ex. inversion Ex; subst kx. rewrite Hk1e. exact G2.
  - (* no close yet *)
    rewrite (hits_none _ _ Ecl). unfold end_changes, hos_changes. cbn [map]. rewrite app_nil_r.
    pose proof (Hn1 eq_refl) as Hsn1.
    (* funding confirmed? *)
    set (fc := if tx_id t =? ftxid g then [FundingConfirmed (tx_id t, fvout g)] else []).
    assert (Hfc : exists k2, core_fwds k1 fc = Ok k2 /\ chain_ok (tx_ins t) [tx_id t] k1 fc /\ KInv S' T' k2 /\ snd k2 = None
                   /\ ((tx_id t =? ftxid g) = false -> k2 = k1)).
    { subst fc. destruct (tx_id t =? ftxid g) eqn:E.
      - apply N.eqb_eq in E.
        assert (Hfo0 : fst k = None).
        { destruct (K_fo _ _ _ Hk) as [H | [_ H]]; [exact H|]. exfalso. apply (h_tid _ _ _ Hh). rewrite E. exact H. }
        exists (Some (tx_id t, fvout g), snd k1). cbn [core_fwds core_fwd bind]. split; [reflexivity|]. split.
        + cbn [chain_ok]. split; [|intros; exact I]. unfold cok. split; [cbn [cpre]; congruence|]. split; [exact I|]. split; [exact I|].
          intros a [<- | []]. cbn [fst]. split; [left; reflexivity|]. intros Hin.
          apply (h_self _ _ _ Hh _ (h_fund _ _ _ Hh E _ Hin)). reflexivity.
        + split; [|split; [exact Hsn1 | discriminate]].
          eapply (kinv_step S' T' k1 (FundingConfirmed (tx_id t, fvout g))); [exact Hk1 | | reflexivity].
          cbn [just]. split; [unfold fund; rewrite E; reflexivity|]. split; [rewrite <- E; exact HtT|].
          intros i Hi. apply HI. apply (h_fund _ _ _ Hh E). exact Hi.
      - exists k1. cbn [core_fwds chain_ok]. auto. }
    destruct Hfc as [k2 (Hf2 & Hc2 & Hk2 & Hsn2 & Hsame)].
    (* a spend of the funding outpoint? *)
    set (cl := match closing_prev k (tx_ins t) None with
               | Some prev => match tx_close t with
                              | Commitment our h => [UnilateralClose (tx_id t) prev our h]
                              | NotCommitment => [MutualClose (tx_id t) prev]
                              | CommitmentNoInfo => []
                              end
               | None => [] end).
    assert (Hclose : exists k3, core_fwds k2 cl = Ok k3 /\ chain_ok (tx_ins t) [tx_id t] k2 cl /\ KInv S' T' k3).
    { subst cl. destruct (closing_prev k (tx_ins t) None) as [f|] eqn:Ecp; [|exists k2; cbn [core_fwds chain_ok]; auto].
      destruct (closing_prev_inv _ _ _ _ Ecp) as [E' | [Ef1 Ef2]]; [discriminate|].
      assert (HfF : f = F) by (destruct (K_fo _ _ _ Hk) as [H | [H _]]; congruence).
      assert (Hntid : (tx_id t =? ftxid g) = false).
      { apply N.eqb_neq. intros E. destruct (K_fo _ _ _ Hk) as [H | [_ H]]; [congruence|].
        apply (h_tid _ _ _ Hh). rewrite E. exact H. }
      rewrite (Hsame Hntid) in *. assert (Hfo1' : fst k1 = Some f) by congruence.
      destruct (tx_close t) as [|our h|].
      - exists k1. cbn [core_fwds core_fwd bind]. split; [reflexivity|]. split; [|eapply (kinv_step S' T' k1 (MutualClose (tx_id t) f)); [exact Hk1 | exact I | reflexivity]].
        cbn [chain_ok]. split; [|intros; exact I]. unfold cok. split; [exact I|]. split; [exact Hfo1'|]. split; [exact Ef1|]. intros ? [].
      - exists (fst k1, Some (new_closing (tx_id t) our h)). cbn [core_fwds core_fwd bind]. split; [reflexivity|]. split.
        + cbn [chain_ok]. split; [|intros; exact I]. unfold cok. split; [exact Hsn1|]. split; [exact Hfo1'|]. split; [exact Ef1|].
          intros a Ha. cbn [change_adds] in Ha.
          assert (Hfa : fst a = tx_id t).
          { apply in_app_or in Ha. destruct Ha as [Ha | Ha]; [destruct our; [destruct Ha as [<- | []]; reflexivity | destruct Ha]|].
            apply in_map_iff in Ha. destruct Ha as [x [<- _]]. reflexivity. }
          split; [left; symmetry; exact Hfa|]. rewrite <- (pair_eta a), Hfa. apply Hnf. congruence.
        + eapply (kinv_step S' T' k1 (UnilateralClose (tx_id t) f our h)); [exact Hk1 | | reflexivity].
          cbn [just]. split; [apply HI; rewrite <- HfF; exact Ef1|]. split; [exact HtT | congruence].
      - exists k1. cbn [core_fwds chain_ok]. auto. }
    destruct Hclose as [k3 (Hf3 & Hc3 & Hk3)].
    exists k3. split.
    { rewrite core_fwds_app, Hf1. cbn [bind]. rewrite core_fwds_app, Hf2. cbn [bind]. exact Hf3. }
    split; [|exact Hk3].
    apply chain_ok_app. split; [exact Hc1|]. intros kx Ex. rewrite Hf1 in Ex. inversion Ex; subst kx.
    apply chain_ok_app. split; [exact Hc2|]. intros ky Ey. rewrite Hf2 in Ey. inversion Ey; subst ky. exact Hc3.
Qed.


(** ** a consistent block *)
Definition spent_after (S : list outpoint) (b : block) : list outpoint :=
  fold_left (fun S t => tx_ins t ++ S) b S.
Definition tids_after (T : list N) (b : block) : list N :=
  fold_left (fun T t => tx_id t :: T) b T.
Definition ins_of (b : block) : list outpoint := concat (map tx_ins b).
Definition tids_of (b : block) : list N := map tx_id b.

Lemma txs_ok_later b : forall S T t' x, txs_ok g S T b = true -> In t' b -> In x S -> fst x <> tx_id t'.
Proof.
  induction b as [|t r IH]; intros S T t' x H Ht' Hx; [destruct Ht'|].
  cbn [txs_ok] in H. apply andb_true_iff in H. destruct H as [H1 H2]. destruct Ht' as [<- | Ht'].
  - intros E. apply (h_later _ _ _ (tx_ok_hyp _ _ _ H1)). rewrite <- E. apply in_map. exact Hx.
  - apply (IH _ _ _ _ H2 Ht'). apply in_or_app. right. exact Hx.
Qed.

Lemma txs_ok_fresh b : forall S T, txs_ok g S T b = true -> block_fresh b.
Proof.
  induction b as [|t r IH]; intros S T H; cbn [block_fresh]; [exact I|].
  cbn [txs_ok] in H. apply andb_true_iff in H. destruct H as [H1 H2]. split; [|eapply IH; exact H2].
  intros i t' Hi [<- | Ht'].
  - apply (h_self _ _ _ (tx_ok_hyp _ _ _ H1)). exact Hi.
  - apply (txs_ok_later _ _ _ _ _ H2 Ht'). apply in_or_app. left. exact Hi.
Qed.

Theorem block_spec b : forall S T k chs k',
  KInv S T k -> txs_ok g S T b = true -> steps g k b chs k' ->
  chain_ok (ins_of b) (tids_of b) k chs /\ KInv (spent_after S b) (tids_after T b) k'.
Proof.
  induction b as [|t r IH]; intros S T k chs k' Hk Hok Hs.
  - inversion Hs; subst. cbn. auto.
  - inversion Hs as [| ? ? ? ka chs' ? Ha Hf Hr]; subst.
    cbn [txs_ok] in Hok. apply andb_true_iff in Hok. destruct Hok as [H1 H2].
    destruct (tx_spec _ _ _ _ Hk (tx_ok_hyp _ _ _ H1)) as [kb (G1 & G2 & G3)].
    rewrite Hf in G1. inversion G1; subst kb.
    destruct (IH _ _ _ _ _ G3 H2 Hr) as [I1 I2]. split; [|exact I2].
    apply chain_ok_app. split.
    + eapply chain_ok_mono; [| |exact G2]; unfold ins_of, tids_of; cbn [map concat].
      * apply incl_appl, incl_refl.
      * intros x [<- | []]. left; reflexivity.
    + intros kx Ex. rewrite Hf in Ex. inversion Ex; subst kx.
      eapply chain_ok_mono; [| |exact I1]; unfold ins_of, tids_of; cbn [map concat].
      * apply incl_appr, incl_refl.
      * apply incl_tl, incl_refl.
Qed.

(** ** the listener's assertions hold on well-formed transactions *)
Lemma input_asserts_nohit k ins : (forall i, In i ins -> fo_hit k i = false) -> forall n, input_asserts k n None ins = true.
Proof.
  induction ins as [|i r IH]; intros H n; cbn [input_asserts]; [reflexivity|].
  rewrite (H i (or_introl eq_refl)). cbn [andb]. apply IH. intros j Hj. apply H. right. exact Hj.
Qed.
Lemma closing_prev_nohit k ins : (forall i, In i ins -> fo_hit k i = false) -> forall acc, closing_prev k ins acc = acc.
Proof.
  induction ins as [|i r IH]; intros H acc; cbn [closing_prev]; [reflexivity|].
  rewrite (H i (or_introl eq_refl)). apply IH. intros j Hj. apply H. right. exact Hj.
Qed.

Lemma asserts_wf S T k t : KInv S T k -> tx_wf g t = true -> asserts_ok g k t = true.
Proof.
  intros Hk Hw. unfold tx_wf in Hw. apply andb_true_iff in Hw. destruct Hw as [Hw1 Hw2].
  unfold asserts_ok, end_asserts.
  destruct (existsb (fo_hit k) (tx_ins t)) eqn:Eh.
  - apply existsb_exists in Eh. destruct Eh as [i [Hi Eh]]. pose proof (fo_hit_inv _ _ Eh) as Efo.
    assert (HiF : i = F) by (destruct (K_fo _ _ _ Hk) as [H | [H _]]; congruence). subst i.
    assert (Hm : mem_op F (tx_ins t) = true) by (apply mem_op_In; exact Hi). rewrite Hm in Hw1.
    apply andb_true_iff in Hw1. destruct Hw1 as [Hw1 Hw1c]. apply andb_true_iff in Hw1. destruct Hw1 as [Hw1a Hw1b].
    apply Nat.eqb_eq in Hw1a. destruct (tx_ins t) as [|j [|j' r]] eqn:Ei; try discriminate.
    destruct Hi as [-> | []]. cbn [input_asserts closing_prev]. rewrite Eh. cbn [andb]. rewrite N.eqb_refl. cbn [andb].
    apply N.leb_le in Hw1b. assert ((MAX_COMMITMENT_OUTPUTS <? tx_nout t) = false) as -> by (apply N.ltb_ge; exact Hw1b).
    cbn [negb andb]. rewrite Hw1c. cbn [andb]. exact Hw2.
  - assert (Hno : forall i, In i (tx_ins t) -> fo_hit k i = false).
    { intros i Hi. destruct (fo_hit k i) eqn:E; [|reflexivity]. exfalso.
      assert (existsb (fo_hit k) (tx_ins t) = true) by (apply existsb_exists; exists i; auto). congruence. }
    rewrite (input_asserts_nohit _ _ Hno), (closing_prev_nohit _ _ Hno). cbn [andb]. exact Hw2.
Qed.

Theorem steps_total b : forall S T k,
  KInv S T k -> txs_ok g S T b = true -> forallb (tx_wf g) b = true -> exists chs k', steps g k b chs k'.
Proof.
  induction b as [|t r IH]; intros S T k Hk Hok Hwf.
  - exists [], k. constructor.
  - cbn [txs_ok forallb] in *. apply andb_true_iff in Hok. destruct Hok as [H1 H2].
    apply andb_true_iff in Hwf. destruct Hwf as [W1 W2].
    destruct (tx_spec _ _ _ _ Hk (tx_ok_hyp _ _ _ H1)) as [kb (G1 & G2 & G3)].
    destruct (IH _ _ _ G3 H2 W2) as [chs [k' Hs]].
    exists (tx_changes g k t ++ chs), k'. econstructor; [eapply asserts_wf; eassumption | exact G1 | exact Hs].
Qed.

End Inv.
