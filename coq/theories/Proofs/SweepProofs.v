(** Proofs about Model/Sweep.v: what an accepted sweep / second-level HTLC signing request
    implies.  All [Qed]. *)
From VLS Require Import Base.U64 Base.Eqb Model.CommitmentPolicy Model.Sweep Model.SweepCheck.
From Coq Require Import ZifyBool ZifyN.

Local Open Scope N_scope.

(** destruct the scrutinees of the matches in [H], innermost result first *)
Ltac dm H :=
  repeat match type of H with
         | context [match ?x with _ => _ end] => destruct x eqn:?; try discriminate H
         end.

Lemma sthen_ok a b : sthen a b = SOk -> a = SOk /\ b = SOk.
Proof. destruct a; cbn [sthen]; intros H; try discriminate; auto. Qed.

Lemma sperr_ok warn t : warn t = false -> sperr warn t = SOk -> False.
Proof. unfold sperr. intros -> H. discriminate. Qed.

(** * nthN *)

Lemma nthN_cons_0 {A} (x : A) r : nthN (x :: r) 0 = Some x.
Proof. reflexivity. Qed.

Lemma nthN_lt {A} (l : list A) : forall i, i < lenN l -> exists x, nthN l i = Some x.
Proof.
  unfold lenN. induction l as [|x l IH]; intros i Hi; cbn [length nthN] in *.
  - lia.
  - destruct (i =? 0) eqn:E.
    + eauto.
    + apply IH. lia.
Qed.

Lemma nthN_some_lt {A} (l : list A) : forall i x, nthN l i = Some x -> i < lenN l.
Proof.
  unfold lenN. induction l as [|y l IH]; intros i x H; cbn [length nthN] in *.
  - discriminate.
  - destruct (i =? 0) eqn:E.
    + lia.
    + apply IH in H. lia.
Qed.

(** * Destinations: induction over the output list *)

Lemma outputs_loop_owned warn w path :
  warn S_destination = false ->
  forall outs, outputs_loop warn w path outs = SOk -> Forall (owned w path) outs.
Proof.
  intros Hw. induction outs as [|o r IH]; intros H; cbn [outputs_loop] in H.
  - constructor.
  - destruct (can_spend w path (out_spk o)) eqn:Hc; try discriminate.
    + constructor; [left; exact Hc | auto].
    + destruct (allowlisted w (out_spk o) path) eqn:Ha.
      * constructor; [right; exact Ha | auto].
      * apply sthen_ok in H. destruct H as [H _]. exfalso. eapply sperr_ok; eassumption.
Qed.

(** whatever the filter says, a wallet error on any output refuses *)
Lemma outputs_loop_no_wallet_error warn w path :
  forall outs, outputs_loop warn w path outs = SOk ->
               Forall (fun o => can_spend w path (out_spk o) <> WalletError) outs.
Proof.
  induction outs as [|o r IH]; intros H; cbn [outputs_loop] in H.
  - constructor.
  - destruct (can_spend w path (out_spk o)) eqn:Hc; try discriminate.
    + constructor; [congruence | auto].
    + constructor; [congruence|].
      destruct (allowlisted w (out_spk o) path); auto.
      apply sthen_ok in H. apply IH. tauto.
Qed.

Lemma validate_sweep_ok warn w t path :
  validate_sweep warn w t path = SOk ->
  tx_version t = 2 /\ outputs_loop warn w path (tx_outs t) = SOk.
Proof.
  unfold validate_sweep. destruct (tx_version t =? 2) eqn:E; cbn [negb]; intros H.
  - split; [lia | exact H].
  - discriminate.
Qed.

(** * Lock times *)

Lemma lag_height_val prof h x :
  lag_height prof h = Val x -> x <= h + MAX_CHAIN_LAG /\ x < LOCK_TIME_THRESHOLD.
Proof.
  unfold lag_height, add_p32, MAX_CHAIN_LAG. intros H.
  destruct prof.
  - destruct (h + 2 <=? U32MAX) eqn:E; try discriminate.
    destruct (h + 2 <? LOCK_TIME_THRESHOLD) eqn:E2; try discriminate.
    inversion H; subst. lia.
  - destruct ((h + 2) mod two32 <? LOCK_TIME_THRESHOLD) eqn:E2; try discriminate.
    inversion H; subst. split; [|lia].
    apply N.mod_le. unfold two32. lia.
Qed.

Lemma locktime_check_bound prof lt h :
  locktime_check prof lt h = SOk -> LocktimeBound h lt.
Proof.
  unfold locktime_check. destruct (lag_height prof h) as [x|] eqn:E; try discriminate.
  apply lag_height_val in E. destruct E as [E1 E2].
  unfold is_satisfied_by, LocktimeBound.
  destruct (lt <? LOCK_TIME_THRESHOLD) eqn:L.
  - destruct (lt <=? x) eqn:L2; try discriminate. intros _. left. lia.
  - destruct (lt <=? TIME_MIN) eqn:L2; try discriminate. intros _. right.
    unfold TIME_MIN, LOCK_TIME_THRESHOLD in *. lia.
Qed.

Lemma LocktimeBound_final h lt : LocktimeBound h lt -> LocktimeFinal h lt.
Proof.
  unfold LocktimeBound, LocktimeFinal, is_satisfied_by, TIME_MIN, LOCK_TIME_THRESHOLD.
  intros [[A B]|A] time Ht.
  - destruct (lt <? 500000000) eqn:L; lia.
  - subst. destruct (500000000 <? 500000000) eqn:L; lia.
Qed.

(** a height lock within the bound, or exactly the minimum timestamp: nothing else passes *)
Lemma LocktimeFinal_bound h lt : LocktimeFinal h lt -> LocktimeBound h lt.
Proof.
  unfold LocktimeBound, LocktimeFinal, is_satisfied_by, TIME_MIN, LOCK_TIME_THRESHOLD.
  intros H. specialize (H 500000000 (N.le_refl _)).
  destruct (lt <? 500000000) eqn:L; [left|right]; lia.
Qed.

(** * Sequences *)

Lemma sequence_check_signed t input ok :
  sequence_check SignedInput t input ok = SOk ->
  exists s, signed_seq t input = Some s /\ ok s = true.
Proof.
  unfold sequence_check, checked_input, signed_seq, no_such_input.
  destruct (nthN (tx_ins t) input) as [i|]; try discriminate.
  destruct (ok (in_seq i)) eqn:E; try discriminate. intros _. exists (in_seq i). auto.
Qed.

Lemma sequence_check_first t input ok :
  sequence_check FirstInput t input ok = SOk ->
  exists s, signed_seq t 0 = Some s /\ ok s = true.
Proof.
  unfold sequence_check, checked_input, signed_seq, no_such_input.
  destruct (nthN (tx_ins t) 0) as [i|]; try discriminate.
  destruct (ok (in_seq i)) eqn:E; try discriminate. intros _. exists (in_seq i). auto.
Qed.

Lemma memN_non_anchor s : memN s NON_ANCHOR_SEQS = true -> no_relative_lock s.
Proof.
  unfold memN, NON_ANCHOR_SEQS, no_relative_lock. cbn [existsb]. intros H.
  destruct (s =? 0) eqn:A; [left; lia|].
  destruct (s =? 4294967293) eqn:B; [right; left; lia|].
  destruct (s =? 4294967295) eqn:C; [right; right; lia|].
  discriminate.
Qed.

Lemma memN_anchor s : memN s ANCHOR_SEQS = true -> s = 1.
Proof.
  unfold memN, ANCHOR_SEQS. cbn [existsb]. intros H.
  destruct (s =? 1) eqn:A; [lia | discriminate].
Qed.

(** * The three sweep validators, for the sequence of the input that is signed *)

Section Sweeps.
  Variable prof : profile.
  Variable warn : stag -> bool.
  Variable w : wallet.

  (** everything but the destinations holds whatever the filter says *)
  Lemma delayed_facts sel cpd h t input path :
    validate_delayed_sweep sel prof warn w cpd h t input path = SOk ->
    tx_version t = 2 /\ outputs_loop warn w path (tx_outs t) = SOk /\
    LocktimeBound h (tx_locktime t) /\
    sequence_check sel t input (fun s => s =? cpd) = SOk.
  Proof.
    unfold validate_delayed_sweep. intros H.
    apply sthen_ok in H. destruct H as [H1 H]. apply sthen_ok in H. destruct H as [H2 H3].
    apply validate_sweep_ok in H1. destruct H1 as [V O].
    apply locktime_check_bound in H2. auto.
  Qed.

  Lemma delayed_accept cpd h t input path :
    warn S_destination = false ->
    validate_delayed_sweep SignedInput prof warn w cpd h t input path = SOk ->
    AllOutputsOwned w path t /\ tx_version t = 2 /\ LocktimeBound h (tx_locktime t) /\
    signed_seq t input = Some cpd.
  Proof.
    intros Hw H. apply delayed_facts in H. destruct H as (V & O & L & S).
    apply sequence_check_signed in S. destruct S as (s & S1 & S2).
    repeat split; auto.
    - apply outputs_loop_owned with (warn := warn); assumption.
    - rewrite S1. f_equal. lia.
  Qed.

  Lemma cp_htlc_facts sel anchors h t rs input path :
    validate_counterparty_htlc_sweep sel prof warn w anchors h t rs input path = SOk ->
    tx_version t = 2 /\ outputs_loop warn w path (tx_outs t) = SOk /\
    CpHtlcLocktimeBound anchors h rs (tx_locktime t) /\
    sequence_check sel t input
      (fun s => memN s (if anchors then ANCHOR_SEQS else NON_ANCHOR_SEQS)) = SOk.
  Proof.
    unfold validate_counterparty_htlc_sweep. intros H.
    apply sthen_ok in H. destruct H as [H1 H]. apply sthen_ok in H. destruct H as [H2 H3].
    apply validate_sweep_ok in H1. destruct H1 as [V O].
    repeat split; auto.
    unfold CpHtlcLocktimeBound.
    destruct (parse_received rs anchors) as [[neg c]|] eqn:P.
    - left. exists neg, c. split; [reflexivity|].
      destruct ((neg && (0 <? c)) || (U32MAX <? c)) eqn:E; try discriminate.
      destruct (c <? tx_locktime t) eqn:E2; try discriminate.
      split; [|lia].
      destruct neg; [right|left; reflexivity].
      cbn [andb orb] in E. lia.
    - right. destruct (parse_offered rs anchors) eqn:Q; try discriminate.
      repeat split. apply locktime_check_bound in H2. exact H2.
  Qed.

  Lemma cp_htlc_accept anchors h t rs input path :
    warn S_destination = false ->
    validate_counterparty_htlc_sweep SignedInput prof warn w anchors h t rs input path = SOk ->
    AllOutputsOwned w path t /\ tx_version t = 2 /\
    CpHtlcLocktimeBound anchors h rs (tx_locktime t) /\
    exists s, signed_seq t input = Some s /\ CpHtlcSequenceBound anchors s.
  Proof.
    intros Hw H. apply cp_htlc_facts in H. destruct H as (V & O & L & S).
    apply sequence_check_signed in S. destruct S as (s & S1 & S2).
    repeat split; auto.
    - apply outputs_loop_owned with (warn := warn); assumption.
    - exists s. split; [exact S1|]. unfold CpHtlcSequenceBound.
      destruct anchors; [apply memN_anchor | apply memN_non_anchor]; exact S2.
  Qed.

  Lemma justice_facts sel h t input path :
    validate_justice_sweep sel prof warn w h t input path = SOk ->
    tx_version t = 2 /\ outputs_loop warn w path (tx_outs t) = SOk /\
    LocktimeBound h (tx_locktime t) /\
    sequence_check sel t input (fun s => memN s NON_ANCHOR_SEQS) = SOk.
  Proof.
    unfold validate_justice_sweep. intros H.
    apply sthen_ok in H. destruct H as [H1 H]. apply sthen_ok in H. destruct H as [H2 H3].
    apply validate_sweep_ok in H1. destruct H1 as [V O].
    apply locktime_check_bound in H2. auto.
  Qed.

  Lemma justice_accept h t input path :
    warn S_destination = false ->
    validate_justice_sweep SignedInput prof warn w h t input path = SOk ->
    AllOutputsOwned w path t /\ tx_version t = 2 /\ LocktimeBound h (tx_locktime t) /\
    exists s, signed_seq t input = Some s /\ no_relative_lock s.
  Proof.
    intros Hw H. apply justice_facts in H. destruct H as (V & O & L & S).
    apply sequence_check_signed in S. destruct S as (s & S1 & S2).
    repeat split; auto.
    - apply outputs_loop_owned with (warn := warn); assumption.
    - exists s. split; [exact S1 | apply memN_non_anchor; exact S2].
  Qed.

  (** ** the signing calls of channel.rs answer Ok only through the validator *)

  Lemma sign_delayed_through sel s h t input cn nh path :
    sign_delayed_sweep sel prof warn w s h t input cn nh path = SOk ->
    input < lenN (tx_ins t) /\ cn <= nh + 1 /\
    validate_delayed_sweep sel prof warn w (cp_delay s) h t input path = SOk.
  Proof.
    unfold sign_delayed_sweep, input_index_check, commit_point_check. intros H.
    apply sthen_ok in H. destruct H as [H1 H]. apply sthen_ok in H. destruct H as [H2 H3].
    destruct (lenN (tx_ins t) <=? input) eqn:E; try discriminate.
    destruct (nh + 1 <? cn) eqn:E2; try discriminate.
    repeat split; auto; lia.
  Qed.

  Lemma sign_cp_htlc_through sel s h t rs input path :
    sign_counterparty_htlc_sweep sel prof warn w s h t rs input path = SOk ->
    input < lenN (tx_ins t) /\
    validate_counterparty_htlc_sweep sel prof warn w (is_anchors (commitment_type s)) h t rs input path = SOk.
  Proof.
    unfold sign_counterparty_htlc_sweep, input_index_check. intros H.
    apply sthen_ok in H. destruct H as [H1 H2].
    destruct (lenN (tx_ins t) <=? input) eqn:E; try discriminate.
    split; auto; lia.
  Qed.

  Lemma sign_justice_through sel h t input path :
    sign_justice_sweep sel prof warn w h t input path = SOk ->
    input < lenN (tx_ins t) /\ validate_justice_sweep sel prof warn w h t input path = SOk.
  Proof.
    unfold sign_justice_sweep, input_index_check. intros H.
    apply sthen_ok in H. destruct H as [H1 H2].
    destruct (lenN (tx_ins t) <=? input) eqn:E; try discriminate.
    split; auto; lia.
  Qed.

  (** ** the code as found: the bound holds for [tx.input[0]], i.e. when input 0 is signed *)

  Lemma delayed_accept_first cpd h t input path :
    warn S_destination = false ->
    validate_delayed_sweep FirstInput prof warn w cpd h t input path = SOk ->
    AllOutputsOwned w path t /\ tx_version t = 2 /\ LocktimeBound h (tx_locktime t) /\
    signed_seq t 0 = Some cpd.
  Proof.
    intros Hw H. apply delayed_facts in H. destruct H as (V & O & L & S).
    apply sequence_check_first in S. destruct S as (s & S1 & S2).
    repeat split; auto.
    - apply outputs_loop_owned with (warn := warn); assumption.
    - rewrite S1. f_equal. lia.
  Qed.

  Lemma cp_htlc_accept_first anchors h t rs input path :
    warn S_destination = false ->
    validate_counterparty_htlc_sweep FirstInput prof warn w anchors h t rs input path = SOk ->
    AllOutputsOwned w path t /\ tx_version t = 2 /\
    CpHtlcLocktimeBound anchors h rs (tx_locktime t) /\
    exists s, signed_seq t 0 = Some s /\ CpHtlcSequenceBound anchors s.
  Proof.
    intros Hw H. apply cp_htlc_facts in H. destruct H as (V & O & L & S).
    apply sequence_check_first in S. destruct S as (s & S1 & S2).
    repeat split; auto.
    - apply outputs_loop_owned with (warn := warn); assumption.
    - exists s. split; [exact S1|]. unfold CpHtlcSequenceBound.
      destruct anchors; [apply memN_anchor | apply memN_non_anchor]; exact S2.
  Qed.

  Lemma justice_accept_first h t input path :
    warn S_destination = false ->
    validate_justice_sweep FirstInput prof warn w h t input path = SOk ->
    AllOutputsOwned w path t /\ tx_version t = 2 /\ LocktimeBound h (tx_locktime t) /\
    exists s, signed_seq t 0 = Some s /\ no_relative_lock s.
  Proof.
    intros Hw H. apply justice_facts in H. destruct H as (V & O & L & S).
    apply sequence_check_first in S. destruct S as (s & S1 & S2).
    repeat split; auto.
    - apply outputs_loop_owned with (warn := warn); assumption.
    - exists s. split; [exact S1 | apply memN_non_anchor; exact S2].
  Qed.
End Sweeps.

(** * Fee rates *)

(** an in-range estimate is the exact BOLT-3 rate of the fee: [est * w / 1000 = fee] *)
Lemma estimate_exact fee w :
  0 < w -> w <= 1000 -> estimate_feerate_per_kw fee w < U32MAX ->
  estimate_feerate_per_kw fee w * w / 1000 = fee.
Proof.
  unfold estimate_feerate_per_kw. intros Hw Hw2 H.
  assert (E : N.min ((fee * 1000 + 999) / w) U32MAX = (fee * 1000 + 999) / w) by lia.
  rewrite E in *. clear E H.
  pose proof (N.div_mod (fee * 1000 + 999) w ltac:(lia)) as D.
  pose proof (N.mod_lt (fee * 1000 + 999) w ltac:(lia)) as M.
  set (q := (fee * 1000 + 999) / w) in *. set (r := (fee * 1000 + 999) mod w) in *.
  clearbody q r.
  (* fee*1000 <= q*w <= fee*1000 + 999 *)
  assert (L : fee * 1000 <= q * w) by nia.
  assert (U : q * w <= fee * 1000 + 999) by nia.
  symmetry. apply N.div_unique with (r := q * w - fee * 1000); lia.
Qed.

Lemma htlc_weight_range a o : 0 < htlc_weight a o /\ htlc_weight a o <= 1000.
Proof.
  unfold htlc_weight, HTLC_TIMEOUT_ANCHOR_WEIGHT, HTLC_SUCCESS_ANCHOR_WEIGHT,
    HTLC_TIMEOUT_WEIGHT, HTLC_SUCCESS_WEIGHT.
  destruct a, o; lia.
Qed.

Lemma msat_roundtrip prof amount m :
  amount_fits prof amount -> mul_p prof amount 1000 = Val m -> m / 1000 = amount.
Proof.
  unfold amount_fits, mul_p, mul_wrap. intros F H. destruct prof.
  - destruct (amount * 1000 <=? U64MAX); try discriminate. inversion H; subst.
    apply N.div_mul. lia.
  - destruct F as [F|F]; [discriminate|]. inversion H; subst.
    rewrite N.mod_small by (unfold two64, U64MAX in *; lia).
    apply N.div_mul. lia.
Qed.

(** * BIP143 coverage *)

Lemma map2_inj (l1 l2 : list txin) :
  map outpoint_of l1 = map outpoint_of l2 -> map in_seq l1 = map in_seq l2 -> l1 = l2.
Proof.
  revert l2. induction l1 as [|a l1 IH]; intros [|b l2] H1 H2; cbn [map] in *;
    try discriminate; auto.
  inversion H1. inversion H2. f_equal; auto.
  destruct a, b. unfold outpoint_of in *. cbn in *. congruence.
Qed.

Lemma map_out_pair_inj (l1 l2 : list txout) : map out_pair l1 = map out_pair l2 -> l1 = l2.
Proof.
  revert l2. induction l1 as [|a l1 IH]; intros [|b l2] H; cbn [map] in *;
    try discriminate; auto.
  inversion H. f_equal; auto. destruct a, b. unfold out_pair in *. cbn in *. congruence.
Qed.

Lemma map_single {A B} (f : A -> B) l y : map f l = [y] -> exists x, l = [x] /\ f x = y.
Proof.
  destruct l as [|x [|x2 l]]; cbn [map]; intros E; try discriminate.
  inversion E. eauto.
Qed.

(** under SIGHASH_ALL the covered fields determine the whole transaction *)
Lemma covered_all_whole t1 t2 i s a c :
  covered_fields SH_All t1 i s a = Some c -> covered_fields SH_All t2 i s a = Some c -> t1 = t2.
Proof.
  unfold covered_fields. intros H1 H2.
  destruct (nthN (tx_ins t1) i); try discriminate.
  destruct (nthN (tx_ins t2) i); try discriminate.
  inversion H1; subst; clear H1. inversion H2 as [[V P S O Q O2 L]]; clear H2.
  destruct t1, t2. cbn in *. f_equal; auto.
  - apply map2_inj; auto.
  - apply map_out_pair_inj; auto.
Qed.

(** * Second-level HTLC transactions *)

Section HtlcProofs.
  Variable revokeable_spk : N -> N -> N -> N.
  Variable H : Type.
  Variable sighash : covered -> H.
  Variable H_eqb : H -> H -> bool.
  (** the assumed laws of the signature hash: equal hashes come from equal preimage fields
      (collision resistance of double SHA-256 over an injective serialisation) *)
  Hypothesis H_eqb_true : forall a b, H_eqb a b = true -> a = b.
  Hypothesis sighash_inj : forall a b, sighash a = sighash b -> a = b.

  Variable prof : profile.
  Variable warn : stag -> bool.
  Variable pol : policy.

  Notation decode := (decode_and_validate_htlc_tx revokeable_spk H sighash H_eqb prof).
  Notation build := (build_htlc_transaction revokeable_spk).
  Notation canon := (canon_htlc_tx revokeable_spk).

  Definition sh_of (c : ctype) : shtype := if is_anchors c then SH_SingleACP else SH_All.
  Definition self_delay (is_cp : bool) (s : setup) : N :=
    if is_cp then holder_delay s else cp_delay s.

  (** what an Ok of decode_and_validate_htlc_tx says, in terms of LDK's recomposition *)
  Lemma decode_ok is_cp s rev delayed t rs_id rs amount fr off cl :
    decode is_cp s rev delayed t rs_id rs amount = (SOk, (fr, off, cl)) ->
    exists i0 o0 fee m rec,
      nthN (tx_ins t) 0 = Some i0 /\ nthN (tx_outs t) 0 = Some o0 /\
      htlc_kind rs (is_anchors (commitment_type s)) = Some off /\
      cl = (if off then tx_locktime t else 0) /\
      out_value o0 + fee = amount /\
      fr = (if is_zero_fee_htlc (commitment_type s) then 0
            else estimate_feerate_per_kw fee (htlc_weight (ldk_anchors (commitment_type s)) off)) /\
      mul_p prof amount 1000 = Val m /\
      build (commitment_type s) (prev_txid i0) (prev_vout i0) fr (self_delay is_cp s) off m cl
            rev delayed = Val rec /\
      covered_fields (sh_of (commitment_type s)) t 0 rs_id amount =
      covered_fields (sh_of (commitment_type s)) rec 0 rs_id amount /\
      covered_fields (sh_of (commitment_type s)) t 0 rs_id amount <> None.
  Proof.
    unfold decode_and_validate_htlc_tx, sighash_of. fold (sh_of (commitment_type s)).
    fold (self_delay is_cp s).
    intros D.
    destruct (covered_fields (sh_of (commitment_type s)) t 0 rs_id amount) as [co|] eqn:C0;
      cbn [option_map] in D; [|inversion D].
    destruct (htlc_kind rs (is_anchors (commitment_type s))) as [offered|] eqn:K; [|inversion D].
    destruct (tx_ins t) as [|i0 ins] eqn:I; [inversion D|].
    destruct (tx_outs t) as [|o0 outs] eqn:O; [inversion D|].
    unfold sub_checked in D.
    destruct (out_value o0 <=? amount) eqn:Fe; [|inversion D].
    destruct (mul_p prof amount 1000) as [m|] eqn:M; [|inversion D].
    match type of D with
    | context [build ?c ?a ?b ?f ?d ?o ?mm ?cl ?r ?k] =>
        destruct (build c a b f d o mm cl r k) as [rec|] eqn:B; [|inversion D]
    end.
    destruct (covered_fields (sh_of (commitment_type s)) rec 0 rs_id amount) as [cr|] eqn:C1;
      cbn [option_map] in D; [|inversion D].
    destruct (H_eqb (sighash cr) (sighash co)) eqn:E; [|inversion D].
    inversion D; subst fr off cl; clear D.
    apply H_eqb_true in E. apply sighash_inj in E. subst cr.
    exists i0, o0, (amount - out_value o0), m, rec.
    repeat split; try reflexivity; try exact B; try lia.
    - try rewrite C0. rewrite C1. reflexivity.
    - try rewrite C0. discriminate.
  Qed.

  (** LDK's recomposition is the BOLT-3 transaction, for every type but the one whose
      non-zero-fee anchor bit LDK does not implement *)
  Lemma build_is_canon c txid vout fr delay off m amount cl rev delayed rec :
    c <> Anchors -> m / 1000 = amount ->
    build c txid vout fr delay off m (if off then cl else 0) rev delayed = Val rec ->
    rec = canon c txid vout off cl amount fr delay rev delayed /\
    bolt3_htlc_fee c off fr <= amount.
  Proof.
    intros Hc Hm. unfold build_htlc_transaction, canon_htlc_tx, bolt3_htlc_fee, ldk_anchors.
    rewrite Hm.
    destruct c; try congruence; cbn [is_zero_fee_htlc is_anchors].
    - destruct (fr * htlc_weight false off / 1000 <=? amount) eqn:E; try discriminate.
      intros B. inversion B; subst. split; [|lia]. destruct off; reflexivity.
    - destruct (fr * htlc_weight false off / 1000 <=? amount) eqn:E; try discriminate.
      intros B. inversion B; subst. split; [|lia]. destruct off; reflexivity.
    - intros B. inversion B; subst. split; [|lia].
      rewrite N.sub_0_r. destruct off; reflexivity.
  Qed.

  Lemma validate_htlc_tx_ok s fr off cl :
    validate_htlc_tx warn pol s fr off cl = SOk ->
    (warn H_locktime = false -> off = true -> cl <> 0) /\
    (warn H_fee_range = false ->
     (is_zero_fee_htlc (commitment_type s) = false -> min_feerate pol <= fr) /\
     fr <= max_feerate pol).
  Proof.
    unfold validate_htlc_tx. intros V.
    apply sthen_ok in V. destruct V as [V1 V]. apply sthen_ok in V. destruct V as [V2 V3].
    split.
    - intros Hw Ho. subst off. cbn [andb] in V1.
      destruct (cl =? 0) eqn:E; [|lia]. exfalso. eapply sperr_ok; eassumption.
    - intros Hw. split.
      + intros Z. rewrite Z in V2. cbn [negb andb] in V2.
        destruct (fr <? min_feerate pol) eqn:E; [|lia]. exfalso. eapply sperr_ok; eassumption.
      + destruct (max_feerate pol <? fr) eqn:E; [|lia]. exfalso. eapply sperr_ok; eassumption.
  Qed.

  Lemma sign_htlc_tx_split is_cp s rev delayed t rs_id rs amount :
    sign_htlc_tx revokeable_spk H sighash H_eqb prof warn pol is_cp s rev delayed t rs_id rs amount = SOk ->
    exists fr off cl,
      decode is_cp s rev delayed t rs_id rs amount = (SOk, (fr, off, cl)) /\
      validate_htlc_tx warn pol s fr off cl = SOk.
  Proof.
    unfold sign_htlc_tx.
    destruct (decode is_cp s rev delayed t rs_id rs amount) as [r [[fr off] cl]].
    destruct r; try discriminate. intros V. exists fr, off, cl. auto.
  Qed.

  (** the main statement *)
  Theorem htlc_accept is_cp s rev delayed t rs_id rs amount :
    warn H_fee_range = false ->
    amount_fits prof amount ->
    commitment_type s <> Anchors ->
    sign_htlc_tx revokeable_spk H sighash H_eqb prof warn pol is_cp s rev delayed t rs_id rs amount = SOk ->
    let c := commitment_type s in
    exists i0 o0 offered r,
      nthN (tx_ins t) 0 = Some i0 /\ nthN (tx_outs t) 0 = Some o0 /\
      htlc_kind rs (is_anchors c) = Some offered /\
      (if is_zero_fee_htlc c then r = 0 else min_feerate pol <= r <= max_feerate pol) /\
      out_value o0 + bolt3_htlc_fee c offered r = amount /\
      (warn H_locktime = false -> offered = true -> tx_locktime t <> 0) /\
      covered_fields (sh_of c) t 0 rs_id amount <> None /\
      covered_fields (sh_of c) t 0 rs_id amount =
      covered_fields (sh_of c)
        (canon c (prev_txid i0) (prev_vout i0) offered (tx_locktime t) amount r
               (self_delay is_cp s) rev delayed) 0 rs_id amount.
  Proof.
    intros Hw Hfit Hc S c. subst c.
    apply sign_htlc_tx_split in S. destruct S as (fr & off & cl & D & V).
    apply decode_ok in D.
    destruct D as (i0 & o0 & fee & m & rec & I & O & K & CL & FE & FR & M & B & CV & NN).
    apply validate_htlc_tx_ok in V. destruct V as [VL VF]. specialize (VF Hw).
    destruct VF as [Vmin Vmax].
    pose proof (msat_roundtrip _ _ _ Hfit M) as RT.
    subst cl.
    apply build_is_canon with (amount := amount) in B; auto.
    destruct B as [B Fle]. subst rec.
    exists i0, o0, off, fr.
    repeat split; auto.
    - destruct (is_zero_fee_htlc (commitment_type s)) eqn:Z; [exact FR|]. split; [auto | exact Vmax].
    - (* the true fee is the BOLT-3 fee at rate fr: read the output value off the covered fields *)
      assert (Hv : out_value o0 = amount - bolt3_htlc_fee (commitment_type s) off fr).
      { clear - CV I O.
        unfold covered_fields, canon_htlc_tx, sh_of in CV. rewrite I in CV.
        cbn [tx_ins tx_outs tx_version tx_locktime nthN] in CV.
        change (0 =? 0) with true in CV. cbv iota in CV.
        unfold outpoint_of, out_pair in CV.
        cbn [prev_txid prev_vout in_seq out_value out_spk map] in CV.
        destruct (is_anchors (commitment_type s)) eqn:A.
        - rewrite O in CV. injection CV as EVer ES EV EQ EL. exact EV.
        - injection CV as EVer EPs ESs EQ EO EL.
          destruct (map_single _ _ _ EO) as (y & Ey & Ey2).
          rewrite Ey in O. cbn in O. inversion O; subst y.
          injection Ey2 as Y1 Y2. exact Y1. }
      lia.
    - intros Hl Ho. specialize (VL Hl Ho). subst off. exact VL.
  Qed.

  (** spelled out field by field *)
  Corollary htlc_accept_fields is_cp s rev delayed t rs_id rs amount :
    warn H_fee_range = false ->
    amount_fits prof amount ->
    commitment_type s <> Anchors ->
    sign_htlc_tx revokeable_spk H sighash H_eqb prof warn pol is_cp s rev delayed t rs_id rs amount = SOk ->
    let c := commitment_type s in
    exists i0 o0 offered r,
      nthN (tx_ins t) 0 = Some i0 /\ nthN (tx_outs t) 0 = Some o0 /\
      htlc_kind rs (is_anchors c) = Some offered /\
      (if is_zero_fee_htlc c then r = 0 else min_feerate pol <= r <= max_feerate pol) /\
      tx_version t = 2 /\
      (offered = false -> tx_locktime t = 0) /\
      in_seq i0 = (if is_anchors c then 1 else 0) /\
      out_spk o0 = revokeable_spk rev (self_delay is_cp s) delayed /\
      out_value o0 + bolt3_htlc_fee c offered r = amount /\
      (is_anchors c = false -> tx_ins t = [i0] /\ tx_outs t = [o0]).
  Proof.
    intros Hw Hfit Hc S c.
    destruct (htlc_accept _ _ _ _ _ _ _ _ Hw Hfit Hc S)
      as (i0 & o0 & off & r & I & O & K & R & F & L & NN & CV).
    subst c. exists i0, o0, off, r.
    do 4 (split; [assumption|]).
    assert (G : tx_version t = 2 /\
                (off = false -> tx_locktime t = 0) /\
                in_seq i0 = (if is_anchors (commitment_type s) then 1 else 0) /\
                out_spk o0 = revokeable_spk rev (self_delay is_cp s) delayed /\
                (is_anchors (commitment_type s) = false -> tx_ins t = [i0] /\ tx_outs t = [o0])).
    { clear - CV I O.
      unfold covered_fields, canon_htlc_tx, sh_of in CV. rewrite I in CV.
      cbn [tx_ins tx_outs tx_version tx_locktime nthN] in CV.
      change (0 =? 0) with true in CV. cbv iota in CV.
      unfold outpoint_of, out_pair in CV.
      cbn [prev_txid prev_vout in_seq out_value out_spk map] in CV.
      destruct (is_anchors (commitment_type s)) eqn:A.
      - rewrite O in CV. injection CV as EVer ES EV EQ EL.
        repeat split; auto; try discriminate.
        intros ->. exact EL.
      - injection CV as EVer EPs ESs EQ EO EL.
        destruct (map_single _ _ _ ESs) as (x & Ex & _).
        destruct (map_single _ _ _ EO) as (y & Ey & Ey2).
        rewrite Ex in I. cbn in I. inversion I; subst x.
        rewrite Ey in O. cbn in O. inversion O; subst y.
        injection Ey2 as Y1 Y2.
        repeat split; auto.
        intros ->. exact EL. }
    destruct G as (G1 & G2 & G3 & G4 & G5). repeat split; auto; apply G5; auto.
  Qed.
  (** the two callers answer Ok only through sign_htlc_tx *)
  Lemma sign_holder_through s given cn nh rev delayed t rs_id rs amount :
    sign_holder_htlc_tx revokeable_spk H sighash H_eqb prof warn pol s given cn nh rev delayed t
      rs_id rs amount = SOk ->
    (given = true \/ cn <= nh + 1) /\
    sign_htlc_tx revokeable_spk H sighash H_eqb prof warn pol false s rev delayed t rs_id rs amount = SOk.
  Proof.
    unfold sign_holder_htlc_tx. intros S. apply sthen_ok in S. destruct S as [S1 S2].
    split; [|exact S2].
    destruct given; [left; reflexivity|right].
    destruct (nh + 1 <? cn) eqn:E; [discriminate | lia].
  Qed.
End HtlcProofs.

(** * The instantiation used by the executable comparison satisfies the assumed laws *)

Lemma pairN_eqb_ok (x y : N * N) : beq x y = true <-> x = y.
Proof.
  destruct x as [a b], y as [c d]. unfold beq, Eqb_prod, beq, Eqb_N. cbn [fst snd].
  rewrite andb_true_iff, !N.eqb_eq. split; [intros []; congruence | intros E; inversion E; auto].
Qed.
Lemma listN_eqb_ok (x y : list N) : beq x y = true <-> x = y.
Proof. apply list_eqb_ok. apply N.eqb_eq. Qed.
Lemma listNN_eqb_ok (x y : list (N * N)) : beq x y = true <-> x = y.
Proof. apply list_eqb_ok. apply pairN_eqb_ok. Qed.

Lemma cov_eqb_true (a b : covered) : cov_eqb a b = true -> a = b.
Proof.
  destruct a as [[[[[[[[[v1 p1] q1] o1] s1] a1] n1] u1] l1] y1].
  destruct b as [[[[[[[[[v2 p2] q2] o2] s2] a2] n2] u2] l2] y2].
  unfold cov_eqb.
  repeat (unfold beq at 1; unfold Eqb_prod; cbn [fst snd]).
  rewrite !andb_true_iff. intros H. decompose [and] H. clear H.
  destruct o1 as [oa ob], o2 as [oc od]. cbn [fst snd] in *.
  unfold Eqb_N in *.
  repeat match goal with E : N.eqb _ _ = true |- _ => apply N.eqb_eq in E end.
  repeat match goal with E : Eqb_list _ _ = true |- _ =>
    first [apply (proj1 (listN_eqb_ok _ _)) in E | apply (proj1 (listNN_eqb_ok _ _)) in E] end.
  subst. reflexivity.
Qed.
