(** The balance rule of the payments model ([Payments.balance_ok]) is what the translated source
    (Gen/PaymentsGen.v, regenerated from SimpleValidator::validate_payment_balance on every run)
    computes under the default policy filter, in both build profiles, for amounts that do not
    overflow u64. *)
From Coq Require Import String.
From VLS Require Import Base.Rust Gen.PaymentsGen.
From VLS Require Model.Payments.
Require Import Lia.

Definition strict_filter : string -> bool := fun _ => false.

Lemma add_p_ok prof a b : a + b <= U64MAX -> add_p prof a b = Val (a + b).
Proof.
  intros H. destruct prof; cbn [add_p].
  - destruct (a + b <=? U64MAX) eqn:E; [reflexivity | lia].
  - unfold add_wrap. f_equal. apply N.mod_small. unfold two64, U64MAX in *. lia.
Qed.

Lemma sub_p_ok prof a b : b <= a -> a <= U64MAX -> sub_p prof a b = Val (a - b).
Proof.
  intros H Ha. destruct prof; cbn [sub_p].
  - destruct (b <=? a) eqn:E; [reflexivity | lia].
  - unfold sub_wrap. f_equal. unfold two64, U64MAX in *.
    replace (a + 18446744073709551616 - b) with ((a - b) + 1 * 18446744073709551616) by lia.
    rewrite N.mod_add by lia. apply N.mod_small. lia.
Qed.

(** amounts for which no intermediate result of the function leaves u64 *)
Definition amounts_fit (mf inc out : N) (inv : option N) : Prop :=
  out * 100 <= U64MAX /\
  match inv with
  | Some a => inc + (a + mf) <= U64MAX
  | None => inc <= U64MAX
  end.

Theorem gen_balance_is_model prof mf mp inc out inv :
  amounts_fit mf inc out inv ->
  gen_validate_payment_balance prof strict_filter mf mp inc out inv =
  Val (Payments.balance_ok mf mp inc out inv).
Proof.
  intros [Ho Hi]. unfold gen_validate_payment_balance, Payments.balance_ok, strict_filter.
  destruct inv as [a|].
  - rewrite (add_p_ok prof a mf) by lia. cbn [bindT].
    rewrite (add_p_ok prof inc (a + mf)) by lia. cbn [bindT].
    destruct (inc + (a + mf) <? out) eqn:E1; [reflexivity|].
    rewrite (add_p_ok prof a inc) by lia. cbn [bindT].
    destruct (out <? a + inc) eqn:E2; [reflexivity|].
    rewrite (sub_p_ok prof out a) by (unfold U64MAX in *; lia). cbn [bindT].
    rewrite (sub_p_ok prof (out - a) inc) by (unfold U64MAX in *; lia). cbn [bindT].
    unfold mul_checked. destruct ((out - a - inc) * 100 <=? U64MAX) eqn:E3; [|unfold U64MAX in *; lia].
    unfold div_p. destruct (N.max a 1 =? 0) eqn:E4; [lia|]. cbn [bindT].
    destruct (mp <? (out - a - inc) * 100 / N.max a 1); reflexivity.
  - cbn [bindT]. rewrite (add_p_ok prof inc 0) by lia. cbn [bindT].
    rewrite N.add_0_r. destruct (inc <? out); reflexivity.
Qed.
