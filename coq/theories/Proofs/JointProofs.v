(** Joint histories project onto histories of the two component models. *)
From VLS Require Import Base.U64 Model.Joint Proofs.EnforcementProofs.
From VLS Require Proofs.PaymentsProofs.
Require Import Lia.

Section J.
Variable warn : tag -> bool.
Variable prof : profile.
Variable nch : nat.
Variables mf mp : N.

Lemma prun_app s a b :
  P.prun nch mf mp s (a ++ b) = P.prun nch mf mp (P.prun nch mf mp s a) b.
Proof. revert s; induction a as [|o a IH]; intros s; cbn [P.prun app]; [reflexivity | apply IH]. Qed.

Lemma jstep_jp s o :
  jp (fst (jstep warn prof nch mf mp s o)) =
  P.prun nch mf mp (jp s) (fst (fst (with_crash nch (plan warn prof nch mf mp s o)))).
Proof.
  unfold jstep, exec. destruct (with_crash nch (plan warn prof nch mf mp s o)) as [[pops cops] r].
  reflexivity.
Qed.

Lemma jstep_jc s o ch :
  jc (fst (jstep warn prof nch mf mp s o)) ch =
  grun warn prof (jc s ch) (ops_for ch (snd (fst (with_crash nch (plan warn prof nch mf mp s o))))).
Proof.
  unfold jstep, exec. destruct (with_crash nch (plan warn prof nch mf mp s o)) as [[pops cops] r].
  reflexivity.
Qed.

(** the payment bookkeeping of a joint history is a history of Model/Payments.v *)
Theorem jrun_pay ops : forall s,
  jp (jrun warn prof nch mf mp s ops) = P.prun nch mf mp (jp s) (jrun_pops warn prof nch mf mp s ops).
Proof.
  induction ops as [|o ops IH]; intros s; cbn [jrun jrun_pops]; [reflexivity|].
  rewrite IH, prun_app, jstep_jp. reflexivity.
Qed.

(** every channel of a joint history goes through a history of Model/Enforcement.v *)
Theorem jrun_chan ops : forall s ch,
  jc (jrun warn prof nch mf mp s ops) ch = grun warn prof (jc s ch) (jrun_cops warn prof nch mf mp ch s ops).
Proof.
  induction ops as [|o ops IH]; intros s ch; cbn [jrun jrun_cops]; [reflexivity|].
  rewrite IH, grun_app, jstep_jc. reflexivity.
Qed.

(** ** well-formedness and length of the projected histories *)

Definition jwf (o : jop) : Prop :=
  match o with
  | JSignCp _ n _ _ _ _ | JValidateHolder _ n _ _ _ _ | JRevoke _ n | JCpRevoke _ n _ _ _
  | JSignHolder _ n => n <= U64MAX
  | _ => True
  end.

Lemma ops_for_app ch a b : ops_for ch (a ++ b) = ops_for ch a ++ ops_for ch b.
Proof. unfold ops_for. rewrite filter_app, map_app. reflexivity. Qed.

Lemma ops_for_restarts ch l :
  Forall wf_op (ops_for ch (map (fun c => (c, Restart)) l)) /\
  (length (ops_for ch (map (fun c => (c, Restart)) l)) <= length l)%nat.
Proof.
  unfold ops_for. induction l as [|c l [IH1 IH2]].
  - cbn. split; [constructor | lia].
  - cbn [map filter fst]. destruct (c =? ch); cbn [map snd length].
    + split; [constructor; [exact I | exact IH1] | lia].
    + split; [exact IH1 | lia].
Qed.

Lemma chan_ids_length n : length (P.chan_ids n) = n.
Proof. induction n as [|n IH]; cbn [P.chan_ids]; [reflexivity|]. rewrite app_length, IH. cbn. lia. Qed.

(** one joint request plans at most one request per channel, plus a restart after a panic *)
Lemma plan_wf s o ch :
  jwf o ->
  Forall wf_op (ops_for ch (snd (fst (plan warn prof nch mf mp s o)))) /\
  (length (ops_for ch (snd (fst (plan warn prof nch mf mp s o)))) <= 1 \/
   o = JRestart)%nat.
Proof.
  intros Hwf. destruct o; cbn [plan jwf] in *;
    try (split; [constructor | left; cbn; lia]);
    try (destruct (negb (P.in_range nch ch0)); cbn [fst snd ops_for filter map];
         [split; [constructor | left; cbn; lia]|];
         unfold ops_for; cbn [filter fst snd map]; destruct (ch0 =? ch); cbn [map snd length];
         split; try (left; lia); repeat constructor; cbn [wf_op]; exact Hwf).
  (* JRestart *)
  split; [apply ops_for_restarts | right; reflexivity].
Qed.

Lemma with_crash_cops pl :
  snd (fst (with_crash nch pl)) = snd (fst pl) \/
  snd (fst (with_crash nch pl)) = snd (fst pl) ++ map (fun c => (c, Restart)) (P.chan_ids nch).
Proof.
  destruct pl as [[pops cops] r]. unfold with_crash. destruct (st r); cbn [fst snd]; auto.
Qed.

Lemma step_cops_wf s o ch :
  jwf o ->
  Forall wf_op (ops_for ch (snd (fst (with_crash nch (plan warn prof nch mf mp s o))))) /\
  (length (ops_for ch (snd (fst (with_crash nch (plan warn prof nch mf mp s o))))) <= 1 + nch)%nat.
Proof.
  intros Hwf.
  pose proof (ops_for_restarts ch (P.chan_ids nch)) as [R1 R2]. rewrite chan_ids_length in R2.
  assert (Hr : o = JRestart \/ o <> JRestart)
    by (destruct o; try (left; reflexivity); right; discriminate).
  destruct Hr as [->|Hn].
  - (* a restart request never panics *)
    cbn [plan with_crash st ok0 fst snd]. split; [exact R1 | lia].
  - destruct (plan_wf s o ch Hwf) as [H1 [H2|H2]]; [|contradiction].
    destruct (with_crash_cops (plan warn prof nch mf mp s o)) as [E|E]; rewrite E.
    + split; [exact H1 | lia].
    + rewrite ops_for_app. split; [apply Forall_app; split; assumption|].
      rewrite app_length. lia.
Qed.

Theorem jrun_cops_wf ops : forall s ch,
  Forall jwf ops ->
  Forall wf_op (jrun_cops warn prof nch mf mp ch s ops) /\
  (length (jrun_cops warn prof nch mf mp ch s ops) <= (1 + nch) * length ops)%nat.
Proof.
  induction ops as [|o ops IH]; intros s ch Hwf; cbn [jrun_cops length]; [split; [constructor|lia]|].
  inversion Hwf as [|? ? Ho Hr]; subst.
  destruct (step_cops_wf s o ch Ho) as [S1 S2].
  destruct (IH (fst (jstep warn prof nch mf mp s o)) ch Hr) as [I1 I2].
  split; [apply Forall_app; split; assumption|]. rewrite app_length. lia.
Qed.

End J.

(** * the history of one channel inside a joint history *)

Section Hist.
Variable warn : tag -> bool.
Variable prof : profile.

(** the history channel [ch] of a joint history went through, from the stub *)
Definition chan_history nch mf mp (jops : list jop) (ch : N) : list op :=
  boot ++ jrun_cops warn prof nch mf mp ch (jinit warn prof) jops.

(** histories short enough for the counters to stay below 2^64 (as [short] in C01) *)
Definition jshort (nch : nat) (jops : list jop) : Prop :=
  2 * N.of_nat (4 + (1 + nch) * length jops) + 4 <= U64MAX.

Lemma boot_wf : Forall wf_op boot.
Proof. repeat constructor; cbv; discriminate. Qed.

Lemma chan_history_spec nch mf mp jops ch :
  jc (jrun warn prof nch mf mp (jinit warn prof) jops) ch =
  grun warn prof (Stub, ghost0) (chan_history nch mf mp jops ch).
Proof. unfold chan_history. rewrite jrun_chan, grun_app. reflexivity. Qed.

Lemma chan_history_wf nch mf mp jops ch :
  Forall jwf jops -> jshort nch jops ->
  Forall wf_op (chan_history nch mf mp jops ch) /\ short (chan_history nch mf mp jops ch).
Proof.
  intros Hwf Hs. destruct (jrun_cops_wf warn prof nch mf mp jops (jinit warn prof) ch Hwf) as [W L].
  split; [apply Forall_app; split; [exact boot_wf | exact W]|].
  unfold short, chan_history, jshort in *. rewrite app_length. cbn [boot length].
  lia.
Qed.

End Hist.

(** * what only the joint model can say: a revocation advances a channel only under a payment
      check that passes on the ledger as it is at that moment *)

Section Cross.
Variable warn : tag -> bool.
Variable prof : profile.
(* the filter may downgrade any tag except the four the holder-side invariant rests on *)
Hypothesis W1 : warn TRevokeNewSigned = false.
Hypothesis W2 : warn TRevokeNotClosed = false.
Hypothesis W3 : warn THolderNotRevoked = false.
Hypothesis W4 : warn TOther = false.

Definition slot_durable (s : slot) : Prop :=
  match s with Stub => True | Ready ch => mem ch = disk ch end.

(** a revocation request whose payment verdict is negative leaves the holder counter alone *)
Lemma revoke_unpaid_keeps sl n :
  slot_durable sl ->
  slot_next_h (fst (step warn prof sl (Revoke n false))) = slot_next_h sl /\
  slot_durable (fst (step warn prof sl (Revoke n false))).
Proof.
  intros Hd. destruct sl as [|ch]; [split; [reflexivity | exact I]|].
  unfold step. cbn [step0 on_ready].
  assert (E : fst (do_revoke warn prof ch n false) = ch).
  { unfold do_revoke. destruct (negb (n =? next_h (mem ch))); [reflexivity|].
    destruct (closed (mem ch) && perr warn TRevokeNotClosed); [reflexivity|].
    destruct (nxt_h (mem ch)); [reflexivity|].
    destruct (perr warn TRevokeNewSigned); [reflexivity|].
    destruct (point_ok (mem ch) n); reflexivity. }
  destruct (do_revoke warn prof ch n false) as [ch' r]. cbn [fst] in E. subst ch'.
  cbn [slot_durable] in Hd.
  destruct (st r); cbn [fst crash slot_next_h slot_durable mem disk]; split; try reflexivity; try exact Hd.
  rewrite Hd. reflexivity.
Qed.

Lemma restart_keeps sl :
  slot_durable sl -> slot_next_h (fst (step warn prof sl Restart)) = slot_next_h sl.
Proof.
  intros Hd. destruct sl as [|ch]; [reflexivity|]. unfold step. cbn [step0 st ok0 fst slot_next_h mem].
  cbn [slot_durable] in Hd. rewrite Hd. reflexivity.
Qed.

Lemma gstep_slot sg o : fst (fst (gstep warn prof sg o)) = fst (step warn prof (fst sg) o).
Proof. destruct sg as [s g]. rewrite gstep_unfold. cbn [fst]. destruct (step warn prof s o) as [s0 o0]. reflexivity. Qed.

(** in every reachable joint state the memory image of every channel is its persisted image *)
Lemma joint_durable nch mf mp jops ch :
  Forall jwf jops -> jshort nch jops ->
  slot_durable (fst (jc (jrun warn prof nch mf mp (jinit warn prof) jops) ch)).
Proof.
  intros Hwf Hs. rewrite (chan_history_spec warn prof).
  destruct (chan_history_wf warn prof nch mf mp jops ch Hwf Hs) as [W S].
  pose proof (reach_inv warn prof W1 W2 W3 W4 _ W S) as H. unfold reach in H.
  destruct (fst (grun warn prof (Stub, ghost0) (chan_history warn prof nch mf mp jops ch))) as [|c]; [exact I|].
  cbn [HSInv] in H. exact (proj1 H).
Qed.

Lemma ops_for_one ch o : ops_for ch [(ch, o)] = [o].
Proof. unfold ops_for. cbn [filter fst]. rewrite N.eqb_refl. reflexivity. Qed.

Lemma ops_for_restart_all ch l :
  ops_for ch (map (fun c => (c, Restart)) l) = repeat Restart (length (ops_for ch (map (fun c => (c, Restart)) l))).
Proof.
  unfold ops_for. induction l as [|c l IH]; [reflexivity|].
  cbn [map filter fst]. destruct (c =? ch); cbn [map snd length repeat]; [f_equal|]; exact IH.
Qed.

Lemma restarts_keep k : forall sg,
  slot_durable (fst sg) ->
  slot_next_h (fst (grun warn prof sg (repeat Restart k))) = slot_next_h (fst sg).
Proof.
  induction k as [|k IH]; intros sg Hd; cbn [repeat grun]; [reflexivity|].
  rewrite IH.
  - rewrite gstep_slot. apply restart_keeps; exact Hd.
  - rewrite gstep_slot. destruct (fst sg) as [|c]; [exact I|].
    unfold step. cbn [step0 st ok0 fst slot_durable mem disk]. reflexivity.
Qed.

(** a revocation moves the holder counter of a channel only when the node-wide payment check
    accepts, on the ledger as it is at that moment, the HTLCs of the commitment that becomes
    current *)
Theorem revoke_needs_payment_check nch mf mp jops ch n c :
  Forall jwf jops -> jshort nch jops ->
  let s := jrun warn prof nch mf mp (jinit warn prof) jops in
  let s' := fst (jstep warn prof nch mf mp s (JRevoke ch n)) in
  slot_next_h (fst (jc s' ch)) <> slot_next_h (fst (jc s ch)) ->
  P.hnxt (P.chans (jp s) ch) = Some c ->
  P.validate_payments nch mf mp (jp s) ch (Some c) None = true.
Proof.
  intros Hwf Hs s s' Hadv Hn. subst s'.
  pose proof (joint_durable nch mf mp jops ch Hwf Hs) as Hd. fold s in Hd.
  destruct (P.validate_payments nch mf mp (jp s) ch (Some c) None) eqn:Ev; [reflexivity|].
  exfalso. apply Hadv. rewrite jstep_jc. cbn [plan]. rewrite Hn, Ev.
  destruct (negb (P.in_range nch ch)).
  - cbn [with_crash st refused fst snd ops_for filter map grun]. reflexivity.
  - set (res := gstep warn prof (jc s ch) (Revoke n false)).
    destruct (revoke_unpaid_keeps (fst (jc s ch)) n Hd) as [K1 K2].
    unfold with_crash. cbn [st snd fst].
    destruct (st (snd res)) eqn:Es; cbn [fst snd].
    + rewrite ops_for_one. cbn [grun]. fold res. unfold res. rewrite gstep_slot. exact K1.
    + rewrite ops_for_one. cbn [grun]. fold res. unfold res. rewrite gstep_slot. exact K1.
    + rewrite ops_for_app, ops_for_one, ops_for_restart_all. cbn [app grun]. fold res.
      rewrite restarts_keep; unfold res; rewrite gstep_slot; [exact K1 | exact K2].
Qed.

End Cross.
