(** Joint histories project onto histories of the two component models. *)
From VLS Require Import Base.U64 Model.Joint Proofs.EnforcementProofs.
From VLS Require Proofs.PaymentsProofs.
Require Import Lia.

Section J.
Variable warn : tag -> bool.
Variable prof : profile.
Variable nch : nat.
Variables mf mp : N.

Lemma prun_app s a b :
  P.prun nch mf mp s (a ++ b) = P.prun nch mf mp (P.prun nch mf mp s a) b.
Proof. revert s; induction a as [|o a IH]; intros s; cbn [P.prun app]; [reflexivity | apply IH]. Qed.

Lemma jstep_jp s o :
  jp (fst (jstep warn prof nch mf mp s o)) =
  P.prun nch mf mp (jp s) (fst (fst (with_crash nch (plan warn prof nch mf mp s o)))).
Proof.
  unfold jstep, exec. destruct (with_crash nch (plan warn prof nch mf mp s o)) as [[pops cops] r].
  reflexivity.
Qed.

Lemma jstep_jc s o ch :
  jc (fst (jstep warn prof nch mf mp s o)) ch =
  grun warn prof (jc s ch) (ops_for ch (snd (fst (with_crash nch (plan warn prof nch mf mp s o))))).
Proof.
  unfold jstep, exec. destruct (with_crash nch (plan warn prof nch mf mp s o)) as [[pops cops] r].
  reflexivity.
Qed.

(** the payment bookkeeping of a joint history is a history of Model/Payments.v *)
Theorem jrun_pay ops : forall s,
  jp (jrun warn prof nch mf mp s ops) = P.prun nch mf mp (jp s) (jrun_pops warn prof nch mf mp s ops).
Proof.
  induction ops as [|o ops IH]; intros s; cbn [jrun jrun_pops]; [reflexivity|].
  rewrite IH, prun_app, jstep_jp. reflexivity.
Qed.

(** every channel of a joint history goes through a history of Model/Enforcement.v *)
Theorem jrun_chan ops : forall s ch,
  jc (jrun warn prof nch mf mp s ops) ch = grun warn prof (jc s ch) (jrun_cops warn prof nch mf mp ch s ops).
Proof.
  induction ops as [|o ops IH]; intros s ch; cbn [jrun jrun_cops]; [reflexivity|].
  rewrite IH, grun_app, jstep_jc. reflexivity.
Qed.

(** ** well-formedness and length of the projected histories *)

Definition jwf (o : jop) : Prop :=
  match o with
  | JSignCp _ n _ _ _ _ | JValidateHolder _ n _ _ _ _ | JRevoke _ n | JCpRevoke _ n _ _ _
  | JSignHolder _ n => n <= U64MAX
  | _ => True
  end.

Lemma ops_for_app ch a b : ops_for ch (a ++ b) = ops_for ch a ++ ops_for ch b.
Proof. unfold ops_for. rewrite filter_app, map_app. reflexivity. Qed.

Lemma ops_for_restarts ch l :
  Forall wf_op (ops_for ch (map (fun c => (c, Restart)) l)) /\
  (length (ops_for ch (map (fun c => (c, Restart)) l)) <= length l)%nat.
Proof.
  unfold ops_for. induction l as [|c l [IH1 IH2]].
  - cbn. split; [constructor | lia].
  - cbn [map filter fst]. destruct (c =? ch); cbn [map snd length].
    + split; [constructor; [exact I | exact IH1] | lia].
    + split; [exact IH1 | lia].
Qed.

Lemma chan_ids_length n : length (P.chan_ids n) = n.
Proof. induction n as [|n IH]; cbn [P.chan_ids]; [reflexivity|]. rewrite app_length, IH. cbn. lia. Qed.

(** one joint request plans at most one request per channel, plus a restart after a panic *)
Lemma plan_wf s o ch :
  jwf o ->
  Forall wf_op (ops_for ch (snd (fst (plan warn prof nch mf mp s o)))) /\
  (length (ops_for ch (snd (fst (plan warn prof nch mf mp s o)))) <= 1 \/
   o = JRestart)%nat.
Proof.
  intros Hwf. destruct o; cbn [plan jwf] in *;
    try (split; [constructor | left; cbn; lia]);
    try (destruct (negb (P.in_range nch ch0)); cbn [fst snd ops_for filter map];
         [split; [constructor | left; cbn; lia]|];
         unfold ops_for; cbn [filter fst snd map]; destruct (ch0 =? ch); cbn [map snd length];
         split; try (left; lia); repeat constructor; cbn [wf_op]; exact Hwf).
  (* JRestart *)
  split; [apply ops_for_restarts | right; reflexivity].
Qed.

Lemma with_crash_cops pl :
  snd (fst (with_crash nch pl)) = snd (fst pl) \/
  snd (fst (with_crash nch pl)) = snd (fst pl) ++ map (fun c => (c, Restart)) (P.chan_ids nch).
Proof.
  destruct pl as [[pops cops] r]. unfold with_crash. destruct (st r); cbn [fst snd]; auto.
Qed.

Lemma step_cops_wf s o ch :
  jwf o ->
  Forall wf_op (ops_for ch (snd (fst (with_crash nch (plan warn prof nch mf mp s o))))) /\
  (length (ops_for ch (snd (fst (with_crash nch (plan warn prof nch mf mp s o))))) <= 1 + nch)%nat.
Proof.
  intros Hwf.
  pose proof (ops_for_restarts ch (P.chan_ids nch)) as [R1 R2]. rewrite chan_ids_length in R2.
  assert (Hr : o = JRestart \/ o <> JRestart)
    by (destruct o; try (left; reflexivity); right; discriminate).
  destruct Hr as [->|Hn].
  - (* a restart request never panics *)
    cbn [plan with_crash st ok0 fst snd]. split; [exact R1 | lia].
  - destruct (plan_wf s o ch Hwf) as [H1 [H2|H2]]; [|contradiction].
    destruct (with_crash_cops (plan warn prof nch mf mp s o)) as [E|E]; rewrite E.
    + split; [exact H1 | lia].
    + rewrite ops_for_app. split; [apply Forall_app; split; assumption|].
      rewrite app_length. lia.
Qed.

Theorem jrun_cops_wf ops : forall s ch,
  Forall jwf ops ->
  Forall wf_op (jrun_cops warn prof nch mf mp ch s ops) /\
  (length (jrun_cops warn prof nch mf mp ch s ops) <= (1 + nch) * length ops)%nat.
Proof.
  induction ops as [|o ops IH]; intros s ch Hwf; cbn [jrun_cops length]; [split; [constructor|lia]|].
  inversion Hwf as [|? ? Ho Hr]; subst.
  destruct (step_cops_wf s o ch Ho) as [S1 S2].
  destruct (IH (fst (jstep warn prof nch mf mp s o)) ch Hr) as [I1 I2].
  split; [apply Forall_app; split; assumption|]. rewrite app_length. lia.
Qed.

End J.
