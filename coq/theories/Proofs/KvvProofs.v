(** Proofs about Model/Kvv.v: key order and sorted association lists; the memory store
    (version monotonicity, the same-version rule, batch atomicity, last accepted write); the
    disk store (cache = versions of the table, simulation of the memory store, reopen); the
    cloud-staged store (local store changes only by commit, read-your-writes, versions never
    lowered, committed = reported).  All [Qed]. *)
From VLS Require Import Base.U64 Base.Eqb Model.Kvv.

(* ------------------------------------------------------------------ *)
(** * key order *)
Lemma kcmp_eq_iff a b : kcmp a b = Eq <-> a = b.
Proof.
  revert b. induction a as [|x a IH]; intros [|y b]; cbn [kcmp]; try (split; congruence).
  destruct (N.compare_spec x y) as [H|H|H].
  - subst. rewrite IH. split; congruence.
  - split; [discriminate|]. intros E. inversion E. lia.
  - split; [discriminate|]. intros E. inversion E. lia.
Qed.
Lemma kcmp_refl a : kcmp a a = Eq.
Proof. apply kcmp_eq_iff. reflexivity. Qed.
Lemma kcmp_antisym a b : kcmp b a = CompOpp (kcmp a b).
Proof.
  revert b. induction a as [|x a IH]; intros [|y b]; cbn [kcmp CompOpp]; try reflexivity.
  rewrite (N.compare_antisym x y).
  destruct (N.compare x y); cbn [CompOpp]; auto.
Qed.
Lemma klt_trans a b c : kcmp a b = Lt -> kcmp b c = Lt -> kcmp a c = Lt.
Proof.
  revert b c. induction a as [|x a IH]; intros [|y b] [|z c]; cbn [kcmp]; try congruence.
  destruct (N.compare_spec x y) as [H|H|H]; destruct (N.compare_spec y z) as [G|G|G];
    try congruence; intros A B.
  - subst. rewrite N.compare_refl. eapply IH; eauto.
  - subst. destruct (N.compare_spec y z); try lia. reflexivity.
  - subst. destruct (N.compare_spec x z); try lia. reflexivity.
  - destruct (N.compare_spec x z); try lia. reflexivity.
Qed.
Lemma klt_irrefl a : kcmp a a <> Lt.
Proof. rewrite kcmp_refl. discriminate. Qed.
Lemma kcmp_gt_lt a b : kcmp a b = Gt -> kcmp b a = Lt.
Proof. intros H. rewrite kcmp_antisym, H. reflexivity. Qed.
Lemma kcmp_lt_gt a b : kcmp a b = Lt -> kcmp b a = Gt.
Proof. intros H. rewrite kcmp_antisym, H. reflexivity. Qed.
Lemma kcmp_neq a b : a <> b -> kcmp a b <> Eq.
Proof. intros H E. apply kcmp_eq_iff in E. contradiction. Qed.

Lemma val_eqb_eq a b : val_eqb a b = true <-> a = b.
Proof. apply list_eqb_ok. intros; apply N.eqb_eq. Qed.
Lemma val_eqb_refl a : val_eqb a a = true.
Proof. apply val_eqb_eq. reflexivity. Qed.
Lemma val_eqb_neq a b : a <> b -> val_eqb a b = false.
Proof. intros H. destruct (val_eqb a b) eqn:E; auto. apply val_eqb_eq in E. contradiction. Qed.
Lemma vv_eqb_eq a b : vv_eqb a b = true <-> a = b.
Proof.
  destruct a as [v x], b as [w y]. unfold vv_eqb. cbn [fst snd].
  rewrite andb_true_iff, N.eqb_eq, val_eqb_eq. split.
  - intros [A B]. subst. reflexivity.
  - intros E. inversion E. auto.
Qed.

(** * association lists *)
Section Assoc.
  Context {V : Type}.
  Implicit Types s : list (key * V).

  Lemma lookup_upsert_same k v s : lookup k (upsert k v s) = Some v.
  Proof.
    induction s as [|[k' v'] r IH]; cbn [upsert lookup].
    - rewrite kcmp_refl. reflexivity.
    - destruct (kcmp k k') eqn:E; cbn [lookup]; rewrite ?kcmp_refl, ?E; auto.
  Qed.
  Lemma lookup_upsert_other k k' v s : k' <> k -> lookup k' (upsert k v s) = lookup k' s.
  Proof.
    intros N. induction s as [|[k2 v2] r IH]; cbn [upsert lookup].
    - destruct (kcmp k' k) eqn:E; auto. apply kcmp_eq_iff in E. contradiction.
    - destruct (kcmp k k2) eqn:E; cbn [lookup].
      + apply kcmp_eq_iff in E. subst k2.
        destruct (kcmp k' k) eqn:E2; auto. apply kcmp_eq_iff in E2. contradiction.
      + destruct (kcmp k' k) eqn:E2; auto. apply kcmp_eq_iff in E2. contradiction.
      + destruct (kcmp k' k2); auto.
  Qed.
  Lemma lookup_upsert k k' v s :
    lookup k' (upsert k v s) = match kcmp k' k with Eq => Some v | _ => lookup k' s end.
  Proof.
    destruct (kcmp k' k) eqn:E.
    - apply kcmp_eq_iff in E. subst. apply lookup_upsert_same.
    - apply lookup_upsert_other. intros ->. rewrite kcmp_refl in E. discriminate.
    - apply lookup_upsert_other. intros ->. rewrite kcmp_refl in E. discriminate.
  Qed.

  Definition keys_above (k : key) s : Prop := Forall (fun e => kcmp k (fst e) = Lt) s.
  Fixpoint ksorted s : Prop :=
    match s with
    | [] => True
    | (k, _) :: r => keys_above k r /\ ksorted r
    end.

  Lemma keys_above_trans k k' s : kcmp k k' = Lt -> keys_above k' s -> keys_above k s.
  Proof.
    intros H A. unfold keys_above in *. rewrite Forall_forall in *. intros e He.
    eapply klt_trans; eauto.
  Qed.
  Lemma keys_above_upsert k0 k v s :
    kcmp k0 k = Lt -> keys_above k0 s -> keys_above k0 (upsert k v s).
  Proof.
    intros H A. induction s as [|[k' v'] r IH]; cbn [upsert].
    - constructor; auto.
    - inversion A as [|? ? A1 A2]; subst. destruct (kcmp k k').
      + constructor; auto.
      + constructor; auto.
      + constructor; auto. apply IH. exact A2.
  Qed.
  Lemma upsert_sorted k v s : ksorted s -> ksorted (upsert k v s).
  Proof.
    induction s as [|[k' v'] r IH]; cbn [upsert ksorted]; intros H.
    - split; [constructor|exact I].
    - destruct H as [A S]. destruct (kcmp k k') eqn:E; cbn [ksorted].
      + apply kcmp_eq_iff in E. subst. auto.
      + split; auto. constructor; auto. eapply keys_above_trans; eauto.
      + split; auto. apply keys_above_upsert; auto. apply kcmp_gt_lt; auto.
  Qed.
  Lemma lookup_above k s : keys_above k s -> lookup k s = None.
  Proof.
    induction s as [|[k' v'] r IH]; cbn [lookup]; auto. intros A. inversion A; subst.
    cbn [fst] in *. rewrite H1. auto.
  Qed.
  Lemma lookup_In k v s : ksorted s -> (In (k, v) s <-> lookup k s = Some v).
  Proof.
    induction s as [|[k' v'] r IH]; cbn [ksorted In lookup].
    - intros _. split; [tauto|discriminate].
    - intros [A S]. specialize (IH S). destruct (kcmp k k') eqn:E.
      + apply kcmp_eq_iff in E. subst k'. split.
        * intros [H|H]; [inversion H; auto|].
          unfold keys_above in A. rewrite Forall_forall in A. apply A in H. cbn [fst] in H.
          rewrite kcmp_refl in H. discriminate.
        * intros H. inversion H. auto.
      + split.
        * intros [H|H]; [inversion H; subst; rewrite kcmp_refl in E; discriminate|tauto].
        * intros H. right. tauto.
      + split.
        * intros [H|H]; [inversion H; subst; rewrite kcmp_refl in E; discriminate|tauto].
        * intros H. right. tauto.
  Qed.
  Lemma Forall_upsert (P : key * V -> Prop) k v s : P (k, v) -> Forall P s -> Forall P (upsert k v s).
  Proof.
    intros H A. induction s as [|[k' v'] r IH]; cbn [upsert].
    - constructor; auto.
    - inversion A as [|? ? A1 A2]; subst. destruct (kcmp k k').
      + constructor; auto.
      + constructor; auto.
      + constructor; auto.
  Qed.
End Assoc.

Lemma versions_of_upsert k ver val t :
  versions_of (upsert k (ver, val) t) = upsert k ver (versions_of t).
Proof.
  unfold versions_of. induction t as [|[k' [v' x']] r IH]; cbn [upsert map fst snd]; auto.
  destruct (kcmp k k'); cbn [map fst snd]; auto. rewrite IH. reflexivity.
Qed.
Lemma lookup_versions_of k t : lookup k (versions_of t) = version_of t k.
Proof.
  unfold versions_of, version_of. induction t as [|[k' [v' x']] r IH]; cbn [lookup map fst snd option_map]; auto.
  destruct (kcmp k k'); auto.
Qed.

(* ------------------------------------------------------------------ *)
(** * version order on optional versions: a key never disappears, its version never drops *)
Definition vle (a b : option N) : Prop :=
  match a with
  | None => True
  | Some x => match b with Some y => x <= y | None => False end
  end.
Lemma vle_refl a : vle a a.
Proof. destruct a; cbn; lia. Qed.
Lemma vle_trans a b c : vle a b -> vle b c -> vle a c.
Proof. destruct a, b, c; cbn; try tauto; lia. Qed.

Lemma version_of_upsert k k' ver val s :
  version_of (upsert k (ver, val) s) k' =
  match kcmp k' k with Eq => Some ver | _ => version_of s k' end.
Proof. unfold version_of. rewrite lookup_upsert. destruct (kcmp k' k); reflexivity. Qed.

(** the verdict, spelled out *)
Lemma judge_write cur ver val :
  judge cur ver val = Write -> match cur with None => True | Some (v0, _) => v0 < ver end.
Proof.
  destruct cur as [[v0 val0]|]; cbn [judge]; auto.
  destruct (ver <? v0) eqn:A; [discriminate|]. destruct (ver =? v0) eqn:B.
  - destruct (val_eqb val0 val); discriminate.
  - intros _. lia.
Qed.
Lemma judge_same cur ver val : judge cur ver val = Same -> cur = Some (ver, val).
Proof.
  destruct cur as [[v0 val0]|]; cbn [judge]; [|discriminate].
  destruct (ver <? v0) eqn:A; [discriminate|]. destruct (ver =? v0) eqn:B; [|discriminate].
  destruct (val_eqb val0 val) eqn:C; [|discriminate]. intros _.
  apply N.eqb_eq in B. apply val_eqb_eq in C. subst. reflexivity.
Qed.
Lemma judge_lower v0 val0 ver val : ver < v0 -> judge (Some (v0, val0)) ver val = RefuseLt.
Proof. intros H. cbn [judge]. destruct (ver <? v0) eqn:A; auto. lia. Qed.
Lemma judge_other_content ver val0 val : val0 <> val -> judge (Some (ver, val0)) ver val = RefuseEq.
Proof.
  intros H. cbn [judge]. rewrite N.ltb_irrefl, N.eqb_refl, (val_eqb_neq _ _ H). reflexivity.
Qed.

(** ** put_with_version *)
Lemma m_pwv_mono s k ver val k' :
  vle (version_of s k') (version_of (fst (m_pwv s k ver val)) k').
Proof.
  unfold m_pwv. destruct (judge (lookup k s) ver val) eqn:J; cbn [fst]; try apply vle_refl.
  rewrite version_of_upsert. destruct (kcmp k' k) eqn:E; try apply vle_refl.
  apply kcmp_eq_iff in E. subst k'. apply judge_write in J. unfold version_of.
  destruct (lookup k s) as [[v0 x0]|]; cbn [option_map fst vle]; auto. lia.
Qed.
Lemma m_pwv_sorted s k ver val : ksorted s -> ksorted (fst (m_pwv s k ver val)).
Proof.
  intros H. unfold m_pwv. destruct (judge (lookup k s) ver val); cbn [fst]; auto.
  apply upsert_sorted; auto.
Qed.
(** an accepted write is what the key holds afterwards, other keys are untouched;
    a refused one changes nothing *)
Lemma m_pwv_ok s k ver val s' :
  m_pwv s k ver val = (s', ROk) ->
  lookup k s' = Some (ver, val) /\ forall k', k' <> k -> lookup k' s' = lookup k' s.
Proof.
  unfold m_pwv. destruct (judge (lookup k s) ver val) eqn:J; intros E; inversion E; subst.
  - split; [apply lookup_upsert_same|]. intros. apply lookup_upsert_other; auto.
  - split; [apply judge_same in J; auto|auto].
Qed.
Lemma m_pwv_not_ok s k ver val s' r : m_pwv s k ver val = (s', r) -> r <> ROk -> s' = s.
Proof.
  unfold m_pwv. destruct (judge (lookup k s) ver val); intros E; inversion E; subst; congruence.
Qed.
Lemma m_pwv_never_aborts s k ver val : snd (m_pwv s k ver val) <> RAbort.
Proof. unfold m_pwv. destruct (judge (lookup k s) ver val); cbn [snd]; discriminate. Qed.

(** ** put / delete *)
Lemma m_put_mono p s k val k' :
  vle (version_of s k') (version_of (fst (m_put p s k val)) k').
Proof.
  unfold m_put. destruct (next_version p (version_of s k)); [apply m_pwv_mono|apply vle_refl].
Qed.
Lemma m_put_sorted p s k val : ksorted s -> ksorted (fst (m_put p s k val)).
Proof.
  intros H. unfold m_put. destruct (next_version p (version_of s k)); cbn [fst]; auto.
  apply m_pwv_sorted; auto.
Qed.
Lemma m_put_ok p s k val s' :
  m_put p s k val = (s', ROk) ->
  (exists ver, lookup k s' = Some (ver, val)) /\ forall k', k' <> k -> lookup k' s' = lookup k' s.
Proof.
  unfold m_put. destruct (next_version p (version_of s k)) as [v|]; [|discriminate].
  intros E. apply m_pwv_ok in E. destruct E as [A B]. split; eauto.
Qed.
Lemma m_put_not_ok p s k val s' r : m_put p s k val = (s', r) -> r <> ROk -> s' = s.
Proof.
  unfold m_put. destruct (next_version p (version_of s k)) as [v|].
  - apply m_pwv_not_ok.
  - intros E. inversion E. auto.
Qed.
(** in a debug build an accepted put raises the version by exactly one (or starts at 0) *)
Lemma m_put_version s k val s' :
  m_put Debug s k val = (s', ROk) ->
  version_of s' k = match version_of s k with None => Some 0 | Some v => Some (v + 1) end.
Proof.
  unfold m_put, next_version, add_p. destruct (version_of s k) as [v|] eqn:V.
  - destruct (v + 1 <=? U64MAX); [|discriminate]. intros E. apply m_pwv_ok in E.
    unfold version_of. destruct E as [-> _]. reflexivity.
  - intros E. apply m_pwv_ok in E. unfold version_of. destruct E as [-> _]. reflexivity.
Qed.

(** ** put_batch *)
Fixpoint last_entry (k : key) (l : list kvv) : option vv :=
  match l with
  | [] => None
  | (k', e) :: r =>
      match last_entry k r with
      | Some x => Some x
      | None => match kcmp k k' with Eq => Some e | _ => None end
      end
  end.

Lemma batch_go_mono l : forall s s' k',
  batch_go s l = Some s' -> vle (version_of s k') (version_of s' k').
Proof.
  induction l as [|[k [ver val]] r IH]; intros s s' k'; cbn [batch_go].
  - intros E. inversion E. apply vle_refl.
  - pose proof (m_pwv_mono s k ver val k') as M. unfold m_pwv in M.
    destruct (judge (lookup k s) ver val); cbn [fst] in M; try discriminate; intros E.
    + eapply vle_trans; [exact M|]. eapply IH; eauto.
    + eapply IH; eauto.
Qed.
Lemma batch_go_sorted l : forall s s', ksorted s -> batch_go s l = Some s' -> ksorted s'.
Proof.
  induction l as [|[k [ver val]] r IH]; intros s s' S; cbn [batch_go].
  - intros E. inversion E. subst. auto.
  - destruct (judge (lookup k s) ver val); try discriminate; intros E.
    + eapply IH; [|exact E]. apply upsert_sorted; auto.
    + eapply IH; eauto.
Qed.
(** applied entirely: afterwards every key of the batch holds its last entry, every other key
    what it held before *)
Lemma batch_go_spec l : forall s s' k,
  batch_go s l = Some s' ->
  lookup k s' = match last_entry k l with Some e => Some e | None => lookup k s end.
Proof.
  induction l as [|[k0 [ver val]] r IH]; intros s s' k; cbn [batch_go last_entry].
  - intros E. inversion E. reflexivity.
  - destruct (judge (lookup k0 s) ver val) eqn:J; try discriminate; intros E.
    + rewrite (IH _ _ k E). destruct (last_entry k r); auto.
      rewrite lookup_upsert. destruct (kcmp k k0); auto.
    + rewrite (IH _ _ k E). destruct (last_entry k r); auto.
      destruct (kcmp k k0) eqn:C; auto. apply kcmp_eq_iff in C. subst.
      apply judge_same in J. auto.
Qed.
Lemma batch_go_app l1 : forall s l2,
  batch_go s (l1 ++ l2) = match batch_go s l1 with Some s1 => batch_go s1 l2 | None => None end.
Proof.
  induction l1 as [|[k [ver val]] r IH]; intros s l2; cbn [batch_go app]; auto.
  destruct (judge (lookup k s) ver val); auto.
Qed.

Lemma m_batch_atomic s l s' r :
  m_batch s l = (s', r) ->
  (r = RErr /\ s' = s) \/ (r = ROk /\ batch_go s l = Some s').
Proof.
  unfold m_batch. destruct (batch_go s l) as [s1|]; intros E; inversion E; subst; auto.
Qed.
Lemma m_batch_mono s l k' : vle (version_of s k') (version_of (fst (m_batch s l)) k').
Proof.
  unfold m_batch. destruct (batch_go s l) as [s1|] eqn:E; cbn [fst]; [|apply vle_refl].
  eapply batch_go_mono; eauto.
Qed.
Lemma m_batch_sorted s l : ksorted s -> ksorted (fst (m_batch s l)).
Proof.
  intros S. unfold m_batch. destruct (batch_go s l) as [s1|] eqn:E; cbn [fst]; auto.
  eapply batch_go_sorted; eauto.
Qed.

(** ** one request *)
Lemma m_step_mono p s o k : vle (version_of s k) (version_of (fst (m_step p s o)) k).
Proof.
  destruct o; cbn [m_step]; try apply vle_refl.
  - pose proof (m_put_mono p s k0 v k). destruct (m_put p s k0 v); auto.
  - pose proof (m_pwv_mono s k0 ver v k). destruct (m_pwv s k0 ver v); auto.
  - pose proof (m_batch_mono s l k). destruct (m_batch s l); auto.
  - pose proof (m_put_mono p s k0 [] k). destruct (m_put p s k0 []); auto.
  - pose proof (m_batch_mono s l k). destruct (m_batch s l); auto.
Qed.
Lemma m_step_sorted p s o : ksorted s -> ksorted (fst (m_step p s o)).
Proof.
  intros S. destruct o; cbn [m_step]; auto.
  - pose proof (m_put_sorted p s k v S). destruct (m_put p s k v); auto.
  - pose proof (m_pwv_sorted s k ver v S). destruct (m_pwv s k ver v); auto.
  - pose proof (m_batch_sorted s l S). destruct (m_batch s l); auto.
  - pose proof (m_put_sorted p s k [] S). destruct (m_put p s k [] ); auto.
  - pose proof (m_batch_sorted s l S). destruct (m_batch s l); auto.
Qed.

Definition m_from (p : profile) (s : store) (ops : list op) : store :=
  fold_left (fun s o => fst (m_step p s o)) ops s.
Lemma m_run_app p pre post : m_run p (pre ++ post) = m_from p (m_run p pre) post.
Proof. unfold m_run, m_from. apply fold_left_app. Qed.
Lemma m_from_mono p ops : forall s k, vle (version_of s k) (version_of (m_from p s ops) k).
Proof.
  induction ops as [|o r IH]; intros s k; cbn [m_from fold_left].
  - apply vle_refl.
  - eapply vle_trans; [apply (m_step_mono p s o k)|apply IH].
Qed.
Lemma m_from_sorted p ops : forall s, ksorted s -> ksorted (m_from p s ops).
Proof.
  induction ops as [|o r IH]; intros s S; cbn [m_from fold_left]; auto.
  apply IH. apply m_step_sorted; auto.
Qed.
Lemma m_run_sorted p ops : ksorted (m_run p ops).
Proof. apply (m_from_sorted p ops []). exact I. Qed.

Theorem m_version_monotone p pre post k :
  vle (version_of (m_run p pre) k) (version_of (m_run p (pre ++ post)) k).
Proof. rewrite m_run_app. apply m_from_mono. Qed.

(* ------------------------------------------------------------------ *)
(** * reads return the last accepted write *)
(** the writes a request makes when it is answered Ok(()): key, explicit version if the request
    names one, value *)
Definition write : Type := key * option N * value.
Definition accepted_writes (o : op) (x : obs) : list write :=
  match x with
  | OUnit =>
      match o with
      | Put k v => [(k, None, v)]
      | Delete k => [(k, None, [])]
      | PutV k ver v => [(k, Some ver, v)]
      | Batch l | Unlogged l => map (fun e => (fst e, Some (fst (snd e)), snd (snd e))) l
      | _ => []
      end
  | _ => []
  end.
Fixpoint last_write (k : key) (ws : list write) : option (option N * value) :=
  match ws with
  | [] => None
  | (k', ov, val) :: r =>
      match last_write k r with
      | Some x => Some x
      | None => match kcmp k k' with Eq => Some (ov, val) | _ => None end
      end
  end.
Lemma last_write_app k ws1 ws2 :
  last_write k (ws1 ++ ws2) =
  match last_write k ws2 with Some x => Some x | None => last_write k ws1 end.
Proof.
  induction ws1 as [|[[k' ov] val] r IH]; cbn [app last_write].
  - destruct (last_write k ws2); reflexivity.
  - rewrite IH. destruct (last_write k ws2); reflexivity.
Qed.

(** what a read of [k] must return given the last accepted write to [k] *)
Definition agrees (cur : option vv) (w : option (option N * value)) : Prop :=
  match w with
  | None => cur = None
  | Some (ov, val) =>
      exists ver, cur = Some (ver, val) /\ match ov with Some v => ver = v | None => True end
  end.
Definition later (w0 w1 : option (option N * value)) := match w1 with Some x => Some x | None => w0 end.

Lemma last_write_batch k l :
  last_write k (map (fun e : kvv => (fst e, Some (fst (snd e)), snd (snd e))) l) =
  option_map (fun e : vv => (Some (fst e), snd e)) (last_entry k l).
Proof.
  induction l as [|[k' [ver val]] r IH]; cbn [map last_write last_entry fst snd option_map]; auto.
  rewrite IH. destruct (last_entry k r); cbn [option_map]; auto.
  destruct (kcmp k k'); reflexivity.
Qed.

Lemma m_step_agrees p s o k w0 :
  agrees (lookup k s) w0 ->
  agrees (lookup k (fst (m_step p s o)))
         (later w0 (last_write k (accepted_writes o (snd (m_step p s o))))).
Proof.
  intros A. destruct o; cbn [m_step]; try exact A.
  - (* put *)
    destruct (m_put p s k0 v) as [s' r] eqn:E. cbn [fst snd]. destruct r; cbn [obs_of_res accepted_writes last_write later].
    + apply m_put_ok in E. destruct E as [[ver Hk] Ho].
      destruct (kcmp k k0) eqn:C; cbn [later].
      * apply kcmp_eq_iff in C. subst. exists ver. auto.
      * rewrite Ho; auto. intros ->. rewrite kcmp_refl in C. discriminate.
      * rewrite Ho; auto. intros ->. rewrite kcmp_refl in C. discriminate.
    + apply m_put_not_ok in E; [subst; exact A|discriminate].
    + apply m_put_not_ok in E; [subst; exact A|discriminate].
  - (* put_with_version *)
    destruct (m_pwv s k0 ver v) as [s' r] eqn:E. cbn [fst snd]. destruct r; cbn [obs_of_res accepted_writes last_write later].
    + apply m_pwv_ok in E. destruct E as [Hk Ho].
      destruct (kcmp k k0) eqn:C; cbn [later].
      * apply kcmp_eq_iff in C. subst. exists ver. auto.
      * rewrite Ho; auto. intros ->. rewrite kcmp_refl in C. discriminate.
      * rewrite Ho; auto. intros ->. rewrite kcmp_refl in C. discriminate.
    + apply m_pwv_not_ok in E; [subst; exact A|discriminate].
    + apply m_pwv_not_ok in E; [subst; exact A|discriminate].
  - (* put_batch *)
    destruct (m_batch s l) as [s' r] eqn:E. cbn [fst snd].
    apply m_batch_atomic in E. destruct E as [[-> ->]|[-> G]]; cbn [obs_of_res accepted_writes last_write later].
    + exact A.
    + rewrite last_write_batch, (batch_go_spec l _ _ k G).
      destruct (last_entry k l) as [[ver val]|]; cbn [option_map later fst snd]; auto.
      exists ver. auto.
  - (* delete *)
    destruct (m_put p s k0 []) as [s' r] eqn:E. cbn [fst snd]. destruct r; cbn [obs_of_res accepted_writes last_write later].
    + apply m_put_ok in E. destruct E as [[ver Hk] Ho].
      destruct (kcmp k k0) eqn:C; cbn [later].
      * apply kcmp_eq_iff in C. subst. exists ver. auto.
      * rewrite Ho; auto. intros ->. rewrite kcmp_refl in C. discriminate.
      * rewrite Ho; auto. intros ->. rewrite kcmp_refl in C. discriminate.
    + apply m_put_not_ok in E; [subst; exact A|discriminate].
    + apply m_put_not_ok in E; [subst; exact A|discriminate].
  - (* put_batch_unlogged *)
    destruct (m_batch s l) as [s' r] eqn:E. cbn [fst snd].
    apply m_batch_atomic in E. destruct E as [[-> ->]|[-> G]]; cbn [obs_of_res accepted_writes last_write later].
    + exact A.
    + rewrite last_write_batch, (batch_go_spec l _ _ k G).
      destruct (last_entry k l) as [[ver val]|]; cbn [option_map later fst snd]; auto.
      exists ver. auto.
Qed.

(** all accepted writes of a history, oldest first *)
Fixpoint m_writes (p : profile) (s : store) (ops : list op) : list write :=
  match ops with
  | [] => []
  | o :: r => let '(s', x) := m_step p s o in accepted_writes o x ++ m_writes p s' r
  end.

Lemma later_assoc w0 w1 w2 : later (later w0 w1) w2 = later w0 (later w1 w2).
Proof. destruct w2; reflexivity. Qed.

Lemma m_from_agrees p ops : forall s k w0,
  agrees (lookup k s) w0 ->
  agrees (lookup k (m_from p s ops)) (later w0 (last_write k (m_writes p s ops))).
Proof.
  induction ops as [|o r IH]; intros s k w0 A; cbn [m_from fold_left m_writes last_write later].
  - exact A.
  - pose proof (m_step_agrees p s o k w0 A) as B. destruct (m_step p s o) as [s' x] eqn:E.
    cbn [fst snd] in *. rewrite last_write_app.
    specialize (IH s' k _ B). unfold m_from in IH.
    destruct (last_write k (m_writes p s' r)); cbn [later] in *; auto.
Qed.

Theorem m_get_last_accepted p ops k :
  agrees (lookup k (m_run p ops)) (last_write k (m_writes p [] ops)).
Proof.
  pose proof (m_from_agrees p ops [] k None eq_refl) as H.
  unfold m_run. unfold m_from in H.
  assert (L : forall w, later None w = w) by (intros [x|]; reflexivity).
  rewrite L in H. exact H.
Qed.

(* ------------------------------------------------------------------ *)
(** * the disk store: the cache is the versions of the table, in every state *)
Definition dinv (d : disk) : Prop := cache d = versions_of (table d).

Definition dverdict_of (v : verdict) : dverdict :=
  match v with Write => DWrite | Same => DSame | RefuseLt => DRefuseLt | RefuseEq => DRefuseEq end.
Lemma d_judge_judge t k ver val :
  d_judge (lookup k (versions_of t)) (lookup k t) ver val = dverdict_of (judge (lookup k t) ver val).
Proof.
  rewrite lookup_versions_of. unfold version_of.
  destruct (lookup k t) as [[v0 val0]|]; cbn [option_map fst d_judge judge dverdict_of]; auto.
  destruct (ver <? v0); cbn [dverdict_of]; auto.
  destruct (ver =? v0) eqn:E; cbn [dverdict_of]; auto.
  unfold vv_eqb. cbn [fst snd]. rewrite N.eqb_sym, E. cbn [andb].
  destruct (val_eqb val0 val); reflexivity.
Qed.

Definition lift (s : store) : disk := mkdisk s (versions_of s) false.
Lemma lift_eta d : dinv d -> vpoison d = false -> d = lift (table d).
Proof. destruct d as [t c b]. unfold dinv, lift. cbn. intros -> ->. reflexivity. Qed.

Lemma d_pwv_sim t k ver val :
  d_pwv (lift t) k ver val = (lift (fst (m_pwv t k ver val)), snd (m_pwv t k ver val)).
Proof.
  unfold d_pwv, m_pwv, lift. cbn [vpoison cache table]. rewrite d_judge_judge.
  destruct (judge (lookup k t) ver val); cbn [dverdict_of fst snd]; auto.
  rewrite versions_of_upsert. reflexivity.
Qed.

Lemma d_put_sim p t k val :
  let '(s', r) := m_put p t k val in
  let '(d', r') := d_put p (lift t) k val in
  r' = r /\ table d' = s' /\ dinv d' /\ (r <> RAbort -> d' = lift s').
Proof.
  unfold m_put, d_put. cbn [lift vpoison cache]. rewrite lookup_versions_of.
  destruct (next_version p (version_of t k)) as [v|].
  - fold (lift t). rewrite d_pwv_sim. destruct (m_pwv t k v val) as [s' r]. cbn [fst snd].
    repeat split; auto.
  - cbn. repeat split; auto. congruence.
Qed.

Lemma d_batch_go_sim l : forall t bad,
  exists t' b',
    d_batch_go t (versions_of t) bad l = Some (t', versions_of t', b') /\
    (bad = true -> b' = true) /\
    (bad = false -> match batch_go t l with Some s' => b' = false /\ t' = s' | None => b' = true end).
Proof.
  induction l as [|[k [ver val]] r IH]; intros t bad; cbn [d_batch_go batch_go].
  - exists t, bad. repeat split; auto.
  - rewrite d_judge_judge. destruct (judge (lookup k t) ver val); cbn [dverdict_of].
    + rewrite <- (versions_of_upsert k ver val t). apply IH.
    + apply IH.
    + rewrite <- (versions_of_upsert k ver val t).
      destruct (IH (upsert k (ver, val) t) true) as (t' & b' & E & A & _).
      exists t', b'. repeat split; auto.
    + destruct (IH t true) as (t' & b' & E & A & _).
      exists t', b'. repeat split; auto.
Qed.

Lemma d_batch_sim t l :
  d_batch (lift t) l = (lift (fst (m_batch t l)), snd (m_batch t l)).
Proof.
  unfold d_batch, m_batch. cbn [lift vpoison table cache].
  destruct (d_batch_go_sim l t false) as (t' & b' & E & _ & B). rewrite E.
  specialize (B eq_refl). destruct (batch_go t l) as [s'|].
  - destruct B as [-> ->]. reflexivity.
  - subst b'. reflexivity.
Qed.

(** one request on a healthy disk store answers exactly as the memory store does on the
    table, and leaves the table equal to the memory store's next state *)
Lemma d_step_sim p t o :
  let '(s', x) := m_step p t o in
  let '(d', y) := d_step p (lift t) o in
  y = x /\ table d' = s' /\ dinv d' /\ (x <> OAbort -> d' = lift s').
Proof.
  destruct o; cbn [m_step d_step].
  - pose proof (d_put_sim p t k v) as H. destruct (m_put p t k v) as [s' r].
    destruct (d_put p (lift t) k v) as [d' r']. destruct H as (-> & A & B & C).
    repeat split; auto. intros N. apply C. intros ->. apply N. reflexivity.
  - rewrite d_pwv_sim. destruct (m_pwv t k ver v) as [s' r]. cbn [fst snd]. repeat split; auto.
  - rewrite d_batch_sim. destruct (m_batch t l) as [s' r]. cbn [fst snd]. repeat split; auto.
  - pose proof (d_put_sim p t k []) as H. destruct (m_put p t k []) as [s' r].
    destruct (d_put p (lift t) k []) as [d' r']. destruct H as (-> & A & B & C).
    repeat split; auto. intros N. apply C. intros ->. apply N. reflexivity.
  - cbn. repeat split; auto.
  - cbn [lift vpoison cache]. rewrite lookup_versions_of. repeat split; auto.
  - cbn. repeat split; auto.
  - cbn. repeat split; auto.
  - cbn. repeat split; auto.
  - cbn. repeat split; auto.
  - cbn. repeat split; auto.
  - rewrite d_batch_sim. destruct (m_batch t l) as [s' r]. cbn [fst snd]. repeat split; auto.
Qed.

(** the invariant, and the fate of the table, from ANY state satisfying the invariant
    (also with a poisoned cache mutex): a request either acts on the table as the memory
    store would, or panics and changes nothing *)
Lemma d_step_any p d o :
  dinv d ->
  let '(d', y) := d_step p d o in
  dinv d' /\
  ((table d' = fst (m_step p (table d) o) /\ y = snd (m_step p (table d) o)) \/
   (table d' = table d /\ y = OAbort)).
Proof.
  intros I. destruct (vpoison d) eqn:P.
  - (* poisoned: reads of the table still work, everything that locks the cache panics *)
    destruct o; cbn [d_step m_step]; unfold d_put, d_pwv, d_batch; rewrite ?P; cbn [obs_of_res fst snd];
      try (split; [exact I|right; split; reflexivity]);
      try (split; [exact I|left; split; reflexivity]).
    split; [reflexivity|left; split; reflexivity].
  - pose proof (d_step_sim p (table d) o) as H. rewrite <- (lift_eta d I P) in H.
    destruct (m_step p (table d) o) as [s' x]. cbn [fst snd].
    destruct (d_step p d o) as [d' y]. destruct H as (-> & A & B & _).
    split; auto.
Qed.

Definition d_from (p : profile) (d : disk) (ops : list op) : disk :=
  fold_left (fun d o => fst (d_step p d o)) ops d.
Lemma d_run_app p pre post : d_run p (pre ++ post) = d_from p (d_run p pre) post.
Proof. unfold d_run, d_from. apply fold_left_app. Qed.
Lemma d_from_inv p ops : forall d, dinv d -> dinv (d_from p d ops).
Proof.
  induction ops as [|o r IH]; intros d I; cbn [d_from fold_left]; auto.
  apply IH. pose proof (d_step_any p d o I) as H. destruct (d_step p d o). tauto.
Qed.
Lemma d_run_inv p ops : dinv (d_run p ops).
Proof. apply (d_from_inv p ops d_init). reflexivity. Qed.

Lemma d_step_mono p d o k :
  dinv d -> vle (version_of (table d) k) (version_of (table (fst (d_step p d o))) k).
Proof.
  intros I. pose proof (d_step_any p d o I) as H. destruct (d_step p d o) as [d' y].
  cbn [fst]. destruct H as (_ & [[-> _]|[-> _]]); [apply m_step_mono|apply vle_refl].
Qed.
Lemma d_step_sorted p d o :
  dinv d -> ksorted (table d) -> ksorted (table (fst (d_step p d o))).
Proof.
  intros I S. pose proof (d_step_any p d o I) as H. destruct (d_step p d o) as [d' y].
  cbn [fst]. destruct H as (_ & [[-> _]|[-> _]]); [apply m_step_sorted|]; auto.
Qed.
Lemma d_from_mono p ops : forall d k,
  dinv d -> vle (version_of (table d) k) (version_of (table (d_from p d ops)) k).
Proof.
  induction ops as [|o r IH]; intros d k I; cbn [d_from fold_left].
  - apply vle_refl.
  - eapply vle_trans; [apply (d_step_mono p d o k I)|]. apply IH.
    pose proof (d_step_any p d o I) as H. destruct (d_step p d o). tauto.
Qed.
Theorem d_version_monotone p pre post k :
  vle (version_of (table (d_run p pre)) k) (version_of (table (d_run p (pre ++ post))) k).
Proof. rewrite d_run_app. apply d_from_mono. apply d_run_inv. Qed.
(** ... and [get_version], which reads the cache, says the same as the table *)
Theorem d_cache_is_table p ops k :
  lookup k (cache (d_run p ops)) = version_of (table (d_run p ops)) k.
Proof. rewrite (d_run_inv p ops). apply lookup_versions_of. Qed.
Lemma d_from_sorted p ops : forall d, dinv d -> ksorted (table d) -> ksorted (table (d_from p d ops)).
Proof.
  induction ops as [|o r IH]; intros d I S; cbn [d_from fold_left]; auto.
  apply IH.
  - pose proof (d_step_any p d o I) as H. destruct (d_step p d o). tauto.
  - apply d_step_sorted; auto.
Qed.
Lemma d_run_sorted p ops : ksorted (table (d_run p ops)).
Proof. apply (d_from_sorted p ops d_init); [reflexivity|exact I]. Qed.

(** * reopening *)
Theorem d_reopen_id p ops :
  let d := d_run p ops in
  table (d_reopen d) = table d /\ cache (d_reopen d) = cache d /\
  (vpoison d = false -> d_reopen d = d).
Proof.
  cbn zeta. pose proof (d_run_inv p ops) as I. unfold d_reopen. cbn [table cache].
  repeat split; auto. intros P. rewrite (lift_eta _ I P) at 3. reflexivity.
Qed.

(** * refinement: the disk store answers as the memory store, request by request, up to the
    first panic (none in a release build) *)
Fixpoint cut (l : list obs) : list obs :=
  match l with
  | [] => []
  | OAbort :: _ => [OAbort]
  | x :: r => x :: cut r
  end.

Lemma d_trace_sim p ops : forall t,
  cut (d_trace p (lift t) ops) = cut (m_trace p t ops) /\
  (~ In OAbort (m_trace p t ops) ->
   d_trace p (lift t) ops = m_trace p t ops /\ d_from p (lift t) ops = lift (m_from p t ops)).
Proof.
  induction ops as [|o r IH]; intros t; cbn [d_trace m_trace d_from m_from fold_left].
  - split; auto.
  - pose proof (d_step_sim p t o) as H. destruct (m_step p t o) as [s' x].
    destruct (d_step p (lift t) o) as [d' y]. destruct H as (-> & A & B & C). cbn [fst].
    destruct (IH s') as [IH1 IH2]. split.
    + destruct x; cbn [cut]; auto; rewrite C by discriminate; rewrite IH1; reflexivity.
    + cbn [In]. intros N. assert (x <> OAbort) as Nx by (intros ->; apply N; auto).
      rewrite C by exact Nx. destruct IH2 as [E1 E2]; [tauto|]. rewrite E1.
      split; [reflexivity|exact E2].
Qed.

Theorem disk_refines_mem p ops :
  cut (d_trace p d_init ops) = cut (m_trace p [] ops) /\
  (~ In OAbort (m_trace p [] ops) ->
   d_trace p d_init ops = m_trace p [] ops /\
   table (d_run p ops) = m_run p ops /\ cache (d_run p ops) = versions_of (m_run p ops) /\
   vpoison (d_run p ops) = false).
Proof.
  destruct (d_trace_sim p ops []) as [A B]. split; [exact A|].
  intros N. destruct (B N) as [E1 E2]. split; [exact E1|].
  unfold d_run, m_run. unfold d_from, m_from in E2. change d_init with (lift []).
  rewrite E2. cbn. auto.
Qed.

(** a release build never panics in the memory store *)
Lemma m_step_release s o : snd (m_step Release s o) <> OAbort.
Proof.
  destruct o; cbn [m_step snd]; try discriminate.
  - unfold m_put, next_version, add_p. destruct (version_of s k);
      pose proof (m_pwv_never_aborts s k) as H;
      match goal with |- context [m_pwv s k ?v ?x] => specialize (H v x); destruct (m_pwv s k v x) as [s' r] end;
      cbn [snd] in *; destruct r; cbn; congruence.
  - pose proof (m_pwv_never_aborts s k ver v) as H. destruct (m_pwv s k ver v) as [s' r].
    cbn [snd] in *; destruct r; cbn; congruence.
  - unfold m_batch. destruct (batch_go s l); cbn; discriminate.
  - unfold m_put, next_version, add_p. destruct (version_of s k);
      pose proof (m_pwv_never_aborts s k) as H;
      match goal with |- context [m_pwv s k ?v ?x] => specialize (H v x); destruct (m_pwv s k v x) as [s' r] end;
      cbn [snd] in *; destruct r; cbn; congruence.
  - unfold m_batch. destruct (batch_go s l); cbn; discriminate.
Qed.
Lemma m_trace_release ops : forall s, ~ In OAbort (m_trace Release s ops).
Proof.
  induction ops as [|o r IH]; intros s; cbn [m_trace]; auto.
  pose proof (m_step_release s o) as H. destruct (m_step Release s o) as [s' x]. cbn [snd In] in *.
  intros [E|E]; [congruence|]. eapply IH; eauto.
Qed.

(* ------------------------------------------------------------------ *)
(** * the per-request rules, for both plain backends *)

(** a write at the current version with different content is refused - memory *)
Theorem m_same_version_other_content (s : store) k ver val0 val :
  lookup k s = Some (ver, val0) -> val0 <> val -> m_pwv s k ver val = (s, RErr).
Proof. intros L N. unfold m_pwv. rewrite L, (judge_other_content ver val0 val N). reflexivity. Qed.
Theorem m_lower_version (s : store) k v0 val0 ver val :
  lookup k s = Some (v0, val0) -> ver < v0 -> m_pwv s k ver val = (s, RErr).
Proof. intros L N. unfold m_pwv. rewrite L, (judge_lower v0 val0 ver val N). reflexivity. Qed.
(** ... also as an entry of a batch, against the store as the earlier entries leave it *)
Theorem m_batch_same_version_other_content (s : store) l1 (s1 : store) k ver val0 val l2 :
  batch_go s l1 = Some s1 -> lookup k s1 = Some (ver, val0) -> val0 <> val ->
  m_batch s (l1 ++ (k, (ver, val)) :: l2) = (s, RErr).
Proof.
  intros G L N. unfold m_batch. rewrite batch_go_app, G. cbn [batch_go].
  rewrite L, (judge_other_content ver val0 val N). reflexivity.
Qed.
Theorem m_batch_lower_version (s : store) l1 (s1 : store) k v0 val0 ver val l2 :
  batch_go s l1 = Some s1 -> lookup k s1 = Some (v0, val0) -> ver < v0 ->
  m_batch s (l1 ++ (k, (ver, val)) :: l2) = (s, RErr).
Proof.
  intros G L N. unfold m_batch. rewrite batch_go_app, G. cbn [batch_go].
  rewrite L, (judge_lower v0 val0 ver val N). reflexivity.
Qed.

(** the same on disk, in every state that satisfies the invariant (so: every reachable one) *)
Theorem d_same_version_other_content d k ver val0 val :
  dinv d -> lookup k (table d) = Some (ver, val0) -> val0 <> val ->
  fst (d_pwv d k ver val) = d /\ snd (d_pwv d k ver val) <> ROk.
Proof.
  intros I L N. unfold d_pwv. destruct (vpoison d); [split; [reflexivity|discriminate]|].
  rewrite I, d_judge_judge, L, (judge_other_content ver val0 val N). cbn. split; [reflexivity|discriminate].
Qed.
Theorem d_lower_version d k v0 val0 ver val :
  dinv d -> lookup k (table d) = Some (v0, val0) -> ver < v0 ->
  fst (d_pwv d k ver val) = d /\ snd (d_pwv d k ver val) <> ROk.
Proof.
  intros I L N. unfold d_pwv. destruct (vpoison d); [split; [reflexivity|discriminate]|].
  rewrite I, d_judge_judge, L, (judge_lower v0 val0 ver val N). cbn. split; [reflexivity|discriminate].
Qed.

(** batches apply entirely or not at all - disk: table and cache move together *)
Theorem d_batch_atomic d l :
  dinv d ->
  let '(d', r) := d_batch d l in
  (r = ROk /\ batch_go (table d) l = Some (table d') /\ cache d' = versions_of (table d')) \/
  (r <> ROk /\ table d' = table d /\ cache d' = cache d).
Proof.
  intros I. destruct (vpoison d) eqn:P.
  - unfold d_batch. rewrite P. right. repeat split. discriminate.
  - pose proof (d_batch_sim (table d) l) as H. rewrite <- (lift_eta d I P) in H.
    rewrite H. unfold m_batch.
    destruct (batch_go (table d) l) as [s'|] eqn:G; cbn [fst snd lift table cache].
    + left. auto.
    + right. repeat split; auto. discriminate.
Qed.
Theorem d_batch_same_version_other_content d l1 (s1 : store) k ver val0 val l2 :
  dinv d -> batch_go (table d) l1 = Some s1 -> lookup k s1 = Some (ver, val0) -> val0 <> val ->
  let '(d', r) := d_batch d (l1 ++ (k, (ver, val)) :: l2) in
  r <> ROk /\ table d' = table d /\ cache d' = cache d.
Proof.
  intros I G L N. pose proof (d_batch_atomic d (l1 ++ (k, (ver, val)) :: l2) I) as H.
  destruct (d_batch d (l1 ++ (k, (ver, val)) :: l2)) as [d' r].
  destruct H as [(_ & B & _)|H]; auto.
  rewrite batch_go_app, G in B. cbn [batch_go] in B.
  rewrite L, (judge_other_content ver val0 val N) in B. discriminate.
Qed.

(** reads return the last accepted write - disk *)
Fixpoint d_writes (p : profile) (d : disk) (ops : list op) : list write :=
  match ops with
  | [] => []
  | o :: r => let '(d', x) := d_step p d o in accepted_writes o x ++ d_writes p d' r
  end.
Lemma accepted_writes_abort o : accepted_writes o OAbort = [].
Proof. reflexivity. Qed.
Lemma d_step_agrees p d o k w0 :
  dinv d ->
  agrees (lookup k (table d)) w0 ->
  agrees (lookup k (table (fst (d_step p d o))))
         (later w0 (last_write k (accepted_writes o (snd (d_step p d o))))).
Proof.
  intros I A. pose proof (d_step_any p d o I) as H. destruct (d_step p d o) as [d' y].
  cbn [fst snd]. destruct H as (_ & [[-> ->]|[-> ->]]).
  - apply m_step_agrees. exact A.
  - cbn [accepted_writes last_write later]. exact A.
Qed.
Lemma d_from_agrees p ops : forall d k w0,
  dinv d ->
  agrees (lookup k (table d)) w0 ->
  agrees (lookup k (table (d_from p d ops))) (later w0 (last_write k (d_writes p d ops))).
Proof.
  induction ops as [|o r IH]; intros d k w0 I A; cbn [d_from fold_left d_writes last_write later].
  - exact A.
  - pose proof (d_step_agrees p d o k w0 I A) as B. pose proof (d_step_any p d o I) as J.
    destruct (d_step p d o) as [d' x] eqn:E. cbn [fst snd] in *. rewrite last_write_app.
    destruct J as [J _]. specialize (IH d' k _ J B). unfold d_from in IH.
    destruct (last_write k (d_writes p d' r)); cbn [later] in *; auto.
Qed.
Theorem d_get_last_accepted p ops k :
  agrees (lookup k (table (d_run p ops))) (last_write k (d_writes p d_init ops)).
Proof.
  pose proof (d_from_agrees p ops d_init k None eq_refl eq_refl) as H.
  assert (L : forall w, later None w = w) by (intros [x|]; reflexivity).
  rewrite L in H. exact H.
Qed.

(* ------------------------------------------------------------------ *)
(** * the cloud-staged store *)

(** every staged entry is strictly ahead of the local store *)
Definition ahead_entry (s : store) (e : kvv) : Prop :=
  match lookup (fst e) s with None => True | Some (v0, _) => v0 < fst (snd e) end.
Definition ahead (s l : store) : Prop := Forall (ahead_entry s) l.
Definition cinv (c : cloud) : Prop :=
  match clog c with None => True | Some l => ksorted l /\ ahead (local c) l end.

(** [enter] computes the next last-writer version with a plain [+ 1]: a release build wraps at
    2^64-1 *)
Definition enter_ok (p : profile) (c : cloud) : Prop :=
  p = Debug \/ match version_of (local c) WRITER with Some v0 => v0 < U64MAX | None => True end.

Lemma judge_ahead (s : store) k ver val : ahead_entry s (k, (ver, val)) -> judge (lookup k s) ver val = Write.
Proof.
  unfold ahead_entry. cbn [fst snd]. destruct (lookup k s) as [[v0 x0]|]; cbn [judge]; auto.
  intros H. destruct (ver <? v0) eqn:A; [lia|]. destruct (ver =? v0) eqn:B; [lia|]. reflexivity.
Qed.
Lemma judge_write_ahead (s : store) k ver val : judge (lookup k s) ver val = Write -> ahead_entry s (k, (ver, val)).
Proof.
  intros J. apply judge_write in J. unfold ahead_entry. cbn [fst snd].
  destruct (lookup k s) as [[v0 x0]|]; auto.
Qed.

Lemma last_entry_sorted k (l : store) : ksorted l -> last_entry k l = lookup k l.
Proof.
  induction l as [|[k' e] r IH]; cbn [last_entry lookup ksorted]; auto.
  intros [A S]. rewrite (IH S). destruct (lookup k r) as [x|] eqn:L.
  - apply (lookup_In k x r S) in L. unfold keys_above in A. rewrite Forall_forall in A.
    apply A in L. cbn [fst] in L. rewrite (kcmp_lt_gt _ _ L). reflexivity.
  - destruct (kcmp k k'); reflexivity.
Qed.

(** committing a log that is sorted and ahead never fails and writes exactly the log *)
Lemma batch_go_ahead (l : store) : forall s : store,
  ksorted l -> ahead s l -> exists s', batch_go s l = Some s'.
Proof.
  induction l as [|[k [ver val]] r IH]; intros s S A; cbn [batch_go].
  - eauto.
  - destruct S as [Ab S]. inversion A as [|? ? A1 A2]; subst. rewrite (judge_ahead _ _ _ _ A1).
    apply IH; auto. unfold ahead in *. rewrite Forall_forall in *. intros e He.
    assert (fst e <> k) as Ne.
    { unfold keys_above in Ab. rewrite Forall_forall in Ab. specialize (Ab e He).
      intros Q. rewrite Q, kcmp_refl in Ab. discriminate. }
    specialize (A2 e He). unfold ahead_entry in *. rewrite lookup_upsert_other; auto.
Qed.
Lemma m_batch_ahead (s l : store) :
  ksorted l -> ahead s l ->
  exists s', m_batch s l = (s', ROk) /\
             forall k, lookup k s' = match lookup k l with Some e => Some e | None => lookup k s end.
Proof.
  intros S A. destruct (batch_go_ahead l s S A) as [s' G]. exists s'. unfold m_batch. rewrite G.
  split; auto. intros k. rewrite (batch_go_spec l _ _ k G), (last_entry_sorted k l S). reflexivity.
Qed.

(** ** put_with_version *)
Lemma c_pwv_local f c k ver val : local (fst (c_pwv_gen f c k ver val)) = local c.
Proof.
  unfold c_pwv_gen, with_log. destruct (cpoison c); auto. destruct (clog c) as [l|]; auto.
  destruct (f && staged_lower l k ver); auto.
  destruct (judge (lookup k (local c)) ver val); auto.
Qed.
Lemma c_pwv_inv c k ver val : cinv c -> cinv (fst (c_pwv c k ver val)).
Proof.
  intros I. unfold c_pwv, c_pwv_gen, with_log. destruct (cpoison c) eqn:P; auto.
  unfold cinv in *. destruct (clog c) as [l|] eqn:L; cbn [fst c_poison clog]; [|rewrite L; auto].
  destruct (true && staged_lower l k ver); cbn [fst]; [rewrite L; auto|].
  destruct (judge (lookup k (local c)) ver val) eqn:J; cbn [fst c_setlog clog local]; rewrite ?L; auto.
  destruct I as [S A]. split; [apply upsert_sorted; auto|].
  apply Forall_upsert; auto. apply judge_write_ahead. exact J.
Qed.

(** what a transaction sees: versions *)
Definition visv (c : cloud) (k : key) : option N := option_map fst (c_visible c k).

Lemma c_visible_poison c k : c_visible (c_poison c) k = c_visible c k.
Proof. reflexivity. Qed.

Lemma c_pwv_vis_mono c k ver val k' :
  vle (visv c k') (visv (fst (c_pwv c k ver val)) k').
Proof.
  unfold c_pwv, c_pwv_gen, with_log. destruct (cpoison c) eqn:P; [apply vle_refl|].
  destruct (clog c) as [l|] eqn:L; [|apply vle_refl]. cbn [andb].
  destruct (staged_lower l k ver) eqn:SL; [apply vle_refl|].
  destruct (judge (lookup k (local c)) ver val) eqn:J; cbn [fst]; try apply vle_refl.
  unfold visv, c_visible. cbn [c_setlog clog local]. rewrite L, lookup_upsert.
  destruct (kcmp k' k) eqn:E; [|apply vle_refl|apply vle_refl].
  apply kcmp_eq_iff in E. subst k'. unfold staged_lower in SL.
  destruct (lookup k l) as [[sv sx]|]; cbn [option_map fst vle].
  - apply N.ltb_ge in SL. exact SL.
  - apply judge_write in J. destruct (lookup k (local c)) as [[v0 x0]|]; cbn [option_map fst vle]; auto. lia.
Qed.

(** ** read your own writes *)
Definition healthy (c : cloud) : Prop := cpoison c = false /\ clog c <> None.
Lemma c_get_healthy c k : healthy c -> c_get c k = (c, OVal (c_visible c k)).
Proof.
  intros [P L]. unfold c_get, with_log, c_visible. rewrite P. destruct (clog c); [reflexivity|congruence].
Qed.
Lemma c_getv_healthy c k : healthy c -> c_getv c k = (c, OVer (visv c k)).
Proof.
  intros [P L]. unfold c_getv, with_log, visv, c_visible. rewrite P.
  destruct (clog c) as [l|]; [|congruence]. destruct (lookup k l); reflexivity.
Qed.

Lemma c_pwv_ok c k ver val c' :
  cinv c -> c_pwv c k ver val = (c', ROk) ->
  healthy c' /\ c_visible c' k = Some (ver, val) /\ local c' = local c /\
  forall k', k' <> k -> c_visible c' k' = c_visible c k'.
Proof.
  intros I. unfold c_pwv, c_pwv_gen, with_log. destruct (cpoison c) eqn:P; [discriminate|].
  destruct (clog c) as [l|] eqn:L; [|discriminate]. cbn [andb].
  destruct (staged_lower l k ver) eqn:SL; [discriminate|].
  destruct (judge (lookup k (local c)) ver val) eqn:J; intros E; inversion E; subst; clear E.
  - unfold healthy, c_visible. cbn [c_setlog cpoison clog local]. rewrite L.
    repeat split; auto; try discriminate.
    + rewrite lookup_upsert_same. reflexivity.
    + intros k' N. rewrite lookup_upsert_other; auto.
  - unfold healthy. rewrite P, L. repeat split; auto; try discriminate.
    apply judge_same in J. unfold c_visible. rewrite L.
    destruct (lookup k l) as [[sv sx]|] eqn:K; auto.
    (* a staged entry would be ahead of the local one, hence above [ver] *)
    exfalso. unfold cinv in I. rewrite L in I. destruct I as [S A].
    pose proof K as K0. apply (lookup_In k (sv, sx) l S) in K0.
    unfold ahead in A. rewrite Forall_forall in A. apply A in K0.
    unfold ahead_entry in K0. cbn [fst snd] in K0. rewrite J in K0.
    unfold staged_lower in SL. rewrite K in SL. apply N.ltb_ge in SL. lia.
Qed.

(* ------------------------------------------------------------------ *)
(** ** put / delete *)
Lemma c_put_local f p c k val : local (fst (c_put_gen f p c k val)) = local c.
Proof.
  unfold c_put_gen. destruct (next_version p (version_of (local c) k)); auto. apply c_pwv_local.
Qed.
Lemma c_put_inv p c k val : cinv c -> cinv (fst (c_put p c k val)).
Proof.
  intros I. unfold c_put, c_put_gen. destruct (next_version p (version_of (local c) k)); auto.
  apply c_pwv_inv; auto.
Qed.
Lemma c_put_vis_mono p c k val k' : vle (visv c k') (visv (fst (c_put p c k val)) k').
Proof.
  unfold c_put, c_put_gen. destruct (next_version p (version_of (local c) k)); [|apply vle_refl].
  apply c_pwv_vis_mono.
Qed.
Lemma c_put_ok p c k val c' :
  cinv c -> c_put p c k val = (c', ROk) ->
  healthy c' /\ (exists ver, c_visible c' k = Some (ver, val)) /\ local c' = local c.
Proof.
  intros I. unfold c_put, c_put_gen. destruct (next_version p (version_of (local c) k)) as [v|]; [|discriminate].
  intros E. apply c_pwv_ok in E; auto. destruct E as (H & V & L & _). eauto.
Qed.

(** ** put_batch *)
Lemma c_batch_local f l : forall c, local (fst (c_batch_gen f c l)) = local c.
Proof.
  induction l as [|[k [ver val]] r IH]; intros c; cbn [c_batch_gen]; auto.
  pose proof (c_pwv_local f c k ver val) as H. destruct (c_pwv_gen f c k ver val) as [c1 x].
  cbn [fst] in H. destruct x; cbn [fst]; auto; try (rewrite IH; exact H).
Qed.
Lemma c_batch_inv l : forall c, cinv c -> cinv (fst (c_batch c l)).
Proof.
  induction l as [|[k [ver val]] r IH]; intros c I; cbn [c_batch c_batch_gen]; auto.
  pose proof (c_pwv_inv c k ver val I) as H. unfold c_pwv in H.
  destruct (c_pwv_gen true c k ver val) as [c1 x]. cbn [fst] in H. destruct x; cbn [fst]; auto.
Qed.
Lemma c_batch_vis_mono l : forall c k', vle (visv c k') (visv (fst (c_batch c l)) k').
Proof.
  induction l as [|[k [ver val]] r IH]; intros c k'; cbn [c_batch c_batch_gen].
  - apply vle_refl.
  - pose proof (c_pwv_vis_mono c k ver val k') as H. unfold c_pwv in H.
    destruct (c_pwv_gen true c k ver val) as [c1 x]. cbn [fst] in H. destruct x; cbn [fst]; auto.
    eapply vle_trans; [exact H|apply IH].
Qed.
(** an entry for another key does not change what is seen of [k] *)
Lemma c_pwv_other c k ver val k' :
  k' <> k -> c_visible (fst (c_pwv c k ver val)) k' = c_visible c k'.
Proof.
  intros N. unfold c_pwv, c_pwv_gen, with_log. destruct (cpoison c); auto.
  destruct (clog c) as [l|] eqn:L; auto. destruct (true && staged_lower l k ver); auto.
  destruct (judge (lookup k (local c)) ver val); cbn [fst]; auto.
  unfold c_visible. cbn [c_setlog clog local]. rewrite L, lookup_upsert_other; auto.
Qed.
Lemma c_batch_other l : forall c k,
  last_entry k l = None -> c_visible (fst (c_batch c l)) k = c_visible c k.
Proof.
  induction l as [|[k0 [ver val]] r IH]; intros c k; cbn [c_batch c_batch_gen last_entry]; auto.
  destruct (last_entry k r) eqn:LE; [discriminate|]. destruct (kcmp k k0) eqn:C; [discriminate| |];
    intros _; (assert (k <> k0) as N by (intros ->; rewrite kcmp_refl in C; discriminate));
    pose proof (c_pwv_other c k0 ver val k N) as H; unfold c_pwv in H;
    destruct (c_pwv_gen true c k0 ver val) as [c1 x]; cbn [fst] in H; destruct x; cbn [fst]; auto;
    rewrite (IH c1 k LE); exact H.
Qed.
Lemma c_pwv_healthy f c k ver val c' : c_pwv_gen f c k ver val = (c', ROk) -> healthy c'.
Proof.
  unfold c_pwv_gen, with_log, healthy. destruct (cpoison c) eqn:P; [discriminate|].
  destruct (clog c) as [l|] eqn:L; [|discriminate].
  destruct (f && staged_lower l k ver); [discriminate|].
  destruct (judge (lookup k (local c)) ver val); intros E; inversion E; subst; cbn [c_setlog cpoison clog];
    rewrite ?P, ?L; split; auto; discriminate.
Qed.
Lemma c_batch_healthy f l : forall c c', healthy c -> c_batch_gen f c l = (c', ROk) -> healthy c'.
Proof.
  induction l as [|[k [ver val]] r IH]; intros c c' H; cbn [c_batch_gen].
  - intros E. inversion E. subst. exact H.
  - destruct (c_pwv_gen f c k ver val) as [c1 x] eqn:E1. destruct x; try discriminate.
    apply IH. eapply c_pwv_healthy; eauto.
Qed.
Lemma c_batch_ok l : forall c c',
  cinv c -> c_batch c l = (c', ROk) ->
  forall k e, last_entry k l = Some e -> healthy c' /\ c_visible c' k = Some e.
Proof.
  induction l as [|[k0 [ver val]] r IH]; intros c c' I; cbn [c_batch c_batch_gen last_entry].
  - intros _ k e. discriminate.
  - pose proof (c_pwv_inv c k0 ver val I) as I1. unfold c_pwv in I1.
    destruct (c_pwv_gen true c k0 ver val) as [c1 x] eqn:E1. cbn [fst] in I1.
    destruct x; try discriminate. intros E k e.
    pose proof (c_pwv_healthy _ _ _ _ _ _ E1) as H1.
    apply (c_pwv_ok c k0 ver val c1 I) in E1. destruct E1 as (_ & V1 & _ & _).
    destruct (last_entry k r) as [e'|] eqn:LE.
    + intros Q. inversion Q; subst. eapply IH; eauto.
    + destruct (kcmp k k0) eqn:C; try discriminate. intros Q. inversion Q; subst.
      apply kcmp_eq_iff in C. subst k0.
      pose proof (c_batch_other r c1 k LE) as O. unfold c_batch in *. rewrite E in O. cbn [fst] in O.
      split; [|rewrite O; exact V1]. eapply c_batch_healthy; eauto.
Qed.

(** ** enter, prepare, commit *)
Lemma c_enter_inv p sid c : cinv c -> enter_ok p c -> cinv (fst (c_enter p sid c)).
Proof.
  intros Hi EO. unfold enter_ok in EO. unfold c_enter. destruct (next_version p (version_of (local c) WRITER)) as [nv|] eqn:NV; auto.
  destruct (cpoison c); auto. destruct (clog c) as [l|] eqn:L; cbn [fst].
  - unfold cinv in *. cbn [c_poison clog]. rewrite L in *. exact Hi.
  - unfold cinv. cbn [c_setlog clog local ksorted]. split; [split; constructor|].
    constructor; [|constructor]. unfold ahead_entry. cbn [fst snd].
    unfold version_of, next_version in *. destruct (lookup WRITER (local c)) as [[v0 x0]|]; auto.
    cbn [option_map fst] in *. unfold add_p in NV. destruct p.
    + destruct (v0 + 1 <=? U64MAX); inversion NV. lia.
    + inversion NV. destruct EO as [EO|EO]; [discriminate|]. unfold add_wrap, two64, U64MAX in *.
      rewrite N.mod_small; lia.
Qed.
Lemma c_prepare_inv c : cinv c -> cinv (fst (c_prepare c)).
Proof.
  intros Hi. unfold c_prepare, with_log. destruct (cpoison c); auto.
  destruct (clog c) as [l|] eqn:L; [|unfold cinv; cbn; rewrite L; auto].
  destruct l as [|[k e] [|x r]]; cbn [fst]; auto.
  destruct (kcmp k WRITER); cbn [fst]; unfold cinv in *; cbn [c_poison c_setlog clog local];
    rewrite ?L in *; auto.
  split; constructor.
Qed.
Lemma c_commit_inv c : cinv c -> cinv (fst (c_commit c)).
Proof.
  intros Hi. unfold c_commit. destruct (cpoison c); auto.
  destruct (clog c) as [l|] eqn:L; cbn [fst].
  - destruct (m_batch (local c) l). exact Logic.I.
  - unfold cinv. cbn. rewrite L. exact Logic.I.
Qed.

(** commit in a state satisfying the invariant never fails and writes exactly the log *)
Lemma c_commit_ok c l :
  cinv c -> cpoison c = false -> clog c = Some l ->
  exists s', c_commit c = (mkcloud s' None false, ROk) /\
             forall k, lookup k s' = match lookup k l with Some e => Some e | None => lookup k (local c) end.
Proof.
  intros Hi P L. unfold cinv in Hi. rewrite L in Hi. destruct Hi as [S A].
  destruct (m_batch_ahead (local c) l S A) as (s' & E & Sp). exists s'.
  unfold c_commit. rewrite P, L, E. auto.
Qed.

(** ** one request *)
Lemma c_get_same c k : local (fst (c_get c k)) = local c /\ clog (fst (c_get c k)) = clog c.
Proof. unfold c_get, with_log. destruct (cpoison c); auto. destruct (clog c) eqn:L; cbn; auto. Qed.
Lemma c_getv_same c k : local (fst (c_getv c k)) = local c /\ clog (fst (c_getv c k)) = clog c.
Proof. unfold c_getv, with_log. destruct (cpoison c); auto. destruct (clog c) eqn:L; cbn; auto. Qed.

Lemma cinv_same c c' : local c' = local c -> clog c' = clog c -> cinv c -> cinv c'.
Proof. unfold cinv. intros -> ->. auto. Qed.

(** put_batch_unlogged *)
Lemma c_unlogged_inv c l : cinv c -> cinv (fst (c_unlogged c l)).
Proof.
  intros Hi. unfold c_unlogged. destruct (cpoison c); auto.
  destruct (clog c) as [lg|] eqn:L; cbn [fst].
  - unfold cinv in *. cbn [c_poison clog]. rewrite L in *. exact Hi.
  - destruct (m_batch (local c) l). exact Logic.I.
Qed.
Lemma c_unlogged_local_mono c l k :
  vle (version_of (local c) k) (version_of (local (fst (c_unlogged c l))) k).
Proof.
  unfold c_unlogged. destruct (cpoison c); [apply vle_refl|].
  destruct (clog c); [apply vle_refl|].
  pose proof (m_batch_mono (local c) l k) as H. destruct (m_batch (local c) l). exact H.
Qed.

Lemma c_step_inv p sid c o :
  cinv c -> (o = Enter -> enter_ok p c) -> cinv (fst (c_step p sid c o)).
Proof.
  intros Hi EO. destruct o; cbn [c_step c_step_gen]; auto.
  - pose proof (c_put_inv p c k v Hi) as H. unfold c_put in H. destruct (c_put_gen true p c k v); auto.
  - pose proof (c_pwv_inv c k ver v Hi) as H. unfold c_pwv in H. destruct (c_pwv_gen true c k ver v); auto.
  - pose proof (c_batch_inv l c Hi) as H. unfold c_batch in H. destruct (c_batch_gen true c l); auto.
  - pose proof (c_put_inv p c k [] Hi) as H. unfold c_put in H. destruct (c_put_gen true p c k []); auto.
  - destruct (c_get_same c k). eapply cinv_same; eauto.
  - destruct (c_getv_same c k). eapply cinv_same; eauto.
  - pose proof (c_enter_inv p sid c Hi (EO eq_refl)) as H. destruct (c_enter p sid c); auto.
  - apply c_prepare_inv; auto.
  - pose proof (c_commit_inv c Hi) as H. destruct (c_commit c); auto.
  - pose proof (c_unlogged_inv c l Hi) as H. destruct (c_unlogged c l); auto.
Qed.

(** the local store changes only by commit (and by the restore path put_batch_unlogged, which
    is refused inside a transaction) *)
Theorem c_local_only_by_commit f p sid c o :
  o <> Commit -> (forall l, o <> Unlogged l) -> local (fst (c_step_gen f p sid c o)) = local c.
Proof.
  intros N NU. destruct o; cbn [c_step_gen]; auto.
  - pose proof (c_put_local f p c k v) as H. destruct (c_put_gen f p c k v); auto.
  - pose proof (c_pwv_local f c k ver v) as H. destruct (c_pwv_gen f c k ver v); auto.
  - pose proof (c_batch_local f l c) as H. destruct (c_batch_gen f c l); auto.
  - pose proof (c_put_local f p c k []) as H. destruct (c_put_gen f p c k []); auto.
  - apply c_get_same.
  - apply c_getv_same.
  - unfold c_enter. destruct (next_version p (version_of (local c) WRITER)); auto.
    destruct (cpoison c); auto. destruct (clog c); auto.
  - unfold c_prepare, with_log. destruct (cpoison c); auto. destruct (clog c) as [l|]; auto.
    destruct l as [|[k e] [|x r]]; auto. destruct (kcmp k WRITER); auto.
  - congruence.
  - exfalso. apply (NU l). reflexivity.
Qed.

Lemma op_eq_commit (o : op) : o = Commit \/ (exists l, o = Unlogged l) \/ (o <> Commit /\ forall l, o <> Unlogged l).
Proof. destruct o; eauto; right; right; split; intros; discriminate. Qed.
(** the local store never lowers a version (any key, any state) *)
Lemma c_step_local_mono p sid c o k :
  vle (version_of (local c) k) (version_of (local (fst (c_step p sid c o))) k).
Proof.
  destruct (op_eq_commit o) as [->|[[l ->]|[N NU]]].
  - cbn [c_step c_step_gen]. unfold c_commit. destruct (cpoison c); [apply vle_refl|].
    destruct (clog c) as [l|]; [|apply vle_refl].
    pose proof (m_batch_mono (local c) l k) as H. destruct (m_batch (local c) l). exact H.
  - cbn [c_step c_step_gen]. pose proof (c_unlogged_local_mono c l k) as H.
    destruct (c_unlogged c l). exact H.
  - unfold c_step. rewrite c_local_only_by_commit; auto. apply vle_refl.
Qed.

(* ------------------------------------------------------------------ *)
(** * what a transaction sees of a key never goes down in version *)
Lemma visv_same c c' k : local c' = local c -> clog c' = clog c -> visv c' k = visv c k.
Proof. unfold visv, c_visible. intros -> ->. reflexivity. Qed.

Lemma lookup_single_other (k k0 : key) (e : vv) : k <> k0 -> lookup k [(k0, e)] = None.
Proof. intros N. cbn [lookup]. destruct (kcmp k k0) eqn:C; auto. apply kcmp_eq_iff in C. contradiction. Qed.

Lemma c_step_vis_mono p sid c o k :
  cinv c -> k <> WRITER -> vle (visv c k) (visv (fst (c_step p sid c o)) k).
Proof.
  intros Hi NW. destruct o; cbn [c_step c_step_gen]; try apply vle_refl.
  - pose proof (c_put_vis_mono p c k0 v k) as H. unfold c_put in H. destruct (c_put_gen true p c k0 v); auto.
  - pose proof (c_pwv_vis_mono c k0 ver v k) as H. unfold c_pwv in H. destruct (c_pwv_gen true c k0 ver v); auto.
  - pose proof (c_batch_vis_mono l c k) as H. unfold c_batch in H. destruct (c_batch_gen true c l); auto.
  - pose proof (c_put_vis_mono p c k0 [] k) as H. unfold c_put in H. destruct (c_put_gen true p c k0 []); auto.
  - destruct (c_get_same c k0). rewrite (visv_same c (fst (c_get c k0)) k); auto. apply vle_refl.
  - destruct (c_getv_same c k0). rewrite (visv_same c (fst (c_getv c k0)) k); auto. apply vle_refl.
  - (* enter stages the last-writer record only *)
    unfold c_enter. destruct (next_version p (version_of (local c) WRITER)); [|apply vle_refl].
    destruct (cpoison c); [apply vle_refl|]. destruct (clog c) as [l|] eqn:L; cbn [fst].
    + rewrite (visv_same c (c_poison c) k); auto. apply vle_refl.
    + unfold visv, c_visible. cbn [c_setlog clog local]. rewrite L, lookup_single_other; auto. apply vle_refl.
  - (* prepare drops nothing but a lone last-writer record *)
    unfold c_prepare, with_log. destruct (cpoison c); [apply vle_refl|].
    destruct (clog c) as [l|] eqn:L; cbn [fst].
    2:{ rewrite (visv_same c (c_poison c) k); auto. apply vle_refl. }
    destruct l as [|[k0 e] [|x r]]; cbn [fst]; try apply vle_refl.
    destruct (kcmp k0 WRITER) eqn:C; cbn [fst].
    + apply kcmp_eq_iff in C. subst k0. unfold visv, c_visible. cbn [c_setlog clog local].
      rewrite L, lookup_single_other; auto. cbn [lookup]. apply vle_refl.
    + rewrite (visv_same c (c_poison c) k); auto. apply vle_refl.
    + rewrite (visv_same c (c_poison c) k); auto. apply vle_refl.
  - (* commit moves the log into the local store: the view is unchanged *)
    unfold c_commit. destruct (cpoison c) eqn:P; [apply vle_refl|].
    destruct (clog c) as [l|] eqn:L; cbn [fst].
    2:{ rewrite (visv_same c (c_poison c) k); auto. apply vle_refl. }
    destruct (c_commit_ok c l Hi P L) as (s' & E & Sp). unfold c_commit in E. rewrite P, L in E.
    destruct (m_batch (local c) l) as [s r]. inversion E; subst. cbn [fst].
    unfold visv, c_visible. cbn [clog local]. rewrite L, Sp. apply vle_refl.
  - (* put_batch_unlogged: outside a transaction the view is the local store *)
    unfold c_unlogged. destruct (cpoison c); [apply vle_refl|].
    destruct (clog c) as [lg|] eqn:L; cbn [fst].
    + rewrite (visv_same c (c_poison c) k); auto. apply vle_refl.
    + pose proof (m_batch_mono (local c) l k) as H. destruct (m_batch (local c) l) as [s' r].
      cbn [fst] in *. unfold visv, c_visible. cbn [clog local]. rewrite L. exact H.
Qed.

(** * histories *)
Definition c_from (p : profile) (sid : value) (c : cloud) (ops : list op) : cloud :=
  fold_left (fun c o => fst (c_step p sid c o)) ops c.
Lemma c_run_app p sid pre post : c_run p sid (pre ++ post) = c_from p sid (c_run p sid pre) post.
Proof. unfold c_run, c_from. apply fold_left_app. Qed.

(** every [enter] of the history happens where the last-writer version can be incremented
    (always so in a debug build, where the increment traps instead of wrapping) *)
Definition enters_ok (p : profile) (sid : value) (c : cloud) (ops : list op) : Prop :=
  forall pre post, ops = pre ++ Enter :: post -> enter_ok p (c_from p sid c pre).
Lemma enters_ok_debug sid c ops : enters_ok Debug sid c ops.
Proof. intros pre post _. left. reflexivity. Qed.
Lemma enters_ok_tail p sid c o r :
  enters_ok p sid c (o :: r) -> enters_ok p sid (fst (c_step p sid c o)) r.
Proof. intros H pre post E. apply (H (o :: pre) post). rewrite E. reflexivity. Qed.
Lemma enters_ok_head p sid c o r : enters_ok p sid c (o :: r) -> o = Enter -> enter_ok p c.
Proof. intros H ->. apply (H [] r). reflexivity. Qed.
Lemma enters_ok_prefix p sid c pre post : enters_ok p sid c (pre ++ post) -> enters_ok p sid c pre.
Proof. intros H a b E. apply (H a (b ++ post)). rewrite E, <- app_assoc. reflexivity. Qed.
Lemma enters_ok_suffix p sid c pre post :
  enters_ok p sid c (pre ++ post) -> enters_ok p sid (c_from p sid c pre) post.
Proof.
  revert c. induction pre as [|o r IH]; intros c H; cbn [app c_from fold_left] in *; auto.
  apply IH. apply enters_ok_tail. exact H.
Qed.

Lemma c_from_inv p sid ops : forall c, cinv c -> enters_ok p sid c ops -> cinv (c_from p sid c ops).
Proof.
  induction ops as [|o r IH]; intros c Hi EO; cbn [c_from fold_left]; auto.
  apply IH.
  - apply c_step_inv; auto. apply (enters_ok_head p sid c o r EO).
  - apply enters_ok_tail. exact EO.
Qed.
Lemma c_run_inv p sid ops : enters_ok p sid c_init ops -> cinv (c_run p sid ops).
Proof. intros EO. apply (c_from_inv p sid ops c_init); auto. exact Logic.I. Qed.

Lemma c_from_vis_mono p sid ops : forall c k,
  cinv c -> enters_ok p sid c ops -> k <> WRITER -> vle (visv c k) (visv (c_from p sid c ops) k).
Proof.
  induction ops as [|o r IH]; intros c k Hi EO NW; cbn [c_from fold_left].
  - apply vle_refl.
  - eapply vle_trans; [apply (c_step_vis_mono p sid c o k Hi NW)|]. apply IH; auto.
    + apply c_step_inv; auto. apply (enters_ok_head p sid c o r EO).
    + apply enters_ok_tail. exact EO.
Qed.
Theorem c_version_never_lowered p sid pre post k :
  enters_ok p sid c_init (pre ++ post) -> k <> WRITER ->
  vle (visv (c_run p sid pre) k) (visv (c_run p sid (pre ++ post)) k).
Proof.
  intros EO NW. rewrite c_run_app. apply c_from_vis_mono; auto.
  - apply c_run_inv. eapply enters_ok_prefix; eauto.
  - apply (enters_ok_suffix p sid c_init pre post EO).
Qed.
Lemma c_from_local_mono p sid ops : forall c k,
  vle (version_of (local c) k) (version_of (local (c_from p sid c ops)) k).
Proof.
  induction ops as [|o r IH]; intros c k; cbn [c_from fold_left].
  - apply vle_refl.
  - eapply vle_trans; [apply (c_step_local_mono p sid c o k)|apply IH].
Qed.
Theorem c_local_version_never_lowered p sid pre post k :
  vle (version_of (local (c_run p sid pre)) k) (version_of (local (c_run p sid (pre ++ post))) k).
Proof. rewrite c_run_app. apply c_from_local_mono. Qed.

(** * committed = reported *)
Definition is_write (o : op) : bool :=
  match o with Put _ _ | PutV _ _ _ | Batch _ | Delete _ | Unlogged _ => true | _ => false end.
(** the report that stands after request [o] was answered [x]: the answer of the last
    [prepare], void as soon as a write request, an [enter] or a [commit] follows it *)
Definition next_report (rep : option (list kvv)) (o : op) (x : obs) : option (list kvv) :=
  match o with
  | Prepare => match x with OList m => Some m | _ => None end
  | Enter | Commit => None
  | _ => if is_write o then None else rep
  end.
Definition rep_ok (c : cloud) (rep : option (list kvv)) : Prop :=
  forall m, rep = Some m -> clog c = Some m /\ cpoison c = false.

Lemma c_step_rep p sid c o rep :
  rep_ok c rep ->
  rep_ok (fst (c_step p sid c o)) (next_report rep o (snd (c_step p sid c o))).
Proof.
  intros R. destruct o; cbn [next_report is_write]; try (intros m Q; discriminate).
  - (* get *) intros m Q. destruct (R m Q) as [L P]. cbn [c_step c_step_gen].
    unfold c_get, with_log. rewrite P, L. cbn [fst]. auto.
  - intros m Q. destruct (R m Q) as [L P]. cbn [c_step c_step_gen].
    unfold c_getv, with_log. rewrite P, L. cbn [fst]. auto.
  - intros m Q. cbn [c_step c_step_gen fst]. apply R. exact Q.
  - intros m Q. cbn [c_step c_step_gen fst]. apply R. exact Q.
  - (* prepare *) cbn [c_step c_step_gen]. unfold c_prepare, with_log.
    destruct (cpoison c) eqn:P; cbn [fst snd]; [intros m Q; discriminate|].
    destruct (clog c) as [l|] eqn:L; cbn [fst snd]; [|intros m Q; discriminate].
    destruct l as [|[k e] [|x r]]; cbn [fst snd].
    + intros m Q. inversion Q; subst. auto.
    + destruct (kcmp k WRITER); cbn [fst snd]; intros m Q; inversion Q; subst. cbn. auto.
    + intros m Q. inversion Q; subst. auto.
Qed.

(** state and standing report after a history *)
Definition c_rstep (p : profile) (sid : value) (cr : cloud * option (list kvv)) (o : op) :=
  let '(c', x) := c_step p sid (fst cr) o in (c', next_report (snd cr) o x).
Definition c_run_rep (p : profile) (sid : value) (ops : list op) : cloud * option (list kvv) :=
  fold_left (c_rstep p sid) ops (c_init, None).
Lemma c_run_rep_fst p sid ops : fst (c_run_rep p sid ops) = c_run p sid ops.
Proof.
  unfold c_run_rep, c_run.
  assert (forall cr, fst (fold_left (c_rstep p sid) ops cr) =
                     fold_left (fun c o => fst (c_step p sid c o)) ops (fst cr)) as G.
  { induction ops as [|o r IH]; intros cr; cbn [fold_left]; auto. rewrite IH. unfold c_rstep.
    destruct (c_step p sid (fst cr) o); reflexivity. }
  apply G.
Qed.
Lemma c_run_rep_ok p sid ops : rep_ok (fst (c_run_rep p sid ops)) (snd (c_run_rep p sid ops)).
Proof.
  unfold c_run_rep.
  assert (forall cr, rep_ok (fst cr) (snd cr) ->
            rep_ok (fst (fold_left (c_rstep p sid) ops cr)) (snd (fold_left (c_rstep p sid) ops cr))) as G.
  { induction ops as [|o r IH]; intros cr R; cbn [fold_left]; auto. apply IH.
    unfold c_rstep. pose proof (c_step_rep p sid (fst cr) o (snd cr) R) as H.
    destruct (c_step p sid (fst cr) o) as [c' x]. exact H. }
  apply G. intros m Q. discriminate.
Qed.

Theorem c_committed_is_reported p sid ops m :
  enters_ok p sid c_init ops ->
  snd (c_run_rep p sid ops) = Some m ->
  let c := c_run p sid ops in
  exists s',
    c_commit c = (mkcloud s' None false, ROk) /\
    (forall k, lookup k s' = match lookup k m with Some e => Some e | None => lookup k (local c) end) /\
    Forall (fun e : kvv => lookup (fst e) (local c) <> Some (snd e)) m.
Proof.
  intros EO Q. cbn zeta. pose proof (c_run_rep_ok p sid ops) as R. rewrite c_run_rep_fst in R.
  destruct (R m Q) as [L P]. pose proof (c_run_inv p sid ops EO) as Hi.
  destruct (c_commit_ok _ m Hi P L) as (s' & E & Sp). exists s'. repeat split; auto.
  unfold cinv in Hi. rewrite L in Hi. destruct Hi as [_ A]. unfold ahead in A.
  rewrite Forall_forall in *. intros e He. specialize (A e He). unfold ahead_entry in A.
  destruct e as [k [ver val]]. cbn [fst snd] in *. destruct (lookup k (local (c_run p sid ops))) as [[v0 x0]|]; [|discriminate].
  intros Q2. inversion Q2. lia.
Qed.

(* ------------------------------------------------------------------ *)
(** * get_prefix: the range scan returns exactly the entries whose key starts with the prefix *)
Lemma prefix_not_below p : forall k, is_prefix p k = true -> kcmp k p <> Lt.
Proof.
  induction p as [|x p IH]; intros [|y k]; cbn [is_prefix kcmp]; try discriminate.
  rewrite andb_true_iff, N.eqb_eq. intros [-> H]. rewrite N.compare_refl. apply IH. exact H.
Qed.
Lemma past_prefix p : forall h k,
  kcmp h p <> Lt -> is_prefix p h = false -> kcmp h k = Lt -> is_prefix p k = false.
Proof.
  induction p as [|x p IH]; intros [|y h] [|z k]; cbn [is_prefix kcmp]; try congruence; try discriminate.
  destruct (N.compare_spec y x) as [E|E|E]; destruct (N.compare_spec y z) as [F|F|F]; try congruence.
  - subst. rewrite N.eqb_refl. cbn [andb]. apply IH.
  - subst. intros _ _ _. destruct (N.eqb_spec x z); [lia|reflexivity].
  - subst. intros _ _ _. destruct (N.eqb_spec x z); [lia|reflexivity].
  - intros _ _ _. destruct (N.eqb_spec x z); [lia|reflexivity].
Qed.

Section Range.
  Context {V : Type}.
  Implicit Types s : list (key * V).
  Lemma take_prefixed_In p k v s : In (k, v) (take_prefixed p s) -> is_prefix p k = true /\ In (k, v) s.
  Proof.
    induction s as [|[k' v'] r IH]; cbn [take_prefixed In]; [tauto|].
    destruct (is_prefix p k') eqn:E; cbn [In]; [|tauto].
    intros [H|H]; [inversion H; subst; auto|]. destruct (IH H). auto.
  Qed.
  Lemma drop_below_In p k v s : In (k, v) (drop_below p s) -> In (k, v) s.
  Proof.
    induction s as [|[k' v'] r IH]; cbn [drop_below]; auto.
    destruct (kltb k' p); cbn [In]; auto.
  Qed.
  Lemma drop_below_keeps p k v s :
    is_prefix p k = true -> In (k, v) s -> In (k, v) (drop_below p s).
  Proof.
    intros P. induction s as [|[k' v'] r IH]; cbn [drop_below In]; auto.
    unfold kltb. destruct (kcmp k' p) eqn:E; auto.
    intros [H|H]; auto. inversion H; subst. exfalso. apply (prefix_not_below p k P E).
  Qed.
  (** in a sorted list nothing after the first non-prefixed key at or above the prefix is prefixed *)
  Lemma take_prefixed_keeps p k v s :
    ksorted s -> Forall (fun e => kcmp (fst e) p <> Lt) s ->
    is_prefix p k = true -> In (k, v) s -> In (k, v) (take_prefixed p s).
  Proof.
    intros S A P. induction s as [|[k' v'] r IH]; cbn [take_prefixed In]; auto.
    destruct S as [Ab S]. inversion A as [|? ? A1 A2]; subst. cbn [fst] in A1.
    destruct (is_prefix p k') eqn:E; cbn [In].
    - intros [H|H]; auto.
    - intros [H|H]; [inversion H; subst; congruence|]. exfalso.
      unfold keys_above in Ab. rewrite Forall_forall in Ab. specialize (Ab _ H). cbn [fst] in Ab.
      rewrite (past_prefix p k' k A1 E Ab) in P. discriminate.
  Qed.
  Lemma drop_below_sorted p s : ksorted s -> ksorted (drop_below p s).
  Proof.
    induction s as [|[k' v'] r IH]; cbn [drop_below]; auto. intros S.
    destruct (kltb k' p); auto. apply IH. destruct S. auto.
  Qed.
  Lemma drop_below_above p s :
    ksorted s -> Forall (fun e => kcmp (fst e) p <> Lt) (drop_below p s).
  Proof.
    induction s as [|[k' v'] r IH]; cbn [drop_below]; [constructor|]. intros [Ab S].
    unfold kltb. destruct (kcmp k' p) eqn:E; auto.
    - constructor; [cbn [fst]; congruence|]. unfold keys_above in Ab. rewrite Forall_forall in *.
      intros e He L. specialize (Ab e He). apply kcmp_eq_iff in E. subst.
      pose proof (klt_trans _ _ _ Ab L) as T.
      rewrite kcmp_refl in T. discriminate.
    - constructor; [cbn [fst]; congruence|]. unfold keys_above in Ab. rewrite Forall_forall in *.
      intros e He L. specialize (Ab e He). pose proof (klt_trans _ _ _ Ab L) as T. congruence.
  Qed.

  Theorem range_prefix_spec p k v s :
    ksorted s ->
    (In (k, v) (range_prefix p s) <-> is_prefix p k = true /\ lookup k s = Some v).
  Proof.
    intros S. unfold range_prefix. split.
    - intros H. apply take_prefixed_In in H. destruct H as [P H]. apply drop_below_In in H.
      split; auto. apply lookup_In; auto.
    - intros [P L]. apply lookup_In in L; auto.
      apply take_prefixed_keeps; auto.
      + apply drop_below_sorted; auto.
      + apply drop_below_above; auto.
      + apply drop_below_keeps; auto.
  Qed.
  (** and in key order, without repetition *)
  Lemma take_prefixed_sorted p s : ksorted s -> ksorted (take_prefixed p s).
  Proof.
    induction s as [|[k' v'] r IH]; cbn [take_prefixed]; auto. intros [Ab S].
    destruct (is_prefix p k'); cbn [ksorted]; auto. split; auto.
    unfold keys_above in *. rewrite Forall_forall in *. intros e He. apply Ab.
    destruct e as [k v]. apply take_prefixed_In in He. tauto.
  Qed.
  Theorem range_prefix_sorted p s : ksorted s -> ksorted (range_prefix p s).
  Proof. intros S. apply take_prefixed_sorted, drop_below_sorted, S. Qed.
End Range.

(* ------------------------------------------------------------------ *)
(** * the restore path: put_batch_unlogged, signer restarts *)

(** in an accepted batch every entry is at or above the version its key had before *)
Lemma batch_go_entry_ge l : forall (s s' : store) k v x n,
  batch_go s l = Some s' -> In (k, (v, x)) l -> version_of s k = Some n -> n <= v.
Proof.
  induction l as [|[k0 [ver val]] r IH]; intros s s' k v x n; cbn [batch_go In]; [tauto|].
  destruct (judge (lookup k0 s) ver val) eqn:J; try discriminate; intros G [E|E] V.
  - inversion E; subst. apply judge_write in J. unfold version_of in V.
    destruct (lookup k s) as [[v0 x0]|]; cbn [option_map fst] in V; inversion V; subst. lia.
  - pose proof (m_pwv_mono s k0 ver val k) as M. unfold m_pwv in M. rewrite J in M. cbn [fst] in M.
    rewrite V in M. cbn [vle] in M.
    destruct (version_of (upsert k0 (ver, val) s) k) as [n1|] eqn:V1; [|contradiction].
    specialize (IH _ _ k v x n1 G E V1). lia.
  - inversion E; subst. apply judge_same in J. unfold version_of in V. rewrite J in V.
    cbn [option_map fst] in V. inversion V. lia.
  - eapply IH; eauto.
Qed.

(** every record of a restored list - tombstones (empty values) included - is in the local
    store afterwards, with its version *)
Theorem c_restore_records_kept c l c' :
  c_unlogged c l = (c', ROk) ->
  forall k e, last_entry k l = Some e -> lookup k (local c') = Some e.
Proof.
  unfold c_unlogged. destruct (cpoison c); [discriminate|]. destruct (clog c); [discriminate|].
  destruct (m_batch (local c) l) as [s' r] eqn:E. intros Q. inversion Q; subst. clear Q.
  apply m_batch_atomic in E. destruct E as [[E _]|[_ G]]; [discriminate|]. intros k e LE.
  cbn [local]. rewrite (batch_go_spec l _ _ k G), LE. reflexivity.
Qed.
(** ... so a later list that serves one of those keys at a lower version (a replayed older
    copy, whatever its value) is refused as a whole and changes nothing *)
Theorem c_restore_replay_refused c l c1 k n val :
  c_unlogged c l = (c1, ROk) -> last_entry k l = Some (n, val) ->
  forall l2 v x, In (k, (v, x)) l2 -> v < n -> c_unlogged c1 l2 = (c1, RErr).
Proof.
  intros E LE l2 v x I2 Lt. pose proof (c_restore_records_kept c l c1 E k (n, val) LE) as K.
  unfold c_unlogged in E. destruct (cpoison c); [discriminate|]. destruct (clog c); [discriminate|].
  destruct (m_batch (local c) l) as [s' r]. inversion E; subst. clear E. cbn [local] in K.
  unfold c_unlogged. cbn [cpoison clog local]. unfold m_batch.
  destruct (batch_go s' l2) as [s2|] eqn:G; [|reflexivity]. exfalso.
  assert (version_of s' k = Some n) as V by (unfold version_of; rewrite K; reflexivity).
  pose proof (batch_go_entry_ge l2 s' s2 k v x n G I2 V). lia.
Qed.
(** the same for the plain stores, where put_batch_unlogged is put_batch *)
Theorem m_restore_replay_refused (s : store) l s1 k n val :
  m_batch s l = (s1, ROk) -> last_entry k l = Some (n, val) ->
  forall l2 v x, In (k, (v, x)) l2 -> v < n -> m_batch s1 l2 = (s1, RErr).
Proof.
  intros E LE l2 v x I2 Lt. apply m_batch_atomic in E. destruct E as [[E _]|[_ G]]; [discriminate|].
  pose proof (batch_go_spec l s s1 k G) as K. rewrite LE in K.
  unfold m_batch. destruct (batch_go s1 l2) as [s2|] eqn:G2; [|reflexivity]. exfalso.
  assert (version_of s1 k = Some n) as V by (unfold version_of; rewrite K; reflexivity).
  pose proof (batch_go_entry_ge l2 s1 s2 k v x n G2 I2 V). lia.
Qed.

(** the local store of a disk-backed cloud store never lowers a version, over any history with
    restarts (open transactions are lost by a restart, the local store is not) *)
Lemma cr_step_local_mono p sid c o k :
  vle (version_of (local c) k) (version_of (local (fst (cr_step p sid c o))) k).
Proof.
  destruct o; try apply c_step_local_mono. cbn [cr_step fst local]. apply vle_refl.
Qed.
Definition cr_from (p : profile) (sid : value) (c : cloud) (ops : list op) : cloud :=
  fold_left (fun c o => fst (cr_step p sid c o)) ops c.
Lemma cr_from_local_mono p sid ops : forall c k,
  vle (version_of (local c) k) (version_of (local (cr_from p sid c ops)) k).
Proof.
  induction ops as [|o r IH]; intros c k; cbn [cr_from fold_left].
  - apply vle_refl.
  - eapply vle_trans; [apply (cr_step_local_mono p sid c o k)|apply IH].
Qed.
Theorem cr_local_version_never_lowered p sid pre post k :
  vle (version_of (local (cr_run p sid pre)) k) (version_of (local (cr_run p sid (pre ++ post))) k).
Proof. unfold cr_run. rewrite fold_left_app. apply cr_from_local_mono. Qed.

(* ------------------------------------------------------------------ *)
(** * record lists that repeat a key *)
(** in an accepted batch an entry at the version its key had before carries the content it had *)
Lemma batch_go_entry_same l : forall (s s' : store) k n x0 x,
  batch_go s l = Some s' -> In (k, (n, x)) l -> lookup k s = Some (n, x0) -> x = x0.
Proof.
  induction l as [|[k0 [ver val]] r IH]; intros s s' k n x0 x; cbn [batch_go In]; [tauto|].
  destruct (judge (lookup k0 s) ver val) eqn:J; try discriminate; intros G [E|E] L.
  - inversion E; subst. apply judge_write in J. rewrite L in J. lia.
  - destruct (kcmp k k0) eqn:C.
    + apply kcmp_eq_iff in C. subst k0. apply judge_write in J. rewrite L in J.
      assert (version_of (upsert k (ver, val) s) k = Some ver) as V
        by (unfold version_of; rewrite lookup_upsert_same; reflexivity).
      pose proof (batch_go_entry_ge r _ _ k n x ver G E V). lia.
    + eapply IH; eauto. rewrite lookup_upsert_other; auto. intros ->. rewrite kcmp_refl in C. discriminate.
    + eapply IH; eauto. rewrite lookup_upsert_other; auto. intros ->. rewrite kcmp_refl in C. discriminate.
  - inversion E; subst. apply judge_same in J. rewrite L in J. inversion J. reflexivity.
  - eapply IH; eauto.
Qed.

(** a list in which a key comes back at a lower version, or at the same version with other
    content, after an earlier entry of the same list is refused whole: nothing of it is stored *)
Lemma batch_go_repeat_refused (s : store) l1 k n x1 l2 v x l3 :
  v < n \/ (v = n /\ x <> x1) ->
  batch_go s (l1 ++ (k, (n, x1)) :: l2 ++ (k, (v, x)) :: l3) = None.
Proof.
  intros H. destruct (batch_go s (l1 ++ (k, (n, x1)) :: l2 ++ (k, (v, x)) :: l3)) as [s'|] eqn:G; auto.
  exfalso. change ((k, (n, x1)) :: l2 ++ (k, (v, x)) :: l3) with ([(k, (n, x1))] ++ (l2 ++ (k, (v, x)) :: l3)) in G.
  rewrite app_assoc, batch_go_app in G.
  destruct (batch_go s (l1 ++ [(k, (n, x1))])) as [s1|] eqn:G1; [|discriminate].
  pose proof (batch_go_spec (l1 ++ [(k, (n, x1))]) s s1 k G1) as K.
  assert (last_entry k (l1 ++ [(k, (n, x1))]) = Some (n, x1)) as LE.
  { clear. induction l1 as [|[k' e] r IH]; cbn [app last_entry].
    - rewrite kcmp_refl. reflexivity.
    - rewrite IH. reflexivity. }
  rewrite LE in K.
  assert (In (k, (v, x)) (l2 ++ (k, (v, x)) :: l3)) as I2 by (apply in_or_app; right; left; reflexivity).
  destruct H as [H|[-> H]].
  - assert (version_of s1 k = Some n) as V by (unfold version_of; rewrite K; reflexivity).
    pose proof (batch_go_entry_ge _ _ _ k v x n G I2 V). lia.
  - apply H. eapply batch_go_entry_same; eauto.
Qed.

Theorem c_restore_repeated_key_refused c l1 k n x1 l2 v x l3 :
  v < n \/ (v = n /\ x <> x1) ->
  let l := l1 ++ (k, (n, x1)) :: l2 ++ (k, (v, x)) :: l3 in
  snd (c_unlogged c l) <> ROk /\ local (fst (c_unlogged c l)) = local c.
Proof.
  intros H l. unfold c_unlogged. destruct (cpoison c); [split; [discriminate|reflexivity]|].
  destruct (clog c); [split; [discriminate|reflexivity]|].
  unfold m_batch, l. rewrite (batch_go_repeat_refused (local c) l1 k n x1 l2 v x l3 H).
  cbn. split; [discriminate|reflexivity].
Qed.
Theorem m_restore_repeated_key_refused (s : store) l1 k n x1 l2 v x l3 :
  v < n \/ (v = n /\ x <> x1) ->
  m_batch s (l1 ++ (k, (n, x1)) :: l2 ++ (k, (v, x)) :: l3) = (s, RErr).
Proof. intros H. unfold m_batch. rewrite (batch_go_repeat_refused s l1 k n x1 l2 v x l3 H). reflexivity. Qed.
