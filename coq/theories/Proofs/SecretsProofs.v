(** Proofs about Model/Secrets.v: the BOLT-3 derivation tree and the compact store.

    Main results (generic in the secret type, the hash and the flip; no assumption on the hash):
    - [derive_prefix]: the secret of index k is derived from the secret of (k with its low p bits
      cleared) by the last p steps:  bs seed k = derive_secret (bs seed (clear_low p k)) p k;
    - [store_inv], [inv_step], [inv_get]: after the secrets of indices 2^48-1 down to m were
      provided, slot i holds the secret of the least index >= m whose lowest set bit is i;
      providing index m-1 is accepted, and every index >= m is answered correctly;
    - [feed_first_ok]: the first n secrets of any seed, provided in protocol order, are all
      accepted, the store never exceeds 49 entries, and every earlier secret is returned. *)
From VLS Require Import Base.U64 Model.Secrets.

Definition p2 (i : nat) : N := 2 ^ N.of_nat i.

Lemma p2_S i : p2 (S i) = 2 * p2 i.
Proof. unfold p2. rewrite Nat2N.inj_succ, N.pow_succ_r'. reflexivity. Qed.
Lemma p2_pos i : 0 < p2 i.
Proof. unfold p2. apply N.neq_0_lt_0, N.pow_nonzero. discriminate. Qed.
Lemma p2_nz i : p2 i <> 0.
Proof. pose proof (p2_pos i). lia. Qed.
Lemma p2_add i j : p2 (i + j) = p2 i * p2 j.
Proof. unfold p2. rewrite Nat2N.inj_add, N.pow_add_r. reflexivity. Qed.
Lemma p2_0 : p2 0 = 1.
Proof. reflexivity. Qed.
Lemma p2_48 : p2 48 = TWO48.
Proof. vm_compute. reflexivity. Qed.
Lemma p2_lt i j : (i < j)%nat -> p2 i < p2 j.
Proof. intros. unfold p2. apply N.pow_lt_mono_r; lia. Qed.
Lemma p2_split i j : (i <= j)%nat -> p2 j = p2 i * p2 (j - i).
Proof. intros. rewrite <- p2_add. f_equal. lia. Qed.

Lemma low_succ x i :
  x mod p2 (S i) = x mod p2 i + p2 i * N.b2n (N.testbit x (N.of_nat i)).
Proof.
  rewrite p2_S, (N.mul_comm 2), N.mod_mul_r by (try apply p2_nz; discriminate).
  rewrite N.testbit_spec'. reflexivity.
Qed.

Lemma mod_p2_le x i j : (i <= j)%nat -> x mod p2 j = 0 -> x mod p2 i = 0.
Proof.
  intros Hij H. rewrite (p2_split i j Hij), N.mod_mul_r in H by apply p2_nz.
  apply N.eq_add_0 in H. tauto.
Qed.

Lemma mod0_mul x d : d <> 0 -> x mod d = 0 -> x = d * (x / d).
Proof. intros Hd H. pose proof (N.div_mod x d Hd). dlia. Qed.

Lemma clear_low_eq i k : clear_low i k = (k / p2 i) * p2 i.
Proof. unfold clear_low. rewrite N.shiftl_mul_pow2, N.shiftr_div_pow2. reflexivity. Qed.
Lemma clear_low_sub i k : clear_low i k = k - k mod p2 i.
Proof.
  rewrite clear_low_eq. pose proof (N.div_mod k (p2 i) (p2_nz i)). dlia.
Qed.
Lemma clear_low_le i k : clear_low i k <= k.
Proof. rewrite clear_low_sub. dlia. Qed.
Lemma clear_low_0 k : clear_low 0 k = k.
Proof. unfold clear_low. cbn [N.of_nat]. rewrite N.shiftr_0_r, N.shiftl_0_r. reflexivity. Qed.
Lemma clear_low_mod i k : clear_low i k mod p2 i = 0.
Proof. rewrite clear_low_eq. apply N.mod_mul, p2_nz. Qed.
Lemma clear_low_bits_lo i k b : (b < i)%nat -> N.testbit (clear_low i k) (N.of_nat b) = false.
Proof. intros. unfold clear_low. apply N.shiftl_spec_low. lia. Qed.
Lemma clear_low_bits_hi i k b : (i <= b)%nat -> N.testbit (clear_low i k) (N.of_nat b) = N.testbit k (N.of_nat b).
Proof.
  intros. unfold clear_low. rewrite N.shiftl_spec_high' by lia. rewrite N.shiftr_spec'.
  f_equal. lia.
Qed.
Lemma clear_low_unique i idx x :
  idx mod p2 i = 0 -> idx <= x < idx + p2 i -> clear_low i x = idx.
Proof.
  intros H0 Hx. rewrite clear_low_eq.
  pose proof (mod0_mul idx (p2 i) (p2_nz i) H0) as Hq.
  assert (x / p2 i = idx / p2 i) as ->.
  { symmetry. apply (N.div_unique x (p2 i) (idx / p2 i) (x - idx)); lia. }
  lia.
Qed.
Lemma clear_low_succ i k :
  clear_low (S i) k <= clear_low i k /\
  (clear_low (S i) k < clear_low i k ->
   clear_low i k = clear_low (S i) k + p2 i /\ clear_low i k mod p2 (S i) = p2 i).
Proof.
  rewrite !clear_low_sub.
  pose proof (N.mod_le k (p2 (S i)) (p2_nz _)) as Hle.
  pose proof (N.div_mod k (p2 (S i)) (p2_nz _)) as Hd.
  pose proof (p2_pos i) as Hp. pose proof (N.mod_lt k (p2 i) (p2_nz i)) as Hlt.
  rewrite low_succ in *.
  set (q := k / p2 (S i)) in *. clearbody q.
  set (r := k mod p2 i) in *. clearbody r.
  destruct (N.testbit k (N.of_nat i)); cbn [N.b2n] in *.
  - rewrite N.mul_1_r in *. split; [lia|]. intros _. split; [lia|].
    replace (k - r) with (p2 i + q * p2 (S i)) by lia.
    rewrite N.mod_add by apply p2_nz. apply N.mod_small. rewrite p2_S. lia.
  - rewrite N.mul_0_r, N.add_0_r in *. split; lia.
Qed.

(** [at_place i x]: the lowest set bit of x (among bits 0..47) is bit i; i = 48 when there is none *)
Definition at_place (i : nat) (x : N) : Prop :=
  ((i < 48)%nat /\ x mod p2 (S i) = p2 i) \/ (i = 48%nat /\ x mod p2 48 = 0).

Lemma at_place_le i x : at_place i x -> (i <= 48)%nat.
Proof. intros [[H _]|[H _]]; lia. Qed.

Lemma at_place_low i x : at_place i x -> x mod p2 i = 0.
Proof.
  intros [[_ H]|[-> H]]; [|exact H].
  rewrite low_succ in H. pose proof (N.mod_lt x (p2 i) (p2_nz i)).
  destruct (N.testbit x (N.of_nat i)); cbn [N.b2n] in H; dlia.
Qed.

Lemma at_place_fun i j x : at_place i x -> at_place j x -> i = j.
Proof.
  assert (forall a b, (a < b)%nat -> at_place a x -> at_place b x -> False) as Hlt.
  { intros a b Hab Ha Hb. pose proof (at_place_le _ _ Hb).
    pose proof (mod_p2_le x (S a) b Hab (at_place_low _ _ Hb)) as H0.
    destruct Ha as [[_ Ha]|[-> _]]; [|lia]. pose proof (p2_pos a). lia. }
  intros Hi Hj. destruct (Nat.lt_total i j) as [H|[H|H]]; [|exact H|]; exfalso; eauto.
Qed.

Lemma place_from_at x : forall n i, (i + n = 48)%nat -> x mod p2 i = 0 -> at_place (place_from n i x) x.
Proof.
  induction n as [|n IH]; intros i Hin H0; cbn [place_from].
  - right. split; [lia|]. replace 48%nat with i by lia. exact H0.
  - destruct (N.testbit x (N.of_nat i)) eqn:Hb.
    + left. split; [lia|]. rewrite low_succ, Hb, H0. cbn [N.b2n]. lia.
    + apply IH; [lia|]. rewrite low_succ, Hb, H0. cbn [N.b2n]. lia.
Qed.

Lemma place_secret_at x : at_place (place_secret x) x.
Proof. apply place_from_at; [reflexivity|]. rewrite p2_0. apply N.mod_1_r. Qed.

(** arithmetic of the index just below a provided range *)
Lemma below_place idx pos i :
  idx < TWO48 -> at_place pos idx -> (i < pos)%nat ->
  at_place i (idx + p2 i) /\ idx + p2 i < TWO48.
Proof.
  intros Hlt Hpos Hi. pose proof (at_place_le _ _ Hpos) as Hle.
  pose proof (at_place_low _ _ Hpos) as H0. split.
  - left. split; [lia|].
    pose proof (mod_p2_le idx (S i) pos Hi H0) as H1.
    rewrite (mod0_mul idx (p2 (S i)) (p2_nz _) H1), N.add_comm, N.mul_comm.
    rewrite N.mod_add by apply p2_nz. apply N.mod_small. rewrite p2_S. pose proof (p2_pos i). lia.
  - pose proof (mod0_mul idx (p2 pos) (p2_nz _) H0) as Hq.
    pose proof (p2_split pos 48 Hle) as H48. rewrite p2_48 in H48.
    pose proof (p2_lt i pos Hi).
    set (q := idx / p2 pos) in *. clearbody q. set (c := p2 (48 - pos)) in *. clearbody c.
    assert (q < c) by (apply (N.mul_lt_mono_pos_l (p2 pos)); [apply p2_pos|lia]).
    assert (p2 pos * (q + 1) <= p2 pos * c) by (apply N.mul_le_mono_l; lia).
    lia.
Qed.

Lemma same_class_eq P x y :
  0 < P -> x mod (2 * P) = P -> y mod (2 * P) = P -> x <= y -> y < x + P -> x = y.
Proof.
  intros HP Hx Hy Hle Hlt.
  assert (2 * P <> 0) as HM by lia.
  pose proof (N.div_mod x (2 * P) HM) as Dx. pose proof (N.div_mod y (2 * P) HM) as Dy.
  rewrite Hx in Dx. rewrite Hy in Dy.
  set (a := x / (2 * P)) in *. set (b := y / (2 * P)) in *. clearbody a b.
  assert (a = b); [|subst; lia].
  destruct (N.lt_total a b) as [H|[H|H]]; [|exact H|]; exfalso.
  - assert (2 * P * (a + 1) <= 2 * P * b) by (apply N.mul_le_mono_l; lia). lia.
  - assert (2 * P * (b + 1) <= 2 * P * a) by (apply N.mul_le_mono_l; lia). lia.
Qed.

(** a decidable predicate on 0..n that holds at 0 either holds at n or has a last point *)
Lemma last_true (P : nat -> Prop) :
  (forall i, P i \/ ~ P i) -> P O -> forall n, P n \/ exists i, (i < n)%nat /\ P i /\ ~ P (S i).
Proof.
  intros Hdec H0. induction n as [|n IH]; [left; exact H0|].
  destruct (Hdec (S n)) as [H|H]; [left; exact H|]. right.
  destruct IH as [IH|[i [Hi [Hp Hn]]]].
  - exists n. split; [lia|]. split; assumption.
  - exists i. split; [lia|]. split; assumption.
Qed.

Section StoreProofs.
  Variable T : Type.
  Variable H : T -> T.
  Variable flip : nat -> T -> T.

  Local Notation dsec := (derive_secret T H flip).
  Local Notation bs := (build_commitment_secret T H flip).
  Local Notation getsec := (get_secret T H flip).

  Lemma derive_zero x : forall p s,
    (forall b, (b < p)%nat -> N.testbit x (N.of_nat b) = false) -> dsec s p x = s.
  Proof.
    induction p as [|p IH]; intros s Hz; cbn [derive_secret]; [reflexivity|].
    unfold dstep. rewrite Hz by lia. apply IH. intros; apply Hz; lia.
  Qed.

  Lemma derive_prefix_gen x k p : forall d s,
    (forall b, (b < p)%nat -> N.testbit x (N.of_nat b) = false) ->
    (forall b, (p <= b < d + p)%nat -> N.testbit x (N.of_nat b) = N.testbit k (N.of_nat b)) ->
    dsec s (d + p) k = dsec (dsec s (d + p) x) p k.
  Proof.
    induction d as [|d IH]; intros s Hz Ha; cbn [Nat.add derive_secret].
    - rewrite (derive_zero x p s Hz). reflexivity.
    - assert (dstep T H flip (d + p) k s = dstep T H flip (d + p) x s) as ->.
      { unfold dstep. rewrite Ha by lia. reflexivity. }
      apply IH; [exact Hz|]. intros; apply Ha; lia.
  Qed.

  (** the derivation-tree law: no assumption on the hash *)
  Lemma derive_prefix seed k p : (p <= 48)%nat ->
    bs seed k = dsec (bs seed (clear_low p k)) p k.
  Proof.
    intros Hp. unfold build_commitment_secret.
    replace 48%nat with ((48 - p) + p)%nat by lia.
    apply derive_prefix_gen.
    - intros b Hb. apply clear_low_bits_lo; exact Hb.
    - intros b Hb. apply clear_low_bits_hi; lia.
  Qed.

  Lemma derive_low_zero s p x : x mod p2 p = 0 -> dsec s p x = s.
  Proof.
    intros H0. rewrite <- (clear_low_unique p x x H0) by (pose proof (p2_pos p); lia).
    apply derive_zero. intros b Hb. apply clear_low_bits_lo; exact Hb.
  Qed.

  (** list plumbing *)
  Lemma upd_nth_same {A} (v : A) : forall l n, (n < length l)%nat -> nth_error (upd n v l) n = Some v.
  Proof.
    induction l as [|a l IH]; intros [|n] Hn; cbn [upd nth_error length] in *; try lia; [reflexivity|].
    apply IH; lia.
  Qed.
  Lemma upd_nth_other {A} (v : A) : forall l n i, i <> n -> nth_error (upd n v l) i = nth_error l i.
  Proof.
    induction l as [|a l IH]; intros [|n] [|i] Hn; cbn [upd nth_error]; try reflexivity; try lia.
    apply IH; lia.
  Qed.
  Lemma upd_length {A} (v : A) : forall l n, length (upd n v l) = length l.
  Proof. induction l as [|a l IH]; intros [|n]; cbn [upd length]; try reflexivity. rewrite IH. reflexivity. Qed.

  Lemma put_same pos v (st : store T) : (pos <= length st)%nat -> nth_error (put T pos v st) pos = Some v.
  Proof.
    intros Hle. unfold put. destruct (Nat.ltb pos (length st)) eqn:E.
    - apply Nat.ltb_lt in E. apply upd_nth_same; exact E.
    - apply Nat.ltb_ge in E. rewrite nth_error_app2 by lia.
      replace (pos - length st)%nat with O by lia. reflexivity.
  Qed.
  Lemma put_other pos v (st : store T) i :
    i <> pos -> (pos <= length st)%nat -> nth_error (put T pos v st) i = nth_error st i.
  Proof.
    intros Hne Hle. unfold put. destruct (Nat.ltb pos (length st)) eqn:E.
    - apply upd_nth_other; exact Hne.
    - apply Nat.ltb_ge in E. destruct (Nat.lt_ge_cases i (length st)) as [Hi|Hi].
      + apply nth_error_app1; exact Hi.
      + rewrite nth_error_app2 by lia.
        destruct (i - length st)%nat as [|[|m]] eqn:Em; cbn [nth_error]; try lia;
          symmetry; apply nth_error_None; lia.
  Qed.
  Lemma put_length pos v (st : store T) :
    (pos <= length st)%nat -> length (put T pos v st) = Nat.max (length st) (S pos).
  Proof.
    intros Hle. unfold put. destruct (Nat.ltb pos (length st)) eqn:E.
    - apply Nat.ltb_lt in E. rewrite upd_length. lia.
    - apply Nat.ltb_ge in E. rewrite app_length. cbn [length]. lia.
  Qed.

  (** from here on the equality test of the store matters (reflexivity is all that is used) *)
  Variable eqS : T -> T -> bool.
  Hypothesis eqS_refl : forall s, eqS s s = true.
  Local Notation provide := (provide_secret T H flip eqS).

  Lemma consistent_intro secret p : forall pos (st : store T),
    (forall i e, (i < pos)%nat -> nth_error st i = Some e -> eqS (dsec secret p (snd e)) (fst e) = true) ->
    forallb (fun e : T * N => eqS (dsec secret p (snd e)) (fst e)) (firstn pos st) = true.
  Proof.
    induction pos as [|pos IH]; intros [|e st] Hall; cbn [firstn forallb]; try reflexivity.
    rewrite (Hall O e) by (cbn [nth_error]; (lia || reflexivity)). cbn [andb].
    apply IH. intros i e' Hi Hn. apply (Hall (S i)); [lia|exact Hn].
  Qed.

  Lemma min_seen_ge m : forall (st : store T) acc,
    (forall e, In e st -> m <= snd e) -> m <= acc ->
    m <= fold_left (fun a (e : T * N) => if snd e <? a then snd e else a) st acc.
  Proof.
    induction st as [|e st IH]; intros acc Hall Hacc; cbn [fold_left]; [exact Hacc|].
    apply IH; [intros; apply Hall; right; assumption|].
    pose proof (Hall e (or_introl eq_refl)). destruct (snd e <? acc); lia.
  Qed.

  Lemma get_from_found k v : forall (l : store T) o,
    (forall i e, nth_error l i = Some e -> clear_low (o + i) k = snd e -> dsec (fst e) (o + i) k = v) ->
    (exists i e, nth_error l i = Some e /\ clear_low (o + i) k = snd e) ->
    get_from T H flip o l k = Some v.
  Proof.
    induction l as [|e l IH]; intros o Hall [i [e' [Hn Hc]]].
    - destruct i; discriminate Hn.
    - cbn [get_from]. destruct (N.eqb (clear_low o k) (snd e)) eqn:E.
      + apply N.eqb_eq in E. f_equal. specialize (Hall O e eq_refl).
        rewrite Nat.add_0_r in Hall. apply Hall; exact E.
      + apply IH.
        * intros j e2 Hj Hcj. specialize (Hall (S j) e2 Hj).
          rewrite Nat.add_succ_r in Hall. apply Hall; exact Hcj.
        * destruct i as [|i].
          -- cbn [nth_error] in Hn. inversion Hn; subst e'. rewrite Nat.add_0_r in Hc.
             apply N.eqb_neq in E. contradiction.
          -- exists i, e'. split; [exact Hn|]. rewrite Nat.add_succ_r in Hc. exact Hc.
  Qed.

  (** * The invariant of a store that was fed the indices 2^48-1 down to m *)
  Definition store_inv (seed : T) (m : N) (st : store T) : Prop :=
    (forall i s x, nth_error st i = Some (s, x) ->
        s = bs seed x /\ m <= x < TWO48 /\ at_place i x /\ (forall j, m <= j < x -> ~ at_place i j)) /\
    (forall i j, (length st <= i)%nat -> m <= j < TWO48 -> ~ at_place i j).

  Lemma inv_init seed : store_inv seed TWO48 (new_store T).
  Proof. split; [intros [|i] s x Hn; discriminate Hn|]. intros; lia. Qed.

  Lemma inv_length seed m st : store_inv seed m st -> (length st <= 49)%nat.
  Proof.
    intros [I1 _]. destruct (Nat.le_gt_cases (length st) 49) as [Hle|Hgt]; [exact Hle|exfalso].
    destruct (nth_error st 49) as [[s x]|] eqn:E.
    - destruct (I1 _ _ _ E) as [_ [_ [Hp _]]]. apply at_place_le in Hp. lia.
    - apply nth_error_None in E. lia.
  Qed.

  Lemma inv_step seed m st :
    store_inv seed m st -> 0 < m <= TWO48 ->
    exists st', provide st (m - 1) (bs seed (m - 1)) = (st', true) /\ store_inv seed (m - 1) st'.
  Proof.
    intros [I1 I2] Hm. set (idx := m - 1). assert (idx < TWO48) as Hidx by (unfold idx; lia).
    pose proof (place_secret_at idx) as Hpos. set (pos := place_secret idx) in *.
    (* every slot below pos is present *)
    assert (pos <= length st)%nat as Hlen.
    { destruct (Nat.le_gt_cases pos (length st)) as [Hle|Hgt]; [exact Hle|exfalso].
      destruct (below_place idx pos (length st) Hidx Hpos Hgt) as [Hw Hwlt].
      apply (I2 (length st) (idx + p2 (length st))); [lia| |exact Hw].
      pose proof (p2_pos (length st)). unfold idx in *. lia. }
    (* and consistent with the new secret *)
    assert (consistent T H flip eqS (bs seed idx) pos st = true) as Hcons.
    { apply consistent_intro. intros i [s x] Hi Hn. cbn [fst snd].
      destruct (I1 _ _ _ Hn) as [-> [Hx [Hpl Hleast]]].
      destruct (below_place idx pos i Hidx Hpos Hi) as [Hw Hwlt].
      assert (x <= idx + p2 i) as Hxw.
      { destruct (N.le_gt_cases x (idx + p2 i)) as [Hle|Hgt]; [exact Hle|exfalso].
        apply (Hleast (idx + p2 i)); [|exact Hw]. pose proof (p2_pos i). unfold idx in *. lia. }
      assert (clear_low pos x = idx) as Hc.
      { apply clear_low_unique; [apply at_place_low; exact Hpos|].
        pose proof (p2_lt i pos Hi). unfold idx in *. lia. }
      rewrite (derive_prefix seed x pos (at_place_le _ _ Hpos)), Hc. apply eqS_refl. }
    assert (m <= min_seen T st) as Hmin.
    { unfold min_seen. apply min_seen_ge; [|lia]. intros [s x] Hin.
      apply In_nth_error in Hin. destruct Hin as [i Hn]. cbn [snd].
      destruct (I1 _ _ _ Hn) as [_ [Hx _]]. lia. }
    exists (put T pos (bs seed idx, idx) st). split.
    - unfold provide_secret. fold pos.
      assert (Nat.ltb (length st) pos = false) as -> by (apply Nat.ltb_ge; exact Hlen).
      rewrite Hcons. cbn [negb].
      assert (min_seen T st <=? idx = false) as -> by (apply N.leb_gt; unfold idx; lia).
      reflexivity.
    - split.
      + intros i s x Hn. destruct (Nat.eq_dec i pos) as [->|Hne].
        * rewrite put_same in Hn by exact Hlen. inversion Hn; subst s x.
          split; [reflexivity|]. split; [unfold idx; lia|]. split; [exact Hpos|]. intros; lia.
        * rewrite put_other in Hn by assumption.
          destruct (I1 _ _ _ Hn) as [Hs [Hx [Hpl Hleast]]].
          split; [exact Hs|]. split; [unfold idx; lia|]. split; [exact Hpl|].
          intros j Hj Hpj. destruct (N.eq_dec j idx) as [->|Hji].
          -- apply Hne. apply (at_place_fun _ _ idx); assumption.
          -- apply (Hleast j); [unfold idx in *; lia|exact Hpj].
      + intros i j Hi Hj Hpj. rewrite put_length in Hi by exact Hlen.
        destruct (N.eq_dec j idx) as [->|Hji].
        * assert (i = pos) by (apply (at_place_fun _ _ idx); assumption). lia.
        * apply (I2 i j); [lia|unfold idx in *; lia|exact Hpj].
  Qed.

  Lemma inv_get seed m st k :
    store_inv seed m st -> m <= k < TWO48 -> getsec st k = Found (bs seed k).
  Proof.
    intros [I1 I2] Hk. unfold get_secret.
    rewrite (get_from_found k (bs seed k)); [reflexivity| |].
    - (* any matching slot gives the right secret *)
      intros i [s x] Hn Hc. cbn [fst snd Nat.add] in *.
      destruct (I1 _ _ _ Hn) as [-> [_ [Hpl _]]].
      rewrite <- Hc. symmetry. apply derive_prefix. apply at_place_le in Hpl. exact Hpl.
    - (* and some slot matches: the last i with clear_low i k >= m *)
      cbn [Nat.add].
      destruct (last_true (fun i => m <= clear_low i k)) with (n := 48%nat) as [H48|[i [Hi [Hge Hlt]]]].
      { intros i. destruct (N.le_gt_cases m (clear_low i k)); [left; assumption|right; lia]. }
      { rewrite clear_low_0. lia. }
      + assert (clear_low 48 k = 0) as Hz.
        { rewrite clear_low_eq, p2_48, N.div_small by lia. reflexivity. }
        rewrite Hz in H48.
        assert (at_place 48 0) as Hp0 by (right; split; [reflexivity|apply N.mod_0_l, p2_nz]).
        destruct (nth_error st 48) as [[s x]|] eqn:E.
        * exists 48%nat, (s, x). split; [exact E|]. cbn [snd]. rewrite Hz.
          destruct (I1 _ _ _ E) as [_ [Hx [Hpl _]]].
          destruct Hpl as [[Hc _]|[_ Hmod]]; [lia|].
          rewrite p2_48, N.mod_small in Hmod by lia. lia.
        * exfalso. apply nth_error_None in E. apply (I2 48%nat 0); [exact E|lia|exact Hp0].
      + destruct (clear_low_succ i k) as [_ Hs]. specialize (Hs ltac:(lia)) as [Hsum Hmod].
        assert (at_place i (clear_low i k)) as Hpi by (left; split; assumption).
        pose proof (clear_low_le i k) as Hcle.
        destruct (nth_error st i) as [[s x]|] eqn:E.
        * exists i, (s, x). split; [exact E|]. cbn [snd].
          destruct (I1 _ _ _ E) as [_ [Hx [Hpl Hleast]]].
          destruct Hpl as [[_ Hxm]|[Hc _]]; [|lia].
          assert (x <= clear_low i k) as Hxle.
          { destruct (N.le_gt_cases x (clear_low i k)) as [Hle|Hgt]; [exact Hle|exfalso].
            apply (Hleast (clear_low i k)); [lia|exact Hpi]. }
          symmetry. apply (same_class_eq (p2 i)); try (rewrite <- p2_S; assumption);
            [apply p2_pos|exact Hxle|lia].
        * exfalso. apply nth_error_None in E. apply (I2 i (clear_low i k)); [exact E|lia|exact Hpi].
  Qed.

  (** * Feeding a seed's own secrets in protocol order *)
  Lemma feed_first_inv seed : forall n, N.of_nat n <= TWO48 ->
    exists st, feed_first T H flip eqS seed n = (st, true) /\ store_inv seed (TWO48 - N.of_nat n) st.
  Proof.
    induction n as [|n IH]; intros Hn.
    - exists (new_store T). split; [reflexivity|]. rewrite N.sub_0_r. apply inv_init.
    - destruct IH as [st [Hf Hinv]]; [lia|].
      destruct (inv_step seed _ st Hinv) as [st' [Hp Hinv']]; [lia|].
      exists st'. unfold feed_first in *. rewrite seq_S, fold_left_app, Hf. cbn [fold_left Nat.add feed].
      unfold idx_of_commit.
      replace (TWO48 - 1 - N.of_nat n) with (TWO48 - N.of_nat n - 1) by lia.
      rewrite Hp. split; [reflexivity|].
      replace (TWO48 - N.of_nat (S n)) with (TWO48 - N.of_nat n - 1) by lia. exact Hinv'.
  Qed.

  Theorem feed_first_ok seed n : N.of_nat n <= TWO48 ->
    exists st, feed_first T H flip eqS seed n = (st, true) /\ (length st <= 49)%nat /\
      forall c, (c < n)%nat -> getsec st (idx_of_commit c) = Found (bs seed (idx_of_commit c)).
  Proof.
    intros Hn. destruct (feed_first_inv seed n Hn) as [st [Hf Hinv]].
    exists st. split; [exact Hf|]. split; [apply (inv_length _ _ _ Hinv)|].
    intros c Hc. apply (inv_get seed _ st _ Hinv). unfold idx_of_commit. lia.
  Qed.

  (** a refused secret leaves the store as it was *)
  Lemma provide_refused_unchanged st idx s st' : provide st idx s = (st', false) -> st' = st.
  Proof.
    unfold provide_secret. intros Hp.
    destruct (Nat.ltb (length st) (place_secret idx)); [inversion Hp; reflexivity|].
    destruct (negb _); [inversion Hp; reflexivity|].
    destruct (min_seen T st <=? idx); inversion Hp.
  Qed.
End StoreProofs.
