(** The changes of a block do not depend on whether they are derived before the block was
    applied (connection) or after (disconnection): [decode_stable].  The two derivations
    are run side by side; what the later state knows in addition concerns only outpoints of
    transactions that are still to come in the block ([sim]), and a consistent block never
    spends those early. *)
From VLS Require Import Model.Monitor Proofs.MonitorSets Proofs.MonitorDecode Proofs.MonitorUndo.

Definition slos (c : closing) : list outpoint := map fst (c_second c).
Definition our_idx (c : closing) : option N := option_map fst (c_our c).
Definition htlc_idx (c : closing) : list N := map fst (c_htlcs c).

Definition sim_fo (g : cfg) (fut : list change) (k1 k2 : core) : Prop :=
  fst k2 = fst k1 \/ (fst k1 = None /\ fst k2 = Some (fund g) /\ In (FundingConfirmed (fund g)) fut).
Definition sim_clo (fut : list change) (k1 k2 : core) : Prop :=
  match snd k1, snd k2 with
  | None, None => True
  | Some c1, Some c2 =>
      c_txid c1 = c_txid c2 /\ our_idx c1 = our_idx c2 /\ htlc_idx c1 = htlc_idx c2
      /\ incl (slos c1) (slos c2)
      /\ (forall o, In o (slos c2) -> In o (slos c1) \/ exists v, In (HTLCOutputSpent v o) fut)
  | None, Some c2 =>
      (exists f our h, In (UnilateralClose (c_txid c2) f our h) fut)
      /\ (forall o, In o (slos c2) -> exists v, In (HTLCOutputSpent v o) fut)
  | Some _, None => False
  end.
Definition sim (g : cfg) (fut : list change) (k1 k2 : core) : Prop :=
  sim_fo g fut k1 k2 /\ sim_clo fut k1 k2.

Lemma sim_clo_mono fut fut' k1 k2 : incl fut fut' -> sim_clo fut k1 k2 -> sim_clo fut' k1 k2.
Proof.
  unfold sim_clo. intros Hi. destruct (snd k1) as [c1|], (snd k2) as [c2|]; auto.
  - intros (H1 & H2 & H3 & H4 & H5). repeat split; auto. intros o Ho. destruct (H5 o Ho) as [H | [v H]]; [left; exact H | right; exists v; apply Hi; exact H].
  - intros [[f [our [h H1]]] H2]. split; [exists f, our, h; apply Hi; exact H1|].
    intros o Ho. destruct (H2 o Ho) as [v H]. exists v. apply Hi. exact H.
Qed.

Lemma sim_refl g k : sim g [] k k.
Proof.
  split; [left; reflexivity|]. unfold sim_clo. destruct (snd k) as [c|]; [|exact I].
  repeat split; auto. apply incl_refl.
Qed.

(** ** ids seen through the setters *)
Lemma set_our_ids cl v b cl' : set_our cl v b = Ok cl' ->
  c_txid cl' = c_txid cl /\ our_idx cl' = our_idx cl /\ htlc_idx cl' = htlc_idx cl /\ slos cl' = slos cl.
Proof. intros H. pose proof (set_our_sig _ _ _ _ H) as E. unfold csig in E. inversion E. unfold our_idx, htlc_idx, slos. auto. Qed.
Lemma set_htlc_ids cl v b cl' : set_htlc cl v b = Ok cl' ->
  c_txid cl' = c_txid cl /\ our_idx cl' = our_idx cl /\ htlc_idx cl' = htlc_idx cl /\ slos cl' = slos cl.
Proof. intros H. pose proof (set_htlc_sig _ _ _ _ H) as E. unfold csig in E. inversion E. unfold our_idx, htlc_idx, slos. auto. Qed.
Lemma set_second_ids cl o b cl' : set_second cl o b = Ok cl' ->
  c_txid cl' = c_txid cl /\ our_idx cl' = our_idx cl /\ htlc_idx cl' = htlc_idx cl /\ slos cl' = slos cl.
Proof. intros H. pose proof (set_second_sig _ _ _ _ H) as E. unfold csig in E. inversion E. unfold our_idx, htlc_idx, slos. auto. Qed.

Lemma set_our_transfer c1 c2 v b c1' : our_idx c1 = our_idx c2 -> set_our c1 v b = Ok c1' -> exists c2', set_our c2 v b = Ok c2'.
Proof.
  unfold our_idx, set_our. intros H. destruct (c_our c1) as [[i x]|], (c_our c2) as [[j y]|]; cbn in H; try discriminate.
  inversion H; subst. destruct (j =? v); [eexists; reflexivity | discriminate].
Qed.
Lemma existsb_fst_map {B} (p : N -> bool) (l : list (N * B)) : existsb (fun q => p (fst q)) l = existsb p (map fst l).
Proof. symmetry. apply existsb_map. Qed.
Lemma set_htlc_transfer c1 c2 v b c1' : htlc_idx c1 = htlc_idx c2 -> set_htlc c1 v b = Ok c1' -> exists c2', set_htlc c2 v b = Ok c2'.
Proof.
  unfold htlc_idx, set_htlc. intros H H1.
  destruct (existsb (fun p : N * bool => fst p =? v) (c_htlcs c2)) eqn:E.
  - destruct (set_first_some _ (fun p : N * bool => (fst p, b)) _ E) as [l' ->]. eexists; reflexivity.
  - exfalso. rewrite (existsb_fst_map (fun x => x =? v)) in E. rewrite <- H in E. rewrite <- (existsb_fst_map (fun x => x =? v)) in E.
    rewrite (set_first_none _ _ _ E) in H1. discriminate.
Qed.
Lemma existsb_op_map {B} (o : outpoint) (l : list (outpoint * B)) :
  existsb (fun q => op_eqb (fst q) o) l = true <-> In o (map fst l).
Proof.
  rewrite existsb_exists. split.
  - intros [x [Hx E]]. apply op_eqb_eq in E. subst. apply in_map. exact Hx.
  - intros H. apply in_map_iff in H. destruct H as [x [<- Hx]]. exists x. split; [exact Hx | apply op_eqb_refl].
Qed.
Lemma set_second_in cl o b cl' : set_second cl o b = Ok cl' -> In o (slos cl).
Proof.
  unfold set_second, slos. intros H.
  destruct (existsb (fun p : outpoint * bool => op_eqb (fst p) o) (c_second cl)) eqn:E; [apply existsb_op_map; exact E|].
  rewrite (set_first_none _ _ _ E) in H. discriminate.
Qed.
Lemma set_second_ok cl o b : In o (slos cl) -> exists cl', set_second cl o b = Ok cl'.
Proof.
  unfold set_second, slos. intros H. apply existsb_op_map in H.
  destruct (set_first_some _ (fun p : outpoint * bool => (fst p, b)) _ H) as [l' ->]. eexists; reflexivity.
Qed.

(** ** one change, both sides *)
Lemma in_cons_neq {A} (x c : A) l : In x (c :: l) -> x <> c -> In x l.
Proof. intros [H | H] Hn; [congruence | exact H]. Qed.

Lemma sim_step g c fut k1 k2 k1' :
  sim g (c :: fut) k1 k2 -> core_fwd k1 c = Ok k1' ->
  exists k2', core_fwd k2 c = Ok k2' /\ sim g fut k1' k2'.
Proof.
  intros [Hfo Hclo] Hf.
  (* the funding part, for the changes that leave it alone *)
  assert (Hfo' : is_fc c = false -> sim_fo g fut k1 k2).
  { intros Hc. destruct Hfo as [H | [H1 [H2 H3]]]; [left; exact H | right].
    repeat split; auto. apply (in_cons_neq _ _ _ H3). intros E. subst c. discriminate. }
  (* the closing part, for the changes that leave it alone *)
  assert (Hclo' : change_tid c = None \/ is_fc c = true -> sim_clo fut k1 k2).
  { intros Hc. unfold sim_clo in *. destruct (snd k1) as [c1|], (snd k2) as [c2|]; auto.
    - destruct Hclo as (H1 & H2 & H3 & H4 & H5). repeat split; auto. intros o Ho.
      destruct (H5 o Ho) as [H | [v H]]; [left; exact H | right; exists v].
      apply (in_cons_neq _ _ _ H). intros E. subst c. cbn in Hc. destruct Hc; discriminate.
    - destruct Hclo as [[f [our [h H1]]] H2]. split.
      + exists f, our, h. apply (in_cons_neq _ _ _ H1). intros E. subst c. cbn in Hc. destruct Hc; discriminate.
      + intros o Ho. destruct (H2 o Ho) as [v H]. exists v. apply (in_cons_neq _ _ _ H). intros E. subst c. cbn in Hc. destruct Hc; discriminate. }
  destruct c; cbn [core_fwd] in *.
  - (* FundingConfirmed *)
    inversion Hf; subst. eexists; split; [reflexivity|]. split; [left; reflexivity|].
    apply Hclo'. right; reflexivity.
  - inversion Hf; subst. eexists; split; [reflexivity|]. split; [apply Hfo'; reflexivity | apply Hclo'; left; reflexivity].
  - (* UnilateralClose *)
    inversion Hf; subst. eexists; split; [reflexivity|]. split.
    + destruct (Hfo' eq_refl) as [H | H]; [left; exact H | right; exact H].
    + unfold sim_clo; cbn [snd]. repeat split; auto. apply incl_refl.
  - inversion Hf; subst. eexists; split; [reflexivity|]. split; [apply Hfo'; reflexivity | apply Hclo'; left; reflexivity].
  - (* OurOutputSpent *)
    unfold with_closing in *. destruct (snd k1) as [c1|] eqn:E1; [|discriminate].
    apply bind_ok in Hf. destruct Hf as [c1' [Es Hf]]. inversion Hf; subst. clear Hf.
    pose proof (Hclo' (or_introl eq_refl)) as Hc. unfold sim_clo in Hclo, Hc. rewrite E1 in Hclo, Hc.
    destruct (snd k2) as [c2|] eqn:E2; [|contradiction].
    destruct Hc as (H1 & H2 & H3 & H4 & H5).
    destruct (set_our_transfer _ _ _ _ _ H2 Es) as [c2' Es2]. rewrite Es2. cbn [bind].
    eexists; split; [reflexivity|]. split.
    + destruct (Hfo' eq_refl) as [H | H]; [left; exact H | right; exact H].
    + unfold sim_clo; cbn [snd].
      destruct (set_our_ids _ _ _ _ Es) as (A1 & A2 & A3 & A4). destruct (set_our_ids _ _ _ _ Es2) as (B1 & B2 & B3 & B4).
      rewrite A1, A2, A3, A4, B1, B2, B3, B4. repeat split; auto.
  - (* HTLCOutputSpent *)
    unfold with_closing in *. destruct (snd k1) as [c1|] eqn:E1; [|discriminate].
    apply bind_ok in Hf. destruct Hf as [c1' [Es Hf]]. inversion Hf; subst. clear Hf.
    apply bind_ok in Es. destruct Es as [c1h [Es Ep]]. inversion Ep; subst. clear Ep.
    unfold sim_clo in Hclo. rewrite E1 in Hclo.
    destruct (snd k2) as [c2|] eqn:E2; [|contradiction].
    destruct Hclo as (H1 & H2 & H3 & H4 & H5).
    destruct (set_htlc_transfer _ _ _ _ _ H3 Es) as [c2h Es2]. rewrite Es2. cbn [bind].
    eexists; split; [reflexivity|]. split.
    + destruct (Hfo' eq_refl) as [H | H]; [left; exact H | right; exact H].
    + unfold sim_clo; cbn [snd].
      destruct (set_htlc_ids _ _ _ _ Es) as (A1 & A2 & A3 & A4). destruct (set_htlc_ids _ _ _ _ Es2) as (B1 & B2 & B3 & B4).
      unfold push_second, slos, our_idx, htlc_idx in *; cbn [c_txid c_our c_htlcs c_second].
      rewrite !map_app. cbn [map fst]. rewrite A1, A2, A3, A4, B1, B2, B3, B4. repeat split; auto.
      * apply incl_app; [apply incl_appl; exact H4 | apply incl_appr; apply incl_refl].
      * intros o Ho. apply in_app_or in Ho. rewrite in_app_iff. destruct Ho as [Ho | [<- | []]].
        -- destruct (H5 o Ho) as [H | [v H]]; [left; left; exact H|].
           destruct H as [H | H]; [inversion H; subst; left; right; left; reflexivity | right; exists v; exact H].
        -- left; right; left; reflexivity.
  - (* SecondLevelSpent *)
    unfold with_closing in *. destruct (snd k1) as [c1|] eqn:E1; [|discriminate].
    apply bind_ok in Hf. destruct Hf as [c1' [Es Hf]]. inversion Hf; subst. clear Hf.
    pose proof (Hclo' (or_introl eq_refl)) as Hc. unfold sim_clo in Hclo, Hc. rewrite E1 in Hclo, Hc.
    destruct (snd k2) as [c2|] eqn:E2; [|contradiction].
    destruct Hc as (H1 & H2 & H3 & H4 & H5).
    destruct (set_second_ok c2 o true (H4 _ (set_second_in _ _ _ _ Es))) as [c2' Es2]. rewrite Es2. cbn [bind].
    eexists; split; [reflexivity|]. split.
    + destruct (Hfo' eq_refl) as [H | H]; [left; exact H | right; exact H].
    + unfold sim_clo; cbn [snd].
      destruct (set_second_ids _ _ _ _ Es) as (A1 & A2 & A3 & A4). destruct (set_second_ids _ _ _ _ Es2) as (B1 & B2 & B3 & B4).
      rewrite A1, A2, A3, A4, B1, B2, B3, B4. repeat split; auto.
Qed.

Lemma sim_steps g l : forall fut k1 k2 k1',
  sim g (l ++ fut) k1 k2 -> core_fwds k1 l = Ok k1' ->
  exists k2', core_fwds k2 l = Ok k2' /\ sim g fut k1' k2'.
Proof.
  induction l as [|c r IH]; intros fut k1 k2 k1' Hs Hf; cbn [app core_fwds] in *.
  - inversion Hf; subst. exists k2. split; [reflexivity | exact Hs].
  - apply bind_ok in Hf. destruct Hf as [ka [E Hf]].
    destruct (sim_step _ _ _ _ _ _ Hs E) as [kb [E2 Hs2]]. rewrite E2. cbn [bind].
    apply (IH _ _ _ _ Hs2 Hf).
Qed.

(** ** agreement of what is recognised *)
Definition fresh_for (fut : list change) (i : outpoint) : Prop :=
  forall c, In c fut -> change_tid c <> Some (fst i).

Lemma includes_second_In cl i : includes_second cl i = true <-> In i (slos cl).
Proof. unfold includes_second, slos. apply existsb_op_map. Qed.

Lemma bool_eq_iff (a b : bool) : (a = true <-> b = true) -> a = b.
Proof. destruct a, b; intuition congruence. Qed.

Lemma includes_our_ids c1 c2 i : c_txid c1 = c_txid c2 -> our_idx c1 = our_idx c2 -> includes_our c1 i = includes_our c2 i.
Proof.
  unfold includes_our, our_idx. intros -> H.
  destruct (c_our c1) as [[a x]|], (c_our c2) as [[b y]|]; cbn in H; try discriminate; [inversion H; subst|]; reflexivity.
Qed.
Lemma includes_htlc_ids c1 c2 i : c_txid c1 = c_txid c2 -> htlc_idx c1 = htlc_idx c2 -> includes_htlc c1 i = includes_htlc c2 i.
Proof.
  unfold includes_htlc, htlc_idx. intros -> H. f_equal.
  rewrite !(existsb_fst_map (fun x => x =? snd i)). rewrite H. reflexivity.
Qed.

Lemma sim_rec g fut k1 k2 i :
  sim g fut k1 k2 -> fresh_for fut i -> fo_hit k1 i = fo_hit k2 i /\ ckind_of k1 i = ckind_of k2 i.
Proof.
  intros [Hfo Hclo] Hfr. split.
  - unfold fo_hit. destruct Hfo as [H | [H1 [H2 H3]]]; [rewrite H; reflexivity|].
    rewrite H1, H2. symmetry. apply op_eqb_neq. intros E. apply (Hfr _ H3). cbn. rewrite E. reflexivity.
  - unfold ckind_of, sim_clo in *. destruct (snd k1) as [c1|], (snd k2) as [c2|]; try contradiction; [| |reflexivity].
    + destruct Hclo as (H1 & H2 & H3 & H4 & H5). unfold ckind_cl.
      rewrite (includes_our_ids _ _ i H1 H2), (includes_htlc_ids _ _ i H1 H3).
      assert (includes_second c1 i = includes_second c2 i) as ->; [|reflexivity].
      apply bool_eq_iff. rewrite !includes_second_In. split; [apply H4|].
      intros Hi. destruct (H5 i Hi) as [H | [v H]]; [exact H|]. exfalso. apply (Hfr _ H). reflexivity.
    + destruct Hclo as [[f [our [h H1]]] H2]. unfold ckind_cl.
      assert (Ht : (c_txid c2 =? fst i) = false).
      { apply N.eqb_neq. intros E. apply (Hfr _ H1). cbn. rewrite E. reflexivity. }
      unfold includes_our, includes_htlc. rewrite Ht. cbn [andb].
      destruct (includes_second c2 i) eqn:Es; [|reflexivity].
      apply includes_second_In in Es. destruct (H2 i Es) as [v H]. exfalso. apply (Hfr _ H). reflexivity.
Qed.

(** the closed form only looks at what is recognised on the inputs *)
Definition agree (k1 k2 : core) (ins : list outpoint) : Prop :=
  forall i, In i ins -> fo_hit k1 i = fo_hit k2 i /\ ckind_of k1 i = ckind_of k2 i.

Lemma agree_tl k1 k2 i r : agree k1 k2 (i :: r) -> agree k1 k2 r.
Proof. intros H j Hj. apply H. right. exact Hj. Qed.

Lemma inputs_changes_agree g k1 k2 ins : agree k1 k2 ins -> inputs_changes g k1 ins = inputs_changes g k2 ins.
Proof.
  unfold inputs_changes. induction ins as [|i r IH]; intros H; cbn [map concat]; [reflexivity|].
  rewrite (IH (agree_tl _ _ _ _ H)). f_equal. unfold input_changes. destruct (H i (or_introl eq_refl)) as [_ ->]. reflexivity.
Qed.
Lemma closing_prev_agree k1 k2 ins : agree k1 k2 ins -> forall acc, closing_prev k1 ins acc = closing_prev k2 ins acc.
Proof.
  induction ins as [|i r IH]; intros H acc; cbn [closing_prev]; [reflexivity|].
  destruct (H i (or_introl eq_refl)) as [-> _]. apply IH. eapply agree_tl; exact H.
Qed.
Lemma htlc_hits_agree k1 k2 ins : agree k1 k2 ins -> forall n, htlc_hits k1 ins n = htlc_hits k2 ins n.
Proof.
  induction ins as [|i r IH]; intros H n; cbn [htlc_hits]; [reflexivity|].
  destruct (H i (or_introl eq_refl)) as [_ ->]. rewrite (IH (agree_tl _ _ _ _ H)). reflexivity.
Qed.
Lemma input_asserts_agree k1 k2 ins : agree k1 k2 ins -> forall n cp, input_asserts k1 n cp ins = input_asserts k2 n cp ins.
Proof.
  induction ins as [|i r IH]; intros H n cp; cbn [input_asserts]; [reflexivity|].
  destruct (H i (or_introl eq_refl)) as [-> _]. rewrite (IH (agree_tl _ _ _ _ H)). reflexivity.
Qed.
Lemma tx_changes_agree g k1 k2 t : agree k1 k2 (tx_ins t) ->
  tx_changes g k1 t = tx_changes g k2 t /\ asserts_ok g k1 t = asserts_ok g k2 t.
Proof.
  intros H. unfold tx_changes, asserts_ok.
  rewrite (inputs_changes_agree g _ _ _ H), (closing_prev_agree _ _ _ H), (htlc_hits_agree _ _ _ H), (input_asserts_agree _ _ _ H).
  split; reflexivity.
Qed.

(** ** the block: no input refers to the transaction itself or to a later one *)
Fixpoint block_fresh (b : block) : Prop :=
  match b with
  | [] => True
  | t :: r => (forall i t', In i (tx_ins t) -> In t' (t :: r) -> fst i <> tx_id t') /\ block_fresh r
  end.

Theorem decode_stable g b : forall k1 chs k1' k2,
  steps g k1 b chs k1' -> block_fresh b -> sim g chs k1 k2 ->
  exists k2', steps g k2 b chs k2'.
Proof.
  induction b as [|t r IH]; intros k1 chs k1' k2 Hs Hfr Hsim.
  - inversion Hs; subst. exists k2. constructor.
  - inversion Hs as [| ? ? ? ka chs' ? Ha Hf Hr]; subst.
    destruct Hfr as [Hfr1 Hfr2].
    assert (Hag : agree k1 k2 (tx_ins t)).
    { intros i Hi. eapply sim_rec; [exact Hsim|]. intros c Hc Ht.
      destruct (steps_tid _ _ _ _ _ _ _ Hs Hc Ht) as [t' [Ht' E]]. apply (Hfr1 i t' Hi Ht'). exact E. }
    destruct (tx_changes_agree g _ _ _ Hag) as [Hch Has].
    destruct (sim_steps _ _ _ _ _ _ Hsim Hf) as [kb [Hfb Hsb]].
    destruct (IH _ _ _ _ Hr Hfr2 Hsb) as [k2' Hs2].
    exists k2'. rewrite Hch. econstructor; [rewrite <- Has; exact Ha | rewrite <- Hch; exact Hfb | exact Hs2].
Qed.

(** ** the state after the block simulates the state before it *)
Lemma sim_unstep g c r k ka k2 :
  core_fwd k c = Ok ka -> cpre k c ->
  (forall o, c = FundingConfirmed o -> o = fund g) ->
  sim g r ka k2 -> sim g (c :: r) k k2.
Proof.
  intros Hf Hp Hfc [Hfo Hclo].
  assert (Hmono : forall x, sim_clo r x k2 -> sim_clo (c :: r) x k2) by (intros x; apply sim_clo_mono; apply incl_tl, incl_refl).
  assert (Hfo_same : fst ka = fst k -> snd ka = snd k -> sim g (c :: r) k k2).
  { intros E1 E2. split.
    - destruct Hfo as [H | [H1 [H2 H3]]]; [left; congruence | right; repeat split; [congruence | exact H2 | right; exact H3]].
    - apply Hmono. unfold sim_clo in *. rewrite <- E2. exact Hclo. }
  destruct c; cbn [core_fwd cpre] in *.
  - (* FundingConfirmed *)
    inversion Hf; subst. cbn [fst snd] in *. rewrite (Hfc o eq_refl) in *. split.
    + right. destruct Hfo as [H | [H _]]; [|discriminate]. repeat split; [exact Hp | exact H | left; reflexivity].
    + apply Hmono. exact Hclo.
  - inversion Hf; subst. apply Hfo_same; reflexivity.
  - (* UnilateralClose *)
    inversion Hf; subst. cbn [fst snd] in *. split.
    + destruct Hfo as [H | [H1 [H2 H3]]]; [left; exact H | right; repeat split; [exact H1 | exact H2 | right; exact H3]].
    + unfold sim_clo in *. cbn [snd] in Hclo. rewrite Hp. destruct (snd k2) as [c2|]; [|contradiction].
      destruct Hclo as (H1 & H2 & H3 & H4 & H5). cbn [new_closing c_txid] in H1. split.
      * exists fo, our, htlcs. left. rewrite H1. reflexivity.
      * intros o Ho. destruct (H5 o Ho) as [H | [v H]]; [destruct H | exists v; right; exact H].
  - inversion Hf; subst. apply Hfo_same; reflexivity.
  - (* OurOutputSpent *)
    unfold with_closing in Hf. destruct Hp as [cl [Hcl _]]. rewrite Hcl in Hf.
    apply bind_ok in Hf. destruct Hf as [cl' [Es Hf]]. inversion Hf; subst. cbn [fst snd] in *. split.
    + destruct Hfo as [H | [H1 [H2 H3]]]; [left; exact H | right; repeat split; [exact H1 | exact H2 | right; exact H3]].
    + apply Hmono. unfold sim_clo in *. cbn [snd] in Hclo. rewrite Hcl. destruct (snd k2) as [c2|]; [|contradiction].
      destruct (set_our_ids _ _ _ _ Es) as (A1 & A2 & A3 & A4). rewrite A1, A2, A3, A4 in Hclo. exact Hclo.
  - (* HTLCOutputSpent *)
    unfold with_closing in Hf. destruct Hp as [cl [Hcl _]]. rewrite Hcl in Hf.
    apply bind_ok in Hf. destruct Hf as [cl' [Es Hf]]. inversion Hf; subst. cbn [fst snd] in *.
    apply bind_ok in Es. destruct Es as [clh [Es Ep]]. inversion Ep; subst. clear Ep. split.
    + destruct Hfo as [H | [H1 [H2 H3]]]; [left; exact H | right; repeat split; [exact H1 | exact H2 | right; exact H3]].
    + unfold sim_clo in *. cbn [snd] in Hclo. rewrite Hcl. destruct (snd k2) as [c2|]; [|contradiction].
      destruct (set_htlc_ids _ _ _ _ Es) as (A1 & A2 & A3 & A4).
      unfold push_second, slos, our_idx, htlc_idx in *; cbn [c_txid c_our c_htlcs c_second] in Hclo.
      rewrite map_app in Hclo. cbn [map fst] in Hclo. rewrite A1, A2, A3, A4 in Hclo.
      destruct Hclo as (H1 & H2 & H3 & H4 & H5). repeat split; auto.
      * intros x Hx. apply H4. apply in_or_app. left. exact Hx.
      * intros x Hx. destruct (H5 x Hx) as [H | [v H]].
        -- apply in_app_or in H. destruct H as [H | [<- | []]]; [left; exact H | right; exists vout; left; reflexivity].
        -- right. exists v. right. exact H.
  - (* SecondLevelSpent *)
    unfold with_closing in Hf. destruct Hp as [cl [Hcl _]]. rewrite Hcl in Hf.
    apply bind_ok in Hf. destruct Hf as [cl' [Es Hf]]. inversion Hf; subst. cbn [fst snd] in *. split.
    + destruct Hfo as [H | [H1 [H2 H3]]]; [left; exact H | right; repeat split; [exact H1 | exact H2 | right; exact H3]].
    + apply Hmono. unfold sim_clo in *. cbn [snd] in Hclo. rewrite Hcl. destruct (snd k2) as [c2|]; [|contradiction].
      destruct (set_second_ids _ _ _ _ Es) as (A1 & A2 & A3 & A4). rewrite A1, A2, A3, A4 in Hclo. exact Hclo.
Qed.

Lemma sim_init g cs : forall k k',
  chain_cpre k cs -> (forall o, In (FundingConfirmed o) cs -> o = fund g) ->
  core_fwds k cs = Ok k' -> sim g cs k k'.
Proof.
  induction cs as [|c r IH]; intros k k' Hc Hfc Hf; cbn [chain_cpre core_fwds] in *.
  - inversion Hf; subst. apply sim_refl.
  - destruct Hc as [Hp Hr]. apply bind_ok in Hf. destruct Hf as [ka [E Hf]].
    eapply sim_unstep; [exact E | exact Hp | |].
    + intros o ->. apply Hfc. left; reflexivity.
    + apply IH; [apply Hr; exact E | intros o Ho; apply Hfc; right; exact Ho | exact Hf].
Qed.
