(** The sweep validators of the sweep model ([validate_sweep], [validate_delayed_sweep],
    [validate_justice_sweep] of Model/Sweep.v, with the repaired choice of the input whose sequence
    is read) are what the translated source computes: Gen/SweepGen.v is regenerated on every run from
    SimpleValidator::validate_sweep, ::validate_delayed_sweep, ::validate_justice_sweep.

    The translation has uninterpreted parameters for what lives outside vls-core's validator; the
    theorems instantiate them with the model's reading:
      the wallet          [can_spend] / [allowlisted] of the model's wallet (the oracle answers);
      rust-bitcoin        Version::TWO = 2, Time::MIN = [TIME_MIN], Height::from_consensus = a block
                          height below [LOCK_TIME_THRESHOLD], LockTime::is_satisfied_by = [is_satisfied_by]
                          (the model writes these out; the correspondence check exercises them).
    [conc_tx] is the source-level transaction of a model transaction (every value of the generated
    record is one).  Errors: transaction_format_err! ignores its tag argument - all four format
    classes of the model (version, locktime, sequence, other) are one tag in the source
    ([err_tag]); policy errors keep theirs.  The filter of the source is read on the tag names. *)
From Coq Require Import String.
From VLS Require Import Base.Rust Gen.SweepGen Proofs.RustFacts.
From VLS Require Import Model.Sweep.
From VLS Require Gen.CommitmentPolicyGen.
Require Import Lia.

Definition conc_tx (t : tx) : Transaction :=
  mk_Transaction (tx_version t) (tx_locktime t)
    (map (fun i => mk_TxIn (mk_Sequence (in_seq i))) (tx_ins t))
    (map (fun o => mk_TxOut (out_value o) (out_spk o)) (tx_outs t)).

Definition spend_fn (w : wallet) : N -> N -> N -> option bool :=
  fun _ path spk =>
    match can_spend w path spk with
    | CanSpend => Some true
    | CannotSpend => Some false
    | WalletError => None
    end.
Definition allow_fn (w : wallet) : N -> N -> N -> bool := fun _ spk path => allowlisted w spk path.
Definition height_fn : N -> option N := fun x => if x <? LOCK_TIME_THRESHOLD then Some x else None.

Definition format_class (t : stag) : bool :=
  match t with S_version | S_locktime | S_sequence | S_other => true | _ => false end.
Definition err_tag (t : stag) : string :=
  if format_class t then "policy-commitment-scripts"%string else stag_name t.

Definition of_sres (r : sres) : trap (result unit) :=
  match r with
  | SOk => Val (OkR tt)
  | SErr t => Val (ErrR (err_tag t))
  | SPanic => Trap
  end.

Definition sfilter (swarn : string -> bool) : stag -> bool := fun t => swarn (stag_name t).

Lemma of_sres_sthen a b : of_sres (sthen a b) = bindR (of_sres a) (fun _ => of_sres b).
Proof. destruct a; reflexivity. Qed.

Lemma nthN_nth_error {A} (l : list A) : forall i, nthN l i = nth_error l (N.to_nat i).
Proof.
  induction l as [|x r IH]; intros i; cbn [nthN].
  - destruct (N.to_nat i); reflexivity.
  - destruct (i =? 0) eqn:E.
    + apply N.eqb_eq in E. subst i. reflexivity.
    + apply N.eqb_neq in E. rewrite IH.
      replace (N.to_nat i) with (S (N.to_nat (i - 1))) by lia. reflexivity.
Qed.

Lemma vec_nth_map {A B} (f : A -> B) (l : list A) i :
  vec_nth (map f l) i = option_map f (nthN l i).
Proof. unfold vec_nth. rewrite nthN_nth_error. apply nth_error_map. Qed.

(** * validate_sweep *)

Lemma gen_outputs_loop swarn w wid path outs : forall u : unit,
  fold_r (fun (_ : unit) out =>
            t3 <-? ok_or (spend_fn w wid path (TxOut_script_pubkey out))
                         "policy-onchain-output-scriptpubkey"%string ;;
            t5 <-? (if negb t3 && negb (allow_fn w wid (TxOut_script_pubkey out) path)
                    then policy_err swarn "policy-sweep-destination-allowlisted"%string
                    else Val (OkR tt)) ;;
            Val (OkR tt))
         (map (fun o => mk_TxOut (out_value o) (out_spk o)) outs) u =
  of_sres (outputs_loop (sfilter swarn) w path outs).
Proof.
  induction outs as [|o r IH]; intros u; [destruct u; reflexivity|].
  cbn [map fold_r outputs_loop TxOut_script_pubkey].
  rewrite (bindR_cong _ _ (fun _ : unit => of_sres (outputs_loop (sfilter swarn) w path r)) IH).
  clear IH. unfold spend_fn, allow_fn.
  destruct (can_spend w path (out_spk o)); cbn [ok_or bindR negb andb]; rewrite ?bindR_unit, ?bindR_ok.
  - reflexivity.
  - destruct (allowlisted w (out_spk o) path); cbn [negb]; rewrite ?bindR_ok; [reflexivity|].
    unfold sperr, sfilter, policy_err. cbn [stag_name].
    destruct (swarn "policy-sweep-destination-allowlisted"%string); reflexivity.
  - reflexivity.
Qed.

Theorem gen_sweep_is_model prof swarn w wid t input amount path :
  gen_validate_sweep prof swarn 2 (spend_fn w) (allow_fn w) wid (conc_tx t) input amount path =
  of_sres (validate_sweep (sfilter swarn) w t path).
Proof.
  unfold gen_validate_sweep, validate_sweep. cbv beta zeta.
  cbn [conc_tx Transaction_version Transaction_output].
  rewrite !bindR_unit.
  destruct (tx_version t =? 2); cbn [negb]; [|reflexivity].
  rewrite bindR_ok.
  (* the loop body as generated, with its inner units removed *)
  etransitivity; [|apply (gen_outputs_loop swarn w wid path (tx_outs t) tt)].
  f_equal.
Qed.

(** * The lock-time and sequence checks shared by the delayed and the justice sweep *)

Lemma gen_locktime_check prof h lt (k : trap (result unit)) (m : sres) :
  k = of_sres m ->
  (t2 <- add32_p prof h 2 ;;
   t3 <- expect_some (height_fn t2) ;;
   t6 <-? (if negb (is_satisfied_by lt t3 TIME_MIN)
           then (t4 <- add32_p prof h 2 ;; early_err "policy-commitment-scripts"%string)
           else Val (OkR tt)) ;;
   k) =
  of_sres (sthen (locktime_check prof lt h) m).
Proof.
  intros ->. unfold locktime_check, lag_height, height_fn, MAX_CHAIN_LAG.
  change add_p32 with add32_p.
  destruct (add32_p prof h 2) as [x|]; [|reflexivity].
  cbn [bindT]. destruct (x <? LOCK_TIME_THRESHOLD); cbn [expect_some bindT]; [|reflexivity].
  destruct (is_satisfied_by lt x TIME_MIN); reflexivity.
Qed.

Lemma gen_sequence_check (t : tx) input (ok : N -> bool) :
  (seq <-? (match vec_nth (Transaction_input (conc_tx t)) input with
            | None => Val (ErrR "policy-commitment-scripts"%string)
            | Some txin => Val (OkR (Sequence_0 (TxIn_sequence txin)))
            end) ;;
   t8 <-? (if negb (ok seq) then early_err "policy-commitment-scripts"%string else Val (OkR tt)) ;;
   Val (OkR tt)) =
  of_sres (sequence_check SignedInput t input ok).
Proof.
  unfold sequence_check, checked_input, no_such_input. cbn [conc_tx Transaction_input].
  rewrite vec_nth_map.
  destruct (nthN (tx_ins t) input) as [i|]; cbn [option_map bindR TxIn_sequence Sequence_0]; [|reflexivity].
  destruct (ok (in_seq i)); reflexivity.
Qed.

(** * validate_delayed_sweep, validate_justice_sweep *)

Theorem gen_delayed_sweep_is_model prof swarn w wid (gs : CommitmentPolicyGen.ChannelSetup)
    (gcs : CommitmentPolicyGen.ChainState) t input amount path :
  gen_validate_delayed_sweep prof swarn 2 (spend_fn w) (allow_fn w) height_fn TIME_MIN is_satisfied_by
                             wid gs gcs (conc_tx t) input amount path =
  of_sres (validate_delayed_sweep SignedInput prof (sfilter swarn) w
             (CommitmentPolicyGen.ChannelSetup_counterparty_selected_contest_delay gs)
             (CommitmentPolicyGen.ChainState_current_height gcs) t input path).
Proof.
  unfold gen_validate_delayed_sweep, validate_delayed_sweep. cbv beta zeta.
  rewrite gen_sweep_is_model, of_sres_sthen. apply bindR_cong. intros _.
  rewrite !bindR_unit.
  cbn [conc_tx Transaction_lock_time].
  apply gen_locktime_check.
  apply (gen_sequence_check t input
           (fun s => s =? CommitmentPolicyGen.ChannelSetup_counterparty_selected_contest_delay gs)).
Qed.

Theorem gen_justice_sweep_is_model prof swarn w wid (gs : CommitmentPolicyGen.ChannelSetup)
    (gcs : CommitmentPolicyGen.ChainState) t input amount path :
  gen_validate_justice_sweep prof swarn 2 (spend_fn w) (allow_fn w) height_fn TIME_MIN is_satisfied_by
                             wid gs gcs (conc_tx t) input amount path =
  of_sres (validate_justice_sweep SignedInput prof (sfilter swarn) w
             (CommitmentPolicyGen.ChainState_current_height gcs) t input path).
Proof.
  unfold gen_validate_justice_sweep, validate_justice_sweep. cbv beta zeta.
  rewrite gen_sweep_is_model, of_sres_sthen. apply bindR_cong. intros _.
  rewrite !bindR_unit.
  cbn [conc_tx Transaction_lock_time].
  apply gen_locktime_check.
  apply (gen_sequence_check t input (fun s => memN s NON_ANCHOR_SEQS)).
Qed.
