(** The commitment rules of the policy model ([validate_expiry], [validate_fee],
    [validate_commitment] of Model/CommitmentPolicy.v) are what the translated source computes:
    Gen/CommitmentPolicyGen.v is regenerated on every run from
      SimpleValidator::validate_expiry, ::validate_fee, ::validate_commitment_tx
      ChannelSetup::is_anchors, ::is_zero_fee_htlc, CommitmentInfo2::value_to_parties
    (statement by statement, tools/gen_rustfn.py), and for every value of the source's structs the
    generated function answers what the model answers on the abstraction of that value - for every
    policy filter, in both build profiles, panics included.

    Source-level values and their abstraction.  The generated records mirror the Rust structs
    (fields of foreign types are opaque identities); [abs_*] forget what the model does not speak
    about (payment hashes, keys, scripts, the funding outpoint).  The policy filter of the source
    is a function of the tag *string* ([swarn]); the model's filter is that function on the
    names of its tags ([tag_filter]).  An error keeps its tag: [of_res].

    Side conditions ([commit_fits], a boolean; every real input satisfies it because of the Rust
    types): channel_value_sat is a u64, feerate_per_kw is a u32, and the number of HTLCs is such
    that the expected weight fits a usize.  The two LDK weights that enter the trim limits of
    non-zero-fee channel types are parameters of the translation; the theorem is for the values
    the model uses (663 / 703). *)
From Coq Require Import String.
From VLS Require Import Base.Rust Model.CommitmentPolicy Gen.TxUtilGen Gen.CommitmentPolicyGen
  Proofs.TxUtilGenProofs.
From VLS Require Export Proofs.RustFacts.
Require Import Lia.

(** * Abstraction *)

Definition abs_ctype (c : CommitmentType) : ctype :=
  match c with
  | CommitmentType_Legacy => Legacy
  | CommitmentType_StaticRemoteKey => StaticRemoteKey
  | CommitmentType_Anchors => Anchors
  | CommitmentType_AnchorsZeroFeeHtlc => AnchorsZeroFeeHtlc
  end.

Definition abs_policy (p : SimplePolicy) : policy :=
  mkPol (SimplePolicy_min_delay p) (SimplePolicy_max_delay p) (SimplePolicy_max_channel_size_sat p)
        (SimplePolicy_max_htlcs p) (SimplePolicy_max_htlc_value_sat p) (SimplePolicy_use_chain_state p)
        (SimplePolicy_min_feerate_per_kw p) (SimplePolicy_max_feerate_per_kw p).

(** the model's [shutdown] summarises the wallet's answer about the shutdown script; no
    commitment rule reads it *)
Definition abs_setup (s : ChannelSetup) : setup :=
  mkSetup (ChannelSetup_is_outbound s) (ChannelSetup_channel_value_sat s) (ChannelSetup_push_value_msat s)
          (ChannelSetup_holder_selected_contest_delay s) (ChannelSetup_counterparty_selected_contest_delay s)
          (abs_ctype (ChannelSetup_commitment_type s)) 0.

Definition abs_chain (c : ChainState) : chain :=
  mkChain (ChainState_current_height c) (ChainState_funding_depth c) (ChainState_closing_depth c).

Definition abs_htlc (h : HTLCInfo2) : htlc := (HTLCInfo2_value_sat h, HTLCInfo2_cltv_expiry h).

Definition abs_info (i : CommitmentInfo2) : cinfo :=
  mkInfo (CommitmentInfo2_is_counterparty_broadcaster i) (CommitmentInfo2_to_countersigner_value_sat i)
         (CommitmentInfo2_to_broadcaster_value_sat i) (map abs_htlc (CommitmentInfo2_offered_htlcs i))
         (map abs_htlc (CommitmentInfo2_received_htlcs i)) (CommitmentInfo2_feerate_per_kw i).

Definition tag_filter (swarn : string -> bool) : tag -> bool := fun t => swarn (tag_name t).

Definition of_res (r : res) : trap (result unit) :=
  match r with
  | Ok => Val (OkR tt)
  | Err t => Val (ErrR (tag_name t))
  | Panic => Trap
  end.

(** * Small facts *)

Lemma div_p_1000 a : div_p a 1000 = Val (a / 1000).
Proof. unfold div_p. destruct (1000 =? 0) eqn:E; [lia | reflexivity]. Qed.

Lemma of_res_andthen a b : of_res (andthen a b) = bindR (of_res a) (fun _ => of_res b).
Proof. destruct a; reflexivity. Qed.

(** [if c { policy_err!(self, tag, ..) }] followed by the rest of the function *)
Lemma step_check swarn (c : bool) t (g : trap (result unit)) (m : res) :
  g = of_res m ->
  bindR (if c then policy_err swarn (tag_name t) else Val (OkR tt)) (fun _ => g) =
  of_res (andthen (check (tag_filter swarn) c t) m).
Proof.
  intros ->. unfold check, perr, policy_err, tag_filter.
  destruct c; [destruct (swarn (tag_name t))|]; reflexivity.
Qed.

(** the same as the last statement of a block *)
Lemma check_alone swarn (c : bool) t :
  (if c then policy_err swarn (tag_name t) else Val (OkR tt)) =
  of_res (check (tag_filter swarn) c t).
Proof.
  unfold check, perr, policy_err, tag_filter.
  destruct c; [destruct (swarn (tag_name t))|]; reflexivity.
Qed.

Lemma zero_fee_abs c :
  is_zero_fee_htlc (abs_ctype c) = CommitmentType_eqb c CommitmentType_AnchorsZeroFeeHtlc.
Proof. destruct c; reflexivity. Qed.

Lemma anchors_abs c :
  is_anchors (abs_ctype c) =
  CommitmentType_eqb c CommitmentType_Anchors || CommitmentType_eqb c CommitmentType_AnchorsZeroFeeHtlc.
Proof. destruct c; reflexivity. Qed.

Lemma n_htlcs_abs gi :
  n_htlcs (abs_info gi) =
  len_of (CommitmentInfo2_offered_htlcs gi) + len_of (CommitmentInfo2_received_htlcs gi).
Proof.
  unfold n_htlcs, len_of. cbn [abs_info offered received]. rewrite !map_length. lia.
Qed.

(** the trim limit of one direction: [MIN_DUST_LIMIT_SATOSHIS + feerate as u64 * weight / 1000]
    neither traps nor wraps for a u32 feerate and an LDK weight *)
Lemma limit_value prof f w :
  f <= U32MAX -> w <= 1000 ->
  (t1 <- mul_p prof f w ;; t2 <- div_p t1 1000 ;; t3 <- add_p prof 330 t2 ;; Val t3) =
  Val (330 + f * w / 1000).
Proof.
  intros Hf Hw.
  assert (Hm : f * w <= 4294967295 * 1000) by (unfold U32MAX in Hf; nia).
  rewrite (mul_p_ok prof f w) by (unfold U64MAX; lia). cbn [bindT].
  rewrite div_p_1000. cbn [bindT].
  assert (Hq : f * w / 1000 <= f * w) by (apply N.div_le_upper_bound; lia).
  rewrite (add_p_ok prof 330 (f * w / 1000)) by (unfold U64MAX; lia). reflexivity.
Qed.

(** * validate_expiry *)

Theorem gen_expiry_is_model prof swarn gp name expiry cur :
  gen_validate_expiry prof swarn gp name expiry cur =
  of_res (validate_expiry prof (tag_filter swarn) (abs_policy gp) expiry cur).
Proof.
  unfold gen_validate_expiry, validate_expiry. cbv beta zeta.
  cbn [abs_policy use_chain_state min_delay max_delay].
  change add_p32 with add32_p. unfold MAX_CLTV_EXPIRY.
  norm.
  apply (step_check swarn _ T_cltv_range).
  destruct (SimplePolicy_use_chain_state gp); [|reflexivity].
  destruct (add32_p prof cur (SimplePolicy_min_delay gp)) as [lo|]; [|reflexivity].
  norm.
  apply (step_check swarn _ T_cltv_range).
  destruct (add32_p prof cur (SimplePolicy_max_delay gp)) as [hi|]; [|reflexivity].
  norm.
  apply (check_alone swarn _ T_cltv_range).
Qed.

(** * validate_fee *)

Theorem gen_fee_is_model prof swarn gp sum_inputs sum_outputs w :
  (sum_inputs <=? U64MAX) = true ->
  gen_validate_fee prof swarn gp (tag_name T_fee_range) sum_inputs sum_outputs w =
  of_res (validate_fee est_new (tag_filter swarn) (abs_policy gp) sum_inputs sum_outputs w).
Proof.
  intros Hfit. apply N.leb_le in Hfit.
  unfold gen_validate_fee, validate_fee. cbv beta zeta.
  cbn [abs_policy min_feerate max_feerate].
  unfold sub_checked. destruct (sum_outputs <=? sum_inputs) eqn:Hle; cbn [ok_or bindR of_res]; [|reflexivity].
  apply N.leb_le in Hle.
  destruct (w =? 0) eqn:Hw.
  - apply N.eqb_eq in Hw. subst w.
    rewrite gen_estimate_zero_weight by lia. reflexivity.
  - apply N.eqb_neq in Hw.
    rewrite gen_estimate_is_model by lia. unfold est_new.
    norm.
    apply (step_check swarn _ T_fee_range).
    apply (check_alone swarn _ T_fee_range).
Qed.

(** * The HTLC loops *)

Definition loop_res (p : res * N) : trap (result N) :=
  match p with
  | (Ok, a) => Val (OkR a)
  | (Err t, _) => Val (ErrR (tag_name t))
  | (Panic, _) => Trap
  end.

Lemma htlc_loop_cons prof warn pol cur limit h r acc :
  htlc_loop prof warn pol cur limit (h :: r) acc =
  match htlc_loop prof warn pol cur limit [h] acc with
  | (Ok, acc') => htlc_loop prof warn pol cur limit r acc'
  | bad => bad
  end.
Proof.
  destruct h as [v e]. cbn [htlc_loop].
  destruct (validate_expiry prof warn pol e cur); try reflexivity.
  destruct (add_checked acc v); try reflexivity.
  destruct (check warn (v <? limit) T_outputs_trimmed); reflexivity.
Qed.

(** a loop whose body is one step of the model's loop is the model's loop *)
Lemma fold_is_loop prof swarn gp cur limit (body : N -> HTLCInfo2 -> trap (result N)) :
  (forall a h, body a h =
               loop_res (htlc_loop prof (tag_filter swarn) (abs_policy gp) cur limit [abs_htlc h] a)) ->
  forall hs acc,
    fold_r body hs acc =
    loop_res (htlc_loop prof (tag_filter swarn) (abs_policy gp) cur limit (map abs_htlc hs) acc).
Proof.
  intros Hbody. induction hs as [|h r IH]; intros acc; [reflexivity|].
  cbn [fold_r map]. rewrite htlc_loop_cons, Hbody.
  destruct (htlc_loop prof (tag_filter swarn) (abs_policy gp) cur limit [abs_htlc h] acc) as [[|t|] a];
    cbn [loop_res bindR]; [apply IH | reflexivity | reflexivity].
Qed.

(** one step of the model's loop, in the shape of the source's loop body *)
Lemma loop_step prof swarn gp cur limit h a :
  loop_res (htlc_loop prof (tag_filter swarn) (abs_policy gp) cur limit [abs_htlc h] a) =
  (t1 <-? of_res (validate_expiry prof (tag_filter swarn) (abs_policy gp) (HTLCInfo2_cltv_expiry h) cur) ;;
   t2 <-? ok_or (add_checked a (HTLCInfo2_value_sat h)) (tag_name T_payment_velocity) ;;
   t3 <-? of_res (check (tag_filter swarn) (HTLCInfo2_value_sat h <? limit) T_outputs_trimmed) ;;
   Val (OkR t2)).
Proof.
  unfold abs_htlc. cbn [htlc_loop].
  destruct (validate_expiry prof (tag_filter swarn) (abs_policy gp) (HTLCInfo2_cltv_expiry h) cur);
    cbn [of_res bindR loop_res]; try reflexivity.
  destruct (add_checked a (HTLCInfo2_value_sat h)); cbn [ok_or bindR loop_res]; try reflexivity.
  destruct (check (tag_filter swarn) (HTLCInfo2_value_sat h <? limit) T_outputs_trimmed);
    reflexivity.
Qed.

(** * validate_commitment_tx *)

Definition commit_fits (gs : ChannelSetup) (gi : CommitmentInfo2) : bool :=
  (ChannelSetup_channel_value_sat gs <=? U64MAX) &&
  (CommitmentInfo2_feerate_per_kw gi <=? U32MAX) &&
  ((len_of (CommitmentInfo2_offered_htlcs gi) + len_of (CommitmentInfo2_received_htlcs gi)) * 172 + 1124
   <=? U64MAX).

(** the body of either loop of the source is one step of the model's loop *)
Ltac loop_body swarn :=
  intros a h; cbv beta zeta; rewrite loop_step, gen_expiry_is_model; norm;
  rewrite <- (check_alone swarn _ T_outputs_trimmed); cbn [tag_name];
  reflexivity.

Theorem gen_commitment_is_model prof swarn gp estate n point gs gcs gi :
  commit_fits gs gi = true ->
  gen_validate_commitment_tx prof swarn gp HTLC_TIMEOUT_WEIGHT HTLC_SUCCESS_WEIGHT
                             estate n point gs gcs gi =
  of_res (validate_commitment est_new prof (tag_filter swarn) (abs_policy gp)
                              (abs_setup gs) (abs_chain gcs) n (abs_info gi)).
Proof.
  intros Hfit. unfold commit_fits in Hfit.
  apply andb_prop in Hfit. destruct Hfit as [Hfit Hlen].
  apply andb_prop in Hfit. destruct Hfit as [Hcv Hfr].
  apply N.leb_le in Hlen. apply N.leb_le in Hfr.
  set (no := len_of (CommitmentInfo2_offered_htlcs gi)) in *.
  set (nr := len_of (CommitmentInfo2_received_htlcs gi)) in *.
  assert (Hsum : no + nr <= U64MAX) by (unfold U64MAX in *; lia).
  unfold gen_validate_commitment_tx, validate_commitment, initial_rules, offered_limit, received_limit,
    cp_value.
  rewrite n_htlcs_abs. fold no nr.
  cbn [abs_setup abs_chain abs_info abs_policy commitment_type channel_value is_outbound push_value_msat
       current_height to_broadcaster to_countersigner offered received feerate cp_broadcaster
       max_htlcs max_htlc_value].
  rewrite zero_fee_abs, anchors_abs.
  unfold MIN_CHAN_DUST_LIMIT, MIN_DUST_LIMIT, HTLC_TIMEOUT_WEIGHT, HTLC_SUCCESS_WEIGHT.
  cbv beta zeta.
  unfold gen_ChannelSetup_is_zero_fee_htlc, gen_ChannelSetup_is_anchors.
  rewrite !(add_p_ok prof no nr) by exact Hsum.
  rewrite !limit_value by (unfold U32MAX in *; lia).
  norm.
  rewrite !if_val.
  norm.
  (* the two main outputs, the number of HTLCs *)
  apply (step_check swarn _ T_outputs_trimmed).
  apply (step_check swarn _ T_outputs_trimmed).
  apply (step_check swarn _ T_htlc_count).
  (* offered HTLCs *)
  rewrite (fold_is_loop prof swarn gp (ChainState_current_height gcs)
             (if CommitmentType_eqb (ChannelSetup_commitment_type gs) CommitmentType_AnchorsZeroFeeHtlc
              then 354 else 330 + CommitmentInfo2_feerate_per_kw gi * 663 / 1000))
    by loop_body swarn.
  destruct (htlc_loop prof (tag_filter swarn) (abs_policy gp) (ChainState_current_height gcs)
              (if CommitmentType_eqb (ChannelSetup_commitment_type gs) CommitmentType_AnchorsZeroFeeHtlc
               then 354 else 330 + CommitmentInfo2_feerate_per_kw gi * 663 / 1000)
              (map abs_htlc (CommitmentInfo2_offered_htlcs gi)) 0) as [[|t1|] acc1];
    cbn [loop_res bindR of_res]; [|reflexivity|reflexivity].
  (* received HTLCs *)
  rewrite (fold_is_loop prof swarn gp (ChainState_current_height gcs)
             (if CommitmentType_eqb (ChannelSetup_commitment_type gs) CommitmentType_AnchorsZeroFeeHtlc
              then 354 else 330 + CommitmentInfo2_feerate_per_kw gi * 703 / 1000))
    by loop_body swarn.
  destruct (htlc_loop prof (tag_filter swarn) (abs_policy gp) (ChainState_current_height gcs)
              (if CommitmentType_eqb (ChannelSetup_commitment_type gs) CommitmentType_AnchorsZeroFeeHtlc
               then 354 else 330 + CommitmentInfo2_feerate_per_kw gi * 703 / 1000)
              (map abs_htlc (CommitmentInfo2_received_htlcs gi)) acc1) as [[|t2|] acc2];
    cbn [loop_res bindR of_res]; [|reflexivity|reflexivity].
  (* in-flight value, weight, sum of the outputs *)
  apply (step_check swarn _ T_inflight).
  rewrite gen_weight_is_model by exact Hlen. norm.
  destruct (add_checked (CommitmentInfo2_to_broadcaster_value_sat gi)
                        (CommitmentInfo2_to_countersigner_value_sat gi)) as [s1|];
    cbn [ok_or bindR of_res tag_name]; [|reflexivity].
  destruct (add_checked s1 acc2) as [sum_outputs|]; cbn [ok_or bindR of_res tag_name]; [|reflexivity].
  (* fee *)
  rewrite (gen_fee_is_model prof swarn gp) by exact Hcv.
  rewrite of_res_andthen. apply bindR_cong. intros _.
  (* the initial commitment *)
  unfold gen_CommitmentInfo2_value_to_parties.
  destruct (CommitmentInfo2_is_counterparty_broadcaster gi); cbn [bindT]; cbv beta iota zeta; norm;
    (destruct (n =? 0); [|reflexivity]);
    (apply (step_check swarn _ T_first_no_htlcs));
    (destruct (ChannelSetup_is_outbound gs); [|reflexivity]);
    rewrite div_p_1000; norm;
    apply (check_alone swarn _ T_initial_funding_value).
Qed.

(** * What the source's function accepts is within the bounds

    The bounds theorem of the model (Proofs/CommitmentPolicyProofs.v) carried over to the
    translated source: under a filter that downgrades nothing, an [Ok] of the generated
    [validate_commitment_tx] implies the mathematical conjunction on the abstraction of its
    arguments. *)
From VLS Require Import Proofs.CommitmentPolicyProofs.

Lemma of_res_ok r : of_res r = Val (OkR tt) -> r = Ok.
Proof. destruct r; cbn [of_res]; intros H; [reflexivity | discriminate H | discriminate H]. Qed.

Theorem source_accept_implies_bounds prof swarn gp estate n point gs gcs gi :
  (forall t, swarn t = false) ->
  commit_fits gs gi = true ->
  max_feerate (abs_policy gp) < U32MAX ->
  heights_fit prof (abs_policy gp) (abs_chain gcs) ->
  gen_validate_commitment_tx prof swarn gp HTLC_TIMEOUT_WEIGHT HTLC_SUCCESS_WEIGHT
                             estate n point gs gcs gi = Val (OkR tt) ->
  Bounds (abs_policy gp) (abs_setup gs) (abs_chain gcs) n (abs_info gi).
Proof.
  intros Hw Hfit Hm Hh H.
  rewrite gen_commitment_is_model in H by exact Hfit.
  apply of_res_ok in H.
  eapply accept_implies_bounds; [| exact Hm | exact Hh | exact H].
  intros t. apply Hw.
Qed.
