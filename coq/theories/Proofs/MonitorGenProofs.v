(** The pruning decision of the monitor model ([Monitor.is_done], with [depth_of] and [deep]) is
    what the translated source (Gen/MonitorGen.v, regenerated from monitor::State::depth_of,
    ::deep_enough_and_saw_node_forget and ::is_done on every run) computes. *)
From VLS Require Import Base.Rust Model.Monitor Gen.MonitorGen.
Require Import Lia.

(** the fields of monitor::State the three functions never read *)
Record mframe := mkMF { mf_outpoint : option N; mf_closing : option N; mf_channel : option N }.

Definition to_rms (fr : mframe) (s : state) (forgot : bool) : rms :=
  mk_rms (height s) (funding_height s) (mf_outpoint fr) (dsh s) (mutual_h s) (unilateral_h s)
         (mf_closing fr) (closing_swept_h s) (our_swept_h s) (saw_block s) forgot (mf_channel fr).

Lemma add32_p_ok prof a b : a + b <= U32MAX -> add32_p prof a b = Val (a + b).
Proof.
  intros H. destruct prof; cbn [add32_p].
  - destruct (a + b <=? U32MAX) eqn:E; [reflexivity | lia].
  - f_equal. apply N.mod_small. unfold two32, U32MAX in *. lia.
Qed.

Lemma gen_depth_of_is_model prof fr s forgot oh :
  height s < U32MAX ->
  gen_depth_of prof (to_rms fr s forgot) oh = Val (depth_of s oh).
Proof.
  intros H. unfold gen_depth_of, depth_of. cbn [to_rms rms_height].
  rewrite (add32_p_ok prof (height s) 1) by lia. cbn [bindT].
  destruct oh as [h|]; [reflexivity|]. f_equal. lia.
Qed.

Lemma gen_deep_is_model prof fr s forgot oh :
  height s < U32MAX ->
  gen_deep_enough_and_saw_node_forget prof (to_rms fr s forgot) oh 100 = Val (deep s forgot oh).
Proof.
  intros H. unfold gen_deep_enough_and_saw_node_forget, deep, MIN_DEPTH.
  rewrite gen_depth_of_is_model by exact H. cbn [bindT to_rms rms_saw_forget_channel].
  destruct (depth_of s oh <? 100) eqn:E1; destruct (100 <=? depth_of s oh) eqn:E2; try lia;
    destruct forgot; reflexivity.
Qed.

Theorem gen_is_done_is_model prof fr s forgot :
  height s < U32MAX ->
  gen_is_done prof (to_rms fr s forgot) = Val (is_done s forgot).
Proof.
  intros H. unfold gen_is_done, is_done.
  change (rms_funding_double_spent_height (to_rms fr s forgot)) with (dsh s).
  change (rms_mutual_closing_height (to_rms fr s forgot)) with (mutual_h s).
  change (rms_closing_swept_height (to_rms fr s forgot)) with (closing_swept_h s).
  rewrite !gen_deep_is_model by exact H. cbn [bindT].
  destruct (deep s forgot (dsh s)); [reflexivity|].
  destruct (deep s forgot (mutual_h s)); [reflexivity|].
  destruct (deep s forgot (closing_swept_h s)); reflexivity.
Qed.
