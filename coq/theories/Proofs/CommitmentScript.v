(** C04, script layer: the lexer inverts the builder ([next_instr] after [push_slice] /
    [push_int] / an opcode), [read_scriptint] inverts [write_scriptint] on the 31-bit range,
    and — once, for every template — [parse_tmpl t (build_tmpl t vs) = Some vs]. *)
From Coq Require Import List NArith ZArith Bool Lia.
From VLS Require Import Base.Codec Model.Commitment.
Import ListNotations.
Open Scope N_scope.

Ltac Zify.zify_convert_to_euclidean_division_equations_flag ::= constr:(true).

(** * lexer *)
Lemma next_instr_op (op : N) (r : bytes) : 0x4e < op -> next_instr (op :: r) = NIns (IOp op) r.
Proof.
  intros H. unfold next_instr, OP_PUSHDATA1, OP_PUSHDATA2, OP_PUSHDATA4.
  destruct (N.ltb_spec op 0x4c); [lia|].
  destruct (N.eqb_spec op 0x4c); [lia|].
  destruct (N.eqb_spec op 0x4d); [lia|].
  destruct (N.eqb_spec op 0x4e); [lia|]. reflexivity.
Qed.

Lemma push_slice_small (d : bytes) : (length d < 76)%nat -> push_slice d = lenN d :: d.
Proof.
  intros H. unfold push_slice. destruct (N.ltb_spec (lenN d) 0x4c) as [_|C]; [reflexivity|].
  unfold lenN in C. lia.
Qed.

Lemma next_instr_push (d r : bytes) :
  (length d < 76)%nat -> next_instr (push_slice d ++ r) = NIns (IPush d) r.
Proof.
  intros H. rewrite push_slice_small by exact H. cbn [app next_instr].
  unfold OP_PUSHDATA1. destruct (N.ltb_spec (lenN d) 0x4c) as [_|C]; [|unfold lenN in C; lia].
  unfold take_push.
  destruct (N.ltb_spec (lenN (d ++ r)) (lenN d)) as [C|_]; [unfold lenN in C; rewrite app_length in C; lia|].
  unfold lenN. rewrite Nat2N.id, take_app by reflexivity. reflexivity.
Qed.

Lemma expect_op_hit (op : N) (r : bytes) : 0x4e < op -> expect_op op (op :: r) = Some r.
Proof. intros H. unfold expect_op. rewrite next_instr_op by exact H. rewrite N.eqb_refl. reflexivity. Qed.

Lemma expect_op_miss (op o : N) (r : bytes) : 0x4e < o -> o <> op -> expect_op op (o :: r) = None.
Proof.
  intros H Hn. unfold expect_op. rewrite next_instr_op by exact H.
  destruct (N.eqb_spec o op); [contradiction|reflexivity].
Qed.

Lemma expect_op_push (op : N) (d r : bytes) :
  (length d < 76)%nat -> expect_op op (push_slice d ++ r) = None.
Proof. intros H. unfold expect_op. rewrite next_instr_push by exact H. reflexivity. Qed.

Lemma expect_data_push (d r : bytes) :
  (length d < 76)%nat -> expect_data (push_slice d ++ r) = Some (d, r).
Proof. intros H. unfold expect_data. rewrite next_instr_push by exact H. reflexivity. Qed.

Lemma expect_data_op (o : N) (r : bytes) : 0x4e < o -> expect_data (o :: r) = None.
Proof. intros H. unfold expect_data. rewrite next_instr_op by exact H. reflexivity. Qed.

(** * script numbers *)

(** the seven shapes of [write_scriptint] below 2^31 *)
Lemma write_scriptint_shape (n : N) :
  0 < n -> n < 2 ^ 31 ->
  write_scriptint n =
    if n <? 0x80 then [n]
    else if n <? 0x100 then [n; 0]
    else if n <? 0x8000 then [n mod 256; n / 256]
    else if n <? 0x10000 then [n mod 256; n / 256; 0]
    else if n <? 0x800000 then [n mod 256; (n / 256) mod 256; n / 65536]
    else if n <? 0x1000000 then [n mod 256; (n / 256) mod 256; n / 65536; 0]
    else [n mod 256; (n / 256) mod 256; (n / 65536) mod 256; n / 16777216].
Proof.
  intros Hp Hn. change (2 ^ 31) with 2147483648 in Hn.
  unfold write_scriptint. destruct (N.eqb_spec n 0); [lia|].
  assert (D2 : n / 256 / 256 = n / 65536) by (rewrite N.div_div by lia; reflexivity).
  assert (D3 : n / 65536 / 256 = n / 16777216) by (rewrite N.div_div by lia; reflexivity).
  repeat match goal with |- context [N.ltb ?a ?b] => destruct (N.ltb_spec a b) end;
    cbn [scriptint_abs];
    repeat match goal with
    | |- context [N.ltb ?a ?b] => destruct (N.ltb_spec a b); try lia
    | |- context [N.leb ?a ?b] => destruct (N.leb_spec a b); try lia
    end;
    rewrite ?D2, ?D3; try reflexivity; try lia.
Qed.

Lemma read_write_scriptint (n : N) :
  0 < n -> n < 2 ^ 31 ->
  read_scriptint (write_scriptint n) = Some (Z.of_N n) /\ (length (write_scriptint n) <= 4)%nat.
Proof.
  intros Hp Hn. rewrite write_scriptint_shape by assumption.
  change (2 ^ 31) with 2147483648 in Hn.
  repeat match goal with |- context [N.ltb ?a ?b] => destruct (N.ltb_spec a b) end;
    (split; [|cbn [length]; lia]);
    unfold read_scriptint; cbn [rev app lenN length le_val];
    match goal with |- context [N.ltb 4 ?x] => destruct (N.ltb_spec 4 x) as [C|_]; [cbn in C; lia|] end.
  - (* [n] *)
    destruct (N.eqb_spec (n mod 128) 0) as [E|_]; [lia|]. cbn [andb].
    replace (n / 128) with 0 by lia. cbn [N.even]. f_equal. lia.
  - (* [n; 0] *)
    replace (n / 128) with 1 by lia. cbn [N.even andb]. rewrite Bool.andb_false_r.
    replace (0 / 128) with 0 by reflexivity. cbn [N.even]. f_equal. lia.
  - destruct (N.eqb_spec ((n / 256) mod 128) 0) as [E|_]; [lia|]. cbn [andb].
    replace (n / 256 / 128) with 0 by lia. cbn [N.even]. f_equal. lia.
  - replace (n / 256 / 128) with 1 by lia. cbn [N.even]. rewrite Bool.andb_false_r.
    replace (0 / 128) with 0 by reflexivity. cbn [N.even]. f_equal. lia.
  - destruct (N.eqb_spec ((n / 65536) mod 128) 0) as [E|_]; [lia|]. cbn [andb].
    replace (n / 65536 / 128) with 0 by lia. cbn [N.even]. f_equal. lia.
  - replace (n / 65536 / 128) with 1 by lia. cbn [N.even]. rewrite Bool.andb_false_r.
    replace (0 / 128) with 0 by reflexivity. cbn [N.even]. f_equal. lia.
  - destruct (N.eqb_spec ((n / 16777216) mod 128) 0) as [E|_]; [lia|]. cbn [andb].
    replace (n / 16777216 / 128) with 0 by lia. cbn [N.even]. f_equal. lia.
Qed.

Lemma expect_number_int (n : N) (r : bytes) :
  n < 2 ^ 31 -> expect_number (push_int n ++ r) = Some (Z.of_N n, r).
Proof.
  intros Hn. unfold push_int.
  destruct (N.leb_spec 1 n) as [H1|H1]; destruct (N.leb_spec n 16) as [H16|H16]; cbn [andb].
  - (* OP_1 .. OP_16 *)
    cbn [app]. unfold expect_number. rewrite next_instr_op by lia.
    unfold OP_1NEGATE, OP_1, OP_16.
    destruct (N.eqb_spec (0x50 + n) 0x4f); [lia|].
    destruct (N.leb_spec 0x51 (0x50 + n)); [|lia]. destruct (N.leb_spec (0x50 + n) 0x60); [|lia].
    cbn [andb]. do 2 f_equal. lia.
  - (* a data push *)
    destruct (N.eqb_spec n 0); [lia|].
    destruct (read_write_scriptint n) as [Hr Hl]; [lia|exact Hn|].
    unfold expect_number. rewrite next_instr_push by lia. rewrite Hr. reflexivity.
  - (* zero: OP_0 pushes the empty string *)
    assert (n = 0) by lia. subst n. cbn [N.eqb app].
    unfold expect_number, next_instr, take_push. cbn [N.ltb N.compare OP_PUSHDATA1].
    destruct (N.ltb_spec (lenN r) 0) as [C|_]; [lia|]. reflexivity.
  - lia.
Qed.

(** * templates *)
Fixpoint build_tmpl (t : list titem) (vs : list tval) : bytes :=
  match t with
  | [] => []
  | TOp op :: t' => op :: build_tmpl t' vs
  | TData :: t' =>
      match vs with VData d :: vs' => push_slice d ++ build_tmpl t' vs' | _ => [] end
  | TNum :: t' =>
      match vs with VNum z :: vs' => push_int (Z.to_N z) ++ build_tmpl t' vs' | _ => [] end
  | TNumIs k :: t' => push_int (Z.to_N k) ++ build_tmpl t' vs
  end.

(** values a template can carry: short data pushes, numbers in the 31-bit range; every
    opcode of a template is a non-push opcode *)
Fixpoint wf_tv (t : list titem) (vs : list tval) : Prop :=
  match t with
  | [] => vs = []
  | TOp op :: t' => 0x4e < op /\ wf_tv t' vs
  | TData :: t' =>
      match vs with
      | VData d :: vs' => (length d < 76)%nat /\ wf_tv t' vs'
      | _ => False
      end
  | TNum :: t' =>
      match vs with
      | VNum z :: vs' => (0 <= z < 2 ^ 31)%Z /\ wf_tv t' vs'
      | _ => False
      end
  | TNumIs k :: t' => (0 <= k < 2 ^ 31)%Z /\ wf_tv t' vs
  end.

Lemma z31 (z : Z) : (0 <= z < 2 ^ 31)%Z -> Z.to_N z < 2 ^ 31 /\ Z.of_N (Z.to_N z) = z.
Proof. intros H. change (2 ^ 31)%Z with 2147483648%Z in H. change (2 ^ 31) with 2147483648. lia. Qed.

(** the round trip, for every template at once *)
Theorem parse_build (t : list titem) : forall vs, wf_tv t vs -> parse_tmpl t (build_tmpl t vs) = Some vs.
Proof.
  induction t as [|it t IH]; intros vs H; cbn [wf_tv] in H.
  - subst vs. reflexivity.
  - destruct it as [op| | |k]; cbn [build_tmpl parse_tmpl].
    + destruct H as [Hop H]. rewrite expect_op_hit by exact Hop. apply IH. exact H.
    + destruct vs as [|[d|z] vs']; try contradiction. destruct H as [Hd H].
      rewrite expect_data_push by exact Hd. rewrite (IH vs' H). reflexivity.
    + destruct vs as [|[d|z] vs']; try contradiction. destruct H as [Hz H].
      destruct (z31 z Hz) as [Hn Hr].
      rewrite expect_number_int by exact Hn. rewrite Hr, (IH vs' H). reflexivity.
    + destruct H as [Hk H]. destruct (z31 k Hk) as [Hn Hr].
      rewrite expect_number_int by exact Hn. rewrite Hr, Z.eqb_refl. apply IH. exact H.
Qed.

(** ** how a parse fails: first items that cannot match *)
Lemma parse_op_vs_op (op o : N) (t : list titem) (r : bytes) :
  0x4e < o -> o <> op -> parse_tmpl (TOp op :: t) (o :: r) = None.
Proof. intros H Hn. cbn [parse_tmpl]. rewrite expect_op_miss by assumption. reflexivity. Qed.

Lemma parse_op_vs_push (op : N) (t : list titem) (d r : bytes) :
  (length d < 76)%nat -> parse_tmpl (TOp op :: t) (push_slice d ++ r) = None.
Proof. intros H. cbn [parse_tmpl]. rewrite expect_op_push by exact H. reflexivity. Qed.

(** stepping over an item that matches (used to walk a common prefix of two templates) *)
Lemma parse_step_op (op : N) (t : list titem) (r : bytes) :
  0x4e < op -> parse_tmpl (TOp op :: t) (op :: r) = parse_tmpl t r.
Proof. intros H. cbn [parse_tmpl]. rewrite expect_op_hit by exact H. reflexivity. Qed.

Lemma parse_step_data (t : list titem) (d r : bytes) :
  (length d < 76)%nat ->
  parse_tmpl (TData :: t) (push_slice d ++ r) = option_map (cons (VData d)) (parse_tmpl t r).
Proof. intros H. cbn [parse_tmpl]. rewrite expect_data_push by exact H. reflexivity. Qed.

Lemma parse_step_numis (k : Z) (t : list titem) (r : bytes) :
  (0 <= k < 2 ^ 31)%Z ->
  parse_tmpl (TNumIs k :: t) (push_int (Z.to_N k) ++ r) = parse_tmpl t r.
Proof.
  intros H. destruct (z31 k H) as [Hn Hr]. cbn [parse_tmpl].
  rewrite expect_number_int by exact Hn. rewrite Hr, Z.eqb_refl. reflexivity.
Qed.
