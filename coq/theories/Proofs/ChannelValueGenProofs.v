(** SimpleValidator::validate_channel_value (policy-funding-max), translated from the source on every
    run (Gen/CommitmentPolicyGen.v), is the model's [validate_channel_value]: for every policy, setup,
    filter and both build profiles. *)
From Coq Require Import String.
From VLS Require Import Base.Rust Gen.CommitmentPolicyGen Model.CommitmentPolicy Proofs.CommitmentPolicyGenProofs.
Require Import Lia.

Lemma gen_channel_value_is_model prof swarn gp gs :
  gen_validate_channel_value prof swarn gp gs =
  of_res (validate_channel_value (tag_filter swarn) (abs_policy gp) (abs_setup gs)).
Proof.
  unfold gen_validate_channel_value, validate_channel_value, check, perr, policy_err, tag_filter.
  cbn [max_channel_size abs_policy channel_value abs_setup tag_name].
  destruct (N.ltb (SimplePolicy_max_channel_size_sat gp) (ChannelSetup_channel_value_sat gs)); cbn [bindR of_res].
  - destruct (swarn "policy-funding-max"%string); reflexivity.
  - reflexivity.
Qed.

(** hence: under a filter that does not downgrade policy-funding-max, the source's Ok means the
    channel is within the limit in force *)
Lemma gen_channel_value_ok_bound prof swarn gp gs :
  swarn "policy-funding-max"%string = false ->
  gen_validate_channel_value prof swarn gp gs = Val (OkR tt) ->
  (ChannelSetup_channel_value_sat gs <= SimplePolicy_max_channel_size_sat gp)%N.
Proof.
  intros Hw. unfold gen_validate_channel_value, policy_err. rewrite Hw.
  destruct (N.ltb_spec (SimplePolicy_max_channel_size_sat gp) (ChannelSetup_channel_value_sat gs)) as [H|H];
    cbn [bindR]; [discriminate | intros _; exact H].
Qed.
