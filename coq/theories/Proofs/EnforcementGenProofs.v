(** The counterparty-side state updates of the enforcement model ([set_cp_commit],
    [set_cp_revoke]) are what the translated source (Gen/EnforcementGen.v, regenerated from
    EnforcementState::set_next_counterparty_commit_num / _revoke_num on every run) computes. *)
From VLS Require Import Base.Rust Model.Enforcement Gen.EnforcementGen.
Require Import Lia.

(** the fields of EnforcementState the two functions never touch *)
Record frame := mkF { f_sigs : option N; f_initial : N; f_secrets : option N }.

Definition to_res (fr : frame) (e : estate) : res :=
  mk_res (next_h e) (next_c e) (next_r e) (cur_pt e) (prev_pt e) (cur_h e) (f_sigs fr)
         (cur_c e) (prev_c e) (closed e) (f_initial fr) (f_secrets fr).

Lemma add_p_ok prof a b : a + b <= U64MAX -> add_p prof a b = Val (a + b).
Proof.
  intros H. destruct prof; cbn [add_p].
  - destruct (a + b <=? U64MAX) eqn:E; [reflexivity | lia].
  - unfold add_wrap. f_equal. apply N.mod_small. unfold two64, U64MAX in *. lia.
Qed.

Theorem gen_set_cp_commit_is_model prof fr e num pt c :
  next_c e < U64MAX ->
  gen_set_next_counterparty_commit_num prof (to_res fr e) num pt c =
  match set_cp_commit e num pt c with
  | Some e' => Val (to_res fr e')
  | None => Trap
  end.
Proof.
  intros Hc. unfold gen_set_next_counterparty_commit_num, set_cp_commit.
  cbn [to_res res_next_holder_commit_num res_next_counterparty_commit_num res_next_counterparty_revoke_num
       res_current_counterparty_point res_previous_counterparty_point res_current_holder_commit_info
       res_current_counterparty_signatures res_current_counterparty_commit_info
       res_previous_counterparty_commit_info res_channel_closed res_initial_holder_value res_counterparty_secrets].
  rewrite !(add_p_ok prof (next_c e) 1) by lia.
  destruct (num =? 0) eqn:E0.
  - destruct (0 <? num) eqn:E; [lia | reflexivity].
  - destruct (0 <? num) eqn:E; [|lia]. cbn [bindT].
    destruct (num =? next_c e + 1) eqn:E1; cbn [bindT];
      [| destruct ((next_c e + 1 <? num) || (num <? next_c e)) eqn:E2; cbn [bindT]];
      cbn [res_next_holder_commit_num res_next_counterparty_commit_num res_next_counterparty_revoke_num
           res_current_counterparty_point res_previous_counterparty_point res_current_holder_commit_info
           res_current_counterparty_signatures res_current_counterparty_commit_info
           res_previous_counterparty_commit_info res_channel_closed res_initial_holder_value res_counterparty_secrets];
      destruct (next_c e + 1 <=? num) eqn:E3; cbn [bindT to_res
           next_h next_c next_r cur_pt prev_pt cur_h nxt_h cur_c prev_c closed secrets
           res_next_holder_commit_num res_next_counterparty_commit_num res_next_counterparty_revoke_num
           res_current_counterparty_point res_previous_counterparty_point res_current_holder_commit_info
           res_current_counterparty_signatures res_current_counterparty_commit_info
           res_previous_counterparty_commit_info res_channel_closed res_initial_holder_value res_counterparty_secrets];
      try reflexivity; try lia.
Qed.

Theorem gen_set_cp_revoke_is_model prof fr e num secs :
  num < U64MAX ->
  gen_set_next_counterparty_revoke_num prof (to_res fr e) num =
  match set_cp_revoke e num secs with
  | Some e' => Val (to_res fr e')
  | None => Trap
  end.
Proof.
  intros Hn. unfold gen_set_next_counterparty_revoke_num, set_cp_revoke.
  cbn [to_res res_next_counterparty_commit_num res_next_counterparty_revoke_num].
  destruct (num =? 0) eqn:E0; cbn [negb]; [reflexivity|].
  rewrite (add_p_ok prof num 1) by lia. cbn [bindT].
  destruct (next_c e <=? num + 1); cbn [bindT to_res
       next_h next_c next_r cur_pt prev_pt cur_h nxt_h cur_c prev_c closed secrets
       res_next_holder_commit_num res_next_counterparty_commit_num res_next_counterparty_revoke_num
       res_current_counterparty_point res_previous_counterparty_point res_current_holder_commit_info
       res_current_counterparty_signatures res_current_counterparty_commit_info
       res_previous_counterparty_commit_info res_channel_closed res_initial_holder_value res_counterparty_secrets];
    reflexivity.
Qed.

(** the look-ups behind the retry rules: [num + 2] is evaluated only when [num + 1] is not the
    next number (the model's callers compute both with the same profile-dependent additions) *)
Theorem gen_prev_point_is_model prof fr e num :
  num + 2 <= U64MAX ->
  gen_get_previous_counterparty_point prof (to_res fr e) num = Val (prev_point_for e (num + 1) (num + 2)).
Proof.
  intros H. unfold gen_get_previous_counterparty_point, prev_point_for.
  cbn [to_res res_next_counterparty_commit_num res_current_counterparty_point res_previous_counterparty_point].
  rewrite (add_p_ok prof num 1) by lia. cbn [bindT].
  destruct (num + 1 =? next_c e); [reflexivity|].
  rewrite (add_p_ok prof num 2) by lia. cbn [bindT].
  destruct (num + 2 =? next_c e); reflexivity.
Qed.

Theorem gen_prev_info_is_model prof fr e num :
  num + 2 <= U64MAX ->
  gen_get_previous_counterparty_commit_info prof (to_res fr e) num = Val (prev_info_for e (num + 1) (num + 2)).
Proof.
  intros H. unfold gen_get_previous_counterparty_commit_info, prev_info_for.
  cbn [to_res res_next_counterparty_commit_num res_current_counterparty_commit_info res_previous_counterparty_commit_info].
  rewrite (add_p_ok prof num 1) by lia. cbn [bindT].
  destruct (num + 1 =? next_c e); [reflexivity|].
  rewrite (add_p_ok prof num 2) by lia. cbn [bindT].
  destruct (num + 2 =? next_c e); reflexivity.
Qed.

(** the holder-side update: [EnforcementState::set_next_holder_commit_num] is the model's
    [advance_h] when the number is the successor of the current one, and a panic (its assert_eq!)
    otherwise.  (The model's [advance_h] also clears the pending next commitment, a field outside
    the translated record that channel.rs clears itself; the signatures go into the frame.) *)
Theorem gen_set_holder_is_model prof fr e num c sigs :
  next_h e < U64MAX ->
  gen_set_next_holder_commit_num prof (to_res fr e) num c sigs =
  if num =? next_h e + 1
  then Val (to_res (mkF (Some sigs) (f_initial fr) (f_secrets fr)) (advance_h e c))
  else Trap.
Proof.
  intros Hh. unfold gen_set_next_holder_commit_num, advance_h.
  cbn [to_res res_next_holder_commit_num].
  rewrite (add_p_ok prof (next_h e) 1) by lia. cbn [bindT].
  destruct (num =? next_h e + 1) eqn:E; [|reflexivity].
  apply N.eqb_eq in E. subst num.
  cbn [to_res f_sigs f_initial f_secrets
       next_h next_c next_r cur_pt prev_pt cur_h nxt_h cur_c prev_c closed secrets
       res_next_holder_commit_num res_next_counterparty_commit_num res_next_counterparty_revoke_num
       res_current_counterparty_point res_previous_counterparty_point res_current_holder_commit_info
       res_current_counterparty_signatures res_current_counterparty_commit_info
       res_previous_counterparty_commit_info res_channel_closed res_initial_holder_value res_counterparty_secrets].
  reflexivity.
Qed.
