(** Undoing the changes of a block last-to-first restores the state: per change, the
    backward application inverts the forward one on the state the forward pass produced
    ([cpre] is what that needs), and reverse order composes. *)
From VLS Require Import Model.Monitor Proofs.MonitorSets Proofs.MonitorDecode.

Definition hflag (cl : closing) (v : N) : option bool :=
  option_map snd (find (fun p => fst p =? v) (c_htlcs cl)).
Definition sflag (cl : closing) (o : outpoint) : option bool :=
  option_map snd (find (fun p => op_eqb (fst p) o) (c_second cl)).

(** what a change needs of the core it is applied to, for the backward change to undo it *)
Definition cpre (x : core) (c : change) : Prop :=
  match c with
  | FundingConfirmed _ => fst x = None
  | UnilateralClose _ _ _ _ => snd x = None
  | OurOutputSpent v => exists cl, snd x = Some cl /\ c_our cl = Some (v, false)
  | HTLCOutputSpent v slo =>
      exists cl, snd x = Some cl /\ hflag cl v = Some false /\ ~ In slo (map fst (c_second cl))
  | SecondLevelSpent o => exists cl, snd x = Some cl /\ sflag cl o = Some false
  | _ => True
  end.

Fixpoint chain_cpre (k : core) (cs : list change) : Prop :=
  match cs with
  | [] => True
  | c :: r => cpre k c /\ forall k', core_fwd k c = Ok k' -> chain_cpre k' r
  end.

Lemma chain_cpre_app k a : forall b,
  chain_cpre k (a ++ b) <-> chain_cpre k a /\ (forall k', core_fwds k a = Ok k' -> chain_cpre k' b).
Proof.
  revert k. induction a as [|c r IH]; intros k b; cbn [app chain_cpre core_fwds].
  - split; [intros H; split; [exact I | intros k' E; inversion E; subst; exact H] | intros [_ H]; apply H; reflexivity].
  - split.
    + intros [Hc H]. split; [split; [exact Hc|]|].
      * intros k' E. apply (IH k' b). apply H. exact E.
      * intros k' E. apply bind_ok in E. destruct E as [k1 [E1 E2]]. apply (IH k1 b); [apply H; exact E1 | exact E2].
    + intros [[Hc H1] H2]. split; [exact Hc|]. intros k' E. apply IH. split; [apply H1; exact E|].
      intros k'' E'. apply H2. rewrite E. cbn [bind]. exact E'.
Qed.

Lemma set_first_undo {A} (p : A -> bool) (f f' : A -> A) l x :
  find p l = Some x -> p (f x) = true -> f' (f x) = x ->
  exists l', set_first p f l = Some l' /\ set_first p f' l' = Some l.
Proof.
  intros Hf Hp Hu. revert Hf. induction l as [|y r IH]; cbn [find set_first]; [discriminate|].
  destruct (p y) eqn:E.
  - intros H; inversion H; subst. eexists. split; [reflexivity|]. cbn [set_first]. rewrite Hp, Hu. reflexivity.
  - intros H. destruct (IH H) as [r' [H1 H2]]. rewrite H1. eexists. split; [reflexivity|].
    cbn [set_first]. rewrite E, H2. reflexivity.
Qed.

Lemma filter_drop_last (o : outpoint) (l : list (outpoint * bool)) b :
  ~ In o (map fst l) ->
  filter (fun p => negb (op_eqb (fst p) o)) (l ++ [(o, b)]) = l.
Proof.
  induction l as [|y r IH]; intros H; cbn [app filter map In fst] in *.
  - rewrite op_eqb_refl. reflexivity.
  - assert (op_eqb (fst y) o = false) as -> by (apply op_eqb_neq; intros E; apply H; left; exact E).
    cbn [negb]. f_equal. apply IH. intros Hi. apply H. right. exact Hi.
Qed.

Lemma core_undo x c : cpre x c -> exists y, core_fwd x c = Ok y /\ core_bwd y c = Ok x.
Proof.
  destruct x as [f cl0]. destruct c; cbn [cpre core_fwd core_bwd fst snd]; intros H.
  - subst. eexists; split; reflexivity.
  - eexists; split; reflexivity.
  - subst. eexists; split; reflexivity.
  - eexists; split; reflexivity.
  - destruct H as [cl [-> Ho]]. unfold with_closing; cbn [fst snd]. unfold set_our. rewrite Ho, N.eqb_refl. cbn [bind].
    eexists; split; [reflexivity|]. cbn [bind snd fst c_our]. rewrite N.eqb_refl. cbn [bind c_txid c_htlcs c_second].
    destruct cl; cbn in *. subst. reflexivity.
  - destruct H as [cl [-> [Hh Hn]]]. unfold with_closing; cbn [fst snd].
    unfold hflag in Hh. destruct (find (fun p => fst p =? vout) (c_htlcs cl)) as [[v' b']|] eqn:Ef; [|discriminate].
    cbn [option_map snd] in Hh. inversion Hh; subst b'.
    pose proof (find_some _ _ Ef) as [_ Hv]. cbn [fst] in Hv.
    destruct (set_first_undo (fun p : N * bool => fst p =? vout) (fun p => (fst p, true)) (fun p => (fst p, false)) _ _ Ef Hv eq_refl)
      as [h' [H1 H2]].
    unfold set_htlc. rewrite H1. cbn [bind]. eexists; split; [reflexivity|].
    cbn [snd fst bind]. unfold set_htlc, push_second. cbn [c_htlcs c_txid c_our c_second]. rewrite H2. cbn [bind].
    unfold drop_second. cbn [c_htlcs c_txid c_our c_second]. rewrite (filter_drop_last _ _ _ Hn).
    destruct cl; reflexivity.
  - destruct H as [cl [-> Hs]]. unfold with_closing; cbn [fst snd].
    unfold sflag in Hs. destruct (find (fun p => op_eqb (fst p) o) (c_second cl)) as [[o' b']|] eqn:Ef; [|discriminate].
    cbn [option_map snd] in Hs. inversion Hs; subst b'.
    pose proof (find_some _ _ Ef) as [_ Hv]. cbn [fst] in Hv.
    destruct (set_first_undo (fun p : outpoint * bool => op_eqb (fst p) o) (fun p => (fst p, true)) (fun p => (fst p, false)) _ _ Ef Hv eq_refl)
      as [h' [H1 H2]].
    unfold set_second. rewrite H1. cbn [bind]. eexists; split; [reflexivity|].
    cbn [snd fst bind]. unfold set_second. cbn [c_htlcs c_txid c_our c_second]. rewrite H2. cbn [bind].
    destruct cl; reflexivity.
Qed.

Lemma cores_undo cs : forall k, chain_cpre k cs ->
  exists k', core_fwds k cs = Ok k' /\ core_bwds k' (rev cs) = Ok k.
Proof.
  induction cs as [|c r IH]; intros k H; cbn [chain_cpre core_fwds rev] in *.
  - exists k. split; reflexivity.
  - destruct H as [Hc Hr]. destruct (core_undo _ _ Hc) as [y [H1 H2]].
    destruct (IH y (Hr y H1)) as [k' [G1 G2]]. exists k'. rewrite H1. cbn [bind]. split; [exact G1|].
    rewrite core_bwds_app, G2. cbn [bind core_bwds]. rewrite H2. reflexivity.
Qed.

(** * State level *)

(** equality of states except for the heights that are handled per block
    (double spend, mutual close, the two swept heights) *)
Definition eqm (a b : state) : Prop :=
  height a = height b /\ funding_height a = funding_height b /\ fo a = fo b
  /\ unilateral_h a = unilateral_h b /\ clo a = clo b
  /\ saw_block a = saw_block b.

Lemma eqm_refl a : eqm a a.
Proof. unfold eqm. tauto. Qed.

(** funding_height / unilateral_h mirror the core *)
Definition loc_inv (s : state) : Prop :=
  (fo s = None -> funding_height s = None) /\ (clo s = None -> unilateral_h s = None).

Lemma opt_eqb_refl x : opt_eqb (Some x) x = true.
Proof. cbn. apply N.eqb_refl. Qed.

Lemma core_of_set_core s k : core_of (set_core s k) = k.
Proof. destruct k; reflexivity. Qed.

Lemma apply_forward_core s c s1 A R :
  apply_forward s c = Ok (s1, A, R) -> core_fwd (core_of s) c = Ok (core_of s1) /\ height s1 = height s.
Proof.
  unfold apply_forward. intros H. apply bind_ok in H. destruct H as [k [E H]]. inversion H; subst. clear H.
  rewrite E. destruct c; cbn; destruct k; auto.
Qed.

Lemma fwd_bwd_step fx s c :
  same_deltas fx = true -> cpre (core_of s) c -> loc_inv s ->
  exists s1 A R, apply_forward s c = Ok (s1, A, R) /\ loc_inv s1 /\
    forall s1', eqm s1' s1 ->
      exists s' , apply_backward fx s1' c = Ok (s', A, R) /\ eqm s' s.
Proof.
  intros Hfx Hp [Li1 Li2]. destruct (core_undo _ _ Hp) as [y [Hf Hb]].
  unfold apply_forward. rewrite Hf. cbn [bind].
  destruct c; cbn [cpre] in Hp.
  - (* FundingConfirmed *)
    eexists _, _, _. split; [reflexivity|]. split.
    { unfold loc_inv. cbn [core_fwd] in Hf. inversion Hf; subst. cbn. split; [discriminate | exact Li2]. }
    intros s1' (E1 & E2 & E3 & E4 & E5 & E8). cbn [core_fwd] in Hf. inversion Hf; subst. clear Hf.
    cbn in E1, E2, E3, E4, E5, E8.
    unfold apply_backward. rewrite E2, E1. rewrite opt_eqb_refl.
    eexists. split; [reflexivity|].
    unfold eqm; cbn. unfold core_of in Hp; cbn in Hp. rewrite Hp, (Li1 Hp). repeat split; auto.
  - (* FundingInputSpent *)
    eexists _, _, _. split; [reflexivity|]. split.
    { unfold loc_inv. cbn [core_fwd] in Hf. inversion Hf; subst. cbn. split; assumption. }
    intros s1' (E1 & E2 & E3 & E4 & E5 & E8). cbn [core_fwd] in Hf. inversion Hf; subst. clear Hf.
    cbn in E1, E2, E3, E4, E5, E8.
    unfold apply_backward. eexists. split; [reflexivity|].
    unfold eqm; cbn. repeat split; auto.
  - (* UnilateralClose *)
    eexists _, _, _. split; [reflexivity|]. split.
    { unfold loc_inv. cbn [core_fwd] in Hf. inversion Hf; subst. cbn. split; [exact Li1 | discriminate]. }
    intros s1' (E1 & E2 & E3 & E4 & E5 & E8). cbn [core_fwd] in Hf. inversion Hf; subst. clear Hf.
    cbn in E1, E2, E3, E4, E5, E8.
    unfold apply_backward. rewrite E4, E1, opt_eqb_refl.
    eexists. split; [reflexivity|].
    unfold eqm; cbn. unfold core_of in Hp; cbn in Hp. rewrite Hp, (Li2 Hp). repeat split; auto.
  - (* MutualClose *)
    eexists _, _, _. split; [reflexivity|]. split.
    { unfold loc_inv. cbn [core_fwd] in Hf. inversion Hf; subst. cbn. split; assumption. }
    intros s1' (E1 & E2 & E3 & E4 & E5 & E8). cbn [core_fwd] in Hf. inversion Hf; subst. clear Hf.
    cbn in E1, E2, E3, E4, E5, E8.
    unfold apply_backward. eexists. split; [reflexivity|].
    unfold eqm; cbn. repeat split; auto.
  - (* OurOutputSpent *)
    destruct Hp as [cl [Hcl Ho]].
    assert (Hy : exists cl', snd y = Some cl' /\ fst y = fo s /\ c_txid cl' = c_txid cl).
    { cbn [core_fwd] in Hf. unfold with_closing in Hf. rewrite Hcl in Hf. apply bind_ok in Hf. destruct Hf as [cl' [E Hf]].
      inversion Hf; subst. exists cl'. cbn. repeat split. unfold set_our in E. rewrite Ho, N.eqb_refl in E. inversion E; reflexivity. }
    destruct Hy as [cl' [Hy1 [Hy2 Hy3]]].
    eexists _, _, _. split; [reflexivity|]. split.
    { unfold loc_inv. cbn. rewrite Hy1, Hy2. split; [exact Li1 | discriminate]. }
    intros s1' (E1 & E2 & E3 & E4 & E5 & E8). cbn in E1, E2, E3, E4, E5, E8.
    unfold apply_backward.
    assert (Hk : core_of s1' = y) by (unfold core_of; rewrite E3, E5; destruct y; reflexivity).
    rewrite Hk, Hb. cbn [bind].
    eexists. split.
    { unfold ctxid_of. rewrite Hy1, Hy3. unfold change_removes, change_adds, ctxid_of. rewrite Hy1, Hy3. reflexivity. }
    unfold eqm; cbn. unfold core_of; cbn. repeat split; auto.
  - (* HTLCOutputSpent *)
    destruct Hp as [cl [Hcl [Hh Hn]]].
    assert (Hy : exists cl', snd y = Some cl' /\ fst y = fo s /\ c_txid cl' = c_txid cl).
    { cbn [core_fwd] in Hf. unfold with_closing in Hf. rewrite Hcl in Hf. apply bind_ok in Hf. destruct Hf as [cl' [E Hf]].
      inversion Hf; subst. exists cl'. cbn. repeat split.
      apply bind_ok in E. destruct E as [cl1 [E1 E2]]. inversion E2; subst. unfold push_second; cbn.
      unfold set_htlc in E1. destruct (set_first _ _ (c_htlcs cl)); [|discriminate]. inversion E1; reflexivity. }
    destruct Hy as [cl' [Hy1 [Hy2 Hy3]]].
    eexists _, _, _. split; [reflexivity|]. split.
    { unfold loc_inv. cbn. rewrite Hy1, Hy2. split; [exact Li1 | discriminate]. }
    intros s1' (E1 & E2 & E3 & E4 & E5 & E8). cbn in E1, E2, E3, E4, E5, E8.
    unfold apply_backward.
    assert (Hk : core_of s1' = y) by (unfold core_of; rewrite E3, E5; destruct y; reflexivity).
    rewrite Hk, Hb. cbn [bind]. rewrite Hfx.
    eexists. split.
    { unfold ctxid_of. rewrite Hy1, Hy3. unfold change_removes, change_adds, ctxid_of. rewrite Hy1, Hy3. reflexivity. }
    unfold eqm; cbn. unfold core_of; cbn. repeat split; auto.
  - (* SecondLevelSpent *)
    destruct Hp as [cl [Hcl Hs]].
    assert (Hy : exists cl', snd y = Some cl' /\ fst y = fo s).
    { cbn [core_fwd] in Hf. unfold with_closing in Hf. rewrite Hcl in Hf. apply bind_ok in Hf. destruct Hf as [cl' [E Hf]].
      inversion Hf; subst. exists cl'. cbn. auto. }
    destruct Hy as [cl' [Hy1 Hy2]].
    eexists _, _, _. split; [reflexivity|]. split.
    { unfold loc_inv. cbn. rewrite Hy1, Hy2. split; [exact Li1 | discriminate]. }
    intros s1' (E1 & E2 & E3 & E4 & E5 & E8). cbn in E1, E2, E3, E4, E5, E8.
    unfold apply_backward.
    assert (Hk : core_of s1' = y) by (unfold core_of; rewrite E3, E5; destruct y; reflexivity).
    rewrite Hk, Hb. cbn [bind]. rewrite Hfx.
    eexists. split; [reflexivity|].
    unfold eqm; cbn. unfold core_of; cbn. repeat split; auto.
Qed.

Lemma apply_all_app f a : forall s b s1 A1 R1 s2 A2 R2,
  apply_all f s a = Ok (s1, A1, R1) -> apply_all f s1 b = Ok (s2, A2, R2) ->
  apply_all f s (a ++ b) = Ok (s2, A1 ++ A2, R1 ++ R2).
Proof.
  induction a as [|c r IH]; intros s b s1 A1 R1 s2 A2 R2 H1 H2; cbn [apply_all app] in *.
  - inversion H1; subst. exact H2.
  - apply bind_ok in H1. destruct H1 as [[[sa Aa] Ra] [E1 H1]].
    apply bind_ok in H1. destruct H1 as [[[sb Ab] Rb] [E2 H1]]. inversion H1; subst.
    rewrite E1. cbn [bind]. rewrite (IH _ _ _ _ _ _ _ _ E2 H2). cbn [bind]. rewrite <- !app_assoc. reflexivity.
Qed.

Lemma apply_all_fwd_core cs : forall s s1 A R,
  apply_all apply_forward s cs = Ok (s1, A, R) ->
  core_fwds (core_of s) cs = Ok (core_of s1) /\ height s1 = height s.
Proof.
  induction cs as [|c r IH]; intros s s1 A R H; cbn [apply_all core_fwds] in *.
  - inversion H; subst. auto.
  - apply bind_ok in H. destruct H as [[[sa Aa] Ra] [E1 H]].
    apply bind_ok in H. destruct H as [[[sb Ab] Rb] [E2 H]]. inversion H; subst.
    destruct (apply_forward_core _ _ _ _ _ E1) as [H1 H2]. rewrite H1. cbn [bind].
    destruct (IH _ _ _ _ E2) as [G1 G2]. split; [exact G1 | congruence].
Qed.

Lemma fwd_bwd_all fx cs : same_deltas fx = true -> forall s,
  chain_cpre (core_of s) cs -> loc_inv s ->
  exists s1 A R, apply_all apply_forward s cs = Ok (s1, A, R) /\ loc_inv s1 /\
    forall s1', eqm s1' s1 ->
      exists s' A' R', apply_all (apply_backward fx) s1' (rev cs) = Ok (s', A', R') /\ eqm s' s
        /\ (forall o, In o A' <-> In o A) /\ (forall o, In o R' <-> In o R).
Proof.
  intros Hfx. induction cs as [|c r IH]; intros s Hc Hl.
  - exists s, [], []. cbn [apply_all rev]. split; [reflexivity|]. split; [exact Hl|].
    intros s1' He. exists s1', [], []. split; [reflexivity|]. split; [exact He|]. split; intros o; tauto.
  - cbn [chain_cpre] in Hc. destruct Hc as [Hp Hr].
    destruct (fwd_bwd_step fx s c Hfx Hp Hl) as [sa [A1 [R1 [Hf [Hla Hb]]]]].
    destruct (apply_forward_core _ _ _ _ _ Hf) as [Hk _].
    destruct (IH sa (Hr _ Hk) Hla) as [s1 [A2 [R2 [Hf2 [Hl1 Hb2]]]]].
    exists s1, (A1 ++ A2), (R1 ++ R2). split.
    { cbn [apply_all]. rewrite Hf. cbn [bind]. rewrite Hf2. reflexivity. }
    split; [exact Hl1|].
    intros s1' He. destruct (Hb2 s1' He) as [sa' [A2' [R2' [G1 [G2 [G3 G4]]]]]].
    destruct (Hb sa' G2) as [s' [G5 G6]].
    exists s', (A2' ++ A1 ++ []), (R2' ++ R1 ++ []). split.
    { cbn [rev]. eapply apply_all_app; [exact G1|]. cbn [apply_all]. rewrite G5. reflexivity. }
    split; [exact G6|].
    split; intros o; rewrite !in_app_iff; cbn [In]; [rewrite G3 | rewrite G4]; tauto.
Qed.

(** ** the two heights that are undone per block rather than per change *)
Definition dfw1 (h : N) (c : change) (d : option N) : option N :=
  match c with
  | FundingConfirmed _ => None
  | FundingInputSpent _ => match d with Some x => Some x | None => Some h end
  | _ => d
  end.
Definition dbw1 (h : N) (c : change) (d : option N) : option N :=
  match c with
  | FundingInputSpent _ => if opt_eqb d h then None else d
  | _ => d
  end.
Definition mfw1 (h : N) (c : change) (m : option N) : option N :=
  match c with MutualClose _ _ => Some h | _ => m end.
Definition mbw1 (c : change) (m : option N) : option N :=
  match c with MutualClose _ _ => None | _ => m end.

Lemma fwd_proj s c s1 A R :
  apply_forward s c = Ok (s1, A, R) ->
  dsh s1 = dfw1 (height s) c (dsh s) /\ mutual_h s1 = mfw1 (height s) c (mutual_h s) /\ height s1 = height s.
Proof.
  unfold apply_forward. intros H. apply bind_ok in H. destruct H as [k [E H]]. inversion H; subst. clear H.
  destruct c; cbn; auto.
Qed.
Lemma bwd_proj fx s c s1 A R :
  apply_backward fx s c = Ok (s1, A, R) ->
  dsh s1 = dbw1 (height s) c (dsh s) /\ mutual_h s1 = mbw1 c (mutual_h s) /\ height s1 = height s.
Proof.
  unfold apply_backward. intros H. destruct c.
  - destruct (opt_eqb (funding_height s) (height s)); [|discriminate]. inversion H; subst. cbn. auto.
  - inversion H; subst. cbn. auto.
  - destruct (opt_eqb (unilateral_h s) (height s)); [|discriminate]. inversion H; subst. cbn. auto.
  - inversion H; subst. cbn. auto.
  - apply bind_ok in H. destruct H as [k [E H]]. inversion H; subst. cbn. auto.
  - apply bind_ok in H. destruct H as [k [E H]]. destruct (same_deltas fx); inversion H; subst; cbn; auto.
  - apply bind_ok in H. destruct H as [k [E H]]. destruct (same_deltas fx); inversion H; subst; cbn; auto.
Qed.

Lemma fwd_all_proj cs : forall s s1 A R,
  apply_all apply_forward s cs = Ok (s1, A, R) ->
  dsh s1 = fold_left (fun d c => dfw1 (height s) c d) cs (dsh s)
  /\ mutual_h s1 = fold_left (fun m c => mfw1 (height s) c m) cs (mutual_h s)
  /\ height s1 = height s.
Proof.
  induction cs as [|c r IH]; intros s s1 A R H; cbn [apply_all fold_left] in *.
  - inversion H; subst. auto.
  - apply bind_ok in H. destruct H as [[[sa Aa] Ra] [E1 H]].
    apply bind_ok in H. destruct H as [[[sb Ab] Rb] [E2 H]]. inversion H; subst.
    destruct (fwd_proj _ _ _ _ _ E1) as [H1 [H2 H3]]. destruct (IH _ _ _ _ E2) as [G1 [G2 G3]].
    rewrite H3 in G1, G2. rewrite H1 in G1. rewrite H2 in G2. split; [exact G1|]. split; [exact G2 | congruence].
Qed.
Lemma bwd_all_proj fx cs : forall s s1 A R,
  apply_all (apply_backward fx) s cs = Ok (s1, A, R) ->
  dsh s1 = fold_left (fun d c => dbw1 (height s) c d) cs (dsh s)
  /\ mutual_h s1 = fold_left (fun m c => mbw1 c m) cs (mutual_h s)
  /\ height s1 = height s.
Proof.
  induction cs as [|c r IH]; intros s s1 A R H; cbn [apply_all fold_left] in *.
  - inversion H; subst. auto.
  - apply bind_ok in H. destruct H as [[[sa Aa] Ra] [E1 H]].
    apply bind_ok in H. destruct H as [[[sb Ab] Rb] [E2 H]]. inversion H; subst.
    destruct (bwd_proj _ _ _ _ _ _ E1) as [H1 [H2 H3]]. destruct (IH _ _ _ _ E2) as [G1 [G2 G3]].
    rewrite H3 in G1. rewrite H1 in G1. rewrite H2 in G2. split; [exact G1|]. split; [exact G2 | congruence].
Qed.

Lemma fwd_sw s c s1 A R : apply_forward s c = Ok (s1, A, R) ->
  closing_swept_h s1 = closing_swept_h s /\ our_swept_h s1 = our_swept_h s /\ saw_block s1 = saw_block s.
Proof.
  unfold apply_forward. intros H. apply bind_ok in H. destruct H as [k [E H]]. inversion H; subst. clear H.
  destruct c; cbn; auto.
Qed.
Lemma bwd_sw fx s c s1 A R : apply_backward fx s c = Ok (s1, A, R) ->
  closing_swept_h s1 = closing_swept_h s /\ our_swept_h s1 = our_swept_h s.
Proof.
  unfold apply_backward. intros H. destruct c.
  - destruct (opt_eqb (funding_height s) (height s)); [|discriminate]. inversion H; subst. cbn. auto.
  - inversion H; subst. cbn. auto.
  - destruct (opt_eqb (unilateral_h s) (height s)); [|discriminate]. inversion H; subst. cbn. auto.
  - inversion H; subst. cbn. auto.
  - apply bind_ok in H. destruct H as [k [E H]]. inversion H; subst. cbn. auto.
  - apply bind_ok in H. destruct H as [k [E H]]. destruct (same_deltas fx); inversion H; subst; cbn; auto.
  - apply bind_ok in H. destruct H as [k [E H]]. destruct (same_deltas fx); inversion H; subst; cbn; auto.
Qed.
Lemma fwd_all_sw cs : forall s s1 A R, apply_all apply_forward s cs = Ok (s1, A, R) ->
  closing_swept_h s1 = closing_swept_h s /\ our_swept_h s1 = our_swept_h s /\ saw_block s1 = saw_block s.
Proof.
  induction cs as [|c r IH]; intros s s1 A R H; cbn [apply_all] in *.
  - inversion H; subst. auto.
  - apply bind_ok in H. destruct H as [[[sa Aa] Ra] [E1 H]].
    apply bind_ok in H. destruct H as [[[sb Ab] Rb] [E2 H]]. inversion H; subst.
    destruct (fwd_sw _ _ _ _ _ E1) as (H1 & H2 & H3). destruct (IH _ _ _ _ E2) as (G1 & G2 & G3). repeat split; congruence.
Qed.
Lemma bwd_all_sw fx cs : forall s s1 A R, apply_all (apply_backward fx) s cs = Ok (s1, A, R) ->
  closing_swept_h s1 = closing_swept_h s /\ our_swept_h s1 = our_swept_h s.
Proof.
  induction cs as [|c r IH]; intros s s1 A R H; cbn [apply_all] in *.
  - inversion H; subst. auto.
  - apply bind_ok in H. destruct H as [[[sa Aa] Ra] [E1 H]].
    apply bind_ok in H. destruct H as [[[sb Ab] Rb] [E2 H]]. inversion H; subst.
    destruct (bwd_sw _ _ _ _ _ _ E1) as (H1 & H2). destruct (IH _ _ _ _ E2) as (G1 & G2). split; congruence.
Qed.

Definition is_fc (c : change) : bool := match c with FundingConfirmed _ => true | _ => false end.
Definition is_fis (c : change) : bool := match c with FundingInputSpent _ => true | _ => false end.
Definition is_mutual (c : change) : bool := match c with MutualClose _ _ => true | _ => false end.

Lemma dbw_none h cs : fold_left (fun d c => dbw1 h c d) cs None = None.
Proof. induction cs as [|c r IH]; cbn [fold_left]; [reflexivity|]. destruct c; cbn [dbw1 opt_eqb]; exact IH. Qed.
Lemma dbw_other h x cs : x <> h -> fold_left (fun d c => dbw1 h c d) cs (Some x) = Some x.
Proof.
  intros Hx. induction cs as [|c r IH]; cbn [fold_left]; [reflexivity|].
  destruct c; cbn [dbw1 opt_eqb]; try exact IH.
  destruct (x =? h) eqn:E; [apply N.eqb_eq in E; contradiction | exact IH].
Qed.
Lemma dbw_hit h cs : existsb is_fis cs = true -> fold_left (fun d c => dbw1 h c d) cs (Some h) = None.
Proof.
  induction cs as [|c r IH]; cbn [existsb fold_left]; [discriminate|].
  destruct c; cbn [is_fis orb dbw1]; try exact IH.
  intros _. cbn [opt_eqb]. rewrite N.eqb_refl. apply dbw_none.
Qed.
Lemma dfw_some h x cs : existsb is_fc cs = false -> fold_left (fun d c => dfw1 h c d) cs (Some x) = Some x.
Proof.
  induction cs as [|c r IH]; cbn [existsb fold_left]; [reflexivity|].
  destruct c; cbn [is_fc orb dfw1]; try exact IH. discriminate.
Qed.
Lemma dfw_range h cs : forall d, (d = None \/ d = Some h) ->
  let d' := fold_left (fun d c => dfw1 h c d) cs d in
  d' = None \/ (d' = Some h /\ (d = Some h \/ existsb is_fis cs = true)).
Proof.
  induction cs as [|c r IH]; intros d Hd; cbn [fold_left existsb].
  - destruct Hd as [-> | ->]; [left; reflexivity | right; auto].
  - destruct c; cbn [dfw1 is_fis orb].
    + destruct (IH None (or_introl eq_refl)) as [H | [H [H' | H']]]; [left; exact H | discriminate | right; auto].
    + assert (Hd' : (match d with Some x => Some x | None => Some h end) = Some h) by (destruct Hd as [-> | ->]; reflexivity).
      rewrite Hd'. destruct (IH (Some h) (or_intror eq_refl)) as [H | [H _]]; [left; exact H | right; auto].
    + destruct (IH d Hd) as [H | [H [H' | H']]]; [left; exact H | right; auto | right; auto].
    + destruct (IH d Hd) as [H | [H [H' | H']]]; [left; exact H | right; auto | right; auto].
    + destruct (IH d Hd) as [H | [H [H' | H']]]; [left; exact H | right; auto | right; auto].
    + destruct (IH d Hd) as [H | [H [H' | H']]]; [left; exact H | right; auto | right; auto].
    + destruct (IH d Hd) as [H | [H [H' | H']]]; [left; exact H | right; auto | right; auto].
Qed.
Lemma existsb_rev {A} (p : A -> bool) l : existsb p (rev l) = existsb p l.
Proof.
  induction l as [|x r IH]; cbn [rev existsb]; [reflexivity|].
  rewrite existsb_app, IH. cbn [existsb]. rewrite orb_false_r, orb_comm. reflexivity.
Qed.

Lemma dsh_undo h cs d0 :
  d0 <> Some h -> (existsb is_fc cs = true -> d0 = None) ->
  fold_left (fun d c => dbw1 h c d) (rev cs) (fold_left (fun d c => dfw1 h c d) cs d0) = d0.
Proof.
  intros Hn Hfc. destruct d0 as [x|].
  - assert (Hno : existsb is_fc cs = false) by (destruct (existsb is_fc cs); [specialize (Hfc eq_refl); discriminate | reflexivity]).
    rewrite dfw_some by exact Hno. apply dbw_other. congruence.
  - destruct (dfw_range h cs None (or_introl eq_refl)) as [H | [H [H' | H']]]; cbn zeta in *.
    + rewrite H. apply dbw_none.
    + discriminate.
    + rewrite H. apply dbw_hit. rewrite existsb_rev. exact H'.
Qed.

Lemma mbw_none cs : fold_left (fun m c => mbw1 c m) cs None = None.
Proof. induction cs as [|c r IH]; cbn [fold_left]; [reflexivity|]. destruct c; cbn [mbw1]; exact IH. Qed.
Lemma mbw_hit cs : forall m, existsb is_mutual cs = true -> fold_left (fun m c => mbw1 c m) cs m = None.
Proof.
  induction cs as [|c r IH]; intros m; cbn [existsb fold_left]; [discriminate|].
  destruct c; cbn [is_mutual orb mbw1]; try apply IH. intros _. apply mbw_none.
Qed.
Lemma mfw_id h cs : forall m, existsb is_mutual cs = false -> fold_left (fun m c => mfw1 h c m) cs m = m.
Proof.
  induction cs as [|c r IH]; intros m; cbn [existsb fold_left]; [reflexivity|].
  destruct c; cbn [is_mutual orb mfw1]; try apply IH. discriminate.
Qed.
Lemma mbw_id cs : forall m, existsb is_mutual cs = false -> fold_left (fun m c => mbw1 c m) cs m = m.
Proof.
  induction cs as [|c r IH]; intros m; cbn [existsb fold_left]; [reflexivity|].
  destruct c; cbn [is_mutual orb mbw1]; try apply IH. discriminate.
Qed.
Lemma mutual_undo h cs m0 :
  (existsb is_mutual cs = true -> m0 = None) ->
  fold_left (fun m c => mbw1 c m) (rev cs) (fold_left (fun m c => mfw1 h c m) cs m0) = m0.
Proof.
  intros Hm. destruct (existsb is_mutual cs) eqn:E.
  - rewrite (Hm eq_refl). apply mbw_hit. rewrite existsb_rev. exact E.
  - rewrite mfw_id by exact E. apply mbw_id. rewrite existsb_rev. exact E.
Qed.
