(** C04: the decoder inverts the builder on every canonical commitment, and what the two
    signing entry points of Model/Commitment.v return.

    Everything is proved inside one section whose variables are the external primitives
    (hashes, public-key parsing, the signer, the validation verdict) and whose hypotheses are
    the facts assumed about them; after the section closes they are premises of every theorem. *)
From Coq Require Import List NArith ZArith Bool Lia Permutation.
From VLS Require Import Base.Codec Model.Commitment Proofs.CommitmentScript Proofs.CommitmentSort.
Import ListNotations.
Open Scope N_scope.

(** * boolean equalities are equalities *)
Lemma list_eqb_eq {A} (e : A -> A -> bool) :
  (forall a b, e a b = true -> a = b) -> forall x y, list_eqb e x y = true -> x = y.
Proof.
  intros He. induction x as [|a x IH]; intros [|b y] H; cbn [list_eqb] in H; try discriminate; [reflexivity|].
  apply andb_true_iff in H. destruct H as [H1 H2]. f_equal; [apply He; exact H1|apply IH; exact H2].
Qed.
Lemma list_eqb_refl {A} (e : A -> A -> bool) : (forall a, e a a = true) -> forall x, list_eqb e x x = true.
Proof. intros He. induction x as [|a x IH]; cbn [list_eqb]; [reflexivity|]. rewrite He, IH. reflexivity. Qed.
Lemma bytes_eqb_true a b : bytes_eqb a b = true -> a = b.
Proof. apply bytes_eqb_eq. Qed.
Lemma bytes_eqb_refl a : bytes_eqb a a = true.
Proof. apply bytes_eqb_eq. reflexivity. Qed.

Lemma txout_eqb_eq a b : txout_eqb a b = true -> a = b.
Proof.
  destruct a as [va sa], b as [vb sb]. unfold txout_eqb. cbn [o_value o_spk]. intros H.
  apply andb_true_iff in H. destruct H as [H1 H2]. apply N.eqb_eq in H1. apply bytes_eqb_true in H2.
  subst. reflexivity.
Qed.
Lemma txout_eqb_refl a : txout_eqb a a = true.
Proof. unfold txout_eqb. rewrite N.eqb_refl, bytes_eqb_refl. reflexivity. Qed.
Lemma txin_eqb_eq a b : txin_eqb a b = true -> a = b.
Proof.
  destruct a as [a1 a2 a3 a4 a5], b as [b1 b2 b3 b4 b5]. unfold txin_eqb.
  cbn [i_txid i_vout i_script i_seq i_wit]. intros H.
  apply andb_true_iff in H; destruct H as [H E5]. apply andb_true_iff in H; destruct H as [H E4].
  apply andb_true_iff in H; destruct H as [H E3]. apply andb_true_iff in H; destruct H as [E1 E2].
  apply bytes_eqb_true in E1. apply N.eqb_eq in E2. apply bytes_eqb_true in E3. apply N.eqb_eq in E4.
  apply (list_eqb_eq bytes_eqb bytes_eqb_true) in E5. subst. reflexivity.
Qed.
Lemma txin_eqb_refl a : txin_eqb a a = true.
Proof.
  unfold txin_eqb. rewrite !bytes_eqb_refl, !N.eqb_refl, (list_eqb_refl bytes_eqb bytes_eqb_refl). reflexivity.
Qed.
Lemma tx_eqb_eq a b : tx_eqb a b = true -> a = b.
Proof.
  destruct a as [a1 a2 a3 a4], b as [b1 b2 b3 b4]. unfold tx_eqb. cbn [t_version t_ins t_outs t_lock]. intros H.
  apply andb_true_iff in H; destruct H as [H E4]. apply andb_true_iff in H; destruct H as [H E3].
  apply andb_true_iff in H; destruct H as [E1 E2].
  apply N.eqb_eq in E1. apply (list_eqb_eq txin_eqb txin_eqb_eq) in E2.
  apply (list_eqb_eq txout_eqb txout_eqb_eq) in E3. apply N.eqb_eq in E4. subst. reflexivity.
Qed.
Lemma tx_eqb_refl a : tx_eqb a a = true.
Proof.
  unfold tx_eqb. rewrite !N.eqb_refl, (list_eqb_refl txin_eqb txin_eqb_refl),
    (list_eqb_refl txout_eqb txout_eqb_refl). reflexivity.
Qed.

(** * the LDK builders are instances of the templates vls-core parses *)
Lemma push_int_1 : push_int 1 = [OP_1]. Proof. reflexivity. Qed.
Lemma push_int_2 : push_int 2 = [OP_2]. Proof. reflexivity. Qed.
Lemma push_int_16 : push_int 16 = [OP_16]. Proof. reflexivity. Qed.

Lemma revokeable_as_tmpl r d k :
  revokeable_script r d k = build_tmpl t_to_broadcaster [VData r; VNum (Z.of_N d); VData k].
Proof.
  unfold revokeable_script, t_to_broadcaster. cbn [build_tmpl app]. rewrite N2Z.id. reflexivity.
Qed.

Lemma to_cs_as_tmpl p :
  to_countersigner_anchors_script p = build_tmpl t_to_countersigner_delayed [VData p].
Proof.
  unfold to_countersigner_anchors_script, t_to_countersigner_delayed. rewrite push_int_1.
  cbn [build_tmpl app]. reflexivity.
Qed.

Lemma anchor_as_tmpl f : anchor_script f = build_tmpl t_anchor [VData f].
Proof.
  unfold anchor_script, t_anchor. rewrite push_int_16. cbn [build_tmpl app].
  rewrite <- ?app_assoc. cbn [app]. reflexivity.
Qed.

Lemma csv1_as_tmpl zf rest :
  csv1_suffix zf ++ rest = build_tmpl (t_anchor_suffix zf) [] ++ rest.
Proof. destruct zf; reflexivity. Qed.

Lemma build_tmpl_ops_app (t1 t2 : list titem) vs :
  (forall i, In i t1 -> exists op, i = TOp op) ->
  build_tmpl (t1 ++ t2) vs = build_tmpl t1 [] ++ build_tmpl t2 vs.
Proof.
  induction t1 as [|i t1 IH]; intros H; cbn [app build_tmpl]; [reflexivity|].
  destruct (H i (or_introl eq_refl)) as [op ->]. cbn [build_tmpl app]. f_equal.
  apply IH. intros j Hj. apply H. right. exact Hj.
Qed.
Lemma anchor_suffix_ops a i : In i (t_anchor_suffix a) -> exists op, i = TOp op.
Proof. destruct a; cbn; intros H; repeat (destruct H as [<-|H]; [eexists; reflexivity|]); contradiction. Qed.

Lemma offered_as_tmpl zf r160 ck bk p160 :
  offered_htlc_script zf r160 ck bk p160
  = build_tmpl (t_offered_htlc zf) [VData r160; VData ck; VData bk; VData p160].
Proof.
  unfold offered_htlc_script, t_offered_htlc. rewrite push_int_2.
  cbn [build_tmpl app]. change (Z.to_N 32) with 32.
  repeat (rewrite <- ?app_assoc; cbn [app]). repeat f_equal.
  rewrite build_tmpl_ops_app by apply anchor_suffix_ops. cbn [build_tmpl].
  destruct zf; reflexivity.
Qed.

Lemma received_as_tmpl zf r160 ck bk p160 cltv :
  received_htlc_script zf r160 ck bk p160 cltv
  = build_tmpl (t_received_htlc zf) [VData r160; VData ck; VData p160; VData bk; VNum (Z.of_N cltv)].
Proof.
  unfold received_htlc_script, t_received_htlc. rewrite push_int_2.
  cbn [build_tmpl app]. change (Z.to_N 32) with 32. rewrite N2Z.id.
  repeat (rewrite <- ?app_assoc; cbn [app]). repeat f_equal.
  rewrite build_tmpl_ops_app by apply anchor_suffix_ops. cbn [build_tmpl].
  destruct zf; reflexivity.
Qed.

(** * the decoder on canonical outputs *)
Section Decode.
  Variable sha rip : bytes -> bytes.
  Variable pk_parse : bytes -> option bytes.
  Hypothesis sha_len : forall x, length (sha x) = 32%nat.
  Hypothesis rip_len : forall x, length (rip x) = 20%nat.
  Variable s : setup.
  Variable k : ckeys.

  (** what the round trip needs of the channel: the commitment type is one LDK builds as
      negotiated, the delay is one the decoder admits, the keys are serialised points *)
  Record wf : Prop := mkWf {
    wf_ctype : s_ctype s <> Anchors;
    wf_delay : s_delay s <= 2016;
    wf_l_rev : length (k_revocation k) = 33%nat;
    wf_l_delayed : length (k_delayed k) = 33%nat;
    wf_l_bh : length (k_b_htlc k) = 33%nat;
    wf_l_ch : length (k_c_htlc k) = 33%nat;
    wf_l_pay : length (s_holder_payment s) = 33%nat;
    wf_l_cpf : length (s_cp_funding s) = 33%nat;
    wf_l_hf : length (s_holder_funding s) = 33%nat;
    wf_pk_rev : pk_parse (k_revocation k) <> None;
    wf_pk_delayed : pk_parse (k_delayed k) <> None;
    wf_pk_pay : pk_parse (s_holder_payment s) <> None;
    wf_pk_cpf : pk_parse (s_cp_funding s) = Some (s_cp_funding s);
    wf_pk_hf : pk_parse (s_holder_funding s) = Some (s_holder_funding s);
  }.
  Hypothesis W : wf.

  Local Notation handle := (handle_output sha pk_parse s).
  Local Notation A := (anchors s).
  Local Notation ZF := (zf s).

  Lemma anchors_zf : A = ZF.
  Proof. pose proof (wf_ctype W) as H. unfold anchors, zf. destruct (s_ctype s); try reflexivity. contradiction. Qed.

  Lemma is_p2wpkh_p2wsh x : is_p2wpkh (p2wsh sha x) = false.
  Proof. reflexivity. Qed.
  Lemma is_p2wsh_p2wsh x : is_p2wsh (p2wsh sha x) = true.
  Proof. unfold is_p2wsh, p2wsh. rewrite sha_len. reflexivity. Qed.
  Lemma is_p2wpkh_p2wpkh h : length h = 20%nat -> is_p2wpkh (p2wpkh h) = true.
  Proof. intros H. unfold is_p2wpkh, p2wpkh. rewrite H. reflexivity. Qed.

  (** the template cascade of [handle_output] for a p2wsh output *)
  Definition cascade (i : info) (v : N) (ws : bytes) : option info :=
    match parse_tmpl t_to_broadcaster ws with
    | Some vals => handle_to_broadcaster pk_parse i v vals
    | None =>
    match parse_tmpl (t_received_htlc A) ws with
    | Some vals => handle_received_htlc i v vals
    | None =>
    match parse_tmpl (t_offered_htlc A) ws with
    | Some vals => handle_offered_htlc i v vals
    | None =>
    match parse_tmpl t_anchor ws with
    | Some vals => handle_anchor pk_parse s i v vals
    | None =>
    if A then
      match parse_tmpl t_to_countersigner_delayed ws with
      | Some vals => handle_to_countersigner_delayed pk_parse i v vals
      | None => None
      end
    else None
    end end end end.

  Lemma handle_p2wsh i v ws : ws <> [] -> handle i (mkOut v (p2wsh sha ws)) ws = cascade i v ws.
  Proof.
    intros H. destruct ws as [|b ws]; [contradiction|].
    unfold handle_output. cbn [o_spk o_value].
    rewrite is_p2wpkh_p2wsh, is_p2wsh_p2wsh, bytes_eqb_refl. reflexivity.
  Qed.

  (** side conditions of the template round trip *)
  Ltac opc := first [reflexivity | lia].
  Lemma len33 (x : bytes) : length x = 33%nat -> (length x < 76)%nat. Proof. lia. Qed.
  Lemma len20 (x : bytes) : length x = 20%nat -> (length x < 76)%nat. Proof. lia. Qed.
  Lemma rev160_len : (length (rev160 sha rip k) < 76)%nat.
  Proof. unfold rev160, hash160. rewrite rip_len. lia. Qed.
  Lemma z31_of_N n : n < 2 ^ 31 -> (0 <= Z.of_N n < 2 ^ 31)%Z.
  Proof. change (2 ^ 31) with 2147483648. change (2 ^ 31)%Z with 2147483648%Z. lia. Qed.

  (** ** to_local *)
  Lemma parse_to_local :
    parse_tmpl t_to_broadcaster (to_local_script s k)
    = Some [VData (k_revocation k); VNum (Z.of_N (s_delay s)); VData (k_delayed k)].
  Proof.
    unfold to_local_script. rewrite revokeable_as_tmpl. apply parse_build.
    pose proof (wf_delay W). cbn [wf_tv t_to_broadcaster].
    repeat split; try opc; try (apply len33; apply W);
      try (change (2 ^ 31)%Z with 2147483648%Z; lia).
  Qed.

  Lemma to_local_nonempty : to_local_script s k <> [].
  Proof. unfold to_local_script, revokeable_script. cbn [app]. discriminate. Qed.

  Lemma handle_to_local i v :
    has_b i = false ->
    handle i (mkOut v (p2wsh sha (to_local_script s k))) (to_local_script s k)
    = Some (mkInfo (has_cs i) (cs_value i) (cs_anchors i) true v (s_delay s) (b_anchors i)
                   (i_offered i) (i_received i)).
  Proof.
    intros Hb. rewrite handle_p2wsh by apply to_local_nonempty.
    unfold cascade. rewrite parse_to_local. unfold handle_to_broadcaster. rewrite Hb.
    pose proof (wf_delay W) as Hd.
    destruct (Z.ltb_spec (Z.of_N (s_delay s)) 0); [lia|].
    unfold MAX_DELAY. destruct (Z.ltb_spec 2016 (Z.of_N (s_delay s))); [lia|].
    destruct (pk_parse (k_delayed k)) eqn:E1; [|exfalso; apply (wf_pk_delayed W); exact E1].
    destruct (pk_parse (k_revocation k)) eqn:E2; [|exfalso; apply (wf_pk_rev W); exact E2].
    rewrite N2Z.id, N.mod_small by lia. reflexivity.
  Qed.

  (** ** HTLC outputs *)
  Lemma parse_received (h : htlc) :
    h_cltv h < 2 ^ 31 ->
    parse_tmpl (t_received_htlc ZF)
               (received_htlc_script ZF (rev160 sha rip k) (k_c_htlc k) (k_b_htlc k) (rip (h_hash h)) (h_cltv h))
    = Some [VData (rev160 sha rip k); VData (k_c_htlc k); VData (rip (h_hash h)); VData (k_b_htlc k);
            VNum (Z.of_N (h_cltv h))].
  Proof.
    intros Hc. rewrite received_as_tmpl. apply parse_build.
    unfold t_received_htlc. destruct ZF; cbn [wf_tv t_anchor_suffix app];
      repeat split; try opc; try apply rev160_len; try (apply len33; apply W);
      try (apply len20; apply rip_len); try (apply z31_of_N; exact Hc);
      try (change (2 ^ 31)%Z with 2147483648%Z; lia).
  Qed.

  Lemma parse_offered (h : htlc) :
    parse_tmpl (t_offered_htlc ZF)
               (offered_htlc_script ZF (rev160 sha rip k) (k_c_htlc k) (k_b_htlc k) (rip (h_hash h)))
    = Some [VData (rev160 sha rip k); VData (k_c_htlc k); VData (k_b_htlc k); VData (rip (h_hash h))].
  Proof.
    rewrite offered_as_tmpl. apply parse_build.
    unfold t_offered_htlc. destruct ZF; cbn [wf_tv t_anchor_suffix app];
      repeat split; try opc; try apply rev160_len; try (apply len33; apply W);
      try (apply len20; apply rip_len); try (change (2 ^ 31)%Z with 2147483648%Z; lia).
  Qed.

  (** the received-HTLC template stops on an offered-HTLC script at OP_NOTIF *)
  Lemma received_rejects_offered (a zf0 : bool) r160 ck bk p160 :
    (length r160 < 76)%nat -> (length ck < 76)%nat ->
    parse_tmpl (t_received_htlc a) (offered_htlc_script zf0 r160 ck bk p160) = None.
  Proof.
    intros H1 H2. unfold offered_htlc_script, t_received_htlc. cbn [app].
    rewrite !parse_step_op by opc. rewrite parse_step_data by exact H1.
    rewrite !parse_step_op by opc. rewrite parse_step_data by exact H2.
    rewrite !parse_step_op by opc.
    change (push_int 32) with (push_int (Z.to_N 32)).
    rewrite parse_step_numis by (change (2 ^ 31)%Z with 2147483648%Z; lia).
    rewrite parse_step_op by opc.
    rewrite parse_op_vs_op by (first [reflexivity | discriminate]). reflexivity.
  Qed.

  Lemma to_b_rejects_dup (t : bytes) : parse_tmpl t_to_broadcaster (OP_DUP :: t) = None.
  Proof. unfold t_to_broadcaster. apply parse_op_vs_op; [reflexivity|discriminate]. Qed.
  Lemma to_b_rejects_push (d t : bytes) : (length d < 76)%nat -> parse_tmpl t_to_broadcaster (push_slice d ++ t) = None.
  Proof. intros H. unfold t_to_broadcaster. apply parse_op_vs_push. exact H. Qed.
  Lemma received_rejects_push a (d t : bytes) :
    (length d < 76)%nat -> parse_tmpl (t_received_htlc a) (push_slice d ++ t) = None.
  Proof. intros H. unfold t_received_htlc. cbn [app]. apply parse_op_vs_push. exact H. Qed.
  Lemma offered_rejects_push a (d t : bytes) :
    (length d < 76)%nat -> parse_tmpl (t_offered_htlc a) (push_slice d ++ t) = None.
  Proof. intros H. unfold t_offered_htlc. cbn [app]. apply parse_op_vs_push. exact H. Qed.

  Lemma handle_htlc i (offered : bool) (h : htlc) v :
    (offered = false -> h_cltv h < 2 ^ 31) ->
    exists i', handle i (mkOut v (p2wsh sha (htlc_script sha rip s k offered h))) (htlc_script sha rip s k offered h)
               = Some i'
               /\ has_cs i' = has_cs i /\ cs_value i' = cs_value i
               /\ has_b i' = has_b i /\ b_value i' = b_value i.
  Proof.
    intros Hc. unfold htlc_script. destruct offered.
    - rewrite handle_p2wsh by (unfold offered_htlc_script; cbn [app]; discriminate).
      unfold cascade. rewrite anchors_zf.
      replace (parse_tmpl t_to_broadcaster _) with (@None (list tval))
        by (unfold offered_htlc_script; cbn [app]; symmetry; apply to_b_rejects_dup).
      rewrite received_rejects_offered by (try apply rev160_len; apply len33; apply W).
      rewrite parse_offered. unfold handle_offered_htlc. rewrite rip_len. cbn [Nat.eqb negb].
      eexists. split; [reflexivity|]. cbn [has_cs cs_value has_b b_value]. repeat split.
    - rewrite handle_p2wsh by (unfold received_htlc_script; cbn [app]; discriminate).
      unfold cascade. rewrite anchors_zf.
      replace (parse_tmpl t_to_broadcaster _) with (@None (list tval))
        by (unfold received_htlc_script; cbn [app]; symmetry; apply to_b_rejects_dup).
      rewrite parse_received by (apply Hc; reflexivity).
      unfold handle_received_htlc. rewrite rip_len. cbn [Nat.eqb negb].
      destruct (Z.ltb_spec (Z.of_N (h_cltv h)) 0); [lia|].
      eexists. split; [reflexivity|]. cbn [has_cs cs_value has_b b_value]. repeat split.
  Qed.

  (** ** anchors and the delayed to_remote (zero-fee anchor channels) *)
  Lemma parse_anchor f : length f = 33%nat -> parse_tmpl t_anchor (anchor_script f) = Some [VData f].
  Proof.
    intros H. rewrite anchor_as_tmpl. apply parse_build. cbn [wf_tv t_anchor].
    repeat split; try opc.
  Qed.

  Lemma handle_anchor_out i f :
    ZF = true -> length f = 33%nat -> f = s_cp_funding s \/ f = s_holder_funding s ->
    exists i', handle i (mkOut ANCHOR_SAT (p2wsh sha (anchor_script f))) (anchor_script f) = Some i'
               /\ has_cs i' = has_cs i /\ cs_value i' = cs_value i
               /\ has_b i' = has_b i /\ b_value i' = b_value i.
  Proof.
    intros Hz Hl Hf.
    rewrite handle_p2wsh by (unfold anchor_script; rewrite push_slice_small by lia; cbn [app]; discriminate).
    unfold cascade. rewrite anchors_zf, Hz.
    unfold anchor_script at 1 2 3.
    rewrite to_b_rejects_push, received_rejects_push, offered_rejects_push by lia.
    rewrite parse_anchor by exact Hl. unfold handle_anchor.
    assert (Hp : pk_parse f = Some f) by (destruct Hf; subst f; apply W).
    rewrite Hp, N.eqb_refl. cbn [negb].
    destruct (bytes_eqb f (s_cp_funding s)) eqn:E1.
    - eexists. split; [reflexivity|]. cbn [has_cs cs_value has_b b_value]. repeat split.
    - destruct Hf as [->| ->]; [rewrite bytes_eqb_refl in E1; discriminate|].
      rewrite bytes_eqb_refl. eexists. split; [reflexivity|]. cbn [has_cs cs_value has_b b_value]. repeat split.
  Qed.

  Lemma anchor_rejects_to_cs p :
    (length p < 76)%nat -> parse_tmpl t_anchor (to_countersigner_anchors_script p) = None.
  Proof.
    intros H. unfold to_countersigner_anchors_script, t_anchor.
    rewrite parse_step_data by exact H. cbn [app].
    rewrite parse_op_vs_op by (first [reflexivity | discriminate]). reflexivity.
  Qed.

  Lemma parse_to_cs p :
    length p = 33%nat ->
    parse_tmpl t_to_countersigner_delayed (to_countersigner_anchors_script p) = Some [VData p].
  Proof.
    intros H. rewrite to_cs_as_tmpl. apply parse_build. cbn [wf_tv t_to_countersigner_delayed].
    repeat split; try opc.
  Qed.

  (** ** to_remote, both shapes *)
  Lemma handle_to_remote i v :
    has_cs i = false ->
    handle i (e_out (to_remote_entry sha rip s v)) (e_ws (to_remote_entry sha rip s v))
    = Some (mkInfo true v (cs_anchors i) (has_b i) (b_value i) (b_delay i) (b_anchors i)
                   (i_offered i) (i_received i)).
  Proof.
    intros Hc. unfold to_remote_entry. pose proof anchors_zf as HA. destruct ZF eqn:Hz.
    - unfold p2wsh_entry. cbn [e_out e_ws].
      pose proof (wf_l_pay W) as Hl.
      rewrite handle_p2wsh
        by (unfold to_countersigner_anchors_script; rewrite push_slice_small by lia; cbn [app]; discriminate).
      unfold cascade. rewrite HA.
      rewrite anchor_rejects_to_cs by lia.
      unfold to_countersigner_anchors_script at 1 2 3.
      rewrite to_b_rejects_push, received_rejects_push, offered_rejects_push by lia.
      rewrite parse_to_cs by exact Hl. unfold handle_to_countersigner_delayed. rewrite Hc.
      destruct (pk_parse (s_holder_payment s)) eqn:E; [reflexivity|].
      exfalso. apply (wf_pk_pay W). exact E.
    - cbn [e_out e_ws]. unfold handle_output. cbn [o_spk o_value].
      rewrite is_p2wpkh_p2wpkh by (unfold hash160; apply rip_len).
      rewrite HA, Hc. reflexivity.
  Qed.

  (** * folding the decoder over the sorted outputs *)

  (** each canonical output is the to_remote, the to_local, or leaves both balances alone *)
  Inductive eclass := CRemote (v : N) | CLocal (v : N) | COther.
  Definition core (i : info) : bool * N * bool * N := (has_cs i, cs_value i, has_b i, b_value i).

  Definition handle_ok (p : oentry * eclass) : Prop :=
    let e := fst p in
    match snd p with
    | CRemote v => forall i, has_cs i = false ->
        exists i', handle i (e_out e) (e_ws e) = Some i' /\ core i' = (true, v, has_b i, b_value i)
    | CLocal v => forall i, has_b i = false ->
        exists i', handle i (e_out e) (e_ws e) = Some i' /\ core i' = (has_cs i, cs_value i, true, v)
    | COther => forall i, exists i', handle i (e_out e) (e_ws e) = Some i' /\ core i' = core i
    end.

  Fixpoint tsum (g : eclass -> N) (l : list (oentry * eclass)) : N :=
    match l with [] => 0 | x :: r => g (snd x) + tsum g r end.
  Definition is_remote (c : eclass) : N := match c with CRemote _ => 1 | _ => 0 end.
  Definition remote_val (c : eclass) : N := match c with CRemote v => v | _ => 0 end.
  Definition is_local (c : eclass) : N := match c with CLocal _ => 1 | _ => 0 end.
  Definition local_val (c : eclass) : N := match c with CLocal v => v | _ => 0 end.

  Lemma tsum_app g l1 l2 : tsum g (l1 ++ l2) = tsum g l1 + tsum g l2.
  Proof. induction l1 as [|x l1 IH]; cbn [tsum app]; lia. Qed.
  Lemma tsum_perm g l l' : Permutation l l' -> tsum g l = tsum g l'.
  Proof.
    induction 1; cbn [tsum]; try lia; congruence.
  Qed.
  Lemma tsum_other g {X} (f : X -> oentry) (l : list X) :
    g COther = 0 -> tsum g (map (fun h => (f h, COther)) l) = 0.
  Proof. intros H. induction l as [|x l IH]; cbn [map tsum snd]; [reflexivity|]. lia. Qed.
  Lemma remote_val_zero l : tsum is_remote l = 0 -> tsum remote_val l = 0.
  Proof.
    induction l as [|[e c] l IH]; cbn [tsum snd]; [reflexivity|].
    destruct c; cbn [is_remote remote_val]; lia.
  Qed.
  Lemma local_val_zero l : tsum is_local l = 0 -> tsum local_val l = 0.
  Proof.
    induction l as [|[e c] l IH]; cbn [tsum snd]; [reflexivity|].
    destruct c; cbn [is_local local_val]; lia.
  Qed.

  Definition pairs (l : list (oentry * eclass)) : list (txout * bytes) :=
    map (fun p => (e_out (fst p), e_ws (fst p))) l.

  Lemma decode_tagged : forall l i,
    Forall handle_ok l ->
    (has_cs i = true -> tsum is_remote l = 0) ->
    (has_b i = true -> tsum is_local l = 0) ->
    tsum is_remote l <= 1 -> tsum is_local l <= 1 ->
    exists i', decode_outputs sha pk_parse s i (pairs l) = Some i'
      /\ cs_value i' = (if tsum is_remote l =? 0 then cs_value i else tsum remote_val l)
      /\ b_value i' = (if tsum is_local l =? 0 then b_value i else tsum local_val l).
  Proof.
    induction l as [|[e c] l IH]; intros i HF Hcs Hb Hr Hl.
    - exists i. cbn. repeat split.
    - inversion HF as [|? ? Hok HF']; subst.
      cbn [pairs map decode_outputs fst] in *. fold (pairs l).
      cbn [tsum snd] in *.
      unfold handle_ok in Hok. cbn [fst snd] in Hok.
      destruct c as [v|v|]; cbn [is_remote is_local remote_val local_val] in *.
      + (* to_remote *)
        assert (Hr0 : tsum is_remote l = 0) by lia.
        assert (Hci : has_cs i = false) by (destruct (has_cs i); [specialize (Hcs eq_refl); lia|reflexivity]).
        destruct (Hok i Hci) as [i1 [E1 C1]]. rewrite E1. unfold core in C1. inversion C1 as [[A1 A2 A3 A4]].
        assert (P1 : has_cs i1 = true -> tsum is_remote l = 0) by (intros _; exact Hr0).
        assert (P2 : has_b i1 = true -> tsum is_local l = 0) by (rewrite A3; intros Hx; specialize (Hb Hx); lia).
        destruct (IH i1 HF' P1 P2) as [i2 [E2 [V1 V2]]]; try lia.
        exists i2. split; [exact E2|]. rewrite V1, V2, Hr0, A2, A4. rewrite (remote_val_zero l Hr0).
        replace (1 + 0 =? 0) with false by reflexivity. cbn [N.eqb].
        split; [lia|]. replace (0 + tsum is_local l) with (tsum is_local l) by lia.
        replace (0 + tsum local_val l) with (tsum local_val l) by lia. reflexivity.
      + (* to_local *)
        assert (Hl0 : tsum is_local l = 0) by lia.
        assert (Hbi : has_b i = false) by (destruct (has_b i); [specialize (Hb eq_refl); lia|reflexivity]).
        destruct (Hok i Hbi) as [i1 [E1 C1]]. rewrite E1. unfold core in C1. inversion C1 as [[A1 A2 A3 A4]].
        assert (P1 : has_cs i1 = true -> tsum is_remote l = 0) by (rewrite A1; intros Hx; specialize (Hcs Hx); lia).
        assert (P2 : has_b i1 = true -> tsum is_local l = 0) by (intros _; exact Hl0).
        destruct (IH i1 HF' P1 P2) as [i2 [E2 [V1 V2]]]; try lia.
        exists i2. split; [exact E2|]. rewrite V1, V2, Hl0, A2, A4. rewrite (local_val_zero l Hl0).
        replace (1 + 0 =? 0) with false by reflexivity. cbn [N.eqb].
        split; [|lia]. replace (0 + tsum is_remote l) with (tsum is_remote l) by lia.
        replace (0 + tsum remote_val l) with (tsum remote_val l) by lia. reflexivity.
      + destruct (Hok i) as [i1 [E1 C1]]. rewrite E1. unfold core in C1. inversion C1 as [[A1 A2 A3 A4]].
        assert (P1 : has_cs i1 = true -> tsum is_remote l = 0) by (rewrite A1; intros Hx; specialize (Hcs Hx); lia).
        assert (P2 : has_b i1 = true -> tsum is_local l = 0) by (rewrite A3; intros Hx; specialize (Hb Hx); lia).
        destruct (IH i1 HF' P1 P2) as [i2 [E2 [V1 V2]]]; try lia.
        exists i2. split; [exact E2|]. rewrite V1, V2, A2, A4.
        replace (0 + tsum is_remote l) with (tsum is_remote l) by lia.
        replace (0 + tsum is_local l) with (tsum is_local l) by lia.
        replace (0 + tsum remote_val l) with (tsum remote_val l) by lia.
        replace (0 + tsum local_val l) with (tsum local_val l) by lia. split; reflexivity.
  Qed.

  (** the sort, carrying the tags along *)
  Fixpoint insert_t (x : oentry * eclass) (l : list (oentry * eclass)) : list (oentry * eclass) :=
    match l with
    | [] => [x]
    | y :: r => if entry_leb (fst x) (fst y) then x :: l else y :: insert_t x r
    end.
  Definition sort_t (l : list (oentry * eclass)) : list (oentry * eclass) := fold_right insert_t [] l.

  Lemma insert_t_fst x l : map fst (insert_t x l) = insert_entry (fst x) (map fst l).
  Proof.
    induction l as [|y r IH]; cbn [insert_t insert_entry map]; [reflexivity|].
    destruct (entry_leb (fst x) (fst y)); cbn [map]; [reflexivity|]. rewrite IH. reflexivity.
  Qed.
  Lemma sort_t_fst l : map fst (sort_t l) = sort_entries (map fst l).
  Proof.
    induction l as [|x l IH]; cbn [sort_t sort_entries fold_right map]; [reflexivity|].
    fold (sort_t l) (sort_entries (map fst l)). rewrite insert_t_fst, IH. reflexivity.
  Qed.
  Lemma insert_t_perm x l : Permutation (insert_t x l) (x :: l).
  Proof.
    induction l as [|y r IH]; cbn [insert_t]; [reflexivity|].
    destruct (entry_leb (fst x) (fst y)); [reflexivity|]. rewrite IH. apply perm_swap.
  Qed.
  Lemma sort_t_perm l : Permutation (sort_t l) l.
  Proof.
    induction l as [|x l IH]; cbn [sort_t fold_right]; [reflexivity|].
    fold (sort_t l). rewrite insert_t_perm. constructor. exact IH.
  Qed.

  (** the entries of a content, tagged *)
  Definition has_htlcs (c : content) : bool :=
    negb (match c_offered c, c_received c with [], [] => true | _, _ => false end).
  Definition tentries (c : content) : list (oentry * eclass) :=
    (if 0 <? c_to_holder c then [(to_remote_entry sha rip s (c_to_holder c), CRemote (c_to_holder c))] else [])
    ++ (if 0 <? c_to_cp c then [(p2wsh_entry sha (c_to_cp c) (to_local_script s k), CLocal (c_to_cp c))] else [])
    ++ (if ZF then
          (if (0 <? c_to_cp c) || has_htlcs c
           then [(p2wsh_entry sha ANCHOR_SAT (anchor_script (s_cp_funding s)), COther)] else [])
          ++ (if (0 <? c_to_holder c) || has_htlcs c
              then [(p2wsh_entry sha ANCHOR_SAT (anchor_script (s_holder_funding s)), COther)] else [])
        else [])
    ++ map (fun h => (htlc_entry sha rip s k true h, COther)) (c_offered c)
    ++ map (fun h => (htlc_entry sha rip s k false h, COther)) (c_received c).

  Lemma tentries_fst c : map fst (tentries c) = entries sha rip s k c.
  Proof.
    unfold tentries, entries, has_htlcs. rewrite !map_app, !map_map. cbn [fst].
    repeat match goal with |- context [if ?b then _ else _] => destruct b end;
      cbn [map app fst]; reflexivity.
  Qed.

  (** received HTLC expiries must be script numbers the decoder can read back *)
  Definition bounded (c : content) : Prop := Forall (fun h => h_cltv h < 2 ^ 31) (c_received c).

  Lemma tentries_ok c : bounded c -> Forall handle_ok (tentries c).
  Proof.
    intros Hb. unfold tentries. rewrite !Forall_app. repeat split.
    - destruct (0 <? c_to_holder c); constructor; [|constructor].
      unfold handle_ok. cbn [fst snd]. intros i Hi. rewrite handle_to_remote by exact Hi.
      eexists. split; [reflexivity|]. reflexivity.
    - destruct (0 <? c_to_cp c); constructor; [|constructor].
      unfold handle_ok, p2wsh_entry. cbn [fst snd e_out e_ws]. intros i Hi. rewrite handle_to_local by exact Hi.
      eexists. split; [reflexivity|]. reflexivity.
    - destruct ZF eqn:Hz; [|constructor]. rewrite Forall_app. split.
      + destruct ((0 <? c_to_cp c) || has_htlcs c); constructor; [|constructor].
        unfold handle_ok, p2wsh_entry. cbn [fst snd e_out e_ws]. intros i.
        destruct (handle_anchor_out i (s_cp_funding s) Hz (wf_l_cpf W) (or_introl eq_refl)) as [i' [E [A1 [A2 [A3 A4]]]]].
        exists i'. split; [exact E|]. unfold core. rewrite A1, A2, A3, A4. reflexivity.
      + destruct ((0 <? c_to_holder c) || has_htlcs c); constructor; [|constructor].
        unfold handle_ok, p2wsh_entry. cbn [fst snd e_out e_ws]. intros i.
        destruct (handle_anchor_out i (s_holder_funding s) Hz (wf_l_hf W) (or_intror eq_refl)) as [i' [E [A1 [A2 [A3 A4]]]]].
        exists i'. split; [exact E|]. unfold core. rewrite A1, A2, A3, A4. reflexivity.
    - apply Forall_forall. intros p Hp. apply in_map_iff in Hp. destruct Hp as [h [<- _]].
      unfold handle_ok, htlc_entry. cbn [fst snd e_out e_ws]. intros i.
      destruct (handle_htlc i true h (htlc_amount (h_value h))) as [i' [E [A1 [A2 [A3 A4]]]]]; [discriminate|].
      exists i'. split; [exact E|]. unfold core. rewrite A1, A2, A3, A4. reflexivity.
    - apply Forall_forall. intros p Hp. apply in_map_iff in Hp. destruct Hp as [h [<- Hin]].
      unfold handle_ok, htlc_entry. cbn [fst snd e_out e_ws]. intros i.
      unfold bounded in Hb. rewrite Forall_forall in Hb.
      destruct (handle_htlc i false h (htlc_amount (h_value h))) as [i' [E [A1 [A2 [A3 A4]]]]]; [intros _; apply Hb; exact Hin|].
      exists i'. split; [exact E|]. unfold core. rewrite A1, A2, A3, A4. reflexivity.
  Qed.

  Lemma tentries_counts c :
    tsum is_remote (tentries c) = (if 0 <? c_to_holder c then 1 else 0)
    /\ tsum remote_val (tentries c) = (if 0 <? c_to_holder c then c_to_holder c else 0)
    /\ tsum is_local (tentries c) = (if 0 <? c_to_cp c then 1 else 0)
    /\ tsum local_val (tentries c) = (if 0 <? c_to_cp c then c_to_cp c else 0).
  Proof.
    unfold tentries. rewrite !tsum_app, !tsum_other by reflexivity.
    repeat split;
      repeat match goal with |- context [if ?b then _ else _] => destruct b end;
      rewrite ?tsum_app; cbn [tsum snd is_remote remote_val is_local local_val]; lia.
  Qed.

  Lemma combine_pairs (l : list (oentry * eclass)) :
    combine (map e_out (map fst l)) (map e_ws (map fst l)) = pairs l.
  Proof. induction l as [|p l IH]; cbn [map combine pairs]; [reflexivity|]. fold (pairs l). rewrite IH. reflexivity. Qed.

  (** the round trip: decoding the canonical transaction with the canonical witness scripts
      succeeds and reads back the two balances of the content *)
  Theorem decode_canon (c : content) :
    bounded c ->
    exists i, decode sha pk_parse s (canon_tx sha rip s k c) (canon_ws sha rip s k c) = Some i
              /\ cs_value i = c_to_holder c /\ b_value i = c_to_cp c.
  Proof.
    intros Hb. unfold decode, canon_tx, canon_ws, sorted_entries. cbn [t_version t_outs].
    cbn [N.eqb Pos.eqb negb].
    rewrite <- tentries_fst, <- sort_t_fst, combine_pairs.
    pose proof (tentries_counts c) as [C1 [C2 [C3 C4]]].
    pose proof (sort_t_perm (tentries c)) as P.
    destruct (decode_tagged (sort_t (tentries c)) info0) as [i [E [V1 V2]]].
    - eapply Permutation_Forall; [apply Permutation_sym; exact P|]. apply tentries_ok. exact Hb.
    - discriminate.
    - discriminate.
    - rewrite (tsum_perm _ _ _ P), C1. destruct (0 <? c_to_holder c); lia.
    - rewrite (tsum_perm _ _ _ P), C3. destruct (0 <? c_to_cp c); lia.
    - exists i. split; [exact E|].
      rewrite V1, V2, !(tsum_perm _ _ _ P), C1, C2, C3, C4. cbn [info0 cs_value b_value].
      destruct (N.ltb_spec 0 (c_to_holder c)); destruct (N.ltb_spec 0 (c_to_cp c)); cbn [N.eqb]; split; lia.
  Qed.
End Decode.

(** * the transaction does not depend on the order in which the HTLCs are supplied *)
Section Normalize.
  Variable sha rip : bytes -> bytes.
  Variable s : setup.
  Variable k : ckeys.

  Lemma has_htlcs_sorted (a b : list htlc) :
    match sort_htlcs a, sort_htlcs b with [], [] => true | _, _ => false end
    = match a, b with [], [] => true | _, _ => false end.
  Proof.
    destruct a as [|x a].
    - change (sort_htlcs []) with (@nil htlc). destruct b as [|y b]; [reflexivity|].
      destruct (sort_htlcs (y :: b)) eqn:E; [|reflexivity].
      apply (proj1 (sort_htlcs_nil _)) in E. discriminate.
    - destruct (sort_htlcs (x :: a)) eqn:E; [|reflexivity].
      apply (proj1 (sort_htlcs_nil _)) in E. discriminate.
  Qed.

  Lemma entries_normalize c :
    Permutation (entries sha rip s k (normalize c)) (entries sha rip s k c).
  Proof.
    unfold entries, normalize. cbn [c_to_holder c_to_cp c_offered c_received].
    rewrite has_htlcs_sorted.
    repeat apply Permutation_app; try reflexivity; apply Permutation_map; apply sort_htlcs_perm.
  Qed.

  Theorem canon_tx_normalize c : canon_tx sha rip s k (normalize c) = canon_tx sha rip s k c.
  Proof.
    unfold canon_tx, sorted_entries. f_equal.
    apply sorted_outs_perm. apply entries_normalize.
  Qed.

  Lemma normalize_idem_fields c :
    normalize (mkContent (c_num c) (c_feerate c) (c_to_holder c) (c_to_cp c) (c_offered c) (c_received c))
    = normalize c.
  Proof. destruct c; reflexivity. Qed.

  (** u64 arithmetic of the HTLC amount is exact on every amount that fits in msat *)
  Lemma htlc_amount_exact v : v * 1000 < 2 ^ 64 -> htlc_amount v = v.
  Proof.
    intros H. unfold htlc_amount. rewrite N.mod_small by exact H. apply N.div_mul. discriminate.
  Qed.
End Normalize.

(** * trimming: on a content without a trimmed HTLC the builder's transaction is BOLT-3's *)
Section Trim.
  Variable sha rip : bytes -> bytes.
  Variable s : setup.
  Variable k : ckeys.

  Definition no_trimmed (c : content) : Prop :=
    Forall (fun h => trimmed s (c_feerate c) true h = false) (c_offered c)
    /\ Forall (fun h => trimmed s (c_feerate c) false h = false) (c_received c).

  Lemma filter_all {A} (f : A -> bool) (l : list A) :
    Forall (fun x => f x = true) l -> filter f l = l.
  Proof. induction 1 as [|x l Hx _ IH]; cbn [filter]; [reflexivity|]. rewrite Hx, IH. reflexivity. Qed.

  Lemma untrim_id c : no_trimmed c -> untrim s c = c.
  Proof.
    intros [Ho Hr]. unfold untrim. rewrite !filter_all.
    - destruct c; reflexivity.
    - eapply Forall_impl; [|exact Hr]. intros h Hh. cbn beta. rewrite Hh. reflexivity.
    - eapply Forall_impl; [|exact Ho]. intros h Hh. cbn beta. rewrite Hh. reflexivity.
  Qed.

  Theorem bolt3_untrimmed c :
    no_trimmed c ->
    bolt3_tx sha rip s k c = canon_tx sha rip s k c
    /\ bolt3_ws sha rip s k c = canon_ws sha rip s k c
    /\ bolt3_htlc_txs sha rip s k c = htlc_txs sha rip s k c.
  Proof. intros H. unfold bolt3_tx, bolt3_ws, bolt3_htlc_txs. rewrite (untrim_id c H). repeat split. Qed.

  Lemma no_trimmed_normalize c : no_trimmed (normalize c) -> no_trimmed c.
  Proof.
    unfold no_trimmed, normalize. cbn [c_feerate c_offered c_received]. intros [Ho Hr]. split.
    - eapply Permutation_Forall; [apply sort_htlcs_perm|exact Ho].
    - eapply Permutation_Forall; [apply sort_htlcs_perm|exact Hr].
  Qed.
End Trim.

(** * the two signing entry points *)
Section Signing.
  Variable sha rip : bytes -> bytes.
  Variable pk_parse : bytes -> option bytes.
  Variable s : setup.
  Variable k : ckeys.
  Variables SK SIG : Type.
  Variable sign : SK -> bytes -> SIG.
  Variable funding_key htlc_key : SK.
  Variable value_ok : bool.
  Variable accept : content -> bool.

  Local Notation phase1 := (sign_phase1 sha rip pk_parse s k SK SIG sign funding_key value_ok accept).
  Local Notation phase2 := (sign_phase2 sha rip s k SK SIG sign funding_key htlc_key value_ok accept).
  Local Notation canon := (canon_tx sha rip s k).
  Local Notation digest := (commit_sighash sha s).

  (** Phase 1 signs only a transaction that is the canonical transaction of a content that
      passed validation — the content made of the caller's commitment number, fee rate and HTLCs
      and of the two balances the decoder read from the transaction — and what it returns is the
      funding-key signature of that transaction's BIP143 digest. *)
  Theorem phase1_canonical t ws num feerate offered received sig :
    phase1 t ws num feerate offered received = Ok sig ->
    exists i c,
      decode sha pk_parse s t ws = Some i
      /\ c = normalize (mkContent num feerate (cs_value i) (b_value i) offered received)
      /\ value_ok = true /\ accept c = true
      /\ t = canon c
      /\ ser_tx t = ser_tx (canon c)
      /\ sig = sign funding_key (digest (canon c)).
  Proof.
    unfold sign_phase1. intros H.
    destruct (Nat.eqb (length (t_outs t)) (length ws)); cbn [negb] in H; [|discriminate].
    destruct value_ok; cbn [negb] in H; [|discriminate].
    destruct (decode sha pk_parse s t ws) as [i|]; [|discriminate].
    set (c := normalize (mkContent num feerate (cs_value i) (b_value i) offered received)) in *.
    destruct (accept c) eqn:Ha; cbn [negb] in H; [|discriminate].
    destruct (tx_eqb (canon c) t) eqn:Et; [|discriminate].
    apply tx_eqb_eq in Et. inversion H; subst sig.
    exists i, c. repeat split; try reflexivity; try assumption; rewrite Et; reflexivity.
  Qed.

  (** Phase 2 signs the canonical transaction of the content it validated, and one HTLC
      transaction per HTLC output, in output order, with the tweaked HTLC key. *)
  Theorem phase2_sig c sig hs :
    phase2 c = Ok (sig, hs) ->
    value_ok = true /\ accept (normalize c) = true
    /\ sig = sign funding_key (digest (canon c))
    /\ exists hts, htlc_txs sha rip s k c = Some hts
                   /\ hs = map (fun x => sign htlc_key (htlc_sighash sha s x)) hts.
  Proof.
    unfold sign_phase2. intros H.
    destruct value_ok; cbn [negb] in H; [|discriminate].
    destruct (accept (normalize c)); cbn [negb] in H; [|discriminate].
    destruct (htlc_txs sha rip s k c) as [hts|]; [|discriminate].
    inversion H; subst. repeat split; try reflexivity. exists hts. split; reflexivity.
  Qed.

  (** the HTLC transactions: one per HTLC of the content, each spending the canonical
      commitment transaction *)
  Lemma htlc_txs_from_spec txid feerate : forall l idx hts,
    htlc_txs_from sha s k txid feerate idx l = Some hts ->
    length hts = length (filter (fun e => match e_kind e with KHtlc _ _ => true | KPlain => false end) l)
    /\ Forall (fun x => exists j, t_ins (fst (fst x)) = [mkIn txid j [] (if zf s then 1 else 0) []]) hts.
  Proof.
    induction l as [|e l IH]; intros idx hts H; cbn [htlc_txs_from] in H.
    - inversion H; subst. split; [reflexivity|constructor].
    - cbn [filter]. destruct (e_kind e) as [|offered h].
      + apply IH in H. exact H.
      + destruct (htlc_tx sha s k txid feerate idx offered h) as [t|] eqn:Et; [|discriminate].
        destruct (htlc_txs_from sha s k txid feerate (idx + 1) l) as [ts|] eqn:El; [|discriminate].
        inversion H; subst. destruct (IH _ _ El) as [L F]. split; [cbn [length]; rewrite L; reflexivity|].
        constructor; [|exact F]. cbn [fst]. unfold htlc_tx in Et.
        destruct (zf s); [|destruct (_ <=? _)]; inversion Et; subst; cbn [t_ins]; eexists; reflexivity.
  Qed.

  Lemma count_htlc_entries c :
    length (filter (fun e => match e_kind e with KHtlc _ _ => true | KPlain => false end)
                   (sorted_entries sha rip s k c))
    = (length (c_offered c) + length (c_received c))%nat.
  Proof.
    set (f := fun e => match e_kind e with KHtlc _ _ => true | KPlain => false end).
    assert (P : forall l l', Permutation l l' -> length (filter f l) = length (filter f l')).
    { induction 1; cbn [filter]; try congruence.
      - destruct (f x); cbn [length]; congruence.
      - destruct (f x), (f y); reflexivity. }
    unfold sorted_entries. rewrite (P _ _ (sort_entries_perm _)). unfold entries.
    rewrite !filter_app, !app_length.
    assert (Hm : forall b l, length (filter f (map (htlc_entry sha rip s k b) l)) = length l).
    { intros b l. induction l as [|h l IH]; cbn [map filter]; [reflexivity|]. cbn [f htlc_entry e_kind length]. rewrite IH. reflexivity. }
    rewrite !Hm.
    assert (H0 : forall l, Forall (fun e => e_kind e = KPlain) l -> length (filter f l) = 0%nat).
    { induction 1 as [|e l He _ IH]; cbn [filter]; [reflexivity|]. unfold f at 1. rewrite He. exact IH. }
    rewrite !H0; [lia| | |].
    - destruct (zf s); [|constructor]. rewrite Forall_app. split;
        match goal with |- Forall _ (if ?b then _ else _) => destruct b end; repeat constructor.
    - destruct (0 <? c_to_cp c); repeat constructor.
    - destruct (0 <? c_to_holder c); [|constructor]. constructor; [|constructor].
      unfold to_remote_entry. destruct (zf s); reflexivity.
  Qed.

  Theorem phase2_htlc_count c sig hs :
    phase2 c = Ok (sig, hs) -> length hs = (length (c_offered c) + length (c_received c))%nat.
  Proof.
    intros H. apply phase2_sig in H. destruct H as [_ [_ [_ [hts [E ->]]]]].
    rewrite map_length. unfold htlc_txs in E. apply htlc_txs_from_spec in E. destruct E as [L _].
    rewrite L. apply count_htlc_entries.
  Qed.

  (** The raw HTLC entry point: a signature is returned only when the BIP143 digest of the
      supplied transaction is the digest of the second-stage transaction rebuilt from the
      channel's own parameters, and it is the signature of that rebuilt transaction's digest —
      for every [accept_htlc], i.e. whatever the policy filter does to the filterable checks. *)
  Variable accept_htlc : N -> bool -> N -> bool.
  Theorem htlc_phase1_recomposed t redeem amount sig :
    sign_htlc_phase1 sha s k SK SIG sign htlc_key accept_htlc t redeem amount = Ok sig ->
    exists i0 ins o0 outs feerate offered re,
      t_ins t = i0 :: ins /\ t_outs t = o0 :: outs
      /\ htlc_side s redeem = Some offered
      /\ htlc_tx sha s k (i_txid i0) feerate (i_vout i0) offered
                 (mkHtlc amount [] (if offered then t_lock t else 0)) = Some re
      /\ sighash sha t 0 redeem amount (htlc_sighash_type_p1 s)
         = sighash sha re 0 redeem amount (htlc_sighash_type_p1 s)
      /\ sig = sign htlc_key (sighash sha re 0 redeem amount (htlc_sighash_type_p1 s)).
  Proof.
    unfold sign_htlc_phase1, decode_htlc_tx. intros H.
    destruct (t_ins t) as [|i0 ins]; [discriminate|]. destruct (t_outs t) as [|o0 outs]; [discriminate|].
    destruct (htlc_side s redeem) as [offered|]; [|discriminate].
    destruct (amount <? o_value o0); [discriminate|].
    match type of H with context [htlc_tx ?a ?b ?c ?d ?e ?f ?g ?h] =>
      destruct (htlc_tx a b c d e f g h) as [re|] eqn:Er; [|discriminate] end.
    match type of H with context [bytes_eqb ?x ?y] => destruct (bytes_eqb x y) eqn:Ed; [|discriminate] end.
    apply bytes_eqb_true in Ed.
    match type of H with context [accept_htlc ?a ?b ?c] => destruct (accept_htlc a b c); [|discriminate] end.
    inversion H; subst sig.
    eexists i0, ins, o0, outs, _, offered, re. repeat split; try reflexivity; try exact Er.
    symmetry. exact Ed.
  Qed.

  (** On every content the semantic entry point signs, the raw entry point accepts the
      canonical transaction with the canonical witness scripts and returns the same signature. *)
  Hypothesis sha_len : forall x, length (sha x) = 32%nat.
  Hypothesis rip_len : forall x, length (rip x) = 20%nat.
  Hypothesis W : wf pk_parse s k.
  (** what the validator guarantees about a content it accepts (validate_expiry: every expiry
      is below 500 000 000) *)
  Hypothesis accept_bounded : forall c, accept c = true -> bounded c.

  Lemma bounded_normalize c : bounded (normalize c) -> bounded c.
  Proof.
    unfold bounded, normalize. cbn [c_received]. intros H.
    eapply Permutation_Forall; [apply sort_htlcs_perm|exact H].
  Qed.

  Theorem entry_points_agree c sig hs :
    phase2 c = Ok (sig, hs) ->
    phase1 (canon c) (canon_ws sha rip s k c) (c_num c) (c_feerate c) (c_offered c) (c_received c) = Ok sig.
  Proof.
    intros H. apply phase2_sig in H. destruct H as [Hv [Ha [-> _]]].
    unfold sign_phase1.
    assert (Hl : length (t_outs (canon c)) = length (canon_ws sha rip s k c))
      by (unfold canon_tx, canon_ws; cbn [t_outs]; rewrite !map_length; reflexivity).
    rewrite Hl, Nat.eqb_refl, Hv. cbn [negb].
    destruct (decode_canon sha rip pk_parse sha_len rip_len s k W c) as [i [E [V1 V2]]].
    { apply bounded_normalize. apply accept_bounded. exact Ha. }
    rewrite E, V1, V2, normalize_idem_fields, Ha. cbn [negb].
    rewrite canon_tx_normalize, tx_eqb_refl. reflexivity.
  Qed.

  (** No transaction other than the canonical one verifies under the funding key: for an
      idealised signature scheme (a signature verifies for the one digest it was made for) and
      a digest that is injective on transactions. *)
  Variable PK : Type.
  Variable verify : PK -> bytes -> SIG -> bool.
  Variable funding_pub : PK.
  Hypothesis sig_valid : forall m, verify funding_pub m (sign funding_key m) = true.
  Hypothesis sig_binds : forall m m', verify funding_pub m' (sign funding_key m) = true -> m' = m.
  Hypothesis digest_inj : forall t t', digest t = digest t' -> t = t'.

  Theorem no_foreign_tx_phase1 t ws num feerate offered received sig :
    phase1 t ws num feerate offered received = Ok sig ->
    verify funding_pub (digest t) sig = true
    /\ forall t', verify funding_pub (digest t') sig = true -> t' = t.
  Proof.
    intros H. destruct (phase1_canonical _ _ _ _ _ _ _ H) as [i [c [_ [_ [_ [_ [Et [_ ->]]]]]]]].
    rewrite <- Et. split; [apply sig_valid|].
    intros t' Hv. apply digest_inj. apply sig_binds. exact Hv.
  Qed.

  (** the same for the HTLC signatures, under the tweaked HTLC key: the j-th signature is for
      the digest of the j-th HTLC transaction and for no other digest *)
  Variable htlc_pub : PK.
  Hypothesis hsig_valid : forall m, verify htlc_pub m (sign htlc_key m) = true.
  Hypothesis hsig_binds : forall m m', verify htlc_pub m' (sign htlc_key m) = true -> m' = m.

  Theorem htlc_sigs_bind c sig hs :
    phase2 c = Ok (sig, hs) ->
    exists hts, htlc_txs sha rip s k c = Some hts
      /\ Forall2 (fun sg x => verify htlc_pub (htlc_sighash sha s x) sg = true
                              /\ forall m, verify htlc_pub m sg = true -> m = htlc_sighash sha s x) hs hts.
  Proof.
    intros H. apply phase2_sig in H. destruct H as [_ [_ [_ [hts [E ->]]]]].
    exists hts. split; [exact E|]. clear E.
    induction hts as [|x hts IH]; cbn [map]; constructor; [|exact IH].
    split; [apply hsig_valid|]. intros m Hm. apply hsig_binds. exact Hm.
  Qed.

  Theorem no_foreign_tx_phase2 c sig hs :
    phase2 c = Ok (sig, hs) ->
    verify funding_pub (digest (canon c)) sig = true
    /\ forall t', verify funding_pub (digest t') sig = true -> t' = canon c.
  Proof.
    intros H. apply phase2_sig in H. destruct H as [_ [_ [-> _]]].
    split; [apply sig_valid|]. intros t' Hv. apply digest_inj. apply sig_binds. exact Hv.
  Qed.
End Signing.
