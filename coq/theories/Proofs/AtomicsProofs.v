(** C20 — values handed out by an atomic read-modify-write counter are pairwise distinct under
    every interleaving; a load followed by a store is not. *)
From VLS Require Import Model.Atomics.

Lemma aupd_Forall (P : athread -> Prop) (ts : list athread) (n : nat) (t' : athread) :
  Forall P ts -> P t' -> Forall P (aupd ts n t').
Proof.
  revert n. induction ts as [|x ts IH]; intros [|n] H Ht; cbn; try constructor; inversion H; subst; auto.
Qed.

Definition ainv (s : astate) : Prop :=
  NoDup (handed s) /\ Forall (fun v => v < cnt s) (handed s) /\
  Forall (fun t => no_store (aprog t) = true) (thr s).

Lemma astep_inv (s : astate) (n : nat) (s' : astate) : ainv s -> astep s n = Some s' -> ainv s'.
Proof.
  intros [Hn [Hl Hp]] H. unfold astep in H.
  destruct (nth_error (thr s) n) as [t|] eqn:E; [|discriminate].
  assert (Pt : no_store (aprog t) = true).
  { rewrite Forall_forall in Hp. apply Hp. eapply nth_error_In. exact E. }
  destruct (aprog t) as [|[| |] r] eqn:A; try discriminate.
  - (* Rmw *)
    inversion H. subst s'. unfold ainv. cbn [handed cnt thr]. repeat split.
    + constructor; [|exact Hn]. intros I. rewrite Forall_forall in Hl. specialize (Hl _ I). lia.
    + constructor; [lia|]. eapply Forall_impl; [|exact Hl]. cbn. intros. lia.
    + apply aupd_Forall; [exact Hp|]. cbn [aprog]. cbn [no_store forallb] in Pt. exact Pt.
  - (* Ld *)
    inversion H. subst s'. unfold ainv. cbn [handed cnt thr]. repeat split; try assumption.
    apply aupd_Forall; [exact Hp|]. cbn [aprog]. cbn [no_store forallb] in Pt. exact Pt.
  (* St: excluded by the discipline (closed by [discriminate] on the hypothesis above) *)
Qed.

Lemma arun_inv (sched : list nat) : forall s s', ainv s -> arun s sched = Some s' -> ainv s'.
Proof.
  induction sched as [|n r IH]; intros s s' Hi H; cbn [arun] in H.
  - inversion H. subst. exact Hi.
  - destruct (astep s n) as [s1|] eqn:E; [|discriminate].
    eapply IH; [|exact H]. eapply astep_inv; eassumption.
Qed.

(** Any number of threads, each performing any number of counter uses that never store, under
    any schedule: the values handed out are pairwise distinct (and all below the counter). *)
Theorem rmw_values_distinct (c0 : N) (ps : list (list aop)) :
  Forall (fun p => no_store p = true) ps ->
  forall sched s', arun (ainit c0 ps) sched = Some s' ->
    NoDup (handed s') /\ Forall (fun v => v < cnt s') (handed s').
Proof.
  intros Hps sched s' H.
  assert (I : ainv (ainit c0 ps)).
  { unfold ainv, ainit. cbn [handed cnt thr]. repeat split; try constructor.
    apply Forall_forall. intros t Ht. apply in_map_iff in Ht. destruct Ht as [p [<- Hp]].
    rewrite Forall_forall in Hps. cbn [aprog]. apply Hps. exact Hp. }
  destruct (arun_inv sched _ _ I H) as [A [B _]]. split; assumption.
Qed.
