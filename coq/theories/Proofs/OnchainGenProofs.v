(** The numeric rules of the on-chain model ([validate_beneficial] and the fee tail of
    [validate_onchain] of Model/Onchain.v: the checked sum of the input values followed by
    [validate_beneficial]) are what the translated source computes: Gen/OnchainGen.v is regenerated
    on every run from SimpleValidator::validate_beneficial_value (whole body) and from the
    statements of ::validate_onchain_tx from `let mut sum_inputs: u64 = 0;` to the end.

    [abs_opolicy] reads the model's policy off the source-level one: the maximum feerate, and the
    developer flag through `dev_flags.as_ref().unwrap_or(&DEFAULT_DEV_FLAGS)` (no flags = the
    default, read from the file).  [of_vres] keeps the tag of a refusal and the value of an
    acceptance, and maps a panic to a panic.  Side condition: the sum of the inputs fits u64 (it is
    a u64; for the tail it is produced by checked additions, so there is none). *)
From Coq Require Import String.
From VLS Require Import Base.Rust Gen.OnchainGen Proofs.RustFacts.
From VLS Require Gen.CommitmentPolicyGen Gen.TxUtilGen Proofs.TxUtilGenProofs.
From VLS Require Import Model.Onchain.
Require Import Lia.

Module CP := CommitmentPolicyGen.

Definition abs_opolicy (p : CP.SimplePolicy) : opolicy :=
  mkOPol (CP.SimplePolicy_max_feerate_per_kw p)
         (match CP.SimplePolicy_dev_flags p with
          | Some f => CP.PolicyDevFlags_disable_beneficial_balance_checks f
          | None => false
          end).

Definition otag_filter (swarn : string -> bool) : otag -> bool := fun t => swarn (otag_name t).

(** [VUnknown] (the list of unknown destinations) is produced in front of the translated tail; it
    carries the tag of unknown_destinations_error *)
Definition of_vres (r : vres) : trap (result N) :=
  match r with
  | VOk n => Val (OkR n)
  | VErr t => Val (ErrR (otag_name t))
  | VUnknown _ => Val (ErrR "policy-onchain-no-unknown-outputs"%string)
  | VPanic => Trap
  end.

Theorem gen_beneficial_is_model prof swarn gp sum_in sum_out w :
  (sum_in <=? U64MAX) = true ->
  gen_validate_beneficial_value prof swarn gp sum_in sum_out w =
  of_vres (validate_beneficial (otag_filter swarn) (abs_opolicy gp) sum_in sum_out w).
Proof.
  intros Hfit. apply N.leb_le in Hfit.
  unfold gen_validate_beneficial_value, validate_beneficial. cbv beta zeta.
  cbn [abs_opolicy max_feerate disable_beneficial].
  unfold sub_checked. destruct (sum_out <=? sum_in) eqn:Hle; cbn [ok_or bindR of_vres]; [|reflexivity].
  apply N.leb_le in Hle.
  destruct (w =? 0) eqn:Hw.
  - apply N.eqb_eq in Hw. subst w.
    rewrite TxUtilGenProofs.gen_estimate_zero_weight by lia. reflexivity.
  - apply N.eqb_neq in Hw.
    rewrite TxUtilGenProofs.gen_estimate_is_model by lia.
    change (CommitmentPolicy.estimate_feerate_per_kw (sum_in - sum_out) w) with (estimate (sum_in - sum_out) w).
    norm. unfold otag_filter, policy_err. cbn [otag_name].
    destruct (CP.SimplePolicy_max_feerate_per_kw gp <? estimate (sum_in - sum_out) w); cbn [andb]; [|reflexivity].
    destruct (match CP.SimplePolicy_dev_flags gp with
              | Some f => CP.PolicyDevFlags_disable_beneficial_balance_checks f
              | None => false
              end) eqn:D.
    + destruct (CP.SimplePolicy_dev_flags gp) as [f|]; [|discriminate D].
      cbn [CP.PolicyDevFlags_disable_beneficial_balance_checks] in *. rewrite D. reflexivity.
    + assert (E : CP.PolicyDevFlags_disable_beneficial_balance_checks
                    match CP.SimplePolicy_dev_flags gp with
                    | Some v_ => v_
                    | None => CP.mk_PolicyDevFlags false
                    end = false)
        by (destruct (CP.SimplePolicy_dev_flags gp); [exact D | reflexivity]).
      rewrite E. cbn [negb andb].
      destruct (swarn "policy-onchain-fee-range"%string); reflexivity.
Qed.

(** the checked sum of the input values *)
Lemma gen_sum_is_model (vals : list N) : forall acc,
  fold_r (fun s v => t1 <-? ok_or (add_checked s v) "policy-onchain-fee-range"%string ;; Val (OkR t1)) vals acc =
  match sum_checked vals acc with
  | Some s => Val (OkR s)
  | None => Val (ErrR "policy-onchain-fee-range"%string)
  end.
Proof.
  induction vals as [|v r IH]; intros acc; [reflexivity|].
  cbn [fold_r sum_checked]. destruct (add_checked acc v) as [s|]; cbn [ok_or bindR]; [apply IH | reflexivity].
Qed.

Lemma sum_checked_le vals : forall acc s, acc <= U64MAX -> sum_checked vals acc = Some s -> s <= U64MAX.
Proof.
  induction vals as [|v r IH]; intros acc s Ha H; cbn [sum_checked] in H.
  - injection H as <-. exact Ha.
  - unfold add_checked in H. destruct (acc + v <=? U64MAX) eqn:E; [|discriminate H].
    apply N.leb_le in E. eapply IH; [exact E | exact H].
Qed.

(** the fee tail of validate_onchain_tx = the last two steps of the model's [validate_onchain] *)
Theorem gen_fee_tail_is_model prof swarn gp ben vals w :
  gen_validate_onchain_tx_fee_tail prof swarn gp ben vals w =
  of_vres (match sum_checked vals 0 with
           | None => VErr T_fee_range
           | Some sin => validate_beneficial (otag_filter swarn) (abs_opolicy gp) sin ben w
           end).
Proof.
  unfold gen_validate_onchain_tx_fee_tail. cbv beta zeta.
  rewrite (gen_sum_is_model vals 0).
  destruct (sum_checked vals 0) as [sin|] eqn:S; cbn [bindR of_vres otag_name]; [|reflexivity].
  assert (Hs : sin <= U64MAX) by (eapply sum_checked_le; [|exact S]; unfold U64MAX; lia).
  rewrite gen_beneficial_is_model by (apply N.leb_le; exact Hs).
  destruct (validate_beneficial (otag_filter swarn) (abs_opolicy gp) sin ben w); reflexivity.
Qed.
