(** C10 / C11 at the level of the models: a refused request leaves the state (memory image and
    persisted image) exactly as it was, and after every request the persisted image restores to
    the memory image. *)
From VLS Require Import Base.U64 Model.Enforcement Model.NodeOps Model.Payments
  Proofs.EnforcementProofs.
From Coq Require Import ZifyBool ZifyN ZifyNat.

Local Open Scope N_scope.

(** * the per-channel enforcement state *)

Section Enforcement.
Variable warn : tag -> bool.
Variable prof : profile.
Hypothesis Wall : forall t, warn t = false.      (* the default filter: nothing is downgraded *)

(** a composite that validates and then revokes runs both halves against the same ledger, so
    the payment verdict of the second half is the one of the first *)
Definition wf_refuse (o : op) : Prop :=
  wf_op o /\ match o with HValidateOld _ _ _ pl py => pl = true -> py = true | _ => True end.

Ltac strict := unfold perr; rewrite ?Wall; cbn [negb]; rewrite ?andb_true_r, ?orb_false_r.

Lemma release_refused_or e n : st (release warn prof e n) = Refused \/ st (release warn prof e n) = Abort \/
  st (release warn prof e n) = Ok.
Proof. destruct (st (release warn prof e n)); auto. Qed.

(** on the state it was just advanced to, release never refuses *)
Lemma release_after_advance e c n :
  n = next_h e -> n <= U64MAX -> st (release warn prof (advance_h e c) n) <> Refused.
Proof.
  intros -> Hn. unfold release, tbind.
  destruct (add_p prof (next_h e) 1) as [n1|] eqn:Ea; [|cbn; discriminate].
  assert (Hp : point_ok (advance_h e c) n1 = true).
  { unfold point_ok, advance_h; cbn [next_h].
    destruct (add_p_val _ _ _ _ Ea Hn ltac:(lia)) as [->|[_ [_ ->]]]; lia. }
  rewrite Hp. cbn [negb].
  destruct (1 <=? next_h e) eqn:E1; [|cbn; discriminate].
  unfold secret_res. strict.
  destruct (next_h (advance_h e c) <? sat_add (next_h e - 1) 2) eqn:Eg.
  - exfalso. unfold advance_h, sat_add in Eg; cbn [next_h] in Eg. lia.
  - destruct (sub_p prof INITIAL_COMMITMENT_NUMBER (next_h e - 1)); cbn; discriminate.
Qed.

Lemma do_validate_refused ch n c sg pl :
  st (snd (do_validate warn prof ch n c sg pl)) = Refused -> fst (do_validate warn prof ch n c sg pl) = ch.
Proof.
  unfold do_validate.
  destruct (negb (point_ok (mem ch) n)); [reflexivity|].
  destruct (negb pl); [reflexivity|].
  destruct (validate_holder_state warn prof (mem ch) n c) as [[|]|]; try reflexivity.
  destruct sg; [| reflexivity | reflexivity].
  destruct (n =? next_h (mem ch)); cbn; [discriminate | reflexivity].
Qed.

Lemma do_revoke_refused ch n py :
  n <= U64MAX ->
  st (snd (do_revoke warn prof ch n py)) = Refused -> fst (do_revoke warn prof ch n py) = ch.
Proof.
  intros Hn. unfold do_revoke.
  destruct (negb (n =? next_h (mem ch))) eqn:En; [reflexivity|].
  apply negb_false_iff, N.eqb_eq in En.
  destruct (closed (mem ch) && perr warn TRevokeNotClosed); [reflexivity|].
  destruct (nxt_h (mem ch)) as [c|].
  - destruct (negb py); [reflexivity|].
    pose proof (release_after_advance (mem ch) c n En Hn) as Hr.
    destruct (release warn prof (advance_h (mem ch) c) n) as [[| |] p sx h cp]; cbn in *;
      [discriminate | congruence | discriminate].
  - destruct (perr warn TRevokeNewSigned); [reflexivity|].
    destruct (point_ok (mem ch) n); reflexivity.
Qed.

Ltac simple_refused f :=
  unfold f, tbind;
  repeat match goal with
         | |- context [match ?x with _ => _ end] => destruct x eqn:?
         end; cbn [fst snd st refused aborted ok0 ok_point ok_ps]; intros; try reflexivity; try discriminate.

Lemma do_activate_refused ch : st (snd (do_activate ch)) = Refused -> fst (do_activate ch) = ch.
Proof. simple_refused do_activate. Qed.
Lemma do_sign_holder_refused ch n :
  st (snd (do_sign_holder warn prof ch n)) = Refused -> fst (do_sign_holder warn prof ch n) = ch.
Proof. simple_refused do_sign_holder. Qed.
Lemma do_sign_recovery_refused ch :
  st (snd (do_sign_recovery prof ch)) = Refused -> fst (do_sign_recovery prof ch) = ch.
Proof. simple_refused do_sign_recovery. Qed.
Lemma do_sign_redundant_refused ch n c pl :
  st (snd (do_sign_redundant warn prof ch n c pl)) = Refused -> fst (do_sign_redundant warn prof ch n c pl) = ch.
Proof. simple_refused do_sign_redundant. Qed.
Lemma do_mutual_close_refused ch ok :
  st (snd (do_mutual_close ch ok)) = Refused -> fst (do_mutual_close ch ok) = ch.
Proof. simple_refused do_mutual_close. Qed.
Lemma do_sign_cp_refused ch n pt c pl :
  st (snd (do_sign_cp warn prof ch n pt c pl)) = Refused -> fst (do_sign_cp warn prof ch n pt c pl) = ch.
Proof. simple_refused do_sign_cp. Qed.
Lemma do_revocation_refused ch r p sec chn :
  st (snd (do_revocation warn prof ch r p sec chn)) = Refused -> fst (do_revocation warn prof ch r p sec chn) = ch.
Proof. simple_refused do_revocation. Qed.

Lemma release_ok_secret e n : 1 <= n -> st (release warn prof e n) = Ok -> o_secret (release warn prof e n) <> None.
Proof.
  intros Hn. unfold release, tbind.
  destruct (add_p prof n 1) as [n1|]; [|cbn; discriminate].
  destruct (negb (point_ok e n1)); [cbn; discriminate|].
  replace (1 <=? n) with true by lia.
  destruct (secret_res warn prof e (n - 1)) as [[k|]|]; cbn; try discriminate.
Qed.

(** an accepted revocation of a number >= 1 always carries a secret *)
Lemma do_revoke_ok_secret ch n py :
  1 <= n -> st (snd (do_revoke warn prof ch n py)) = Ok -> o_secret (snd (do_revoke warn prof ch n py)) <> None.
Proof.
  intros Hn. unfold do_revoke.
  destruct (negb (n =? next_h (mem ch))); [apply release_ok_secret; exact Hn|].
  destruct (closed (mem ch) && perr warn TRevokeNotClosed); [cbn; discriminate|].
  destruct (nxt_h (mem ch)) as [c|].
  - destruct (negb py); [cbn; discriminate|].
    pose proof (release_ok_secret (advance_h (mem ch) c) n Hn) as Hr.
    destruct (release warn prof (advance_h (mem ch) c) n) as [[| |] p sx h cp]; cbn in *;
      [intros _; apply Hr; reflexivity | discriminate | discriminate].
  - unfold perr. rewrite Wall. cbn. discriminate.
Qed.

(** C10 for the enforcement state: whatever the request, if the reply is a refusal then neither
    image of the channel changed *)
Theorem refused_changes_nothing ch o :
  wf_refuse o -> mem ch = disk ch ->
  st (snd (step warn prof (Ready ch) o)) = Refused ->
  fst (step warn prof (Ready ch) o) = Ready ch.
Proof.
  intros [Hwf Hpy] Hmd. unfold step.
  destruct (step0 warn prof (Ready ch) o) as [s' r] eqn:Es. cbn [fst snd].
  assert (Hr : st r = Refused -> s' = Ready ch); [|
    destruct (st r) eqn:Er; cbn [fst snd]; intros Hx; try congruence; apply Hr; reflexivity].
  intros Er.
  revert Es. destruct o; cbn [step0 on_ready wf_op] in *.
  - pose proof (do_validate_refused ch n c sig_ok pol_ok) as H.
    destruct (do_validate warn prof ch n c sig_ok pol_ok) as [ch' r']. cbn [fst snd] in H.
    intros Hs; inversion Hs; subst. rewrite H by exact Er. reflexivity.
  - pose proof (do_revoke_refused ch n pay_ok Hwf) as H.
    destruct (do_revoke warn prof ch n pay_ok) as [ch' r']. cbn [fst snd] in H.
    intros Hs; inversion Hs; subst. rewrite H by exact Er. reflexivity.
  - pose proof (do_activate_refused ch) as H. destruct (do_activate ch) as [ch' r']. cbn [fst snd] in H.
    intros Hs; inversion Hs; subst. rewrite H by exact Er. reflexivity.
  - unfold do_get_point. intros Hs; inversion Hs; subst. reflexivity.
  - unfold do_get_secret. intros Hs; inversion Hs; subst. reflexivity.
  - unfold do_get_secret_or_none. intros Hs; inversion Hs; subst. reflexivity.
  - pose proof (do_sign_holder_refused ch n) as H.
    destruct (do_sign_holder warn prof ch n) as [ch' r']. cbn [fst snd] in H.
    intros Hs; inversion Hs; subst. rewrite H by exact Er. reflexivity.
  - pose proof (do_sign_recovery_refused ch) as H.
    destruct (do_sign_recovery prof ch) as [ch' r']. cbn [fst snd] in H.
    intros Hs; inversion Hs; subst. rewrite H by exact Er. reflexivity.
  - pose proof (do_sign_redundant_refused ch n c pol_ok) as H.
    destruct (do_sign_redundant warn prof ch n c pol_ok) as [ch' r']. cbn [fst snd] in H.
    intros Hs; inversion Hs; subst. rewrite H by exact Er. reflexivity.
  - pose proof (do_mutual_close_refused ch ok) as H.
    destruct (do_mutual_close ch ok) as [ch' r']. cbn [fst snd] in H.
    intros Hs; inversion Hs; subst. rewrite H by exact Er. reflexivity.
  - pose proof (do_sign_cp_refused ch n pt c pol_ok) as H.
    destruct (do_sign_cp warn prof ch n pt c pol_ok) as [ch' r']. cbn [fst snd] in H.
    intros Hs; inversion Hs; subst. rewrite H by exact Er. reflexivity.
  - pose proof (do_revocation_refused ch r0 pt_of_secret secret chains) as H.
    destruct (do_revocation warn prof ch r0 pt_of_secret secret chains) as [ch' r']. cbn [fst snd] in H.
    intros Hs; inversion Hs; subst. rewrite H by exact Er. reflexivity.
  - (* HValidateOld: validate, then revoke the same number *)
    unfold and_then.
    pose proof (do_validate_refused ch n c sig_ok pol_ok) as Hv.
    pose proof (do_validate_ok_needs_sigs warn prof ch n c sig_ok pol_ok) as Hok.
    unfold do_validate in *.
    destruct (negb (point_ok (mem ch) n)); [cbn; intros Hs; inversion Hs; reflexivity|].
    destruct (negb pol_ok) eqn:Epl; [cbn; intros Hs; inversion Hs; reflexivity|].
    destruct (validate_holder_state warn prof (mem ch) n c) as [[|]|] eqn:Evs;
      [| cbn; intros Hs; inversion Hs; reflexivity | cbn; intros Hs; inversion Hs; subst; discriminate].
    destruct sig_ok; [| cbn; intros Hs; inversion Hs; reflexivity | cbn; intros Hs; inversion Hs; subst; discriminate].
    destruct (n =? next_h (mem ch)) eqn:En; cbn [st snd fst ok0].
    + (* stored as the pending commitment: the revocation that follows cannot refuse *)
      apply N.eqb_eq in En. apply negb_false_iff in Epl. specialize (Hpy Epl). subst pay_ok.
      intros Hs. exfalso.
      unfold do_revoke in Hs. cbn [persist mem set_nxt_h next_h nxt_h closed] in Hs.
      rewrite En, N.eqb_refl in Hs. cbn [negb] in Hs.
      (* the validation accepted a new state, so the channel is not closed *)
      unfold validate_holder_state in Evs.
      destruct (add_p prof n 1) as [m1|]; [|discriminate]. destruct (add_p prof n 2) as [m2|]; [|discriminate].
      destruct (if m1 =? next_h (mem ch) then _ else _) as [rt|]; [|discriminate].
      inversion Evs as [Hb]. clear Evs. unfold perr in Hb. rewrite !Wall in Hb. cbn [negb] in Hb.
      rewrite !andb_true_r in Hb. apply andb_prop in Hb. destruct Hb as [_ Hb].
      rewrite En, N.eqb_refl in Hb. cbn [andb] in Hb. apply negb_true_iff in Hb.
      rewrite Hb in Hs. cbn [andb negb] in Hs.
      pose proof (release_after_advance
                    (mkE (next_h (mem ch)) (cur_h (mem ch)) (Some c) (closed (mem ch)) (next_c (mem ch))
                         (next_r (mem ch)) (cur_pt (mem ch)) (prev_pt (mem ch)) (cur_c (mem ch))
                         (prev_c (mem ch)) (secrets (mem ch))) c (next_h (mem ch)) eq_refl
                    ltac:(rewrite <- En; exact Hwf)) as Hr.
      destruct (release warn prof _ (next_h (mem ch))) as [[| |] p sx h cp] eqn:Erel;
        cbn in Hs, Hr; inversion Hs; subst; cbn in Er; try discriminate; congruence.
    + pose proof (do_revoke_refused ch n pay_ok Hwf) as H.
      destruct (do_revoke warn prof ch n pay_ok) as [ch' r']. cbn [fst snd] in H.
      intros Hs; inversion Hs; subst. rewrite H by exact Er. reflexivity.
  - (* HValidateNew: validate, then the next point (or the activation of commitment 0) *)
    unfold and_then. unfold do_validate.
    destruct (negb (point_ok (mem ch) n)) eqn:Ep; [cbn; intros Hs; inversion Hs; reflexivity|].
    destruct (negb pol_ok); [cbn; intros Hs; inversion Hs; reflexivity|].
    destruct (validate_holder_state warn prof (mem ch) n c) as [[|]|];
      [| cbn; intros Hs; inversion Hs; reflexivity | cbn; intros Hs; inversion Hs; subst; discriminate].
    destruct sig_ok; [| cbn; intros Hs; inversion Hs; reflexivity | cbn; intros Hs; inversion Hs; subst; discriminate].
    destruct (n =? next_h (mem ch)) eqn:En; cbn [st snd fst ok0].
    + apply N.eqb_eq in En. intros Hs. exfalso.
      destruct (1 <=? n) eqn:E1.
      * unfold tbind in Hs. destruct (add_p prof n 1) as [n1|] eqn:Ea;
          [|inversion Hs; subst; discriminate].
        unfold do_get_point in Hs. cbn [persist mem set_nxt_h next_h] in Hs.
        assert (Hp : point_ok (mkE (next_h (mem ch)) (cur_h (mem ch)) (Some c) (closed (mem ch)) (next_c (mem ch))
                         (next_r (mem ch)) (cur_pt (mem ch)) (prev_pt (mem ch)) (cur_c (mem ch))
                         (prev_c (mem ch)) (secrets (mem ch))) n1 = true).
        { unfold point_ok; cbn [next_h].
          destruct (add_p_val _ _ _ _ Ea Hwf ltac:(lia)) as [->|[_ [_ ->]]]; lia. }
        unfold set_nxt_h in Hs. rewrite Hp in Hs. inversion Hs; subst; discriminate.
      * unfold do_activate in Hs. cbn [persist mem set_nxt_h next_h nxt_h] in Hs.
        assert (Hz : next_h (mem ch) = 0) by lia. rewrite Hz in Hs. cbn in Hs.
        inversion Hs; subst; discriminate.
    + destruct (1 <=? n).
      * unfold tbind. destruct (add_p prof n 1); [|intros Hs; inversion Hs; subst; discriminate].
        unfold do_get_point. intros Hs; inversion Hs; subst. reflexivity.
      * pose proof (do_activate_refused ch) as H. destruct (do_activate ch) as [ch' r']. cbn [fst snd] in H.
        intros Hs; inversion Hs; subst. rewrite H by exact Er. reflexivity.
  - (* HGetPointOld *)
    destruct (negb (point_ok (mem ch) n)); [intros Hs; inversion Hs; reflexivity|].
    destruct (2 <=? n); [|intros Hs; inversion Hs; reflexivity].
    destruct (secret_res warn prof (mem ch) (n - 2)) as [[|]|]; intros Hs; inversion Hs; reflexivity.
  - (* HRevoke *)
    unfold tbind, add_checked. destruct (n + 1 <=? U64MAX) eqn:Ea; [|intros Hs; inversion Hs; reflexivity].
    pose proof (do_revoke_refused ch (n + 1) pay_ok ltac:(lia)) as H.
    pose proof (do_revoke_ok_secret ch (n + 1) pay_ok ltac:(lia)) as Hsec.
    destruct (do_revoke warn prof ch (n + 1) pay_ok) as [ch' r']. cbn [fst snd] in H, Hsec.
    destruct (st r') eqn:Er'.
    + destruct (o_secret r') eqn:Eo; [intros Hs; inversion Hs; subst; congruence|].
      exfalso. apply Hsec; reflexivity.
    + intros Hs; inversion Hs; subst. rewrite H by reflexivity. reflexivity.
    + intros Hs; inversion Hs; subst. congruence.
  - intros Hs; inversion Hs; subst. reflexivity.
  - intros Hs; inversion Hs; subst. cbn in Er. discriminate.
  - intros Hs; inversion Hs; subst. reflexivity.
Qed.

End Enforcement.

(** * the node-level requests *)

Definition NSync (s : nnode) : Prop :=
  (forall d, slots (nrestore (ndsk s)) d = slots (nmem s) d) /\
  hwm (nrestore (ndsk s)) = hwm (nmem s) /\
  (forall k, allow (nrestore (ndsk s)) k = allow (nmem s) k) /\
  ninv (nrestore (ndsk s)) = ninv (nmem s) /\
  (* a forget flag is only ever recorded for a channel that is set up *)
  (forall d, d_forgot (ndsk s) d = true -> d_chan (ndsk s) d = SReady).

Lemma nstep_refused s o : snd (nstep s o) = false -> fst (nstep s o) = s.
Proof.
  destruct o; cbn [nstep];
    repeat match goal with
           | |- context [match ?x with _ => _ end] => destruct x eqn:?
           | |- context [if ?b then _ else _] => destruct b eqn:?
           end; cbn [fst snd]; intros; try reflexivity; discriminate.
Qed.

Lemma NSync_init : NSync ninit.
Proof. repeat split; intros; try reflexivity; discriminate. Qed.

Ltac nred :=
  unfold NSync, set_slot, bump_hwm, set_allow, nrestore, updk in *;
  cbn [fst nmem ndsk slots hwm allow ninv d_chan d_forgot d_hwm d_allow d_ninv] in *.

(** the forget flag of a slot that memory shows as absent or as a stub is not set *)
Lemma forgot_false s d :
  NSync s -> (slots (nmem s) d = SNone \/ slots (nmem s) d = SStub) -> d_forgot (ndsk s) d = false.
Proof.
  intros [Hs [_ [_ [_ Hf]]]] Hk. destruct (d_forgot (ndsk s) d) eqn:Ef; [|reflexivity].
  specialize (Hf d Ef). specialize (Hs d). unfold nrestore in Hs; cbn [slots] in Hs.
  rewrite Hf, Ef in Hs. destruct Hk as [Hk|Hk]; congruence.
Qed.

Lemma nstep_sync s o : NSync s -> NSync (fst (nstep s o)).
Proof.
  intros HS. pose proof HS as [Hs [Hh [Ha [Hn Hf]]]].
  destruct o; cbn [nstep].
  - (* NewChannel *)
    destruct (d <=? hwm (nmem s)); [exact HS|].
    destruct (slots (nmem s) d) eqn:Ek; try exact HS.
    pose proof (forgot_false s d HS (or_introl Ek)) as Hd. nred.
    repeat split; try assumption.
    + intros d0. destruct (d0 =? d) eqn:E; [reflexivity | apply Hs].
    + intros d0 Hd0. destruct (d0 =? d) eqn:E; [apply N.eqb_eq in E; subst; congruence | apply Hf; exact Hd0].
  - (* SetupChannel *)
    destruct (slots (nmem s) d) eqn:Ek; try exact HS.
    pose proof (forgot_false s d HS (or_intror Ek)) as Hd. nred.
    repeat split; try assumption.
    + intros d0. destruct (d0 =? d) eqn:E; [|apply Hs].
      apply N.eqb_eq in E. subst. rewrite Hd. reflexivity.
    + intros d0 Hd0. destruct (d0 =? d) eqn:E; [reflexivity | apply Hf; exact Hd0].
  - (* ForgetChannel *)
    destruct (slots (nmem s) d) eqn:Ek; try exact HS.
    + pose proof (forgot_false s d HS (or_intror Ek)) as Hd.
      destruct (hwm (nmem s) <? d) eqn:Eh; nred; rewrite ?Eh; nred;
        (repeat split; try assumption;
         [ intros d0; destruct (d0 =? d) eqn:E; [reflexivity | apply Hs]
         | intros d0 Hd0; destruct (d0 =? d) eqn:E; [apply N.eqb_eq in E; subst; congruence | apply Hf; exact Hd0] ]).
    + destruct (hwm (nmem s) <? d) eqn:Eh; nred; rewrite ?Eh; nred;
        (repeat split; try assumption;
         [ intros d0; destruct (d0 =? d) eqn:E; [reflexivity | apply Hs]
         | intros d0 Hd0; destruct (d0 =? d) eqn:E; [reflexivity | apply Hf; exact Hd0] ]).
    + destruct (hwm (nmem s) <? d) eqn:Eh; nred; rewrite ?Eh; nred;
        (repeat split; try assumption;
         [ intros d0; destruct (d0 =? d) eqn:E; [reflexivity | apply Hs]
         | intros d0 Hd0; destruct (d0 =? d) eqn:E; [reflexivity | apply Hf; exact Hd0] ]).
  - exact HS.
  - destruct parses; [|exact HS]. nred. repeat split; intros; try assumption; try reflexivity; auto.
  - destruct parses; [|exact HS]. nred. repeat split; intros; try assumption; try reflexivity; auto.
  - destruct parses; [|exact HS]. nred. repeat split; intros; try assumption; try reflexivity; auto.
  - destruct (MAX_INV <=? ninv (nmem s)); [exact HS|].
    nred. repeat split; intros; try assumption; try reflexivity; auto.
  - (* IssueInvoice: memory only, and nothing that a restart is promised to bring back *)
    destruct (MAX_INV <=? iss_count (iss (nmem s))); [exact HS|].
    destruct (iss (nmem s) h); [exact HS|].
    destruct (0 <? a); [|exact HS].
    nred. repeat split; intros; try assumption; try reflexivity; auto.
  - exact HS.
  - nred. repeat split; intros; try reflexivity; auto.
Qed.

Lemma nrun_sync ops : forall s, NSync s -> NSync (nrun s ops).
Proof.
  induction ops as [|o ops IH]; intros s H; cbn [nrun]; [exact H | apply IH, nstep_sync, H].
Qed.

(** * payments and velocity: a refusal returns the state it was given *)

Lemma pstep_refused nch mf mp s o : snd (pstep nch mf mp s o) = false -> fst (pstep nch mf mp s o) = s.
Proof.
  destruct o; cbn [pstep];
    repeat match goal with
           | |- context [match ?x with _ => _ end] => destruct x eqn:?
           | |- context [if ?b then _ else _] => destruct b eqn:?
           end; cbn [fst snd]; intros; try reflexivity; discriminate.
Qed.
