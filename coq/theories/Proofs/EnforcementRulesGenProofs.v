(** The commitment-number decisions of the enforcement model (Model/Enforcement.v: the checks
    inside [do_sign_cp], [do_revocation], [do_validate], [do_sign_holder]) are what the translated
    source computes.  Gen/EnforcementRulesGen.v is regenerated on every run from
      validate_counterparty_commitment_tx, validate_holder_commitment_tx,
      validate_counterparty_revocation   (impl Validator for SimpleValidator)
      get_current_holder_commitment_info (provided method of trait Validator)
    over the record of Gen/EnforcementGen.v.

    Reading of the results.  The model's checks are booleans (accepted / refused) with a separate
    abort outcome; the source returns [OkR], [ErrR tag] or panics.  [status_of] forgets the tag:
    [Some true] accepted, [Some false] refused, [None] panic.  The model's filter is a function of
    its tags; the source's filter is a function of the tag string: [etag_filter swarn t = swarn
    (etag_name t)], so that [perr (etag_filter swarn) t = negb (swarn (etag_name t))].  Every model
    tag stands for exactly one source tag in the functions translated here.

    [to_res fr e] (Proofs/EnforcementGenProofs.v) is the source-level EnforcementState of a model
    state [e]; [fr] holds the fields the model does not have.  The content verdict of
    validate_commitment_tx (the model's [pol_ok]) is the parameter [v] of the translation. *)
From Coq Require Import String.
From VLS Require Import Base.Rust Model.Enforcement Gen.EnforcementGen Gen.EnforcementRulesGen
  Proofs.EnforcementGenProofs Proofs.RustFacts.
Require Import Lia.

Definition etag_name (t : tag) : string :=
  match t with
  | TRevokeNewSigned => "policy-revoke-new-commitment-signed"
  | TRevokeNotClosed => "policy-revoke-not-closed"
  | TRetrySame => "policy-commitment-retry-same"
  | THolderNotRevoked => "policy-commitment-holder-not-revoked"
  | TSpendsActive => "policy-commitment-spends-active-utxo"
  | TOther => "policy-other"
  | TPrevRevoked => "policy-commitment-previous-revoked"
  end%string.

Definition etag_filter (swarn : string -> bool) : tag -> bool := fun t => swarn (etag_name t).

(** the content verdict comes first: anything but [Ok] is the function's answer *)
Definition after_content (v : trap (result unit)) (rest : option bool) : option bool :=
  match status_of v with
  | Some true => rest
  | o => o
  end.

Lemma status_after_content {A} (v : trap (result unit)) (k : trap (result A)) :
  status_of (bindR v (fun _ => k)) = after_content v (status_of k).
Proof. destruct v as [[[]|t]|]; reflexivity. Qed.

Lemma opt_id_eqb_some c o : opt_id_eqb (Some c) o = opt_eqb o c.
Proof. destruct o as [x|]; cbn [opt_id_eqb opt_eqb]; [apply N.eqb_sym | reflexivity]. Qed.

Ltac projections :=
  cbn [to_res res_next_holder_commit_num res_next_counterparty_commit_num res_next_counterparty_revoke_num
       res_current_counterparty_point res_previous_counterparty_point res_current_holder_commit_info
       res_current_counterparty_signatures res_current_counterparty_commit_info
       res_previous_counterparty_commit_info res_channel_closed res_initial_holder_value
       res_counterparty_secrets].

(** * validate_holder_commitment_tx: retry-same, holder-not-revoked, closed channel

    [validate_holder_state] is the model's rendering of everything after the content verdict.
    Side condition [next_h e < U64MAX]: the model adds [n + 1] and [n + 2] before it looks at the
    retry rule, the source adds [n + 2] only after it.  The two orders differ for one input: a debug
    build, [next_holder_commit_num = 2^64 - 1] and [n = 2^64 - 2] with a changed content (the source
    refuses with retry-same, the model says abort).  A counter that starts at 0 and advances by 1
    per accepted commitment does not get there. *)
Theorem gen_holder_checks_are_model prof swarn fr e v n pt setup cstate c :
  next_h e < U64MAX ->
  status_of (gen_validate_holder_commitment_tx prof swarn v (to_res fr e) n pt setup cstate c) =
  after_content v (validate_holder_state (etag_filter swarn) prof e n c).
Proof.
  intros Hh. unfold gen_validate_holder_commitment_tx. cbv beta zeta.
  rewrite status_after_content. f_equal.
  unfold validate_holder_state, perr, etag_filter. cbn [etag_name]. projections.
  destruct (add_p prof n 1) as [n1|] eqn:E1; [|reflexivity].
  assert (Hn1 : add_p prof n 2 = Trap -> (n1 =? next_h e) = false).
  { intros E2. destruct prof; cbn [add_p] in E1, E2; [|discriminate E2].
    destruct (n + 1 <=? U64MAX) eqn:L1; [|discriminate E1].
    destruct (n + 2 <=? U64MAX) eqn:L2; [discriminate E2|].
    injection E1 as <-. apply N.eqb_neq. unfold U64MAX in *. lia. }
  destruct (add_p prof n 2) as [n2|] eqn:E2.
  - norm.
    destruct (n1 =? next_h e).
    + destruct (cur_h e) as [c0|]; cbn [expect_some bindT]; [|reflexivity].
      cbv beta zeta. norm.
      rewrite !status_check, status_check_last. rewrite (N.eqb_sym c c0).
      destruct (c0 =? c); destruct (swarn "policy-commitment-retry-same"%string);
        destruct (n2 <=? next_h e); destruct (swarn "policy-commitment-holder-not-revoked"%string);
        destruct (n =? next_h e); destruct (closed e);
        destruct (swarn "policy-commitment-spends-active-utxo"%string); reflexivity.
    + norm. rewrite !status_check, status_check_last.
      destruct (n2 <=? next_h e); destruct (swarn "policy-commitment-holder-not-revoked"%string);
        destruct (n =? next_h e); destruct (closed e);
        destruct (swarn "policy-commitment-spends-active-utxo"%string); reflexivity.
  - norm. rewrite (Hn1 eq_refl). norm. reflexivity.
Qed.

(** * validate_counterparty_commitment_tx: the revocation window and the retry rule

    The right-hand side is the decision of [do_sign_cp] after the content verdict: the window test
    [(next_r e + 1 <? n) && perr TPrevRevoked] (refused), the addition [n + 1] (abort), then
    [validate_cp_state e n n1 n2 pt c].  [n2] is arbitrary: [validate_cp_state] reads it only through
    [prev_info_for] in the branch [n1 = next_c e], where the answer is the current info whatever [n2]
    is - and the source does not compute [n + 2] there.  Side condition [next_r e < U64MAX]: the source
    computes [next_counterparty_revoke_num + 1] with a plain [+]. *)
Theorem gen_cp_checks_are_model prof swarn fr e v n pt setup cstate c n2 :
  next_r e < U64MAX ->
  status_of (gen_validate_counterparty_commitment_tx prof swarn v (to_res fr e) n pt setup cstate c) =
  after_content v
    (if (next_r e + 1 <? n) && perr (etag_filter swarn) TPrevRevoked then Some false
     else match add_p prof n 1 with
          | Trap => None
          | Val n1 => Some (validate_cp_state (etag_filter swarn) e n n1 n2 pt c)
          end).
Proof.
  intros Hr. unfold gen_validate_counterparty_commitment_tx. cbv beta zeta.
  rewrite status_after_content. f_equal.
  unfold validate_cp_state, prev_info_for, perr, etag_filter. cbn [etag_name]. projections.
  rewrite (add_p_ok prof (next_r e) 1) by lia. norm.
  rewrite status_check.
  destruct ((next_r e + 1 <? n) && negb (swarn "policy-commitment-previous-revoked"%string)) eqn:Ew;
    [reflexivity|].
  destruct (add_p prof n 1) as [n1|] eqn:E1; [|reflexivity].
  norm. cbn [negb andb].
  unfold gen_get_previous_counterparty_commit_info. projections. rewrite E1. cbn [bindT].
  destruct (n1 =? next_c e); [|reflexivity].
  norm. cbv beta zeta. norm.
  rewrite opt_id_eqb_some.
  destruct (cur_pt e) as [p0|]; cbn [opt_eqb].
  - norm. rewrite (N.eqb_sym pt p0). rewrite status_check, status_check_last.
    destruct (p0 =? pt); destruct (swarn "policy-commitment-retry-same"%string);
      destruct (opt_eqb (cur_c e) c); reflexivity.
  - change (policy_err swarn "policy-commitment-retry-same"%string)
      with (if true then policy_err swarn "policy-commitment-retry-same"%string else Val (OkR tt)).
    rewrite status_check, status_check_last.
    destruct (swarn "policy-commitment-retry-same"%string); destruct (opt_eqb (cur_c e) c); reflexivity.
Qed.

(** * validate_counterparty_revocation: the number checks and the point of the secret

    The right-hand side is [do_revocation] up to [revocation_checks]: [r + 1] (abort), [r + 2] only
    when [r + 1] is not the next commitment number (on its overflow: refused if the number check
    refuses, abort otherwise), then [revocation_checks e r r1 r2 pt_of_secret].  The point of the
    secret is [point_of ctx secret], for an arbitrary function [point_of] (PublicKey::from_secret_key)
    and context.  No side condition. *)
Theorem gen_revocation_checks_are_model prof swarn fr e ctx (point_of : N -> N -> N) r secret :
  status_of (gen_validate_counterparty_revocation prof swarn ctx point_of (to_res fr e) r secret) =
  match add_p prof r 1 with
  | Trap => None
  | Val r1 =>
      match (if r1 =? next_c e then Val 0 else add_p prof r 2) with
      | Trap =>
          if negb (r =? next_r e) && negb (r1 =? next_r e) && perr (etag_filter swarn) TPrevRevoked
          then Some false else None
      | Val r2 => Some (revocation_checks (etag_filter swarn) e r r1 r2 (point_of ctx secret))
      end
  end.
Proof.
  unfold gen_validate_counterparty_revocation, gen_get_previous_counterparty_point. cbv beta zeta.
  unfold revocation_checks, prev_point_for, perr, etag_filter. cbn [etag_name]. projections.
  destruct (add_p prof r 1) as [r1|] eqn:E1.
  - cbn [bindT]. rewrite if_val. norm. rewrite status_check.
    assert (Hc : (if negb (r =? next_r e) then negb (r1 =? next_r e) else false) =
                 negb (r =? next_r e) && negb (r1 =? next_r e)) by (destruct (r =? next_r e); reflexivity).
    rewrite Hc. clear Hc.
    destruct (negb (r =? next_r e) && negb (r1 =? next_r e)
              && negb (swarn "policy-commitment-previous-revoked"%string)) eqn:Ew.
    + destruct (r1 =? next_c e); [reflexivity|]. destruct (add_p prof r 2); reflexivity.
    + assert (Htail : forall o : option N,
                status_of (match o with
                           | Some prev =>
                               bindR (if negb (point_of ctx secret =? prev)
                                      then policy_err swarn "policy-commitment-previous-revoked"%string
                                      else Val (OkR tt)) (fun _ => Val (OkR tt))
                           | None => policy_err swarn "policy-commitment-previous-revoked"%string
                           end) =
                Some (opt_eqb o (point_of ctx secret)
                      || negb (negb (swarn "policy-commitment-previous-revoked"%string)))).
      { intros [p0|]; cbn [opt_eqb].
        - rewrite bindR_unit, status_check_last, (N.eqb_sym (point_of ctx secret) p0).
          destruct (p0 =? point_of ctx secret); destruct (swarn "policy-commitment-previous-revoked"%string);
            reflexivity.
        - unfold policy_err. destruct (swarn "policy-commitment-previous-revoked"%string); reflexivity. }
      destruct (r1 =? next_c e).
      * cbn [bindT negb andb]. rewrite ?bindR_unit. apply (Htail (cur_pt e)).
      * destruct (add_p prof r 2) as [r2|]; [|reflexivity].
        cbn [bindT negb andb]. rewrite if_val. cbn [bindT]. rewrite ?bindR_unit.
        destruct (r2 =? next_c e); [apply (Htail (prev_pt e)) | apply (Htail None)].
  - (* r + 1 overflows: with r = next_r the number check passes without the addition, and the look-up
       of the previous point panics on it *)
    destruct (negb (r =? next_r e)); reflexivity.
Qed.

(** * get_current_holder_commitment_info: the guard of sign_holder_commitment_tx

    Exactly the head of [do_sign_holder]: [n + 1] (abort), refusal with policy-other unless
    [n + 1 = next_h e] (or the filter downgrades the tag), a panic when there is no current holder
    commitment, otherwise the current content - the one the signature is then made for. *)
Theorem gen_holder_sign_guard_is_model prof swarn fr e n :
  gen_get_current_holder_commitment_info prof swarn (to_res fr e) n =
  match add_p prof n 1 with
  | Trap => Trap
  | Val n1 =>
      if negb (n1 =? next_h e) && perr (etag_filter swarn) TOther
      then Val (ErrR (etag_name TOther))
      else match cur_h e with
           | None => Trap
           | Some c => Val (OkR c)
           end
  end.
Proof.
  unfold gen_get_current_holder_commitment_info. cbv beta zeta.
  unfold perr, etag_filter. cbn [etag_name]. projections.
  destruct (add_p prof n 1) as [n1|]; [|reflexivity].
  norm. unfold policy_err.
  destruct (negb (n1 =? next_h e)); destruct (swarn "policy-other"%string); cbn [negb andb bindR];
    destruct (cur_h e); reflexivity.
Qed.

(** * Validator::set_next_holder_commit_num: the advance of the holder side

    The guard in front of the state update: a number that is neither the current next number nor
    its successor is refused (policy-revoke-new-commitment-signed); the successor advances the
    state exactly like the model's [advance_h]; the current number itself passes the guard and then
    dies in the assert_eq! of EnforcementState::set_next_holder_commit_num.  channel.rs only calls
    this with the successor ([do_revoke] advances only when [n = next_h e]). *)
Theorem gen_holder_advance_is_model prof swarn fr e num c sigs :
  next_h e < U64MAX ->
  EnforcementRulesGen.gen_set_next_holder_commit_num prof swarn (to_res fr e) num c sigs =
  if negb (num =? next_h e) && negb (num =? next_h e + 1) && perr (etag_filter swarn) TRevokeNewSigned
  then Val (ErrR (etag_name TRevokeNewSigned))
  else if num =? next_h e + 1
       then Val (OkR (to_res (mkF (Some sigs) (f_initial fr) (f_secrets fr)) (advance_h e c)))
       else Trap.
Proof.
  intros Hh. unfold EnforcementRulesGen.gen_set_next_holder_commit_num. cbv beta zeta.
  rewrite (gen_set_holder_is_model prof fr e num c sigs Hh).
  unfold perr, etag_filter. cbn [etag_name]. projections.
  rewrite (add_p_ok prof (next_h e) 1) by lia. cbn [bindT]. rewrite if_val. norm.
  unfold policy_err.
  destruct (num =? next_h e) eqn:E0; destruct (num =? next_h e + 1) eqn:E1;
    destruct (swarn "policy-revoke-new-commitment-signed"%string); cbn [negb andb bindR bindT]; reflexivity.
Qed.
