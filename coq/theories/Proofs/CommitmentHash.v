(** C04: the two executable hash functions have the output lengths the round-trip theorems
    assume of [sha] and [rip], so those theorems can be instantiated at them. *)
From Coq Require Import List NArith Lia.
From VLS Require Import Base.Sha256 Base.Ripemd160.
Import ListNotations.

Lemma compress_length hs blk : length hs = 8%nat -> length (compress hs blk) = 8%nat.
Proof.
  intros H.
  destruct hs as [|a [|b [|c [|d [|e [|f [|g [|h [|x r]]]]]]]]]; try discriminate.
  unfold compress.
  destruct (fold_left round (combine K256 (schedule blk)) (a, b, c, d, e, f, g, h))
    as [[[[[[[a' b'] c'] d'] e'] f'] g'] h'].
  reflexivity.
Qed.

Lemma blocks_length fuel : forall hs ws, length hs = 8%nat -> length (blocks fuel hs ws) = 8%nat.
Proof.
  induction fuel as [|fuel IH]; intros hs ws H; cbn [blocks]; [exact H|].
  destruct ws; [exact H|]. apply IH. apply compress_length. exact H.
Qed.

Lemma bytes_of_words_length ws : length (bytes_of_words ws) = (4 * length ws)%nat.
Proof.
  unfold bytes_of_words. induction ws as [|w ws IH]; cbn [flat_map length]; [reflexivity|].
  rewrite app_length, IH. cbn [bytes_of_word length]. lia.
Qed.

Theorem sha256_length (m : list N) : length (sha256 m) = 32%nat.
Proof.
  unfold sha256. rewrite bytes_of_words_length, blocks_length; reflexivity.
Qed.

Theorem ripemd160_length (m : list N) : length (ripemd160 m) = 20%nat.
Proof.
  unfold ripemd160.
  destruct (Rmd.blocks _ Rmd.H0 _) as [[[[a b] c] d] e]. reflexivity.
Qed.
