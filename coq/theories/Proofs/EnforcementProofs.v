(** Invariants of the enforcement state machine (Model/Enforcement.v) over every request
    history, for both build profiles, under a filter that does not downgrade the tags the
    properties rely on.  Used by Props/C01.v, C02.v, C03.v. *)
From VLS Require Import Base.U64 Model.Enforcement.
From Coq Require Import ZifyBool ZifyN ZifyNat.

Local Open Scope N_scope.

(** * machine arithmetic *)

Lemma add_p_val prof a b v :
  add_p prof a b = Val v -> a <= U64MAX -> b <= 2 ->
  v = a + b \/ (prof = Release /\ two64 <= a + b /\ v = a + b - two64).
Proof.
  unfold add_p, add_wrap. destruct prof; intros H Ha Hb.
  - destruct (a + b <=? U64MAX) eqn:E; inversion H; subst. left; reflexivity.
  - inversion H; subst. clear H.
    destruct (N.ltb_spec (a + b) two64) as [Hlt|Hge].
    + left. apply N.mod_small. exact Hlt.
    + right. split; [reflexivity|]. split; [exact Hge|].
      assert (Hs : a + b = (a + b - two64) + 1 * two64) by lia.
      rewrite Hs at 1. rewrite N.mod_add by discriminate. apply N.mod_small.
      unfold two64, U64MAX in *. lia.
Qed.

Lemma add_p_debug a b v : add_p Debug a b = Val v -> v = a + b.
Proof. unfold add_p. destruct (a + b <=? U64MAX); intros H; inversion H; reflexivity. Qed.

Definition two48 : N := 281474976710656.

Lemma secret_number_le idx : secret_number idx <= INITIAL_COMMITMENT_NUMBER.
Proof. unfold secret_number. lia. Qed.

(** the number a released secret belongs to never exceeds the requested number *)
Lemma secret_number_sub prof n idx :
  sub_p prof INITIAL_COMMITMENT_NUMBER n = Val idx -> n <= U64MAX -> secret_number idx <= n.
Proof.
  unfold sub_p, sub_wrap, secret_number. change 281474976710656 with two48.
  assert (Hi : INITIAL_COMMITMENT_NUMBER + 1 = two48) by reflexivity.
  assert (H48 : two48 < two64) by reflexivity.
  assert (H0 : two48 <> 0) by discriminate.
  assert (H64 : two64 <> 0) by discriminate.
  destruct prof; intros H Hn.
  - destruct (n <=? INITIAL_COMMITMENT_NUMBER) eqn:E; inversion H; subst.
    rewrite N.mod_small by lia. lia.
  - inversion H; subst. clear H.
    destruct (N.leb_spec n INITIAL_COMMITMENT_NUMBER) as [Hle|Hgt].
    + assert (Hs : INITIAL_COMMITMENT_NUMBER + two64 - n
                   = (INITIAL_COMMITMENT_NUMBER - n) + 1 * two64) by lia.
      rewrite Hs. rewrite N.mod_add by exact H64.
      rewrite (N.mod_small (INITIAL_COMMITMENT_NUMBER - n) two64) by lia.
      rewrite N.mod_small by lia. lia.
    + lia.
Qed.

Lemma grun_app warn prof sg ops1 ops2 :
  grun warn prof sg (ops1 ++ ops2) = grun warn prof (grun warn prof sg ops1) ops2.
Proof.
  revert sg. induction ops1 as [|o r IH]; intros sg; cbn [grun app]; [reflexivity | apply IH].
Qed.

(** * the holder side *)

Section Holder.
Variable warn : tag -> bool.
Variable prof : profile.
Hypothesis W1 : warn TRevokeNewSigned = false.
Hypothesis W2 : warn TRevokeNotClosed = false.
Hypothesis W3 : warn THolderNotRevoked = false.
Hypothesis W4 : warn TOther = false.

(** numbers obtainable through the secret getters at a given counter *)
Definition obtainable (nx n : N) (k : N) : Prop :=
  sat_add n 2 <= nx /\ exists idx, sub_p prof INITIAL_COMMITMENT_NUMBER n = Val idx /\ k = secret_number idx.

Record HI (b : N) (nx : N) (cur nxt : option content) (cl : bool)
          (val : list (N * content)) (dis : list N) (hs : list (N * content)) : Prop := {
  h_bnd : nx <= b;   (* [b]: number of requests served so far *)
  h_val : forall j, j < nx -> exists c, In (j, c) val;
  h_nxt : forall c, nxt = Some c -> In (nx, c) val;
  h_dis : forall k, In k dis -> k + 2 <= nx;
  h_sig : forall n c, In (n, c) hs -> nx <= n + 1;
  h_cl : hs <> [] -> cl = true;
  h_cur : cur = None <-> nx = 0;
  (* everything obtainable has been disclosed (as long as the counter is not within reach of
     the saturation point of the getters' bound) *)
  h_all : nx + 2 <= U64MAX -> forall n k, n <= U64MAX -> obtainable nx n k -> In k dis
}.

Definition HInv (b : N) (e : estate) (g : ghost) : Prop :=
  HI b (next_h e) (cur_h e) (nxt_h e) (closed e) (validated g) (disclosed g) (hsigned g).

Lemma HI_init : HI 0 0 None None false [] [] [].
Proof.
  constructor.
  - lia.
  - intros j H. lia.
  - intros c H. discriminate.
  - intros k H. contradiction.
  - intros n c H. contradiction.
  - intros H. congruence.
  - split; reflexivity.
  - intros _ n k _ [H _]. unfold sat_add in H. assert (2 <= U64MAX) by (cbv; discriminate). lia.
Qed.

Lemma HI_val_grow b nx cur nxt cl val dis hs x :
  HI b nx cur nxt cl val dis hs -> HI b nx cur nxt cl (x :: val) dis hs.
Proof.
  intros [A0 A B C D E F G]. constructor; auto.
  - intros j Hj. destruct (A j Hj) as [c Hc]. exists c. right. exact Hc.
  - intros c Hc. right. auto.
Qed.

Lemma HI_val_opt b nx cur nxt cl val dis hs o :
  HI b nx cur nxt cl val dis hs -> HI b nx cur nxt cl (opt_cons o val) dis hs.
Proof. destruct o; cbn [opt_cons]; [apply HI_val_grow | auto]. Qed.

Lemma HI_setnxt b nx cur nxt cl val dis hs c :
  HI b nx cur nxt cl val dis hs -> HI b nx cur (Some c) cl ((nx, c) :: val) dis hs.
Proof.
  intros [A0 A B C D E F G]. constructor; auto.
  - intros j Hj. destruct (A j Hj) as [c0 Hc]. exists c0. right. exact Hc.
  - intros c0 Hc. inversion Hc; subst. left. reflexivity.
Qed.

Lemma HI_close b nx cur nxt cl val dis hs :
  HI b nx cur nxt cl val dis hs -> HI b nx cur nxt true val dis hs.
Proof. intros [A0 A B C D E F G]. constructor; auto. Qed.

Lemma HI_mono b b' nx cur nxt cl val dis hs :
  HI b nx cur nxt cl val dis hs -> b <= b' -> HI b' nx cur nxt cl val dis hs.
Proof. intros [A0 A B C D E F G] Hb. constructor; auto. lia. Qed.

Lemma HI_hsig b nx cur nxt val dis hs n c :
  HI b nx cur nxt true val dis hs -> nx <= n + 1 -> HI b nx cur nxt true val dis ((n, c) :: hs).
Proof.
  intros [A0 A B C D E F G] Hn. constructor; auto.
  intros n0 c0 [H|H]; [inversion H; subst; exact Hn | eauto].
Qed.

Lemma HI_disclose b nx cur nxt cl val dis hs k :
  HI b nx cur nxt cl val dis hs -> k + 2 <= nx -> HI b nx cur nxt cl val (k :: dis) hs.
Proof.
  intros [A0 A B C D E F G] Hk. constructor; auto.
  - intros k0 [H|H]; [subst; exact Hk | auto].
  - intros Hb n k0 Hn Ho. right. eauto.
Qed.

(** advancing the counter: every number that becomes obtainable must be in the new ledger *)
Lemma HI_advance b nx cur c cl val dis dis' hs :
  HI b nx cur (Some c) cl val dis hs ->
  (hs = [] \/ nx = 0) ->
  (forall k, In k dis -> In k dis') ->
  (forall k, In k dis' -> In k dis \/ k + 2 <= nx + 1) ->
  (nx + 3 <= U64MAX ->
   forall n k, n <= U64MAX -> obtainable (nx + 1) n k -> ~ sat_add n 2 <= nx -> In k dis') ->
  HI (b + 1) (nx + 1) (Some c) None cl val dis' hs.
Proof.
  intros [A0 A B C D E F G] Hs Hsub Hnew Hall. constructor.
  - lia.
  - intros j Hj. destruct (N.eq_dec j nx) as [->|Hne].
    + exists c. apply B. reflexivity.
    + apply A. lia.
  - intros c0 Hc. discriminate.
  - intros k Hk. destruct (Hnew k Hk) as [H|H]; [specialize (C k H); lia | exact H].
  - intros n c0 Hin. destruct Hs as [->| ->]; [contradiction | lia].
  - exact E.
  - split; [discriminate | lia].
  - intros Hb n k Hn Ho. destruct (N.le_gt_cases (sat_add n 2) nx) as [Hle|Hgt].
    + apply Hsub. apply (G ltac:(lia) n k Hn). destruct Ho as [_ Hx]. split; assumption.
    + apply (Hall ltac:(lia) n k Hn Ho). lia.
Qed.

(** ** facts about the getters *)

Lemma secret_res_ok e n k :
  secret_res warn prof e n = Some (Val k) -> n <= U64MAX ->
  obtainable (next_h e) n k /\ k + 2 <= next_h e.
Proof.
  unfold secret_res, perr. rewrite W1. cbn [negb]. rewrite andb_true_r.
  destruct (next_h e <? sat_add n 2) eqn:E; [discriminate|].
  destruct (sub_p prof INITIAL_COMMITMENT_NUMBER n) as [idx|] eqn:Es; [|discriminate].
  intros H Hn. inversion H; subst. clear H.
  assert (Hle : sat_add n 2 <= next_h e) by lia.
  split.
  - split; [exact Hle | exists idx; split; [exact Es | reflexivity]].
  - pose proof (secret_number_sub prof n idx Es Hn) as H1.
    pose proof (secret_number_le idx) as H2.
    assert (Hi : INITIAL_COMMITMENT_NUMBER + 2 <= U64MAX) by (cbv; discriminate).
    unfold sat_add in *. lia.
Qed.

Definition HIe (b : N) (e : estate) val dis hs :=
  HI b (next_h e) (cur_h e) (nxt_h e) (closed e) val dis hs.

(** what every holder-side request guarantees: an abort leaves the persisted image alone and
    returns nothing; otherwise memory and store agree and the invariant holds for the ledgers
    extended by what the reply disclosed *)
Definition hpost (b : N) (ch : chan) (val' : list (N * content)) dis hs (res : chan * outp) : Prop :=
  let '(ch', r) := res in
  (st r = Abort -> disk ch' = disk ch /\ o_secret r = None /\ o_hsig r = None) /\
  (st r <> Abort ->
     mem ch' = disk ch' /\
     HIe (b + 1) (mem ch') val' (opt_cons (o_secret r) dis) (opt_cons (o_hsig r) hs)).

Ltac bump := eapply HI_mono; [| apply N.le_add_r].
Ltac hp_refused :=
  unfold hpost; split; [intros Hx; discriminate Hx | intros _; split; [assumption|]; cbn [opt_cons o_secret o_hsig refused ok0 ok_point ok_ps]; eapply HI_mono; [eassumption | lia]].
Ltac hp_aborted :=
  unfold hpost; split; [intros _; repeat split; reflexivity | intros Hx; exfalso; apply Hx; reflexivity].

Lemma release_post b e n val dis hs :
  HIe b e val dis hs -> n <= U64MAX ->
  let r := release warn prof e n in
  (st r = Abort -> o_secret r = None /\ o_hsig r = None) /\
  (st r <> Abort -> o_hsig r = None /\ HIe b e val (opt_cons (o_secret r) dis) hs).
Proof.
  intros HH Hn. unfold release, tbind.
  destruct (add_p prof n 1) as [n1|]; [|cbn; split; [auto | intros Hx; exfalso; apply Hx; reflexivity]].
  destruct (negb (point_ok e n1)); [cbn; split; [intros Hx; discriminate | auto]|].
  destruct (1 <=? n) eqn:E1; [|cbn; split; [intros Hx; discriminate | auto]].
  destruct (secret_res warn prof e (n - 1)) as [[k|]|] eqn:Es.
  - cbn. split; [intros Hx; discriminate|]. intros _. split; [reflexivity|].
    destruct (secret_res_ok e (n - 1) k Es ltac:(lia)) as [_ Hk].
    apply HI_disclose; assumption.
  - cbn. split; [auto | intros Hx; exfalso; apply Hx; reflexivity].
  - cbn. split; [intros Hx; discriminate | auto].
Qed.

Lemma do_validate_post b ch n c sg pl val dis hs :
  mem ch = disk ch -> HIe b (mem ch) val dis hs ->
  let res := do_validate warn prof ch n c sg pl in
  hpost b ch (match st (snd res) with Ok => (n, c) :: val | _ => val end) dis hs res.
Proof.
  intros Hmd HH. unfold do_validate.
  destruct (negb (point_ok (mem ch) n)); [cbn [snd st refused]; hp_refused|].
  destruct (negb pl); [cbn [snd st refused]; hp_refused|].
  destruct (validate_holder_state warn prof (mem ch) n c) as [[|]|];
    [| cbn [snd st refused]; hp_refused | cbn [snd st aborted]; hp_aborted].
  destruct sg; [| cbn [snd st refused]; hp_refused | cbn [snd st aborted]; hp_aborted].
  destruct (n =? next_h (mem ch)) eqn:E.
  - cbn [snd st ok0]. unfold hpost. split; [intros Hx; discriminate|]. intros _.
    split; [reflexivity|]. cbn [persist mem opt_cons o_secret o_hsig ok0].
    apply N.eqb_eq in E. subst n. unfold HIe, set_nxt_h; cbn [next_h cur_h nxt_h closed].
    unfold HIe in HH. bump. eapply HI_setnxt. exact HH.
  - cbn [snd st ok0]. unfold hpost. split; [intros Hx; discriminate|]. intros _.
    split; [exact Hmd|]. cbn [opt_cons o_secret o_hsig ok0].
    unfold HIe in *. bump. apply HI_val_grow. exact HH.
Qed.

Lemma do_revoke_post b ch n py val dis hs :
  mem ch = disk ch -> HIe b (mem ch) val dis hs -> n <= U64MAX ->
  hpost b ch val dis hs (do_revoke warn prof ch n py).
Proof.
  intros Hmd HH Hn. unfold do_revoke.
  destruct (negb (n =? next_h (mem ch))) eqn:En.
  - (* retry of a past revocation: no state change *)
    pose proof (release_post b (mem ch) n val dis hs HH Hn) as [Ha Hb].
    unfold hpost. split.
    + intros Hx. destruct (Ha Hx) as [H1 H2]. auto.
    + intros Hx. destruct (Hb Hx) as [H1 H2]. split; [exact Hmd|]. rewrite H1. unfold HIe in *. bump. exact H2.
  - apply negb_false_iff, N.eqb_eq in En. subst n.
    unfold perr. rewrite W2, W1. cbn [negb]. rewrite andb_true_r.
    destruct (closed (mem ch)) eqn:Ecl; [hp_refused|].
    destruct (nxt_h (mem ch)) as [c|] eqn:Enx; [|hp_refused].
    destruct (negb py); [hp_refused|].
    set (e' := advance_h (mem ch) c).
    assert (Hhs : hs = []).
    { destruct hs as [|x hs']; [reflexivity|]. exfalso.
      assert (Hc : closed (mem ch) = true) by (apply (h_cl _ _ _ _ _ _ _ _ HH); discriminate).
      congruence. }
    (* what release answers on the advanced state *)
    unfold release, tbind.
    destruct (add_p prof (next_h (mem ch)) 1) as [n1|] eqn:Ea;
      [| cbn [st aborted]; unfold hpost; cbn [keep disk st aborted o_secret o_hsig]; split;
         [intros _; auto | intros Hx; exfalso; apply Hx; reflexivity]].
    assert (Hp : point_ok e' n1 = true).
    { unfold point_ok, e', advance_h; cbn [next_h].
      destruct (add_p_val _ _ _ _ Ea Hn ltac:(lia)) as [->|[_ [_ ->]]]; lia. }
    rewrite Hp. cbn [negb].
    destruct (1 <=? next_h (mem ch)) eqn:E1.
    + destruct (secret_res warn prof e' (next_h (mem ch) - 1)) as [[k|]|] eqn:Es.
      * (* the advancing revocation: secret of next-1 disclosed *)
        cbn [ok_ps]. unfold hpost. cbn [st o_secret o_hsig persist mem disk opt_cons].
        split; [intros Hx; discriminate|]. intros _. split; [reflexivity|].
        destruct (secret_res_ok e' _ k Es ltac:(lia)) as [Hob Hk].
        unfold HIe, e', advance_h in *; cbn [next_h cur_h nxt_h closed] in *.
        eapply HI_advance.
        -- unfold HIe in HH. rewrite Enx in HH. exact HH.
        -- left. exact Hhs.
        -- intros k0 Hk0. right. exact Hk0.
        -- intros k0 [->|Hk0]; [right; exact Hk | left; exact Hk0].
        -- intros Hb m k0 Hm [Hsat [idx [Hsub ->]]] Hnot.
           (* the only newly obtainable request number is next-1 *)
           assert (Hm1 : m = next_h (mem ch) - 1).
           { unfold sat_add in *. lia. }
           subst m. destruct Hob as [_ [idx' [Hsub' ->]]].
           rewrite Hsub in Hsub'. inversion Hsub'; subst. left. reflexivity.
      * cbn [st aborted]. unfold hpost. cbn [keep disk st aborted o_secret o_hsig].
        split; [intros _; auto | intros Hx; exfalso; apply Hx; reflexivity].
      * (* release cannot refuse on the state it was just advanced to *)
        exfalso. unfold secret_res, perr in Es. rewrite W1 in Es. cbn [negb] in Es.
        rewrite andb_true_r in Es.
        destruct (next_h e' <? sat_add (next_h (mem ch) - 1) 2) eqn:Eg.
        -- unfold e', advance_h, sat_add in Eg; cbn [next_h] in Eg. lia.
        -- destruct (sub_p prof INITIAL_COMMITMENT_NUMBER (next_h (mem ch) - 1)); discriminate.
    + (* next = 0: first advance through revoke (old protocol), nothing to disclose *)
      cbn [ok_ps]. unfold hpost. cbn [st o_secret o_hsig persist mem disk opt_cons].
      split; [intros Hx; discriminate|]. intros _. split; [reflexivity|].
      unfold HIe, e', advance_h in *; cbn [next_h cur_h nxt_h closed] in *.
      eapply HI_advance.
      * unfold HIe in HH. rewrite Enx in HH. exact HH.
      * left. exact Hhs.
      * auto.
      * auto.
      * intros Hb m k0 Hm [Hsat _] Hnot. exfalso.
        unfold sat_add in *. lia.
Qed.

Lemma do_activate_post b ch val dis hs :
  mem ch = disk ch -> HIe b (mem ch) val dis hs ->
  hpost b ch val dis hs (do_activate ch).
Proof.
  intros Hmd HH. unfold do_activate.
  destruct (negb (next_h (mem ch) =? 0)) eqn:E0; [hp_refused|].
  apply negb_false_iff, N.eqb_eq in E0.
  destruct (nxt_h (mem ch)) as [c|] eqn:Enx; [|hp_refused].
  unfold hpost. cbn [st ok_point o_secret o_hsig persist mem disk opt_cons].
  split; [intros Hx; discriminate|]. intros _. split; [reflexivity|].
  unfold HIe, advance_h in *; cbn [next_h cur_h nxt_h closed] in *.
  eapply HI_advance.
  - rewrite Enx in HH. exact HH.
  - right. exact E0.
  - auto.
  - auto.
  - intros Hb m k0 Hm [Hsat _] Hnot. exfalso. unfold sat_add in *. lia.
Qed.

Lemma do_get_point_post b ch n val dis hs :
  mem ch = disk ch -> HIe b (mem ch) val dis hs ->
  hpost b ch val dis hs (do_get_point ch n).
Proof.
  intros Hmd HH. unfold do_get_point.
  destruct (point_ok (mem ch) n); [|hp_refused].
  unfold hpost. cbn [st ok_point o_secret o_hsig opt_cons].
  split; [intros Hx; discriminate | intros _; split; [assumption|]]. unfold HIe in *. bump. exact HH.
Qed.

Lemma do_get_secret_post b ch n val dis hs :
  mem ch = disk ch -> HIe b (mem ch) val dis hs -> n <= U64MAX ->
  hpost b ch val dis hs (do_get_secret warn prof ch n).
Proof.
  intros Hmd HH Hn. unfold do_get_secret.
  destruct (secret_res warn prof (mem ch) n) as [[k|]|] eqn:Es; [| hp_aborted | hp_refused].
  unfold hpost. cbn [st o_secret o_hsig opt_cons].
  split; [intros Hx; discriminate|]. intros _. split; [exact Hmd|].
  destruct (secret_res_ok (mem ch) n k Es Hn) as [_ Hk].
  unfold HIe in *. bump. apply HI_disclose; assumption.
Qed.

Lemma do_get_secret_or_none_post b ch n val dis hs :
  mem ch = disk ch -> HIe b (mem ch) val dis hs -> n <= U64MAX ->
  hpost b ch val dis hs (do_get_secret_or_none prof ch n).
Proof.
  intros Hmd HH Hn. unfold do_get_secret_or_none.
  destruct (next_h (mem ch) <? sat_add n 2) eqn:Eg; [hp_refused|].
  destruct (sub_p prof INITIAL_COMMITMENT_NUMBER n) as [idx|] eqn:Es; [|hp_aborted].
  unfold hpost. cbn [st o_secret o_hsig opt_cons].
  split; [intros Hx; discriminate|]. intros _. split; [exact Hmd|].
  unfold HIe in *. bump. apply HI_disclose; [exact HH|].
  pose proof (secret_number_sub prof n idx Es Hn) as H1.
  pose proof (secret_number_le idx) as H2.
  assert (Hi : INITIAL_COMMITMENT_NUMBER + 2 <= U64MAX) by (cbv; discriminate).
  unfold sat_add in *. lia.
Qed.

Lemma validate_holder_state_true e n c :
  validate_holder_state warn prof e n c = Some true -> n <= U64MAX -> n <= next_h e + 1 ->
  next_h e <= n + 1.
Proof.
  unfold validate_holder_state, perr. rewrite W3. cbn [negb].
  destruct (add_p prof n 1) as [n1|] eqn:E1; [|discriminate].
  destruct (add_p prof n 2) as [n2|] eqn:E2; [|discriminate].
  intros H Hn Hp.
  destruct (if n1 =? next_h e then match cur_h e with None => None | Some c0 => Some ((c0 =? c) || negb (negb (warn TRetrySame))) end else Some true) as [r|]; [|discriminate].
  inversion H as [H0]. clear H.
  apply andb_prop in H0. destruct H0 as [H0 _]. apply andb_prop in H0. destruct H0 as [_ H0].
  rewrite andb_true_r in H0. apply negb_true_iff, N.leb_gt in H0.
  destruct (add_p_val _ _ _ _ E2 Hn ltac:(lia)) as [->|[_ [Hge ->]]]; [lia|].
  unfold two64, U64MAX in *. lia.
Qed.

Lemma do_sign_holder_post b ch n val dis hs :
  mem ch = disk ch -> HIe b (mem ch) val dis hs -> n <= U64MAX ->
  hpost b ch val dis hs (do_sign_holder warn prof ch n).
Proof.
  intros Hmd HH Hn. unfold do_sign_holder, tbind, perr. rewrite W4. cbn [negb].
  destruct (add_p prof n 1) as [n1|] eqn:E1; [|hp_aborted].
  rewrite andb_true_r.
  destruct (negb (n1 =? next_h (mem ch))) eqn:En; [hp_refused|].
  apply negb_false_iff, N.eqb_eq in En.
  destruct (cur_h (mem ch)) as [c|] eqn:Ec; [|hp_aborted].
  destruct (negb (point_ok (mem ch) n)); [hp_refused|].
  unfold hpost. cbn [st o_secret o_hsig persist mem disk opt_cons].
  split; [intros Hx; discriminate|]. intros _. split; [reflexivity|].
  unfold HIe, set_closed in *; cbn [next_h cur_h nxt_h closed] in *.
  bump. apply HI_hsig; [eapply HI_close; exact HH|].
  destruct (add_p_val _ _ _ _ E1 Hn ltac:(lia)) as [H|[_ [Hge H]]]; [lia|].
  (* wrapped n+1 = 0 = next: impossible, a current commitment exists *)
  exfalso. assert (Hz : n1 = 0) by (unfold two64, U64MAX in *; lia).
  rewrite Hz in En. symmetry in En. apply (h_cur _ _ _ _ _ _ _ _ HH) in En. congruence.
Qed.

Lemma do_sign_recovery_post b ch val dis hs :
  b <= U64MAX ->
  mem ch = disk ch -> HIe b (mem ch) val dis hs ->
  hpost b ch val dis hs (do_sign_recovery prof ch).
Proof.
  intros Hbb Hmd HH. unfold do_sign_recovery.
  destruct (cur_h (mem ch)) as [c|] eqn:Ec; [|hp_refused].
  assert (Hnz : next_h (mem ch) <> 0).
  { intros Hz. apply (h_cur _ _ _ _ _ _ _ _ HH) in Hz. congruence. }
  destruct (sub_p prof (next_h (mem ch)) 1) as [n|] eqn:Es; [|hp_aborted].
  destruct (negb (point_ok (mem ch) n)); [hp_refused|].
  unfold hpost. cbn [st o_secret o_hsig persist mem disk opt_cons].
  split; [intros Hx; discriminate|]. intros _. split; [reflexivity|].
  unfold HIe, set_closed in *; cbn [next_h cur_h nxt_h closed] in *.
  bump. apply HI_hsig; [eapply HI_close; exact HH|].
  unfold sub_p, sub_wrap in Es. destruct prof.
  - destruct (1 <=? next_h (mem ch)); inversion Es; subst. lia.
  - inversion Es; subst. clear Es.
    pose proof (h_bnd _ _ _ _ _ _ _ _ HH) as Hbd.
    assert (Hs : next_h (mem ch) + two64 - 1 = (next_h (mem ch) - 1) + 1 * two64) by lia.
    rewrite Hs. rewrite N.mod_add by discriminate.
    rewrite N.mod_small by (unfold two64, U64MAX in *; lia). lia.
Qed.

Lemma do_sign_redundant_post b ch n c pl val dis hs :
  mem ch = disk ch -> HIe b (mem ch) val dis hs -> n <= U64MAX ->
  hpost b ch val dis hs (do_sign_redundant warn prof ch n c pl).
Proof.
  intros Hmd HH Hn. unfold do_sign_redundant.
  destruct (negb (point_ok (mem ch) n)) eqn:Ep; [hp_refused|].
  apply negb_false_iff in Ep. unfold point_ok in Ep.
  destruct (negb pl); [hp_refused|].
  destruct (validate_holder_state warn prof (mem ch) n c) as [[|]|] eqn:Ev;
    [| hp_refused | hp_aborted].
  unfold hpost. cbn [st o_secret o_hsig persist mem disk opt_cons].
  split; [intros Hx; discriminate|]. intros _. split; [reflexivity|].
  unfold HIe, set_closed in *; cbn [next_h cur_h nxt_h closed] in *.
  bump. apply HI_hsig; [eapply HI_close; exact HH|].
  apply (validate_holder_state_true _ _ _ Ev Hn). lia.
Qed.

Lemma do_mutual_close_post b ch ok val dis hs :
  mem ch = disk ch -> HIe b (mem ch) val dis hs ->
  hpost b ch val dis hs (do_mutual_close ch ok).
Proof.
  intros Hmd HH. unfold do_mutual_close. destruct ok; [|hp_refused].
  unfold hpost. cbn [st ok0 o_secret o_hsig persist mem disk opt_cons].
  split; [intros Hx; discriminate|]. intros _. split; [reflexivity|].
  unfold HIe, set_closed in *; cbn [next_h cur_h nxt_h closed] in *.
  bump. eapply HI_close; exact HH.
Qed.

(** the counterparty-side requests do not touch the holder side *)
Lemma do_sign_cp_post b ch n pt c pl val dis hs :
  mem ch = disk ch -> HIe b (mem ch) val dis hs ->
  hpost b ch val dis hs (do_sign_cp warn prof ch n pt c pl).
Proof.
  intros Hmd HH. unfold do_sign_cp, tbind.
  destruct (negb pl); [hp_refused|].
  destruct ((next_r (mem ch) + 1 <? n) && perr warn TPrevRevoked); [hp_refused|].
  destruct (add_p prof n 1) as [n1|]; [|hp_aborted].
  destruct (negb (validate_cp_state warn (mem ch) n n1 _ pt c)); [hp_refused|].
  destruct (negb (cp_commit_guard warn (mem ch) n1)); [hp_refused|].
  destruct (set_cp_commit (mem ch) n1 pt c) as [e'|] eqn:Es; [|hp_aborted].
  unfold hpost. cbn [st o_secret o_hsig persist mem disk opt_cons].
  split; [intros Hx; discriminate|]. intros _. split; [reflexivity|].
  unfold set_cp_commit in Es. destruct (n1 =? 0); [discriminate|].
  destruct (if n1 =? next_c (mem ch) + 1 then _ else _) as [[ppt pc] cc0].
  destruct (if next_c (mem ch) + 1 <=? n1 then _ else _) as [cpt cc].
  inversion Es; subst. unfold HIe in *; cbn [next_h cur_h nxt_h closed]. bump. exact HH.
Qed.

Lemma do_revocation_post b ch r p sec chn val dis hs :
  mem ch = disk ch -> HIe b (mem ch) val dis hs ->
  hpost b ch val dis hs (do_revocation warn prof ch r p sec chn).
Proof.
  intros Hmd HH. unfold do_revocation, tbind.
  destruct (add_p prof r 1) as [r1|]; [|hp_aborted].
  destruct (if r1 =? next_c (mem ch) then Val 0 else add_p prof r 2) as [r2|].
  - destruct (negb (revocation_checks warn (mem ch) r r1 r2 p)); [hp_refused|].
    destruct (sub_p prof INITIAL_COMMITMENT_NUMBER r); [|hp_aborted].
    destruct (negb (cp_revoke_guard warn (mem ch) r1)); [hp_refused|].
    destruct (negb chn && perr warn TPrevRevoked); [hp_refused|].
    destruct (set_cp_revoke (mem ch) r1 _) as [e'|] eqn:Es; [|hp_aborted].
    unfold hpost. cbn [st ok0 o_secret o_hsig persist mem disk opt_cons].
    split; [intros Hx; discriminate|]. intros _. split; [reflexivity|].
    unfold set_cp_revoke in Es. destruct (r1 =? 0); [discriminate|].
    inversion Es; subst. unfold HIe in *; cbn [next_h cur_h nxt_h closed]. bump. exact HH.
  - destruct (negb (r =? next_r (mem ch)) && negb (r1 =? next_r (mem ch)) && perr warn TPrevRevoked);
      [hp_refused | hp_aborted].
Qed.

Lemma add_p_le a b v : add_p prof a b = Val v -> v <= U64MAX.
Proof.
  unfold add_p, add_wrap. destruct prof.
  - destruct (a + b <=? U64MAX) eqn:E; intros H; inversion H; subst. lia.
  - intros H; inversion H; subst.
    pose proof (N.mod_upper_bound (a + b) two64 ltac:(discriminate)).
    unfold two64, U64MAX in *. lia.
Qed.

Lemma release_nohsig e n : o_hsig (release warn prof e n) = None.
Proof.
  unfold release, tbind. destruct (add_p prof n 1) as [n1|]; [|reflexivity].
  destruct (negb (point_ok e n1)); [reflexivity|].
  destruct (1 <=? n); [|reflexivity].
  destruct (secret_res warn prof e (n - 1)) as [[|]|]; reflexivity.
Qed.

Lemma do_revoke_nohsig ch n py : o_hsig (snd (do_revoke warn prof ch n py)) = None.
Proof.
  unfold do_revoke.
  destruct (negb (n =? next_h (mem ch))); [apply release_nohsig|].
  destruct (closed (mem ch) && perr warn TRevokeNotClosed); [reflexivity|].
  destruct (nxt_h (mem ch)).
  - destruct (negb py); [reflexivity|].
    pose proof (release_nohsig (advance_h (mem ch) c) n) as H.
    destruct (release warn prof (advance_h (mem ch) c) n) as [[| |] p sx h cp]; cbn in *; auto.
  - destruct (perr warn TRevokeNewSigned); [reflexivity|].
    destruct (point_ok (mem ch) n); reflexivity.
Qed.

(** ** one request against the slot, with the ghost ledgers *)

Definition wf_op (o : op) : Prop :=
  match o with
  | ValidateHolder n _ _ _ | Revoke n _ | GetPoint n | GetSecret n | GetSecretOrNone n
  | SignHolder n | SignRedundant n _ _ | SignCp n _ _ _ | ValidateRevocation n _ _ _
  | HValidateOld n _ _ _ _ | HValidateNew n _ _ _ | HGetPointOld n | HRevoke n _ => n <= U64MAX
  | _ => True
  end.

Definition HSInv (b : N) (s : slot) (g : ghost) : Prop :=
  match s with
  | Stub => validated g = [] /\ disclosed g = [] /\ hsigned g = []
  | Ready ch => mem ch = disk ch /\ HIe b (mem ch) (validated g) (disclosed g) (hsigned g)
  end.

(** the slot after the crash rule, for a result that satisfies [hpost] *)
Definition settle (res : chan * outp) : slot :=
  match st (snd res) with
  | Abort => crash (Ready (fst res))
  | _ => Ready (fst res)
  end.

Lemma hpost_settle b ch val' dis hs res :
  mem ch = disk ch -> HIe b (mem ch) val' dis hs -> hpost b ch val' dis hs res ->
  match settle res with
  | Stub => False
  | Ready ch' =>
      mem ch' = disk ch' /\
      HIe (b + 2) (mem ch') val' (opt_cons (o_secret (snd res)) dis) (opt_cons (o_hsig (snd res)) hs)
  end.
Proof.
  intros Hmd HH. destruct res as [ch' r]. unfold hpost, settle. cbn [fst snd].
  intros [Ha Hb]. destruct (st r) eqn:Es.
  - destruct (Hb ltac:(discriminate)) as [H1 H2]. split; [exact H1|].
    unfold HIe in *. eapply HI_mono; [exact H2 | lia].
  - destruct (Hb ltac:(discriminate)) as [H1 H2]. split; [exact H1|].
    unfold HIe in *. eapply HI_mono; [exact H2 | lia].
  - destruct (Ha eq_refl) as [H1 [H2 H3]]. cbn [crash mem disk]. split; [reflexivity|].
    rewrite H2, H3, H1, <- Hmd. cbn [opt_cons]. unfold HIe in *. eapply HI_mono; [exact HH | lia].
Qed.

(** composition of two holder-side requests (the handler composites) *)
Lemma hpost_then b ch val1 dis hs f g :
  mem ch = disk ch ->
  hpost b ch val1 dis hs (f ch) ->
  (st (snd (f ch)) = Ok -> o_secret (snd (f ch)) = None /\ o_hsig (snd (f ch)) = None) ->
  HIe b (mem ch) val1 dis hs ->
  (forall ch1, mem ch1 = disk ch1 -> HIe (b + 1) (mem ch1) val1 dis hs ->
               hpost (b + 1) ch1 val1 dis hs (g ch1)) ->
  match settle (and_then f g ch) with
  | Stub => False
  | Ready ch' =>
      mem ch' = disk ch' /\
      HIe (b + 2) (mem ch') val1 (opt_cons (o_secret (snd (and_then f g ch))) dis)
                                 (opt_cons (o_hsig (snd (and_then f g ch))) hs)
  end.
Proof.
  intros Hmd Hf Hnone HH Hg. unfold and_then.
  destruct (f ch) as [ch1 o1] eqn:Ef. cbn [snd] in *.
  destruct (st o1) eqn:Es1.
  - (* first half accepted: run the second on its result *)
    destruct Hf as [_ Hf]. rewrite Es1 in Hf. destruct (Hf ltac:(discriminate)) as [Hmd1 HH1].
    destruct (Hnone eq_refl) as [Hn1 Hn2]. rewrite Hn1, Hn2 in HH1. cbn [opt_cons] in HH1.
    specialize (Hg ch1 Hmd1 HH1).
    destruct (g ch1) as [ch2 o2] eqn:Eg. unfold settle. cbn [fst snd].
    unfold hpost in Hg. destruct Hg as [Ga Gb]. destruct (st o2) eqn:Es2.
    + destruct (Gb ltac:(discriminate)) as [H1 H2]. split; [exact H1|].
      unfold HIe in *. eapply HI_mono; [exact H2 | lia].
    + destruct (Gb ltac:(discriminate)) as [H1 H2]. split; [exact H1|].
      unfold HIe in *. eapply HI_mono; [exact H2 | lia].
    + destruct (Ga eq_refl) as [H1 [H2 H3]]. cbn [crash mem disk]. split; [reflexivity|].
      rewrite H2, H3, H1, <- Hmd1. cbn [opt_cons]. unfold HIe in *.
      eapply HI_mono; [exact HH1 | lia].
  - pose proof (hpost_settle b ch val1 dis hs (ch1, o1) Hmd HH) as Hs.
    unfold settle in *. cbn [fst snd] in *. rewrite Es1 in *. apply Hs. exact Hf.
  - pose proof (hpost_settle b ch val1 dis hs (ch1, o1) Hmd HH) as Hs.
    unfold settle in *. cbn [fst snd] in *. rewrite Es1 in *. apply Hs. exact Hf.
Qed.

Definition hget_point_old (ch : chan) (n : N) : chan * outp :=
  (ch, if negb (point_ok (mem ch) n) then refused
       else if 2 <=? n then
         match secret_res warn prof (mem ch) (n - 2) with
         | None => refused
         | Some Trap => aborted
         | Some (Val k) => ok_ps n (Some k)
         end
       else ok_point n).

Lemma hget_point_old_post b ch n val dis hs :
  mem ch = disk ch -> HIe b (mem ch) val dis hs -> n <= U64MAX ->
  hpost b ch val dis hs (hget_point_old ch n).
Proof.
  intros Hmd HH Hn. unfold hget_point_old.
  destruct (negb (point_ok (mem ch) n)); [hp_refused|].
  destruct (2 <=? n).
  - destruct (secret_res warn prof (mem ch) (n - 2)) as [[k|]|] eqn:Es; [| hp_aborted | hp_refused].
    unfold hpost. cbn [st ok_ps o_secret o_hsig opt_cons].
    split; [intros Hx; discriminate|]. intros _. split; [exact Hmd|].
    destruct (secret_res_ok (mem ch) (n - 2) k Es ltac:(lia)) as [_ Hk].
    unfold HIe in *. bump. apply HI_disclose; assumption.
  - unfold hpost. cbn [st ok_point o_secret o_hsig opt_cons].
    split; [intros Hx; discriminate | intros _; split; [assumption|]]. unfold HIe in *. bump. exact HH.
Qed.

Definition hrevoke (ch : chan) (n : N) (py : bool) : chan * outp :=
  tbind (match add_checked n 1 with Some v => Val v | None => Trap end) (ch, refused) (fun n1 =>
    let '(ch', o) := do_revoke warn prof ch n1 py in
    match st o, o_secret o with
    | Ok, None => (ch', refused)
    | _, _ => (ch', o)
    end).

Lemma hrevoke_post b ch n py val dis hs :
  mem ch = disk ch -> HIe b (mem ch) val dis hs -> n <= U64MAX ->
  hpost b ch val dis hs (hrevoke ch n py).
Proof.
  intros Hmd HH Hn. unfold hrevoke, tbind, add_checked.
  destruct (n + 1 <=? U64MAX) eqn:Ea; [|hp_refused].
  set (n1 := n + 1).
  pose proof (do_revoke_post b ch n1 py val dis hs Hmd HH ltac:(unfold n1; lia)) as Hp.
  pose proof (do_revoke_nohsig ch n1 py) as Hh.
  destruct (do_revoke warn prof ch n1 py) as [ch' o]. cbn [snd] in Hh.
  destruct (st o) eqn:Es; try exact Hp.
  destruct (o_secret o) eqn:Eo; [exact Hp|].
  unfold hpost in *. rewrite Es in Hp. destruct Hp as [_ Hp].
  destruct (Hp ltac:(discriminate)) as [H1 H2]. rewrite Eo, Hh in H2.
  cbn [st refused o_secret o_hsig]. split; [intros Hx; discriminate|]. intros _. auto.
Qed.

Lemma gstep_unfold s g o :
  gstep warn prof (s, g) o =
  (let '(s', r) := step warn prof s o in
   ((s', mkG (opt_cons (validates warn prof s o) (validated g))
             (opt_cons (o_secret r) (disclosed g))
             (opt_cons (o_hsig r) (hsigned g))
             (opt_cons (o_cpsig r) (cpsigned g))
             (match o, st r with
              | ValidateRevocation rn p _ _, Ok => (rn, p) :: cprevoked g
              | _, _ => cprevoked g
              end)), r)).
Proof. reflexivity. Qed.

Lemma ready_case b ch g f vo o :
  step0 warn prof (Ready ch) o = on_ready (Ready ch) f ->
  validates warn prof (Ready ch) o = vo ->
  mem ch = disk ch ->
  HIe b (mem ch) (opt_cons vo (validated g)) (disclosed g) (hsigned g) ->
  hpost b ch (opt_cons vo (validated g)) (disclosed g) (hsigned g) (f ch) ->
  let sg := fst (gstep warn prof (Ready ch, g) o) in HSInv (b + 2) (fst sg) (snd sg).
Proof.
  intros Hst Hv Hmd HH Hp. rewrite gstep_unfold. unfold step. rewrite Hst, Hv. unfold on_ready.
  pose proof (hpost_settle b ch _ _ _ (f ch) Hmd HH Hp) as Hs.
  destruct (f ch) as [ch' r]. unfold settle in Hs. cbn [fst snd] in *.
  destruct (st r); cbn [fst snd HSInv crash validated disclosed hsigned] in *; exact Hs.
Qed.

Lemma ready_case_then b ch g f h n c o :
  step0 warn prof (Ready ch) o = on_ready (Ready ch) (and_then f h) ->
  (forall val dis hs, mem ch = disk ch -> HIe b (mem ch) val dis hs ->
     hpost b ch (match st (snd (f ch)) with Ok => (n, c) :: val | _ => val end) dis hs (f ch)) ->
  (st (snd (f ch)) = Ok -> o_secret (snd (f ch)) = None /\ o_hsig (snd (f ch)) = None) ->
  validates warn prof (Ready ch) o =
    match st (snd (f ch)) with Ok => Some (n, c) | _ => None end ->
  (forall ch1 val dis hs, mem ch1 = disk ch1 -> HIe (b + 1) (mem ch1) val dis hs ->
     hpost (b + 1) ch1 val dis hs (h ch1)) ->
  mem ch = disk ch ->
  HIe b (mem ch) (validated g) (disclosed g) (hsigned g) ->
  let sg := fst (gstep warn prof (Ready ch, g) o) in HSInv (b + 2) (fst sg) (snd sg).
Proof.
  intros Hst Hf Hnone Hv Hh Hmd HH. rewrite gstep_unfold. unfold step. rewrite Hst, Hv. unfold on_ready.
  set (val1 := match st (snd (f ch)) with Ok => (n, c) :: validated g | _ => validated g end).
  assert (HH1 : HIe b (mem ch) val1 (disclosed g) (hsigned g)).
  { unfold val1. destruct (st (snd (f ch))); try exact HH. unfold HIe in *. apply HI_val_grow. exact HH. }
  pose proof (hpost_then b ch val1 (disclosed g) (hsigned g) f h Hmd
                (Hf _ _ _ Hmd HH) Hnone HH1 (fun ch1 => Hh ch1 val1 _ _)) as Hs.
  destruct (and_then f h ch) as [ch' r]. unfold settle in Hs. cbn [fst snd] in *.
  assert (Hval : opt_cons (match st (snd (f ch)) with Ok => Some (n, c) | _ => None end) (validated g) = val1).
  { unfold val1. destruct (st (snd (f ch))); reflexivity. }
  rewrite Hval.
  destruct (st r); cbn [fst snd HSInv crash validated disclosed hsigned] in *; exact Hs.
Qed.

Lemma do_validate_none ch n c sg pl :
  st (snd (do_validate warn prof ch n c sg pl)) = Ok ->
  o_secret (snd (do_validate warn prof ch n c sg pl)) = None /\
  o_hsig (snd (do_validate warn prof ch n c sg pl)) = None.
Proof.
  unfold do_validate.
  destruct (negb (point_ok (mem ch) n)); [cbn; discriminate|].
  destruct (negb pl); [cbn; discriminate|].
  destruct (validate_holder_state warn prof (mem ch) n c) as [[|]|]; try (cbn; discriminate).
  destruct sg; [| cbn; discriminate | cbn; discriminate].
  destruct (n =? next_h (mem ch)); cbn; auto.
Qed.

Theorem hs_step b s g o :
  wf_op o -> b + 2 <= U64MAX -> HSInv b s g ->
  let sg := fst (gstep warn prof (s, g) o) in HSInv (b + 2) (fst sg) (snd sg).
Proof.
  intros Hwf Hb Hinv. destruct s as [|ch].
  - (* not set up yet: nothing is validated, disclosed or signed *)
    destruct Hinv as [Hv [Hd Hs]]. rewrite gstep_unfold.
    destruct o; cbn [step step0 on_ready validates fst snd st refused ok0 ok_point crash];
      try (cbn [HSInv validated disclosed hsigned opt_cons o_secret o_hsig refused ok0]; auto; fail).
    + destruct ((n =? 0) || (n =? 1)); cbn [st ok_point refused fst snd HSInv validated disclosed hsigned opt_cons o_secret o_hsig]; auto.
    + destruct ((n =? 0) || (n =? 1)); cbn [st ok_point refused fst snd HSInv validated disclosed hsigned opt_cons o_secret o_hsig]; auto.
    + (* Setup *)
      cbn [HSInv persist mem disk validated disclosed hsigned opt_cons o_secret o_hsig ok0 fst snd].
      split; [reflexivity|]. rewrite Hv, Hd, Hs. unfold HIe, fresh_estate; cbn [next_h cur_h nxt_h closed].
      eapply HI_mono; [apply HI_init | lia].
  - destruct Hinv as [Hmd HH].
    destruct o; cbn [wf_op] in Hwf.
    + (* ValidateHolder *)
      eapply (ready_case b ch g (fun ch => do_validate warn prof ch n c sig_ok pol_ok)); try reflexivity; try exact Hmd.
      * cbn [validates]. destruct (st (snd (do_validate warn prof ch n c sig_ok pol_ok))); cbn [opt_cons]; try exact HH.
        unfold HIe in *. apply HI_val_grow. exact HH.
      * pose proof (do_validate_post b ch n c sig_ok pol_ok _ _ _ Hmd HH) as Hp.
        cbv zeta in Hp. cbn [validates]. revert Hp.
        destruct (st (snd (do_validate warn prof ch n c sig_ok pol_ok))); cbn [opt_cons]; intros Hp; exact Hp.
    + eapply (ready_case b ch g (fun ch => do_revoke warn prof ch n pay_ok)); try reflexivity; try exact Hmd; cbn [opt_cons]; [exact HH|].
      apply do_revoke_post; assumption.
    + eapply (ready_case b ch g do_activate); try reflexivity; try exact Hmd; cbn [opt_cons]; [exact HH|].
      apply do_activate_post; assumption.
    + eapply (ready_case b ch g (fun ch => do_get_point ch n)); try reflexivity; try exact Hmd; cbn [opt_cons]; [exact HH|].
      apply do_get_point_post; assumption.
    + eapply (ready_case b ch g (fun ch => do_get_secret warn prof ch n)); try reflexivity; try exact Hmd; cbn [opt_cons]; [exact HH|].
      apply do_get_secret_post; assumption.
    + eapply (ready_case b ch g (fun ch => do_get_secret_or_none prof ch n)); try reflexivity; try exact Hmd; cbn [opt_cons]; [exact HH|].
      apply do_get_secret_or_none_post; assumption.
    + eapply (ready_case b ch g (fun ch => do_sign_holder warn prof ch n)); try reflexivity; try exact Hmd; cbn [opt_cons]; [exact HH|].
      apply do_sign_holder_post; assumption.
    + eapply (ready_case b ch g (do_sign_recovery prof)); try reflexivity; try exact Hmd; cbn [opt_cons]; [exact HH|].
      apply do_sign_recovery_post; [lia | assumption | assumption].
    + eapply (ready_case b ch g (fun ch => do_sign_redundant warn prof ch n c pol_ok)); try reflexivity; try exact Hmd; cbn [opt_cons]; [exact HH|].
      apply do_sign_redundant_post; assumption.
    + eapply (ready_case b ch g (fun ch => do_mutual_close ch ok)); try reflexivity; try exact Hmd; cbn [opt_cons]; [exact HH|].
      apply do_mutual_close_post; assumption.
    + eapply (ready_case b ch g (fun ch => do_sign_cp warn prof ch n pt c pol_ok)); try reflexivity; try exact Hmd; cbn [opt_cons]; [exact HH|].
      apply do_sign_cp_post; assumption.
    + eapply (ready_case b ch g (fun ch => do_revocation warn prof ch r pt_of_secret secret chains)); try reflexivity; try exact Hmd; cbn [opt_cons]; [exact HH|].
      apply do_revocation_post; assumption.
    + (* HValidateOld *)
      eapply (ready_case_then b ch g (fun ch => do_validate warn prof ch n c sig_ok pol_ok)
                (fun ch => do_revoke warn prof ch n pay_ok) n c); try reflexivity; try assumption.
      * intros. apply do_validate_post; assumption.
      * apply do_validate_none.
      * intros. apply do_revoke_post; assumption.
    + (* HValidateNew *)
      eapply (ready_case_then b ch g (fun ch => do_validate warn prof ch n c sig_ok pol_ok)
                (fun ch => if 1 <=? n
                           then tbind (add_p prof n 1) (ch, aborted) (fun n1 => do_get_point ch n1)
                           else do_activate ch) n c); try reflexivity; try assumption.
      * intros. apply do_validate_post; assumption.
      * apply do_validate_none.
      * intros ch1 val dis hs Hm1 H1. destruct (1 <=? n).
        -- unfold tbind. destruct (add_p prof n 1); [apply do_get_point_post; assumption | hp_aborted].
        -- apply do_activate_post; assumption.
    + (* HGetPointOld *)
      eapply (ready_case b ch g (fun ch => hget_point_old ch n) None); try exact Hmd; cbn [opt_cons validates]; try exact HH.
      * cbn [step0 on_ready]. unfold hget_point_old.
        destruct (negb (point_ok (mem ch) n)); [reflexivity|].
        destruct (2 <=? n); [|reflexivity].
        destruct (secret_res warn prof (mem ch) (n - 2)) as [[|]|]; reflexivity.
      * reflexivity.
      * apply hget_point_old_post; assumption.
    + (* HRevoke *)
      eapply (ready_case b ch g (fun ch => hrevoke ch n pay_ok) None); try exact Hmd; cbn [opt_cons validates]; try exact HH.
      * cbn [step0 on_ready]. unfold hrevoke. reflexivity.
      * reflexivity.
      * apply hrevoke_post; assumption.
    + (* Setup on a ready channel *)
      rewrite gstep_unfold. cbn [step step0 st refused fst snd HSInv validates validated disclosed hsigned opt_cons o_secret o_hsig].
      split; [exact Hmd|]. unfold HIe in *. eapply HI_mono; [exact HH | lia].
    + (* Restart *)
      rewrite gstep_unfold. cbn [step step0 st ok0 fst snd HSInv validates validated disclosed hsigned opt_cons o_secret o_hsig mem disk].
      split; [reflexivity|]. rewrite <- Hmd. unfold HIe in *. eapply HI_mono; [exact HH | lia].
    + (* a refused setup on a ready channel *)
      rewrite gstep_unfold. cbn [step step0 st refused fst snd HSInv validates validated disclosed hsigned opt_cons o_secret o_hsig].
      split; [exact Hmd|]. unfold HIe in *. eapply HI_mono; [exact HH | lia].
Qed.

(** ** every history *)

Lemma hs_run ops : forall b s g,
  Forall wf_op ops -> b + 2 * N.of_nat (length ops) <= U64MAX -> HSInv b s g ->
  let sg := grun warn prof (s, g) ops in
  HSInv (b + 2 * N.of_nat (length ops)) (fst sg) (snd sg).
Proof.
  induction ops as [|o ops IH]; intros b s g Hwf Hb Hinv; cbn [grun length].
  - cbn [fst snd]. replace (b + 2 * N.of_nat 0) with b by lia. exact Hinv.
  - inversion Hwf as [|? ? Ho Hr]; subst. cbn [length] in Hb.
    pose proof (hs_step b s g o Ho ltac:(lia) Hinv) as Hs. cbv zeta in Hs.
    destruct (fst (gstep warn prof (s, g) o)) as [s1 g1] eqn:E1. cbn [fst snd] in Hs.
    specialize (IH (b + 2) s1 g1 Hr ltac:(lia) Hs). cbv zeta in IH.
    replace (b + 2 * N.of_nat (S (length ops))) with (b + 2 + 2 * N.of_nat (length ops)) by lia.
    exact IH.
Qed.

Lemma HSInv_init : HSInv 0 Stub ghost0.
Proof. cbn. auto. Qed.

Definition reach (ops : list op) : slot * ghost := grun warn prof (Stub, ghost0) ops.

Definition short (ops : list op) : Prop := 2 * N.of_nat (length ops) + 4 <= U64MAX.

Lemma reach_inv ops :
  Forall wf_op ops -> short ops ->
  HSInv (2 * N.of_nat (length ops)) (fst (reach ops)) (snd (reach ops)).
Proof.
  intros Hwf Hs. unfold short in Hs.
  pose proof (hs_run ops 0 Stub ghost0 Hwf ltac:(lia) HSInv_init) as H.
  cbv zeta in H. rewrite N.add_0_l in H. exact H.
Qed.

(** C01: a disclosed secret has a validated successor *)
Lemma disclosed_needs_successor ops k :
  Forall wf_op ops -> short ops ->
  In k (disclosed (snd (reach ops))) -> exists c, In (k + 1, c) (validated (snd (reach ops))).
Proof.
  intros Hwf Hs Hin. pose proof (reach_inv ops Hwf Hs) as Hinv.
  destruct (fst (reach ops)) as [|ch]; cbn [HSInv] in Hinv.
  - destruct Hinv as [_ [Hd _]]. rewrite Hd in Hin. contradiction.
  - destruct Hinv as [_ HH]. pose proof (h_dis _ _ _ _ _ _ _ _ HH k Hin) as Hk.
    apply (h_val _ _ _ _ _ _ _ _ HH). lia.
Qed.

Lemma stub_discloses_nothing ops :
  Forall wf_op ops -> short ops ->
  fst (reach ops) = Stub -> disclosed (snd (reach ops)) = [].
Proof.
  intros Hwf Hs Hst. pose proof (reach_inv ops Hwf Hs) as Hinv. rewrite Hst in Hinv.
  cbn [HSInv] in Hinv. tauto.
Qed.

(** C02: signed-for-broadcast and revoked are disjoint *)
Lemma signed_not_disclosed ops k n c :
  Forall wf_op ops -> short ops ->
  In k (disclosed (snd (reach ops))) -> In (n, c) (hsigned (snd (reach ops))) -> k < n.
Proof.
  intros Hwf Hs Hk Hn. pose proof (reach_inv ops Hwf Hs) as Hinv.
  destruct (fst (reach ops)) as [|ch]; cbn [HSInv] in Hinv.
  - destruct Hinv as [_ [Hd _]]. rewrite Hd in Hk. contradiction.
  - destruct Hinv as [_ HH].
    pose proof (h_dis _ _ _ _ _ _ _ _ HH k Hk). pose proof (h_sig _ _ _ _ _ _ _ _ HH n c Hn). lia.
Qed.

(** ** once closed, nothing new is disclosed *)

Definition from_obtainable (e : estate) (o : option N) : Prop :=
  forall k, o = Some k -> exists m, m <= U64MAX /\ obtainable (next_h e) m k.

Lemma release_sec e n : n <= U64MAX -> from_obtainable e (o_secret (release warn prof e n)).
Proof.
  intros Hn k. unfold release, tbind.
  destruct (add_p prof n 1) as [n1|]; [|cbn; discriminate].
  destruct (negb (point_ok e n1)); [cbn; discriminate|].
  destruct (1 <=? n); [|cbn; discriminate].
  destruct (secret_res warn prof e (n - 1)) as [[k0|]|] eqn:Es; cbn; try discriminate.
  intros H; inversion H; subst. exists (n - 1). split; [lia|].
  apply (secret_res_ok e (n - 1) k Es). lia.
Qed.

Lemma do_revoke_sec ch n py :
  n <= U64MAX -> closed (mem ch) = true ->
  from_obtainable (mem ch) (o_secret (snd (do_revoke warn prof ch n py))).
Proof.
  intros Hn Hc. unfold do_revoke.
  destruct (negb (n =? next_h (mem ch))); [apply release_sec; exact Hn|].
  unfold perr. rewrite Hc, W2. cbn. intros k H; discriminate.
Qed.

Lemma do_validate_frame ch n c sg pl :
  next_h (mem (fst (do_validate warn prof ch n c sg pl))) = next_h (mem ch) /\
  closed (mem (fst (do_validate warn prof ch n c sg pl))) = closed (mem ch).
Proof.
  unfold do_validate.
  destruct (negb (point_ok (mem ch) n)); [auto|].
  destruct (negb pl); [auto|].
  destruct (validate_holder_state warn prof (mem ch) n c) as [[|]|]; auto.
  destruct sg; [| auto | auto].
  destruct (n =? next_h (mem ch)); cbn [fst persist mem]; auto.
Qed.

Lemma do_validate_nosecret ch n c sg pl :
  o_secret (snd (do_validate warn prof ch n c sg pl)) = None.
Proof.
  unfold do_validate.
  destruct (negb (point_ok (mem ch) n)); [reflexivity|].
  destruct (negb pl); [reflexivity|].
  destruct (validate_holder_state warn prof (mem ch) n c) as [[|]|]; try reflexivity.
  destruct sg; [| reflexivity | reflexivity]. destruct (n =? next_h (mem ch)); reflexivity.
Qed.

Lemma step0_secret_closed ch o :
  wf_op o -> closed (mem ch) = true ->
  from_obtainable (mem ch) (o_secret (snd (step0 warn prof (Ready ch) o))).
Proof.
  intros Hwf Hc.
  destruct o; cbn [wf_op step0 on_ready] in *; try (cbn; intros k H; discriminate).
  - (* ValidateHolder *)
    pose proof (do_validate_nosecret ch n c sig_ok pol_ok) as Hn.
    destruct (do_validate warn prof ch n c sig_ok pol_ok) as [ch' r]. cbn [snd] in *.
    rewrite Hn. intros k H; discriminate.
  - pose proof (do_revoke_sec ch n pay_ok Hwf Hc) as H.
    destruct (do_revoke warn prof ch n pay_ok). exact H.
  - unfold do_activate. destruct (negb (next_h (mem ch) =? 0)); [cbn; intros k H; discriminate|].
    destruct (nxt_h (mem ch)); cbn; intros k H; discriminate.
  - unfold do_get_point. destruct (point_ok (mem ch) n); cbn; intros k H; discriminate.
  - unfold do_get_secret.
    destruct (secret_res warn prof (mem ch) n) as [[k0|]|] eqn:Es; cbn; try (intros k H; discriminate).
    intros k H; inversion H; subst. exists n. split; [exact Hwf|].
    apply (secret_res_ok (mem ch) n k Es Hwf).
  - unfold do_get_secret_or_none.
    destruct (next_h (mem ch) <? sat_add n 2) eqn:Eg; [cbn; intros k H; discriminate|].
    destruct (sub_p prof INITIAL_COMMITMENT_NUMBER n) as [idx|] eqn:Es; cbn; [|intros k H; discriminate].
    intros k H; inversion H; subst. exists n. split; [exact Hwf|].
    split; [lia | exists idx; auto].
  - unfold do_sign_holder, tbind. destruct (add_p prof n 1) as [n1|]; [|cbn; intros k H; discriminate].
    destruct (negb (n1 =? next_h (mem ch)) && perr warn TOther); [cbn; intros k H; discriminate|].
    destruct (cur_h (mem ch)); [|cbn; intros k H; discriminate].
    destruct (negb (point_ok (mem ch) n)); cbn; intros k H; discriminate.
  - unfold do_sign_recovery. destruct (cur_h (mem ch)); [|cbn; intros k H; discriminate].
    destruct (sub_p prof (next_h (mem ch)) 1) as [m|]; [|cbn; intros k H; discriminate].
    destruct (negb (point_ok (mem ch) m)); cbn; intros k H; discriminate.
  - unfold do_sign_redundant. destruct (negb (point_ok (mem ch) n)); [cbn; intros k H; discriminate|].
    destruct (negb pol_ok); [cbn; intros k H; discriminate|].
    destruct (validate_holder_state warn prof (mem ch) n c) as [[|]|]; cbn; intros k H; discriminate.
  - unfold do_mutual_close. destruct ok; cbn; intros k H; discriminate.
  - unfold do_sign_cp, tbind. destruct (negb pol_ok); [cbn; intros k H; discriminate|].
    destruct ((next_r (mem ch) + 1 <? n) && perr warn TPrevRevoked); [cbn; intros k H; discriminate|].
    destruct (add_p prof n 1) as [n1|]; [|cbn; intros k H; discriminate].
    destruct (negb (validate_cp_state warn (mem ch) n n1 _ pt c)); [cbn; intros k H; discriminate|].
    destruct (negb (cp_commit_guard warn (mem ch) n1)); [cbn; intros k H; discriminate|].
    destruct (set_cp_commit (mem ch) n1 pt c); cbn; intros k H; discriminate.
  - unfold do_revocation, tbind. destruct (add_p prof r 1) as [r1|]; [|cbn; intros k H; discriminate].
    destruct (if r1 =? next_c (mem ch) then Val 0 else add_p prof r 2) as [r2|].
    + destruct (negb (revocation_checks warn (mem ch) r r1 r2 pt_of_secret)); [cbn; intros k H; discriminate|].
      destruct (sub_p prof INITIAL_COMMITMENT_NUMBER r); [|cbn; intros k H; discriminate].
      destruct (negb (cp_revoke_guard warn (mem ch) r1)); [cbn; intros k H; discriminate|].
      destruct (negb chains && perr warn TPrevRevoked); [cbn; intros k H; discriminate|].
      destruct (set_cp_revoke (mem ch) r1 _); cbn; intros k H; discriminate.
    + destruct (negb (r =? next_r (mem ch)) && negb (r1 =? next_r (mem ch)) && perr warn TPrevRevoked); cbn; intros k H; discriminate.
  - (* HValidateOld *)
    unfold and_then.
    pose proof (do_validate_frame ch n c sig_ok pol_ok) as [Hf1 Hf2].
    pose proof (do_validate_nosecret ch n c sig_ok pol_ok) as Hn.
    destruct (do_validate warn prof ch n c sig_ok pol_ok) as [ch1 o1]. cbn [fst snd] in *.
    destruct (st o1) eqn:Es1.
    + pose proof (do_revoke_sec ch1 n pay_ok Hwf ltac:(congruence)) as H.
      destruct (do_revoke warn prof ch1 n pay_ok). cbn [snd] in *.
      unfold from_obtainable in *. rewrite Hf1 in H. exact H.
    + cbn [snd]. rewrite Hn. intros k Hk; discriminate.
    + cbn [snd]. rewrite Hn. intros k Hk; discriminate.
  - (* HValidateNew *)
    unfold and_then.
    pose proof (do_validate_nosecret ch n c sig_ok pol_ok) as Hn.
    destruct (do_validate warn prof ch n c sig_ok pol_ok) as [ch1 o1] eqn:Ev. cbn [fst snd] in *.
    destruct (st o1) eqn:Es1.
    + destruct (1 <=? n).
      * unfold tbind. destruct (add_p prof n 1) as [n1|]; [|cbn; intros k H; discriminate].
        unfold do_get_point. destruct (point_ok (mem ch1) n1); cbn; intros k H; discriminate.
      * unfold do_activate. destruct (negb (next_h (mem ch1) =? 0)); [cbn; intros k H; discriminate|].
        destruct (nxt_h (mem ch1)); cbn; intros k H; discriminate.
    + cbn [snd]. rewrite Hn. intros k Hk; discriminate.
    + cbn [snd]. rewrite Hn. intros k Hk; discriminate.
  - (* HGetPointOld *)
    destruct (negb (point_ok (mem ch) n)); [cbn; intros k H; discriminate|].
    destruct (2 <=? n) eqn:E2; [|cbn; intros k H; discriminate].
    destruct (secret_res warn prof (mem ch) (n - 2)) as [[k0|]|] eqn:Es; cbn; try (intros k H; discriminate).
    intros k H; inversion H; subst. exists (n - 2). split; [lia|].
    apply (secret_res_ok (mem ch) (n - 2) k Es). lia.
  - (* HRevoke *)
    unfold tbind, add_checked. destruct (n + 1 <=? U64MAX) eqn:Ea; [|cbn; intros k H; discriminate].
    set (n1 := n + 1).
    pose proof (do_revoke_sec ch n1 pay_ok ltac:(unfold n1; lia) Hc) as H.
    destruct (do_revoke warn prof ch n1 pay_ok) as [ch' o]. cbn [snd] in *.
    destruct (st o); try exact H. destruct (o_secret o) eqn:Eo; [cbn [snd]; rewrite Eo; exact H | cbn; intros k Hk; discriminate].
Qed.

(** C02, second half: after a holder signature was released, a request discloses only
    secrets that had been disclosed before *)
Lemma frozen_step b s g o :
  wf_op o -> b + 2 <= U64MAX -> HSInv b s g -> hsigned g <> [] ->
  forall k, In k (disclosed (snd (fst (gstep warn prof (s, g) o)))) -> In k (disclosed g).
Proof.
  intros Hwf Hb Hinv Hsig k. rewrite gstep_unfold.
  destruct s as [|ch]; cbn [HSInv] in Hinv.
  - destruct Hinv as [_ [_ Hh]]. congruence.
  - destruct Hinv as [Hmd HH].
    assert (Hc : closed (mem ch) = true) by (apply (h_cl _ _ _ _ _ _ _ _ HH); exact Hsig).
    pose proof (step0_secret_closed ch o Hwf Hc) as Hfo.
    unfold step. destruct (step0 warn prof (Ready ch) o) as [s' r]. cbn [snd] in Hfo.
    assert (Hin : In k (opt_cons (o_secret r) (disclosed g)) -> In k (disclosed g)).
    { destruct (o_secret r) as [k0|] eqn:Eo; cbn [opt_cons]; [|auto].
      intros [<-|H]; [|exact H].
      destruct (Hfo k0 eq_refl) as [m [Hm Hob]].
      pose proof (h_bnd _ _ _ _ _ _ _ _ HH).
      apply (h_all _ _ _ _ _ _ _ _ HH ltac:(lia) m k0 Hm Hob). }
    destruct (st r); cbn [fst snd disclosed]; exact Hin.
Qed.

Lemma frozen_after_signature ops o k :
  Forall wf_op ops -> wf_op o -> short (ops ++ [o]) ->
  hsigned (snd (reach ops)) <> [] ->
  In k (disclosed (snd (reach (ops ++ [o])))) -> In k (disclosed (snd (reach ops))).
Proof.
  intros Hwf Ho Hs Hsig.
  assert (Hs' : short ops).
  { unfold short in *. rewrite app_length in Hs. cbn [length] in Hs. lia. }
  pose proof (reach_inv ops Hwf Hs') as Hinv.
  unfold reach in *. rewrite grun_app. cbn [grun].
  destruct (grun warn prof (Stub, ghost0) ops) as [s g]. cbn [fst snd] in *.
  apply (frozen_step (2 * N.of_nat (length ops)) s g o Ho); [|exact Hinv|exact Hsig].
  unfold short in Hs. rewrite app_length in Hs. cbn [length] in Hs. lia.
Qed.

End Holder.

(** * where the ledger entries come from *)

(** the requests that can put (n, c) into the validated ledger: validations that carried
    counterparty signatures which verified ([sig_ok = true]) on acceptable content *)
Definition validation_of (o : op) (n : N) (c : content) : Prop :=
  o = ValidateHolder n c SGood true \/ (exists py, o = HValidateOld n c SGood true py) \/
  o = HValidateNew n c SGood true.

Lemma do_validate_ok_needs_sigs warn prof ch n c sg pl :
  st (snd (do_validate warn prof ch n c sg pl)) = Ok -> sg = SGood /\ pl = true.
Proof.
  unfold do_validate.
  destruct (negb (point_ok (mem ch) n)); [cbn; discriminate|].
  destruct pl; cbn [negb]; [|cbn; discriminate].
  destruct (validate_holder_state warn prof (mem ch) n c) as [[|]|]; try (cbn; discriminate).
  destruct sg; [| cbn; discriminate | cbn; discriminate].
  destruct (n =? next_h (mem ch)); auto.
Qed.

Lemma validates_origin warn prof s o n c :
  validates warn prof s o = Some (n, c) -> validation_of o n c.
Proof.
  unfold validates, validation_of. destruct s as [|ch]; [discriminate|].
  destruct o; try discriminate.
  - destruct (st (snd (do_validate warn prof ch n0 c0 sig_ok pol_ok))) eqn:E; try discriminate.
    intros H; inversion H; subst. destruct (do_validate_ok_needs_sigs _ _ _ _ _ _ _ E) as [-> ->]. auto.
  - destruct (st (snd (do_validate warn prof ch n0 c0 sig_ok pol_ok))) eqn:E; try discriminate.
    intros H; inversion H; subst. destruct (do_validate_ok_needs_sigs _ _ _ _ _ _ _ E) as [-> ->]. eauto.
  - destruct (st (snd (do_validate warn prof ch n0 c0 sig_ok pol_ok))) eqn:E; try discriminate.
    intros H; inversion H; subst. destruct (do_validate_ok_needs_sigs _ _ _ _ _ _ _ E) as [-> ->]. auto.
Qed.

Lemma validated_origin warn prof ops : forall sg n c,
  In (n, c) (validated (snd (grun warn prof sg ops))) ->
  In (n, c) (validated (snd sg)) \/ exists o, In o ops /\ validation_of o n c.
Proof.
  induction ops as [|o ops IH]; intros sg n c H; cbn [grun] in H.
  - left. exact H.
  - destruct (IH _ n c H) as [H1|[o' [Hin Hv]]].
    + destruct sg as [s g]. unfold gstep in H1.
      destruct (step warn prof s o) as [s' r]. cbn [fst snd validated] in H1.
      destruct (validates warn prof s o) as [[n0 c0]|] eqn:Ev; cbn [opt_cons] in H1.
      * destruct H1 as [H1|H1]; [|left; exact H1].
        inversion H1; subst. right. exists o. split; [left; reflexivity|].
        eapply validates_origin; exact Ev.
      * left. exact H1.
    + right. exists o'. split; [right; exact Hin | exact Hv].
Qed.
