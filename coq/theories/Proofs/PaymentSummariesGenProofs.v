(** The per-hash summaries of the payments model ([out_val] / [out_keys], [in_val] / [in_keys] of
    Model/Payments.v) are what the translated source computes: Gen/PaymentSummariesGen.v is
    regenerated on every run from EnforcementState::summarize_payments, ::payments_summary and
    ::incoming_payments_summary (policy/validator.rs).

    The model's commitment content is already a pair of per-hash maps; [abs_h] / [abs_c] build it
    from a source-level CommitmentInfo2 with [summ], the per-hash sum of an HTLC list, and
    [gen_summarize_is_summ] shows that [summ] is what summarize_payments computes when the HTLC
    values of the list add up within u64.  A map handed to `for (k, v) in m` is visited in the order
    [pord m] for an arbitrary permutation [pord]: the resulting look-ups do not depend on it. *)
From Coq Require Import String Permutation.
From VLS Require Import Base.Rust Gen.PaymentSummariesGen Proofs.RustFacts.
From VLS Require Gen.CommitmentPolicyGen.
From VLS Require Import Model.Payments Proofs.NodePaymentsGenProofs.
Require Import Lia.

Module CP := CommitmentPolicyGen.

(** * Maps as look-up functions *)

Definition upsert (f : N -> N) (m : list (N * N)) (k d : N) : list (N * N) :=
  match map_get m k with Some e => map_insert m k (f e) | None => map_insert m k d end.

Lemma entry_update_val (f : N -> N) m k d :
  map_entry_update m k (fun e => Val (f e)) (Some d) = Val (upsert f m k d).
Proof. unfold map_entry_update, upsert. destruct (map_get m k); reflexivity. Qed.

Lemma upsert_get f m k d x :
  map_get (upsert f m k d) x =
  if k =? x then Some (match map_get m k with Some e => f e | None => d end) else map_get m x.
Proof. unfold upsert. destruct (map_get m k); rewrite map_get_insert; reflexivity. Qed.

Lemma key_in_iff (m : list (N * N)) x : In x (map_keys m) <-> is_some_of (map_get m x) = true.
Proof.
  induction m as [|[k v] r IH]; cbn [map_keys map fst In map_get].
  - split; [intros [] | discriminate].
  - destruct (k =? x) eqn:E.
    + apply N.eqb_eq in E. split; [reflexivity | intros _; left; exact E].
    + apply N.eqb_neq in E. rewrite <- IH. unfold map_keys. split; [intros [H|H]; [contradiction | exact H] | intros H; right; exact H].
Qed.

Lemma hkeys_keys (m : list (N * N)) : hkeys m = map_keys m.
Proof. reflexivity. Qed.

Lemma hget_map_get m h : hget m h = match map_get m h with Some v => v | None => 0 end.
Proof. rewrite hget_get0. reflexivity. Qed.

Lemma hhas_map_get m h : hhas m h = is_some_of (map_get m h).
Proof.
  induction m as [|[k v] r IH]; cbn [hhas map_get]; [reflexivity|].
  destruct (k =? h); [reflexivity | exact IH].
Qed.

(** look-ups in an association list with distinct keys do not depend on the order of the entries *)
Lemma map_get_perm (l l' : list (N * N)) x :
  Permutation l l' -> NoDup (map_keys l) -> map_get l' x = map_get l x.
Proof.
  intros P. induction P as [|[k v] l l' P IH|[k1 v1] [k2 v2] l|l l' l'' P1 IH1 P2 IH2]; intros ND.
  - reflexivity.
  - cbn [map_get]. cbn [map_keys map fst] in ND. inversion ND; subst. rewrite IH by assumption. reflexivity.
  - cbn [map_get]. cbn [map_keys map fst] in ND. inversion ND as [|a b Hn ND']; subst.
    destruct (k1 =? x) eqn:E1, (k2 =? x) eqn:E2; try reflexivity.
    apply N.eqb_eq in E1. apply N.eqb_eq in E2. subst. exfalso. apply Hn. left. reflexivity.
  - rewrite IH2, IH1; [reflexivity | exact ND |].
    unfold map_keys. eapply Permutation_NoDup; [apply Permutation_map; exact P1 | exact ND].
Qed.

(** * The per-hash sum of an HTLC list *)

Definition summ (l : list CP.HTLCInfo2) : list (N * N) :=
  fold_left (fun m h => upsert (fun e => e + CP.HTLCInfo2_value_sat h) m (CP.HTLCInfo2_payment_hash h) (CP.HTLCInfo2_value_sat h)) l [].

Definition hashes_of (l : list CP.HTLCInfo2) : list N := map CP.HTLCInfo2_payment_hash l.

Lemma upsert_nodup f m k d : NoDup (map_keys m) -> NoDup (map_keys (upsert f m k d)).
Proof.
  intros ND. unfold upsert. destruct (map_get m k); unfold map_insert; cbn [map_keys map fst];
    (constructor; [intros H; destruct (keys_remove_in m k k H) as [_ H2]; congruence | apply keys_remove_nodup; exact ND]).
Qed.

Lemma fold_upsert_nodup {A} (g : A -> N -> N) (kf : A -> N) (df : A -> N) l : forall m,
  NoDup (map_keys m) ->
  NoDup (map_keys (fold_left (fun m a => upsert (g a) m (kf a) (df a)) l m)).
Proof. induction l as [|a r IH]; intros m ND; cbn [fold_left]; [exact ND | apply IH, upsert_nodup, ND]. Qed.

Lemma summ_nodup l : NoDup (map_keys (summ l)).
Proof. unfold summ. apply (fold_upsert_nodup (fun h e => e + CP.HTLCInfo2_value_sat h)). constructor. Qed.

Lemma fold_upsert_keys {A} (g : A -> N -> N) (kf : A -> N) (df : A -> N) l : forall m x,
  is_some_of (map_get (fold_left (fun m a => upsert (g a) m (kf a) (df a)) l m) x) =
  is_some_of (map_get m x) || existsb (N.eqb x) (map kf l).
Proof.
  induction l as [|a r IH]; intros m x; cbn [fold_left map existsb]; [rewrite orb_false_r; reflexivity|].
  rewrite IH, upsert_get. rewrite (N.eqb_sym x (kf a)).
  destruct (kf a =? x); cbn [is_some_of orb]; [rewrite orb_true_r; reflexivity | reflexivity].
Qed.

Lemma summ_keys l x : In x (map_keys (summ l)) <-> In x (hashes_of l).
Proof.
  rewrite key_in_iff. unfold summ.
  rewrite (fold_upsert_keys (fun h e => e + CP.HTLCInfo2_value_sat h) CP.HTLCInfo2_payment_hash CP.HTLCInfo2_value_sat).
  cbn [map_get is_some_of orb]. apply existsb_in.
Qed.

(** [or_insert(0)] for every hash of a list: missing hashes appear with 0, nothing else moves *)
Lemma fold_touch l : forall m x,
  map_get (fold_left (fun m h => upsert (fun e => e) m (CP.HTLCInfo2_payment_hash h) 0) l m) x =
  match map_get m x with
  | Some e => Some e
  | None => if existsb (N.eqb x) (hashes_of l) then Some 0 else None
  end.
Proof.
  induction l as [|a r IH]; intros m x; cbn [fold_left hashes_of map existsb].
  - destruct (map_get m x); reflexivity.
  - rewrite IH, upsert_get. fold (hashes_of r). rewrite (N.eqb_sym x (CP.HTLCInfo2_payment_hash a)).
    destruct (CP.HTLCInfo2_payment_hash a =? x) eqn:E; cbn [orb].
    + apply N.eqb_eq in E. subst x. destruct (map_get m (CP.HTLCInfo2_payment_hash a)); reflexivity.
    + reflexivity.
Qed.

(** the union with the larger value (payments_summary) over a list of pairs with distinct keys *)
Lemma fold_max l : forall m x, NoDup (map_keys l) ->
  map_get (fold_left (fun m (kv : N * N) => upsert (fun e => N.max e (snd kv)) m (fst kv) (snd kv)) l m) x =
  match map_get l x with
  | Some v => Some (match map_get m x with Some e => N.max e v | None => v end)
  | None => map_get m x
  end.
Proof.
  induction l as [|[k v] r IH]; intros m x ND; cbn [fold_left map_get fst snd]; [reflexivity|].
  cbn [map_keys map fst] in ND. inversion ND as [|a b Hn ND']; subst.
  rewrite IH by exact ND'. rewrite upsert_get.
  destruct (k =? x) eqn:E.
  - apply N.eqb_eq in E. subst x. rewrite (map_get_not_key r k Hn). reflexivity.
  - reflexivity.
Qed.

(** * summarize_payments *)

Definition vals_le (m : list (N * N)) (b : N) : Prop := forall x e, map_get m x = Some e -> e <= b.

Lemma gen_summarize_from prof l : forall m b,
  vals_le m b -> b + sum_N (map CP.HTLCInfo2_value_sat l) <= U64MAX ->
  fold_r (fun summary h =>
            summary <- map_entry_update summary (CP.HTLCInfo2_payment_hash h)
                         (fun e => add_p prof e (CP.HTLCInfo2_value_sat h)) (Some (CP.HTLCInfo2_value_sat h)) ;;
            Val (OkR summary)) l m =
  Val (OkR (fold_left (fun m h => upsert (fun e => e + CP.HTLCInfo2_value_sat h) m (CP.HTLCInfo2_payment_hash h)
                                         (CP.HTLCInfo2_value_sat h)) l m)).
Proof.
  induction l as [|a r IH]; intros m b Hle Hfit; cbn [fold_r fold_left map sum_N] in *; [reflexivity|].
  assert (Hstep : map_entry_update m (CP.HTLCInfo2_payment_hash a) (fun e => add_p prof e (CP.HTLCInfo2_value_sat a))
                    (Some (CP.HTLCInfo2_value_sat a)) =
                  Val (upsert (fun e => e + CP.HTLCInfo2_value_sat a) m (CP.HTLCInfo2_payment_hash a) (CP.HTLCInfo2_value_sat a))).
  { unfold map_entry_update, upsert. destruct (map_get m (CP.HTLCInfo2_payment_hash a)) as [e|] eqn:E; [|reflexivity].
    pose proof (Hle _ _ E). rewrite add_p_ok by lia. reflexivity. }
  rewrite Hstep. cbn [bindT bindR].
  apply (IH _ (b + CP.HTLCInfo2_value_sat a)); [|lia].
  intros x e. rewrite upsert_get. destruct (CP.HTLCInfo2_payment_hash a =? x).
  - intros H. injection H as <-. destruct (map_get m (CP.HTLCInfo2_payment_hash a)) as [e0|] eqn:E; [pose proof (Hle _ _ E)|]; lia.
  - intros H. pose proof (Hle _ _ H). lia.
Qed.

Definition list_fits (l : list CP.HTLCInfo2) : bool := sum_N (map CP.HTLCInfo2_value_sat l) <=? U64MAX.

Theorem gen_summarize_is_summ prof l :
  list_fits l = true -> gen_EnforcementState_summarize_payments prof l = Val (OkR (summ l)).
Proof.
  intros H. apply N.leb_le in H. unfold gen_EnforcementState_summarize_payments, summ. cbv beta zeta.
  rewrite (gen_summarize_from prof l [] 0); [reflexivity | intros x e E; discriminate E | lia].
Qed.

(** * Abstraction of the commitments *)

(** a holder commitment: the node offers [offered]; a counterparty commitment: the node offers
    what the counterparty [received] *)
Definition abs_h (ci : CP.CommitmentInfo2) : content :=
  mkCt (summ (CP.CommitmentInfo2_offered_htlcs ci)) (summ (CP.CommitmentInfo2_received_htlcs ci)).
Definition abs_c (ci : CP.CommitmentInfo2) : content :=
  mkCt (summ (CP.CommitmentInfo2_received_htlcs ci)) (summ (CP.CommitmentInfo2_offered_htlcs ci)).
Definition abs_pchan (ge : EnforcementState) : pchan :=
  mkPC (option_map abs_h (EnforcementState_current_holder_commit_info ge))
       (option_map abs_c (EnforcementState_current_counterparty_commit_info ge)) None.

Definition info_fits (o : option CP.CommitmentInfo2) : bool :=
  match o with
  | Some ci => list_fits (CP.CommitmentInfo2_offered_htlcs ci) && list_fits (CP.CommitmentInfo2_received_htlcs ci)
  | None => true
  end.

Lemma opt_or_map {A B} (f : A -> B) a b : opt_or (option_map f a) (option_map f b) = option_map f (opt_or_else a b).
Proof. destruct a; reflexivity. Qed.

Lemma info_fits_or a b : info_fits a = true -> info_fits b = true -> info_fits (opt_or_else a b) = true.
Proof. destruct a; intros; assumption. Qed.

(** the first two statements of either summary: the per-hash sums of the chosen list, or nothing *)
Lemma summarize_opt prof (sel : CP.CommitmentInfo2 -> list CP.HTLCInfo2) o :
  (forall ci, o = Some ci -> list_fits (sel ci) = true) ->
  (match option_map sel o with
   | Some h => gen_EnforcementState_summarize_payments prof h
   | None => Val (OkR [])
   end) = Val (OkR (match o with Some ci => summ (sel ci) | None => [] end)).
Proof. intros H. destruct o as [ci|]; cbn [option_map]; [apply gen_summarize_is_summ, H; reflexivity | reflexivity]. Qed.

(** * payments_summary (outgoing: the larger of the two views) *)

Lemma fold_r_plain {S A} (body : S -> A -> trap (result S)) (f : S -> A -> S) l :
  (forall s a, body s a = Val (OkR (f s a))) -> forall s, fold_r body l s = Val (OkR (fold_left f l s)).
Proof.
  intros Hb. induction l as [|a r IH]; intros s; cbn [fold_r fold_left]; [reflexivity|].
  rewrite Hb. cbn [bindR]. apply IH.
Qed.

Definition touch_all (l : list CP.HTLCInfo2) (m : list (N * N)) : list (N * N) :=
  fold_left (fun m h => upsert (fun e => e) m (CP.HTLCInfo2_payment_hash h) 0) l m.

Lemma gen_touch (l : list CP.HTLCInfo2) m :
  fold_r (fun summary h =>
            summary <- map_entry_update summary (CP.HTLCInfo2_payment_hash h) (fun e_ => Val e_) (Some 0) ;;
            Val (OkR summary)) l m = Val (OkR (touch_all l m)).
Proof.
  unfold touch_all. apply fold_r_plain. intros s a.
  rewrite (entry_update_val (fun e => e)). reflexivity.
Qed.

Definition get_or0 (m : list (N * N)) h : N := match map_get m h with Some v => v | None => 0 end.

Theorem gen_out_summary_is_model prof (pord : list (N * N) -> list (N * N)) ge nht nct :
  (forall l, Permutation (pord l) l) ->
  info_fits nht = true -> info_fits nct = true ->
  info_fits (EnforcementState_current_holder_commit_info ge) = true ->
  info_fits (EnforcementState_current_counterparty_commit_info ge) = true ->
  exists m,
    gen_EnforcementState_payments_summary prof pord ge nht nct = Val (OkR m) /\
    (forall h, hget m h = out_val (abs_pchan ge) (option_map abs_h nht) (option_map abs_c nct) h) /\
    (forall h, In h (map_keys m) <-> In h (out_keys (abs_pchan ge) (option_map abs_h nht) (option_map abs_c nct))).
Proof.
  intros Hord F1 F2 F3 F4.
  set (curh := EnforcementState_current_holder_commit_info ge) in *.
  set (curc := EnforcementState_current_counterparty_commit_info ge) in *.
  set (ho := opt_or_else nht curh). set (co := opt_or_else nct curc).
  set (hs := match ho with Some ci => summ (CP.CommitmentInfo2_offered_htlcs ci) | None => [] end).
  set (cs := match co with Some ci => summ (CP.CommitmentInfo2_received_htlcs ci) | None => [] end).
  set (m1 := fold_left (fun m (kv : N * N) => upsert (fun e => N.max e (snd kv)) m (fst kv) (snd kv)) (pord cs) hs).
  set (m2 := match curh with Some ci => touch_all (CP.CommitmentInfo2_offered_htlcs ci) m1 | None => m1 end).
  set (m3 := match curc with Some ci => touch_all (CP.CommitmentInfo2_received_htlcs ci) m2 | None => m2 end).
  assert (Fho : info_fits ho = true) by (apply info_fits_or; assumption).
  assert (Fco : info_fits co = true) by (apply info_fits_or; assumption).
  exists m3. split; [|split].
  - unfold gen_EnforcementState_payments_summary. cbv beta zeta. fold curh curc ho co.
    rewrite (summarize_opt prof (fun v_ => CP.CommitmentInfo2_offered_htlcs v_) ho)
      by (intros ci E; rewrite E in Fho; cbn [info_fits] in Fho; apply andb_prop in Fho; apply Fho).
    cbv beta. cbn [bindR]. fold hs.
    rewrite (summarize_opt prof (fun v_ => CP.CommitmentInfo2_received_htlcs v_) co)
      by (intros ci E; rewrite E in Fco; cbn [info_fits] in Fco; apply andb_prop in Fco; apply Fco).
    cbv beta. cbn [bindR]. fold cs.
    rewrite (fold_r_plain _ (fun m (kv : N * N) => upsert (fun e => N.max e (snd kv)) m (fst kv) (snd kv)))
      by (intros s [k v]; cbv beta iota; rewrite (entry_update_val (fun e => N.max e v)); reflexivity).
    cbn [bindR]. fold m1.
    destruct curh as [ch|]; cbn [bindR]; [rewrite gen_touch; cbn [bindR]|]; fold m2;
      (destruct curc as [cc|]; cbn [bindR]; [rewrite gen_touch; cbn [bindR]|]; reflexivity).
  - (* the values *)
    assert (NDc : NoDup (map_keys cs)) by (subst cs; destruct co; [apply summ_nodup | constructor]).
    assert (Hm1 : forall x, map_get m1 x =
                    match map_get cs x with
                    | Some v => Some (match map_get hs x with Some e => N.max e v | None => v end)
                    | None => map_get hs x
                    end).
    { intros x. subst m1. rewrite fold_max.
      - rewrite (map_get_perm cs (pord cs) x) by (try apply Permutation_sym, Hord; exact NDc). reflexivity.
      - unfold map_keys. eapply Permutation_NoDup; [apply Permutation_map, Permutation_sym, Hord | exact NDc]. }
    assert (Hm3 : forall x, get_or0 m3 x = N.max (get_or0 hs x) (get_or0 cs x)).
    { intros x. unfold get_or0. subst m3 m2.
      destruct curc as [cc|], curh as [ch|]; unfold touch_all; rewrite ?fold_touch, Hm1;
        destruct (map_get cs x), (map_get hs x);
        repeat match goal with |- context [if ?c then _ else _] => destruct c end; lia. }
    intros h. rewrite hget_map_get. fold (get_or0 m3 h). rewrite Hm3.
    unfold out_val, abs_pchan. cbn [hcur ccur]. fold curh curc. rewrite !opt_or_map. fold ho co.
    rewrite !hget_map_get. subst hs cs. unfold get_or0.
    destruct ho, co; reflexivity.
  - (* the hashes *)
    assert (NDc : NoDup (map_keys cs)) by (subst cs; destruct co; [apply summ_nodup | constructor]).
    intros h. rewrite key_in_iff.
    assert (Hk : is_some_of (map_get m3 h) =
                 is_some_of (map_get hs h) || is_some_of (map_get cs h)
                 || existsb (N.eqb h) (match curh with Some ci => hashes_of (CP.CommitmentInfo2_offered_htlcs ci) | None => [] end)
                 || existsb (N.eqb h) (match curc with Some ci => hashes_of (CP.CommitmentInfo2_received_htlcs ci) | None => [] end)).
    { assert (Hm1 : is_some_of (map_get m1 h) = is_some_of (map_get hs h) || is_some_of (map_get cs h)).
      { subst m1. rewrite fold_max.
        - rewrite (map_get_perm cs (pord cs) h) by (try apply Permutation_sym, Hord; exact NDc).
          destruct (map_get cs h), (map_get hs h); reflexivity.
        - unfold map_keys. eapply Permutation_NoDup; [apply Permutation_map, Permutation_sym, Hord | exact NDc]. }
      subst m3 m2. destruct curc as [cc|], curh as [ch|]; unfold touch_all; rewrite ?fold_touch; cbn [existsb];
        rewrite ?orb_false_r;
        repeat match goal with
               | |- context [map_get m1 h] => destruct (map_get m1 h); cbn [is_some_of] in *
               | |- context [if ?c then _ else _] => destruct c
               end; rewrite <- ?Hm1; cbn [is_some_of orb]; rewrite ?orb_true_r, ?orb_false_r; try reflexivity;
        try (symmetry; exact Hm1); try (rewrite <- Hm1; reflexivity). }
    rewrite Hk. unfold out_keys, abs_pchan. cbn [hcur ccur]. fold curh curc. rewrite !opt_or_map. fold ho co.
    rewrite !in_app_iff, !hkeys_keys.
    assert (K1 : In h (map_keys (oout (option_map abs_h ho))) <-> is_some_of (map_get hs h) = true)
      by (subst hs; destruct ho; cbn [option_map oout abs_h c_out]; apply key_in_iff).
    assert (K2 : In h (map_keys (oout (option_map abs_c co))) <-> is_some_of (map_get cs h) = true)
      by (subst cs; destruct co; cbn [option_map oout abs_c c_out]; apply key_in_iff).
    assert (K3 : In h (map_keys (oout (option_map abs_h curh))) <->
                 existsb (N.eqb h) (match curh with Some ci => hashes_of (CP.CommitmentInfo2_offered_htlcs ci) | None => [] end) = true)
      by (destruct curh; cbn [option_map oout abs_h c_out]; [rewrite summ_keys, existsb_in; reflexivity | split; [intros [] | discriminate]]).
    assert (K4 : In h (map_keys (oout (option_map abs_c curc))) <->
                 existsb (N.eqb h) (match curc with Some ci => hashes_of (CP.CommitmentInfo2_received_htlcs ci) | None => [] end) = true)
      by (destruct curc; cbn [option_map oout abs_c c_out]; [rewrite summ_keys, existsb_in; reflexivity | split; [intros [] | discriminate]]).
    rewrite K1, K2, K3, K4, !orb_true_iff. tauto.
Qed.

(** * incoming_payments_summary (incoming: the smaller of the two views, on the hashes both have) *)

Definition upd (f : N -> N) (m : list (N * N)) (k : N) : list (N * N) :=
  match map_get m k with Some e => map_insert m k (f e) | None => m end.

Lemma entry_update_none (f : N -> N) m k :
  map_entry_update m k (fun e => Val (f e)) None = Val (upd f m k).
Proof. unfold map_entry_update, upd. destruct (map_get m k); reflexivity. Qed.

Lemma upd_get f m k x :
  map_get (upd f m k) x = if k =? x then option_map f (map_get m x) else map_get m x.
Proof.
  unfold upd. destruct (k =? x) eqn:E.
  - apply N.eqb_eq in E. subst x. destruct (map_get m k) eqn:G.
    + rewrite map_get_insert, N.eqb_refl. reflexivity.
    + rewrite G. reflexivity.
  - destruct (map_get m k); [rewrite map_get_insert, E|]; reflexivity.
Qed.

Lemma retain_get (m : list (N * N)) keep x :
  map_get (map_retain m keep) x = if keep x then map_get m x else None.
Proof.
  unfold map_retain. induction m as [|[k v] r IH]; cbn [filter map_get fst].
  - destruct (keep x); reflexivity.
  - destruct (keep k) eqn:K; cbn [map_get]; destruct (k =? x) eqn:E.
    + apply N.eqb_eq in E. subst x. rewrite K. reflexivity.
    + exact IH.
    + apply N.eqb_eq in E. subst x. rewrite IH, K. reflexivity.
    + exact IH.
Qed.

Lemma fold_min l : forall m x, NoDup (map_keys l) ->
  map_get (fold_left (fun m (kv : N * N) => upd (fun e => N.min e (snd kv)) m (fst kv)) l m) x =
  match map_get l x with
  | Some v => option_map (fun e => N.min e v) (map_get m x)
  | None => map_get m x
  end.
Proof.
  induction l as [|[k v] r IH]; intros m x ND; cbn [fold_left map_get fst snd]; [reflexivity|].
  cbn [map_keys map fst] in ND. inversion ND as [|a b Hn ND']; subst.
  rewrite IH by exact ND'. rewrite upd_get.
  destruct (k =? x) eqn:E.
  - apply N.eqb_eq in E. subst x.
    rewrite (map_get_not_key r k) by exact Hn. reflexivity.
  - reflexivity.
Qed.

Theorem gen_in_summary_is_model prof (pord : list (N * N) -> list (N * N)) ge nht nct :
  (forall l, Permutation (pord l) l) ->
  info_fits nht = true -> info_fits nct = true ->
  info_fits (EnforcementState_current_holder_commit_info ge) = true ->
  info_fits (EnforcementState_current_counterparty_commit_info ge) = true ->
  exists m,
    gen_EnforcementState_incoming_payments_summary prof pord ge nht nct = Val (OkR m) /\
    (forall h, hget m h = in_val (abs_pchan ge) (option_map abs_h nht) (option_map abs_c nct) h) /\
    (forall h, In h (map_keys m) <-> In h (in_keys (abs_pchan ge) (option_map abs_h nht) (option_map abs_c nct))).
Proof.
  intros Hord F1 F2 F3 F4.
  set (curh := EnforcementState_current_holder_commit_info ge) in *.
  set (curc := EnforcementState_current_counterparty_commit_info ge) in *.
  set (ho := opt_or_else nht curh). set (co := opt_or_else nct curc).
  set (hs := match ho with Some ci => summ (CP.CommitmentInfo2_received_htlcs ci) | None => [] end).
  set (cs := match co with Some ci => summ (CP.CommitmentInfo2_offered_htlcs ci) | None => [] end).
  set (mr := map_retain hs (fun k => map_contains cs k)).
  set (m1 := fold_left (fun m (kv : N * N) => upd (fun e => N.min e (snd kv)) m (fst kv)) (pord cs) mr).
  set (m2 := match curh with Some ci => touch_all (CP.CommitmentInfo2_received_htlcs ci) m1 | None => m1 end).
  set (m3 := match curc with Some ci => touch_all (CP.CommitmentInfo2_offered_htlcs ci) m2 | None => m2 end).
  assert (Fho : info_fits ho = true) by (apply info_fits_or; assumption).
  assert (Fco : info_fits co = true) by (apply info_fits_or; assumption).
  assert (NDc : NoDup (map_keys cs)) by (subst cs; destruct co; [apply summ_nodup | constructor]).
  assert (Hm1 : forall x, map_get m1 x =
                  match map_get cs x, map_get hs x with
                  | Some v, Some e => Some (N.min e v)
                  | _, _ => None
                  end).
  { intros x. subst m1. rewrite fold_min.
    - rewrite (map_get_perm cs (pord cs) x) by (try apply Permutation_sym, Hord; exact NDc).
      subst mr. rewrite retain_get. unfold map_contains.
      destruct (map_get cs x), (map_get hs x); reflexivity.
    - unfold map_keys. eapply Permutation_NoDup; [apply Permutation_map, Permutation_sym, Hord | exact NDc]. }
  exists m3. split; [|split].
  - unfold gen_EnforcementState_incoming_payments_summary. cbv beta zeta. fold curh curc ho co.
    rewrite (summarize_opt prof (fun v_ => CP.CommitmentInfo2_received_htlcs v_) ho)
      by (intros ci E; rewrite E in Fho; cbn [info_fits] in Fho; apply andb_prop in Fho; apply Fho).
    cbv beta. cbn [bindR]. fold hs.
    rewrite (summarize_opt prof (fun v_ => CP.CommitmentInfo2_offered_htlcs v_) co)
      by (intros ci E; rewrite E in Fco; cbn [info_fits] in Fco; apply andb_prop in Fco; apply Fco).
    cbv beta. cbn [bindR]. fold cs. fold mr.
    rewrite (fold_r_plain _ (fun m (kv : N * N) => upd (fun e => N.min e (snd kv)) m (fst kv)))
      by (intros s [k v]; cbv beta iota; rewrite (entry_update_none (fun e => N.min e v)); reflexivity).
    cbn [bindR]. fold m1.
    destruct curh as [ch|]; cbn [bindR]; [rewrite gen_touch; cbn [bindR]|]; fold m2;
      (destruct curc as [cc|]; cbn [bindR]; [rewrite gen_touch; cbn [bindR]|]; reflexivity).
  - (* the values *)
    assert (Hm3 : forall x, get_or0 m3 x =
                    match map_get cs x, map_get hs x with
                    | Some v, Some e => N.min e v
                    | _, _ => 0
                    end).
    { intros x. unfold get_or0. subst m3 m2.
      destruct curc as [cc|], curh as [ch|]; unfold touch_all; rewrite ?fold_touch, Hm1;
        destruct (map_get cs x), (map_get hs x);
        repeat match goal with |- context [if ?c then _ else _] => destruct c end; reflexivity. }
    intros h. rewrite hget_map_get. fold (get_or0 m3 h). rewrite Hm3.
    unfold in_val, abs_pchan. cbn [hcur ccur]. fold curh curc. rewrite !opt_or_map. fold ho co.
    cbv zeta. rewrite !hhas_map_get, !hget_map_get. subst hs cs.
    destruct ho, co; cbn [option_map oin abs_h abs_c c_in map_get is_some_of andb];
      repeat match goal with |- context [map_get ?m h] => destruct (map_get m h) end;
      cbn [is_some_of andb]; reflexivity.
  - (* the hashes *)
    intros h. rewrite key_in_iff.
    assert (Hk : is_some_of (map_get m3 h) =
                 is_some_of (map_get hs h) && is_some_of (map_get cs h)
                 || existsb (N.eqb h) (match curh with Some ci => hashes_of (CP.CommitmentInfo2_received_htlcs ci) | None => [] end)
                 || existsb (N.eqb h) (match curc with Some ci => hashes_of (CP.CommitmentInfo2_offered_htlcs ci) | None => [] end)).
    { assert (Hm1' : is_some_of (map_get m1 h) = is_some_of (map_get hs h) && is_some_of (map_get cs h))
        by (rewrite Hm1; destruct (map_get cs h), (map_get hs h); reflexivity).
      subst m3 m2. destruct curc as [cc|], curh as [ch|]; unfold touch_all; rewrite ?fold_touch; cbn [existsb];
        rewrite ?orb_false_r;
        repeat match goal with
               | |- context [map_get m1 h] => destruct (map_get m1 h); cbn [is_some_of] in *
               | |- context [if ?c then _ else _] => destruct c
               end; rewrite <- ?Hm1'; cbn [is_some_of orb]; rewrite ?orb_true_r, ?orb_false_r; try reflexivity;
        try (symmetry; exact Hm1'); try (rewrite <- Hm1'; reflexivity). }
    rewrite Hk. unfold in_keys, abs_pchan. cbn [hcur ccur]. fold curh curc. rewrite !opt_or_map. fold ho co.
    rewrite !in_app_iff, filter_In, !hkeys_keys, hhas_map_get.
    assert (K1 : In h (map_keys (oin (option_map abs_h ho))) <-> is_some_of (map_get hs h) = true)
      by (subst hs; destruct ho; cbn [option_map oin abs_h c_in]; apply key_in_iff).
    assert (K2 : is_some_of (map_get (oin (option_map abs_c co)) h) = is_some_of (map_get cs h))
      by (subst cs; destruct co; reflexivity).
    assert (K3 : In h (map_keys (oin (option_map abs_h curh))) <->
                 existsb (N.eqb h) (match curh with Some ci => hashes_of (CP.CommitmentInfo2_received_htlcs ci) | None => [] end) = true)
      by (destruct curh; cbn [option_map oin abs_h c_in]; [rewrite summ_keys, existsb_in; reflexivity | split; [intros [] | discriminate]]).
    assert (K4 : In h (map_keys (oin (option_map abs_c curc))) <->
                 existsb (N.eqb h) (match curc with Some ci => hashes_of (CP.CommitmentInfo2_offered_htlcs ci) | None => [] end) = true)
      by (destruct curc; cbn [option_map oin abs_c c_in]; [rewrite summ_keys, existsb_in; reflexivity | split; [intros [] | discriminate]]).
    rewrite K1, K2, K3, K4, !orb_true_iff, andb_true_iff. tauto.
Qed.

(** * what [summ] holds: for every hash the total of the HTLCs of the list that carry it *)

Definition total_of (l : list CP.HTLCInfo2) (x : N) : N :=
  sum_N (map CP.HTLCInfo2_value_sat (filter (fun h => CP.HTLCInfo2_payment_hash h =? x) l)).

Lemma fold_upsert_total l : forall m x,
  get_or0 (fold_left (fun m h => upsert (fun e => e + CP.HTLCInfo2_value_sat h) m (CP.HTLCInfo2_payment_hash h) (CP.HTLCInfo2_value_sat h)) l m) x =
  get_or0 m x + total_of l x.
Proof.
  unfold total_of. induction l as [|a r IH]; intros m x; cbn [fold_left filter map sum_N]; [cbn; lia|].
  rewrite IH. unfold get_or0 at 1. rewrite upsert_get.
  destruct (CP.HTLCInfo2_payment_hash a =? x) eqn:E; cbn [map sum_N].
  - apply N.eqb_eq in E. subst x. unfold get_or0. destruct (map_get m (CP.HTLCInfo2_payment_hash a)); cbn [sum_N]; lia.
  - reflexivity.
Qed.

Lemma summ_total l x : hget (summ l) x = total_of l x.
Proof. rewrite hget_map_get. fold (get_or0 (summ l) x). unfold summ. rewrite fold_upsert_total. reflexivity. Qed.

(** * both summaries together: the inputs of NodeState::validate_payments / apply_payments *)

Lemma set_insert_in s k x : In x (set_insert s k) <-> In x s \/ x = k.
Proof.
  unfold set_insert, set_contains. destruct (existsb (N.eqb k) s) eqn:E.
  - apply existsb_in in E. split; [intros H; left; exact H | intros [H|H]; [exact H | subst; exact E]].
  - rewrite in_app_iff. cbn [In]. split; intros [H|H]; auto. destruct H as [H|[]]. right. symmetry. exact H.
Qed.

Lemma set_extend_in l : forall s x, In x (set_extend s l) <-> In x s \/ In x l.
Proof.
  unfold set_extend. induction l as [|a r IH]; intros s x; cbn [fold_left In].
  - tauto.
  - rewrite IH, set_insert_in. split; [intros [[H|H]|H] | intros [H|[H|H]]]; auto.
Qed.

Theorem gen_summaries_are_model prof (pord : list (N * N) -> list (N * N)) ge nht nct :
  (forall l, Permutation (pord l) l) ->
  info_fits nht = true -> info_fits nct = true ->
  info_fits (EnforcementState_current_holder_commit_info ge) = true ->
  info_fits (EnforcementState_current_counterparty_commit_info ge) = true ->
  let p := abs_pchan ge in
  let nh := option_map abs_h nht in
  let nc := option_map abs_c nct in
  exists im om,
    gen_EnforcementState_incoming_payments_summary prof pord ge nht nct = Val (OkR im) /\
    gen_EnforcementState_payments_summary prof pord ge nht nct = Val (OkR om) /\
    (forall h, hget im h = in_val p nh nc h) /\
    (forall h, hget om h = out_val p nh nc h) /\
    (forall h, In h (map_keys im) <-> In h (in_keys p nh nc)) /\
    (forall h, In h (map_keys om) <-> In h (out_keys p nh nc)) /\
    (forall h, In h (set_extend (set_extend [] (map_keys im)) (map_keys om)) <-> In h (sum_keys p nh nc)).
Proof.
  intros Hord F1 F2 F3 F4 p nh nc.
  destruct (gen_in_summary_is_model prof pord ge nht nct Hord F1 F2 F3 F4) as (im & Ei & Vi & Ki).
  destruct (gen_out_summary_is_model prof pord ge nht nct Hord F1 F2 F3 F4) as (om & Eo & Vo & Ko).
  exists im, om. repeat split; try assumption; try apply Vi; try apply Vo; try apply Ki; try apply Ko.
  - rewrite !set_extend_in. unfold sum_keys. rewrite in_app_iff. intros [[[]|H]|H]; [left; apply Ki | right; apply Ko]; exact H.
  - rewrite !set_extend_in. unfold sum_keys. rewrite in_app_iff. intros [H|H]; [left; right; apply Ki | right; apply Ko]; exact H.
Qed.
