(** The push listener in closed form: the changes a transaction produces are a function of
    what the core *recognises* (funding outpoint, closing txid, output indexes, second-level
    outpoints), never of the spent flags.  [dec_tx_ok] / [dec_tx_total] tie the threaded
    listener of Model/Monitor.v to [tx_changes] / [asserts_ok]. *)
From VLS Require Import Model.Monitor Proofs.MonitorSets.

Lemma bind_ok {A B} (x : res A) (f : A -> res B) (b : B) :
  bind x f = Ok b -> exists a, x = Ok a /\ f a = Ok b.
Proof. destruct x as [a|]; cbn [bind]; intros H; [exists a; auto | discriminate]. Qed.

Tactic Notation "binv" hyp(H) "as" ident(a) ident(E) :=
  apply bind_ok in H; destruct H as [a [E H]].

(** * What a core recognises *)
Definition csig (c : closing) : N * option N * list N * list outpoint :=
  (c_txid c, option_map fst (c_our c), map fst (c_htlcs c), map fst (c_second c)).
Definition rsig (k : core) := (fst k, option_map csig (snd k)).

Inductive ckind := KOur | KHtlc | KSecond | KNone.
Definition ckind_cl (cl : closing) (i : outpoint) : ckind :=
  if includes_our cl i then KOur
  else if includes_htlc cl i then KHtlc
  else if includes_second cl i then KSecond else KNone.
Definition ckind_of (k : core) (i : outpoint) : ckind :=
  match snd k with Some cl => ckind_cl cl i | None => KNone end.
Definition fo_hit (k : core) (i : outpoint) : bool :=
  match fst k with Some f => op_eqb i f | None => false end.

Lemma existsb_map {A B} (f : A -> B) (p : B -> bool) l :
  existsb p (map f l) = existsb (fun x => p (f x)) l.
Proof. induction l as [|x r IH]; cbn [map existsb]; [reflexivity | rewrite IH; reflexivity]. Qed.

Lemma includes_our_sig c1 c2 i : csig c1 = csig c2 -> includes_our c1 i = includes_our c2 i.
Proof.
  unfold csig, includes_our. intros H. inversion H as [[H1 H2 H3 H4]]. rewrite H1.
  destruct (c_our c1) as [[a b]|], (c_our c2) as [[a' b']|]; cbn [option_map fst] in H2; try discriminate; [|reflexivity].
  inversion H2; subst; reflexivity.
Qed.
Lemma includes_htlc_sig c1 c2 i : csig c1 = csig c2 -> includes_htlc c1 i = includes_htlc c2 i.
Proof.
  unfold csig, includes_htlc. intros H. inversion H as [[H1 H2 H3 H4]]. rewrite H1. f_equal.
  rewrite <- (existsb_map fst (fun x => x =? snd i) (c_htlcs c1)).
  rewrite <- (existsb_map fst (fun x => x =? snd i) (c_htlcs c2)). rewrite H3. reflexivity.
Qed.
Lemma includes_second_sig c1 c2 i : csig c1 = csig c2 -> includes_second c1 i = includes_second c2 i.
Proof.
  unfold csig, includes_second. intros H. inversion H as [[H1 H2 H3 H4]].
  rewrite <- (existsb_map fst (fun x => op_eqb x i) (c_second c1)).
  rewrite <- (existsb_map fst (fun x => op_eqb x i) (c_second c2)). rewrite H4. reflexivity.
Qed.
Lemma ckind_cl_sig c1 c2 i : csig c1 = csig c2 -> ckind_cl c1 i = ckind_cl c2 i.
Proof.
  intros H. unfold ckind_cl.
  rewrite (includes_our_sig _ _ i H), (includes_htlc_sig _ _ i H), (includes_second_sig _ _ i H). reflexivity.
Qed.
Lemma ckind_of_sig k1 k2 i : rsig k1 = rsig k2 -> ckind_of k1 i = ckind_of k2 i.
Proof.
  unfold rsig, ckind_of. intros H. inversion H as [[H1 H2]].
  destruct (snd k1), (snd k2); cbn [option_map] in H2; try discriminate; [|reflexivity].
  apply ckind_cl_sig. congruence.
Qed.
Lemma fo_hit_sig k1 k2 i : rsig k1 = rsig k2 -> fo_hit k1 i = fo_hit k2 i.
Proof. unfold rsig, fo_hit. intros H. inversion H as [[H1 H2]]. rewrite H1. reflexivity. Qed.

(** [set_first] keeps the projection that the predicate looks at *)
Lemma set_first_map {A B} (g : A -> B) (p : A -> bool) (f : A -> A) l l' :
  (forall x, g (f x) = g x) -> set_first p f l = Some l' -> map g l' = map g l.
Proof.
  intros Hg. revert l'. induction l as [|x r IH]; intros l' H; cbn [set_first] in H; [discriminate|].
  destruct (p x).
  - inversion H; subst. cbn [map]. rewrite Hg. reflexivity.
  - destruct (set_first p f r) as [r'|]; [|discriminate]. inversion H; subst. cbn [map]. f_equal. apply IH. reflexivity.
Qed.
Lemma set_first_some {A} (p : A -> bool) (f : A -> A) l :
  existsb p l = true -> exists l', set_first p f l = Some l'.
Proof.
  induction l as [|x r IH]; cbn [existsb set_first]; [discriminate|].
  destruct (p x); cbn [orb]; intros H; [eexists; reflexivity|].
  destruct (IH H) as [r' ->]. eexists; reflexivity.
Qed.
Lemma set_first_none {A} (p : A -> bool) (f : A -> A) l :
  existsb p l = false -> set_first p f l = None.
Proof.
  induction l as [|x r IH]; cbn [existsb set_first]; [reflexivity|].
  destruct (p x); cbn [orb]; intros H; [discriminate|]. rewrite (IH H). reflexivity.
Qed.

Lemma set_our_sig cl v b cl' : set_our cl v b = Ok cl' -> csig cl' = csig cl.
Proof.
  unfold set_our. destruct (c_our cl) as [[i b0]|] eqn:E; [|discriminate].
  destruct (i =? v); [|discriminate]. intros H; inversion H; subst. unfold csig; cbn. rewrite E. reflexivity.
Qed.
Lemma set_htlc_sig cl v b cl' : set_htlc cl v b = Ok cl' -> csig cl' = csig cl.
Proof.
  unfold set_htlc. destruct (set_first _ _ (c_htlcs cl)) as [h|] eqn:E; [|discriminate].
  intros H; inversion H; subst. unfold csig; cbn.
  rewrite (set_first_map fst _ (fun p => (fst p, b)) _ _ (fun x => eq_refl) E). reflexivity.
Qed.
Lemma set_second_sig cl o b cl' : set_second cl o b = Ok cl' -> csig cl' = csig cl.
Proof.
  unfold set_second. destruct (set_first _ _ (c_second cl)) as [h|] eqn:E; [|discriminate].
  intros H; inversion H; subst. unfold csig; cbn.
  rewrite (set_first_map fst _ (fun p => (fst p, b)) _ _ (fun x => eq_refl) E). reflexivity.
Qed.

(** the changes that only flip flags keep the signature *)
Definition flag_change (c : change) : bool :=
  match c with FundingInputSpent _ | OurOutputSpent _ | SecondLevelSpent _ | MutualClose _ _ => true | _ => false end.
Lemma core_fwd_flag_sig k c k' : flag_change c = true -> core_fwd k c = Ok k' -> rsig k' = rsig k.
Proof.
  destruct c; cbn [flag_change]; try discriminate; intros _; cbn [core_fwd]; intros H.
  - inversion H; reflexivity.
  - inversion H; reflexivity.
  - unfold with_closing in H. destruct (snd k) as [cl|] eqn:E; [|discriminate]. binv H as cl' Ecl. inversion H; subst.
    unfold rsig; cbn [fst snd option_map]. rewrite E. cbn [option_map]. rewrite (set_our_sig _ _ _ _ Ecl). reflexivity.
  - unfold with_closing in H. destruct (snd k) as [cl|] eqn:E; [|discriminate]. binv H as cl' Ecl. inversion H; subst.
    unfold rsig; cbn [fst snd option_map]. rewrite E. cbn [option_map]. rewrite (set_second_sig _ _ _ _ Ecl). reflexivity.
Qed.

Fixpoint core_fwds (k : core) (cs : list change) : res core :=
  match cs with [] => Ok k | c :: r => k' <- core_fwd k c ;; core_fwds k' r end.
Fixpoint core_bwds (k : core) (cs : list change) : res core :=
  match cs with [] => Ok k | c :: r => k' <- core_bwd k c ;; core_bwds k' r end.

Lemma core_fwds_app k a b : core_fwds k (a ++ b) = (k' <- core_fwds k a ;; core_fwds k' b).
Proof.
  revert k. induction a as [|c r IH]; intros k; cbn [app core_fwds bind]; [reflexivity|].
  destruct (core_fwd k c) as [k1|]; cbn [bind]; [apply IH | reflexivity].
Qed.
Lemma core_bwds_app k a b : core_bwds k (a ++ b) = (k' <- core_bwds k a ;; core_bwds k' b).
Proof.
  revert k. induction a as [|c r IH]; intros k; cbn [app core_bwds bind]; [reflexivity|].
  destruct (core_bwd k c) as [k1|]; cbn [bind]; [apply IH | reflexivity].
Qed.

(** * Closed form *)
Definition input_changes (g : cfg) (k : core) (i : outpoint) : list change :=
  (if mem_op i (finputs g) then [FundingInputSpent i] else []) ++
  match ckind_of k i with
  | KOur => [OurOutputSpent (snd i)]
  | KSecond => [SecondLevelSpent i]
  | _ => []
  end.
Fixpoint closing_prev (k : core) (ins : list outpoint) (acc : option outpoint) : option outpoint :=
  match ins with
  | [] => acc
  | i :: r => closing_prev k r (if fo_hit k i then Some i else acc)
  end.
Fixpoint htlc_hits (k : core) (ins : list outpoint) (n : N) : list (N * N) :=
  match ins with
  | [] => []
  | i :: r => (match ckind_of k i with KHtlc => [(snd i, n)] | _ => [] end) ++ htlc_hits k r (n + 1)
  end.
Fixpoint input_asserts (k : core) (n : N) (cp : option outpoint) (ins : list outpoint) : bool :=
  match ins with
  | [] => true
  | i :: r =>
      let cp' := if fo_hit k i then Some i else cp in
      (match cp' with Some _ => n =? 0 | None => true end) && input_asserts k (n + 1) cp' r
  end.
Definition inputs_changes (g : cfg) (k : core) (ins : list outpoint) : list change :=
  concat (map (input_changes g k) ins).
Definition hos_changes (t : tx) (hits : list (N * N)) : list change :=
  map (fun p => HTLCOutputSpent (fst p) (tx_id t, snd p)) hits.
Definition end_changes (g : cfg) (t : tx) (cp : option outpoint) (hits : list (N * N)) : list change :=
  (if tx_id t =? ftxid g then [FundingConfirmed (tx_id t, fvout g)] else []) ++
  (match cp with
   | Some prev =>
       match tx_close t with
       | Commitment our h => [UnilateralClose (tx_id t) prev our h]
       | NotCommitment => [MutualClose (tx_id t) prev]
       | CommitmentNoInfo => []
       end
   | None => []
   end) ++ hos_changes t hits.
Definition tx_changes (g : cfg) (k : core) (t : tx) : list change :=
  inputs_changes g k (tx_ins t) ++
  end_changes g t (closing_prev k (tx_ins t) None) (htlc_hits k (tx_ins t) 0).
Definition end_asserts (g : cfg) (t : tx) (cp : option outpoint) : bool :=
  (match cp with
   | Some _ => negb (MAX_COMMITMENT_OUTPUTS <? tx_nout t)
               && match tx_close t with CommitmentNoInfo => false | _ => true end
   | None => true
   end) && (if tx_id t =? ftxid g then fvout g <? tx_nout t else true).
Definition asserts_ok (g : cfg) (k : core) (t : tx) : bool :=
  input_asserts k 0 None (tx_ins t) && end_asserts g t (closing_prev k (tx_ins t) None).

Lemma input_changes_sig g k1 k2 i : rsig k1 = rsig k2 -> input_changes g k1 i = input_changes g k2 i.
Proof. intros H. unfold input_changes. rewrite (ckind_of_sig _ _ i H). reflexivity. Qed.

(** * The threaded listener computes the closed form *)

Lemma add_changes_spec cs : forall d d',
  add_changes d cs = Ok d' ->
  core_fwds (d_core d) cs = Ok (d_core d') /\ d_changes d' = d_changes d ++ cs.
Proof.
  induction cs as [|c r IH]; intros d d' H; cbn [add_changes] in H.
  - inversion H; subst. cbn [core_fwds]. rewrite app_nil_r. auto.
  - binv H as d1 E. unfold add_change in E. binv E as k1 Ek. inversion E; subst. clear E.
    destruct (IH _ _ H) as [H1 H2]. cbn [d_core d_changes] in *.
    split; [cbn [core_fwds]; rewrite Ek; cbn [bind]; exact H1 | rewrite H2, <- app_assoc; reflexivity].
Qed.
Lemma add_changes_total cs : forall d k',
  core_fwds (d_core d) cs = Ok k' -> add_changes d cs = Ok (mkd k' (d_changes d ++ cs)).
Proof.
  induction cs as [|c r IH]; intros d k' H; cbn [add_changes core_fwds] in *.
  - inversion H; subst. rewrite app_nil_r. destruct d; reflexivity.
  - binv H as a E. unfold add_change. rewrite E. cbn [bind]. rewrite (IH (mkd a (d_changes d ++ [c])) k' H). cbn [d_changes]. rewrite <- app_assoc. reflexivity.
Qed.

(** one input *)
Lemma on_input_spec g k d sc i d' sc' :
  rsig (d_core d) = rsig k ->
  on_input g (d, sc) i = Ok (d', sc') ->
  core_fwds (d_core d) (input_changes g k i) = Ok (d_core d')
  /\ d_changes d' = d_changes d ++ input_changes g k i
  /\ rsig (d_core d') = rsig k
  /\ sc' = mksc (sc_n sc + 1) (if fo_hit k i then Some i else sc_closing sc)
                (sc_htlcs sc ++ match ckind_of k i with KHtlc => [(snd i, sc_n sc)] | _ => [] end)
  /\ (match (if fo_hit k i then Some i else sc_closing sc) with Some _ => sc_n sc =? 0 | None => true end) = true.
Proof.
  intros Hs H. unfold on_input in H. binv H as a E.
  (* the funding-input part *)
  assert (Hd1 : d_core a = d_core d /\ d_changes a = d_changes d ++ (if mem_op i (finputs g) then [FundingInputSpent i] else [])).
  { destruct (mem_op i (finputs g)).
    - unfold add_change in E. cbn [core_fwd bind] in E. inversion E; subst. cbn. auto.
    - inversion E; subst. rewrite app_nil_r. auto. }
  destruct Hd1 as [Hc1 Hl1]. clear E.
  assert (Hs1 : rsig (d_core a) = rsig k) by (rewrite Hc1; exact Hs).
  binv H as a0 E. destruct a0 as [d2 sh].
  assert (Hfo : (match fst (d_core a) with Some f => if op_eqb i f then Some i else sc_closing sc | None => sc_closing sc end)
                = (if fo_hit k i then Some i else sc_closing sc)).
  { rewrite <- (fo_hit_sig _ _ i Hs1). unfold fo_hit. destruct (fst (d_core a)); reflexivity. }
  rewrite Hfo in H.
  assert (Hk : ckind_of (d_core a) i = ckind_of k i) by (apply ckind_of_sig; exact Hs1).
  (* the closing-outpoints part *)
  assert (Hd2 : core_fwds (d_core a) (match ckind_of k i with KOur => [OurOutputSpent (snd i)] | KSecond => [SecondLevelSpent i] | _ => [] end) = Ok (d_core d2)
                /\ d_changes d2 = d_changes a ++ (match ckind_of k i with KOur => [OurOutputSpent (snd i)] | KSecond => [SecondLevelSpent i] | _ => [] end)
                /\ sh = sc_htlcs sc ++ match ckind_of k i with KHtlc => [(snd i, sc_n sc)] | _ => [] end).
  { rewrite <- Hk. unfold ckind_of, ckind_cl in *. destruct (snd (d_core a)) as [cl|].
    - destruct (includes_our cl i).
      + binv E as dd Ed. inversion E; subst. unfold add_change in Ed. binv Ed as kk Ek. inversion Ed; subst. cbn [d_core d_changes core_fwds].
        rewrite Ek. cbn [bind]. rewrite app_nil_r. auto.
      + destruct (includes_htlc cl i).
        * inversion E; subst. cbn [core_fwds]. rewrite app_nil_r. auto.
        * destruct (includes_second cl i).
          -- binv E as dd Ed. inversion E; subst. unfold add_change in Ed. binv Ed as kk Ek. inversion Ed; subst. cbn [d_core d_changes core_fwds].
             rewrite Ek. cbn [bind]. rewrite app_nil_r. auto.
          -- inversion E; subst. cbn [core_fwds]. rewrite !app_nil_r. auto.
    - inversion E; subst. cbn [core_fwds]. rewrite !app_nil_r. auto. }
  destruct Hd2 as [Hc2 [Hl2 Hsh]]. clear E.
  assert (Hres : d' = d2 /\ sc' = mksc (sc_n sc + 1) (if fo_hit k i then Some i else sc_closing sc) sh
                 /\ (match (if fo_hit k i then Some i else sc_closing sc) with Some _ => sc_n sc =? 0 | None => true end) = true).
  { destruct (if fo_hit k i then Some i else sc_closing sc).
    - destruct (sc_n sc =? 0); [|discriminate]. inversion H; subst. auto.
    - inversion H; subst. auto. }
  destruct Hres as [-> [-> Hass]].
  split.
  { unfold input_changes. rewrite core_fwds_app.
    assert (core_fwds (d_core d) (if mem_op i (finputs g) then [FundingInputSpent i] else []) = Ok (d_core a)) as ->.
    { rewrite Hc1. destruct (mem_op i (finputs g)); reflexivity. }
    cbn [bind]. exact Hc2. }
  split.
  { unfold input_changes. rewrite Hl2, Hl1, <- app_assoc. reflexivity. }
  split.
  { (* signature preserved *)
    rewrite <- Hs1.
    destruct (ckind_of k i); cbn [core_fwds] in Hc2.
    - binv Hc2 as kk Ek. inversion Hc2; subst. eapply core_fwd_flag_sig; [|exact Ek]. reflexivity.
    - inversion Hc2. reflexivity.
    - binv Hc2 as kk Ek. inversion Hc2; subst. eapply core_fwd_flag_sig; [|exact Ek]. reflexivity.
    - inversion Hc2. reflexivity. }
  split; [rewrite Hsh; reflexivity | exact Hass].
Qed.

Lemma on_inputs_spec g k ins : forall d sc d' sc',
  rsig (d_core d) = rsig k ->
  on_inputs g (d, sc) ins = Ok (d', sc') ->
  core_fwds (d_core d) (inputs_changes g k ins) = Ok (d_core d')
  /\ d_changes d' = d_changes d ++ inputs_changes g k ins
  /\ rsig (d_core d') = rsig k
  /\ sc' = mksc (sc_n sc + N.of_nat (length ins)) (closing_prev k ins (sc_closing sc))
                (sc_htlcs sc ++ htlc_hits k ins (sc_n sc))
  /\ input_asserts k (sc_n sc) (sc_closing sc) ins = true.
Proof.
  induction ins as [|i r IH]; intros d sc d' sc' Hs H; cbn [on_inputs] in H.
  - inversion H; subst. unfold inputs_changes. cbn [map concat core_fwds closing_prev htlc_hits input_asserts length].
    rewrite !app_nil_r. repeat split; auto. destruct sc'; cbn. f_equal. rewrite N.add_0_r. reflexivity.
  - binv H as a E. destruct a as [d1 sc1].
    destruct (on_input_spec _ _ _ _ _ _ _ Hs E) as [H1 [H2 [H3 [H4 H5]]]].
    destruct (IH _ _ _ _ H3 H) as [G1 [G2 [G3 [G4 G5]]]].
    unfold inputs_changes in *. cbn [map concat].
    split; [rewrite core_fwds_app, H1; cbn [bind]; exact G1|].
    split; [rewrite G2, H2, <- app_assoc; reflexivity|].
    split; [exact G3|].
    subst sc1. cbn [sc_n sc_closing sc_htlcs] in *.
    split.
    + rewrite G4. cbn [closing_prev htlc_hits length]. f_equal; [lia | rewrite <- app_assoc; reflexivity].
    + cbn [input_asserts]. rewrite H5, G5. reflexivity.
Qed.

Lemma dec_tx_ok g k c0 t d' :
  dec_tx g (mkd k c0) t = Ok d' ->
  core_fwds k (tx_changes g k t) = Ok (d_core d')
  /\ d_changes d' = c0 ++ tx_changes g k t
  /\ asserts_ok g k t = true.
Proof.
  intros H. unfold dec_tx in H. binv H as a E. destruct a as [d1 sc].
  destruct (on_inputs_spec g k _ (mkd k c0) _ _ _ eq_refl E) as [H1 [H2 [H3 [H4 H5]]]].
  cbn [d_core d_changes sc_n sc_closing sc_htlcs] in *. rewrite N.add_0_l in H4. cbn [app] in H4.
  set (cp := closing_prev k (tx_ins t) None) in *.
  set (hits := htlc_hits k (tx_ins t) 0) in *.
  assert (Hend : on_tx_end g d1 sc t = Ok d' /\ (match cp with Some _ => negb (MAX_COMMITMENT_OUTPUTS <? tx_nout t) | None => true end) = true).
  { subst sc. cbn [sc_closing] in H. destruct cp; [|auto].
    destruct (MAX_COMMITMENT_OUTPUTS <? tx_nout t); [discriminate | auto]. }
  destruct Hend as [Hend Hout]. clear H.
  unfold on_tx_end in Hend. subst sc. cbn [sc_closing sc_htlcs] in Hend.
  binv Hend as a E0. binv Hend as a0 E1.
  (* funding confirmed *)
  assert (Ha : core_fwds (d_core d1) (if tx_id t =? ftxid g then [FundingConfirmed (tx_id t, fvout g)] else []) = Ok (d_core a)
               /\ d_changes a = d_changes d1 ++ (if tx_id t =? ftxid g then [FundingConfirmed (tx_id t, fvout g)] else [])
               /\ (if tx_id t =? ftxid g then fvout g <? tx_nout t else true) = true).
  { destruct (tx_id t =? ftxid g).
    - destruct (fvout g <? tx_nout t); [|discriminate]. unfold add_change in E0. binv E0 as kk E2. inversion E0; subst.
      cbn [core_fwds d_core d_changes]. rewrite E2. auto.
    - inversion E0; subst. cbn [core_fwds]. rewrite app_nil_r. auto. }
  destruct Ha as [Ha1 [Ha2 Ha3]].
  set (cl := match cp with
             | Some prev => match tx_close t with
                            | Commitment our h => [UnilateralClose (tx_id t) prev our h]
                            | NotCommitment => [MutualClose (tx_id t) prev]
                            | CommitmentNoInfo => []
                            end
             | None => [] end).
  assert (Hb : core_fwds (d_core a) cl = Ok (d_core a0) /\ d_changes a0 = d_changes a ++ cl
               /\ (match cp with Some _ => match tx_close t with CommitmentNoInfo => false | _ => true end | None => true end) = true).
  { subst cl. destruct cp as [prev|].
    - destruct (tx_close t); try discriminate.
      + unfold add_change in E1. binv E1 as kk E2. inversion E1; subst. cbn [core_fwds d_core d_changes]. rewrite E2. auto.
      + unfold add_change in E1. binv E1 as kk E2. inversion E1; subst. cbn [core_fwds d_core d_changes]. rewrite E2. auto.
    - inversion E1; subst. cbn [core_fwds]. rewrite app_nil_r. auto. }
  destruct Hb as [Hb1 [Hb2 Hb3]].
  destruct (add_changes_spec _ _ _ Hend) as [Hc1 Hc2].
  split.
  { unfold tx_changes, end_changes. fold cp hits cl. rewrite core_fwds_app, H1. cbn [bind].
    rewrite core_fwds_app, Ha1. cbn [bind]. rewrite core_fwds_app, Hb1. cbn [bind]. exact Hc1. }
  split.
  { unfold tx_changes, end_changes. fold cp hits cl. rewrite Hc2, Hb2, Ha2, H2. rewrite <- !app_assoc. reflexivity. }
  unfold asserts_ok, end_asserts. fold cp. rewrite H5, Ha3. cbn [andb].
  destruct cp; [|reflexivity]. rewrite Hout, Hb3. reflexivity.
Qed.

(** ... and conversely: when the assertions hold and the changes apply, the listener returns them *)
Lemma on_input_total g k d sc i k2 :
  rsig (d_core d) = rsig k ->
  core_fwds (d_core d) (input_changes g k i) = Ok k2 ->
  (match (if fo_hit k i then Some i else sc_closing sc) with Some _ => sc_n sc =? 0 | None => true end) = true ->
  on_input g (d, sc) i =
    Ok (mkd k2 (d_changes d ++ input_changes g k i),
        mksc (sc_n sc + 1) (if fo_hit k i then Some i else sc_closing sc)
             (sc_htlcs sc ++ match ckind_of k i with KHtlc => [(snd i, sc_n sc)] | _ => [] end)).
Proof.
  intros Hs Hf Ha. unfold on_input, input_changes in *.
  rewrite core_fwds_app in Hf.
  set (d1 := mkd (d_core d) (d_changes d ++ (if mem_op i (finputs g) then [FundingInputSpent i] else []))).
  assert (H1 : (if mem_op i (finputs g) then add_change d (FundingInputSpent i) else Ok d) = Ok d1).
  { subst d1. destruct (mem_op i (finputs g)).
    - unfold add_change. cbn [core_fwd bind]. reflexivity.
    - rewrite app_nil_r. destruct d; reflexivity. }
  rewrite H1. cbn [bind].
  assert (Hf1 : core_fwds (d_core d) (if mem_op i (finputs g) then [FundingInputSpent i] else []) = Ok (d_core d)).
  { destruct (mem_op i (finputs g)); reflexivity. }
  rewrite Hf1 in Hf. cbn [bind] in Hf.
  assert (Hfo : (match fst (d_core d1) with Some f => if op_eqb i f then Some i else sc_closing sc | None => sc_closing sc end)
                = (if fo_hit k i then Some i else sc_closing sc)).
  { subst d1. cbn [d_core]. rewrite <- (fo_hit_sig _ _ i Hs). unfold fo_hit. destruct (fst (d_core d)); reflexivity. }
  rewrite Hfo.
  assert (Hk : ckind_of (d_core d) i = ckind_of k i) by (apply ckind_of_sig; exact Hs).
  rewrite <- Hk in *. subst d1. cbn [d_core d_changes].
  unfold ckind_of, ckind_cl in *.
  destruct (snd (d_core d)) as [cl|].
  - destruct (includes_our cl i).
    + cbn [core_fwds] in Hf. apply bind_ok in Hf. destruct Hf as [kk [Ek Hf]]. inversion Hf; subst.
      unfold add_change. cbn [d_core d_changes]. rewrite Ek. cbn [bind].
      destruct (if fo_hit k i then Some i else sc_closing sc); [rewrite Ha|]; rewrite <- !app_assoc, app_nil_r; reflexivity.
    + destruct (includes_htlc cl i).
      * cbn [core_fwds] in Hf. inversion Hf; subst. cbn [bind].
        destruct (if fo_hit k i then Some i else sc_closing sc); [rewrite Ha|]; rewrite !app_nil_r; reflexivity.
      * destruct (includes_second cl i).
        -- cbn [core_fwds] in Hf. apply bind_ok in Hf. destruct Hf as [kk [Ek Hf]]. inversion Hf; subst.
           unfold add_change. cbn [d_core d_changes]. rewrite Ek. cbn [bind].
           destruct (if fo_hit k i then Some i else sc_closing sc); [rewrite Ha|]; rewrite <- !app_assoc, app_nil_r; reflexivity.
        -- cbn [core_fwds] in Hf. inversion Hf; subst. cbn [bind].
           destruct (if fo_hit k i then Some i else sc_closing sc); [rewrite Ha|]; rewrite !app_nil_r; reflexivity.
  - cbn [core_fwds] in Hf. inversion Hf; subst. cbn [bind].
    destruct (if fo_hit k i then Some i else sc_closing sc); [rewrite Ha|]; rewrite !app_nil_r; reflexivity.
Qed.

Lemma core_fwds_flag_sig cs : forall k k',
  forallb flag_change cs = true -> core_fwds k cs = Ok k' -> rsig k' = rsig k.
Proof.
  induction cs as [|c r IH]; intros k k' Hf H; cbn [core_fwds forallb] in *.
  - inversion H; reflexivity.
  - apply andb_true_iff in Hf. destruct Hf as [Hc Hr]. apply bind_ok in H. destruct H as [k1 [E H]].
    rewrite (IH _ _ Hr H). eapply core_fwd_flag_sig; eassumption.
Qed.
Lemma input_changes_flag g k i : forallb flag_change (input_changes g k i) = true.
Proof.
  unfold input_changes. rewrite forallb_app. destruct (mem_op i (finputs g)); destruct (ckind_of k i); reflexivity.
Qed.

Lemma on_inputs_total g k ins : forall d sc k2,
  rsig (d_core d) = rsig k ->
  core_fwds (d_core d) (inputs_changes g k ins) = Ok k2 ->
  input_asserts k (sc_n sc) (sc_closing sc) ins = true ->
  on_inputs g (d, sc) ins =
    Ok (mkd k2 (d_changes d ++ inputs_changes g k ins),
        mksc (sc_n sc + N.of_nat (length ins)) (closing_prev k ins (sc_closing sc))
             (sc_htlcs sc ++ htlc_hits k ins (sc_n sc))).
Proof.
  induction ins as [|i r IH]; intros d sc k2 Hs Hf Ha; unfold inputs_changes in *; cbn [map concat on_inputs] in *.
  - cbn [core_fwds] in Hf. inversion Hf; subst. cbn [length closing_prev htlc_hits]. rewrite !app_nil_r, N.add_0_r.
    destruct d, sc; reflexivity.
  - rewrite core_fwds_app in Hf. apply bind_ok in Hf. destruct Hf as [k1 [E1 Hf]].
    cbn [input_asserts] in Ha. apply andb_true_iff in Ha. destruct Ha as [Ha1 Ha2].
    rewrite (on_input_total g k d sc i k1 Hs E1 Ha1). cbn [bind].
    assert (Hs1 : rsig k1 = rsig k).
    { rewrite <- Hs. eapply core_fwds_flag_sig; [apply input_changes_flag | exact E1]. }
    rewrite (IH _ _ k2); cbn [d_core d_changes sc_n sc_closing sc_htlcs]; auto.
    cbn [length closing_prev htlc_hits]. rewrite <- !app_assoc.
    replace (sc_n sc + 1 + N.of_nat (length r)) with (sc_n sc + N.of_nat (S (length r))) by lia.
    reflexivity.
Qed.

Lemma dec_tx_total g k c0 t k' :
  asserts_ok g k t = true ->
  core_fwds k (tx_changes g k t) = Ok k' ->
  dec_tx g (mkd k c0) t = Ok (mkd k' (c0 ++ tx_changes g k t)).
Proof.
  intros Ha Hf. unfold asserts_ok, end_asserts in Ha. unfold tx_changes, end_changes in *.
  set (cp := closing_prev k (tx_ins t) None) in *.
  set (hits := htlc_hits k (tx_ins t) 0) in *.
  apply andb_true_iff in Ha. destruct Ha as [Ha1 Ha2]. apply andb_true_iff in Ha2. destruct Ha2 as [Ha2 Ha3].
  rewrite core_fwds_app in Hf. apply bind_ok in Hf. destruct Hf as [k1 [E1 Hf]].
  rewrite core_fwds_app in Hf. apply bind_ok in Hf. destruct Hf as [k2 [E2 Hf]].
  rewrite core_fwds_app in Hf. apply bind_ok in Hf. destruct Hf as [k3 [E3 Hf]].
  unfold dec_tx.
  rewrite (on_inputs_total g k (tx_ins t) (mkd k c0) (mksc 0 None []) k1 eq_refl E1 Ha1). cbn [bind sc_n sc_closing sc_htlcs d_changes].
  fold cp. rewrite N.add_0_l. cbn [app]. fold hits.
  assert (Hend : on_tx_end g (mkd k1 (c0 ++ inputs_changes g k (tx_ins t))) (mksc (N.of_nat (length (tx_ins t))) cp hits) t
                 = Ok (mkd k' (c0 ++ inputs_changes g k (tx_ins t) ++
                     (if tx_id t =? ftxid g then [FundingConfirmed (tx_id t, fvout g)] else []) ++
                     match cp with
                     | Some prev => match tx_close t with
                                    | Commitment our h => [UnilateralClose (tx_id t) prev our h]
                                    | NotCommitment => [MutualClose (tx_id t) prev]
                                    | CommitmentNoInfo => []
                                    end
                     | None => [] end ++ hos_changes t hits))).
  { unfold on_tx_end. cbn [sc_closing sc_htlcs].
    set (d2 := mkd k2 ((c0 ++ inputs_changes g k (tx_ins t)) ++ (if tx_id t =? ftxid g then [FundingConfirmed (tx_id t, fvout g)] else []))).
    assert (H1 : (if tx_id t =? ftxid g
                  then if fvout g <? tx_nout t then add_change (mkd k1 (c0 ++ inputs_changes g k (tx_ins t))) (FundingConfirmed (tx_id t, fvout g)) else Abort
                  else Ok (mkd k1 (c0 ++ inputs_changes g k (tx_ins t)))) = Ok d2).
    { subst d2. destruct (tx_id t =? ftxid g).
      - rewrite Ha3. unfold add_change. cbn [d_core d_changes]. cbn [core_fwds] in E2.
        apply bind_ok in E2. destruct E2 as [kk [Ek E2]]. inversion E2; subst. rewrite Ek. reflexivity.
      - cbn [core_fwds] in E2. inversion E2; subst. rewrite app_nil_r. reflexivity. }
    rewrite H1. cbn [bind].
    set (cl := match cp with
               | Some prev => match tx_close t with
                              | Commitment our h => [UnilateralClose (tx_id t) prev our h]
                              | NotCommitment => [MutualClose (tx_id t) prev]
                              | CommitmentNoInfo => []
                              end
               | None => [] end) in *.
    set (d3 := mkd k3 (d_changes d2 ++ cl)).
    assert (H2 : match cp with
                 | Some prev => match tx_close t with
                                | Commitment our htlcs => add_change d2 (UnilateralClose (tx_id t) prev our htlcs)
                                | NotCommitment => add_change d2 (MutualClose (tx_id t) prev)
                                | CommitmentNoInfo => Abort
                                end
                 | None => Ok d2 end = Ok d3).
    { subst d3 cl. destruct cp as [prev|].
      - apply andb_true_iff in Ha2. destruct Ha2 as [_ Ha2]. destruct (tx_close t); try discriminate.
        + unfold add_change. subst d2. cbn [d_core d_changes]. cbn [core_fwds] in E3.
          apply bind_ok in E3. destruct E3 as [kk [Ek E3]]. inversion E3; subst. rewrite Ek. reflexivity.
        + unfold add_change. subst d2. cbn [d_core d_changes]. cbn [core_fwds] in E3.
          apply bind_ok in E3. destruct E3 as [kk [Ek E3]]. inversion E3; subst. rewrite Ek. reflexivity.
      - cbn [core_fwds] in E3. inversion E3; subst. subst d2. cbn [d_core d_changes]. rewrite app_nil_r. reflexivity. }
    rewrite H2. cbn [bind]. unfold hos_changes in Hf |- *.
    rewrite (add_changes_total _ d3 k'); [|subst d3; cbn [d_core]; exact Hf].
    subst d3 d2. cbn [d_changes]. rewrite <- !app_assoc. reflexivity. }
  destruct cp as [prev|].
  - apply andb_true_iff in Ha2. destruct Ha2 as [Ha2 _]. apply negb_true_iff in Ha2. rewrite Ha2. exact Hend.
  - exact Hend.
Qed.

(** * A whole block *)
Inductive steps (g : cfg) : core -> block -> list change -> core -> Prop :=
| steps_nil k : steps g k [] [] k
| steps_cons k t r k1 chs k2 :
    asserts_ok g k t = true ->
    core_fwds k (tx_changes g k t) = Ok k1 ->
    steps g k1 r chs k2 ->
    steps g k (t :: r) (tx_changes g k t ++ chs) k2.

Lemma dec_txs_ok g b : forall k c0 d',
  dec_txs g (mkd k c0) b = Ok d' ->
  exists chs, steps g k b chs (d_core d') /\ d_changes d' = c0 ++ chs.
Proof.
  induction b as [|t r IH]; intros k c0 d' H; cbn [dec_txs] in H.
  - inversion H; subst. exists []. cbn [d_core d_changes]. rewrite app_nil_r. split; [constructor | reflexivity].
  - apply bind_ok in H. destruct H as [d1 [E H]].
    destruct (dec_tx_ok _ _ _ _ _ E) as [H1 [H2 H3]]. destruct d1 as [k1 c1]. cbn [d_core d_changes] in *.
    destruct (IH _ _ _ H) as [chs [Hs Hc]]. exists (tx_changes g k t ++ chs). split.
    + econstructor; eassumption.
    + rewrite Hc, H2, <- app_assoc. reflexivity.
Qed.

Lemma dec_txs_total g b : forall k c0 chs k',
  steps g k b chs k' -> dec_txs g (mkd k c0) b = Ok (mkd k' (c0 ++ chs)).
Proof.
  induction b as [|t r IH]; intros k c0 chs k' H; inversion H; subst; cbn [dec_txs].
  - rewrite app_nil_r. reflexivity.
  - rewrite (dec_tx_total g k c0 t k1) by assumption. cbn [bind].
    rewrite (IH _ _ _ _ H7). rewrite <- app_assoc. reflexivity.
Qed.

Lemma decode_block_ok g k b chs :
  decode_block g k b = Ok chs <-> exists k', steps g k b chs k'.
Proof.
  unfold decode_block. split.
  - intros H. apply bind_ok in H. destruct H as [d [E H]]. inversion H; subst.
    destruct (dec_txs_ok _ _ _ _ _ E) as [chs [Hs Hc]]. cbn [app] in Hc. rewrite Hc. eexists; exact Hs.
  - intros [k' H]. rewrite (dec_txs_total _ _ _ [] _ _ H). reflexivity.
Qed.

Lemma steps_fwds g k b chs k' : steps g k b chs k' -> core_fwds k chs = Ok k'.
Proof.
  induction 1 as [|k t r k1 chs k2 Ha Hf Hs IH]; [reflexivity|].
  rewrite core_fwds_app, Hf. cbn [bind]. exact IH.
Qed.

(** the transaction id a change carries *)
Definition change_tid (c : change) : option N :=
  match c with
  | FundingConfirmed o => Some (fst o)
  | UnilateralClose txid _ _ _ => Some txid
  | HTLCOutputSpent _ o => Some (fst o)
  | _ => None
  end.

Lemma inputs_changes_tid g k ins c : In c (inputs_changes g k ins) -> change_tid c = None.
Proof.
  unfold inputs_changes. intros H. apply in_concat in H. destruct H as [l [Hl Hc]].
  apply in_map_iff in Hl. destruct Hl as [i [<- _]]. unfold input_changes in Hc.
  apply in_app_or in Hc. destruct Hc as [Hc | Hc].
  - destruct (mem_op i (finputs g)); [destruct Hc as [<- | []]; reflexivity | destruct Hc].
  - destruct (ckind_of k i); cbn [In] in Hc; try (destruct Hc as [<- | []]; reflexivity); destruct Hc.
Qed.

Lemma tx_changes_tid g k t c x : In c (tx_changes g k t) -> change_tid c = Some x -> x = tx_id t.
Proof.
  unfold tx_changes, end_changes. intros H Hx. apply in_app_or in H. destruct H as [H | H].
  - rewrite (inputs_changes_tid _ _ _ _ H) in Hx. discriminate.
  - apply in_app_or in H. destruct H as [H | H].
    + destruct (tx_id t =? ftxid g); [|destruct H]. destruct H as [<- | []]. cbn in Hx. congruence.
    + apply in_app_or in H. destruct H as [H | H].
      * destruct (closing_prev k (tx_ins t) None); [|destruct H].
        destruct (tx_close t); cbn [In] in H; try (destruct H as [<- | []]; cbn in Hx; congruence); destruct H.
      * unfold hos_changes in H. apply in_map_iff in H. destruct H as [p [<- _]]. cbn in Hx. congruence.
Qed.

Lemma tx_changes_fc g k t o : In (FundingConfirmed o) (tx_changes g k t) -> o = fund g /\ tx_id t = ftxid g.
Proof.
  unfold tx_changes, end_changes. intros H. apply in_app_or in H. destruct H as [H | H].
  - apply inputs_changes_tid in H. discriminate.
  - apply in_app_or in H. destruct H as [H | H].
    + destruct (tx_id t =? ftxid g) eqn:E; [|destruct H]. apply N.eqb_eq in E. destruct H as [H | []].
      inversion H; subst. unfold fund. rewrite E. auto.
    + apply in_app_or in H. destruct H as [H | H].
      * destruct (closing_prev k (tx_ins t) None); [|destruct H].
        destruct (tx_close t); cbn [In] in H; try (destruct H as [H | []]; discriminate); destruct H.
      * unfold hos_changes in H. apply in_map_iff in H. destruct H as [p [H _]]. discriminate.
Qed.

Lemma steps_tid g k b chs k' c x :
  steps g k b chs k' -> In c chs -> change_tid c = Some x -> exists t, In t b /\ x = tx_id t.
Proof.
  induction 1 as [|k t r k1 chs k2 Ha Hf Hs IH]; intros Hc Hx; [destruct Hc|].
  apply in_app_or in Hc. destruct Hc as [Hc | Hc].
  - exists t. split; [left; reflexivity | eapply tx_changes_tid; eassumption].
  - destruct (IH Hc Hx) as [t' [Ht' E]]. exists t'. split; [right; exact Ht' | exact E].
Qed.
Lemma steps_fc g k b chs k' o : steps g k b chs k' -> In (FundingConfirmed o) chs -> o = fund g.
Proof.
  induction 1 as [|k t r k1 chs k2 Ha Hf Hs IH]; intros Hc; [destruct Hc|].
  apply in_app_or in Hc. destruct Hc as [Hc | Hc]; [eapply tx_changes_fc; exact Hc | apply IH; exact Hc].
Qed.
